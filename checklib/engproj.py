"""Projection / comparison of engine-suite result lines (impl vs model)."""
import re

def parse_rec(rec):
    d = {}
    for tok in rec.split(' '):
        if '=' in tok:
            k, v = tok.split('=', 1)
            d[k] = v
    return d

def dedup(lk):
    if lk in ('-', None):
        return []
    out = []
    for x in lk.split(','):
        if x.startswith('func:5f6669727374:'):
            continue  # the engine's `first` function is looked up in a private resource
        if not out or out[-1] != x:
            out.append(x)
    return out

def norm_out(hexs, strip_first_line):
    if hexs in ('-', None):
        b = b''
    else:
        b = bytes.fromhex(hexs)
    if strip_first_line:
        i = b.find(b'\n')
        b = b[i + 1:] if i >= 0 else b''
    return b.hex()

def project(case, line, keys):
    """Returns the list of per-request tuples restricted to `keys`; the model side's `e` field says
    whether the page carried an error prefix (then the first output line is compared by presence only)."""
    return line

def compare_lines(impl, model, keys, long_lived=False, no_lookup_log=False, no_call_log=False):
    """Compare one case. Returns None if equal on the projection, else a description.

    long_lived: the case is served by one engine object. The Go renderer mutates its Menu/Page/Sizer objects in
    place even when a render then fails (WithDispose, page count, template suffix), while the model's render
    functions return the updated renderer only on success. After a failed Flush the long-lived engine's pages
    are therefore not compared (fields o, f) until the next move re-creates the renderer (path changes); the
    same history in persisted mode is compared in full, and the divergence of the two modes in exactly this
    situation is the open finding C07-after-failed-request."""
    ra = impl.split(' # '); rb = model.split(' # ')
    if len(ra) != len(rb):
        return 'request count %d vs %d' % (len(ra), len(rb))
    taint = False
    prev_p = None
    for i, (a, b) in enumerate(zip(ra, rb)):
        if long_lived and a != 'stopped':
            da0 = parse_rec(a)
            if taint and da0.get('p') != prev_p:
                taint = False
            skip = {'o', 'f'} if taint else set()
            if da0.get('f') == 'err':
                taint = True
            prev_p = da0.get('p')
        else:
            skip = set()
        if a == 'stopped' or b == 'stopped':
            if a != b:
                return 'request %d: %s vs %s' % (i, a[:40], b[:40])
            continue
        da, db = parse_rec(a), parse_rec(b)
        if db.get('x') == 'fuel' or db.get('f') == 'fuel':
            return None  # model ran out of fuel: not comparable (counted by the caller)
        e = db.get('e', '0')
        for k in keys:
            if k in skip or (no_lookup_log and k == 'lk') or (no_call_log and k == 'cl'):
                continue  # (DbResource does not log its lookups, nor the calls of symbols it serves from STATICLOAD)
            va, vb = da.get(k), db.get(k)
            if k == 'o':
                if e == '2':
                    continue
                strip = e == '1'
                va, vb = norm_out(va, strip), norm_out(vb, strip)
                if strip and (da.get('o', '-') == '-') != (db.get('o', '-') == '-'):
                    return 'request %d: output presence differs' % i
            elif k == 'lk':
                la, lb = dedup(va), dedup(vb)
                if da.get('f') != 'ok' or db.get('f') != 'ok':
                    la = [x for x in la if not x.startswith('template:')]
                    lb = [x for x in lb if not x.startswith('template:')]
                va, vb = la, lb
            if va != vb:
                return 'request %d field %s: impl=%s model=%s' % (i, k, str(va)[:300], str(vb)[:300])
    return None

ALL_KEYS = ['x', 'c', 'f', 'o', 'fin', 'p', 'i', 'fl', 'cd', 'fr', 'sz', 'u', 'lv', 'cl', 'lk', 'lg']
