"""Texts for MANIFEST.json (level claimed, trusted base) per property."""

HOOK_COMMITS = []

NOTES = ("Technique family: machine-checked proof in Lean 4. Each check = lake build of the property's theorems + #print axioms audit "
         "+ differential correspondence (real Go code vs compiled Lean model on the same generated cases) + direct oracle on the real code. "
         "fix: commits in /repo and open findings are listed in known_findings.json; see DESIGN.md.")

META = {
 'C14': dict(
  text=("Kernel-checked theorems (Vise/Props/C14.lean) that for every encodable instruction and every non-empty program the model decoder returns exactly the "
        "encoded instructions and consumes exactly their bytes, for all symbol lengths 1..255 and all numbers < 2^32 in every width NewLine may use; the disassembler listing is the same "
        "instructions; NewLine and the assembler writers produce identical bytes; integers handed to NewLine in every width 0..4 (0 bytes = the empty encoding of zero) followed by another instruction are compared and decoded as well. The model is tied to vm/vm.go, vm/debug.go and asm writeSym/writeSize by running both on ~120k (quick) generated, "
        "truncated, corrupted and exhaustively enumerated byte strings and comparing every line; numSize (float) is compared with the integer width for every uint32 in the thorough tier."),
  note=("Trusted: Lean kernel + propext/Classical.choice/Quot.sound; the hand-written model (sampled agreement); harness + extractor; math.Log2 (validated exhaustively, not proved). "
        "Opcode table regenerated from vm/opcodes.go on every run and re-decided by the kernel.")),
 'C15': dict(
  text=("Kernel-checked theorems (Vise/Props/C15.lean): for ALL byte strings the model of ParseAll/ToString and of one VM decode step never panics (every Go index/slice is a guarded primitive "
        "that panics when out of range, so this is a theorem about the length checks), and ParseAll succeeds exactly on the relational format spec ValidSeq (sound and complete), i.e. never on truncated input, "
        "undefined opcodes or integers wider than 4 bytes. Tie: all truncations and random corruptions of generated programs, all strings of length <= 2, opcode-led strings over a 9-byte alphabet to depth 4/5, through "
        "both sides, plus an independent Go validity oracle and recover()."),
  note=("Trusted: Lean kernel + standard axioms; model (sampled agreement); harness. Go slices are modelled with bound len (stricter than cap). NOOP (opcode 0) is a defined instruction. "
        "Four fix: commits repaired the decoders; their witnesses are replayed on every run.")),
}

META['C09'] = dict(
  text=("Kernel-checked invariant Cache.Inv (used size = sum of stored lengths mod 2^32 and exactly below a configured capacity; total <= capacity; each key in one scope; every live key sized; "
        "no stored value above its limit) proved preserved by every operation and lifted by induction to EVERY operation sequence from NewCache (reachable_inv); plus limit_enforced_add/update, "
        "(the engine suite is run as well and compared on the cache fields: the cache as the engine configures and drives it, capacity from the configuration or from the cache object handed over) "
        "rejected_unchanged_* (the operations return the cache Go leaves behind, Update's blank-and-restore rollback is modelled and proved to restore exactly), pop_releases_frame_bytes, get_after_add. "
        "Tie: 3000 (quick) / 60000 (thorough) random op sequences over 4 keys, value lengths 0..70000 around the 16-bit boundary, limits and capacities incl. 0, every exported field compared after every op, "
        "plus an independent Go reference oracle."),
  note=("Trusted: Lean kernel + standard axioms; model (sampled agreement); harness. Hypothesis size(v)+capacity < 2^32 is explicit. Two fix: commits (uint16 truncation of the limit test, empty Update value) "
        "were needed for the property to hold; their witnesses are replayed every run. Stale Sizes entries after Reset are allowed by the statement (only live symbols are constrained)."))


_ENG_NOTE = ("Trusted: Lean kernel + propext/Classical.choice/Quot.sound; the hand-written engine model (Vise/State, Cache, Render, Vm, Engine .lean) whose agreement with the Go code is sampled: "
             "every generated session history is run on the real engine (long-lived, per-request with persister, and - a quarter of them - long-lived with a persister) and on the compiled model, and ALL exported state fields, outputs, call and lookup logs are compared per request; fractions of the histories are served with bytecode produced by the real assembler from the instructions' source text (justified by assemble_faithful), through resource.DbResource (handlers or STATICLOAD entries, application and session in one store), with a flushing persister, and next to a shadow session on shared bytecode slices - the model is not told; "
             "text/template restricted to literals and {{.name}}; CBOR as snapshot/restore; resource and handlers as parameters; fuel-bounded Run (theorems for all fuel). ")

META['C01'] = dict(
  text=("Kernel-checked: Page.render and Page.Render (prepare + joinSink + final render) return a page only if it fits the output size (render_fits, renderPage_fits, for every template, mapping, sink, menu, browse config, "
        "error prefix and index; hypothesis page < 4 GiB) and the page is the whole template instance plus whole menu (render_is_full_instance: no truncation). At the level of VM and engine: Vm.Run never changes the output size the renderer works against, for ALL programs (runLoop_out, the same walk over every instruction handler as C08's cache invariant), hence every page Vm.Render returns fits it, including the fallback to the catch node (vmRender_fits), and what Flush delivers is such a page followed by the exit value (flush_page_fits). The exit value is NOT covered by the bound: Flush appends it "
        "unchecked — negation witness flush_exit_overflow_counterexample, known finding C01-exit-suffix. Tie: render suite (1500/30000 page definitions at sizes around the natural length, all indices) + engine suite, direct oracle len(out) <= size."),
  note=_ENG_NOTE + "Open finding C01-exit-suffix is replayed every run and printed as KNOWN-FINDING.")
META['C02'] = dict(
  text=("Kernel-checked for all inputs: GetAt never panics (getAt_no_panic), a page past the cursors is an error (past_end_is_error), applyPage adds next exactly on all pages but the last and previous on all but the first "
        "(next_prev_offered[_fresh]), an index past the page count is the browse error; completeness of the row grouping for rows that are not empty: whenever joinSink succeeds, reading the flattened pages back (line feed between pages, NUL between rows) gives exactly the rows, once each, in order, wherever the size arithmetic put the breaks "
        "(joinSink_complete_partial, by a loop invariant over foldlM). With empty rows the statement is false: joinSink drops an empty row at a page start and accepts pages the final check rejects — three kernel-evaluated negation witnesses, two open known findings. Tie + oracle: the render suite reconstructs the rows from the real pages of every index and checks static parts, next/prev per page and past-the-end; the engine suite walks paginated nodes through the VM (MNEXT/MPREV handlers) and checks that the previous entry is offered on every later page."),
  note=_ENG_NOTE + "pages_partition (complete, once, in order) is left as a documented gap: it is false on the current tree.")
META['C03'] = dict(
  text=("Kernel-checked for all programs/inputs (Vise/Props/C03.lean): an INCMP that does not match does not move; the first matching INCMP (selector = input, or wildcard while nothing matched) is exactly the move to its target; "
        "wildcard honoured only by the first match; no match => MOVE _catch with the invalid-input message; '<' on page 0 is the index error, sets READIN, ignores later INCMPs and changes nothing; the invalid-input message is prepended to the rendered page as literal text for EVERY input, template syntax included (error_prefix_is_literal, since fix 3c37471). The 'once' clause is FALSE on the tree "
        "(incmp_after_match_still_moves, known finding, not repairable without editing a test); proved instead: a later INCMP moves only if its selector equals the input again."),
  note=_ENG_NOTE)
META['C04'] = dict(
  text=("Kernel-checked refinement (applyTarget_refines): for every state and every valid target the position (stack, index) after applyTarget is what the documented move table specMove gives, and a failing move leaves the position unchanged; "
        "rewind by induction over any depth; idx reset on descent/ascent; lateral moves keep the stack; '<' at index 0 fails without effect. MOVE, INCMP and CATCH all go through applyTarget in the model. The pre-VM detour of an engine with a first function puts the page index back (fix 80b4540; before it every request of a per-request engine started from page 0). Engine.Reset (reset-on-empty-input) from ANY depth, the entry node included, leaves the empty path, the base cache scope and MOVE <root> pending (reset_on_empty_input_restarts, Vise/Props/C04Reset.lean). Tie: engine suite compares path and index after every request."),
  note=_ENG_NOTE + "specMove is transcribed by hand from doc/texinfo/navigation.texi. The two explicit panics of State.Down are excluded by hypothesis (C08).")
META['C05'] = dict(
  text=("Kernel-checked: LOAD of a visible symbol is a no-op (no call); otherwise the cache after LOAD is Add(sym,result,uint16(size)) of the cache before and the external call touches neither cache, page nor position (refresh_keeps, "
        "for any handler result); an oversize result is an error and the cache is unchanged; RELOAD applies Update (accepted values, also empty, are read back: updated_value_readable); mappings are dropped by every move and resume - MOVE, INCMP and, since fix 8eb052a, CATCH (catch_drops_mappings: no mapped symbol and no menu entry of the node that was left) -; "
        "scope lifetime from C09 (get_after_add under any number of pushes, pop_releases). Tie: engine + cache suites compare cache frames, sizes, use, last value and the call log per request."),
  note=_ENG_NOTE)
META['C06'] = dict(
  text=("Kernel-checked: isWriteableFlag i <-> i >= 6 on the constants regenerated from state/flag.go (a changed threshold breaks the build); FlagSet/FlagReset lists of any content leave flags 0..5 untouched, writeable ones take effect; "
        "while TERMINATE is set Vm.Run returns at once with the VM state untouched, for every program/fuel (terminate_blocks) and Exec reports stop with calls, lookups, position, flags and cache unchanged (terminate_blocks_exec); "
        "CATCH moves iff flag = mode, CROAK drops the code iff flag = mode; dead code terminates or goes to _catch depending on READIN. The precondition of the flag theorems (a well-shaped flag array) is no assumption about the input: a new state has it and Vm.Run keeps it for every program (run_keeps_flagsOk, reachable_flagsOk: a third walk over every instruction handler)."),
  note=_ENG_NOTE)
META['C07'] = dict(
  text=("Kernel-checked: restore(snapshot e) reproduces state (minus unexported input/lastMove) and cache exactly; a fresh engine's renderer state is freshPage; every move re-creates exactly that renderer (vmReset_page_fresh) and, since fix 946bec9, so does every resume after HALT "
        "(resume_page_fresh: mappings, sink, extra, cursors, sink symbol, error prefix and the whole menu including browse configuration and page count; four fix: commits in all). The full simulation persist_equiv is NOT claimed: false after a failed request (witness theorems, known finding). "
        "Decided otherwise by the check's own two-mode oracle: every long-lived history is re-run per-request on the real engine and all outputs/cont/errors compared; histories are served in four ways (long-lived, per request with a persister, long-lived with a persister, per request around client-kept state and cache objects)."),
  note=_ENG_NOTE)
META['C08'] = dict(
  text=("Kernel-checked for ALL programs (also malformed), inputs, fuel: Vm.Run keeps the cache invariant of C09 — accounting matches contents, one scope per symbol, limits (run_keeps_cache_valid, via a relational Hoare logic over every "
        "instruction handler), and so does the whole ENGINE: Exec (init, entry function, reset on empty input, VM run, end-of-code handling) and Flush (render, unwinding), hence every request history of a long-lived engine and every snapshot ever stored in persisted operation hold a valid cache (long_lived_engine_keeps_cache_valid, persisted_engine_keeps_cache_valid); every move keeps one cache scope per navigation level (applyTarget_keeps_lockstep); moves never panic within 128 levels and no self-move (applyTarget_no_panic); decoders never panic (C15). Negation witnesses for the open "
        "findings: Down panics at level 129 / same node, CROAK breaks the lockstep. Oracle: recover() around Exec/Flush/Finish + invariants recomputed from exported fields on every request of wf=1 applications; the cache suite's accounting oracles run as well."),
  note=_ENG_NOTE + "Four open findings (duplicate-selector panic, code lost after a failed request, maxlevel, CROAK scope) are replayed every run; engine-level preservation of the scope/level lockstep and panic freedom of Exec/Flush are by correspondence + oracle, not by theorem (they are false on the tree: the findings).")
META['C17'] = dict(
  text=("Kernel-checked: a format-refused input makes Exec return its error with the engine EXACTLY as it was (exec_format_refused_no_effect: state, flags, cache, code, page, logs, bookkeeping), for every engine state, with or without first function; "
        "histories with refused inputs inserted anywhere observe the same as without them (longRun_erase_refused, by induction); a per-request engine leaves the store as it was; Flush before Exec is refused without effect; over-long input leaves the session untouched. "
        "Holds since the fix: commit moving the format check before init and, for a long-lived engine that is given a persister, since fix c056044 (a refused first input made every later request fail). Oracle: two-run erasure comparison and state-unchanged check on the real engine in all three serving modes."),
  note=_ENG_NOTE + "matchesInput is a hand-written matcher for the default pattern; custom validators are not modelled.")
META['C18'] = dict(
  text=("Kernel-checked: unknown code leaves the language unchanged, valid code selects its ISO-639-3 form, empty result resets; the language survives snapshot/restore; every code lookup, function lookup and external call is logged with exactly the context language "
        "and nothing else enters the logs (refresh_uses_lang via the OnlyFlagsLang frame); a handler returning LANG + valid code leaves that language in the state (refresh_selects_language); Exec and Flush hand the session language to VM and renderer. "
        "Tie: the harness resource records the context language of every GetTemplate/GetCode/FuncFor/handler call and the logs are compared entry by entry; language-scoped store reads (translation preferred, default as fallback) run through the db suite on all backends."),
  note=_ENG_NOTE)
META['C20'] = dict(
  text=("Kernel-checked: empty code with DIRTY => stop, exiting, exit = last value (graceful_end_detected); code ending outside input handling sets TERMINATE; a fresh engine on a code-less stored session starts with MOVE <root> (restart_injects_entry); "
        "TERMINATE blocks every later run (from C06, for all programs); unwinding at a graceful end from ANY depth: reset succeeds and leaves the empty path, exactly the base cache scope, TERMINATE cleared and every flag other than TERMINATE/DIRTY (all client flags) unchanged "
        "(engReset_unwinds, by induction over the depth, under one-scope-per-level), and a successful Flush of an ended session leaves exactly that (flush_state, flush_unwinds); a blocked session stays silent also with a first function (blocked_session_first_is_silent, since fix 5c54718); the exit value is taken from the cache and the unwinding never brings one back (graceful_end_takes_last, engReset_last, flush_end_last). That the session is marked ended exactly at a graceful end is graceful_end_detected plus correspondence and the direct oracle on stored ExecPath/Flags/Cache/LastValue."),
  note=_ENG_NOTE + "Open finding C20-blocked-request-renders-after-failed-request (a request that failed after TERMINATE was set leaves the page-pending flag stored) is replayed every run.")


_DB_NOTE = ("Trusted: Lean kernel + standard axioms; the hand-written Db model (Vise/Db.lean) whose agreement with db/db.go, db/mem, db/fs (text and binary keys, Dump) and db/postgres (over harness/internal/pgfake) is sampled by identical "
            "operation sequences; constants (type bits, lock mask, sessioned threshold, separators, fs type offset) regenerated from the source. path.Join cleaning and gdbm not modelled. ")
META['C10'] = dict(
  text=("Kernel-checked on the memory map and the filesystem name map: Get after a successful Put at the same coordinates returns the value (mem_get_after_put, fs_get_after_put); a write under a different storage key leaves a read unchanged; "
        "language read falls back to the default entry; never-written is the distinguished not-found; Put to a locked type is refused with the store unchanged (both backends); the default lock covers the four read-only types; a sealed store refuses every SetLock and sealing locks them all. "
        "Listing (fs Dump) is modelled and compared but not exact on the tree (known finding). Tie/oracle: 300/6000 op sequences x {mem, fs, fs-binary, pg-fake} against a reference map keyed by exact coordinates."),
  note=_DB_NOTE)
META['C11'] = dict(
  text=("Kernel-checked: the storage key is injective on (type, session, key) for dot-free session ids both empty or both non-empty (storageKey_injective_on, via append_sep_inj), the type byte alone separates data types, hence isolation of reads from writes elsewhere on the memory map "
        "(mem_isolation; the pg wrapper uses the same keys), and the fs primary names are injective. Outside that domain the property is false: three kernel-evaluated negation witnesses (dot collision, empty-session collision, fs legacy name drops the type byte), "
        "two open known findings replayed on mem, fs and pg-fake. Listing: every row the Postgres Dump hands out is a row of the table whose storage key starts with the storage key of (current type, session, requested prefix), so records of other types or sessions are never listed (pg_dump_confined, pg_dump_same_type; since fix 32ead21 - before it the listing ran on into higher data types); the filesystem listing only shows files whose names decode in the current session under the requested prefix and type, with the value a Get returns (fs_dump_confined). Oracle: after every write every read, and every listed entry of fs and pg Dump, is checked against a reference keyed by exact coordinates over an adversarial alphabet (dots, type characters, language-like suffixes, empty session, keys crafted to spell another session's file name)."),
  note=_DB_NOTE)

META['C13'] = dict(
  text=("Kernel-checked over an abstract transactional driver with numbered failing calls - begin, statement, advance to a row, row scan, commit, rollback - (Vise/PgTx.lean), for EVERY fault set, key, value and driver state: no operation of the wrapper panics (never_panics); a single-operation Put on an idle handle either "
        "acknowledges and the value is committed, or reports an error and the committed table is exactly as before, and in both cases leaves no transaction open (put_single, put_leaves_no_tx, put_ack_committed, put_error_changes_nothing); "
        "a fault at any primitive call it makes is reported (put_fault_reports_error); without faults it succeeds (put_succeeds_without_faults: not wedged); Get/Start/Stop/Abort/Close leave no transaction open in single-operation mode; "
        "an all-successful explicit transaction commits the last value of every key at Stop and nothing at Abort (multi_stop_commits_all, multi_abort_commits_none, any number of writes); "
        "writes and successful reads inside it - through the translation key or the default key - leave it open with the same pending table and the committed table untouched (puts_in_multi, query_in_multi, get_found_in_multi); "
        "for EVERY operation sequence and fault set from a fresh handle the driver's log is well bracketed - begin i / end i pairs with ids 0,1,2,.. in order plus one unmatched begin exactly when a transaction is open - so every transaction begun is ended exactly once and never two are open "
        "(log_well_bracketed, ended_exactly_once, by an invariant over all six operations). Holds since two fix: commits. "
        "Tie/oracle: ALL operation sequences up to length 3 (4 thorough) over a 10-op alphabet x no fault / every single / every pair of failing calls, plus 1500/30000 random longer sequences with up to 3 faults, on the real wrapper over the fake and on the model, every result, the begin/commit/rollback log, committed table and open flag compared."),
  note=("Trusted: Lean kernel + standard axioms; the hand-written wrapper model and the abstract driver (which specifies the harness's in-process fake, not a PostgreSQL server); harness. pgDb.multi is never cleared by Stop (test-endorsed), so single-operation clauses are for handles never put into explicit mode. The direct oracle also requires that no write of an open explicit transaction is visible before Stop. Dump is modelled under C11 (listing), not here."))

META['C16'] = dict(
  text=("Kernel-checked end to end (assemble_faithful; assemble_faithful_general for menu batches ANYWHERE between the regular lines, each expanding where it stands with its own lines only - since fix 742ff25, before it a second batch repeated the first): for EVERY program of documented line forms with safe arguments, in any layout (blank runs, trailing blanks/comments, CR/LF line ends with blank lines), the model of asm.Parse - "
        "participle lexer (lex_text: a well-formed, separated token list is lexed back from its text), struct-tag grammar, numeric conversion (parseUint0_fmtUint), parseOne, MenuAdd, ToLines - succeeds and writes exactly the encodings of the "
        "instructions written, one per line, in order, batch lines expanded to MOUT/MNEXT/MPREV.. HALT INCMP..; composed with C14 the decoder returns exactly those instructions (assemble_decodes). Outside the safe domain the property is false: nine kernel-evaluated "
        "witnesses (leading-zero and digit-led selectors altered, nil dereference, upper-case-led names and big numeric selectors refused, octal sizes), five open known findings; three fix: commits (over-long strings, batch items kept). "
        "Tie/oracle: 14k/200k sources (valid programs with one risk feature each, layout variants, token soup) through asm.Parse and the model, bytes compared; lexer compared token by token with a participle lexer built from the source's rules; strconv conversions compared; "
        "an independent Go reading of every documented-valid source with its own encoder decides altered / refused / panic per line."),
  note=("Trusted: Lean kernel + standard axioms; hand-written model of participle v2.0.0 for this grammar (rule patterns, struct tags, elided types regenerated from asm/asm.go and pinned); the documented grammar transcribed by hand twice (Lean spec, Go oracle); harness. "
        "dev/asm preprocessor not modelled."))

META['C12'] = dict(
  text=("Kernel-checked for EVERY save pattern in the safe language (reads; exclusive temporary file; any number of writes, syncs, closes; one rename over the record; reads), every crash point k, every directory content and value: the record reads as the complete old or the complete new content, "
        "all other records are untouched (safe_save_is_crash_atomic, by phase induction over the operation string), and a fresh process continues from the old or the new state, never a silent restart (safe_save_session_continues); the pre-fix pattern (O_TRUNC open, write) is proved torn at the first crash point and to restart silently, and removing the record before the rename is shown to lose it (remove_before_rename_loses_record, kernel-evaluated). "
        "Tie: the real engine saves a generated session history on the real fs store in a child process under strace; the system calls of the save are abstracted to the operation string, the model's pattern check is evaluated on it (a different pattern breaks the obligation), and the process is KILLED on entry to every call of the save in turn; "
        "after each kill the record (decoded) and the next request served by a fresh process are compared with the model's prediction and with reference runs. Holds since one fix: commit (temp file + fsync + rename)."),
  note=("Trusted: Lean kernel + standard axioms; the operation-level crash model (process death at system-call boundaries; rename atomic); strace-based injection and the harness's call abstraction; CBOR as a parameter. Power-loss durability beyond fsync ordering is not modelled. gdbm/pg backends are out of scope of C12."))

META['C19'] = dict(
  text=("PARTIAL. Kernel-checked: for ANY step function over shared immutable data and private per-session state, every interleaving of the sessions' requests gives each session exactly the transcript and final state it gets alone (sessions_non_interference, by induction over the schedule), "
        "instantiated with the engine model (engine_sessions_independent); on a heap-and-slice model of Go slices the clipped append the VM uses since the fix: commit never changes what any existing slice reads (clippedAppend_frame) and every interleaving of appends leaves each session's pending code buffer exactly what its own appends made it (buffers_non_interference), "
        "whereas the plain append lets two sessions overwrite each other's code (plain_append_interferes, kernel-evaluated; the defect was reproduced on the real engine: wrong pages and data races). "
        "Tie: the slice model is compared with real Go slices op by op; the reviewed inventory of process-wide state and the form of every append in vm/runner.go are regenerated facts pinned by #guard; "
        "the real engines of 2..16 sessions sharing one application (bytecode slices with and without spare capacity; long-lived, per-request over private mem stores, per-request over one fs directory) run concurrently for many rounds under the race detector, "
        "transcripts compared with the sequential ones and with the Lean engine model's, race reports attributed per case."),
  note=("Trusted: Lean kernel + standard axioms; engine model; slice model (sampled agreement with Go); the go/ast inventory and its review; the Go race detector and the schedules it happened to see. Interleavings at the memory-model level are NOT proved (partial)."))

NOT_APPLICABLE = {



 'C09': 'not claimed yet: under construction',



}


# Tie by regeneration (harness/cmd/gotrans + lean/Vise/Tie): appended to the level text of the properties that have one.
_TIE_TEXT = {
 'C14': "vm.opSplit, vm.instructionSplit",
 'C15': "vm.opSplit, vm.instructionSplit (the regenerated definitions make every run-time panic explicit: there is none)",
 'C01': "render.Sizer.Check and Menu.reset",
 'C02': "State.Next/Previous/Sides/Top/Same, Menu.reset, Sizer.Check",
 'C03': "State.Previous (IndexError on page 0), Next, Top, Same",
 'C04': "State.Next/Previous/Same/Top/Sides and Down/Up/Where/Depth (panics included)",
 'C08': "State.Down/Up/Where/Depth (the regenerated definitions make every run-time panic explicit: only Down's two explicit ones exist)",
 'C05': "Cache.checkCapacity, Levels",
 'C06': "state.IsWriteableFlag, toByteSize",
 'C09': "Cache.checkCapacity, Levels",
 'C10': "DbBase.Safe, CheckPut, SetLock (defaultLock inlined)",
 'C11': "db.ToDbKey, DbBase.ToSessionKey, db.FromDbKey (never panics), DbBase.FromSessionKey",
}
for _p, _t in _TIE_TEXT.items():
    if _p in META:
        META[_p]['text'] = META[_p]['text'] + (" Regenerated tie: " + _t + " are translated from the current Go source into Lean on every run (harness/cmd/gotrans) and "
            "proved equal to the model's definitions (lean/Vise/Tie); a change to one of these functions breaks a named equation.")
        META[_p]['technique'] = ("Lean 4 theorems about a hand-written executable model; model tied to the Go code by a differential correspondence check, regenerated constants, "
            "and for its straight-line integer/byte-string functions by Go-to-Lean translation on every run with kernel-checked equality to the model")
