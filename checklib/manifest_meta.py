"""Texts for MANIFEST.json (level claimed, trusted base) per property."""

HOOK_COMMITS = []

NOTES = ("Technique family: machine-checked proof in Lean 4. Each check = lake build of the property's theorems + #print axioms audit "
         "+ differential correspondence (real Go code vs compiled Lean model on the same generated cases) + direct oracle on the real code. "
         "fix: commits in /repo and open findings are listed in known_findings.json; see DESIGN.md.")

META = {
 'C14': dict(
  text=("Kernel-checked theorems (Vise/Props/C14.lean) that for every encodable instruction and every non-empty program the model decoder returns exactly the "
        "encoded instructions and consumes exactly their bytes, for all symbol lengths 1..255 and all numbers < 2^32 in every width NewLine may use; the disassembler listing is the same "
        "instructions; NewLine and the assembler writers produce identical bytes. The model is tied to vm/vm.go, vm/debug.go and asm writeSym/writeSize by running both on ~120k (quick) generated, "
        "truncated, corrupted and exhaustively enumerated byte strings and comparing every line; numSize (float) is compared with the integer width for every uint32 in the thorough tier."),
  note=("Trusted: Lean kernel + propext/Classical.choice/Quot.sound; the hand-written model (sampled agreement); harness + extractor; math.Log2 (validated exhaustively, not proved). "
        "Opcode table regenerated from vm/opcodes.go on every run and re-decided by the kernel.")),
 'C15': dict(
  text=("Kernel-checked theorems (Vise/Props/C15.lean): for ALL byte strings the model of ParseAll/ToString and of one VM decode step never panics (every Go index/slice is a guarded primitive "
        "that panics when out of range, so this is a theorem about the length checks), and ParseAll succeeds exactly on the relational format spec ValidSeq (sound and complete), i.e. never on truncated input, "
        "undefined opcodes or integers wider than 4 bytes. Tie: all truncations and random corruptions of generated programs, all strings of length <= 2, opcode-led strings over a 9-byte alphabet to depth 4/5, through "
        "both sides, plus an independent Go validity oracle and recover()."),
  note=("Trusted: Lean kernel + standard axioms; model (sampled agreement); harness. Go slices are modelled with bound len (stricter than cap). NOOP (opcode 0) is a defined instruction. "
        "Four fix: commits repaired the decoders; their witnesses are replayed on every run.")),
}

META['C09'] = dict(
  text=("Kernel-checked invariant Cache.Inv (used size = sum of stored lengths mod 2^32 and exactly below a configured capacity; total <= capacity; each key in one scope; every live key sized; "
        "no stored value above its limit) proved preserved by every operation and lifted by induction to EVERY operation sequence from NewCache (reachable_inv); plus limit_enforced_add/update, "
        "rejected_unchanged_* (the operations return the cache Go leaves behind, Update's blank-and-restore rollback is modelled and proved to restore exactly), pop_releases_frame_bytes, get_after_add. "
        "Tie: 3000 (quick) / 60000 (thorough) random op sequences over 4 keys, value lengths 0..70000 around the 16-bit boundary, limits and capacities incl. 0, every exported field compared after every op, "
        "plus an independent Go reference oracle."),
  note=("Trusted: Lean kernel + standard axioms; model (sampled agreement); harness. Hypothesis size(v)+capacity < 2^32 is explicit. Two fix: commits (uint16 truncation of the limit test, empty Update value) "
        "were needed for the property to hold; their witnesses are replayed every run. Stale Sizes entries after Reset are allowed by the statement (only live symbols are constrained)."))

NOT_APPLICABLE = {
 'C01': 'not claimed yet: model and check under construction in this round (planned: Vise/Render.lean, Props/C01.lean)',
 'C02': 'not claimed yet: under construction', 'C03': 'not claimed yet: under construction', 'C04': 'not claimed yet: under construction',
 'C05': 'not claimed yet: under construction', 'C06': 'not claimed yet: under construction', 'C07': 'not claimed yet: under construction',
 'C08': 'not claimed yet: under construction', 'C09': 'not claimed yet: under construction', 'C10': 'not claimed yet: under construction',
 'C11': 'not claimed yet: under construction', 'C12': 'not claimed yet: under construction', 'C13': 'not claimed yet: under construction',
 'C16': 'not claimed yet: under construction', 'C17': 'not claimed yet: under construction', 'C18': 'not claimed yet: under construction',
 'C19': 'not claimed yet: under construction', 'C20': 'not claimed yet: under construction',
}
