import re
"""Per-property configuration of ./check: Lean targets, harness suites, projections, trusted base."""

TRUSTED_COMMON = [
    "Lean 4.33.0 kernel; axioms audited per theorem on every run (subset of propext, Classical.choice, Quot.sound); no sorry/admit/native_decide/bv_decide/own axioms",
    "hand-written executable Lean model (lean/Vise/*.lean); its agreement with the Go code is sampled by the correspondence check, not proved",
    "Go harness (generators, canonicalisation, direct oracles, recover wrapper) and the go/ast fact extractor",
]

from engproj import compare_lines

def eng(keys):
    return lambda case, impl, model: compare_lines(impl, model, keys, long_lived=case.startswith('mode=long') or case.startswith('mode=lp'), no_lookup_log=' res=db' in case,
                                               no_call_log=' res=db' in case and re.search(r' opt=\S*static', case) is not None)

ENGINE_TRUSTED = [
    "text/template is modelled for literal text and {{.name}} placeholders only (missingkey=error); templates of the cases use nothing else; client inputs may contain anything, including template actions - since the fix that prepends the error text to the rendered output they never reach the template parser",
    "CBOR round trip of the exported State/Cache fields is modelled as snapshot/restore; every persisted-mode case goes through the real persister and memory store",
    "resource lookups and external functions are parameters of the model (tables in the case); lang.LanguageFromCode is a parameter filled from the codes used; about a fifth of the cases are served through the library's own resource.DbResource over a mem or fs store holding the same tables (bytecode under BIN, templates under TEMPLATE, labels under MENU as <sym>_menu, translations under their language), so resource/db.go and the store's language fallback are inside the compared behaviour",
    "how a case is served is varied by the harness without telling the model: bytecode produced by the real assembler from the instructions' source text (inside the domain of assemble_faithful), a persister WithFlush(), application and session in one store object, handler symbols with fixed content stored under STATICLOAD (their calls are then not logged and not compared), a second independent session served from the same bytecode slices between the requests, and a third serving mode (one long-lived engine that is given a persister); the ISO-639 table of the cases (part 1, part 3, part 2 bibliographic codes) is written down in the harness",
    "Vm.Run is structurally recursive on fuel (Cfg.fuel, 2000 in the driver; exhaustion is reported, never compared); theorems hold for every fuel",
    "error texts that reach a page as prefix are reproduced byte for byte for the VM's own messages; others are marked and compared by presence only",
]

PROPS = {}

PROPS['C14'] = dict(
    prop_modules=['Vise.Props.C14'],
    lean_targets=['Vise.Props.C14'],
    suites=['codec'],
    trusted=[
        "math.Log2 in asm.numSize: the theorem is about the integer byte width; numSize is compared with it for every uint32 in the thorough tier and on a stride plus all powers of two +-2 in the quick tier",
        "NOOP is invisible through the ParseHandler callback API and is filtered from the compared instruction lists",
    ],
    assumptions=["symbols/selectors 1..255 bytes, numbers < 2^32 (the encodable domain)"],
)

PROPS['C15'] = dict(
    prop_modules=['Vise.Props.C15'],
    lean_targets=['Vise.Props.C15'],
    suites=['codec'],
    trusted=[
        "Go slice expressions are modelled with bounds len(b) (stricter than cap(b)): reading spare capacity counts as a panic in the model",
        "opcode 0 (NOOP) is in the opcode table and therefore a defined, argument-less instruction",
    ],
    assumptions=[],
)

PROPS['C09'] = dict(
    prop_modules=['Vise.Props.C09'],
    lean_targets=['Vise.Props.C09'],
    suites=['cache', 'engine'],
    compare={'engine': eng(['x', 'fr', 'sz', 'u'])},
    trusted=ENGINE_TRUSTED + ["the engine suite is compared on the cache fields only (frames, declared sizes, used size): the cache as the engine configures and drives it (capacity from the configuration or from the cache object handed over)"] + [
        "values are (tag,length) stand-ins on the Lean side and runs of one byte on the Go side; only lengths and identity matter to cache.go",
        "Go map iteration order is irrelevant to every modelled result (frameOf returns the outermost defining frame; keys unique by the invariant); map-derived output is sorted before comparison",
    ],
    assumptions=["size(v) + capacity < 2^32 for every stored value (uint32 wrap needs 4 GiB of values; not replayable)",
                 "limits are uint16 (0..65535), as the API types them"],
)

PROPS['C01'] = dict(
    prop_modules=['Vise.Props.C01', 'Vise.Props.C01Engine'], lean_targets=['Vise.Props.C01', 'Vise.Props.C01Engine'], suites=['render', 'engine'],
    compare={'engine': eng(['x', 'c', 'f', 'o'])},
    trusted=ENGINE_TRUSTED + ["pages of 4 GiB and more (uint32 wrap of len) are excluded by hypothesis r.length < 2^32"],
    assumptions=["OutputSize > 0"],
)

PROPS['C04'] = dict(
    prop_modules=['Vise.Props.C04', 'Vise.Props.C04Reset'], lean_targets=['Vise.Props.C04', 'Vise.Props.C04Reset'], suites=['engine'],
    compare={'engine': eng(['x', 'p', 'i'])},
    trusted=ENGINE_TRUSTED + ["the move table is transcribed by hand from doc/texinfo/navigation.texi into specMove"],
    assumptions=["SizeIdx wrap at 65536 consecutive 'next' moves is modelled (mod 65536) but not replayed"],
)

PROPS['C06'] = dict(
    prop_modules=['Vise.Props.C06', 'Vise.Props.C06Reach'], lean_targets=['Vise.Props.C06', 'Vise.Props.C06Reach'], suites=['engine'],
    compare={'engine': eng(['x', 'c', 'f', 'o', 'fl', 'cl', 'p', 'i'])},
    trusted=ENGINE_TRUSTED + ["flag threshold, comparison operator and flag numbers are regenerated from state/flag.go on every run"],
    assumptions=[],
)

PROPS['C17'] = dict(
    prop_modules=['Vise.Props.C17'], lean_targets=['Vise.Props.C17'], suites=['engine'],
    compare={'engine': eng(['x', 'c', 'f', 'o', 'p', 'i', 'fl', 'cd', 'fr', 'cl'])},
    trusted=ENGINE_TRUSTED + ["Go regexp for the default input pattern is modelled by a hand-written matcher (matchesInput), compared on every generated input; custom validators (AddValidInput) are not modelled"],
    assumptions=["engines without custom input validators"],
)

PROPS['C03'] = dict(
    prop_modules=['Vise.Props.C03'], lean_targets=['Vise.Props.C03'], suites=['engine'],
    compare={'engine': eng(['x', 'c', 'f', 'p', 'i', 'o', 'fl'])},
    trusted=ENGINE_TRUSTED, assumptions=["flag field well-formed (FlagsOk: the 8 built-in flags exist), as NewState guarantees"],
)
PROPS['C05'] = dict(
    prop_modules=['Vise.Props.C05', 'Vise.Props.C05Catch'], lean_targets=['Vise.Props.C05', 'Vise.Props.C05Catch'], suites=['engine', 'cache'],
    compare={'engine': eng(['x', 'f', 'fr', 'sz', 'u', 'lv', 'cl', 'o'])},
    trusted=ENGINE_TRUSTED, assumptions=["declared sizes 0..65535 (a larger LOAD size is truncated to uint16 by the VM, outside the property's domain)"],
)
PROPS['C07'] = dict(
    prop_modules=['Vise.Props.C07'], lean_targets=['Vise.Props.C07'], suites=['engine'],
    compare={'engine': eng(['x', 'c', 'f', 'o', 'fin'])},
    trusted=ENGINE_TRUSTED + ["backends: the engine suite persists through the memory store; filesystem and Postgres-fake stores are covered by C10's map refinement (Save/Load is Put/Get of one key)",
                              "with a `first` function the two modes differ by design (it runs once per engine object); such cases are excluded from the mode comparison"],
    assumptions=["histories up to the end of the session"],
)
PROPS['C08'] = dict(
    prop_modules=['Vise.Props.C08', 'Vise.Props.C08Engine'], lean_targets=['Vise.Props.C08', 'Vise.Props.C08Engine'], suites=['engine', 'cache'],
    compare={'engine': eng(['x', 'f', 'fin', 'p', 'i', 'fr', 'sz', 'u'])},
    trusted=ENGINE_TRUSTED + ["well-formedness (wf=1) is established by the generator's construction rules, not re-checked"],
    assumptions=["external results + capacity < 2^32 (EnvBounded)"],
)
PROPS['C18'] = dict(
    prop_modules=['Vise.Props.C18'], lean_targets=['Vise.Props.C18'], suites=['engine', 'db'],
    compare={'engine': eng(['x', 'lk', 'cl', 'lg', 'o'])},
    trusted=ENGINE_TRUSTED + ["the ISO-639 table (github.com/barbashov/iso639-3) is a parameter; the harness fills it by hand for the codes it uses (nor/no, eng/en, swa, fra/fr) and the real LanguageFromCode runs on the Go side",
                              "gettext PO resources (resource/gettext.go) are not modelled"],
    assumptions=[],
)
PROPS['C20'] = dict(
    prop_modules=['Vise.Props.C20', 'Vise.Props.C20Unwind'], lean_targets=['Vise.Props.C20', 'Vise.Props.C20Unwind'], suites=['engine'],
    compare={'engine': eng(['x', 'c', 'f', 'o', 'fin', 'p', 'fl', 'fr', 'cd', 'u', 'lv'])},
    trusted=ENGINE_TRUSTED, assumptions=["the two-mode comparison is switched off for engines with a `first` function (it runs once per engine object by design); everything else applies to them as well"],
)

PROPS['C02'] = dict(
    prop_modules=['Vise.Props.C02', 'Vise.Props.C02Pages'], lean_targets=['Vise.Props.C02', 'Vise.Props.C02Pages'], suites=['render', 'engine'],
    compare={'engine': eng(['x', 'f', 'o', 'i'])},
    trusted=ENGINE_TRUSTED + ["the render suite renders every index on a fresh Page/Menu/Sizer, as the engine does per request; walking with the next selector through the engine is covered by the engine suite's lst/sub nodes"],
    assumptions=["OutputSize > 0"],
)

DB_TRUSTED = [
    "path.Join cleaning is not modelled: keys and session ids containing '/' or equal to '.' are outside the domain",
    "binary-key mode: base64 is a parameter of the model (theorems hold for any encoder); the driver uses its own base64 implementation, compared with Go's on every generated key",
    "the Postgres wrapper is exercised over the in-process fake driver (harness/internal/pgfake); without injected faults the model treats it as the memory map on the same storage keys (C13 models the transactions)",
    "db/gdbm (cgo) is not built in this sandbox and not modelled",
    "Postgres listing (Dump): the model works on the rows in key order, which is what the fake server returns for the query (the query has no ORDER BY; a real server may return another order); it is exercised in the adversarial domain for C11's isolation clause only (C10 states listing for the filesystem backend); Dump resets the handle's language, which model and harness bookkeeping reproduce",
]
PROPS['C10'] = dict(
    prop_modules=['Vise.Props.C10'], lean_targets=['Vise.Props.C10'], suites=['db'],
    trusted=DB_TRUSTED, assumptions=["well-formed keys (symbol grammar, not ending in a language suffix), dot-free session ids for the C10 oracle (dom=wf cases)"],
)
PROPS['C11'] = dict(
    prop_modules=['Vise.Props.C11'], lean_targets=['Vise.Props.C11'], suites=['db'],
    trusted=DB_TRUSTED, assumptions=["injectivity is proved for dot-free session ids, both empty or both non-empty; outside it the negation is proved and recorded as known finding"],
)

PG_TRUSTED = [
    "the transactional driver is an abstract machine (Vise/PgTx.lean: Drv) that specifies harness/internal/pgfake: one committed table, an open transaction buffering its writes, a failed statement or row fetch poisons the transaction, Commit of a poisoned transaction rolls back, Rollback always ends it, numbered primitive calls fail where listed; a real PostgreSQL server and pgx's pool are not modelled",
    "the wrapper is driven through its public API with the pgx pool interface (WithConnection) exactly as its own tests drive pgxmock; storage keys are C10/C11's",
]
PROPS['C13'] = dict(
    prop_modules=['Vise.Props.C13', 'Vise.Props.C13Log'], lean_targets=['Vise.Props.C13', 'Vise.Props.C13Log'], suites=['pg'],
    trusted=PG_TRUSTED, assumptions=["a handle that has been used with Start stays in explicit-transaction mode after Stop (Stop does not clear it; TestPostgresTxStartStop relies on that), so the single-operation clauses are stated for handles never put into that mode"],
)

PROPS['C16'] = dict(
    prop_modules=['Vise.Props.C16', 'Vise.Props.C16Segs'], lean_targets=['Vise.Props.C16', 'Vise.Props.C16Segs'], suites=['asm'],
    trusted=[
        "participle v2.0.0 (third-party lexer/parser generator) is modelled by hand for THIS grammar: first-matching-rule lexer, struct-tag grammar with PeekAny semantics for elided tokens, greedy optional groups, strconv.ParseUint base 0 for numeric captures; the rule patterns, struct tags and elided token types are regenerated from asm/asm.go and pinned by #guard, so a grammar edit breaks the build; the lexer is also compared token by token with a participle lexer built from the rules found in the source",
        "the independent reading of a source (Vise/AsmSpec.lean on the Lean side, specParse in the harness on the Go side) is transcribed by hand from doc/texinfo/instructions.texi; comment-only, blank-with-spaces and leading blank lines are not documented and are outside it",
        "dev/asm/main.go (the command line front end, package main) is built as it is and run as a process on generated sources: without -f its output must equal the model of asm.Parse, with -f (flag preprocessor, asm/flag.go) the model replaces the flag names of CATCH/CROAK by their numbers first; the preprocessor's own lexer is not modelled beyond that",
        "participle's MaxIterations (1,000,000 lines) is not modelled",
    ],
    assumptions=["the theorem's domain SafeProg: names starting with a lower-case letter or one of _ * . ^ < >, selectors that are the wildcard, such a name, or a canonical decimal below 2^32, numbers below 2^32, batch lines last; everything else documented is covered by the oracle and the known findings"],
)

PROPS['C12'] = dict(
    prop_modules=['Vise.Props.C12'], lean_targets=['Vise.Props.C12'], suites=['crash'],
    trusted=[
        "a crash is the death of the process at a system-call boundary: each file operation of the save either took effect or did not (a short write is one more, shorter write); the kernel's own atomicity of rename(2) and of directory updates, and durability across power loss (the fix also fsyncs), are assumed, not modelled",
        "strace (ptrace) kill injection on entry to the k-th call of the child's main thread (the child locks its goroutine to the main thread, GOMAXPROCS=1); the abstraction of traced calls to operation letters is done by the harness and re-checked by comparing the killed run's trace prefix with the dry run",
        "records are compared decoded (the CBOR bytes of one state differ between runs because of Go map order); CBOR itself is a parameter `dec` of the model",
        "the engine clause uses the real engine in a fresh process for the next request and compares its output with reference runs from the old, the new and an empty store",
    ],
    assumptions=["the temporary file name is fresh (ioutil.TempFile) and differs from every record name"],
)

def conc_compare(case, impl, model):
    if case.startswith('slice '):
        return None if impl == model else 'slice model differs'
    if impl.startswith('DIFF '):
        return impl
    a, b = impl.split(' @@ '), model.split(' @@ ')
    if len(a) != len(b):
        return 'session count %d vs %d' % (len(a), len(b))
    for i, (x, y) in enumerate(zip(a, b)):
        d = compare_lines(x, y, ['x', 'c', 'f', 'o'])
        if d:
            return 'session %d: %s' % (i, d)
    return None

PROPS['C19'] = dict(
    prop_modules=['Vise.Props.C19'], lean_targets=['Vise.Props.C19'], suites=['conc'],
    compare={'conc': conc_compare},
    trusted=ENGINE_TRUSTED + [
        "PARTIAL: goroutine interleavings, the Go memory model and the race detector's happens-before analysis are not expressible in the Lean model; they are exercised by running the real engines concurrently under -race (the schedules the Go scheduler produces over the rounds of each case, with random yields), which samples schedules and proves nothing about the unsampled ones",
        "the Lean side proves (a) non-interference of every interleaving for any step function over shared immutable data and private per-session state, instantiated with the engine model, and (b) the frame property of the clipped append on a heap-and-slice model of Go slices, which is compared with real Go slices operation by operation",
        "that the library has no other shared mutable state is a reviewed inventory (package-level variables, assignments to them outside init, method calls on them, the first argument of every append in vm/runner.go) regenerated from the source by the go/ast extractor on every run and pinned in Vise/Pins/C19.lean; aliasing through other APIs (maps, pointers handed out by a resource) is not analysed",
    ],
    assumptions=["sessions share only the application data; vm.RegisterInputValidator, state.FlagDebugger registration and logging.LogWriter are set-up-time APIs not called while sessions are served"],
)

# Tie by regeneration: definitions translated from the CURRENT Go source by harness/cmd/gotrans (one Lean file per
# function under lean/Vise/Gen/Fn, rewritten on every run) are proved EQUAL to the model's definitions in
# lean/Vise/Tie/*.lean. The equations are obligations of the property whose theorems rest on these functions.
TIE = {
    'C14': (['Vise.Tie.Codec'], "vm.opSplit and vm.instructionSplit (the two decoding steps every instruction goes through)"),
    'C15': (['Vise.Tie.Codec'], "vm.opSplit and vm.instructionSplit: errors exactly where the model has them and no reachable run-time panic (`none` of the regenerated definition)"),
    'C01': (['Vise.Tie.Render'], "render.Sizer.Check (the comparison every size theorem rests on) and render.Menu.reset"),
    'C02': (['Vise.Tie.StateNav', 'Vise.Tie.Render'], "state.State.Next / Previous / Sides / Top / Same (page index arithmetic and which lateral entries are on offer), render.Menu.reset (re-arming of the lateral entries) and render.Sizer.Check"),
    'C03': (['Vise.Tie.StateNav'], "state.State.Previous (IndexError on page 0, the 'no match' case of '<') and Next / Top / Same"),
    'C04': (['Vise.Tie.StateNav', 'Vise.Tie.StateStack'], "state.State.Next / Previous / Same / Top / Sides (page index, move counter, last move) and Down / Up / Where / Depth (the navigation stack, with both explicit panics of Down)"),
    'C08': (['Vise.Tie.StateStack'], "state.State.Down, Up, Where and Depth (the navigation stack; `none` of the regenerated definition is a run-time panic: the two explicit panics of Down are the only ones, no index or slice expression is ever out of range)"),
    'C05': (['Vise.Tie.Cache'], "cache.Cache.checkCapacity and Levels"),
    'C06': (['Vise.Tie.StateFlags'], "state.IsWriteableFlag and toByteSize"),
    'C09': (['Vise.Tie.Cache'], "cache.Cache.checkCapacity and Levels"),
    'C10': (['Vise.Tie.DbLock'], "db.DbBase.Safe, CheckPut and SetLock with defaultLock inlined (the write-protection tests, locking, unlocking and sealing)"),
    'C11': (['Vise.Tie.DbKey'], "db.ToDbKey and db.DbBase.ToSessionKey (the storage key derivation the injectivity theorems are about), and their inverses db.FromDbKey and DbBase.FromSessionKey (what a listing decodes; FromDbKey never panics)"),
}
for _p, (_mods, _what) in TIE.items():
    PROPS[_p]['prop_modules'] = PROPS[_p]['prop_modules'] + _mods
    PROPS[_p]['lean_targets'] = PROPS[_p]['lean_targets'] + _mods
    PROPS[_p]['trusted'] = PROPS[_p]['trusted'] + [
        "regenerated tie: " + _what + " are translated from the current Go source by harness/cmd/gotrans (a go/ast + go/types "
        "translator for straight-line integer / byte-string code: uintN as Nat reduced mod 2^N after every operation, receiver fields as "
        "parameters, assigned fields returned, argument-less methods of the receiver inlined, logging dropped; functions that index, slice or panic are translated into the Option monad with Go's bounds checks written out and `int` as Int) and proved equal to the model's definitions (" + ', '.join(_mods) +
        "); trusted here: the translator itself (about 900 lines) and Go's semantics of the translated fragment; the rest of the model is tied by sampling"]
