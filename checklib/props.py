"""Per-property configuration of ./check: Lean targets, harness suites, projections, trusted base."""

TRUSTED_COMMON = [
    "Lean 4.33.0 kernel; axioms audited per theorem on every run (subset of propext, Classical.choice, Quot.sound); no sorry/admit/native_decide/bv_decide/own axioms",
    "hand-written executable Lean model (lean/Vise/*.lean); its agreement with the Go code is sampled by the correspondence check, not proved",
    "Go harness (generators, canonicalisation, direct oracles, recover wrapper) and the go/ast fact extractor",
]

from engproj import compare_lines

def eng(keys):
    return lambda case, impl, model: compare_lines(impl, model, keys)

ENGINE_TRUSTED = [
    "text/template is modelled for literal text and {{.name}} placeholders only (missingkey=error); generated inputs never contain '{' (an error prefix quoting such input would be parsed as a template action)",
    "CBOR round trip of the exported State/Cache fields is modelled as snapshot/restore; every persisted-mode case goes through the real persister and memory store",
    "resource lookups and external functions are parameters of the model (tables in the case); lang.LanguageFromCode is a parameter filled from the codes used",
    "Vm.Run is structurally recursive on fuel (Cfg.fuel, 2000 in the driver; exhaustion is reported, never compared); theorems hold for every fuel",
    "error texts that reach a page as prefix are reproduced byte for byte for the VM's own messages; others are marked and compared by presence only",
]

PROPS = {}

PROPS['C14'] = dict(
    prop_modules=['Vise.Props.C14'],
    lean_targets=['Vise.Props.C14'],
    suites=['codec'],
    trusted=[
        "math.Log2 in asm.numSize: the theorem is about the integer byte width; numSize is compared with it for every uint32 in the thorough tier and on a stride plus all powers of two +-2 in the quick tier",
        "NOOP is invisible through the ParseHandler callback API and is filtered from the compared instruction lists",
    ],
    assumptions=["symbols/selectors 1..255 bytes, numbers < 2^32 (the encodable domain)"],
)

PROPS['C15'] = dict(
    prop_modules=['Vise.Props.C15'],
    lean_targets=['Vise.Props.C15'],
    suites=['codec'],
    trusted=[
        "Go slice expressions are modelled with bounds len(b) (stricter than cap(b)): reading spare capacity counts as a panic in the model",
        "opcode 0 (NOOP) is in the opcode table and therefore a defined, argument-less instruction",
    ],
    assumptions=[],
)

PROPS['C09'] = dict(
    prop_modules=['Vise.Props.C09'],
    lean_targets=['Vise.Props.C09'],
    suites=['cache'],
    trusted=[
        "values are (tag,length) stand-ins on the Lean side and runs of one byte on the Go side; only lengths and identity matter to cache.go",
        "Go map iteration order is irrelevant to every modelled result (frameOf returns the outermost defining frame; keys unique by the invariant); map-derived output is sorted before comparison",
    ],
    assumptions=["size(v) + capacity < 2^32 for every stored value (uint32 wrap needs 4 GiB of values; not replayable)",
                 "limits are uint16 (0..65535), as the API types them"],
)

PROPS['C01'] = dict(
    prop_modules=['Vise.Props.C01'], lean_targets=['Vise.Props.C01'], suites=['render', 'engine'],
    compare={'engine': eng(['x', 'c', 'f', 'o'])},
    trusted=ENGINE_TRUSTED + ["pages of 4 GiB and more (uint32 wrap of len) are excluded by hypothesis r.length < 2^32"],
    assumptions=["OutputSize > 0"],
)

PROPS['C04'] = dict(
    prop_modules=['Vise.Props.C04'], lean_targets=['Vise.Props.C04'], suites=['engine'],
    compare={'engine': eng(['x', 'p', 'i'])},
    trusted=ENGINE_TRUSTED + ["the move table is transcribed by hand from doc/texinfo/navigation.texi into specMove"],
    assumptions=["SizeIdx wrap at 65536 consecutive 'next' moves is modelled (mod 65536) but not replayed"],
)

PROPS['C06'] = dict(
    prop_modules=['Vise.Props.C06'], lean_targets=['Vise.Props.C06'], suites=['engine'],
    compare={'engine': eng(['x', 'c', 'fl', 'cl', 'p', 'i'])},
    trusted=ENGINE_TRUSTED + ["flag threshold, comparison operator and flag numbers are regenerated from state/flag.go on every run"],
    assumptions=[],
)

PROPS['C17'] = dict(
    prop_modules=['Vise.Props.C17'], lean_targets=['Vise.Props.C17'], suites=['engine'],
    compare={'engine': eng(['x', 'c', 'f', 'o', 'p', 'i', 'fl', 'cd', 'fr', 'cl'])},
    trusted=ENGINE_TRUSTED + ["Go regexp for the default input pattern is modelled by a hand-written matcher (matchesInput), compared on every generated input; custom validators (AddValidInput) are not modelled"],
    assumptions=["engines without custom input validators"],
)
