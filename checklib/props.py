"""Per-property configuration of ./check: Lean targets, harness suites, projections, trusted base."""

TRUSTED_COMMON = [
    "Lean 4.33.0 kernel; axioms audited per theorem on every run (subset of propext, Classical.choice, Quot.sound); no sorry/admit/native_decide/bv_decide/own axioms",
    "hand-written executable Lean model (lean/Vise/*.lean); its agreement with the Go code is sampled by the correspondence check, not proved",
    "Go harness (generators, canonicalisation, direct oracles, recover wrapper) and the go/ast fact extractor",
]

PROPS = {}

PROPS['C14'] = dict(
    prop_modules=['Vise.Props.C14'],
    lean_targets=['Vise.Props.C14'],
    suites=['codec'],
    trusted=[
        "math.Log2 in asm.numSize: the theorem is about the integer byte width; numSize is compared with it for every uint32 in the thorough tier and on a stride plus all powers of two +-2 in the quick tier",
        "NOOP is invisible through the ParseHandler callback API and is filtered from the compared instruction lists",
    ],
    assumptions=["symbols/selectors 1..255 bytes, numbers < 2^32 (the encodable domain)"],
)

PROPS['C15'] = dict(
    prop_modules=['Vise.Props.C15'],
    lean_targets=['Vise.Props.C15'],
    suites=['codec'],
    trusted=[
        "Go slice expressions are modelled with bounds len(b) (stricter than cap(b)): reading spare capacity counts as a panic in the model",
        "opcode 0 (NOOP) is in the opcode table and therefore a defined, argument-less instruction",
    ],
    assumptions=[],
)

PROPS['C09'] = dict(
    prop_modules=['Vise.Props.C09'],
    lean_targets=['Vise.Props.C09'],
    suites=['cache'],
    trusted=[
        "values are (tag,length) stand-ins on the Lean side and runs of one byte on the Go side; only lengths and identity matter to cache.go",
        "Go map iteration order is irrelevant to every modelled result (frameOf returns the outermost defining frame; keys unique by the invariant); map-derived output is sorted before comparison",
    ],
    assumptions=["size(v) + capacity < 2^32 for every stored value (uint32 wrap needs 4 GiB of values; not replayable)",
                 "limits are uint16 (0..65535), as the API types them"],
)
