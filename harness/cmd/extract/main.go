// extract regenerates Vise/Gen/Facts.lean from the go-vise source tree with go/ast.
//
// It reads constants, tables and pattern strings the Lean model and its theorems depend on, so
// that `lake build` re-checks the theorems against what the code says now.
//
// usage: extract <repo-dir> > Facts.lean ; extract <repo-dir> inventory > inventory.txt
package main

import (
	"bytes"
	"fmt"
	"go/ast"
	"go/parser"
	"go/printer"
	"go/token"
	"os"
	"path/filepath"
	"sort"
	"strconv"
	"strings"
)

type env map[string]int64

func parseFile(repo, rel string) *ast.File {
	fset := token.NewFileSet()
	f, err := parser.ParseFile(fset, filepath.Join(repo, rel), nil, 0)
	if err != nil {
		fmt.Fprintf(os.Stderr, "extract: %v\n", err)
		os.Exit(2)
	}
	return f
}

func eval(e ast.Expr, en env, iota int64) (int64, bool) {
	switch x := e.(type) {
	case *ast.BasicLit:
		if x.Kind == token.INT {
			v, err := strconv.ParseInt(x.Value, 0, 64)
			return v, err == nil
		}
		if x.Kind == token.CHAR {
			s, err := strconv.Unquote(x.Value)
			if err == nil && len(s) == 1 {
				return int64(s[0]), true
			}
		}
	case *ast.Ident:
		if x.Name == "iota" {
			return iota, true
		}
		v, ok := en[x.Name]
		return v, ok
	case *ast.ParenExpr:
		return eval(x.X, en, iota)
	case *ast.BinaryExpr:
		a, ok1 := eval(x.X, en, iota)
		b, ok2 := eval(x.Y, en, iota)
		if !ok1 || !ok2 {
			return 0, false
		}
		switch x.Op {
		case token.OR:
			return a | b, true
		case token.ADD:
			return a + b, true
		case token.SUB:
			return a - b, true
		case token.MUL:
			return a * b, true
		case token.SHL:
			return a << uint(b), true
		case token.AND:
			return a & b, true
		}
	}
	return 0, false
}

// consts evaluates every integer constant of the file, in source order (two passes so that
// forward references such as safeLock = DATATYPE_BIN|... resolve).
func consts(f *ast.File, en env) []string {
	var order []string
	for pass := 0; pass < 2; pass++ {
		for _, d := range f.Decls {
			gd, ok := d.(*ast.GenDecl)
			if !ok || (gd.Tok != token.CONST && gd.Tok != token.VAR) {
				continue
			}
			var last []ast.Expr
			for i, s := range gd.Specs {
				vs := s.(*ast.ValueSpec)
				vals := vs.Values
				if gd.Tok == token.CONST {
					if len(vals) == 0 {
						vals = last
					} else {
						last = vals
					}
				}
				for j, n := range vs.Names {
					if j >= len(vals) {
						continue
					}
					v, ok := eval(vals[j], en, int64(i))
					if ok {
						if _, seen := en[n.Name]; !seen {
							order = append(order, n.Name)
						}
						en[n.Name] = v
					}
				}
			}
		}
	}
	return order
}

func stringVars(f *ast.File) map[string]string {
	r := map[string]string{}
	for _, d := range f.Decls {
		gd, ok := d.(*ast.GenDecl)
		if !ok {
			continue
		}
		for _, s := range gd.Specs {
			vs, ok := s.(*ast.ValueSpec)
			if !ok {
				continue
			}
			for j, n := range vs.Names {
				if j < len(vs.Values) {
					if bl, ok := vs.Values[j].(*ast.BasicLit); ok && bl.Kind == token.STRING {
						s, err := strconv.Unquote(bl.Value)
						if err == nil {
							r[n.Name] = s
						}
					}
				}
			}
		}
	}
	return r
}

func leanStr(s string) string {
	var b strings.Builder
	b.WriteByte('"')
	for _, c := range []byte(s) {
		switch {
		case c == '"':
			b.WriteString("\\\"")
		case c == '\\':
			b.WriteString("\\\\")
		case c == '\n':
			b.WriteString("\\n")
		case c == '\t':
			b.WriteString("\\t")
		case c == '\r':
			b.WriteString("\\r")
		case c < 0x20 || c > 0x7e:
			fmt.Fprintf(&b, "\\x%02x", c)
		default:
			b.WriteByte(c)
		}
	}
	b.WriteByte('"')
	return b.String()
}

func funcDecl(f *ast.File, name string) *ast.FuncDecl {
	for _, d := range f.Decls {
		if fd, ok := d.(*ast.FuncDecl); ok && fd.Name.Name == name {
			return fd
		}
	}
	return nil
}

// intLitsIn returns the integer / char literals appearing in the body of fn, in order.
func intLitsIn(fd *ast.FuncDecl) []int64 {
	var r []int64
	if fd == nil {
		return r
	}
	ast.Inspect(fd.Body, func(n ast.Node) bool {
		if bl, ok := n.(*ast.BasicLit); ok && (bl.Kind == token.INT || bl.Kind == token.CHAR) {
			v, ok := eval(bl, env{}, 0)
			if ok {
				r = append(r, v)
			}
		}
		return true
	})
	return r
}

func strLitsIn(fd *ast.FuncDecl) []string {
	var r []string
	if fd == nil {
		return r
	}
	ast.Inspect(fd.Body, func(n ast.Node) bool {
		if bl, ok := n.(*ast.BasicLit); ok && bl.Kind == token.STRING {
			s, err := strconv.Unquote(bl.Value)
			if err == nil {
				r = append(r, s)
			}
		}
		return true
	})
	return r
}

// pkgVars lists package-level variables (name and a coarse kind) of the non-test files of a package.
func pkgVars(repo, dir string) []string {
	var r []string
	files, _ := filepath.Glob(filepath.Join(repo, dir, "*.go"))
	sort.Strings(files)
	for _, fn := range files {
		if strings.HasSuffix(fn, "_test.go") {
			continue
		}
		fset := token.NewFileSet()
		f, err := parser.ParseFile(fset, fn, nil, 0)
		if err != nil {
			continue
		}
		for _, d := range f.Decls {
			gd, ok := d.(*ast.GenDecl)
			if !ok || gd.Tok != token.VAR {
				continue
			}
			for _, s := range gd.Specs {
				vs := s.(*ast.ValueSpec)
				for _, n := range vs.Names {
					r = append(r, dir+"."+n.Name)
				}
			}
		}
	}
	return r
}

// pkgVarUse lists the package-level variables of a package directory (all build-tag variants, deduplicated),
// the assignments to them in function bodies other than init, and the method calls on them.
func pkgVarUse(repo, dir string) (vars, writes, calls []string) {
	files, _ := filepath.Glob(filepath.Join(repo, dir, "*.go"))
	sort.Strings(files)
	var parsed []*ast.File
	names := map[string]bool{}
	for _, fn := range files {
		if strings.HasSuffix(fn, "_test.go") {
			continue
		}
		f, err := parser.ParseFile(token.NewFileSet(), fn, nil, 0)
		if err != nil {
			continue
		}
		parsed = append(parsed, f)
		for _, d := range f.Decls {
			gd, ok := d.(*ast.GenDecl)
			if !ok || gd.Tok != token.VAR {
				continue
			}
			for _, s := range gd.Specs {
				for _, n := range s.(*ast.ValueSpec).Names {
					if !names[n.Name] && n.Name != "_" {
						names[n.Name] = true
						vars = append(vars, dir+"."+n.Name)
					}
				}
			}
		}
	}
	isPkgVar := func(e ast.Expr) (string, bool) {
		for {
			switch x := e.(type) {
			case *ast.IndexExpr:
				e = x.X
				continue
			case *ast.SelectorExpr:
				e = x.X
				continue
			case *ast.StarExpr:
				e = x.X
				continue
			case *ast.ParenExpr:
				e = x.X
				continue
			case *ast.Ident:
				if !names[x.Name] {
					return "", false
				}
				// a local of the same name is resolved by the parser to its declaration inside the function
				if x.Obj != nil {
					if _, ok := x.Obj.Decl.(*ast.ValueSpec); !ok {
						return "", false
					}
					if x.Obj.Kind != ast.Var {
						return "", false
					}
				}
				return x.Name, true
			}
			return "", false
		}
	}
	seenW, seenC := map[string]bool{}, map[string]bool{}
	for _, f := range parsed {
		for _, d := range f.Decls {
			fd, ok := d.(*ast.FuncDecl)
			if !ok || fd.Body == nil || (fd.Name.Name == "init" && fd.Recv == nil) {
				continue
			}
			fname := fd.Name.Name
			locals := map[string]bool{}
			ast.Inspect(fd.Body, func(n ast.Node) bool {
				switch x := n.(type) {
				case *ast.AssignStmt:
					for _, l := range x.Lhs {
						if id, ok := l.(*ast.Ident); ok && x.Tok == token.DEFINE {
							locals[id.Name] = true
							continue
						}
						if v, ok := isPkgVar(l); ok && !locals[v] {
							k := dir + "." + v + "@" + fname
							if !seenW[k] {
								seenW[k] = true
								writes = append(writes, k)
							}
						}
					}
				case *ast.IncDecStmt:
					if v, ok := isPkgVar(x.X); ok && !locals[v] {
						k := dir + "." + v + "@" + fname
						if !seenW[k] {
							seenW[k] = true
							writes = append(writes, k)
						}
					}
				case *ast.CallExpr:
					if se, ok := x.Fun.(*ast.SelectorExpr); ok {
						if id, ok := se.X.(*ast.Ident); ok && names[id.Name] && id.Name != "logg" && !locals[id.Name] {
							if id.Obj == nil || id.Obj.Kind == ast.Var {
								if id.Obj != nil {
									if _, isSpec := id.Obj.Decl.(*ast.ValueSpec); !isSpec {
										return true
									}
								}
								k := dir + "." + id.Name + "." + se.Sel.Name + "@" + fname
								if !seenC[k] {
									seenC[k] = true
									calls = append(calls, k)
								}
							}
						}
					}
				}
				return true
			})
		}
	}
	return
}

// panicSites counts explicit panic( calls, index and slice expressions per function of a file.
func panicSites(repo, rel string) []string {
	f := parseFile(repo, rel)
	var r []string
	for _, d := range f.Decls {
		fd, ok := d.(*ast.FuncDecl)
		if !ok || fd.Body == nil {
			continue
		}
		var p, ix, sl int
		ast.Inspect(fd.Body, func(n ast.Node) bool {
			switch x := n.(type) {
			case *ast.CallExpr:
				if id, ok := x.Fun.(*ast.Ident); ok && id.Name == "panic" {
					p++
				}
			case *ast.IndexExpr:
				ix++
			case *ast.SliceExpr:
				sl++
			}
			return true
		})
		if p+ix+sl > 0 {
			r = append(r, fmt.Sprintf("%s:%s panic=%d index=%d slice=%d", rel, fd.Name.Name, p, ix, sl))
		}
	}
	return r
}

func main() {
	if len(os.Args) < 2 {
		fmt.Fprintln(os.Stderr, "usage: extract <repo>")
		os.Exit(2)
	}
	repo := os.Args[1]
	out := &strings.Builder{}
	p := func(format string, a ...interface{}) { fmt.Fprintf(out, format, a...) }

	p("/- REGENERATED from the go-vise source by harness/cmd/extract on every run. Do not edit. -/\n")
	p("namespace Vise.Facts\n\n")

	// --- vm/opcodes.go
	opf := parseFile(repo, "vm/opcodes.go")
	oen := env{}
	names := consts(opf, oen)
	p("/-- vm/opcodes.go: opcode constants in source order. -/\n")
	p("def opcodes : List (String × Nat) := [")
	first := true
	for _, n := range names {
		if n == "VERSION" || n == "_MAX" {
			continue
		}
		if !first {
			p(", ")
		}
		first = false
		p("(%s, %d)", leanStr(n), oen[n])
	}
	p("]\n")
	p("def opMax : Nat := %d\n", oen["_MAX"])
	for _, n := range names {
		if n == "VERSION" || n == "_MAX" {
			continue
		}
		p("def op%s : Nat := %d\n", n, oen[n])
	}
	// OpcodeString / OpcodeIndex tables
	for _, tbl := range []string{"OpcodeString", "OpcodeIndex"} {
		var pairs []string
		ast.Inspect(opf, func(n ast.Node) bool {
			vs, ok := n.(*ast.ValueSpec)
			if !ok || len(vs.Names) != 1 || vs.Names[0].Name != tbl || len(vs.Values) != 1 {
				return true
			}
			cl, ok := vs.Values[0].(*ast.CompositeLit)
			if !ok {
				return true
			}
			for _, el := range cl.Elts {
				kv := el.(*ast.KeyValueExpr)
				var name string
				var val int64
				if tbl == "OpcodeString" {
					val, _ = eval(kv.Key, oen, 0)
					name, _ = strconv.Unquote(kv.Value.(*ast.BasicLit).Value)
				} else {
					name, _ = strconv.Unquote(kv.Key.(*ast.BasicLit).Value)
					val, _ = eval(kv.Value, oen, 0)
				}
				pairs = append(pairs, fmt.Sprintf("(%s, %d)", leanStr(name), val))
			}
			return false
		})
		p("def %s : List (String × Nat) := [%s]\n", strings.ToLower(tbl[:1])+tbl[1:], strings.Join(pairs, ", "))
	}
	p("\n")

	// --- state/flag.go, state/state.go
	ff := parseFile(repo, "state/flag.go")
	fen := env{}
	fnames := consts(ff, fen)
	p("/-- state/flag.go -/\n")
	for _, n := range fnames {
		if n == "nonwriteable_flag_threshold" {
			p("def nonwriteableThreshold : Nat := %d\n", fen[n])
			continue
		}
		p("def %s : Nat := %d\n", strings.ToLower(strings.TrimPrefix(n, "FLAG_"))+"Flag", fen[n])
	}
	// IsWriteableFlag comparison operator
	op := "?"
	if fd := funcDecl(ff, "IsWriteableFlag"); fd != nil {
		ast.Inspect(fd.Body, func(n ast.Node) bool {
			if be, ok := n.(*ast.BinaryExpr); ok && op == "?" {
				op = be.Op.String()
			}
			return true
		})
	}
	p("def writeableCmp : String := %s\n", leanStr(op))
	sf := parseFile(repo, "state/state.go")
	sen := env{}
	consts(sf, sen)
	p("/-- state/state.go -/\n")
	p("def inputLimit : Nat := %d\n", sen["INPUT_LIMIT"])
	p("def maxLevel : Nat := %d\n\n", sen["MaxLevel"])

	// --- db/db.go
	df := parseFile(repo, "db/db.go")
	den := env{}
	consts(df, den)
	p("/-- db/db.go -/\n")
	for _, n := range []string{"DATATYPE_UNKNOWN", "DATATYPE_BIN", "DATATYPE_MENU", "DATATYPE_TEMPLATE", "DATATYPE_STATICLOAD", "DATATYPE_STATE", "DATATYPE_USERDATA"} {
		p("def dt%s : Nat := %d\n", strings.Title(strings.ToLower(strings.TrimPrefix(n, "DATATYPE_"))), den[n])
	}
	p("def safeLock : Nat := %d\n", den["safeLock"])
	p("def sessionedThreshold : Nat := %d\n", den["datatype_sessioned_threshold"])
	sess := intLitsIn(funcDecl(df, "SetSession"))
	sep := int64(-1)
	if len(sess) > 0 {
		sep = sess[len(sess)-1]
	}
	p("def sessionSep : Nat := %d\n", sep)
	ls := strLitsIn(funcDecl(df, "ToDbKey"))
	langSep := ""
	for _, s := range ls {
		if len(s) == 1 {
			langSep = s
		}
	}
	p("def langSep : String := %s\n", leanStr(langSep))
	fsf := parseFile(repo, "db/fs/fs.go")
	pf := intLitsIn(funcDecl(fsf, "pathFor"))
	off := int64(-1)
	for _, v := range pf {
		if v > 1 {
			off = v
		}
	}
	p("def fsTypeOffset : Nat := %d\n\n", off)

	// --- vm/input.go
	inf := parseFile(repo, "vm/input.go")
	sv := stringVars(inf)
	p("/-- vm/input.go -/\n")
	p("def inputRegexStr : String := %s\n", leanStr(sv["inputRegexStr"]))
	p("def ctrlRegexStr : String := %s\n", leanStr(sv["ctrlRegexStr"]))
	p("def symRegexStr : String := %s\n\n", leanStr(sv["symRegexStr"]))

	// --- asm
	af := parseFile(repo, "asm/asm.go")
	p("/-- asm/asm.go: lexer rules in order -/\n")
	var rules []string
	ast.Inspect(af, func(n ast.Node) bool {
		cl, ok := n.(*ast.CompositeLit)
		if !ok {
			return true
		}
		if at, ok := cl.Type.(*ast.ArrayType); ok {
			if se, ok := at.Elt.(*ast.SelectorExpr); ok && se.Sel.Name == "SimpleRule" {
				for _, el := range cl.Elts {
					r := el.(*ast.CompositeLit)
					if len(r.Elts) == 2 {
						a, _ := strconv.Unquote(r.Elts[0].(*ast.BasicLit).Value)
						b, _ := strconv.Unquote(r.Elts[1].(*ast.BasicLit).Value)
						rules = append(rules, fmt.Sprintf("(%s, %s)", leanStr(a), leanStr(b)))
					}
				}
				return false
			}
		}
		return true
	})
	p("def lexerRules : List (String × String) := [%s]\n", strings.Join(rules, ", "))
	// grammar: struct tags of Asm, Arg, Instruction in declaration order, and the elided token types
	var gram []string
	var elided []string
	ast.Inspect(af, func(n ast.Node) bool {
		switch x := n.(type) {
		case *ast.TypeSpec:
			st, ok := x.Type.(*ast.StructType)
			if !ok || (x.Name.Name != "Asm" && x.Name.Name != "Arg" && x.Name.Name != "Instruction") {
				return true
			}
			for _, f := range st.Fields.List {
				if f.Tag == nil || len(f.Names) != 1 {
					continue
				}
				tag, _ := strconv.Unquote(f.Tag.Value)
				var tb bytes.Buffer
				printer.Fprint(&tb, token.NewFileSet(), f.Type)
				gram = append(gram, fmt.Sprintf("(%s, %s, %s, %s)", leanStr(x.Name.Name), leanStr(f.Names[0].Name), leanStr(tb.String()), leanStr(tag)))
			}
		case *ast.CallExpr:
			if se, ok := x.Fun.(*ast.SelectorExpr); ok && se.Sel.Name == "Elide" {
				for _, a := range x.Args {
					if bl, ok := a.(*ast.BasicLit); ok {
						v, _ := strconv.Unquote(bl.Value)
						elided = append(elided, leanStr(v))
					}
				}
			}
		}
		return true
	})
	p("/-- asm/asm.go: participle grammar (struct, field, Go type, tag) and elided token types -/\n")
	p("def asmGrammar : List (String × String × String × String) := [%s]\n", strings.Join(gram, ", "))
	p("def asmElided : List String := [%s]\n", strings.Join(elided, ", "))
	mf := parseFile(repo, "asm/menu.go")
	men := env{}
	consts(mf, men)
	var bc []string
	ast.Inspect(mf, func(n ast.Node) bool {
		vs, ok := n.(*ast.ValueSpec)
		if !ok || len(vs.Names) != 1 || vs.Names[0].Name != "batchCode" || len(vs.Values) != 1 {
			return true
		}
		cl, ok := vs.Values[0].(*ast.CompositeLit)
		if !ok {
			return true
		}
		for _, el := range cl.Elts {
			kv := el.(*ast.KeyValueExpr)
			name, _ := strconv.Unquote(kv.Key.(*ast.BasicLit).Value)
			val, _ := eval(kv.Value, men, 0)
			bc = append(bc, fmt.Sprintf("(%s, %d)", leanStr(name), val))
		}
		return false
	})
	p("def batchCodes : List (String × Nat) := [%s]\n\n", strings.Join(bc, ", "))

	// --- process-wide state (C19): package-level variables of the library, the functions that assign to them,
	// the methods called on them (loggers excluded), and the first argument of every append in vm/runner.go
	libDirs := []string{"vm", "state", "cache", "render", "engine", "persist", "resource", "db", "db/mem", "db/fs", "db/postgres", "asm", "lang", "logging"}
	var allVars, allWrites, allCalls []string
	for _, d := range libDirs {
		v, w, cl := pkgVarUse(repo, d)
		allVars = append(allVars, v...)
		allWrites = append(allWrites, w...)
		allCalls = append(allCalls, cl...)
	}
	q := func(l []string) string {
		var r []string
		for _, x := range l {
			r = append(r, leanStr(x))
		}
		return strings.Join(r, ", ")
	}
	p("/-- package-level variables of the library packages -/\n")
	p("def packageVars : List String := [%s]\n", q(allVars))
	p("/-- assignments to them outside init: var@function -/\n")
	p("def packageVarWrites : List String := [%s]\n", q(allWrites))
	p("/-- methods called on them (loggers excluded): var.Method@function -/\n")
	p("def packageVarCalls : List String := [%s]\n", q(allCalls))
	var apps []string
	rf := parseFile(repo, "vm/runner.go")
	ast.Inspect(rf, func(n ast.Node) bool {
		ce, ok := n.(*ast.CallExpr)
		if !ok {
			return true
		}
		if id, ok := ce.Fun.(*ast.Ident); ok && id.Name == "append" && len(ce.Args) > 0 {
			var tb bytes.Buffer
			printer.Fprint(&tb, token.NewFileSet(), ce.Args[0])
			apps = append(apps, tb.String())
		}
		return true
	})
	p("/-- vm/runner.go: the slice every append extends -/\n")
	p("def runnerAppends : List String := [%s]\n\n", q(apps))

	p("end Vise.Facts\n")
	if len(os.Args) < 3 || os.Args[2] != "inventory" {
		fmt.Print(out.String())
		return
	}
	out.Reset()
	// --- inventories (informational; compared with the committed expectation by ./check)
	var pv []string
	for _, d := range []string{"vm", "state", "cache", "render", "engine", "persist", "resource", "db", "db/mem", "db/fs", "db/postgres", "asm", "lang", "logging"} {
		pv = append(pv, pkgVars(repo, d)...)
	}
	for _, v := range pv {
		p("var %s\n", v)
	}
	var ps []string
	for _, f := range []string{"vm/vm.go", "vm/debug.go", "vm/runner.go", "vm/input.go", "state/state.go", "state/flag.go", "cache/cache.go", "render/page.go", "render/size.go", "render/menu.go", "engine/db.go", "persist/persist.go", "db/db.go", "db/mem/mem.go", "db/fs/fs.go", "db/fs/dump.go", "db/postgres/pg.go", "asm/asm.go", "asm/menu.go"} {
		for _, s := range panicSites(repo, f) {
			ps = append(ps, s)
		}
	}
	for _, s := range ps {
		p("site %s\n", s)
	}
	fmt.Print(out.String())
}
