// gotrans: a deliberately tiny Go -> Lean translator for straight-line integer / byte-string functions.
//
// usage: gotrans <repo> <outdir>
//
// For every function in the table `targets` it reads the CURRENT source under <repo>, type-checks the
// package with go/types (imports that cannot be resolved are replaced by empty packages; errors are
// ignored - only the types and constant values of the expressions that are translated are used) and
// writes one Lean file <outdir>/<Name>.lean with a definition `Vise.GenFn.<name>`.  The hand-written
// model is then proved EQUAL to these definitions (lean/Vise/Tie/*.lean), so the part of the model
// they cover is tied to the source by regeneration + kernel-checked proof instead of sampling.
//
// Supported Go (anything else makes the translation of that function fail; the file then contains
// only a comment and the tie theorem of that function no longer builds = broken obligation):
//   types       uint8/16/32 (Lean Nat, every operation reduced mod 2^N), int (only as len(..), constants,
//               +, comparisons), bool, string / []byte (List UInt8), []string (List (List UInt8)), error
//               (String: "" = nil, "errorf" = fmt.Errorf(..), otherwise the name of the package-level error value), pointer-to-struct parameters (a Bool "is nil" plus
//               one parameter per field read)
//   statements  x := e, x = e, x op= e, x++, x--, var x T, if/else with early return, return, calls into the
//               logging package (dropped), `a, b := recv.Pure()` whose results are used by logging only
//   receiver    every field read is a parameter; every field assigned is returned after the results
//   expressions constants (folded by go/types), + - * / % & | (constant non-zero divisors only),
//               comparisons, && || !, len, conversions between the integer types, []byte(s), string(b),
//               append(a, b...), []byte{x}, string concatenation, bytes.HasPrefix / bytes.TrimPrefix, fmt.Errorf / errors.New /
//               package-level error values
package main

import (
	"fmt"
	"go/ast"
	"go/constant"
	"go/importer"
	"go/parser"
	"go/token"
	"go/types"
	"os"
	"path/filepath"
	"sort"
	"strings"
)

type target struct {
	dir, recv, fn, name string
}

var targets = []target{
	{"state", "", "IsWriteableFlag", "state_IsWriteableFlag"},
	{"state", "", "toByteSize", "state_toByteSize"},
	{"state", "State", "Next", "state_Next"},
	{"state", "State", "Previous", "state_Previous"},
	{"state", "State", "Same", "state_Same"},
	{"state", "State", "Sides", "state_Sides"},
	{"state", "State", "Top", "state_Top"},
	{"state", "State", "Lateral", "state_Lateral"},
	{"state", "State", "Back", "state_Back"},
	{"cache", "Cache", "checkCapacity", "cache_checkCapacity"},
	{"cache", "Cache", "Levels", "cache_Levels"},
	{"render", "Sizer", "Check", "render_Sizer_Check"},
	{"db", "DbBase", "ToSessionKey", "db_ToSessionKey"},
	{"db", "", "ToDbKey", "db_ToDbKey"},
	{"db", "DbBase", "Safe", "db_Safe"},
	{"db", "DbBase", "CheckPut", "db_CheckPut"},
	{"db", "DbBase", "SetLock", "db_SetLock"},
	{"render", "Menu", "reset", "render_Menu_reset"},
	{"db", "DbBase", "FromSessionKey", "db_FromSessionKey"},
	{"db", "", "FromDbKey", "db_FromDbKey"},
	{"state", "State", "Down", "state_Down"},
	{"state", "State", "Up", "state_Up"},
	{"state", "State", "Where", "state_Where"},
	{"state", "State", "Depth", "state_Depth"},
	{"vm", "", "opSplit", "vm_opSplit"},
	{"vm", "", "instructionSplit", "vm_instructionSplit"},
}

type fakeImporter struct {
	real   types.Importer
	repo   string
	module string
	cache  map[string]*types.Package
}

func (f fakeImporter) Import(path string) (*types.Package, error) {
	if p, ok := f.cache[path]; ok {
		return p, nil
	}
	if f.module != "" && strings.HasPrefix(path, f.module+"/") {
		// a package of the repository itself: type-check its source the same lenient way
		fset := token.NewFileSet()
		dir := filepath.Join(f.repo, strings.TrimPrefix(path, f.module+"/"))
		pkgs, err := parser.ParseDir(fset, dir, func(fi os.FileInfo) bool { return !strings.HasSuffix(fi.Name(), "_test.go") }, 0)
		if err == nil {
			for _, p := range pkgs {
				if strings.HasSuffix(p.Name, "_test") {
					continue
				}
				var files []*ast.File
				var names []string
				for n := range p.Files {
					names = append(names, n)
				}
				sort.Strings(names)
				for _, n := range names {
					files = append(files, p.Files[n])
				}
				conf := types.Config{Importer: f, Error: func(error) {}}
				tp, _ := conf.Check(path, fset, files, nil)
				if tp != nil {
					f.cache[path] = tp
					return tp, nil
				}
			}
		}
	}
	if f.real != nil {
		if p, err := f.real.Import(path); err == nil {
			return p, nil
		}
	}
	parts := strings.Split(path, "/")
	p := types.NewPackage(path, parts[len(parts)-1])
	p.MarkComplete()
	return p, nil
}

type tr struct {
	info   *types.Info
	fset   *token.FileSet
	recv   string            // receiver identifier
	params []string          // lean parameter list, in order of first use
	ptypes map[string]string // lean parameter -> lean type
	muts   []string          // assigned receiver fields (lean names), order of struct declaration is not needed: sorted
	logpk  map[string]bool
	ptrs   map[string]bool // pointer-to-struct parameters
	pkgvar map[string]ast.Expr // package-level variables with an initialiser (read as that value; writers are pinned by the extractor's inventory)
	alias  map[string]bool // receiver names of inlined methods of the receiver (or of a struct embedded in it)
	funcs  map[string]*ast.FuncDecl
	rets   int
	rtys   []string
	// functions that index or slice: the definition is in the Option monad, `none` = the run-time panic of an out-of-range access
	partial bool
	useInt  bool     // such a function's `int` values are Lean Int (they may go negative before they are used as an index)
	pend    []string // binds hoisted out of the expression being translated
	nfresh  int
	guarded int // > 0 while translating the right operand of && or ||: an index there would be evaluated too early
	err     error
}

func (t *tr) fail(n ast.Node, msg string) string {
	if t.err == nil {
		t.err = fmt.Errorf("%s: %s", t.fset.Position(n.Pos()), msg)
	}
	return "sorryUnsupported"
}

func (t *tr) addParam(name, ty string) {
	if _, ok := t.ptypes[name]; !ok {
		t.ptypes[name] = ty
		t.params = append(t.params, name)
	}
}

func bitsOf(ty types.Type) (int, bool) {
	b, ok := ty.Underlying().(*types.Basic)
	if !ok {
		return 0, false
	}
	switch b.Kind() {
	case types.Uint8:
		return 8, true
	case types.Uint16:
		return 16, true
	case types.Uint32:
		return 32, true
	}
	return 0, false
}

func isInt(ty types.Type) bool {
	b, ok := ty.Underlying().(*types.Basic)
	return ok && (b.Kind() == types.Int || b.Kind() == types.UntypedInt)
}

func isBytes(ty types.Type) bool {
	if b, ok := ty.Underlying().(*types.Basic); ok {
		return b.Kind() == types.String || b.Kind() == types.UntypedString
	}
	if s, ok := ty.Underlying().(*types.Slice); ok {
		b, ok := s.Elem().Underlying().(*types.Basic)
		return ok && b.Kind() == types.Uint8
	}
	return false
}

func isStrs(ty types.Type) bool {
	if s, ok := ty.Underlying().(*types.Slice); ok {
		b, ok := s.Elem().Underlying().(*types.Basic)
		return ok && b.Kind() == types.String
	}
	return false
}

func isBool(ty types.Type) bool {
	b, ok := ty.Underlying().(*types.Basic)
	return ok && (b.Kind() == types.Bool || b.Kind() == types.UntypedBool)
}

func isError(ty types.Type) bool { return ty.String() == "error" }

func (t *tr) leanType(n ast.Node, ty types.Type) string {
	switch {
	case isBool(ty):
		return "Bool"
	case isBytes(ty):
		return "Bytes"
	case isStrs(ty):
		return "List Bytes"
	case isError(ty):
		return "String"
	case isInt(ty):
		if t.useInt {
			return "Int"
		}
		return "Nat"
	}
	if _, ok := bitsOf(ty); ok {
		return "Nat"
	}
	return t.fail(n, "unsupported type "+ty.String())
}

// Go identifiers that are reserved words of Lean get a trailing underscore.
var leanReserved = map[string]bool{"end": true, "from": true, "at": true, "fun": true, "do": true, "then": true, "else": true, "let": true, "have": true,
	"show": true, "match": true, "with": true, "in": true, "def": true, "theorem": true, "open": true, "namespace": true, "section": true, "variable": true,
	"instance": true, "structure": true, "class": true, "where": true, "by": true, "if": true, "Type": true, "Prop": true, "Sort": true, "local": true,
	"macro": true, "syntax": true, "mutual": true, "deriving": true, "import": true, "export": true, "private": true, "protected": true, "return": true,
	"for": true, "unless": true, "try": true, "catch": true, "finally": true, "mut": true, "some": true, "none": true, "true": true, "false": true,
	"using": true, "calc": true, "suffices": true, "obtain": true, "example": true, "abbrev": true, "inductive": true, "universe": true, "set_option": true,
	"attribute": true, "extends": true, "fix": true, "notation": true, "infix": true, "prefix": true, "postfix": true, "nomatch": true, "nofun": true}

func leanIdent(n string) string {
	if leanReserved[n] {
		return n + "_"
	}
	return n
}

func bytesLit(s string) string {
	var b []string
	for _, c := range []byte(s) {
		b = append(b, fmt.Sprint(c))
	}
	return "([" + strings.Join(b, ", ") + "] : Bytes)"
}

// selector chain rooted at the receiver or at a pointer parameter -> lean name
func (t *tr) selName(e *ast.SelectorExpr) (string, bool) {
	var parts []string
	var cur ast.Expr = e
	for {
		switch x := cur.(type) {
		case *ast.SelectorExpr:
			parts = append([]string{x.Sel.Name}, parts...)
			cur = x.X
			continue
		case *ast.Ident:
			if x.Name == t.recv || t.ptrs[x.Name] {
				// embedded structs: only the last component names the field
				return x.Name + "_" + parts[len(parts)-1], true
			}
			if t.alias[x.Name] {
				return t.recv + "_" + parts[len(parts)-1], true
			}
		}
		return "", false
	}
}

func (t *tr) typeOf(e ast.Expr) types.Type {
	if tv, ok := t.info.Types[e]; ok && tv.Type != nil {
		return tv.Type
	}
	if id, ok := e.(*ast.Ident); ok {
		if o := t.info.ObjectOf(id); o != nil {
			return o.Type()
		}
	}
	return types.Typ[types.Invalid]
}

func (t *tr) expr(e ast.Expr) string {
	if tv, ok := t.info.Types[e]; ok && tv.Value != nil {
		switch tv.Value.Kind() {
		case constant.Int:
			return tv.Value.ExactString()
		case constant.Bool:
			return fmt.Sprint(constant.BoolVal(tv.Value))
		case constant.String:
			return bytesLit(constant.StringVal(tv.Value))
		}
	}
	switch x := e.(type) {
	case *ast.ParenExpr:
		return "(" + t.expr(x.X) + ")"
	case *ast.Ident:
		if x.Name == "nil" {
			return "\"\"" // the nil error
		}
		if o := t.info.ObjectOf(x); o != nil {
			if v, ok := o.(*types.Var); ok && v.Parent() == v.Pkg().Scope() && isError(v.Type()) {
				return "\"" + x.Name + "\"" // a package-level error value is returned
			}
			if v, ok := o.(*types.Var); ok && v.Pkg() != nil && v.Parent() == v.Pkg().Scope() {
				if init, ok := t.pkgvar[x.Name]; ok {
					if tv, ok := t.info.Types[init]; ok && tv.Value != nil && tv.Value.Kind() == constant.Int {
						return tv.Value.ExactString() // a package-level variable that holds a configuration constant
					}
				}
				return t.fail(x, "package-level variable "+x.Name)
			}
		}
		return leanIdent(x.Name)
	case *ast.SelectorExpr:
		if n, ok := t.selName(x); ok {
			t.addParam(n, t.leanType(x, t.typeOf(x)))
			return n
		}
		return t.fail(x, "selector")
	case *ast.UnaryExpr:
		if x.Op == token.NOT {
			return "(!" + t.expr(x.X) + ")"
		}
		if x.Op == token.XOR {
			if n, ok := bitsOf(t.typeOf(x)); ok {
				return fmt.Sprintf("(%d - %s)", (uint64(1)<<uint(n))-1, t.expr(x.X))
			}
		}
		return t.fail(x, "unary "+x.Op.String())
	case *ast.BinaryExpr:
		return t.binary(x)
	case *ast.CallExpr:
		return t.call(x)
	case *ast.IndexExpr:
		if !t.partial || t.guarded > 0 || !(isBytes(t.typeOf(x.X)) || isStrs(t.typeOf(x.X))) {
			return t.fail(x, "index expression")
		}
		t.nfresh++
		nm := fmt.Sprintf("ix%d", t.nfresh)
		i := t.expr(x.Index)
		if t.useInt {
			t.pend = append(t.pend, fmt.Sprintf("let %s ← (if 0 ≤ (%s : Int) then (%s)[(%s : Int).toNat]? else none)", nm, i, t.expr(x.X), i))
		} else {
			t.pend = append(t.pend, fmt.Sprintf("let %s ← (%s)[%s]?", nm, t.expr(x.X), i))
		}
		if isStrs(t.typeOf(x.X)) {
			return nm
		}
		return nm + ".toNat"
	case *ast.SliceExpr:
		if !t.partial || t.guarded > 0 || !(isBytes(t.typeOf(x.X)) || isStrs(t.typeOf(x.X))) || x.Slice3 || !t.useInt {
			return t.fail(x, "slice expression")
		}
		b := t.expr(x.X)
		lo, hi := "0", "(("+b+").length : Int)"
		if x.Low != nil {
			lo = t.expr(x.Low)
		}
		if x.High != nil {
			hi = t.expr(x.High)
		}
		// bounds as Go checks them, with len in place of cap (stricter; the convention of the whole model)
		t.pend = append(t.pend, fmt.Sprintf("let _ ← (if 0 ≤ (%s : Int) ∧ (%s : Int) ≤ %s ∧ (%s : Int) ≤ ((%s).length : Int) then some () else none)", lo, lo, hi, hi, b))
		return fmt.Sprintf("(((%s).drop (%s : Int).toNat).take ((%s : Int) - %s).toNat)", b, lo, hi, lo)
	case *ast.CompositeLit:
		if isBytes(t.typeOf(x)) {
			var els []string
			for _, el := range x.Elts {
				els = append(els, "UInt8.ofNat ("+t.expr(el)+")")
			}
			return "([" + strings.Join(els, ", ") + "] : Bytes)"
		}
		return t.fail(x, "composite literal")
	}
	return t.fail(e, fmt.Sprintf("expression %T", e))
}

func (t *tr) binary(x *ast.BinaryExpr) string {
	// pointer comparison with nil
	if id, ok := x.X.(*ast.Ident); ok && t.ptrs[id.Name] {
		if y, ok := x.Y.(*ast.Ident); ok && y.Name == "nil" {
			t.addParam(id.Name+"_isNil", "Bool")
			if x.Op == token.NEQ {
				return "(!" + id.Name + "_isNil)"
			}
			if x.Op == token.EQL {
				return id.Name + "_isNil"
			}
		}
	}
	a := t.expr(x.X)
	if x.Op == token.LAND || x.Op == token.LOR {
		t.guarded++
	}
	b := t.expr(x.Y)
	if x.Op == token.LAND || x.Op == token.LOR {
		t.guarded--
	}
	if x.Op == token.SUB && t.useInt && isInt(t.typeOf(x)) {
		return "((" + a + " : Int) - " + b + ")"
	}
	lt := t.typeOf(x.X)
	if tv, ok := t.info.Types[x.X]; ok && tv.Value != nil { // untyped constant on the left takes the right type
		lt = t.typeOf(x.Y)
	}
	switch x.Op {
	case token.LAND:
		return "(" + a + " && " + b + ")"
	case token.LOR:
		return "(" + a + " || " + b + ")"
	case token.EQL, token.NEQ, token.LSS, token.LEQ, token.GTR, token.GEQ:
		op := map[token.Token]string{token.EQL: "=", token.NEQ: "≠", token.LSS: "<", token.LEQ: "≤", token.GTR: ">", token.GEQ: "≥"}[x.Op]
		if isBool(lt) && (x.Op == token.EQL || x.Op == token.NEQ) {
			return "(decide (" + a + " " + op + " " + b + "))"
		}
		if _, ok := bitsOf(lt); ok || isInt(lt) || (isBytes(lt) && (x.Op == token.EQL || x.Op == token.NEQ)) {
			return "(decide (" + a + " " + op + " " + b + "))"
		}
		return t.fail(x, "comparison of "+lt.String())
	case token.ADD:
		if isBytes(lt) {
			return "(" + a + " ++ " + b + ")"
		}
		if isInt(t.typeOf(x)) {
			return "(" + a + " + " + b + ")"
		}
	}
	n, ok := bitsOf(t.typeOf(x))
	if !ok {
		return t.fail(x, "arithmetic at type "+t.typeOf(x).String())
	}
	m := fmt.Sprintf("%d", uint64(1)<<uint(n))
	switch x.Op {
	case token.ADD:
		return "((" + a + " + " + b + ") % " + m + ")"
	case token.SUB:
		return "((" + a + " + " + m + " - " + b + ") % " + m + ")"
	case token.MUL:
		return "((" + a + " * " + b + ") % " + m + ")"
	case token.QUO, token.REM:
		tv, ok := t.info.Types[x.Y]
		if !ok || tv.Value == nil || constant.Sign(tv.Value) == 0 {
			return t.fail(x, "divisor is not a non-zero constant")
		}
		if x.Op == token.QUO {
			return "(" + a + " / " + b + ")"
		}
		return "(" + a + " % " + b + ")"
	case token.AND:
		return "(" + a + " &&& " + b + ")"
	case token.OR:
		return "(" + a + " ||| " + b + ")"
	}
	return t.fail(x, "operator "+x.Op.String())
}

func (t *tr) call(x *ast.CallExpr) string {
	// conversions
	if tv, ok := t.info.Types[x.Fun]; ok && tv.IsType() && len(x.Args) == 1 {
		to := tv.Type
		from := t.typeOf(x.Args[0])
		a := t.expr(x.Args[0])
		if n, ok := bitsOf(to); ok {
			if isInt(from) && t.useInt {
				return fmt.Sprintf("((%s).toNat %% %d)", a, uint64(1)<<uint(n))
			}
			if _, ok := bitsOf(from); ok || isInt(from) {
				return fmt.Sprintf("(%s %% %d)", a, uint64(1)<<uint(n))
			}
		}
		if isInt(to) && t.useInt {
			if _, ok := bitsOf(from); ok {
				return "((" + a + " : Nat) : Int)"
			}
			if isInt(from) {
				return a
			}
		}
		if isBytes(to) && isBytes(from) {
			return a
		}
		return t.fail(x, "conversion "+from.String()+" -> "+to.String())
	}
	switch f := x.Fun.(type) {
	case *ast.Ident:
		switch f.Name {
		case "len":
			at := t.typeOf(x.Args[0])
			if isBytes(at) || isStrs(at) {
				if t.useInt {
					return "((" + t.expr(x.Args[0]) + ").length : Int)"
				}
				return "(" + t.expr(x.Args[0]) + ").length"
			}
			if _, ok := at.Underlying().(*types.Slice); ok { // a slice whose length is all that is used
				if sel, ok := x.Args[0].(*ast.SelectorExpr); ok {
					if n, ok := t.selName(sel); ok {
						t.addParam(n+"_len", "Nat")
						return n + "_len"
					}
				}
			}
			return t.fail(x, "len of "+at.String())
		case "append":
			if len(x.Args) == 2 && !x.Ellipsis.IsValid() && isStrs(t.typeOf(x.Args[0])) && isBytes(t.typeOf(x.Args[1])) {
				return "(" + t.expr(x.Args[0]) + " ++ [" + t.expr(x.Args[1]) + "])"
			}
			if len(x.Args) == 2 && x.Ellipsis.IsValid() && isBytes(t.typeOf(x.Args[0])) {
				return "(" + t.expr(x.Args[0]) + " ++ " + t.expr(x.Args[1]) + ")"
			}
		}
	case *ast.SelectorExpr:
		if inner, ok := f.X.(*ast.SelectorExpr); ok && f.Sel.Name == "Uint16" && inner.Sel.Name == "BigEndian" && len(x.Args) == 1 && isBytes(t.typeOf(x.Args[0])) {
			if id, ok := inner.X.(*ast.Ident); ok && id.Name == "binary" && t.partial && t.guarded == 0 {
				// binary.BigEndian.Uint16(b) reads b[1] (bounds check first) and b[0]
				b := t.expr(x.Args[0])
				t.nfresh++
				lo := fmt.Sprintf("be%d", t.nfresh)
				t.nfresh++
				hi := fmt.Sprintf("be%d", t.nfresh)
				t.pend = append(t.pend, fmt.Sprintf("let %s ← (%s)[1]?", lo, b), fmt.Sprintf("let %s ← (%s)[0]?", hi, b))
				return "(" + hi + ".toNat * 256 + " + lo + ".toNat)"
			}
		}
		if p, ok := f.X.(*ast.Ident); ok && p.Name == "bytes" && len(x.Args) == 2 && isBytes(t.typeOf(x.Args[0])) && isBytes(t.typeOf(x.Args[1])) {
			a, b := t.expr(x.Args[0]), t.expr(x.Args[1])
			switch f.Sel.Name {
			case "HasPrefix":
				return "(List.isPrefixOf " + b + " " + a + ")"
			case "TrimPrefix":
				return "(if List.isPrefixOf " + b + " " + a + " then List.drop (" + b + ").length " + a + " else " + a + ")"
			}
		}
		if p, ok := f.X.(*ast.Ident); ok && p.Name == "errors" && f.Sel.Name == "New" {
			return "\"errorf\""
		}
		if p, ok := f.X.(*ast.Ident); ok && p.Name == "fmt" && f.Sel.Name == "Errorf" {
			return "\"errorf\""
		}
	}
	return t.fail(x, "call")
}

func (t *tr) isLogCall(s ast.Stmt) bool {
	es, ok := s.(*ast.ExprStmt)
	if !ok {
		return false
	}
	c, ok := es.X.(*ast.CallExpr)
	if !ok {
		return false
	}
	sel, ok := c.Fun.(*ast.SelectorExpr)
	if !ok {
		return false
	}
	id, ok := sel.X.(*ast.Ident)
	return ok && t.logpk[id.Name]
}

// identifiers used outside logging calls
func (t *tr) usedIdents(body *ast.BlockStmt) map[string]int {
	used := map[string]int{}
	var walk func(n ast.Node) bool
	walk = func(n ast.Node) bool {
		if s, ok := n.(ast.Stmt); ok && t.isLogCall(s) {
			return false
		}
		if es, ok := n.(*ast.ExprStmt); ok {
			if c, ok := es.X.(*ast.CallExpr); ok {
				if id, ok := c.Fun.(*ast.Ident); ok && id.Name == "panic" {
					return false
				}
			}
		}
		if as, ok := n.(*ast.AssignStmt); ok {
			for _, r := range as.Rhs {
				ast.Inspect(r, walk)
			}
			if as.Tok != token.DEFINE && as.Tok != token.ASSIGN {
				for _, l := range as.Lhs {
					ast.Inspect(l, walk)
				}
			}
			return false
		}
		if id, ok := n.(*ast.Ident); ok {
			used[id.Name]++
		}
		return true
	}
	ast.Inspect(body, walk)
	return used
}

var pureMethods = map[string]bool{"Where": true}

func hasReturn(b *ast.BlockStmt) bool {
	found := false
	ast.Inspect(b, func(n ast.Node) bool {
		if _, ok := n.(*ast.ReturnStmt); ok {
			found = true
		}
		return true
	})
	return found
}

func (t *tr) result(vals []string) string {
	all := append([]string{}, vals...)
	all = append(all, t.muts...)
	r := "(" + strings.Join(all, ", ") + ")"
	if len(all) == 0 {
		r = "()"
	} else if len(all) == 1 {
		r = all[0]
	}
	if t.partial {
		return "some " + r
	}
	return r
}

// take hands out (and clears) the binds hoisted while the last expressions were translated, one line each.
func (t *tr) take(ind string) string {
	var sb strings.Builder
	for _, p := range t.pend {
		sb.WriteString(ind + p + "\n")
	}
	t.pend = nil
	return sb.String()
}

func (t *tr) stmts(ss []ast.Stmt, used map[string]int, ind string) string {
	if len(ss) == 0 {
		if t.rets == 0 {
			return ind + t.result(nil)
		}
		return ind + t.fail(&ast.BadStmt{}, "control reaches the end of a function with results")
	}
	s, rest := ss[0], ss[1:]
	if t.isLogCall(s) {
		return t.stmts(rest, used, ind)
	}
	if es, ok := s.(*ast.ExprStmt); ok {
		if c, ok := es.X.(*ast.CallExpr); ok && len(c.Args) == 0 {
			if sel, ok := c.Fun.(*ast.SelectorExpr); ok {
				root := sel.X
				for {
					if sx, ok := root.(*ast.SelectorExpr); ok {
						root = sx.X
						continue
					}
					break
				}
				if id, ok := root.(*ast.Ident); ok && (id.Name == t.recv || t.alias[id.Name]) {
					if fd := t.funcs[sel.Sel.Name]; fd != nil && fd.Recv != nil && len(fd.Recv.List[0].Names) == 1 &&
						(fd.Type.Results == nil || len(fd.Type.Results.List) == 0) && fd.Type.Params.NumFields() == 0 && !hasReturn(fd.Body) {
						t.alias[fd.Recv.List[0].Names[0].Name] = true
						return t.stmts(append(append([]ast.Stmt{}, fd.Body.List...), rest...), used, ind)
					}
				}
			}
		}
	}
	if es, ok := s.(*ast.ExprStmt); ok {
		if c, ok := es.X.(*ast.CallExpr); ok {
			if id, ok := c.Fun.(*ast.Ident); ok && id.Name == "panic" {
				if !t.partial {
					return ind + t.fail(s, "panic in a function without partial operations")
				}
				return ind + "none" // what follows a panic is never reached
			}
		}
	}
	if as, ok := s.(*ast.AssignStmt); ok && len(as.Lhs) == 1 && len(as.Rhs) == 1 {
		// the text of a panic message: x := fmt.Sprintf(...) where only panic(x) looks at x
		if li, ok := as.Lhs[0].(*ast.Ident); ok && used[li.Name] == 0 {
			if c, ok := as.Rhs[0].(*ast.CallExpr); ok {
				if sel, ok := c.Fun.(*ast.SelectorExpr); ok {
					if p, ok := sel.X.(*ast.Ident); ok && p.Name == "fmt" && sel.Sel.Name == "Sprintf" {
						return t.stmts(rest, used, ind)
					}
				}
			}
		}
	}
	if ids, ok := s.(*ast.IncDecStmt); ok {
		// x++ / x-- is x += 1 / x -= 1
		tok := token.ADD_ASSIGN
		if ids.Tok == token.DEC {
			tok = token.SUB_ASSIGN
		}
		one := &ast.BasicLit{Kind: token.INT, Value: "1"}
		t.info.Types[one] = types.TypeAndValue{Type: types.Typ[types.UntypedInt], Value: constant.MakeInt64(1)}
		s = &ast.AssignStmt{Lhs: []ast.Expr{ids.X}, Tok: tok, Rhs: []ast.Expr{one}}
	}
	switch x := s.(type) {
	case *ast.ReturnStmt:
		var vals []string
		for i, r := range x.Results {
			if id, ok := r.(*ast.Ident); ok && id.Name == "nil" && i < len(t.rtys) && t.rtys[i] == "Bytes" {
				vals = append(vals, "([] : Bytes)") // the nil slice
				continue
			}
			vals = append(vals, t.expr(r))
		}
		return t.take(ind) + ind + t.result(vals)
	case *ast.DeclStmt:
		gd, ok := x.Decl.(*ast.GenDecl)
		if ok && gd.Tok == token.VAR && len(gd.Specs) == 1 {
			vs := gd.Specs[0].(*ast.ValueSpec)
			if len(vs.Names) == 1 && len(vs.Values) == 0 {
				ty := t.typeOf(vs.Names[0])
				zero := "0"
				if isBytes(ty) {
					zero = "([] : Bytes)"
				} else if isBool(ty) {
					zero = "false"
				}
				lt := t.leanType(vs, ty)
				return ind + "let " + leanIdent(vs.Names[0].Name) + " : " + lt + " := " + zero + "\n" + t.stmts(rest, used, ind)
			}
		}
		return ind + t.fail(x, "declaration")
	case *ast.AssignStmt:
		// results of a pure method that only logging looks at
		if len(x.Rhs) == 1 && len(x.Lhs) >= 1 {
			if c, ok := x.Rhs[0].(*ast.CallExpr); ok {
				if sel, ok := c.Fun.(*ast.SelectorExpr); ok {
					if id, ok := sel.X.(*ast.Ident); ok && id.Name == t.recv && pureMethods[sel.Sel.Name] {
						dead := true
						for _, l := range x.Lhs {
							if li, ok := l.(*ast.Ident); !ok || used[li.Name] > 0 {
								dead = false
							}
						}
						if dead {
							return t.stmts(rest, used, ind)
						}
					}
				}
			}
		}
		if len(x.Lhs) != 1 || len(x.Rhs) != 1 {
			return ind + t.fail(x, "tuple assignment")
		}
		var name string
		switch l := x.Lhs[0].(type) {
		case *ast.Ident:
			name = leanIdent(l.Name)
		case *ast.SelectorExpr:
			n, ok := t.selName(l)
			if !ok {
				return ind + t.fail(x, "assignment target")
			}
			name = n
			t.addParam(n, t.leanType(l, t.typeOf(l)))
		default:
			return ind + t.fail(x, "assignment target")
		}
		var rhs string
		switch x.Tok {
		case token.DEFINE, token.ASSIGN:
			rhs = t.expr(x.Rhs[0])
			// a constant assigned to a sized field keeps its value (go/types has checked that it fits)
		case token.ADD_ASSIGN, token.SUB_ASSIGN, token.OR_ASSIGN, token.AND_ASSIGN:
			op := map[token.Token]token.Token{token.ADD_ASSIGN: token.ADD, token.SUB_ASSIGN: token.SUB, token.OR_ASSIGN: token.OR, token.AND_ASSIGN: token.AND}[x.Tok]
			be := &ast.BinaryExpr{X: x.Lhs[0], Op: op, Y: x.Rhs[0]}
			t.info.Types[be] = types.TypeAndValue{Type: t.typeOf(x.Lhs[0])}
			rhs = t.binary(be)
		default:
			return ind + t.fail(x, "assignment operator "+x.Tok.String())
		}
		return t.take(ind) + ind + "let " + name + " := " + rhs + "\n" + t.stmts(rest, used, ind)
	case *ast.IfStmt:
		if x.Init != nil {
			return ind + t.fail(x, "if with init")
		}
		c := t.expr(x.Cond)
		thenS := append(append([]ast.Stmt{}, x.Body.List...), rest...)
		var elseS []ast.Stmt
		switch e := x.Else.(type) {
		case nil:
			elseS = rest
		case *ast.BlockStmt:
			elseS = append(append([]ast.Stmt{}, e.List...), rest...)
		default:
			return ind + t.fail(x, "else if")
		}
		return t.take(ind) + ind + "if " + c + " then\n" + t.stmts(thenS, used, ind+"  ") + "\n" + ind + "else\n" + t.stmts(elseS, used, ind+"  ")
	}
	return ind + t.fail(s, fmt.Sprintf("statement %T", s))
}

func translate(repo string, tg target) (string, error) {
	fset := token.NewFileSet()
	dir := filepath.Join(repo, tg.dir)
	pkgs, err := parser.ParseDir(fset, dir, func(fi os.FileInfo) bool { return !strings.HasSuffix(fi.Name(), "_test.go") }, parser.ParseComments)
	if err != nil {
		return "", err
	}
	var files []*ast.File
	var names []string
	for _, p := range pkgs {
		if strings.HasSuffix(p.Name, "_test") {
			continue
		}
		for n := range p.Files {
			names = append(names, n)
		}
		sort.Strings(names)
		for _, n := range names {
			files = append(files, p.Files[n])
		}
		break
	}
	info := &types.Info{Types: map[ast.Expr]types.TypeAndValue{}, Defs: map[*ast.Ident]types.Object{}, Uses: map[*ast.Ident]types.Object{}}
	module := ""
	if gm, err := os.ReadFile(filepath.Join(repo, "go.mod")); err == nil {
		for _, l := range strings.Split(string(gm), "\n") {
			if strings.HasPrefix(l, "module ") {
				module = strings.TrimSpace(strings.TrimPrefix(l, "module "))
			}
		}
	}
	conf := types.Config{Importer: fakeImporter{importer.ForCompiler(fset, "source", nil), repo, module, map[string]*types.Package{}}, Error: func(error) {}}
	conf.Check(tg.dir, fset, files, info)
	var fd *ast.FuncDecl
	logpk := map[string]bool{}
	for _, f := range files {
		for _, d := range f.Decls {
			switch x := d.(type) {
			case *ast.FuncDecl:
				if x.Name.Name != tg.fn {
					continue
				}
				r := ""
				if x.Recv != nil && len(x.Recv.List) == 1 {
					ty := x.Recv.List[0].Type
					if st, ok := ty.(*ast.StarExpr); ok {
						ty = st.X
					}
					if id, ok := ty.(*ast.Ident); ok {
						r = id.Name
					}
				}
				if r == tg.recv {
					fd = x
				}
			case *ast.GenDecl:
				// package-level logger variables: var logg = logging.NewVanilla()...
				if x.Tok == token.VAR {
					for _, sp := range x.Specs {
						vs := sp.(*ast.ValueSpec)
						for i, n := range vs.Names {
							if i < len(vs.Values) {
								found := false
								ast.Inspect(vs.Values[i], func(m ast.Node) bool {
									if id, ok := m.(*ast.Ident); ok && id.Name == "logging" {
										found = true
									}
									return true
								})
								if found {
									logpk[n.Name] = true
								}
							}
						}
					}
				}
			}
		}
	}
	if fd == nil || fd.Body == nil {
		return "", fmt.Errorf("function %s.%s not found in %s", tg.recv, tg.fn, tg.dir)
	}
	t := &tr{info: info, fset: fset, ptypes: map[string]string{}, logpk: logpk, ptrs: map[string]bool{}, alias: map[string]bool{}, funcs: map[string]*ast.FuncDecl{}}
	t.pkgvar = map[string]ast.Expr{}
	for _, f := range files {
		for _, d := range f.Decls {
			if gd, ok := d.(*ast.GenDecl); ok && gd.Tok == token.VAR {
				for _, sp := range gd.Specs {
					vs := sp.(*ast.ValueSpec)
					for i, n := range vs.Names {
						if i < len(vs.Values) {
							t.pkgvar[n.Name] = vs.Values[i]
						}
					}
				}
			}
		}
	}
	dup := map[string]bool{}
	for _, f := range files {
		for _, d := range f.Decls {
			if x, ok := d.(*ast.FuncDecl); ok && x.Recv != nil && x.Body != nil {
				if t.funcs[x.Name.Name] != nil {
					dup[x.Name.Name] = true // the same method name on two types: never inlined
				}
				t.funcs[x.Name.Name] = x
			}
		}
	}
	for n := range dup {
		delete(t.funcs, n)
	}
	if fd.Recv != nil && len(fd.Recv.List[0].Names) == 1 {
		t.recv = fd.Recv.List[0].Names[0].Name
	}
	// assigned receiver fields
	mut := map[string]bool{}
	var scan func(n ast.Node) bool
	scan = func(n ast.Node) bool {
		if as, ok := n.(*ast.AssignStmt); ok {
			for _, l := range as.Lhs {
				if sel, ok := l.(*ast.SelectorExpr); ok {
					if nm, ok := t.selName(sel); ok {
						mut[nm] = true
					}
				}
			}
		}
		// an argument-less method called as a statement may be inlined: its assignments count as well
		if es, ok := n.(*ast.ExprStmt); ok {
			if c, ok := es.X.(*ast.CallExpr); ok && len(c.Args) == 0 {
				if sel, ok := c.Fun.(*ast.SelectorExpr); ok {
					if cfd := t.funcs[sel.Sel.Name]; cfd != nil && cfd != fd && cfd.Recv != nil && len(cfd.Recv.List[0].Names) == 1 {
						was := t.alias[cfd.Recv.List[0].Names[0].Name]
						t.alias[cfd.Recv.List[0].Names[0].Name] = true
						ast.Inspect(cfd.Body, scan)
						t.alias[cfd.Recv.List[0].Names[0].Name] = was
					}
				}
			}
		}
		if ids, ok := n.(*ast.IncDecStmt); ok {
			if sel, ok := ids.X.(*ast.SelectorExpr); ok {
				if nm, ok := t.selName(sel); ok {
					mut[nm] = true
				}
			}
		}
		return true
	}
	ast.Inspect(fd.Body, scan)
	ast.Inspect(fd.Body, func(n ast.Node) bool {
		switch n.(type) {
		case *ast.IndexExpr, *ast.SliceExpr:
			t.partial, t.useInt = true, true
		}
		if be, ok := n.(*ast.BinaryExpr); ok && be.Op == token.SUB && isInt(t.typeOf(be)) {
			t.useInt = true // an int difference may be negative
		}
		if c, ok := n.(*ast.CallExpr); ok {
			if id, ok := c.Fun.(*ast.Ident); ok && id.Name == "panic" {
				t.partial, t.useInt = true, true
			}
			if sel, ok := c.Fun.(*ast.SelectorExpr); ok && sel.Sel.Name == "Uint16" {
				t.partial, t.useInt = true, true
			}
		}
		return true
	})
	for m := range mut {
		t.muts = append(t.muts, m)
	}
	sort.Strings(t.muts)
	// ordinary parameters first, in declaration order
	for _, f := range fd.Type.Params.List {
		for _, n := range f.Names {
			ty := t.typeOf(n)
			if p, ok := ty.(*types.Pointer); ok {
				_ = p
				t.ptrs[n.Name] = true
				continue
			}
			if _, ok := f.Type.(*ast.StarExpr); ok {
				t.ptrs[n.Name] = true
				continue
			}
			t.addParam(leanIdent(n.Name), t.leanType(n, ty))
		}
	}
	var rtypes []string
	if fd.Type.Results != nil {
		for _, f := range fd.Type.Results.List {
			k := len(f.Names)
			if k == 0 {
				k = 1
			}
			for i := 0; i < k; i++ {
				rtypes = append(rtypes, t.leanType(f.Type, info.Types[f.Type].Type))
			}
		}
	}
	t.rets = len(rtypes)
	t.rtys = append([]string{}, rtypes...)
	body := t.stmts(fd.Body.List, t.usedIdents(fd.Body), "  ")
	for _, m := range t.muts {
		rtypes = append(rtypes, t.ptypes[m])
	}
	if t.err != nil {
		return "", t.err
	}
	var ps []string
	// receiver-derived parameters sorted after the declared ones for a stable signature
	declared := 0
	for _, f := range fd.Type.Params.List {
		for _, n := range f.Names {
			if _, ok := t.ptypes[leanIdent(n.Name)]; ok {
				declared++
			}
		}
	}
	rest := append([]string{}, t.params[declared:]...)
	sort.Strings(rest)
	for _, p := range append(append([]string{}, t.params[:declared]...), rest...) {
		ps = append(ps, "("+p+" : "+t.ptypes[p]+")")
	}
	rt := "Unit"
	if len(rtypes) > 0 {
		rt = strings.Join(rtypes, " × ")
	}
	pos := fset.Position(fd.Pos())
	rel, _ := filepath.Rel(repo, pos.Filename)
	var sb strings.Builder
	fmt.Fprintf(&sb, "/-- %s: `%s` (results", rel, tg.fn)
	if len(t.muts) > 0 {
		fmt.Fprintf(&sb, ", then the assigned receiver fields %s", strings.Join(t.muts, ", "))
	}
	if t.partial {
		fmt.Fprintf(&sb, "; `none` = a run-time panic of an index or slice expression) -/\ndef %s %s : Option (%s) := do\n%s\n", tg.name, strings.Join(ps, " "), rt, body)
	} else {
		fmt.Fprintf(&sb, ") -/\ndef %s %s : %s :=\n%s\n", tg.name, strings.Join(ps, " "), rt, body)
	}
	return sb.String(), nil
}

func main() {
	if len(os.Args) < 3 {
		fmt.Fprintln(os.Stderr, "usage: gotrans <repo> <outdir>")
		os.Exit(2)
	}
	repo, out := os.Args[1], os.Args[2]
	os.MkdirAll(out, 0o755)
	for _, tg := range targets {
		modname := strings.ToUpper(tg.name[:1]) + tg.name[1:]
		path := filepath.Join(out, modname+".lean")
		var sb strings.Builder
		sb.WriteString("/- REGENERATED from the go-vise source by harness/cmd/gotrans on every run. Do not edit. -/\nimport Vise.Basic\nnamespace Vise.GenFn\n\n")
		def, err := translate(repo, tg)
		if err != nil {
			fmt.Fprintf(&sb, "/- NOT TRANSLATED: %s -/\n", strings.ReplaceAll(err.Error(), "-/", "- /"))
			fmt.Fprintf(os.Stderr, "gotrans: %s: %v\n", tg.name, err)
		} else {
			sb.WriteString(def)
		}
		sb.WriteString("\nend Vise.GenFn\n")
		old, _ := os.ReadFile(path)
		if string(old) != sb.String() {
			os.Remove(path)
			if err := os.WriteFile(path, []byte(sb.String()), 0o644); err != nil {
				fmt.Fprintln(os.Stderr, err)
				os.Exit(1)
			}
		}
	}
}
