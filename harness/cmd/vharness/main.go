// vharness drives the real go-vise packages for the correspondence check and the direct oracles.
//
//	vharness <suite> -seed S -tier quick|thorough -out DIR [-replay FILE] [-n N]
//
// It writes, into DIR:
//
//	cases.txt   one case per line (what the Lean model driver reads)
//	impl.out    one canonical result line per case, from the real code
//	oracle.txt  one line per direct-oracle failure: FAIL <property> <class> case=<index> <detail>
//	stats.json  counts, distributions and samples for the evidence file
//
// Every random choice derives from one math/rand source seeded with -seed, so a disagreement
// replays exactly. Each case is executed under recover(); a panic is an outcome, not a crash.
package main

import (
	"bufio"
	"encoding/hex"
	"encoding/json"
	"flag"
	"fmt"
	"math/rand"
	"os"
	"path/filepath"
	"sort"
	"strings"
)

type Ctx struct {
	Suite    string
	Seed     int64
	Tier     string
	N        int
	Rng      *rand.Rand
	OutDir   string
	cases    *bufio.Writer
	impl     *bufio.Writer
	oracle   *bufio.Writer
	idx      int
	Counts   map[string]int
	Samples  []string
	distinct map[string]bool
	fails    int
	Notes    map[string]interface{}
}

type Suite struct {
	// Gen produces the case lines of this run (after the corpus lines).
	Gen func(c *Ctx) []string
	// Exec runs one case line on the real code and returns the canonical result line.
	// It reports direct-oracle failures through c.Fail.
	Exec func(c *Ctx, line string) string
	// Setup / Teardown are optional.
	Setup    func(c *Ctx)
	Teardown func(c *Ctx)
}

var suites = map[string]*Suite{}

func (c *Ctx) Thorough() bool { return c.Tier == "thorough" }

// Pick returns q for the quick tier and t for the thorough tier.
func (c *Ctx) Pick(q, t int) int {
	if c.N > 0 {
		return c.N
	}
	if c.Thorough() {
		return t
	}
	return q
}

func (c *Ctx) Count(k string) { c.Counts[k]++ }

// Fail records a direct-oracle failure for the current case.
func (c *Ctx) Fail(prop, class, detail string) {
	c.fails++
	fmt.Fprintf(c.oracle, "FAIL %s %s case=%d %s\n", prop, class, c.idx, detail)
}

func hx(b []byte) string {
	if len(b) == 0 {
		return "-"
	}
	return hex.EncodeToString(b)
}

func unhx(s string) []byte {
	if s == "-" {
		return []byte{}
	}
	b, err := hex.DecodeString(s)
	if err != nil {
		return nil
	}
	return b
}

func readLines(path string) []string {
	f, err := os.Open(path)
	if err != nil {
		return nil
	}
	defer f.Close()
	var r []string
	sc := bufio.NewScanner(f)
	sc.Buffer(make([]byte, 1<<20), 1<<28)
	for sc.Scan() {
		l := strings.TrimRight(sc.Text(), "\r\n")
		if l == "" || strings.HasPrefix(l, "#") {
			continue
		}
		r = append(r, l)
	}
	return r
}

func main() {
	if len(os.Args) < 2 {
		fmt.Fprintln(os.Stderr, "usage: vharness <suite> [flags]")
		os.Exit(2)
	}
	name := os.Args[1]
	if name == "concchild" {
		concChildMain(os.Args[2:])
		return
	}
	if name == "crashchild" {
		crashChildMain(os.Args[2:])
		return
	}
	fs := flag.NewFlagSet("vharness", flag.ExitOnError)
	seed := fs.Int64("seed", 1, "PRNG seed")
	tier := fs.String("tier", "quick", "quick|thorough")
	out := fs.String("out", "", "output directory")
	replay := fs.String("replay", "", "run the cases of this file only")
	corpus := fs.String("corpus", "", "directory with *.case files to run first")
	n := fs.Int("n", 0, "override the number of generated cases")
	fs.Parse(os.Args[2:])
	s, ok := suites[name]
	if !ok {
		var names []string
		for k := range suites {
			names = append(names, k)
		}
		sort.Strings(names)
		fmt.Fprintf(os.Stderr, "unknown suite %q; have %v\n", name, names)
		os.Exit(2)
	}
	if *out == "" {
		fmt.Fprintln(os.Stderr, "-out required")
		os.Exit(2)
	}
	os.MkdirAll(*out, 0o755)
	c := &Ctx{Suite: name, Seed: *seed, Tier: *tier, N: *n, Rng: rand.New(rand.NewSource(*seed)), OutDir: *out,
		Counts: map[string]int{}, distinct: map[string]bool{}, Notes: map[string]interface{}{}}
	mk := func(fn string) (*os.File, *bufio.Writer) {
		f, err := os.Create(filepath.Join(*out, fn))
		if err != nil {
			fmt.Fprintln(os.Stderr, err)
			os.Exit(2)
		}
		return f, bufio.NewWriterSize(f, 1<<20)
	}
	f1, w1 := mk("cases.txt")
	f2, w2 := mk("impl.out")
	f3, w3 := mk("oracle.txt")
	c.cases, c.impl, c.oracle = w1, w2, w3
	if s.Setup != nil {
		s.Setup(c)
	}
	var lines []string
	ncorpus := 0
	if *replay != "" {
		lines = readLines(*replay)
	} else {
		if *corpus != "" {
			files, _ := filepath.Glob(filepath.Join(*corpus, "*.case"))
			sort.Strings(files)
			for _, fn := range files {
				lines = append(lines, readLines(fn)...)
			}
			ncorpus = len(lines)
		}
		lines = append(lines, s.Gen(c)...)
	}
	for i, l := range lines {
		c.idx = i
		r := safeExec(s, c, l)
		fmt.Fprintln(c.cases, l)
		fmt.Fprintln(c.impl, r)
		key := l
		if len(key) > 200 {
			key = key[:200]
		}
		c.distinct[l] = true
		if len(c.Samples) < 6 && (i%(len(lines)/6+1) == 0) {
			smp := l
			if len(smp) > 300 {
				smp = smp[:300] + "..."
			}
			c.Samples = append(c.Samples, smp+" => "+trunc(r, 200))
		}
	}
	if s.Teardown != nil {
		s.Teardown(c)
	}
	w1.Flush()
	w2.Flush()
	w3.Flush()
	f1.Close()
	f2.Close()
	f3.Close()
	st := map[string]interface{}{
		"suite": name, "seed": *seed, "tier": *tier, "cases": len(lines), "corpus_cases": ncorpus,
		"distinct": len(c.distinct), "oracle_failures": c.fails, "counts": c.Counts, "samples": c.Samples, "notes": c.Notes,
	}
	b, _ := json.MarshalIndent(st, "", " ")
	os.WriteFile(filepath.Join(*out, "stats.json"), b, 0o644)
}

// safeExec runs one case; a panic that escapes the suite's own recover() is an outcome too.
func safeExec(s *Suite, c *Ctx, l string) (r string) {
	defer func() {
		if p := recover(); p != nil {
			c.Fail("harness", "uncaught-panic", fmt.Sprintf("%v in case %s", p, trunc(l, 200)))
			r = "panic"
		}
	}()
	return s.Exec(c, l)
}

func trunc(s string, n int) string {
	if len(s) > n {
		return s[:n] + "..."
	}
	return s
}
