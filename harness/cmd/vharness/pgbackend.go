package main

import (
	"git.defalsify.org/vise.git/db"
	pgdb "git.defalsify.org/vise.git/db/postgres"

	"verif/harness/internal/pgfake"
)

// newPgBackend returns the real Postgres backend wrapper over the in-process fake driver.
func newPgBackend() (db.Db, func()) {
	f := pgfake.New()
	p := pgdb.NewPgDb().WithConnection(f)
	return p, func() {}
}
