package main

// Suite "asm": C16 — asm.Parse (participle lexer + grammar, parseOne, Batcher/MenuProcessor) against the model,
// and against an independent reading of the source (line/field split by the documented grammar of
// doc/texinfo/instructions.texi) with its own encoder.
//
//	asm <hexsrc>          -> ok <hexbytes> | err | panic
//	lex <hexsrc>          -> token stream of a participle lexer built from the rules found in asm/asm.go | err
//	pu <bits> <hexdigits> -> strconv.ParseUint(s, 0, bits)
//	fu <n>                -> strconv.FormatUint(n, 10)

import (
	"bytes"
	"fmt"
	"go/ast"
	"go/parser"
	"go/token"
	"io"
	"log"
	"math/big"
	"os"
	"os/exec"
	"path/filepath"
	"regexp"
	"sort"
	"strconv"
	"strings"

	"github.com/alecthomas/participle/v2/lexer"

	"git.defalsify.org/vise.git/asm"
	"git.defalsify.org/vise.git/vm"
)

var asmLexDef *lexer.StatefulDefinition

func asmRepo() string {
	if r := os.Getenv("VERIF_REPO"); r != "" {
		return r
	}
	return "/repo"
}

// asmLexerFromSource builds a participle lexer from the SimpleRule list in asm/asm.go of the tree under test.
func asmLexerFromSource() (*lexer.StatefulDefinition, error) {
	fset := token.NewFileSet()
	f, err := parser.ParseFile(fset, filepath.Join(asmRepo(), "asm", "asm.go"), nil, 0)
	if err != nil {
		return nil, err
	}
	var rules []lexer.SimpleRule
	ast.Inspect(f, func(n ast.Node) bool {
		cl, ok := n.(*ast.CompositeLit)
		if !ok || rules != nil {
			return true
		}
		if at, ok := cl.Type.(*ast.ArrayType); ok {
			if se, ok := at.Elt.(*ast.SelectorExpr); ok && se.Sel.Name == "SimpleRule" {
				for _, el := range cl.Elts {
					r := el.(*ast.CompositeLit)
					if len(r.Elts) == 2 {
						a, _ := strconv.Unquote(r.Elts[0].(*ast.BasicLit).Value)
						b, _ := strconv.Unquote(r.Elts[1].(*ast.BasicLit).Value)
						rules = append(rules, lexer.SimpleRule{Name: a, Pattern: b})
					}
				}
				return false
			}
		}
		return true
	})
	if len(rules) == 0 {
		return nil, fmt.Errorf("no lexer rules found")
	}
	return lexer.NewSimple(rules)
}

// ---- the independent reading of a source ------------------------------------------------------------

var (
	reRegular  = regexp.MustCompile(`^[a-zA-Z][a-zA-Z0-9_]*$`)
	reSelector = regexp.MustCompile(`^(\*|[a-zA-Z0-9]+)$`)
	reNum      = regexp.MustCompile(`^[0-9]+$`)
)

type specInstr struct {
	op   string
	strs []string
	num  *big.Int
	mode int // -1 none
	tags []string
	src  string
}

func (i specInstr) text() string {
	s := i.op
	for n, x := range i.strs {
		// CATCH prints its number between symbol and mode; all others print strings first
		_ = n
		s += " " + x
	}
	if i.num != nil {
		s += " " + i.num.String()
	}
	if i.mode >= 0 {
		s += " " + strconv.Itoa(i.mode)
	}
	return s
}

// encodable reports whether the instruction fits the bytecode format.
func (i specInstr) encodable() bool {
	for _, s := range i.strs {
		if len(s) > 255 {
			return false
		}
	}
	if i.num != nil && i.num.BitLen() > 32 {
		return false
	}
	return true
}

func (i specInstr) encode() []byte {
	// the numbering is the library's own table: what is checked is which instruction with which arguments, not its number
	op := uint16(vm.OpcodeIndex[i.op])
	b := []byte{byte(op >> 8), byte(op)}
	for _, s := range i.strs {
		b = append(b, byte(len(s)))
		b = append(b, s...)
	}
	if i.num != nil {
		nb := i.num.Bytes()
		if len(nb) == 0 {
			nb = []byte{0}
		}
		b = append(b, byte(len(nb)))
		b = append(b, nb...)
	}
	if i.mode >= 0 {
		b = append(b, byte(i.mode))
	}
	return b
}

func symTags(kind, s string) []string {
	var t []string
	if len(s) > 0 && s[0] >= 'A' && s[0] <= 'Z' {
		t = append(t, kind+"-upper-led")
	}
	if len(s) > 255 {
		t = append(t, kind+"-too-long")
	}
	return t
}

func selTags(s string) []string {
	var t []string
	if s == "*" {
		return nil
	}
	digits := reNum.MatchString(s)
	switch {
	case digits && len(s) > 1 && s[0] == '0':
		t = append(t, "sel-leading-zero")
	case digits:
		if n, _ := new(big.Int).SetString(s, 10); n.BitLen() > 32 {
			t = append(t, "sel-numeric-big")
		}
	case s[0] >= '0' && s[0] <= '9':
		t = append(t, "sel-digit-led-mixed")
	case s[0] >= 'A' && s[0] <= 'Z':
		t = append(t, "sel-upper-led")
	}
	if len(s) > 255 {
		t = append(t, "sel-too-long")
	}
	return t
}

func numTags(s string) []string {
	var t []string
	if len(s) > 1 && s[0] == '0' {
		t = append(t, "num-leading-zero")
	}
	if n, _ := new(big.Int).SetString(s, 10); n.BitLen() > 32 {
		t = append(t, "num-too-big")
	}
	return t
}

func isNodeName(s string) bool {
	return reRegular.MatchString(s) || (len(s) == 1 && strings.ContainsAny(s, "._><^"))
}

// specParse reads a source by the documented grammar. ok=false: the source is outside the documented
// grammar (no verdict). Otherwise the expected instructions in emission order.
func specParse(src string) (out []specInstr, ok bool, why string) {
	if !strings.HasSuffix(src, "\n") {
		return nil, false, "no final newline"
	}
	for _, c := range []byte(src) {
		if c >= 0x80 || (c < 0x20 && c != '\n' && c != '\t' && c != '\r') {
			return nil, false, "non-printable"
		}
	}
	lines := strings.FieldsFunc(src, func(r rune) bool { return r == '\n' || r == '\r' })
	if len(src) > 0 && (src[0] == '\n' || src[0] == '\r') {
		return nil, false, "leading blank line"
	}
	var pre, post []specInstr
	inBatch := false
	for _, ln := range lines {
		code := ln
		if i := strings.IndexByte(code, '#'); i >= 0 {
			code = code[:i]
		}
		f := strings.Fields(code)
		if len(f) == 0 {
			// comment-only and whitespace-only lines are not in the documented grammar
			return nil, false, "line without instruction"
		}
		if code[0] == ' ' || code[0] == '\t' {
			return nil, false, "indented line"
		}
		num := func(s string) *big.Int { n, _ := new(big.Int).SetString(s, 10); return n }
		mk := func(i specInstr, tags ...[]string) specInstr {
			for _, t := range tags {
				i.tags = append(i.tags, t...)
			}
			i.src = ln
			return i
		}
		args := f[1:]
		bad := func() ([]specInstr, bool, string) { return nil, false, "not a documented line: " + ln }
		switch f[0] {
		case "DOWN", "UP", "NEXT", "PREVIOUS":
			inBatch = true
			var target, sel, label string
			if f[0] == "DOWN" {
				if len(args) != 3 || !reRegular.MatchString(args[0]) {
					return bad()
				}
				target, sel, label = args[0], args[1], args[2]
			} else {
				if len(args) != 2 {
					return bad()
				}
				sel, label = args[0], args[1]
			}
			if !reSelector.MatchString(sel) || !reRegular.MatchString(label) {
				return bad()
			}
			tags := append(append(selTags(sel), symTags("sym", label)...), symTags("sym", target)...)
			mop := map[string]string{"DOWN": "MOUT", "UP": "MOUT", "NEXT": "MNEXT", "PREVIOUS": "MPREV"}[f[0]]
			tgt := map[string]string{"DOWN": target, "UP": "_", "NEXT": ">", "PREVIOUS": "<"}[f[0]]
			pre = append(pre, mk(specInstr{op: mop, strs: []string{label, sel}, mode: -1}, tags))
			post = append(post, mk(specInstr{op: "INCMP", strs: []string{tgt, sel}, mode: -1}, tags))
			continue
		}
		if inBatch {
			// a regular line ends the batch: it expands where it stands, with its own lines only
			out = append(out, pre...)
			out = append(out, specInstr{op: "HALT", mode: -1, src: "(batch)"})
			out = append(out, post...)
			pre, post, inBatch = nil, nil, false
		}
		switch f[0] {
		case "HALT", "MSINK":
			if len(args) != 0 {
				return bad()
			}
			out = append(out, mk(specInstr{op: f[0], mode: -1}))
		case "MAP", "RELOAD":
			if len(args) != 1 || !reRegular.MatchString(args[0]) {
				return bad()
			}
			out = append(out, mk(specInstr{op: f[0], strs: args, mode: -1}, symTags("sym", args[0])))
		case "MOVE":
			if len(args) != 1 || !isNodeName(args[0]) {
				return bad()
			}
			out = append(out, mk(specInstr{op: f[0], strs: args, mode: -1}, symTags("sym", args[0])))
		case "LOAD":
			if len(args) != 2 || !reRegular.MatchString(args[0]) || !reNum.MatchString(args[1]) {
				return bad()
			}
			out = append(out, mk(specInstr{op: f[0], strs: args[:1], num: num(args[1]), mode: -1}, symTags("sym", args[0]), numTags(args[1])))
		case "INCMP":
			if len(args) != 2 || !isNodeName(args[0]) || !reSelector.MatchString(args[1]) {
				return bad()
			}
			out = append(out, mk(specInstr{op: f[0], strs: args, mode: -1}, symTags("sym", args[0]), selTags(args[1])))
		case "MOUT", "MNEXT", "MPREV":
			if len(args) != 2 || !reRegular.MatchString(args[0]) || !reSelector.MatchString(args[1]) {
				return bad()
			}
			out = append(out, mk(specInstr{op: f[0], strs: args, mode: -1}, symTags("sym", args[0]), selTags(args[1])))
		case "CATCH":
			if len(args) != 3 || !isNodeName(args[0]) || !reNum.MatchString(args[1]) || (args[2] != "0" && args[2] != "1") {
				return bad()
			}
			out = append(out, mk(specInstr{op: f[0], strs: args[:1], num: num(args[1]), mode: int(args[2][0] - '0')}, symTags("sym", args[0]), numTags(args[1])))
		case "CROAK":
			if len(args) != 2 || !reNum.MatchString(args[0]) || (args[1] != "0" && args[1] != "1") {
				return bad()
			}
			out = append(out, mk(specInstr{op: f[0], num: num(args[0]), mode: int(args[1][0] - '0')}, numTags(args[0])))
		default:
			return bad()
		}
	}
	if inBatch {
		out = append(out, pre...)
		out = append(out, specInstr{op: "HALT", mode: -1, src: "(batch)"})
		out = append(out, post...)
	}
	return out, true, ""
}

// splitInstrs cuts well-formed bytecode into instructions (own decoder, only used to localise a difference).
func splitInstrs(b []byte) [][]byte {
	var r [][]byte
	for len(b) >= 2 {
		op := int(b[0])<<8 | int(b[1])
		p := 2
		str := func() bool {
			if p >= len(b) || p+1+int(b[p]) > len(b) {
				return false
			}
			p += 1 + int(b[p])
			return true
		}
		okk := true
		switch vm.Opcode(op) {
		case vm.CATCH:
			okk = str() && str() && p < len(b)
			p++
		case vm.CROAK:
			okk = str() && p < len(b)
			p++
		case vm.LOAD:
			okk = str() && str()
		case vm.RELOAD, vm.MAP, vm.MOVE:
			okk = str()
		case vm.INCMP, vm.MOUT, vm.MNEXT, vm.MPREV:
			okk = str() && str()
		case vm.HALT, vm.MSINK:
		default:
			okk = false
		}
		if !okk || p > len(b) {
			break
		}
		r = append(r, b[:p])
		b = b[p:]
	}
	if len(b) > 0 {
		r = append(r, b)
	}
	return r
}

func tagClass(tags []string) string {
	if len(tags) == 0 {
		return "safe"
	}
	m := map[string]bool{}
	var u []string
	for _, t := range tags {
		if !m[t] {
			m[t] = true
			u = append(u, t)
		}
	}
	sort.Strings(u)
	return strings.Join(u, "+")
}

func asmRun(src string) (res string, out []byte) {
	var buf bytes.Buffer
	res = "ok"
	func() {
		defer func() {
			if r := recover(); r != nil {
				res = "panic"
			}
		}()
		if _, err := asm.Parse(src, &buf); err != nil {
			res = "err"
		}
	}()
	return res, buf.Bytes()
}

func asmOracle(c *Ctx, src string, res string, outBytes []byte) {
	exp, ok, why := specParse(src)
	if !ok {
		c.Count("spec:outside(" + strings.SplitN(why, ":", 2)[0] + ")")
		return
	}
	var all []string
	enc := true
	var want []byte
	for _, i := range exp {
		all = append(all, i.tags...)
		if !i.encodable() {
			enc = false
		}
	}
	c.Count("spec:valid:" + tagClass(all))
	q := strconv.Quote(src)
	if len(q) > 300 {
		q = q[:300] + "..."
	}
	// a refusal or panic concerns the whole source: attribute it to the first line that alone has the same outcome
	blame := func() string {
		for _, i := range exp {
			if i.src == "(batch)" || len(i.tags) == 0 {
				continue
			}
			if r, _ := asmRun(i.src + "\n"); r == res {
				return tagClass(i.tags)
			}
		}
		return tagClass(all)
	}
	switch {
	case res == "panic":
		c.Fail("C16", "panic:"+blame(), "asm.Parse panicked on the documented-valid source "+q)
		return
	case !enc:
		if res != "err" {
			c.Fail("C16", "unencodable-accepted:"+tagClass(all), fmt.Sprintf("source %s has an argument the format cannot hold, but bytecode %x was produced", q, outBytes))
		}
		return
	case res == "err":
		c.Fail("C16", "rejected:"+blame(), "documented-valid source is refused: "+q)
		return
	}
	for _, i := range exp {
		want = append(want, i.encode()...)
	}
	if bytes.Equal(want, outBytes) {
		return
	}
	// localise: first instruction that differs
	got := splitInstrs(outBytes)
	for n, i := range exp {
		if n >= len(got) || !bytes.Equal(got[n], i.encode()) {
			g := "(nothing)"
			if n < len(got) {
				g = fmt.Sprintf("%x", got[n])
				if t, err := vm.NewParseHandler().WithDefaultHandlers().ToString(got[n]); err == nil {
					g = strings.TrimSpace(t)
				}
			}
			c.Fail("C16", "altered:"+tagClass(i.tags), fmt.Sprintf("line %q of %s: expected instruction %q, emitted %q", i.src, q, i.text(), g))
			return
		}
	}
	c.Fail("C16", "extra-output:"+tagClass(all), fmt.Sprintf("source %s: %d bytes emitted after the %d expected instructions", q, len(outBytes)-len(want), len(exp)))
}

// ---- generator ---------------------------------------------------------------------------------------

type asmGen struct {
	c    *Ctx
	risk string // the single risk feature this program may contain ("" = none)
}

func (g *asmGen) r(n int) int { return g.c.Rng.Intn(n) }

const lowerAl = "abcdefghijklmnopqrstuvwxyz"
const alnumAl = "abcdefghijklmnopqrstuvwxyzABCDEFGHIJKLMNOPQRSTUVWXYZ0123456789"

func (g *asmGen) word(first, rest string, n int) string {
	b := []byte{first[g.r(len(first))]}
	for i := 1; i < n; i++ {
		b = append(b, rest[g.r(len(rest))])
	}
	return string(b)
}

func (g *asmGen) sym() string {
	switch g.risk {
	case "sym-upper-led":
		if g.r(2) == 0 {
			return g.word("ABCXYZ", alnumAl+"_", 1+g.r(6))
		}
	case "sym-too-long":
		if g.r(2) == 0 {
			return g.word(lowerAl, alnumAl+"_", 256+g.r(3))
		}
	case "sym-long":
		if g.r(2) == 0 {
			return g.word(lowerAl, alnumAl+"_", 250+g.r(6))
		}
	}
	return g.word(lowerAl, alnumAl+"_", 1+g.r(8))
}

func (g *asmGen) node() string {
	if g.r(5) == 0 {
		return string("._><^"[g.r(5)])
	}
	return g.sym()
}

func (g *asmGen) sel() string {
	switch g.risk {
	case "sel-leading-zero":
		if g.r(2) == 0 {
			return "0" + g.word("0123456789", "0123456789", 1+g.r(3))
		}
	case "sel-digit-led-mixed":
		if g.r(2) == 0 {
			return g.word("0123456789", "0123456789", 1+g.r(2)) + g.word(lowerAl+"ABC", alnumAl, 1+g.r(3))
		}
	case "sel-upper-led":
		if g.r(2) == 0 {
			return g.word("ABCXYZ", alnumAl, 1+g.r(4))
		}
	case "sel-numeric-big":
		if g.r(2) == 0 {
			return []string{"4294967296", "254712345678", "99999999999999999999"}[g.r(3)]
		}
	case "sel-too-long":
		if g.r(2) == 0 {
			return g.word(lowerAl, alnumAl, 256+g.r(2))
		}
	}
	switch g.r(6) {
	case 0:
		return "*"
	case 1, 2:
		return []string{"0", "1", "2", "9", "10", "42", "99", "100", "255", "256", "65535", "65536", "4294967295"}[g.r(13)]
	case 3:
		return strconv.Itoa(g.r(1000))
	default:
		return g.word(lowerAl, alnumAl, 1+g.r(5))
	}
}

func (g *asmGen) num() string {
	switch g.risk {
	case "num-leading-zero":
		if g.r(2) == 0 {
			return "0" + g.word("0123456789", "0123456789", 1+g.r(3))
		}
	case "num-too-big":
		if g.r(2) == 0 {
			return []string{"4294967296", "99999999999"}[g.r(2)]
		}
	}
	switch g.r(4) {
	case 0:
		return []string{"0", "1", "255", "256", "65535", "65536", "16777215", "16777216", "4294967295"}[g.r(9)]
	case 1:
		return strconv.FormatUint(uint64(g.c.Rng.Uint32()), 10)
	default:
		return strconv.Itoa(g.r(300))
	}
}

func (g *asmGen) sep() string {
	if g.risk == "fmt" {
		return []string{" ", "  ", "\t", " \t "}[g.r(4)]
	}
	return " "
}

func (g *asmGen) eol() string {
	s := ""
	if g.risk == "fmt" {
		switch g.r(6) {
		case 0:
			s = " "
		case 1:
			s = " # a comment 1 x"
		case 2:
			s = "# LOAD foo 1"
		case 3:
			s = "\t"
		}
		switch g.r(6) {
		case 0:
			return s + "\n\n"
		case 1:
			return s + "\r\n"
		}
	}
	return s + "\n"
}

func (g *asmGen) line(op string) string {
	j := func(a ...string) string {
		s := a[0]
		for _, x := range a[1:] {
			s += g.sep() + x
		}
		return s + g.eol()
	}
	switch op {
	case "HALT", "MSINK":
		return j(op)
	case "MAP", "RELOAD":
		return j(op, g.sym())
	case "MOVE":
		return j(op, g.node())
	case "LOAD":
		return j(op, g.sym(), g.num())
	case "INCMP":
		return j(op, g.node(), g.sel())
	case "MOUT", "MNEXT", "MPREV":
		return j(op, g.sym(), g.sel())
	case "CATCH":
		return j(op, g.node(), g.num(), strconv.Itoa(g.r(2)))
	case "CROAK":
		return j(op, g.num(), strconv.Itoa(g.r(2)))
	case "DOWN":
		return j(op, g.sym(), g.sel(), g.sym())
	default: // UP NEXT PREVIOUS
		return j(op, g.sel(), g.sym())
	}
}

var asmOps = []string{"HALT", "MSINK", "MAP", "RELOAD", "MOVE", "LOAD", "INCMP", "MOUT", "MNEXT", "MPREV", "CATCH", "CROAK"}
var asmBatch = []string{"DOWN", "UP", "NEXT", "PREVIOUS"}
var asmRisks = []string{"", "", "", "", "fmt", "fmt", "sym-long", "sel-leading-zero", "sel-digit-led-mixed", "sel-upper-led", "sel-numeric-big", "sel-too-long", "sym-upper-led", "sym-too-long", "num-leading-zero", "num-too-big"}

func (g *asmGen) program() string {
	g.risk = asmRisks[g.r(len(asmRisks))]
	var s string
	n := g.r(6)
	for i := 0; i < n; i++ {
		s += g.line(asmOps[g.r(len(asmOps))])
	}
	if g.r(2) == 0 || n == 0 {
		for i := 1 + g.r(4); i > 0; i-- {
			s += g.line(asmBatch[g.r(4)])
		}
		// sometimes more regular lines and further batches after the first one
		for g.r(3) == 0 {
			for i := 1 + g.r(3); i > 0; i-- {
				s += g.line(asmOps[g.r(len(asmOps))])
			}
			for i := g.r(3); i > 0; i-- {
				s += g.line(asmBatch[g.r(4)])
			}
		}
	}
	return s
}

// soup: token-level noise around the grammar (mostly invalid sources)
func (g *asmGen) soup() string {
	pieces := []string{"HALT", "LOAD", "INCMP", "MOUT", "CATCH", "CROAK", "DOWN", "UP", "NEXT", "FOO", "foo", "bar", "_", "*", ".", "^", "<", ">", "1", "0", "00", "08", "255", "256", "1a", "a1", "A", " ", " ", " ", "  ", "\t", "\n", "\n", "\n", "\r\n", "# c", "#", "\"", "'", "-", "é", ",", "MOVE foo\n", "INCMP foo 1\n"}
	var s string
	for i := 1 + g.r(9); i > 0; i-- {
		s += pieces[g.r(len(pieces))]
	}
	if g.r(3) > 0 {
		s += "\n"
	}
	return s
}

func init() {
	suites["asm"] = &Suite{
		Setup: func(c *Ctx) {
			log.SetOutput(io.Discard)
			d, err := asmLexerFromSource()
			if err != nil {
				fmt.Fprintf(os.Stderr, "asm suite: %v\n", err)
				os.Exit(2)
			}
			asmLexDef = d
		},
		Gen: func(c *Ctx) []string {
			g := &asmGen{c: c}
			var ls []string
			// every opcode and batch line alone, with every selector shape
			for _, op := range append(append([]string{}, asmOps...), asmBatch...) {
				for _, risk := range asmRisks[3:] {
					for k := 0; k < 6; k++ {
						g.risk = risk
						ls = append(ls, "asm "+hx([]byte(g.line(op))))
					}
				}
			}
			for i := 0; i < c.Pick(4000, 80000); i++ {
				ls = append(ls, "asm "+hx([]byte(g.program())))
			}
			for i := 0; i < c.Pick(3000, 60000); i++ {
				s := g.soup()
				ls = append(ls, "asm "+hx([]byte(s)))
				ls = append(ls, "lex "+hx([]byte(s)))
			}
			for i := 0; i < c.Pick(500, 5000); i++ {
				ls = append(ls, "lex "+hx([]byte(g.program())))
			}
			// the command line front end dev/asm: plain, and with the flag preprocessor (-f) on sources that name flags
			for i := 0; i < c.Pick(25, 400); i++ {
				g.risk = []string{"", "", "fmt"}[g.r(3)]
				var src string
				for k := 0; k < 1+g.r(5); k++ {
					src += g.line(asmOps[g.r(len(asmOps))])
				}
				ls = append(ls, "cli "+hx([]byte(src)))
				if i%2 == 0 {
					// ... and whole programs with their batch menu lines (one expansion per batch, not per line)
					g.risk = ""
					src = g.line(asmOps[g.r(len(asmOps))])
					for k := 0; k < 2+g.r(3); k++ {
						src += g.line(asmBatch[g.r(4)])
					}
					ls = append(ls, "cli "+hx([]byte(src)))
				}
				g.risk = ""
				src = ""
				for k := 0; k < 1+g.r(5); k++ {
					switch g.r(3) {
					case 0:
						src += fmt.Sprintf("CATCH %s %s %d\n", g.node(), []string{"alpha", "beta", "gamma", "12", "8"}[g.r(5)], g.r(2))
					case 1:
						src += fmt.Sprintf("CROAK %s %d\n", []string{"alpha", "beta", "gamma", "9"}[g.r(4)], g.r(2))
					default:
						src += g.line(asmOps[g.r(len(asmOps))])
					}
				}
				ls = append(ls, "clif "+hx([]byte(src)))
			}
			// numeric conversions: all digit strings up to length 3, plus boundaries
			for _, bits := range []int{8, 32} {
				var rec func(p string)
				rec = func(p string) {
					if len(p) > 0 {
						ls = append(ls, fmt.Sprintf("pu %d %s", bits, hx([]byte(p))))
					}
					if len(p) == 3 {
						return
					}
					for d := byte('0'); d <= '9'; d++ {
						rec(p + string(d))
					}
				}
				rec("")
				for _, s := range []string{"4294967295", "4294967296", "037777777777", "040000000000", "0377", "0400", "00000000000000000000001", "99999999999999999999999", "18446744073709551616"} {
					ls = append(ls, fmt.Sprintf("pu %d %s", bits, hx([]byte(s))))
				}
			}
			for _, n := range []uint64{0, 1, 9, 10, 11, 99, 100, 101, 255, 256, 999, 1000, 65535, 65536, 4294967295} {
				ls = append(ls, fmt.Sprintf("fu %d", n))
			}
			for i := 0; i < 300; i++ {
				ls = append(ls, fmt.Sprintf("fu %d", c.Rng.Uint32()>>uint(c.Rng.Intn(32))))
			}
			return ls
		},
		Exec: func(c *Ctx, line string) string {
			f := strings.Fields(line)
			if len(f) < 2 {
				return "bad-op"
			}
			switch f[0] {
			case "asm":
				src := unhx(f[1])
				if src == nil {
					return "bad-op"
				}
				res, out := asmRun(string(src))
				c.Count("asm:" + res)
				asmOracle(c, string(src), res, out)
				if res == "ok" {
					return "ok " + hx(out)
				}
				return res
			case "cli", "clif":
				// the real command: dev/asm [-f flags.csv] <file>, bytecode on stdout
				src := unhx(f[1])
				self, _ := os.Executable()
				bin := filepath.Join(filepath.Dir(self), "viseasm")
				work, err := os.MkdirTemp("", "vasm-")
				if err != nil {
					return "bad-op"
				}
				defer os.RemoveAll(work)
				fp := filepath.Join(work, "src.vis")
				os.WriteFile(fp, src, 0o600)
				args := []string{fp}
				if f[0] == "clif" {
					pp := filepath.Join(work, "pp.csv")
					os.WriteFile(pp, []byte("flag,alpha,8,first\nflag,beta,9\nflag,gamma,300,third\n"), 0o600)
					args = []string{"-f", pp, fp}
				}
				cmd := exec.Command(bin, args...)
				var so bytes.Buffer
				cmd.Stdout = &so
				if err := cmd.Run(); err != nil {
					c.Count(f[0] + ":err")
					return "err"
				}
				c.Count(f[0] + ":ok")
				return "ok " + hx(so.Bytes())
			case "lex":
				src := unhx(f[1])
				lx, err := asmLexDef.LexString("x", string(src))
				if err != nil {
					return "err"
				}
				names := map[lexer.TokenType]string{}
				for n, t := range asmLexDef.Symbols() {
					names[t] = n
				}
				var out []string
				for {
					t, err := lx.Next()
					if err != nil {
						return "err"
					}
					if t.EOF() {
						break
					}
					out = append(out, names[t.Type]+":"+hx([]byte(t.Value)))
				}
				if len(out) == 0 {
					return "-"
				}
				return strings.Join(out, " ")
			case "pu":
				if len(f) != 3 {
					return "bad-op"
				}
				bits, _ := strconv.Atoi(f[1])
				n, err := strconv.ParseUint(string(unhx(f[2])), 0, bits)
				if err != nil {
					return "err"
				}
				return fmt.Sprintf("ok %d", n)
			case "fu":
				n, err := strconv.ParseUint(f[1], 10, 64)
				if err != nil {
					return "bad-op"
				}
				return hx([]byte(strconv.FormatUint(n, 10)))
			}
			return "bad-op"
		},
	}
}
