package main

// Suite "cache": C09 against cache/cache.go. One operation sequence per case; after every operation
// the exported fields are written out canonically (compared with the Lean model) and checked
// against an independent reference (direct oracle).

import (
	"fmt"
	"sort"
	"strconv"
	"strings"

	"git.defalsify.org/vise.git/cache"
)

func tvString(tag, l int) string {
	if l == 0 {
		return ""
	}
	if tag == 4 {
		// multi-byte text of exactly l bytes: a leading 'e' (so that tvOut reads the tag back), then two-byte characters
		s := "e" + strings.Repeat("é", (l-1)/2)
		if len(s) < l {
			s += "e"
		}
		return s
	}
	return strings.Repeat(string(rune('a'+tag)), l)
}

func tvOut(s string) string {
	if len(s) == 0 {
		return "0.0"
	}
	return fmt.Sprintf("%d.%d", int(s[0]-'a'), len(s))
}

func cacheOut(ca *cache.Cache) string {
	var frames []string
	for _, m := range ca.Cache {
		var es []string
		for k, v := range m {
			es = append(es, hx([]byte(k))+"="+tvOut(v))
		}
		sort.Strings(es)
		frames = append(frames, strings.Join(es, ","))
	}
	var ss []string
	for k, v := range ca.Sizes {
		ss = append(ss, fmt.Sprintf("%s=%d", hx([]byte(k)), v))
	}
	sort.Strings(ss)
	return fmt.Sprintf("%d|%s|%s|%s", ca.CacheUseSize, strings.Join(frames, ";"), strings.Join(ss, ","), tvOut(ca.LastValue))
}

type cacheSnap struct {
	use    uint32
	frames []map[string]string
	sizes  map[string]uint16
	last   string
}

func snapCache(ca *cache.Cache) cacheSnap {
	s := cacheSnap{use: ca.CacheUseSize, sizes: map[string]uint16{}, last: ca.LastValue}
	for _, m := range ca.Cache {
		c := map[string]string{}
		for k, v := range m {
			c[k] = v
		}
		s.frames = append(s.frames, c)
	}
	for k, v := range ca.Sizes {
		s.sizes[k] = v
	}
	return s
}

func (a cacheSnap) equal(b cacheSnap) bool {
	if a.use != b.use || len(a.frames) != len(b.frames) || len(a.sizes) != len(b.sizes) || a.last != b.last {
		return false
	}
	for i := range a.frames {
		if len(a.frames[i]) != len(b.frames[i]) {
			return false
		}
		for k, v := range a.frames[i] {
			if w, ok := b.frames[i][k]; !ok || w != v {
				return false
			}
		}
	}
	for k, v := range a.sizes {
		if w, ok := b.sizes[k]; !ok || w != v {
			return false
		}
	}
	return true
}

func (s cacheSnap) sum() uint64 {
	var t uint64
	for _, m := range s.frames {
		for _, v := range m {
			t += uint64(len(v))
		}
	}
	return t
}

// cacheInvariants checks the state-only clauses of C09 on the exported fields.
func cacheInvariants(c *Ctx, ca *cache.Cache, where string) {
	s := snapCache(ca)
	if uint64(s.use) != s.sum() {
		c.Fail("C09", "use-ne-sum", fmt.Sprintf("%s: CacheUseSize=%d but stored values total %d bytes", where, s.use, s.sum()))
		c.Fail("C08", "use-ne-sum", fmt.Sprintf("%s: CacheUseSize=%d but stored values total %d bytes", where, s.use, s.sum()))
	}
	if ca.CacheSize > 0 && s.sum() > uint64(ca.CacheSize) {
		c.Fail("C09", "over-capacity", fmt.Sprintf("%s: %d bytes cached, capacity %d", where, s.sum(), ca.CacheSize))
		c.Fail("C08", "over-capacity", fmt.Sprintf("%s: %d bytes cached, capacity %d", where, s.sum(), ca.CacheSize))
	}
	seen := map[string]int{}
	for i, m := range s.frames {
		for k, v := range m {
			if j, ok := seen[k]; ok {
				c.Fail("C09", "key-in-two-scopes", fmt.Sprintf("%s: key %q in frames %d and %d", where, k, j, i))
				c.Fail("C08", "key-in-two-scopes", fmt.Sprintf("%s: key %q in frames %d and %d", where, k, j, i))
			}
			seen[k] = i
			lim, ok := s.sizes[k]
			if !ok {
				c.Fail("C09", "no-size-for-live-key", fmt.Sprintf("%s: key %q has no size entry", where, k))
			} else if lim > 0 && len(v) > int(lim) {
				c.Fail("C09", "stored-over-limit", fmt.Sprintf("%s: key %q holds %d bytes, limit %d", where, k, len(v), lim))
				c.Fail("C05", "stored-over-limit", fmt.Sprintf("%s: key %q holds %d bytes, limit %d", where, k, len(v), lim))
			}
		}
	}
}

var cacheKeys = []string{"a", "b", "foo", "xyzzy"}

func init() {
	suites["cache"] = &Suite{
		Gen: func(c *Ctx) []string {
			var ls []string
			lens := []int{0, 1, 2, 4, 5, 6, 9, 10, 11, 255, 256, 65535, 65536, 65537, 65539, 70000}
			limits := []int{0, 1, 5, 10, 255, 65535}
			caps := []int{0, 1, 10, 20, 300, 100000}
			n := c.Pick(3000, 60000)
			for i := 0; i < n; i++ {
				cp := caps[c.Rng.Intn(len(caps))]
				m := 1 + c.Rng.Intn(30)
				if c.Rng.Intn(8) == 0 {
					m = 30 + c.Rng.Intn(30)
				}
				var ops []string
				small := c.Rng.Intn(2) == 0 // mostly-valid stream: small values that fit
				for j := 0; j < m; j++ {
					k := hx([]byte(cacheKeys[c.Rng.Intn(len(cacheKeys))]))
					l := lens[c.Rng.Intn(len(lens))]
					if small {
						l = c.Rng.Intn(8)
					}
					lim := limits[c.Rng.Intn(len(limits))]
					if c.Rng.Intn(5) == 0 && l > 0 {
						lim = l + c.Rng.Intn(3) - 1 // around the value length
						if lim < 0 {
							lim = 0
						}
						if lim > 65535 { // the API takes a uint16 limit
							lim = 65535
						}
					}
					switch c.Rng.Intn(14) {
					case 0, 1, 2, 3:
						ops = append(ops, fmt.Sprintf("a:%s:%d:%d:%d", k, c.Rng.Intn(5), l, lim))
					case 4, 5, 6:
						ops = append(ops, fmt.Sprintf("u:%s:%d:%d", k, c.Rng.Intn(5), l))
					case 7:
						ops = append(ops, "g:"+k)
					case 8:
						ops = append(ops, "r:"+k)
					case 9, 10:
						ops = append(ops, "p")
					case 11:
						ops = append(ops, "o")
					case 12:
						if c.Rng.Intn(3) == 0 {
							ops = append(ops, "x")
						} else {
							ops = append(ops, "l")
						}
					case 13:
						ops = append(ops, fmt.Sprintf("k:%d", c.Rng.Intn(3)))
					}
				}
				ls = append(ls, fmt.Sprintf("%d %s", cp, strings.Join(ops, ";")))
			}
			return ls
		},
		Exec: func(c *Ctx, line string) string {
			f := strings.Fields(line)
			if len(f) != 2 {
				return "bad-op"
			}
			cp, err := strconv.Atoi(f[0])
			if err != nil {
				return "bad-op"
			}
			ca := cache.NewCache().WithCacheSize(uint32(cp))
			var outs []string
			for oi, op := range strings.Split(f[1], ";") {
				p := strings.Split(op, ":")
				before := snapCache(ca)
				res := "bad-op"
				where := fmt.Sprintf("after op %d (%s)", oi, op)
				var opErr error
				panicked := false
				func() {
					defer func() {
						if r := recover(); r != nil {
							panicked = true
							res = "panic"
						}
					}()
					switch p[0] {
					case "a":
						tag, _ := strconv.Atoi(p[2])
						l, _ := strconv.Atoi(p[3])
						lim, _ := strconv.Atoi(p[4])
						opErr = ca.Add(string(unhx(p[1])), tvString(tag, l), uint16(lim))
						res = errTag(opErr)
						c.Count("add:" + res)
						if lim > 0 && l > lim && opErr == nil {
							c.Fail("C09", "limit-not-enforced", fmt.Sprintf("%s: Add of %d bytes under limit %d accepted", where, l, lim))
							c.Fail("C05", "limit-not-enforced", fmt.Sprintf("%s: Add of %d bytes under limit %d accepted", where, l, lim))
						}
					case "u":
						tag, _ := strconv.Atoi(p[2])
						l, _ := strconv.Atoi(p[3])
						key := string(unhx(p[1]))
						lim, have := ca.Sizes[key]
						opErr = ca.Update(key, tvString(tag, l))
						res = errTag(opErr)
						c.Count("update:" + res)
						if have && lim > 0 && l > int(lim) && opErr == nil {
							c.Fail("C09", "limit-not-enforced", fmt.Sprintf("%s: Update to %d bytes under limit %d accepted", where, l, lim))
							c.Fail("C05", "limit-not-enforced", fmt.Sprintf("%s: Update to %d bytes under limit %d accepted", where, l, lim))
						}
					case "g":
						v, e := ca.Get(string(unhx(p[1])))
						opErr = e
						if e == nil {
							res = "ok:" + tvOut(v)
						} else {
							res = "err"
						}
					case "r":
						v, e := ca.ReservedSize(string(unhx(p[1])))
						opErr = e
						if e == nil {
							res = fmt.Sprintf("ok:%d", v)
						} else {
							res = "err"
						}
					case "p":
						opErr = ca.Push()
						res = errTag(opErr)
					case "o":
						top := before.frames[len(before.frames)-1]
						opErr = ca.Pop()
						res = errTag(opErr)
						if opErr == nil {
							var rel uint64
							for _, v := range top {
								rel += uint64(len(v))
							}
							if uint64(before.use)-rel != uint64(ca.CacheUseSize) {
								c.Fail("C09", "pop-release", fmt.Sprintf("%s: used %d -> %d, popped scope held %d bytes", where, before.use, ca.CacheUseSize, rel))
								c.Fail("C05", "pop-release", fmt.Sprintf("%s: used %d -> %d, popped scope held %d bytes", where, before.use, ca.CacheUseSize, rel))
							}
							for k := range top {
								if _, e := ca.Get(k); e == nil {
									c.Fail("C09", "pop-release", fmt.Sprintf("%s: key %q still readable after its scope was left", where, k))
									c.Fail("C05", "pop-release", fmt.Sprintf("%s: key %q still readable after its scope was left", where, k))
								}
							}
						}
						c.Count("pop")
					case "x":
						ca.Reset()
						res = "ok"
						c.Count("reset")
					case "l":
						res = "ok:" + tvOut(ca.Last())
					case "k":
						lv, _ := strconv.Atoi(p[1])
						ks := ca.Keys(uint32(lv))
						var hs []string
						for _, k := range ks {
							hs = append(hs, hx([]byte(k)))
						}
						sort.Strings(hs)
						res = "ok:" + strings.Join(hs, ",")
					}
				}()
				if panicked && p[0] != "k" {
					c.Fail("C09", "panic", fmt.Sprintf("%s panicked", where))
					c.Fail("C08", "panic", fmt.Sprintf("%s panicked", where))
				}
				if opErr != nil && (p[0] == "a" || p[0] == "u" || p[0] == "o" || p[0] == "g" || p[0] == "r") {
					if !before.equal(snapCache(ca)) {
						c.Fail("C09", "rejected-op-changed-cache", fmt.Sprintf("%s returned %v but the cache changed", where, opErr))
						c.Fail("C08", "rejected-op-changed-cache", fmt.Sprintf("%s returned %v but the cache changed", where, opErr))
					}
				}
				cacheInvariants(c, ca, where)
				outs = append(outs, res+"|"+cacheOut(ca))
			}
			return strings.Join(outs, " # ")
		},
	}
}

func errTag(e error) string {
	if e != nil {
		return "err"
	}
	return "ok"
}
