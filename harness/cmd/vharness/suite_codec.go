package main

// Suite "codec": C14 (round trip) and C15 (malformed input) against vm/vm.go, vm/debug.go and the
// assembler's writers.

import (
	"bytes"
	"fmt"
	"strconv"
	"strings"
	"sync"
	_ "unsafe"

	_ "git.defalsify.org/vise.git/asm"
	"git.defalsify.org/vise.git/vm"
)

//go:linkname asmNumSize git.defalsify.org/vise.git/asm.numSize
func asmNumSize(n uint32) int

//go:linkname asmWriteSize git.defalsify.org/vise.git/asm.writeSize
func asmWriteSize(w *bytes.Buffer, n uint32) (int, error)

//go:linkname asmWriteSym git.defalsify.org/vise.git/asm.writeSym
func asmWriteSym(w *bytes.Buffer, s string) (int, error)

type GInstr struct {
	Op   string
	A, B string // symbol / selector arguments
	N    uint32
	M    bool
}

func (i GInstr) String() string {
	m := 0
	if i.M {
		m = 1
	}
	switch i.Op {
	case "CATCH":
		return fmt.Sprintf("CATCH:%s:%d:%d", hx([]byte(i.A)), i.N, m)
	case "CROAK":
		return fmt.Sprintf("CROAK:%d:%d", i.N, m)
	case "LOAD":
		return fmt.Sprintf("LOAD:%s:%d", hx([]byte(i.A)), i.N)
	case "RELOAD", "MAP", "MOVE":
		return fmt.Sprintf("%s:%s", i.Op, hx([]byte(i.A)))
	case "INCMP", "MOUT", "MNEXT", "MPREV":
		return fmt.Sprintf("%s:%s:%s", i.Op, hx([]byte(i.A)), hx([]byte(i.B)))
	}
	return i.Op
}

func parseGInstr(s string) (GInstr, bool) {
	f := strings.Split(s, ":")
	i := GInstr{Op: f[0]}
	num := func(x string) uint32 { v, _ := strconv.ParseUint(x, 10, 32); return uint32(v) }
	switch f[0] {
	case "CATCH":
		if len(f) != 4 {
			return i, false
		}
		i.A, i.N, i.M = string(unhx(f[1])), num(f[2]), f[3] == "1"
	case "CROAK":
		if len(f) != 3 {
			return i, false
		}
		i.N, i.M = num(f[1]), f[2] == "1"
	case "LOAD":
		if len(f) != 3 {
			return i, false
		}
		i.A, i.N = string(unhx(f[1])), num(f[2])
	case "RELOAD", "MAP", "MOVE":
		if len(f) != 2 {
			return i, false
		}
		i.A = string(unhx(f[1]))
	case "INCMP", "MOUT", "MNEXT", "MPREV":
		if len(f) != 3 {
			return i, false
		}
		i.A, i.B = string(unhx(f[1])), string(unhx(f[2]))
	case "HALT", "MSINK", "NOOP":
	default:
		return i, false
	}
	return i, true
}

// independent integer byte width (the specification of asm.numSize)
func byteWidth(n uint32) int {
	switch {
	case n < 1<<8:
		return 1
	case n < 1<<16:
		return 2
	case n < 1<<24:
		return 3
	}
	return 4
}

// the disassembler handler of the "str" operations: one object for the whole run, so that state kept between calls shows
var strHandler *vm.ParseHandler
var strHandlerMu sync.Mutex

func minBE(n uint32) []byte {
	w := byteWidth(n)
	b := []byte{byte(n >> 24), byte(n >> 16), byte(n >> 8), byte(n)}
	return b[4-w:]
}

func modeB(m bool) []byte {
	if m {
		return []byte{1}
	}
	return []byte{0}
}

// encodeVM encodes with vm.NewLine, integers in minimal width.
func encodeVM(b []byte, i GInstr) []byte {
	switch i.Op {
	case "CATCH":
		return vm.NewLine(b, vm.CATCH, []string{i.A}, minBE(i.N), modeB(i.M))
	case "CROAK":
		return vm.NewLine(b, vm.CROAK, nil, minBE(i.N), modeB(i.M))
	case "LOAD":
		return vm.NewLine(b, vm.LOAD, []string{i.A}, minBE(i.N), nil)
	case "RELOAD":
		return vm.NewLine(b, vm.RELOAD, []string{i.A}, nil, nil)
	case "MAP":
		return vm.NewLine(b, vm.MAP, []string{i.A}, nil, nil)
	case "MOVE":
		return vm.NewLine(b, vm.MOVE, []string{i.A}, nil, nil)
	case "HALT":
		return vm.NewLine(b, vm.HALT, nil, nil, nil)
	case "INCMP":
		return vm.NewLine(b, vm.INCMP, []string{i.A, i.B}, nil, nil)
	case "MSINK":
		return vm.NewLine(b, vm.MSINK, nil, nil, nil)
	case "MOUT":
		return vm.NewLine(b, vm.MOUT, []string{i.A, i.B}, nil, nil)
	case "MNEXT":
		return vm.NewLine(b, vm.MNEXT, []string{i.A, i.B}, nil, nil)
	case "MPREV":
		return vm.NewLine(b, vm.MPREV, []string{i.A, i.B}, nil, nil)
	case "NOOP":
		return vm.NewLine(b, vm.NOOP, nil, nil, nil)
	}
	return b
}

var opNum = map[string]uint16{"NOOP": vm.NOOP, "CATCH": vm.CATCH, "CROAK": vm.CROAK, "LOAD": vm.LOAD, "RELOAD": vm.RELOAD, "MAP": vm.MAP,
	"MOVE": vm.MOVE, "HALT": vm.HALT, "INCMP": vm.INCMP, "MSINK": vm.MSINK, "MOUT": vm.MOUT, "MNEXT": vm.MNEXT, "MPREV": vm.MPREV}

// encodeASM encodes with the assembler's writers (opcode, writeSym, writeSize, mode byte).
func encodeASM(i GInstr) ([]byte, error) {
	w := bytes.NewBuffer(nil)
	op := opNum[i.Op]
	w.Write([]byte{byte(op >> 8), byte(op)})
	var err error
	sym := func(s string) {
		if err == nil {
			_, err = asmWriteSym(w, s)
		}
	}
	num := func(n uint32) {
		if err == nil {
			_, err = asmWriteSize(w, n)
		}
	}
	switch i.Op {
	case "CATCH":
		sym(i.A)
		num(i.N)
		w.Write(modeB(i.M))
	case "CROAK":
		num(i.N)
		w.Write(modeB(i.M))
	case "LOAD":
		sym(i.A)
		num(i.N)
	case "RELOAD", "MAP", "MOVE":
		sym(i.A)
	case "INCMP", "MOUT", "MNEXT", "MPREV":
		sym(i.A)
		sym(i.B)
	}
	return w.Bytes(), err
}

// collect decodes with ParseAll and handler callbacks; returns the canonical instruction list.
func collect(b []byte) (r []string, err error, panicked interface{}) {
	defer func() {
		if p := recover(); p != nil {
			panicked = p
		}
	}()
	ph := vm.NewParseHandler()
	ph.Catch = func(s string, n uint32, m bool) error {
		r = append(r, GInstr{Op: "CATCH", A: s, N: n, M: m}.String())
		return nil
	}
	ph.Croak = func(n uint32, m bool) error { r = append(r, GInstr{Op: "CROAK", N: n, M: m}.String()); return nil }
	ph.Load = func(s string, n uint32) error { r = append(r, GInstr{Op: "LOAD", A: s, N: n}.String()); return nil }
	ph.Reload = func(s string) error { r = append(r, GInstr{Op: "RELOAD", A: s}.String()); return nil }
	ph.Map = func(s string) error { r = append(r, GInstr{Op: "MAP", A: s}.String()); return nil }
	ph.Move = func(s string) error { r = append(r, GInstr{Op: "MOVE", A: s}.String()); return nil }
	ph.Halt = func() error { r = append(r, "HALT"); return nil }
	ph.InCmp = func(a, b string) error { r = append(r, GInstr{Op: "INCMP", A: a, B: b}.String()); return nil }
	ph.MOut = func(a, b string) error { r = append(r, GInstr{Op: "MOUT", A: a, B: b}.String()); return nil }
	ph.MSink = func() error { r = append(r, "MSINK"); return nil }
	ph.MNext = func(a, b string) error { r = append(r, GInstr{Op: "MNEXT", A: a, B: b}.String()); return nil }
	ph.MPrev = func(a, b string) error { r = append(r, GInstr{Op: "MPREV", A: a, B: b}.String()); return nil }
	_, err = ph.ParseAll(b)
	return
}

// specValid is an independent reader of the documented format: a non-empty sequence of complete
// instructions, defined opcodes, integer width <= 4. It returns the number of instructions and NOOPs.
func specValid(b []byte) (ok bool, n int, noops int) {
	if len(b) == 0 {
		return false, 0, 0
	}
	sym := func() bool {
		if len(b) == 0 || b[0] == 0 || len(b) < 1+int(b[0]) {
			return false
		}
		b = b[1+int(b[0]):]
		return true
	}
	num := func() bool {
		if len(b) == 0 || b[0] > 4 || len(b) < 1+int(b[0]) {
			return false
		}
		b = b[1+int(b[0]):]
		return true
	}
	mode := func() bool {
		if len(b) == 0 {
			return false
		}
		b = b[1:]
		return true
	}
	for len(b) > 0 {
		if len(b) < 2 {
			return false, n, noops
		}
		op := uint16(b[0])<<8 | uint16(b[1])
		b = b[2:]
		good := true
		switch op {
		case vm.CATCH:
			good = sym() && num() && mode()
		case vm.CROAK:
			good = num() && mode()
		case vm.LOAD:
			good = sym() && num()
		case vm.RELOAD, vm.MAP, vm.MOVE:
			good = sym()
		case vm.INCMP, vm.MOUT, vm.MNEXT, vm.MPREV:
			good = sym() && sym()
		case vm.HALT, vm.MSINK:
		case vm.NOOP:
			noops++
		default:
			good = false
		}
		if !good {
			return false, n, noops
		}
		n++
	}
	return true, n, noops
}

// decodeStep mirrors what Vm.Run does for one instruction: ParseOp, then the opcode's Parse*.
func decodeStep(b []byte) (s string, rest []byte, err error, panicked interface{}) {
	defer func() {
		if p := recover(); p != nil {
			panicked = p
		}
	}()
	op, b, err := vm.ParseOp(b)
	if err != nil {
		return "", nil, err, nil
	}
	var i GInstr
	switch op {
	case vm.CATCH:
		i.Op = "CATCH"
		i.A, i.N, i.M, b, err = vm.ParseCatch(b)
	case vm.CROAK:
		i.Op = "CROAK"
		i.N, i.M, b, err = vm.ParseCroak(b)
	case vm.LOAD:
		i.Op = "LOAD"
		i.A, i.N, b, err = vm.ParseLoad(b)
	case vm.RELOAD:
		i.Op = "RELOAD"
		i.A, b, err = vm.ParseReload(b)
	case vm.MAP:
		i.Op = "MAP"
		i.A, b, err = vm.ParseMap(b)
	case vm.MOVE:
		i.Op = "MOVE"
		i.A, b, err = vm.ParseMove(b)
	case vm.INCMP:
		i.Op = "INCMP"
		i.A, i.B, b, err = vm.ParseInCmp(b)
	case vm.HALT:
		i.Op = "HALT"
		b, err = vm.ParseHalt(b)
	case vm.MSINK:
		i.Op = "MSINK"
		b, err = vm.ParseMSink(b)
	case vm.MOUT:
		i.Op = "MOUT"
		i.A, i.B, b, err = vm.ParseMOut(b)
	case vm.MNEXT:
		i.Op = "MNEXT"
		i.A, i.B, b, err = vm.ParseMNext(b)
	case vm.MPREV:
		i.Op = "MPREV"
		i.A, i.B, b, err = vm.ParseMPrev(b)
	case vm.NOOP:
		i.Op = "NOOP"
	default:
		err = fmt.Errorf("unhandled")
	}
	if err != nil {
		return "", nil, err, nil
	}
	return i.String(), b, nil, nil
}

func prettyExpect(is []GInstr) string {
	var sb strings.Builder
	for _, i := range is {
		m := 0
		if i.M {
			m = 1
		}
		switch i.Op {
		case "CATCH":
			fmt.Fprintf(&sb, "CATCH %s %d %d\n", i.A, i.N, m)
		case "CROAK":
			fmt.Fprintf(&sb, "CROAK %d %d\n", i.N, m)
		case "LOAD":
			fmt.Fprintf(&sb, "LOAD %s %d\n", i.A, i.N)
		case "RELOAD", "MAP", "MOVE":
			fmt.Fprintf(&sb, "%s %s\n", i.Op, i.A)
		case "INCMP", "MOUT", "MNEXT", "MPREV":
			fmt.Fprintf(&sb, "%s %s %s\n", i.Op, i.A, i.B)
		case "HALT", "MSINK":
			fmt.Fprintf(&sb, "%s\n", i.Op)
		}
	}
	return sb.String()
}

var codecOps = []string{"CATCH", "CROAK", "LOAD", "RELOAD", "MAP", "MOVE", "HALT", "INCMP", "MSINK", "MOUT", "MNEXT", "MPREV"}

func randSym(c *Ctx) string {
	var l int
	switch c.Rng.Intn(10) {
	case 0:
		l = 1
	case 1:
		l = 255
	case 2:
		l = 254
	case 3:
		l = 100 + c.Rng.Intn(155)
	default:
		l = 1 + c.Rng.Intn(8)
	}
	b := make([]byte, l)
	for i := range b {
		if c.Rng.Intn(12) == 0 {
			b[i] = byte(c.Rng.Intn(256))
		} else {
			b[i] = "abcxyz_019"[c.Rng.Intn(10)]
		}
	}
	return string(b)
}

var numBoundaries = []uint32{0, 1, 2, 127, 128, 255, 256, 257, 65535, 65536, 65537, 16777215, 16777216, 16777217, 1 << 31, 4294967294, 4294967295}

func randNum(c *Ctx) uint32 {
	switch c.Rng.Intn(4) {
	case 0:
		return numBoundaries[c.Rng.Intn(len(numBoundaries))]
	case 1:
		return uint32(c.Rng.Intn(300))
	case 2:
		return uint32(1) << uint(c.Rng.Intn(32))
	}
	return c.Rng.Uint32()
}

func randInstr(c *Ctx) GInstr {
	i := GInstr{Op: codecOps[c.Rng.Intn(len(codecOps))]}
	switch i.Op {
	case "CATCH":
		i.A, i.N, i.M = randSym(c), randNum(c), c.Rng.Intn(2) == 0
	case "CROAK":
		i.N, i.M = randNum(c), c.Rng.Intn(2) == 0
	case "LOAD":
		i.A, i.N = randSym(c), randNum(c)
	case "RELOAD", "MAP", "MOVE":
		i.A = randSym(c)
	case "INCMP", "MOUT", "MNEXT", "MPREV":
		i.A, i.B = randSym(c), randSym(c)
	}
	return i
}

func init() {
	suites["codec"] = &Suite{
		Gen: func(c *Ctx) []string {
			var ls []string
			nprog := c.Pick(150, 1500)
			for p := 0; p < nprog; p++ {
				n := 1 + c.Rng.Intn(8)
				if c.Rng.Intn(10) == 0 {
					n = 1 + c.Rng.Intn(30)
				}
				var b []byte
				var names []string
				for k := 0; k < n; k++ {
					i := randInstr(c)
					b = encodeVM(b, i)
					names = append(names, i.String())
				}
				ls = append(ls, "prog "+strings.Join(names, ","))
				if len(b) > 3 {
					// a listing that fails half way, right before the listing of the whole program (same handler object)
					ls = append(ls, "str "+hx(b[:len(b)-1]))
				}
				ls = append(ls, "parse "+hx(b), "str "+hx(b), "one "+hx(b))
				// truncations: all for short programs, a sample for long ones
				step := 1
				if len(b) > 120 && !c.Thorough() {
					step = len(b) / 60
				}
				for t := 0; t < len(b); t += step {
					ls = append(ls, "parse "+hx(b[:t]))
					if t%3 == 0 {
						ls = append(ls, "one "+hx(b[:t]))
					}
				}
				// single-byte corruptions
				ncor := 20
				if c.Thorough() {
					ncor = 120
				}
				for k := 0; k < ncor && len(b) > 0; k++ {
					bb := append([]byte{}, b...)
					pos := c.Rng.Intn(len(bb))
					switch c.Rng.Intn(4) {
					case 0:
						bb[pos] = 0
					case 1:
						bb[pos] = 255
					case 2:
						bb[pos] ^= 1 << uint(c.Rng.Intn(8))
					default:
						bb[pos] = byte(c.Rng.Intn(16))
					}
					ls = append(ls, "parse "+hx(bb))
				}
			}
			// every instruction on its own, encoded by both encoders
			for k := 0; k < c.Pick(400, 4000); k++ {
				ls = append(ls, "enc "+randInstr(c).String())
			}
			// integer arguments handed to NewLine in every width 0..4 that can hold them (0 bytes is the empty encoding of zero),
			// followed by another instruction so that the decoder must consume exactly the instruction's own bytes
			for k := 0; k < c.Pick(300, 3000); k++ {
				i := randInstr(c)
				for i.Op != "LOAD" && i.Op != "CATCH" && i.Op != "CROAK" {
					i = randInstr(c)
				}
				if k%3 == 0 {
					i.N = 0
				}
				w := byteWidth(i.N) + c.Rng.Intn(5-byteWidth(i.N))
				if i.N == 0 {
					w = c.Rng.Intn(5)
				}
				ls = append(ls, fmt.Sprintf("encw %d %s", w, i.String()))
			}
			for _, n := range numBoundaries {
				ls = append(ls, "int "+strconv.FormatUint(uint64(n), 10))
			}
			for k := 0; k < c.Pick(300, 5000); k++ {
				ls = append(ls, "int "+strconv.FormatUint(uint64(randNum(c)), 10))
			}
			// integer length bytes beyond four, for each instruction that carries an integer
			for _, head := range []string{"000303666f6f", "000103666f6f", "0002"} {
				for l := 5; l <= 9; l++ {
					body := fmt.Sprintf("%02x", l) + strings.Repeat("00", l-1) + "2a"
					for _, tail := range []string{"", "01", "010007"} {
						ls = append(ls, "parse "+head+body+tail, "one "+head+body+tail)
					}
				}
			}
			// symbol lengths 1..255 exhaustively
			for l := 1; l <= 255; l++ {
				ls = append(ls, "enc "+GInstr{Op: "MOVE", A: strings.Repeat("a", l)}.String())
			}
			// exhaustive small byte strings: all of length <= 2, then opcode-led strings
			ls = append(ls, "parse -")
			for a := 0; a < 256; a++ {
				ls = append(ls, fmt.Sprintf("parse %02x", a))
			}
			for a := 0; a < 256; a++ {
				for b := 0; b < 256; b++ {
					if a > 0 && !c.Thorough() && (a%16 != 0 || b%16 != 0) {
						continue
					}
					ls = append(ls, fmt.Sprintf("parse %02x%02x", a, b))
				}
			}
			alpha := []byte{0, 1, 2, 3, 4, 5, 6, 0x61, 0xff}
			for op := 0; op <= 13; op++ {
				var rec func(prefix []byte, depth int)
				maxd := 4
				if c.Thorough() {
					maxd = 5
				}
				rec = func(prefix []byte, depth int) {
					ls = append(ls, "parse "+hx(prefix))
					if depth == maxd {
						return
					}
					for _, x := range alpha {
						rec(append(append([]byte{}, prefix...), x), depth+1)
					}
				}
				rec([]byte{0, byte(op)}, 0)
			}
			// random strings with plausible opcodes
			for k := 0; k < c.Pick(500, 20000); k++ {
				l := 2 + c.Rng.Intn(12)
				b := make([]byte, l)
				for i := range b {
					b[i] = byte(c.Rng.Intn(8))
					if c.Rng.Intn(6) == 0 {
						b[i] = byte(c.Rng.Intn(256))
					}
				}
				b[0] = 0
				b[1] = byte(c.Rng.Intn(14))
				ls = append(ls, "parse "+hx(b), "one "+hx(b))
			}
			return ls
		},
		Exec: func(c *Ctx, line string) string {
			f := strings.Fields(line)
			if len(f) != 2 && !(len(f) == 3 && f[0] == "encw") {
				return "bad-op"
			}
			switch f[0] {
			case "prog":
				// round trip of a whole program through the real encoder and decoder (C14 oracle)
				var is []GInstr
				var b []byte
				for _, s := range strings.Split(f[1], ",") {
					i, ok := parseGInstr(s)
					if !ok {
						return "bad-op"
					}
					is = append(is, i)
					b = encodeVM(b, i)
				}
				got, err, p := collect(b)
				if p != nil || err != nil || strings.Join(got, ",") != f[1] {
					c.Fail("C14", "roundtrip", fmt.Sprintf("program %s decoded as %v err=%v panic=%v", f[1], got, err, p))
				}
				txt, err := vm.NewParseHandler().WithDefaultHandlers().ToString(b)
				if err != nil || txt != prettyExpect(is) {
					c.Fail("C14", "listing", fmt.Sprintf("program %s listed as %q err=%v", f[1], txt, err))
				}
				c.Count("prog")
				return "ok " + hx(b)
			case "parse":
				b := unhx(f[1])
				got, err, p := collect(b)
				valid, n, _ := specValid(b)
				c.Count("parse")
				if p != nil {
					c.Count("parse:panic")
					c.Fail("C15", "panic", fmt.Sprintf("ParseAll(%s) panicked: %v", f[1], p))
					return "panic"
				}
				if err != nil {
					c.Count("parse:err")
					if valid {
						c.Fail("C15", "spurious-reject", fmt.Sprintf("ParseAll(%s) rejects a valid sequence of %d instructions: %v", f[1], n, err))
					}
					return "err"
				}
				c.Count("parse:ok")
				if !valid {
					c.Fail("C15", "silent-accept", fmt.Sprintf("ParseAll(%s) reports success for input that is not a sequence of complete valid instructions", f[1]))
				}
				return "ok " + strings.Join(got, ",")
			case "str":
				b := unhx(f[1])
				var txt string
				var err error
				var p interface{}
				func() {
					defer func() { p = recover() }()
					strHandlerMu.Lock()
					defer strHandlerMu.Unlock() // (also when ToString panics)
					if strHandler == nil {
						strHandler = vm.NewParseHandler().WithDefaultHandlers()
					}
					txt, err = strHandler.ToString(b)
				}()
				if p != nil {
					c.Fail("C15", "panic", fmt.Sprintf("ToString(%s) panicked: %v", f[1], p))
					return "panic"
				}
				if err != nil {
					return "err"
				}
				// the listing is the instructions of THIS byte string, whatever the handler listed before
				if got, derr, dp := collect(b); derr == nil && dp == nil {
					var is []GInstr
					okAll := true
					for _, g := range got {
						gi, ok := parseGInstr(g)
						if !ok {
							okAll = false
						}
						is = append(is, gi)
					}
					if okAll && txt != prettyExpect(is) {
						c.Fail("C14", "listing", fmt.Sprintf("ToString(%s) = %q, the instructions are %v", f[1], txt, got))
					}
				}
				return "ok " + hx([]byte(txt))
			case "one":
				b := unhx(f[1])
				s, rest, err, p := decodeStep(b)
				c.Count("one")
				if p != nil {
					c.Fail("C15", "panic", fmt.Sprintf("decode step on %s panicked: %v", f[1], p))
					return "panic"
				}
				if err != nil {
					return "err"
				}
				// the bytes the step consumed must be exactly one valid instruction of the format
				if used := len(b) - len(rest); used >= 0 && used <= len(b) {
					if valid, n, _ := specValid(b[:used]); !valid || n != 1 {
						c.Fail("C15", "silent-accept", fmt.Sprintf("decode step on %s reports success (%s) but the %d bytes it consumed are not one valid instruction", f[1], s, used))
					}
				}
				return "ok " + s + " " + hx(rest)
			case "int":
				n, _ := strconv.ParseUint(f[1], 10, 32)
				w := bytes.NewBuffer(nil)
				_, err := asmWriteSize(w, uint32(n))
				if err != nil {
					c.Fail("C14", "writeSize", fmt.Sprintf("writeSize(%d): %v", n, err))
					return "err"
				}
				if n > 0 && asmNumSize(uint32(n)) != byteWidth(uint32(n)) {
					c.Fail("C14", "numSize", fmt.Sprintf("numSize(%d)=%d, integer width %d", n, asmNumSize(uint32(n)), byteWidth(uint32(n))))
				}
				c.Count("int")
				return hx(w.Bytes())
			case "encw":
				if len(f) != 3 {
					return "bad-op"
				}
				w, _ := strconv.Atoi(f[1])
				i, ok := parseGInstr(f[2])
				if !ok || w < 0 || w > 4 {
					return "bad-op"
				}
				full := []byte{byte(i.N >> 24), byte(i.N >> 16), byte(i.N >> 8), byte(i.N)}
				num := append([]byte{}, full[4-w:]...) // non-nil also when w = 0
				var a []byte
				switch i.Op {
				case "LOAD":
					a = vm.NewLine(nil, vm.LOAD, []string{i.A}, num, nil)
				case "CATCH":
					a = vm.NewLine(nil, vm.CATCH, []string{i.A}, num, modeB(i.M))
				case "CROAK":
					a = vm.NewLine(nil, vm.CROAK, nil, num, modeB(i.M))
				default:
					return "bad-op"
				}
				a = vm.NewLine(a, vm.HALT, nil, nil, nil)
				got, perr, p := collect(a)
				if p != nil || perr != nil || len(got) != 2 || got[0] != f[2] || got[1] != "HALT" {
					c.Fail("C14", "roundtrip-width", fmt.Sprintf("%s with its integer in %d bytes, then HALT (%x) decoded as %v err=%v panic=%v", f[2], w, a, got, perr, p))
				}
				c.Count(fmt.Sprintf("encw:%d", w))
				return hx(a)
			case "enc":
				i, ok := parseGInstr(f[1])
				if !ok {
					return "bad-op"
				}
				a := encodeVM(nil, i)
				b, err := encodeASM(i)
				if err != nil || !bytes.Equal(a, b) {
					c.Fail("C14", "encoders-disagree", fmt.Sprintf("%s: NewLine=%x asm=%x err=%v", f[1], a, b, err))
				}
				got, perr, p := collect(a)
				if p != nil || perr != nil || len(got) != 1 || got[0] != f[1] {
					c.Fail("C14", "roundtrip", fmt.Sprintf("%s decoded as %v err=%v panic=%v", f[1], got, perr, p))
				}
				c.Count("enc:" + i.Op)
				return hx(a)
			}
			return "bad-op"
		},
		Teardown: func(c *Ctx) {
			// exhaustive tie of the floating-point numSize to the integer byte width, for every uint32
			// (thorough; in quick a stride through the range plus all powers of two +-1)
			bad := 0
			var firstBad uint32
			checkN := func(n uint32) {
				if asmNumSize(n) != byteWidth(n) {
					if bad == 0 {
						firstBad = n
					}
					bad++
				}
			}
			cnt := 0
			if c.Thorough() {
				done := make(chan [2]uint64, 16)
				for w := 0; w < 16; w++ {
					go func(w int) {
						var b, first uint64
						lo := uint64(w) << 28
						for n := lo; n < lo+(1<<28); n++ {
							if n == 0 {
								continue
							}
							if asmNumSize(uint32(n)) != byteWidth(uint32(n)) {
								if b == 0 {
									first = n
								}
								b++
							}
						}
						done <- [2]uint64{b, first}
					}(w)
				}
				for w := 0; w < 16; w++ {
					r := <-done
					if r[0] > 0 && bad == 0 {
						firstBad = uint32(r[1])
					}
					bad += int(r[0])
				}
				cnt = 1<<32 - 1
				c.Notes["numSize_exhaustive"] = true
			} else {
				for n := uint64(1); n < 1<<32; n += 65521 {
					checkN(uint32(n))
					cnt++
				}
				for s := uint(0); s < 32; s++ {
					for d := -2; d <= 2; d++ {
						n := int64(1)<<s + int64(d)
						if n > 0 && n < 1<<32 {
							checkN(uint32(n))
							cnt++
						}
					}
				}
			}
			c.Notes["numSize_compared"] = cnt
			if bad > 0 {
				c.idx = -1
				c.Fail("C14", "numSize", fmt.Sprintf("numSize differs from the integer byte width for %d values, first %d (numSize=%d)", bad, firstBad, asmNumSize(firstBad)))
			}
		},
	}
}
