package main

// Suite "conc": C19 — sessions that share only the application (bytecode, templates, labels) are served at the
// same time on different goroutines, each with its own engine, state, cache and store handle, and must produce the
// transcripts they produce when served one after another. The binary is built with -race for this suite
// (vharness-race); the race detector's reports are attributed to the case during which they appeared.
//
//	conc spare=<0|1> store=<none|mem|fs> rounds=<r> ## <engine case of session 0> ## <engine case of session 1> ...
//	  (all engine cases share the application of the first; only the inputs differ)
//	  -> per session, separated by " @@ ": the records x= c= f= o= of every request, separated by " # "
//
// spare=1: the shared bytecode slices have spare capacity (as slices built with append have).
// The model side runs its sequential engine model on every session's history.
//
// The same suite carries the slice operations the aliasing model is tied to:
//	slice <op>;<op>;...   ops: M:<len>:<cap> make (filled with a counter), S:<i>:<k> reslice slice i from k,
//	                      A:<i>:<hex> append to slice i in place semantics, C:<i>:<hex> append to slice i clipped to its length
//	  -> the contents of all slices after every op

import (
	"bufio"
	"bytes"
	"context"
	"fmt"
	"io"
	"math/rand"
	"os"
	"os/exec"
	"path/filepath"
	"runtime"
	"strconv"
	"strings"
	"sync"

	"git.defalsify.org/vise.git/cache"
	"git.defalsify.org/vise.git/db"
	fsdb "git.defalsify.org/vise.git/db/fs"
	memdb "git.defalsify.org/vise.git/db/mem"
	"git.defalsify.org/vise.git/engine"
	"git.defalsify.org/vise.git/persist"
	"git.defalsify.org/vise.git/state"
	"git.defalsify.org/vise.git/vm"
)

// serveSession serves one session's history: long-lived engine (store=none) or an engine per request over its
// own store handle. The resource hands out the shared bytecode slices themselves.
func serveSession(shared *eCase, own *eCase, sid string, storeKind, dir string, gate func()) []string {
	// the session's view of the application: the shared tables and bytecode slices, its own first function
	view := *shared
	view.firsts = own.firsts
	app := &view
	inputs := own.inputs
	ncalls := 0
	cfg := app.config()
	cfg.SessionId = sid
	ctx := context.Background()
	var outs []string
	line := func(r reqRec) string {
		return fmt.Sprintf("x=%s c=%s f=%s o=%s", r.x, b01(r.cont), r.f, hx(r.out))
	}
	if storeKind == "none" {
		rs := &recRes{c: app, ncalls: &ncalls, share: true}
		st := state.NewState(uint32(app.flags))
		ca := cache.NewCache()
		if app.cache > 0 {
			ca = ca.WithCacheSize(uint32(app.cache))
		}
		en := engine.NewEngine(cfg, rs).WithState(st).WithMemory(ca)
		if f := rs.firstFunc(); f != nil {
			en = en.WithFirst(f)
		}
		en.AddValidInput(concExtraInput)
		stopped := false
		for _, in := range inputs {
			if stopped {
				outs = append(outs, "stopped")
				continue
			}
			gate()
			rec := reqRec{}
			oneRequest(en, in, &rec)
			outs = append(outs, line(rec))
			if rec.x == "panic" || rec.f == "panic" {
				stopped = true
			}
		}
		return outs
	}
	var store db.Db
	if storeKind == "fs" {
		s := fsdb.NewFsDb()
		s.Connect(ctx, dir)
		store = s
	} else {
		s := memdb.NewMemDb()
		s.Connect(ctx, "")
		store = s
	}
	stopped := false
	for _, in := range inputs {
		if stopped {
			outs = append(outs, "stopped")
			continue
		}
		gate()
		rs := &recRes{c: app, ncalls: &ncalls, share: true}
		pe := persist.NewPersister(store)
		en := engine.NewEngine(cfg, rs).WithPersister(pe)
		if f := rs.firstFunc(); f != nil {
			en = en.WithFirst(f)
		}
		en.AddValidInput(concExtraInput)
		rec := reqRec{}
		oneRequest(en, in, &rec)
		func() {
			defer func() {
				if p := recover(); p != nil {
					rec.x = "panic"
				}
			}()
			en.Finish(ctx)
		}()
		outs = append(outs, line(rec))
		if rec.x == "panic" || rec.f == "panic" {
			stopped = true
		}
	}
	return outs
}

var raceLogPrefix = ""

func raceLogSize() int64 {
	if raceLogPrefix == "" {
		return 0
	}
	var n int64
	m, _ := filepath.Glob(raceLogPrefix + "*")
	for _, f := range m {
		if st, err := os.Stat(f); err == nil {
			n += st.Size()
		}
	}
	return n
}

func raceLogTail(from int64) string {
	m, _ := filepath.Glob(raceLogPrefix + "*")
	var all []byte
	for _, f := range m {
		b, _ := os.ReadFile(f)
		all = append(all, b...)
	}
	if from < int64(len(all)) {
		all = all[from:]
	}
	// first report: the two access stacks, function names only
	var fn []string
	for _, l := range strings.Split(string(all), "\n") {
		l = strings.TrimSpace(l)
		if strings.HasPrefix(l, "git.defalsify.org/vise.git/") || strings.HasPrefix(l, "main.") || strings.HasPrefix(l, "runtime.slicebytetostring") {
			fn = append(fn, strings.SplitN(l, "(", 2)[0])
			if len(fn) >= 8 {
				break
			}
		}
	}
	return strings.Join(fn, " <- ")
}

// hubApp: the root jumps (CATCH on an unset flag, match mode 0) to a hub node whose code is then executed from
// the slice the resource returned; the hub's INCMPs append the chosen child's code to what is left of it.
func hubApp(c *Ctx) *eCase {
	ec := &eCase{mode: "long", root: "root", wf: true, flags: 2}
	ec.nodes = map[string][]byte{}
	ec.nolabel = map[string]bool{}
	ec.langof = map[string]string{}
	add := func(name string, is ...GInstr) {
		var b []byte
		for _, i := range is {
			b = encodeVM(b, i)
		}
		ec.nodeOrd = append(ec.nodeOrd, name)
		ec.nodes[name] = b
		ec.tpls = append(ec.tpls, tblEntry{nil, name, "this is " + name})
	}
	nkids := 2 + c.Rng.Intn(4)
	var hub []GInstr
	for k := 0; k < nkids; k++ {
		hub = append(hub, GInstr{Op: "MOUT", A: fmt.Sprintf("to%d", k), B: strconv.Itoa(k + 1)})
	}
	hub = append(hub, GInstr{Op: "HALT"})
	for k := 0; k < nkids; k++ {
		hub = append(hub, GInstr{Op: "INCMP", A: fmt.Sprintf("kid%d", k), B: strconv.Itoa(k + 1)})
	}
	// a tiny catch node: the VM's own MOVE _catch line has spare capacity this code would fit into
	if c.Rng.Intn(2) == 0 {
		add("_catch", GInstr{Op: "HALT"}, GInstr{Op: "MOVE", A: []string{"_", "^"}[c.Rng.Intn(2)]})
	} else {
		add("_catch", GInstr{Op: "MOUT", A: "back", B: "0"}, GInstr{Op: "HALT"}, GInstr{Op: "INCMP", A: "_", B: "0"})
	}
	add("root", GInstr{Op: "CATCH", A: "hub", N: 8, M: false}, GInstr{Op: "HALT"})
	add("hub", hub...)
	for k := 0; k < nkids; k++ {
		add(fmt.Sprintf("kid%d", k), GInstr{Op: "MOUT", A: fmt.Sprintf("back%d", k), B: "0"}, GInstr{Op: "MOUT", A: fmt.Sprintf("again%d", k), B: "9"},
			GInstr{Op: "HALT"}, GInstr{Op: "INCMP", A: "_", B: "0"}, GInstr{Op: "INCMP", A: ".", B: "9"})
	}
	return ec
}

func genConcCase(c *Ctx) string {
	app := &eCase{mode: "long", root: "root", wf: true}
	if c.Rng.Intn(2) == 0 {
		app = hubApp(c)
		nsess := 2 + c.Rng.Intn(c.Pick(4, 15))
		var parts []string
		withFirst := c.Rng.Intn(3) == 0
		for s := 0; s < nsess; s++ {
			ec := *app
			if withFirst {
				// every session has its own entry function: some are blocked by it, the others greeted by name
				if s%2 == 0 {
					ec.firsts = []extRule{{callIdx: -1, content: fmt.Sprintf("account s%d is blocked", s), set: []uint32{6}}}
				} else {
					ec.firsts = []extRule{{callIdx: -1, content: ""}}
				}
			}
			ec.inputs = [][]byte{{}}
			for k := 0; k < 2+c.Rng.Intn(5); k++ {
				ec.inputs = append(ec.inputs, []byte(strconv.Itoa(1+c.Rng.Intn(5))), []byte([]string{"0", "9", "0", "7", "x", "x", "!x"}[c.Rng.Intn(7)]), []byte([]string{"0", "9", "1"}[c.Rng.Intn(3)]))
			}
			parts = append(parts, ec.String())
		}
		store := []string{"none", "none", "none", "mem", "mem", "fs"}[c.Rng.Intn(6)]
		if store != "none" {
			for i := range parts {
				parts[i] = strings.Replace(parts[i], "mode=long", "mode=pers", 1)
			}
		}
		return fmt.Sprintf("conc spare=%d store=%s rounds=%d ## %s", c.Rng.Intn(2), store, c.Pick(6, 40), strings.Join(parts, " ## "))
	}
	genApp(c, app)
	app.out = []int{0, 0, 160, 90}[c.Rng.Intn(4)]
	nsess := 2 + c.Rng.Intn(c.Pick(4, 15))
	var parts []string
	for s := 0; s < nsess; s++ {
		ec := *app
		ec.inputs = nil
		adaptiveInputs(c, &ec)
		parts = append(parts, ec.String())
	}
	store := []string{"none", "none", "none", "mem", "mem", "fs"}[c.Rng.Intn(6)]
	if store != "none" {
		for i := range parts {
			parts[i] = strings.Replace(parts[i], "mode=long", "mode=pers", 1)
		}
	}
	return fmt.Sprintf("conc spare=%d store=%s rounds=%d ## %s", c.Rng.Intn(2), store, c.Pick(6, 40), strings.Join(parts, " ## "))
}

func init() {
	suites["conc"] = &Suite{
		Setup: func(c *Ctx) {
			// GORACE=log_path=<prefix> is set by ./check; without the race detector the suite still compares transcripts
			for _, kv := range strings.Fields(os.Getenv("GORACE")) {
				if strings.HasPrefix(kv, "log_path=") {
					raceLogPrefix = strings.TrimPrefix(kv, "log_path=")
				}
			}
			c.Notes["race_detector"] = raceEnabled
			c.Notes["gomaxprocs"] = runtime.GOMAXPROCS(0)
		},
		Gen: func(c *Ctx) []string {
			var ls []string
			for i := 0; i < c.Pick(40, 600); i++ {
				ls = append(ls, genConcCase(c))
			}
			for i := 0; i < c.Pick(400, 6000); i++ {
				var ops []string
				ns := 0
				for k := 0; k < 2+c.Rng.Intn(8); k++ {
					switch x := c.Rng.Intn(6); {
					case x == 0 || ns == 0:
						l := c.Rng.Intn(5)
						ops = append(ops, fmt.Sprintf("M:%d:%d", l, l+c.Rng.Intn(5)))
						ns++
					case x == 1:
						ops = append(ops, fmt.Sprintf("S:%d:%d", c.Rng.Intn(ns), c.Rng.Intn(4)))
						ns++
					case x < 4:
						ops = append(ops, fmt.Sprintf("A:%d:%s", c.Rng.Intn(ns), hx(bytes.Repeat([]byte{byte(0xa0 + k)}, c.Rng.Intn(4)))))
					default:
						ops = append(ops, fmt.Sprintf("C:%d:%s", c.Rng.Intn(ns), hx(bytes.Repeat([]byte{byte(0xc0 + k)}, c.Rng.Intn(4)))))
					}
				}
				ls = append(ls, "slice "+strings.Join(ops, ";"))
			}
			return ls
		},
		Exec: func(c *Ctx, line string) string {
			if strings.HasPrefix(line, "slice ") {
				return sliceExec(strings.TrimPrefix(line, "slice "))
			}
			// the sessions run in a long-lived child process: a fatal runtime error (concurrent map writes ...) kills
			// the process it happens in and is an outcome of the case, not of the harness; the child is restarted
			before := raceLogSize()
			lines, died, stderrTail := concServe(c, line)
			res := "child-died"
			for _, l := range lines {
				switch {
				case strings.HasPrefix(l, "RESULT "):
					res = strings.TrimPrefix(l, "RESULT ")
				case strings.HasPrefix(l, "FAIL "):
					f := strings.SplitN(l, " ", 3)
					if len(f) == 3 {
						c.Fail("C19", f[1], f[2])
					}
				case strings.HasPrefix(l, "COUNT "):
					c.Count(strings.TrimPrefix(l, "COUNT "))
				}
			}
			if died || res == "child-died" {
				msg := stderrTail
				if i := strings.Index(msg, "fatal error:"); i >= 0 {
					msg = msg[i:]
				}
				msg = strings.SplitN(msg, "\n\n", 2)[0]
				c.Fail("C19", "runtime-fatal", "the process serving the sessions concurrently died: "+trunc(strings.ReplaceAll(msg, "\n", " | "), 400))
				res = "DIFF child process died"
			}
			if after := raceLogSize(); after > before {
				c.Fail("C19", "data-race", "the race detector reported a data race while this case ran: "+raceLogTail(before))
			}
			return res
		},
		Teardown: func(c *Ctx) { concStop() },
	}
}

type concChild struct {
	cmd    *exec.Cmd
	in     io.WriteCloser
	out    *bufio.Reader
	stderr *bytes.Buffer
}

var concProc *concChild

func concStop() {
	if concProc != nil {
		concProc.in.Close()
		concProc.cmd.Wait()
		concProc = nil
	}
}

// concServe sends one case to the child and returns its answer lines; died reports that the child exited instead.
func concServe(c *Ctx, line string) (lines []string, died bool, stderrTail string) {
	if concProc == nil {
		self, _ := os.Executable()
		cmd := exec.Command(self, "concchild", strconv.FormatInt(c.Seed, 10), c.Tier)
		in, _ := cmd.StdinPipe()
		outp, _ := cmd.StdoutPipe()
		eb := &bytes.Buffer{}
		cmd.Stderr = eb
		if err := cmd.Start(); err != nil {
			return nil, true, err.Error()
		}
		concProc = &concChild{cmd: cmd, in: in, out: bufio.NewReaderSize(outp, 1<<20), stderr: eb}
	}
	p := concProc
	fmt.Fprintf(p.in, "%d\t%s\n", c.idx, line)
	for {
		l, err := p.out.ReadString('\n')
		l = strings.TrimRight(l, "\n")
		if l == "END" {
			return lines, false, ""
		}
		if l != "" {
			lines = append(lines, l)
		}
		if err != nil {
			p.cmd.Wait()
			tail := p.stderr.String()
			if len(tail) > 4000 {
				tail = tail[:4000]
			}
			concProc = nil
			return lines, true, tail
		}
	}
}

// concChildMain serves conc cases from stdin ("<idx>\t<case>") and answers each with FAIL/COUNT/RESULT lines and END.
func concChildMain(args []string) {
	if len(args) != 2 {
		os.Exit(2)
	}
	seed, _ := strconv.ParseInt(args[0], 10, 64)
	rd := bufio.NewReaderSize(os.Stdin, 1<<20)
	for {
		l, err := rd.ReadString('\n')
		l = strings.TrimRight(l, "\n")
		if l != "" {
			f := strings.SplitN(l, "\t", 2)
			idx, _ := strconv.Atoi(f[0])
			c := &Ctx{Seed: seed, idx: idx, Tier: args[1], Counts: map[string]int{}}
			childFails = nil
			res := "bad-op"
			if len(f) == 2 {
				res = concRun(c, f[1])
			}
			w := bytes.NewBuffer(nil)
			for _, fl := range childFails {
				fmt.Fprintf(w, "FAIL %s %s\n", fl[0], fl[1])
			}
			for k := range c.Counts {
				fmt.Fprintf(w, "COUNT %s\n", k)
			}
			fmt.Fprintf(w, "RESULT %s\nEND\n", res)
			os.Stdout.Write(w.Bytes())
		}
		if err != nil {
			return
		}
	}
}

var childFails [][2]string

// the application-wide extra input format (engine.AddValidInput, as examples/first does) is registered once per
// process before any session is served; every engine of every session then asks for it again, which the library
// answers with "already registered" without touching the table
var concValidatorOnce sync.Once

const concExtraInput = "^%.*"

func concRun(c *Ctx, line string) string {
	concValidatorOnce.Do(func() { vm.RegisterInputValidator(0, concExtraInput) })
	{
		{
			parts := strings.Split(line, " ## ")
			hdr := strings.Fields(parts[0])
			if len(parts) < 2 || len(hdr) != 4 || hdr[0] != "conc" {
				return "bad-op"
			}
			spare := hdr[1] == "spare=1"
			storeKind := strings.TrimPrefix(hdr[2], "store=")
			rounds, _ := strconv.Atoi(strings.TrimPrefix(hdr[3], "rounds="))
			if storeKind == "fs" && rounds > 5 {
				rounds = rounds / 5 // every save fsyncs
			}
			var cases []*eCase
			for _, p := range parts[1:] {
				ec, ok := parseECase(p)
				if !ok {
					return "bad-op"
				}
				cases = append(cases, ec)
			}
			app := cases[0]
			// the shared, immutable application: one set of bytecode slices for all sessions
			for k, b := range app.nodes {
				extra := 0
				if spare {
					extra = 64
				}
				nb := make([]byte, len(b), len(b)+extra)
				copy(nb, b)
				app.nodes[k] = nb
			}
			pristine := map[string][]byte{}
			for k, b := range app.nodes {
				pristine[k] = append([]byte{}, b[:cap(b)]...)
			}
			work, err := os.MkdirTemp("", "vconc-")
			if err != nil {
				return "bad-op"
			}
			defer os.RemoveAll(work)
			nogate := func() {}
			// sequential reference
			var seq [][]string
			for i, ec := range cases {
				seq = append(seq, serveSession(app, ec, fmt.Sprintf("s%d", i), storeKind, filepath.Join(work, "seq"), nogate))
			}
			restore := func() {
				for k, b := range app.nodes {
					copy(b[:cap(b)], pristine[k])
				}
			}
			restore()
			var firstDiff string
			rng := rand.New(rand.NewSource(c.Seed + int64(c.idx)))
			for r := 0; r < rounds && firstDiff == ""; r++ {
				res := make([][]string, len(cases))
				var wg sync.WaitGroup
				start := make(chan struct{})
				dir := filepath.Join(work, fmt.Sprintf("r%d", r))
				for i := range cases {
					wg.Add(1)
					yield := rng.Intn(3)
					go func(i, yield int) {
						defer wg.Done()
						<-start
						res[i] = serveSession(app, cases[i], fmt.Sprintf("s%d", i), storeKind, dir, func() {
							for y := 0; y < yield; y++ {
								runtime.Gosched()
							}
						})
					}(i, yield)
				}
				close(start)
				wg.Wait()
				for i := range cases {
					if strings.Join(res[i], " # ") != strings.Join(seq[i], " # ") {
						for q := range seq[i] {
							if q >= len(res[i]) || res[i][q] != seq[i][q] {
								got := "(missing)"
								if q < len(res[i]) {
									got = res[i][q]
								}
								firstDiff = fmt.Sprintf("round %d session %d of %d request %d: served alone %s, served concurrently %s", r, i, len(cases), q, trunc(seq[i][q], 160), trunc(got, 160))
								break
							}
						}
						break
					}
				}
				restore()
			}
			if firstDiff != "" {
				childFails = append(childFails, [2]string{"transcript-differs", firstDiff})
			}
			c.Count(fmt.Sprintf("sessions:%d", len(cases)))
			c.Count("store:" + storeKind)
			c.Count(fmt.Sprintf("spare:%v", spare))
			var outs []string
			for _, s := range seq {
				outs = append(outs, strings.Join(s, " # "))
			}
			if firstDiff != "" {
				return "DIFF " + firstDiff
			}
			return strings.Join(outs, " @@ ")
		}
	}
}

// sliceExec runs slice operations on real Go slices.
func sliceExec(s string) string {
	var sl [][]byte
	ctr := byte(1)
	var outs []string
	for _, op := range strings.Split(s, ";") {
		p := strings.Split(op, ":")
		switch {
		case p[0] == "M" && len(p) == 3:
			l, _ := strconv.Atoi(p[1])
			cp, _ := strconv.Atoi(p[2])
			b := make([]byte, l, cp)
			for i := range b {
				b[i] = ctr
				ctr++
			}
			sl = append(sl, b)
		case p[0] == "S" && len(p) == 3:
			i, _ := strconv.Atoi(p[1])
			k, _ := strconv.Atoi(p[2])
			if i >= len(sl) {
				return "bad-op"
			}
			if k > len(sl[i]) {
				k = len(sl[i])
			}
			sl = append(sl, sl[i][k:])
		case (p[0] == "A" || p[0] == "C") && len(p) == 3:
			i, _ := strconv.Atoi(p[1])
			if i >= len(sl) {
				return "bad-op"
			}
			x := unhx(p[2])
			if p[0] == "A" {
				sl[i] = append(sl[i], x...)
			} else {
				sl[i] = append(sl[i][:len(sl[i]):len(sl[i])], x...)
			}
		default:
			return "bad-op"
		}
		var v []string
		for _, b := range sl {
			v = append(v, hx(b))
		}
		outs = append(outs, strings.Join(v, ","))
	}
	return strings.Join(outs, " | ")
}
