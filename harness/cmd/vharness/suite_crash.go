package main

// Suite "crash": C12 — the process is killed at every system-call boundary while a session is being saved to the
// filesystem store, and a fresh process then continues the session.
//
// The real code runs in a child process (this binary, sub-command "crashchild") under
//   strace -e trace=<S> -e inject=<S>:signal=SIGKILL:when=K
// which kills it on entry to the K-th system call of the set S (file opens, writes, fsync, close, rename,
// unlink) made by its main thread (the child locks its goroutine to the main thread). A dry run finds the
// window of calls belonging to the last request (after a marker open) and abstracts the calls that touch the
// store directory into the operation string the model is run on.
//
//	crash <n> ## <engine case>      kill during request n (0-based) of the history, at every call of the window
//	  -> ops=<op string> pts=<k:rec/next,...>
//	     op letters: T create temp (O_EXCL) in the store, w write to it, O open the record with O_TRUNC (or create
//	     it), W write to the record, s fsync, c close of a store file, N rename temp -> record, U unlink in the
//	     store, R read-only open in the store, . a call that does not touch the store
//	     rec: old|new|torn (bytes of the session record vs. the reference runs); next: cont (the next request's
//	     output is the one the reference run gives from that record) | fresh (the output of a brand-new session,
//	     different from it) | other

import (
	"bytes"
	"context"
	"fmt"
	"os"
	"os/exec"
	"path/filepath"
	"regexp"
	"runtime"
	"strconv"
	"strings"

	"git.defalsify.org/vise.git/cache"
	"git.defalsify.org/vise.git/db"
	fsdb "git.defalsify.org/vise.git/db/fs"
	"git.defalsify.org/vise.git/persist"
	"git.defalsify.org/vise.git/state"
)

const crashMarker = "/verif-crash-marker-does-not-exist"
const crashSyscalls = "openat,open,creat,write,pwrite64,writev,fsync,fdatasync,close,rename,renameat,renameat2,unlink,unlinkat,ftruncate,truncate"

func crashChildMain(args []string) {
	runtime.LockOSThread()
	if len(args) != 4 {
		fmt.Fprintln(os.Stderr, "usage: vharness crashchild <dir> <from> <to> <casefile>")
		os.Exit(2)
	}
	dir := args[0]
	from, _ := strconv.Atoi(args[1])
	to, _ := strconv.Atoi(args[2])
	b, err := os.ReadFile(args[3])
	if err != nil {
		os.Exit(2)
	}
	ec, ok := parseECase(strings.TrimSpace(string(b)))
	if !ok {
		os.Exit(2)
	}
	ctx := context.Background()
	store := fsdb.NewFsDb()
	if err := store.Connect(ctx, dir); err != nil {
		os.Exit(2)
	}
	ncalls := 0
	recs := ec.runPers(store, ec.inputs[from:to], &ncalls, func(i int) {
		if from+i == to-1 {
			if f, err := os.Open(crashMarker); err == nil {
				f.Close()
			}
		}
	})
	w := bytes.NewBuffer(nil)
	for _, r := range recs {
		fmt.Fprintf(w, "%s c=%s f=%s o=%s fin=%s\n", r.x, b01(r.cont), r.f, hx(r.out), r.fin)
	}
	// one write at the very end: the parent only reads it from runs that were not killed
	os.Stdout.Write(w.Bytes())
}

type crashRun struct {
	dir    string
	out    string
	killed bool
}

// crashExec runs the child for requests [from,to) on dir; kill > 0 kills it on entry to that call.
// strace keeps one injection counter per system call number, so the kill point is given as (call name, ordinal
// among the calls of that name since the start of the process).
func crashExec(c *Ctx, work, dir, casefile string, from, to int, killName string, killOrd int, logfile string) (string, bool, error) {
	self, _ := os.Executable()
	args := []string{"-e", "trace=" + crashSyscalls, "-o", logfile}
	if killOrd > 0 {
		args = append(args, "-e", fmt.Sprintf("inject=%s:signal=SIGKILL:when=%d", killName, killOrd))
	}
	args = append(args, self, "crashchild", dir, strconv.Itoa(from), strconv.Itoa(to), casefile)
	cmd := exec.Command("strace", args...)
	cmd.Env = append(os.Environ(), "GOMAXPROCS=1", "GODEBUG=asyncpreemptoff=1")
	var out bytes.Buffer
	cmd.Stdout = &out
	err := cmd.Run()
	killed := false
	if err != nil {
		if ee, ok := err.(*exec.ExitError); ok {
			killed = !ee.Success()
			err = nil
		}
	}
	return out.String(), killed, err
}

var reSyscall = regexp.MustCompile(`^([a-z0-9_]+)\((.*)$`)
var reFdRet = regexp.MustCompile(`= (\d+)$`)

type tracedCall struct {
	name string
	args string
	ret  string
	raw  string
}

func readTrace(path string) []tracedCall {
	var r []tracedCall
	for _, l := range readLinesRaw(path) {
		m := reSyscall.FindStringSubmatch(l)
		if m == nil {
			continue // +++ killed/exited, --- SIG lines
		}
		tc := tracedCall{name: m[1], args: m[2], raw: l}
		if i := strings.LastIndex(l, " = "); i >= 0 {
			tc.ret = strings.TrimSpace(l[i+3:])
		}
		r = append(r, tc)
	}
	return r
}

func readLinesRaw(path string) []string {
	b, err := os.ReadFile(path)
	if err != nil {
		return nil
	}
	return strings.Split(strings.TrimRight(string(b), "\n"), "\n")
}

// abstractOps maps the calls after the marker to op letters; recName is the file name of the session record.
func abstractOps(calls []tracedCall, dir, recName string) (start int, ops string) {
	start = -1
	for i, tc := range calls {
		if strings.Contains(tc.args, crashMarker) {
			start = i + 1
		}
	}
	if start < 0 {
		return -1, ""
	}
	// fds open on store files before the window do not matter: the persister opens and closes per operation
	fds := map[string]string{} // fd -> "temp" | "rec" | "other-store"
	var sb strings.Builder
	for _, tc := range calls[start:] {
		letter := "."
		firstArg := tc.args
		if i := strings.IndexAny(firstArg, ",)"); i >= 0 {
			firstArg = firstArg[:i]
		}
		switch tc.name {
		case "openat", "open", "creat":
			if strings.Contains(tc.args, `"`+dir+`/`) || strings.Contains(tc.args, `"`+dir+`"`) {
				kind := "other-store"
				pth := tc.args[strings.Index(tc.args, `"`)+1:]
				pth = pth[:strings.Index(pth, `"`)]
				base := filepath.Base(pth)
				switch {
				case base == recName:
					kind = "rec"
				case strings.HasPrefix(base, ".tmp-"):
					kind = "temp"
				}
				wr := strings.Contains(tc.args, "O_WRONLY") || strings.Contains(tc.args, "O_RDWR") || tc.name == "creat"
				switch {
				case !wr:
					letter = "R"
				case kind == "temp" && strings.Contains(tc.args, "O_EXCL"):
					letter = "T"
				case kind == "rec":
					letter = "O"
				default:
					letter = "X" // a write-open of another store file
				}
				if m := reFdRet.FindStringSubmatch(tc.raw); m != nil {
					fds[m[1]] = kind
					if !wr {
						fds[m[1]] = "ro"
					}
				}
			}
		case "write", "pwrite64", "writev":
			switch fds[firstArg] {
			case "temp":
				letter = "w"
			case "rec":
				letter = "W"
			case "other-store":
				letter = "X"
			}
		case "fsync", "fdatasync":
			if k, ok := fds[firstArg]; ok && k != "ro" {
				letter = "s"
			}
		case "ftruncate":
			if fds[firstArg] == "rec" {
				letter = "O"
			}
		case "close":
			if k, ok := fds[firstArg]; ok {
				if k != "ro" {
					letter = "c"
				}
				delete(fds, firstArg)
			}
		case "rename", "renameat", "renameat2":
			if strings.Contains(tc.args, `"`+dir+`/`) {
				if strings.Contains(tc.args, "/.tmp-") && strings.Contains(tc.args, "/"+recName+`"`) {
					letter = "N"
				} else {
					letter = "X"
				}
			}
		case "unlink", "unlinkat", "truncate":
			if strings.Contains(tc.args, `"`+dir+`/`) {
				letter = "U"
			}
		}
		sb.WriteString(letter)
	}
	return start, sb.String()
}

func copyDir(src, dst string) {
	os.MkdirAll(dst, 0o700)
	ents, _ := os.ReadDir(src)
	for _, e := range ents {
		b, err := os.ReadFile(filepath.Join(src, e.Name()))
		if err == nil {
			os.WriteFile(filepath.Join(dst, e.Name()), b, 0o600)
		}
	}
}

func dirSnapshot(dir, except string) string {
	ents, _ := os.ReadDir(dir)
	var s []string
	for _, e := range ents {
		if e.Name() == except || strings.HasPrefix(e.Name(), ".tmp-") {
			continue
		}
		b, _ := os.ReadFile(filepath.Join(dir, e.Name()))
		s = append(s, e.Name()+"="+hx(b))
	}
	return strings.Join(s, ",")
}

func lastLine(s string) string {
	l := strings.Split(strings.TrimSpace(s), "\n")
	return l[len(l)-1]
}

var crashModelLines = map[int]string{}

func init() {
	suites["crash"] = &Suite{
		Teardown: func(c *Ctx) {
			var sb strings.Builder
			for i := 0; i <= c.idx; i++ {
				l, ok := crashModelLines[i]
				if !ok {
					l = "none"
				}
				sb.WriteString(l + "\n")
			}
			os.WriteFile(filepath.Join(c.OutDir, "model_cases.txt"), []byte(sb.String()), 0o644)
		},
		Setup: func(c *Ctx) {
			if _, err := exec.LookPath("strace"); err != nil {
				fmt.Fprintln(os.Stderr, "crash suite: strace not found")
				os.Exit(2)
			}
		},
		Gen: func(c *Ctx) []string {
			var ls []string
			n := c.Pick(6, 60)
			for len(ls) < n {
				ec := &eCase{mode: "pers", root: "root", wf: true}
				if len(ls) == 0 || c.Rng.Intn(3) == 0 {
					// a scenario application (values ending in newlines, deep paths, many symbols ...)
					k := c.Rng.Intn(len(scenarios))
					if len(ls) == 0 {
						k = 0
					}
					ec = scenarios[k](c)
					ec.mode = "pers"
				} else {
					genApp(c, ec)
					ec.out = []int{0, 160}[c.Rng.Intn(2)]
					adaptiveInputs(c, ec)
				}
				if len(ec.inputs) < 3 {
					continue
				}
				// crash during a request in the middle of the history (a record exists, a next input exists)
				k := 1 + c.Rng.Intn(len(ec.inputs)-2)
				if len(ls) == 1 {
					// the second case is always the one whose consecutive records have the same length
					ec = scenSameLen(c)
					ec.mode = "pers"
					k = 3 + c.Rng.Intn(3)
				}
				ls = append(ls, fmt.Sprintf("crash %d ## %s", k, ec.String()))
			}
			return ls
		},
		Exec: func(c *Ctx, line string) string {
			parts := strings.SplitN(line, " ## ", 2)
			f := strings.Fields(parts[0])
			if len(parts) != 2 || len(f) != 2 || f[0] != "crash" {
				return "bad-op"
			}
			n, err := strconv.Atoi(f[1])
			ec, ok := parseECase(parts[1])
			if err != nil || !ok || n < 1 || n+1 >= len(ec.inputs) {
				return "bad-op"
			}
			work, err := os.MkdirTemp("", "vcrash-")
			if err != nil {
				return "bad-op"
			}
			defer os.RemoveAll(work)
			casefile := filepath.Join(work, "case.txt")
			os.WriteFile(casefile, []byte(parts[1]+"\n"), 0o600)
			cfg := ec.config()
			// a second session's record sits in the same store
			base := filepath.Join(work, "base")
			os.MkdirAll(base, 0o700)
			{
				ctx := context.Background()
				st := fsdb.NewFsDb()
				st.Connect(ctx, base)
				st.SetPrefix(db.DATATYPE_STATE)
				st.SetSession("othersession")
				st.Put(ctx, []byte("othersession"), []byte("record of another session"))
			}
			// the file name of this session's record: the only file the history adds
			// reference: old = after requests [0,n), new = after [0,n]
			oldDir := filepath.Join(work, "old")
			copyDir(base, oldDir)
			if _, killed, err := crashExec(c, work, oldDir, casefile, 0, n, "", 0, filepath.Join(work, "t0.log")); err != nil || killed {
				return "harness-error old-run"
			}
			recName := ""
			ents, _ := os.ReadDir(oldDir)
			baseEnts := map[string]bool{}
			be, _ := os.ReadDir(base)
			for _, e := range be {
				baseEnts[e.Name()] = true
			}
			for _, e := range ents {
				if !baseEnts[e.Name()] {
					recName = e.Name()
				}
			}
			if recName == "" {
				// the history has not saved anything before request n (for instance its first input was refused)
				c.Count("skipped:no-record-before-request")
				return "none"
			}
			oldRec, _ := os.ReadFile(filepath.Join(oldDir, recName))
			// the CBOR bytes of one state differ between runs (map order): records are compared decoded
			decoded := func(dir string) (string, bool) {
				ctx := context.Background()
				st := fsdb.NewFsDb()
				if err := st.Connect(ctx, dir); err != nil {
					return "", false
				}
				pe := persist.NewPersister(st).WithContent(state.NewState(uint32(ec.flags)), cache.NewCache())
				if err := pe.Load(cfg.SessionId); err != nil {
					return "", false
				}
				return engStateOut(pe.GetState(), pe.GetMemory().(*cache.Cache), nil, nil), true
			}
			oldSt, ok1 := decoded(oldDir)
			others := dirSnapshot(oldDir, recName)
			// dry run of request n from a copy of old, traced
			newDir := filepath.Join(work, "new")
			copyDir(oldDir, newDir)
			dry := filepath.Join(work, "dry.log")
			if _, killed, err := crashExec(c, work, newDir, casefile, n, n+1, "", 0, dry); err != nil || killed {
				return "harness-error dry-run"
			}
			newRec, _ := os.ReadFile(filepath.Join(newDir, recName))
			newSt, ok2 := decoded(newDir)
			if !ok1 || !ok2 {
				// no crash involved: a record the engine has just saved cannot be loaded by a fresh store handle and
				// persister, so the next process will start a new session over it
				c.Fail("C12", "saved-record-does-not-load", fmt.Sprintf("the record saved after request %d (old loads: %v) / %d (new loads: %v) of the history cannot be loaded by a fresh persister (%d / %d bytes)", n-1, ok1, n, ok2, len(oldRec), len(newRec)))
				return "harness-error reference-records"
			}
			calls := readTrace(dry)
			start, ops := abstractOps(calls, newDir, recName)
			if start < 0 {
				return "harness-error no-marker"
			}
			// reference continuations
			cont := func(src string) string {
				d := filepath.Join(work, "cont")
				os.RemoveAll(d)
				copyDir(src, d)
				out, killed, err := crashExec(c, work, d, casefile, n+1, n+2, "", 0, filepath.Join(work, "c.log"))
				if err != nil || killed {
					return "harness-error"
				}
				return lastLine(out)
			}
			oOld, oNew, oFresh := cont(oldDir), cont(newDir), cont(base)
			_ = cfg
			var pts []string
			for k := 0; k <= len(ops); k++ {
				d := filepath.Join(work, "k")
				os.RemoveAll(d)
				copyDir(oldDir, d)
				kill := 0
				killName := ""
				if k < len(ops) {
					// the child is killed on entry to call start+k of the dry run
					killName = calls[start+k].name
					for _, tc := range calls[:start+k+1] {
						if tc.name == killName {
							kill++
						}
					}
				}
				lg := filepath.Join(work, "k.log")
				_, killed, err := crashExec(c, work, d, casefile, n, n+1, killName, kill, lg)
				if err != nil || (kill > 0 && !killed) {
					pts = append(pts, fmt.Sprintf("%d:harness-error", k))
					continue
				}
				if kill > 0 {
					// the killed run must have made the same calls as the dry run up to the kill point
					got := readTrace(lg)
					_, gops := abstractOps(got, d, recName)
					if len(gops) < k || gops[:k] != ops[:k] {
						pts = append(pts, fmt.Sprintf("%d:harness-error-trace", k))
						continue
					}
				}
				rec, rerr := os.ReadFile(filepath.Join(d, recName))
				recState := "torn"
				if st, ok := decoded(d); rerr == nil && ok {
					switch {
					case st == oldSt && st == newSt:
						recState = "same"
					case st == oldSt:
						recState = "old"
					case st == newSt:
						recState = "new"
					}
				}
				if o := dirSnapshot(d, recName); o != others {
					c.Fail("C12", "other-record-changed", fmt.Sprintf("crash at call %d (%q) of the save in request %d changed another record: %s -> %s", k, ops[:k], n, others, o))
				}
				// a fresh process serves the next request
				out, killed2, err := crashExec(c, work, d, casefile, n+1, n+2, "", 0, filepath.Join(work, "n.log"))
				nx := "other"
				if err == nil && !killed2 {
					o := lastLine(out)
					want := map[string]string{"old": oOld, "same": oOld, "new": oNew}[recState]
					switch {
					case recState != "torn" && o == want:
						nx = "cont"
					case o == oFresh:
						nx = "fresh"
					}
				}
				if recState == "torn" {
					c.Fail("C12", "torn-record", fmt.Sprintf("crash before call %d of the save (%q|%q) in request %d left a record of %d bytes that is neither the previous (%d bytes) nor the new one (%d bytes); the next request then gave %s", k, ops[:k], ops[k:], n, len(rec), len(oldRec), len(newRec), nx))
				} else if nx != "cont" {
					c.Fail("C12", "session-not-continued", fmt.Sprintf("crash before call %d of the save (%q) in request %d left the %s record but the next request gave %s", k, ops[:k], n, recState, nx))
				}
				pts = append(pts, fmt.Sprintf("%d:%s/%s", k, recState, nx))
			}
			same := 0
			if oldSt == newSt {
				same = 1
			}
			crashModelLines[c.idx] = fmt.Sprintf("ops %s same=%d", ops, same)
			c.Count("ops:" + strings.Trim(strings.ReplaceAll(ops, ".", ""), "R"))
			c.Count(fmt.Sprintf("crashpoints:%d", len(ops)+1))
			return "ops=" + ops + " safe=1 pts=" + strings.Join(pts, ",")
		},
	}
}
