package main

// Suite "db": C10 (every backend behaves as the same keyed map) and C11 (sessions and data types never
// see each other's data) on the memory, filesystem (text and binary-key) and Postgres (in-process fake)
// backends. One operation sequence per case; a reference map keyed by the exact coordinates
// (type, session, language, key) is the direct oracle.

import (
	"bytes"
	"context"
	"fmt"
	"os"
	"sort"
	"strconv"
	"strings"

	"git.defalsify.org/vise.git/db"
	fsdb "git.defalsify.org/vise.git/db/fs"
	memdb "git.defalsify.org/vise.git/db/mem"
	"git.defalsify.org/vise.git/lang"
)

type coord struct {
	typ  uint8
	sid  string
	lang string
	key  string
}

const langTypes = db.DATATYPE_MENU | db.DATATYPE_TEMPLATE | db.DATATYPE_STATICLOAD

func mkCoord(typ uint8, sid string, l *string, key string) coord {
	c := coord{typ: typ, key: key}
	if typ > db.DATATYPE_STATICLOAD {
		c.sid = sid
	}
	if typ&langTypes > 0 && l != nil {
		c.lang = *l
	}
	return c
}

// storageKey is the harness's own derivation of the documented key layout (independent of db.ToKey).
func storageKey(c coord) string {
	s := string([]byte{c.typ})
	if c.typ > db.DATATYPE_STATICLOAD && c.sid != "" {
		s += c.sid + "."
	}
	s += c.key
	if c.lang != "" {
		s += "_" + c.lang
	}
	return s
}

func langObj(code string) *lang.Language {
	return &lang.Language{Code: code, Name: code}
}

type dbCase struct {
	backend string
	dom     string
	ops     []string
}

var dbTypes = []uint8{db.DATATYPE_BIN, db.DATATYPE_MENU, db.DATATYPE_TEMPLATE, db.DATATYPE_STATICLOAD, db.DATATYPE_STATE, db.DATATYPE_USERDATA}

func genDbCase(c *Ctx, backend, dom string) string {
	r := c.Rng
	var keys, sids []string
	if dom == "wf" {
		keys = []string{"foo", "foobar", "bar", "xyzzy", "foo_baz", "a1"}
		sids = []string{"", "alice", "bob", "alicia", "alice ", "alice\n", " alice", " "}
	} else {
		keys = []string{"a", "b.c", "c", "a.b", "Pa.b.c", "P", "@a", "_nor", "a_nor", "b", "a.b.c", "xyzzy_nor"}
		sids = []string{"", "a", "a.b", "Pa", "@a", "b"}
	}
	langs := []string{"-", "-", hxs("nor"), hxs("eng"), hxs("swa")}
	n := 4 + r.Intn(26)
	var ops []string
	ops = append(ops, fmt.Sprintf("P:%d", dbTypes[r.Intn(len(dbTypes))]))
	if r.Intn(3) > 0 {
		// unlock everything first so that writes to the read-only types are possible
		for _, t := range []uint8{1, 2, 4, 8} {
			if r.Intn(5) > 0 {
				ops = append(ops, fmt.Sprintf("K:%d:0", t))
			}
		}
	}
	if dom == "adv" && r.Intn(3) == 0 {
		// two coordinates whose file names are one another's legacy name: (type t, session s, key k) is stored as
		// chr(0x30+t) s.k, which is also the legacy (type-less) name of (any type, session chr(0x30+t)+s, key k)
		ta, tb := []int{32, 16}[r.Intn(2)], []int{16, 32}[r.Intn(2)]
		sa := []string{"a", "b"}[r.Intn(2)]
		sb := string(rune(0x30+ta)) + sa
		k := hxs([]string{"b", "c", "a.b"}[r.Intn(3)])
		pre := [][]string{
			{fmt.Sprintf("P:%d", ta), "S:" + hxs(sa), fmt.Sprintf("W:%s:%s:-", k, hxs("secret-of-"+sa))},
			{fmt.Sprintf("P:%d", tb), "S:" + hxs(sb), fmt.Sprintf("W:%s:%s:-", k, hxs("own-of-"+sb))},
		}
		if r.Intn(2) == 0 {
			pre[0], pre[1] = pre[1], pre[0]
		}
		for _, p := range pre {
			ops = append(ops, p...)
		}
		ops = append(ops, fmt.Sprintf("P:%d", tb), "S:"+hxs(sb), fmt.Sprintf("G:%s:-", k), fmt.Sprintf("P:%d", ta), "S:"+hxs(sa), fmt.Sprintf("G:%s:-", k))
	}
	if dom == "wf" && r.Intn(4) == 0 {
		// a translation and a default entry of one key, read back under the language, under another language and without one
		t := []int{2, 4, 8}[r.Intn(3)]
		l := []string{"nor", "eng", "swa"}[r.Intn(3)]
		other := []string{"nor", "eng", "swa", "fra"}[r.Intn(4)]
		k := hxs(keys[r.Intn(len(keys)-2)])
		ops = append(ops, fmt.Sprintf("K:%d:0", t), fmt.Sprintf("P:%d", t))
		w := []string{fmt.Sprintf("W:%s:%s:%s", k, hxs("translated-"+l), hxs(l)), fmt.Sprintf("W:%s:%s:-", k, hxs("default-entry"))}
		if r.Intn(2) == 0 {
			w[0], w[1] = w[1], w[0]
		}
		ops = append(ops, w...)
		ops = append(ops, fmt.Sprintf("G:%s:%s", k, hxs(l)), fmt.Sprintf("G:%s:%s", k, hxs(other)), fmt.Sprintf("G:%s:-", k))
	}
	if dom == "adv" && r.Intn(4) == 0 {
		// a key crafted to spell another session's file name: (type t, session s, key k) is stored as chr(0x30+t) s.k;
		// a different session asks for the key "chr(0x30+t) s.k" (and for the persisted-state name "@s.s")
		ta := []int{32, 16}[r.Intn(2)]
		sa, sb := "a", "b"
		if r.Intn(2) == 0 {
			sa, sb = "b", "a"
		}
		k := []string{"b", "c", "pin"}[r.Intn(3)]
		crafted := string(rune(0x30+ta)) + sa + "." + k
		ops = append(ops, fmt.Sprintf("P:%d", ta), "S:"+hxs(sa), fmt.Sprintf("W:%s:%s:-", hxs(k), hxs("secret-of-"+sa)),
			fmt.Sprintf("P:%d", []int{32, 16}[r.Intn(2)]), "S:"+hxs(sb), fmt.Sprintf("G:%s:-", hxs(crafted)),
			fmt.Sprintf("P:%d", []int{32, 16, 8}[r.Intn(3)]), "S:"+hxs([]string{sb, ""}[r.Intn(2)]), fmt.Sprintf("G:%s:-", hxs(crafted)))
	}
	for i := 0; i < n; i++ {
		k := hxs(keys[r.Intn(len(keys))])
		cl := langs[r.Intn(len(langs))]
		if r.Intn(3) > 0 {
			cl = "-"
		}
		switch x := r.Intn(20); {
		case x < 6:
			val := hxs([]string{"v1", "value two", "3", "\x00\xffbin", "tre", ""}[r.Intn(6)] + strconv.Itoa(i) + []string{"", "", "", "\n", " ", "\n\n", "\t"}[r.Intn(7)])
			ops = append(ops, fmt.Sprintf("W:%s:%s:%s", k, val, cl))
		case x < 12:
			ops = append(ops, fmt.Sprintf("G:%s:%s", k, cl))
		case x < 14:
			ops = append(ops, fmt.Sprintf("P:%d", dbTypes[r.Intn(len(dbTypes))]))
		case x < 16:
			ops = append(ops, "S:"+hxs(sids[r.Intn(len(sids))]))
		case x < 17:
			ops = append(ops, "L:"+langs[r.Intn(len(langs))])
		case x < 18:
			// single types and combined masks (the idiom of examples/db: one call for several types), also when only some of the
			// types in the mask are in the requested state already
			t := []int{0, 1, 2, 4, 8, 16, 1 | 2 | 4, 2 | 4, 4 | 8, 1 | 2 | 4 | 8, 2 | 8, 1 | 4 | 32}[r.Intn(12)]
			if t == 0 && r.Intn(3) > 0 {
				t = 4
			}
			ops = append(ops, fmt.Sprintf("K:%d:%d", t, r.Intn(2)))
		default:
			if strings.HasPrefix(backend, "fs") || (backend == "pg" && dom == "adv") {
				// (the Postgres listing is exercised for isolation only: C10 states listing for the filesystem backend)
				pfx := []string{"", "f", "foo", "b", "a", "x"}[r.Intn(6)]
				ops = append(ops, fmt.Sprintf("D:%s:%s", hxs(pfx), cl))
			} else {
				ops = append(ops, fmt.Sprintf("G:%s:%s", k, cl))
			}
		}
	}
	return backend + " " + dom + " " + strings.Join(ops, ";")
}

func hxs(s string) string { return hx([]byte(s)) }

type dbBackend interface {
	db.Db
}

func newBackend(name string) (db.Db, func()) {
	ctx := context.Background()
	switch name {
	case "mem":
		m := memdb.NewMemDb()
		m.Connect(ctx, "")
		return m, func() {}
	case "fs", "fsbin":
		d, _ := os.MkdirTemp("", "verif-fsdb-")
		f := fsdb.NewFsDb()
		if name == "fsbin" {
			f = f.WithBinary()
		}
		f.Connect(ctx, d)
		return f, func() { os.RemoveAll(d) }
	case "pg":
		return newPgBackend()
	}
	return nil, func() {}
}

func init() {
	suites["db"] = &Suite{
		Gen: func(c *Ctx) []string {
			var ls []string
			backends := []string{"mem", "fs", "fsbin", "pg"}
			n := c.Pick(300, 6000)
			for i := 0; i < n; i++ {
				for _, b := range backends {
					dom := "wf"
					if i%3 == 2 {
						dom = "adv"
					}
					ls = append(ls, genDbCase(c, b, dom))
				}
			}
			return ls
		},
		Exec: func(c *Ctx, line string) string {
			f := strings.Fields(line)
			if len(f) != 3 {
				return "bad-op"
			}
			backend, dom := f[0], f[1]
			store, cleanup := newBackend(backend)
			defer cleanup()
			if store == nil {
				return "bad-op"
			}
			ctx0 := context.Background()
			ref := map[coord][]byte{}
			var pfx uint8
			var sid string
			var dbLang *string
			lock := uint8(db.DATATYPE_BIN | db.DATATYPE_MENU | db.DATATYPE_TEMPLATE | db.DATATYPE_STATICLOAD)
			sealed := false
			var outs []string
			c.Count("backend:" + backend + "/" + dom)
			for oi, op := range strings.Split(f[2], ";") {
				p := strings.Split(op, ":")
				where := fmt.Sprintf("%s %s op %d (%s)", backend, dom, oi, op)
				res := "bad-op"
				ctxWith := func(l string) (context.Context, *string) {
					if l == "-" {
						return ctx0, dbLang
					}
					code := string(unhx(l))
					eff := &code
					if dbLang != nil {
						eff = dbLang
					}
					return context.WithValue(ctx0, "Language", *langObj(code)), eff
				}
				func() {
					defer func() {
						if r := recover(); r != nil {
							res = "panic"
							c.Fail("C10", "panic", fmt.Sprintf("%s panicked: %v", where, r))
						}
					}()
					switch p[0] {
					case "P":
						t, _ := strconv.Atoi(p[1])
						pfx = uint8(t)
						store.SetPrefix(pfx)
						res = "ok"
					case "S":
						sid = string(unhx(p[1]))
						store.SetSession(sid)
						res = "ok"
					case "L":
						if p[1] == "-" {
							dbLang = nil
							store.SetLanguage(nil)
						} else {
							code := string(unhx(p[1]))
							dbLang = &code
							store.SetLanguage(langObj(code))
						}
						res = "ok"
					case "K":
						t, _ := strconv.Atoi(p[1])
						err := store.SetLock(uint8(t), p[2] == "1")
						res = errTag(err)
						if sealed && err == nil {
							c.Fail("C10", "seal-undone", fmt.Sprintf("%s: SetLock succeeded on a sealed store", where))
						}
						if err == nil {
							if t == 0 {
								sealed = true
								lock |= db.DATATYPE_BIN | db.DATATYPE_MENU | db.DATATYPE_TEMPLATE | db.DATATYPE_STATICLOAD
							} else if p[2] == "1" {
								lock |= uint8(t)
							} else {
								lock &= ^uint8(t)
							}
						}
					case "W":
						key, val := string(unhx(p[1])), unhx(p[2])
						ctx, eff := ctxWith(p[3])
						err := store.Put(ctx, []byte(key), val)
						res = errTag(err)
						locked := pfx&lock != 0
						if locked && err == nil {
							c.Fail("C10", "locked-put-accepted", fmt.Sprintf("%s: Put to a locked data type succeeded", where))
						}
						if err == nil {
							ref[mkCoord(pfx, sid, eff, key)] = append([]byte{}, val...)
							c.Count("put:ok")
							// the caller reuses its buffer after the write: the store must have taken the value, not the slice
							for i := range val {
								val[i] ^= 0x55
							}
						} else {
							c.Count("put:err")
						}
					case "G":
						key := string(unhx(p[1]))
						ctx, eff := ctxWith(p[2])
						v, err := store.Get(ctx, []byte(key))
						// expectation from the reference map: translation, then default
						var exp []byte
						have := false
						if e, ok := ref[mkCoord(pfx, sid, eff, key)]; ok {
							exp, have = e, true
						} else if e, ok := ref[mkCoord(pfx, sid, nil, key)]; ok {
							exp, have = e, true
						}
						switch {
						case err == nil:
							res = "ok:" + hx(v)
							if pfx == 0 {
								break
							}
							if !have {
								cls, prop := classifyLeak(backend, ref, mkCoord(pfx, sid, eff, key), mkCoord(pfx, sid, nil, key), v)
								if prop == "C11" || dom == "wf" {
									c.Fail(prop, cls, fmt.Sprintf("%s: Get(type %d, session %q, key %q) returned %q although nothing was written there", where, pfx, sid, key, trunc(string(v), 30)))
								}
							} else if !bytes.Equal(v, exp) {
								// C18: a language-scoped read with a translation present must return the translation
								if _, okT := ref[mkCoord(pfx, sid, eff, key)]; okT && eff != nil && dom == "wf" {
									if d, okD := ref[mkCoord(pfx, sid, nil, key)]; okD && bytes.Equal(d, v) {
										c.Fail("C18", "translation-ignored", fmt.Sprintf("%s: Get(type %d, session %q, key %q) in language %q returned the default entry %q although the translation %q exists", where, pfx, sid, key, *eff, trunc(string(v), 30), trunc(string(exp), 30)))
									}
								}
								cls, prop := classifyLeak(backend, ref, mkCoord(pfx, sid, eff, key), mkCoord(pfx, sid, nil, key), v)
								if prop == "C11" || dom == "wf" {
									c.Fail(prop, cls, fmt.Sprintf("%s: Get(type %d, session %q, key %q) returned %q, latest write there was %q", where, pfx, sid, key, trunc(string(v), 30), trunc(string(exp), 30)))
								}
							}
							c.Count("get:ok")
						case db.IsNotFound(err):
							res = "notfound"
							if have && dom == "wf" {
								c.Fail("C10", "lost-write", fmt.Sprintf("%s: Get(type %d, session %q, key %q) not found, latest write was %q", where, pfx, sid, key, trunc(string(exp), 30)))
							}
							c.Count("get:notfound")
						default:
							res = "err"
							if pfx != 0 && !have {
								c.Fail("C10", "notfound-not-recognisable", fmt.Sprintf("%s: never-written key reported as %v, not recognisable as not-found", where, err))
							} else if pfx != 0 {
								c.Fail("C10", "lost-write", fmt.Sprintf("%s: Get failed with %v, latest write was %q", where, err, trunc(string(exp), 30)))
							}
						}
						// ... and it scribbles on what a read handed out: the next read must still see the stored value
						if err == nil {
							for i := range v {
								v[i] ^= 0x55
							}
						}
					case "D":
						keyp := string(unhx(p[1]))
						ctx, eff := ctxWith(p[2])
						d, err := store.Dump(ctx, []byte(keyp))
						var got []string
						if err != nil {
							if db.IsNotFound(err) {
								res = "notfound"
							} else {
								res = "err"
							}
						} else {
							for {
								k, v := d.Next(ctx)
								if k == nil {
									break
								}
								got = append(got, hx(k)+"="+hx(v))
							}
							d.Close()
							res = "ok:" + strings.Join(got, ",")
						}
						if backend == "pg" {
							dbLang = nil // pgDb.Dump resets the handle's language (SetLanguage(nil)) as a side effect
						}
						// C11: nothing that belongs to another session or data type is listed
						if pfx != 0 {
							me := mkCoord(pfx, sid, nil, "")
							for _, g := range got {
								kv := strings.SplitN(g, "=", 2)
								k, v := string(unhx(kv[0])), unhx(kv[1])
								own := false
								for co := range ref {
									if co.typ == pfx && co.sid == me.sid && (co.key == k || strings.HasPrefix(co.key, k) || strings.HasPrefix(k, co.key)) {
										own = true // (how an own key is spelled in the listing is C10's concern)
									}
								}
								if own {
									continue
								}
								var foreign *coord
								cls := "listing-leak"
								for co, v2 := range ref { // (the same value may have been written to several places)
									if !bytes.Equal(v2, v) || (co.typ == pfx && co.sid == me.sid) {
										continue
									}
									co := co
									if storageKey(co) == storageKey(mkCoord(pfx, sid, nil, k)) {
										cls, foreign = "isolation-key-not-injective", &co
									} else if foreign == nil {
										foreign = &co
									}
								}
								if foreign != nil {
									c.Fail("C11", cls, fmt.Sprintf("%s: Dump(%q) under type %d session %q listed %q=%q, which is the record of type %d session %q key %q", where, keyp, pfx, sid, k, trunc(string(v), 30), foreign.typ, foreign.sid, foreign.key))
								}
							}
							c.Count("dump:" + backend)
						}
						if dom == "wf" && pfx != 0 && strings.HasPrefix(backend, "fs") {
							// expected: every stored key (of this type and session) with the prefix, once, with the value a Get returns
							expSet := map[string][]byte{}
							for co, v := range ref {
								if co.typ != pfx || (pfx > db.DATATYPE_STATICLOAD && co.sid != sid) || !strings.HasPrefix(co.key, keyp) {
									continue
								}
								if _, seen := expSet[co.key]; !seen || (eff != nil && co.lang == *eff) {
									if co.lang == "" || (eff != nil && co.lang == *eff) {
										expSet[co.key] = v
									} else if _, seen := expSet[co.key]; !seen {
										expSet[co.key] = nil // only a translation in another language exists
									}
								}
							}
							var exp []string
							for k, v := range expSet {
								if v == nil {
									if dv, ok := ref[coord{typ: pfx, sid: mkCoord(pfx, sid, nil, k).sid, key: k}]; ok {
										v = dv
									} else {
										continue
									}
								}
								exp = append(exp, hx([]byte(k))+"="+hx(v))
							}
							sort.Strings(exp)
							gs := append([]string{}, got...)
							sort.Strings(gs)
							if strings.Join(gs, ",") != strings.Join(exp, ",") {
								cls := "dump"
								dedup := map[string]bool{}
								dups := false
								for _, g := range gs {
									if dedup[g] {
										dups = true
									}
									dedup[g] = true
								}
								if dups {
									cls = "dump-duplicate-per-translation"
								} else if pfx <= db.DATATYPE_STATICLOAD && sid != "" && len(gs) == 0 {
									cls = "dump-session-set-on-unsessioned-type"
								}
								c.Fail("C10", cls, fmt.Sprintf("%s: Dump(%q) listed %v, stored keys with that prefix are %v", where, keyp, gs, exp))
							}
							c.Count("dump")
						}
					}
				}()
				outs = append(outs, res)
			}
			store.Close(ctx0)
			return strings.Join(outs, " # ")
		},
	}
}

// classifyLeak decides which property a wrong Get result breaks and why: a value that belongs to other
// coordinates is an isolation failure (C11) when session or data type differ, otherwise a map failure (C10).
func classifyLeak(backend string, ref map[coord][]byte, want, wantDefault coord, got []byte) (string, string) {
	// every place that holds the value (the same value may have been written to several places): the explanation is
	// looked for among all of them, in a fixed order of preference, never by map iteration order
	var foreign, sameScope []coord
	for co, v := range ref {
		if !bytes.Equal(v, got) || co == want || co == wantDefault {
			continue
		}
		if co.typ != want.typ || co.sid != want.sid {
			foreign = append(foreign, co)
		} else {
			sameScope = append(sameScope, co)
		}
	}
	sameKey := func(co coord) bool {
		return storageKey(co) == storageKey(want) || storageKey(co) == storageKey(wantDefault)
	}
	// whose record is it? same storage key as the one asked for -> the key derivation is not injective
	for _, co := range foreign {
		if sameKey(co) {
			return "isolation-key-not-injective", "C11"
		}
	}
	for _, co := range sameScope {
		if sameKey(co) {
			return "key-not-injective-same-scope", "C10"
		}
	}
	if len(foreign) == 0 {
		return "wrong-value", "C10"
	}
	if strings.HasPrefix(backend, "fs") {
		// the known legacy-name fallback explains the leak only when the reader's legacy file name (its storage key
		// without the type byte, plus ".bin" for bytecode) IS the other record's file name (type byte + 0x30, then the rest)
		legacy := func(w coord) string {
			n := storageKey(w)[1:]
			if w.typ == db.DATATYPE_BIN {
				n += ".bin"
			}
			return n
		}
		explained := false
		for _, co := range foreign {
			other := string([]byte{co.typ + 0x30}) + storageKey(co)[1:]
			if legacy(want) == other || legacy(wantDefault) == other {
				explained = true
			}
		}
		if backend == "fs" && !explained {
			return "isolation-fs-unexplained", "C11"
		}
		// ... and only when the reader has no record of its own
		_, own := ref[want]
		_, ownDef := ref[wantDefault]
		if own || ownDef {
			return "isolation-fs-own-record-shadowed", "C11"
		}
		return "isolation-fs-legacy-name", "C11"
	}
	return "isolation", "C11"
}
