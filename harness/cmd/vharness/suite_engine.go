package main

// Suite "engine": the shared engine-level suite (C01, C03..C08, C17, C18, C20).
// One session history per case, run on the real engine either with one long-lived engine
// (mode=long) or with a fresh engine + persister per request (mode=pers, memory store).

import (
	"bytes"
	"context"
	"fmt"
	"io"
	"os"
	"regexp"
	"sort"
	"strconv"
	"strings"

	"git.defalsify.org/vise.git/asm"
	"git.defalsify.org/vise.git/cache"
	"git.defalsify.org/vise.git/db"
	fsdb "git.defalsify.org/vise.git/db/fs"
	memdb "git.defalsify.org/vise.git/db/mem"
	"git.defalsify.org/vise.git/engine"
	"git.defalsify.org/vise.git/lang"
	"git.defalsify.org/vise.git/persist"
	"git.defalsify.org/vise.git/resource"
	"git.defalsify.org/vise.git/state"
)

type extRule struct {
	sym     string
	callIdx int     // -1 = any
	lang    *string // nil = any; "" = default language
	content string
	status  int
	set     []uint32
	reset   []uint32
	fail    bool
}

type tblEntry struct {
	lang *string
	sym  string
	text string
}

type eCase struct {
	mode    string
	out     int
	cache   int
	flags   int
	root    string
	lang    string
	sep     string
	roe     bool
	wf      bool
	nodes   map[string][]byte
	nodeOrd []string
	tpls    []tblEntry
	labels  []tblEntry
	nolabel map[string]bool
	exts    []extRule
	firsts  []extRule
	langof  map[string]string
	inputs  [][]byte
	res     string // "" = the recording resource; "db" / "dbfs" = the library's DbResource over a mem / fs store
	// options of how the harness serves the case (the model does not see them):
	//   asm     the nodes' bytecode is produced by the real assembler from the source text of the instructions
	//   pflush  persisted mode uses a persister WithFlush()
	//   shared  persisted mode with res=db/dbfs keeps the session in the store that also holds the application
	//   static  with res=db/dbfs, handler symbols that only return fixed content are stored under STATICLOAD
	//   loop    persisted mode: every request is served through engine.Loop (with no further input on its reader) instead of
	//           Exec / Flush / Finish called by the harness
	//   memcap  long-lived mode: the cache capacity is set on the cache object given to the engine (WithMemory) only; the
	//           configuration's CacheSize stays 0 and must not override it
	//   shadow  long-lived mode: the resource hands out the bytecode slices themselves (with spare capacity, as a
	//           bytes.Buffer gives), and before every request a second, independent session of the same application is
	//           served from the same resource data: it repeats the history so far and then takes another branch.
	//           Sessions share nothing mutable, so the case's own session must behave exactly as it does alone.
	opts         map[string]bool
	asmNodes     map[string][]byte
	preferAsm    bool // generator hint: serve through the assembler more often
	preferLp     bool // generator hint: also serve with a long-lived engine that has a persister
	preferShadow bool // generator hint: serve with a shadow session
	preferStatic bool // generator hint: with DbResource, store fixed-content symbols under STATICLOAD
}

func (c *eCase) opt(k string) bool { return c.opts != nil && c.opts[k] }

func (c *eCase) setOpt(k string) {
	if c.opts == nil {
		c.opts = map[string]bool{}
	}
	c.opts[k] = true
}

// codeOf: the bytecode the resource hands out for a node.
func (c *eCase) codeOf(sym string) ([]byte, bool) {
	if c.opt("asm") {
		b, ok := c.asmNodes[sym]
		return b, ok
	}
	b, ok := c.nodes[sym]
	return b, ok
}

var asmNameRe = regexp.MustCompile(`^[a-z_*.^<>][a-zA-Z0-9_]*$`)
var asmNumRe = regexp.MustCompile(`^(0|[1-9][0-9]{0,8})$`)

func asmSelOK(s string) bool {
	return s == "*" || asmNumRe.MatchString(s) || regexp.MustCompile(`^[a-z][a-zA-Z0-9_]*$`).MatchString(s)
}

// asmSource writes the instructions as assembly text, inside the domain where the assembler is faithful
// (theorem assemble_faithful: names starting with a lower-case letter or one of _ * . ^ < >, decimal or word selectors).
func asmSource(is []GInstr) (string, bool) {
	var sb strings.Builder
	m := func(b bool) int {
		if b {
			return 1
		}
		return 0
	}
	for _, i := range is {
		switch i.Op {
		case "HALT", "MSINK":
			sb.WriteString(i.Op + "\n")
		case "LOAD":
			if !asmNameRe.MatchString(i.A) {
				return "", false
			}
			fmt.Fprintf(&sb, "LOAD %s %d\n", i.A, i.N)
		case "RELOAD", "MAP", "MOVE":
			if !asmNameRe.MatchString(i.A) {
				return "", false
			}
			fmt.Fprintf(&sb, "%s %s\n", i.Op, i.A)
		case "CATCH":
			if !asmNameRe.MatchString(i.A) {
				return "", false
			}
			fmt.Fprintf(&sb, "CATCH %s %d %d\n", i.A, i.N, m(i.M))
		case "CROAK":
			fmt.Fprintf(&sb, "CROAK %d %d\n", i.N, m(i.M))
		case "INCMP", "MOUT", "MNEXT", "MPREV":
			if !asmNameRe.MatchString(i.A) || i.A == "*" || !asmSelOK(i.B) {
				return "", false
			}
			fmt.Fprintf(&sb, "%s %s %s\n", i.Op, i.A, i.B)
		default:
			return "", false
		}
	}
	return sb.String(), true
}

// asmOK: every node can be written as assembly source inside the safe domain.
func (c *eCase) asmOK() bool {
	for _, code := range c.nodes {
		is, ok := allInstrs(code)
		if !ok {
			return false
		}
		if _, ok := asmSource(is); !ok {
			return false
		}
	}
	return true
}

// buildAsm assembles every node with the library's assembler.
func (c *eCase) buildAsm() bool {
	c.asmNodes = map[string][]byte{}
	for name, code := range c.nodes {
		is, ok := allInstrs(code)
		if !ok {
			return false
		}
		src, ok := asmSource(is)
		if !ok {
			return false
		}
		w := bytes.NewBuffer(nil)
		if _, err := asm.Parse(src, w); err != nil {
			return false
		}
		c.asmNodes[name] = w.Bytes()
	}
	return true
}

// staticSyms: handler symbols that only ever return fixed content (served from STATICLOAD with the static option).
func (c *eCase) staticSyms() map[string]bool {
	r := map[string]bool{}
	if !c.opt("static") || c.res == "" {
		return r
	}
	for _, e := range c.exts {
		if e.callIdx >= 0 {
			return r // rules chosen by call index: every call must go through the counting resource
		}
	}
	bad := map[string]bool{}
	for _, e := range c.exts {
		r[e.sym] = true
		if e.callIdx >= 0 || e.status != 0 || len(e.set) > 0 || len(e.reset) > 0 || e.fail || (e.lang != nil && (*e.lang == "" || c.langof[*e.lang] != *e.lang)) {
			bad[e.sym] = true
		}
	}
	for k := range bad {
		delete(r, k)
	}
	return r
}

func optLangS(l *string) string {
	if l == nil {
		return "-"
	}
	return hx([]byte(*l))
}

func u32list(l []uint32) string {
	if len(l) == 0 {
		return "-"
	}
	var s []string
	for _, x := range l {
		s = append(s, strconv.Itoa(int(x)))
	}
	return strings.Join(s, ",")
}

func b01(b bool) string {
	if b {
		return "1"
	}
	return "0"
}

func (r extRule) rest() string {
	return fmt.Sprintf("%s:%d:%s:%s:%s", hx([]byte(r.content)), r.status, u32list(r.set), u32list(r.reset), b01(r.fail))
}

func (c *eCase) String() string {
	var f []string
	f = append(f, "mode="+c.mode, fmt.Sprintf("out=%d", c.out), fmt.Sprintf("cache=%d", c.cache), fmt.Sprintf("flags=%d", c.flags),
		"root="+hx([]byte(c.root)), "lang="+hx([]byte(c.lang)), "sep="+hx([]byte(c.sep)), "roe="+b01(c.roe), "wf="+b01(c.wf))
	if c.res != "" {
		f = append(f, "res="+c.res)
	}
	if len(c.opts) > 0 {
		f = append(f, "opt="+strings.Join(sortedKeysB(c.opts), ","))
	}
	for _, n := range c.nodeOrd {
		f = append(f, "node="+hx([]byte(n))+":"+hx(c.nodes[n]))
	}
	for _, t := range c.tpls {
		f = append(f, "tpl="+optLangS(t.lang)+":"+hx([]byte(t.sym))+":"+hx([]byte(t.text)))
	}
	for _, t := range c.labels {
		f = append(f, "label="+optLangS(t.lang)+":"+hx([]byte(t.sym))+":"+hx([]byte(t.text)))
	}
	for _, k := range sortedKeysB(c.nolabel) {
		f = append(f, "nolabel="+hx([]byte(k)))
	}
	for _, r := range c.exts {
		ci := "*"
		if r.callIdx >= 0 {
			ci = strconv.Itoa(r.callIdx)
		}
		lg := "*"
		if r.lang != nil {
			if *r.lang == "" {
				lg = "-"
			} else {
				lg = hx([]byte(*r.lang))
			}
		}
		f = append(f, "ext="+hx([]byte(r.sym))+":"+ci+":"+lg+":"+r.rest())
	}
	for _, r := range c.firsts {
		ci := "*"
		if r.callIdx >= 0 {
			ci = strconv.Itoa(r.callIdx)
		}
		f = append(f, "first="+ci+":"+r.rest())
	}
	for _, k := range sortedKeys(c.langof) {
		f = append(f, "langof="+hx([]byte(k))+":"+hx([]byte(c.langof[k])))
	}
	for _, in := range c.inputs {
		f = append(f, "in="+hx(in))
	}
	return strings.Join(f, " ")
}

func parseU32List(s string) []uint32 {
	if s == "-" || s == "" {
		return nil
	}
	var r []uint32
	for _, x := range strings.Split(s, ",") {
		v, _ := strconv.Atoi(x)
		r = append(r, uint32(v))
	}
	return r
}

func parseExtRest(p []string) (extRule, bool) {
	if len(p) != 5 {
		return extRule{}, false
	}
	st, _ := strconv.Atoi(p[1])
	return extRule{content: string(unhx(p[0])), status: st, set: parseU32List(p[2]), reset: parseU32List(p[3]), fail: p[4] == "1"}, true
}

func parseECase(line string) (*eCase, bool) {
	c := &eCase{mode: "long", root: "root", nodes: map[string][]byte{}, nolabel: map[string]bool{}, langof: map[string]string{}}
	optL := func(s string) *string {
		if s == "-" {
			return nil
		}
		v := string(unhx(s))
		return &v
	}
	for _, tok := range strings.Fields(line) {
		kv := strings.SplitN(tok, "=", 2)
		if len(kv) != 2 {
			return nil, false
		}
		v := kv[1]
		switch kv[0] {
		case "mode":
			c.mode = v
		case "out":
			c.out, _ = strconv.Atoi(v)
		case "cache":
			c.cache, _ = strconv.Atoi(v)
		case "flags":
			c.flags, _ = strconv.Atoi(v)
		case "root":
			c.root = string(unhx(v))
			if c.root == "" {
				c.root = "root"
			}
		case "lang":
			c.lang = string(unhx(v))
		case "sep":
			c.sep = string(unhx(v))
		case "roe":
			c.roe = v == "1"
		case "wf":
			c.wf = v == "1"
		case "res":
			c.res = v
		case "opt":
			for _, o := range strings.Split(v, ",") {
				c.setOpt(o)
			}
		case "node":
			p := strings.Split(v, ":")
			if len(p) != 2 {
				return nil, false
			}
			n := string(unhx(p[0]))
			if _, dup := c.nodes[n]; !dup {
				c.nodeOrd = append(c.nodeOrd, n)
				c.nodes[n] = unhx(p[1])
			}
		case "tpl", "label":
			p := strings.Split(v, ":")
			if len(p) != 3 {
				return nil, false
			}
			e := tblEntry{optL(p[0]), string(unhx(p[1])), string(unhx(p[2]))}
			if kv[0] == "tpl" {
				c.tpls = append(c.tpls, e)
			} else {
				c.labels = append(c.labels, e)
			}
		case "nolabel":
			c.nolabel[string(unhx(v))] = true
		case "ext":
			p := strings.Split(v, ":")
			if len(p) != 8 {
				return nil, false
			}
			r, ok := parseExtRest(p[3:])
			if !ok {
				return nil, false
			}
			r.sym = string(unhx(p[0]))
			r.callIdx = -1
			if p[1] != "*" {
				r.callIdx, _ = strconv.Atoi(p[1])
			}
			if p[2] != "*" {
				s := ""
				if p[2] != "-" {
					s = string(unhx(p[2]))
				}
				r.lang = &s
			}
			c.exts = append(c.exts, r)
		case "first":
			p := strings.Split(v, ":")
			if len(p) != 6 {
				return nil, false
			}
			r, ok := parseExtRest(p[1:])
			if !ok {
				return nil, false
			}
			r.callIdx = -1
			if p[0] != "*" {
				r.callIdx, _ = strconv.Atoi(p[0])
			}
			c.firsts = append(c.firsts, r)
		case "langof":
			p := strings.Split(v, ":")
			if len(p) != 2 {
				return nil, false
			}
			c.langof[string(unhx(p[0]))] = string(unhx(p[1]))
		case "in":
			c.inputs = append(c.inputs, unhx(v))
		default:
			return nil, false
		}
	}
	if c.opt("asm") && !c.buildAsm() {
		return nil, false
	}
	return c, true
}

// ---------------------------------------------------------------------------------------------
// recording resource

type lookupRec struct {
	kind, sym string
	lang      *string
}

type callRec struct {
	sym   string
	input []byte
	lang  *string
	// for oracles only (never printed): what the handler answered
	content  string
	failed   bool
	setsLang bool
	answered bool
}

type recRes struct {
	c       *eCase
	lookups []lookupRec
	calls   []callRec
	ncalls  *int              // shared across the engines of one session
	share   bool              // hand out the application's bytecode slices themselves (suite conc)
	codes   map[string][]byte // with share: the slices to hand out (with spare capacity), shared by several sessions
}

func ctxLang(ctx context.Context) *string {
	l, ok := ctx.Value("Language").(lang.Language)
	if !ok {
		return nil
	}
	s := l.Code
	return &s
}

func tblLookup(t []tblEntry, l *string, sym string) (string, bool) {
	if l != nil {
		for _, e := range t {
			if e.lang != nil && *e.lang == *l && e.sym == sym {
				return e.text, true
			}
		}
	}
	for _, e := range t {
		if e.lang == nil && e.sym == sym {
			return e.text, true
		}
	}
	return "", false
}

func (r *recRes) GetTemplate(ctx context.Context, sym string) (string, error) {
	l := ctxLang(ctx)
	r.lookups = append(r.lookups, lookupRec{"template", sym, l})
	t, ok := tblLookup(r.c.tpls, l, sym)
	if !ok {
		return "", fmt.Errorf("notpl %s", sym)
	}
	return t, nil
}

func (r *recRes) GetCode(ctx context.Context, sym string) ([]byte, error) {
	r.lookups = append(r.lookups, lookupRec{"code", sym, ctxLang(ctx)})
	b, ok := r.c.codeOf(sym)
	if !ok {
		return nil, fmt.Errorf("nocode %s", sym)
	}
	if r.share && r.codes != nil {
		return r.codes[sym], nil
	}
	if r.share {
		return b, nil
	}
	// hand out a private copy with no spare capacity: sharing is the subject of C19, not of this suite
	return append(make([]byte, 0, len(b)), b...), nil
}

func (r *recRes) GetMenu(ctx context.Context, sym string) (string, error) {
	l := ctxLang(ctx)
	if r.c.nolabel[sym] {
		return "", fmt.Errorf("nolabel %s", sym)
	}
	t, ok := tblLookup(r.c.labels, l, sym)
	if !ok {
		return sym, nil
	}
	return t, nil
}

func ruleFor(rules []extRule, sym string, n int, l *string, matchSym bool) *extRule {
	for i := range rules {
		ru := &rules[i]
		if matchSym && ru.sym != sym {
			continue
		}
		if ru.callIdx >= 0 && ru.callIdx != n {
			continue
		}
		if ru.lang != nil {
			want := *ru.lang
			have := ""
			if l != nil {
				have = *l
			}
			if (want == "") != (l == nil) || want != have {
				continue
			}
		}
		return ru
	}
	return nil
}

func (r *recRes) FuncFor(ctx context.Context, sym string) (resource.EntryFunc, error) {
	l := ctxLang(ctx)
	r.lookups = append(r.lookups, lookupRec{"func", sym, l})
	// the rule is chosen at call time by (symbol, call index, language); FuncFor fails when no rule can apply
	if ruleFor(r.c.exts, sym, *r.ncalls, l, true) == nil {
		return nil, fmt.Errorf("nofunc %s", sym)
	}
	return func(ctx context.Context, nodeSym string, input []byte) (resource.Result, error) {
		l := ctxLang(ctx)
		ru := ruleFor(r.c.exts, sym, *r.ncalls, l, true)
		var in []byte
		if input != nil {
			in = append([]byte{}, input...)
		}
		r.calls = append(r.calls, callRec{sym: sym, input: in, lang: l, content: ru.content, failed: ru.fail, answered: true})
		for _, fl := range ru.set {
			if fl == 7 {
				r.calls[len(r.calls)-1].setsLang = true
			}
		}
		isNil := input == nil
		if isNil {
			r.calls[len(r.calls)-1].input = nil
		} else if in == nil {
			r.calls[len(r.calls)-1].input = []byte{}
		}
		*r.ncalls++
		res := resource.Result{Content: ru.content, Status: ru.status, FlagSet: ru.set, FlagReset: ru.reset}
		if ru.fail {
			return res, fmt.Errorf("handler failure")
		}
		return res, nil
	}, nil
}

func (r *recRes) Close(ctx context.Context) error { return nil }

// dbResourceOK: the application can be served by the library's DbResource: every handler symbol has an
// unconditional rule (the function is registered once), labels never fail.
func (c *eCase) dbResourceOK() bool {
	if len(c.nolabel) > 0 || len(c.firsts) > 0 {
		return false
	}
	def := map[string]bool{}
	for _, r := range c.exts {
		if r.callIdx < 0 && r.lang == nil {
			def[r.sym] = true
		}
	}
	for _, r := range c.exts {
		if !def[r.sym] {
			return false
		}
	}
	for _, t := range append(append([]tblEntry{}, c.tpls...), c.labels...) {
		if t.lang != nil && c.langof[*t.lang] != *t.lang {
			return false // translations are stored under ISO codes
		}
	}
	return true
}

// resStore writes the application into a store once per served history (nil for the recording resource).
func (c *eCase) resStore() (db.Db, func()) {
	if c.res == "" {
		return nil, func() {}
	}
	ctx := context.Background()
	var store db.Db
	cleanup := func() {}
	if c.res == "dbfs" {
		dir, _ := os.MkdirTemp("", "vres-")
		cleanup = func() { os.RemoveAll(dir) }
		s := fsdb.NewFsDb()
		s.Connect(ctx, dir)
		store = s
	} else {
		s := memdb.NewMemDb()
		s.Connect(ctx, "")
		store = s
	}
	for _, t := range []uint8{db.DATATYPE_BIN, db.DATATYPE_TEMPLATE, db.DATATYPE_MENU, db.DATATYPE_STATICLOAD} {
		store.SetLock(t, false)
	}
	put := func(typ uint8, l *string, k string, v []byte) {
		store.SetPrefix(typ)
		if l != nil {
			store.SetLanguage(langObj(*l))
		} else {
			store.SetLanguage(nil)
		}
		store.Put(ctx, []byte(k), v)
	}
	for k := range c.nodes {
		b, _ := c.codeOf(k)
		put(db.DATATYPE_BIN, nil, k, b)
	}
	static := c.staticSyms()
	for _, e := range c.exts {
		if static[e.sym] {
			put(db.DATATYPE_STATICLOAD, e.lang, e.sym, []byte(e.content))
		}
	}
	for _, t := range c.tpls {
		put(db.DATATYPE_TEMPLATE, t.lang, t.sym, []byte(t.text))
	}
	for _, t := range c.labels {
		put(db.DATATYPE_MENU, t.lang, t.sym+"_menu", []byte(t.text))
	}
	store.SetLanguage(nil)
	for _, t := range []uint8{db.DATATYPE_BIN, db.DATATYPE_TEMPLATE, db.DATATYPE_MENU, db.DATATYPE_STATICLOAD} {
		store.SetLock(t, true)
	}
	return store, cleanup
}

// resourceFor builds the resource an engine of this case is served with. With res=db/dbfs the tables of the case
// are written into a store (bytecode under BIN, templates under TEMPLATE, labels under MENU as <sym>_menu,
// translations under their language) and served by resource.DbResource; handlers are registered as local functions.
// rec keeps recording the handler calls either way.
func (c *eCase) resourceFor(rec *recRes, store db.Db) resource.Resource {
	if c.res == "" || store == nil {
		return rec
	}
	rs := resource.NewDbResource(store)
	static := c.staticSyms()
	if len(static) > 0 {
		rs = rs.With(db.DATATYPE_STATICLOAD)
	}
	seen := map[string]bool{}
	for _, r := range c.exts {
		if seen[r.sym] || static[r.sym] {
			continue
		}
		seen[r.sym] = true
		sym := r.sym
		rs.AddLocalFunc(sym, func(ctx context.Context, nodeSym string, input []byte) (resource.Result, error) {
			fn, err := rec.FuncFor(ctx, sym)
			if err != nil {
				return resource.Result{}, err
			}
			return fn(ctx, nodeSym, input)
		})
	}
	return rs
}

func (r *recRes) firstFunc() resource.EntryFunc {
	if len(r.c.firsts) == 0 {
		return nil
	}
	return func(ctx context.Context, nodeSym string, input []byte) (resource.Result, error) {
		l := ctxLang(ctx)
		ru := ruleFor(r.c.firsts, "", *r.ncalls, l, false)
		var in []byte
		if input != nil {
			in = append([]byte{}, input...)
			if in == nil {
				in = []byte{}
			}
		}
		r.calls = append(r.calls, callRec{sym: "_first", input: in, lang: l})
		*r.ncalls++
		if ru == nil {
			return resource.Result{}, nil
		}
		res := resource.Result{Content: ru.content, Status: ru.status, FlagSet: ru.set, FlagReset: ru.reset}
		if ru.fail {
			return res, fmt.Errorf("handler failure")
		}
		return res, nil
	}
}

// ---------------------------------------------------------------------------------------------
// running a case

type reqRec struct {
	x     string // ok|err|panic
	cont  bool
	f     string // ok|err|panic|-
	out   []byte
	fin   string
	state string
	// for oracles
	path    []string
	idx     uint16
	flags   []byte
	calls   []callRec
	lookups []lookupRec
	caSnap  cacheSnap
	moves   uint32
	code    []byte
	lang    *string
	panicV  interface{}
}

func optB(b []byte, isNil bool) string {
	if isNil {
		return "~"
	}
	return hx(b)
}

func optS(s *string) string {
	if s == nil {
		return "~"
	}
	return hx([]byte(*s))
}

func engStateOut(st *state.State, ca *cache.Cache, calls []callRec, lookups []lookupRec) string {
	var ps []string
	for _, p := range st.ExecPath {
		ps = append(ps, hx([]byte(p)))
	}
	path := "-"
	if len(ps) > 0 {
		path = strings.Join(ps, "/")
	}
	var frames []string
	for _, m := range ca.Cache {
		var es []string
		for k, v := range m {
			es = append(es, hx([]byte(k))+"="+hx([]byte(v)))
		}
		sort.Strings(es)
		frames = append(frames, strings.Join(es, ","))
	}
	var ss []string
	for k, v := range ca.Sizes {
		ss = append(ss, fmt.Sprintf("%s=%d", hx([]byte(k)), v))
	}
	sort.Strings(ss)
	cl := "-"
	if len(calls) > 0 {
		var cs []string
		for _, c := range calls {
			cs = append(cs, hx([]byte(c.sym))+":"+optB(c.input, c.input == nil)+":"+optS(c.lang))
		}
		cl = strings.Join(cs, ",")
	}
	lk := "-"
	if len(lookups) > 0 {
		var ls []string
		for _, l := range lookups {
			ls = append(ls, l.kind+":"+hx([]byte(l.sym))+":"+optS(l.lang))
		}
		lk = strings.Join(ls, ",")
	}
	var lg *string
	if st.Language != nil {
		s := st.Language.Code
		lg = &s
	}
	return fmt.Sprintf("p=%s i=%d fl=%s cd=%s fr=%s sz=%s u=%d lv=%s cl=%s lk=%s lg=%s", path, st.SizeIdx, hx(st.Flags), hx(st.Code),
		strings.Join(frames, ";"), strings.Join(ss, ","), ca.CacheUseSize, hx([]byte(ca.LastValue)), cl, lk, optS(lg))
}

func (c *eCase) config() engine.Config {
	return engine.Config{OutputSize: uint32(c.out), CacheSize: uint32(c.cache), FlagCount: uint32(c.flags), Root: c.root,
		Language: c.lang, MenuSeparator: c.sep, ResetOnEmptyInput: c.roe}
}

// oneRequest runs Exec (+Flush unless Exec failed) under recover.
func oneRequest(en *engine.DefaultEngine, input []byte, rec *reqRec) {
	ctx := context.Background()
	rec.f = "-"
	func() {
		defer func() {
			if p := recover(); p != nil {
				rec.x = "panic"
				rec.panicV = p
			}
		}()
		cont, err := en.Exec(ctx, input)
		rec.cont = cont
		if err != nil {
			rec.x = "err"
		} else {
			rec.x = "ok"
		}
	}()
	if rec.x != "ok" {
		if rec.x == "panic" {
			rec.cont = false
		}
		return
	}
	func() {
		defer func() {
			if p := recover(); p != nil {
				rec.f = "panic"
				rec.panicV = p
			}
		}()
		w := bytes.NewBuffer(nil)
		_, err := en.Flush(ctx, w)
		if err != nil {
			rec.f = "err"
			rec.out = nil
		} else {
			rec.f = "ok"
			rec.out = w.Bytes()
		}
	}()
}

// recEngine hands an engine to engine.Loop and records what Loop does with it.
type recEngine struct {
	en       *engine.DefaultEngine
	rec      *reqRec
	finished bool
}

func (r *recEngine) Exec(ctx context.Context, in []byte) (bool, error) {
	cont, err := r.en.Exec(ctx, in)
	r.rec.cont = cont
	if err != nil {
		r.rec.x = "err"
	} else {
		r.rec.x = "ok"
	}
	return cont, err
}

func (r *recEngine) Flush(ctx context.Context, w io.Writer) (int, error) {
	b := bytes.NewBuffer(nil)
	n, err := r.en.Flush(ctx, b)
	if err != nil {
		r.rec.f = "err"
		r.rec.out = nil
	} else {
		r.rec.f = "ok"
		r.rec.out = b.Bytes()
		w.Write(b.Bytes())
	}
	return n, err
}

func (r *recEngine) Finish(ctx context.Context) error {
	r.finished = true
	err := r.en.Finish(ctx)
	if err != nil {
		r.rec.fin = "err"
	}
	return err
}

// loopRequest serves one request through engine.Loop with an exhausted reader: Exec, Flush, Finish as Loop makes them.
func loopRequest(en *engine.DefaultEngine, input []byte, rec *reqRec) {
	rec.f = "-"
	rec.fin = "ok"
	re := &recEngine{en: en, rec: rec}
	func() {
		defer func() {
			if p := recover(); p != nil {
				rec.panicV = p
				switch {
				case rec.x == "":
					rec.x, rec.cont = "panic", false
				case rec.f == "-" && !re.finished:
					rec.f = "panic"
				default:
					rec.fin = "panic"
				}
			}
		}()
		engine.Loop(context.Background(), re, strings.NewReader(""), io.Discard, input)
	}()
	if rec.x == "panic" {
		rec.cont = false
	}
}

// runCase executes the history in the case's mode (or the given override).
func (c *eCase) run(mode string) []reqRec {
	var recs []reqRec
	ncalls := 0
	cfg := c.config()
	if mode == "long" {
		if c.opt("memcap") {
			cfg.CacheSize = 0
		}
		rs := &recRes{c: c, ncalls: &ncalls}
		shadow := c.opt("shadow") && c.res == ""
		if shadow {
			rs.share = true
			rs.codes = map[string][]byte{}
			for k := range c.nodes {
				b, _ := c.codeOf(k)
				rs.codes[k] = append(make([]byte, 0, len(b)+96), b...)
			}
		}
		st := state.NewState(uint32(c.flags))
		ca := cache.NewCache()
		if c.cache > 0 {
			ca = ca.WithCacheSize(uint32(c.cache))
		}
		rstore, rclean := c.resStore()
		defer rclean()
		en := engine.NewEngine(cfg, c.resourceFor(rs, rstore)).WithState(st).WithMemory(ca)
		if f := rs.firstFunc(); f != nil {
			en = en.WithFirst(f)
		}
		stopped := false
		for _, in := range c.inputs {
			if stopped {
				recs = append(recs, reqRec{x: "stopped"})
				continue
			}
			if shadow && len(recs) >= 1 {
				c.shadowSession(rs.codes, c.inputs[:len(recs)])
			}
			rs.calls, rs.lookups = nil, nil
			rec := reqRec{}
			oneRequest(en, in, &rec)
			fillRec(&rec, st, ca, rs)
			recs = append(recs, rec)
			if rec.x == "panic" || rec.f == "panic" {
				stopped = true
			}
		}
		return recs
	}
	if mode == "ws" {
		// the client keeps the state and the cache objects itself and hands them to a NEW engine for every request
		// (WithState / WithMemory, no persister): nothing is serialised, but every request meets a fresh engine and renderer
		if c.opt("memcap") {
			cfg.CacheSize = 0
		}
		rs := &recRes{c: c, ncalls: &ncalls}
		st := state.NewState(uint32(c.flags))
		ca := cache.NewCache()
		if c.cache > 0 {
			ca = ca.WithCacheSize(uint32(c.cache))
		}
		rstore, rclean := c.resStore()
		defer rclean()
		stopped := false
		for _, in := range c.inputs {
			if stopped {
				recs = append(recs, reqRec{x: "stopped"})
				continue
			}
			en := engine.NewEngine(cfg, c.resourceFor(rs, rstore)).WithState(st).WithMemory(ca)
			if f := rs.firstFunc(); f != nil {
				en = en.WithFirst(f)
			}
			rs.calls, rs.lookups = nil, nil
			rec := reqRec{}
			oneRequest(en, in, &rec)
			fillRec(&rec, st, ca, rs)
			recs = append(recs, rec)
			if rec.x == "panic" || rec.f == "panic" {
				stopped = true
			}
		}
		return recs
	}
	ctx := context.Background()
	if mode == "lp" {
		// one long-lived engine that is given a persister (over an empty store) instead of a state and a cache
		rs := &recRes{c: c, ncalls: &ncalls}
		store := memdb.NewMemDb()
		store.Connect(ctx, "")
		pe := persist.NewPersister(store)
		rstore, rclean := c.resStore()
		defer rclean()
		en := engine.NewEngine(cfg, c.resourceFor(rs, rstore)).WithPersister(pe)
		if f := rs.firstFunc(); f != nil {
			en = en.WithFirst(f)
		}
		stopped := false
		for _, in := range c.inputs {
			if stopped {
				recs = append(recs, reqRec{x: "stopped"})
				continue
			}
			rs.calls, rs.lookups = nil, nil
			rec := reqRec{}
			oneRequest(en, in, &rec)
			st := pe.GetState()
			ca, _ := pe.GetMemory().(*cache.Cache)
			if st == nil || ca == nil {
				// refused before the engine was prepared: no session state exists yet
				rec.state = "nostate"
				rec.calls, rec.lookups = rs.calls, rs.lookups
			} else {
				fillRec(&rec, st, ca, rs)
			}
			recs = append(recs, rec)
			if rec.x == "panic" || rec.f == "panic" {
				stopped = true
			}
		}
		return recs
	}
	// persisted: a fresh engine and persister per request over one store
	store := memdb.NewMemDb()
	store.Connect(ctx, "")
	return c.runPers(store, c.inputs, &ncalls, nil)
}

// runPers serves the inputs with a fresh engine and persister per request over the given store.
// before, if not nil, is called before each request with its index.
func (c *eCase) runPers(store db.Db, inputs [][]byte, ncallsp *int, before func(i int)) []reqRec {
	var recs []reqRec
	cfg := c.config()
	ctx := context.Background()
	ncalls := *ncallsp
	defer func() { *ncallsp = ncalls }()
	rstore, rclean := c.resStore()
	defer rclean()
	if c.opt("shared") && rstore != nil {
		store = rstore // one store object holds the application and the session (as in examples/db)
	}
	stopped := false
	for ii, in := range inputs {
		if before != nil {
			before(ii)
		}
		if stopped {
			recs = append(recs, reqRec{x: "stopped"})
			continue
		}
		rs := &recRes{c: c, ncalls: &ncalls}
		pe := persist.NewPersister(store)
		if c.opt("pflush") {
			pe = pe.WithFlush()
		}
		en := engine.NewEngine(cfg, c.resourceFor(rs, rstore)).WithPersister(pe)
		if f := rs.firstFunc(); f != nil {
			en = en.WithFirst(f)
		}
		rec := reqRec{}
		if c.opt("loop") {
			loopRequest(en, in, &rec)
		} else {
			oneRequest(en, in, &rec)
			rec.fin = "ok"
			func() {
				defer func() {
					if p := recover(); p != nil {
						rec.fin = "panic"
						rec.panicV = p
					}
				}()
				if err := en.Finish(ctx); err != nil {
					rec.fin = "err"
				}
			}()
		}
		// what is observable after the request is what the store now holds for the session
		pe2 := persist.NewPersister(store).WithContent(state.NewState(uint32(c.flags)), cache.NewCache())
		if err := pe2.Load(cfg.SessionId); err == nil {
			fillRec(&rec, pe2.GetState(), pe2.GetMemory().(*cache.Cache), rs)
		} else {
			rec.state = "nostate"
			rec.calls, rec.lookups = rs.calls, rs.lookups
		}
		recs = append(recs, rec)
		if rec.x == "panic" || rec.f == "panic" || rec.fin == "panic" {
			stopped = true
		}
	}
	_ = db.DATATYPE_STATE
	return recs
}

// shadowSession serves another, independent session of the same application from the same bytecode slices: it repeats
// the given history except for the last input, where it takes another branch the pending code offers.
func (c *eCase) shadowSession(codes map[string][]byte, hist [][]byte) {
	ncalls := 0
	rs := &recRes{c: c, ncalls: &ncalls, share: true, codes: codes}
	st := state.NewState(uint32(c.flags))
	ca := cache.NewCache()
	if c.cache > 0 {
		ca = ca.WithCacheSize(uint32(c.cache))
	}
	en := engine.NewEngine(c.config(), rs).WithState(st).WithMemory(ca)
	if f := rs.firstFunc(); f != nil {
		en = en.WithFirst(f)
	}
	for i, in := range hist {
		if i == len(hist)-1 {
			alt := []byte("0")
			for _, s := range pendingSelectors(st.Code) {
				if s != string(in) {
					alt = []byte(s)
					break
				}
			}
			in = alt
		}
		rec := reqRec{}
		oneRequest(en, in, &rec)
		if rec.x == "panic" || rec.f == "panic" || (rec.x == "ok" && !rec.cont) {
			return
		}
	}
}

func fillRec(rec *reqRec, st *state.State, ca *cache.Cache, rs *recRes) {
	rec.state = engStateOut(st, ca, rs.calls, rs.lookups)
	rec.path = append([]string{}, st.ExecPath...)
	rec.idx = st.SizeIdx
	rec.flags = append([]byte{}, st.Flags...)
	rec.calls = rs.calls
	rec.lookups = rs.lookups
	rec.caSnap = snapCache(ca)
	rec.moves = st.Moves
	rec.code = append([]byte{}, st.Code...)
	if st.Language != nil {
		s := st.Language.Code
		rec.lang = &s
	}
}

func (r reqRec) line(pers bool) string {
	if r.x == "stopped" {
		return "stopped"
	}
	s := fmt.Sprintf("x=%s c=%s f=%s o=%s", r.x, b01(r.cont), r.f, hx(r.out))
	if pers {
		s += " fin=" + r.fin
	}
	if r.state == "nostate" {
		cl := "-"
		if len(r.calls) > 0 {
			var cs []string
			for _, c := range r.calls {
				cs = append(cs, hx([]byte(c.sym))+":"+optB(c.input, c.input == nil)+":"+optS(c.lang))
			}
			cl = strings.Join(cs, ",")
		}
		lk := "-"
		if len(r.lookups) > 0 {
			var ls []string
			for _, l := range r.lookups {
				ls = append(ls, l.kind+":"+hx([]byte(l.sym))+":"+optS(l.lang))
			}
			lk = strings.Join(ls, ",")
		}
		return s + " nostate cl=" + cl + " lk=" + lk
	}
	return s + " " + r.state
}

func init() {
	suites["engine"] = &Suite{
		Gen: genEngineCases,
		Exec: func(c *Ctx, line string) string {
			ec, ok := parseECase(line)
			if !ok {
				return "bad-op"
			}
			recs := ec.run(ec.mode)
			engineOracles(c, ec, recs)
			var outs []string
			for _, r := range recs {
				outs = append(outs, r.line(ec.mode == "pers"))
			}
			c.Count("mode:" + ec.mode)
			if ec.res != "" {
				c.Count("resource:" + ec.res)
			} else {
				c.Count("resource:recording")
			}
			return strings.Join(outs, " # ")
		},
	}
}
