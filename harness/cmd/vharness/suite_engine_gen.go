package main

// Generator for the engine suite: structured, mostly well-formed applications (wf=1) over a small
// node pool, plus a stream of deliberately irregular ones (wf=0), with input histories mixing the
// application's selectors, unknown selectors, empty input, junk and over-long input.

import (
	"fmt"
	"strings"

	"git.defalsify.org/vise.git/cache"
	"git.defalsify.org/vise.git/engine"
	"git.defalsify.org/vise.git/state"
)

type nodeB struct {
	code []byte
	sels []string
}

func (n *nodeB) add(i GInstr) { n.code = encodeVM(n.code, i) }

var extPool = []string{"aa", "bb", "cc", "dd", "ll"}

func genApp(c *Ctx, ec *eCase) {
	r := c.Rng
	ec.nodes = map[string][]byte{}
	ec.nolabel = map[string]bool{}
	ec.langof = map[string]string{"nor": "nor", "no": "nor", "eng": "eng", "en": "eng", "swa": "swa", "fra": "fra", "fr": "fra"}
	ec.wf = true
	ec.flags = []int{0, 2, 8, 10}[r.Intn(4)]
	userFlags := ec.flags
	flagIdx := func() uint32 {
		if userFlags == 0 {
			return uint32([]int{3, 4, 6}[r.Intn(3)])
		}
		return uint32(8 + r.Intn(userFlags))
	}
	children := []string{"foo", "bar", "baz", "lst", "fin", "die", "lng"}
	// which children exist
	var have []string
	for _, ch := range children {
		if r.Intn(10) < 7 {
			have = append(have, ch)
		}
	}
	if len(have) == 0 {
		have = []string{"foo"}
	}
	selOf := map[string]string{}
	for i, ch := range have {
		selOf[ch] = fmt.Sprintf("%d", i+1)
		if r.Intn(12) == 0 {
			selOf[ch] = []string{"a", "go", "x1", "00", "01"}[r.Intn(5)]
		}
	}
	addNode := func(name string, n *nodeB) {
		ec.nodeOrd = append(ec.nodeOrd, name)
		ec.nodes[name] = n.code
	}
	tpl := func(name, text string) { ec.tpls = append(ec.tpls, tblEntry{nil, name, text}) }
	// ---- root
	root := &nodeB{}
	rootTpl := "Root"
	if r.Intn(4) == 0 && userFlags > 0 {
		root.add(GInstr{Op: "CATCH", A: have[r.Intn(len(have))], N: flagIdx(), M: r.Intn(3) > 0})
	}
	if r.Intn(6) == 0 && userFlags > 0 {
		root.add(GInstr{Op: "CROAK", N: flagIdx(), M: true})
	}
	if r.Intn(3) == 0 {
		root.add(GInstr{Op: "LOAD", A: "aa", N: uint32([]int{0, 5, 20, 255}[r.Intn(4)])})
		if r.Intn(2) == 0 {
			root.add(GInstr{Op: "MAP", A: "aa"})
			rootTpl += " {{.aa}}"
		}
	}
	for _, ch := range have {
		root.add(GInstr{Op: "MOUT", A: ch, B: selOf[ch]})
	}
	root.add(GInstr{Op: "HALT"})
	inc := func(n *nodeB, target, sel string) {
		n.add(GInstr{Op: "INCMP", A: target, B: sel})
		n.sels = append(n.sels, sel)
	}
	wild := r.Intn(8) == 0
	wildPos := r.Intn(len(have) + 1)
	for i, ch := range have {
		if wild && i == wildPos {
			inc(root, have[r.Intn(len(have))], "*")
		}
		inc(root, ch, selOf[ch])
		if r.Intn(15) == 0 {
			// duplicate selector with another target
			inc(root, have[r.Intn(len(have))], selOf[ch])
		}
	}
	if wild && wildPos == len(have) {
		inc(root, have[0], "*")
	}
	addNode("root", root)
	tpl("root", rootTpl)
	allSels := append([]string{}, root.sels...)
	back := func(n *nodeB) {
		n.add(GInstr{Op: "MOUT", A: "back", B: "0"})
	}
	for _, ch := range have {
		n := &nodeB{}
		t := strings.ToUpper(ch[:1]) + ch[1:] + " page"
		switch ch {
		case "foo":
			// plain node with a loaded and mapped value, optional RELOAD
			n.add(GInstr{Op: "LOAD", A: "bb", N: uint32([]int{0, 8, 40}[r.Intn(3)])})
			n.add(GInstr{Op: "MAP", A: "bb"})
			t += "\n{{.bb}}"
			if r.Intn(3) == 0 {
				n.add(GInstr{Op: "RELOAD", A: "bb"})
			}
			back(n)
			n.add(GInstr{Op: "MOUT", A: "deeper", B: "5"})
			n.add(GInstr{Op: "HALT"})
			inc(n, "_", "0")
			inc(n, "sub", "5")
			if r.Intn(3) == 0 {
				inc(n, ".", "6")
			}
			if r.Intn(4) == 0 {
				inc(n, "^", "7")
			}
		case "bar":
			// node whose handler may fail (LOADFAIL -> _catch) or exceed its size
			n.add(GInstr{Op: "LOAD", A: "cc", N: uint32([]int{3, 10, 0}[r.Intn(3)])})
			if r.Intn(2) == 0 {
				n.add(GInstr{Op: "MAP", A: "cc"})
				t += " {{.cc}}"
			}
			back(n)
			n.add(GInstr{Op: "HALT"})
			inc(n, "_", "0")
			inc(n, "root", "4") // absolute descent to an existing node (not itself)
		case "baz":
			// flag setting handler, then a CATCH on the flag
			n.add(GInstr{Op: "LOAD", A: "dd", N: 10})
			if userFlags > 0 {
				n.add(GInstr{Op: "CATCH", A: "sub", N: flagIdx(), M: true})
			}
			back(n)
			n.add(GInstr{Op: "HALT"})
			inc(n, "_", "0")
			if r.Intn(2) == 0 {
				n.add(GInstr{Op: "RELOAD", A: "dd"})
				n.add(GInstr{Op: "MOVE", A: "."})
			}
		case "lst":
			// paginated sink content
			n.add(GInstr{Op: "LOAD", A: "bb", N: 0})
			n.add(GInstr{Op: "MAP", A: "bb"})
			t = "List\n{{.bb}}"
			if r.Intn(4) > 0 {
				n.add(GInstr{Op: "MNEXT", A: "nx", B: "11"})
			}
			if r.Intn(4) > 0 {
				n.add(GInstr{Op: "MPREV", A: "pv", B: "22"})
			}
			back(n)
			n.add(GInstr{Op: "HALT"})
			inc(n, ">", "11")
			inc(n, "<", "22")
			inc(n, "_", "0")
		case "fin":
			// graceful end: code runs out right after HALT
			if r.Intn(2) == 0 {
				n.add(GInstr{Op: "LOAD", A: "aa", N: 0})
			}
			n.add(GInstr{Op: "HALT"})
			t = "Bye"
		case "die":
			// abnormal end: code runs out without a HALT
			n.add(GInstr{Op: "LOAD", A: "aa", N: 30})
			t = "Dead"
		case "lng":
			// language switch
			n.add(GInstr{Op: "LOAD", A: "ll", N: 0})
			back(n)
			n.add(GInstr{Op: "HALT"})
			inc(n, "_", "0")
			t = "Lang"
			ec.tpls = append(ec.tpls, tblEntry{strp("nor"), "lng", "Spraak"}, tblEntry{strp("nor"), "root", "Rot"})
			ec.labels = append(ec.labels, tblEntry{strp("nor"), "back", "tilbake"})
		}
		addNode(ch, n)
		tpl(ch, t)
		allSels = append(allSels, n.sels...)
	}
	// sub: second level node (menu sink sometimes)
	sub := &nodeB{}
	if r.Intn(3) == 0 {
		sub.add(GInstr{Op: "MSINK"})
		sub.add(GInstr{Op: "MNEXT", A: "nx", B: "11"})
		sub.add(GInstr{Op: "MPREV", A: "pv", B: "22"})
		for i := 0; i < 3+r.Intn(5); i++ {
			sub.add(GInstr{Op: "MOUT", A: fmt.Sprintf("item%d", i), B: fmt.Sprintf("%d", i+1)})
		}
	}
	back(sub)
	sub.add(GInstr{Op: "HALT"})
	inc(sub, "_", "0")
	inc(sub, ">", "11")
	inc(sub, "<", "22")
	addNode("sub", sub)
	tpl("sub", "Sub")
	// catch node
	ct := &nodeB{}
	back(ct)
	ct.add(GInstr{Op: "HALT"})
	inc(ct, "_", "0")
	addNode("_catch", ct)
	tpl("_catch", "Oops")
	if r.Intn(10) == 0 {
		ec.labels = append(ec.labels, tblEntry{nil, "back", "go back"})
	}
	// ---- external functions
	multi := []string{"one\ntwo\nthree", "alpha\nbeta\ngamma\ndelta\nepsilon\nzeta\neta", "x", "", "l1\n\nl3\n", "row1\nrow2\nrow3\nrow4\nrow5\nrow6\nrow7\nrow8\nrow9"}
	ec.exts = append(ec.exts, extRule{sym: "aa", callIdx: -1, content: []string{"A", "aaaa", "", "0123456789abcdefghijABCDEFGHIJ"}[r.Intn(4)]})
	if r.Intn(3) == 0 {
		// result changes on a later call
		ec.exts = append([]extRule{{sym: "bb", callIdx: r.Intn(4), content: multi[r.Intn(len(multi))]}}, ec.exts...)
	}
	ec.exts = append(ec.exts, extRule{sym: "bb", callIdx: -1, content: multi[r.Intn(len(multi))]})
	ccFail := r.Intn(4) == 0
	ec.exts = append(ec.exts, extRule{sym: "cc", callIdx: -1, content: []string{"ok", "ok!", "", "ok", "toolongvalue!"}[r.Intn(5)], fail: ccFail, status: r.Intn(3)})
	var set, reset []uint32
	for i := 0; i < r.Intn(4); i++ {
		f := uint32(r.Intn(8 + userFlags))
		if r.Intn(2) == 0 {
			set = append(set, f)
		} else {
			reset = append(reset, f)
		}
	}
	if r.Intn(12) == 0 {
		set = append(set, 6) // TERMINATE
	}
	ec.exts = append(ec.exts, extRule{sym: "dd", callIdx: -1, content: "D", set: set, reset: reset})
	ec.exts = append(ec.exts, extRule{sym: "ll", callIdx: -1, content: []string{"nor", "no", "zzzz", "", "fra"}[r.Intn(5)], set: []uint32{7}})
	_ = allSels
}

var junkInputs = [][]byte{[]byte(""), []byte("x"), []byte("!bad"), []byte("1\n2"), []byte("+1"), []byte(" 1"), []byte("99"), {0xff, 0x31},
	[]byte(strings.Repeat("7", 300)), []byte(strings.Repeat("a", 255)), []byte(strings.Repeat("a", 256)), []byte("0"), []byte("*"), []byte("_"), []byte("<"),
	[]byte("11"), []byte("22"), []byte("5")}

// pendingSelectors lists the selectors of all INCMP instructions in pending bytecode.
func pendingSelectors(code []byte) []string {
	var r []string
	b := code
	for len(b) >= 2 {
		s, rest, err, p := decodeStep(b)
		if err != nil || p != nil {
			break
		}
		if strings.HasPrefix(s, "INCMP:") {
			f := strings.Split(s, ":")
			sel := string(unhx(f[2]))
			if sel != "*" {
				r = append(r, sel)
			}
		}
		b = rest
	}
	return r
}

// adaptiveInputs builds the input history by stepping the real engine: at each step it mostly picks a
// selector the pending bytecode accepts, sometimes junk, a refused input or an unknown selector.
// After the session ends it adds a few more requests (meaningful in persisted mode).
func adaptiveInputs(c *Ctx, ec *eCase) {
	r := c.Rng
	n := 3 + r.Intn(14)
	if r.Intn(10) == 0 {
		n = 20 + r.Intn(30)
	}
	ncalls := 0
	rs := &recRes{c: ec, ncalls: &ncalls}
	st := state.NewState(uint32(ec.flags))
	ca := cache.NewCache()
	if ec.cache > 0 {
		ca = ca.WithCacheSize(uint32(ec.cache))
	}
	en := engine.NewEngine(ec.config(), rs).WithState(st).WithMemory(ca)
	if f := rs.firstFunc(); f != nil {
		en = en.WithFirst(f)
	}
	ec.inputs = nil
	tail := -1
	for i := 0; i < n; i++ {
		var in []byte
		sels := pendingSelectors(st.Code)
		switch {
		case i == 0:
			in = []byte("")
			if r.Intn(10) == 0 {
				in = junkInputs[r.Intn(len(junkInputs))]
			}
		case tail >= 0 || len(sels) == 0 || r.Intn(6) == 0:
			in = junkInputs[r.Intn(len(junkInputs))]
		default:
			in = []byte(sels[r.Intn(len(sels))])
		}
		ec.inputs = append(ec.inputs, in)
		if tail >= 0 {
			tail--
			if tail < 0 {
				break
			}
			continue
		}
		rec := reqRec{}
		oneRequest(en, in, &rec)
		if rec.x == "panic" || rec.f == "panic" {
			break
		}
		if (rec.x == "ok" && !rec.cont) || (rec.x == "err" && !refusedInput(in)) {
			// the session ended (or broke): a short tail of further requests
			tail = r.Intn(4)
			if tail == 0 {
				break
			}
			tail--
		}
	}
}

func strp(s string) *string { return &s }

func genEngineCases(c *Ctx) []string {
	var ls []string
	ls = append(ls, genScenarioCases(c, c.Pick(120, 2400))...)
	n := c.Pick(400, 8000)
	for i := 0; i < n; i++ {
		ec := &eCase{mode: "long", root: "root"}
		genApp(c, ec)
		ec.out = []int{0, 0, 0, 160, 160, 90, 60, 40, 25, 12}[c.Rng.Intn(10)]
		ec.cache = []int{0, 0, 0, 100, 30}[c.Rng.Intn(5)]
		if c.Rng.Intn(8) == 0 {
			ec.lang = []string{"nor", "eng", "xx"}[c.Rng.Intn(3)]
		}
		if c.Rng.Intn(15) == 0 {
			ec.sep = ") "
		}
		if c.Rng.Intn(15) == 0 {
			ec.roe = true
		}
		if c.Rng.Intn(12) == 0 {
			// engine `first` function
			var set []uint32
			if c.Rng.Intn(3) == 0 {
				set = []uint32{6}
			}
			ec.firsts = []extRule{{callIdx: -1, content: []string{"", "hello", "blocked"}[c.Rng.Intn(3)], set: set}}
		}
		if c.Rng.Intn(12) == 0 {
			// irregular application: a dangling target or a missing template
			ec.wf = false
			switch c.Rng.Intn(3) {
			case 0:
				delete(ec.nodes, "sub")
				var ord []string
				for _, x := range ec.nodeOrd {
					if x != "sub" {
						ord = append(ord, x)
					}
				}
				ec.nodeOrd = ord
			case 1:
				var t []tblEntry
				for _, e := range ec.tpls {
					if e.sym != "foo" {
						t = append(t, e)
					}
				}
				ec.tpls = t
			case 2:
				ec.nolabel["back"] = true
			}
		}
		adaptiveInputs(c, ec)
		if c.Rng.Intn(5) == 0 && ec.wf && ec.dbResourceOK() {
			ec.res = []string{"db", "dbfs"}[c.Rng.Intn(2)]
		}
		// the same history in both modes
		ec.mode = "long"
		ls = append(ls, ec.String())
		ec.mode = "pers"
		ls = append(ls, ec.String())
	}
	return ls
}

// ---- scenario applications: small hand-shaped families aimed at behaviour the random pool reaches rarely ----

func newScenario(flags int) *eCase {
	return &eCase{mode: "long", root: "root", wf: true, flags: flags, nodes: map[string][]byte{}, nolabel: map[string]bool{},
		langof: map[string]string{"nor": "nor", "no": "nor", "eng": "eng", "en": "eng", "swa": "swa", "fra": "fra", "fr": "fra"}}
}

func (ec *eCase) node(name, tpl string, is ...GInstr) {
	var b []byte
	for _, i := range is {
		b = encodeVM(b, i)
	}
	ec.nodeOrd = append(ec.nodeOrd, name)
	ec.nodes[name] = b
	ec.tpls = append(ec.tpls, tblEntry{nil, name, tpl})
}

func (ec *eCase) catchNode() {
	ec.node("_catch", "Oops", GInstr{Op: "MOUT", A: "back", B: "0"}, GInstr{Op: "HALT"}, GInstr{Op: "INCMP", A: "_", B: "0"})
}

func ins(ss ...string) [][]byte {
	var r [][]byte
	for _, s := range ss {
		r = append(r, []byte(s))
	}
	return r
}

// deep chain: navigation depth and symbol count beyond 16, ascents, top, re-descent
func scenDeep(c *Ctx) *eCase {
	r := c.Rng
	ec := newScenario(0)
	depth := 3 + r.Intn(20)
	name := func(k int) string {
		if k == 0 {
			return "root"
		}
		return fmt.Sprintf("n%02d", k)
	}
	many := r.Intn(depth)
	for k := 0; k <= depth; k++ {
		var is []GInstr
		tp := fmt.Sprintf("level %d", k)
		nsym := 1
		if k == many {
			nsym = 1 + r.Intn(20)
		}
		for s := 0; s < nsym; s++ {
			sym := fmt.Sprintf("v%d_%d", k, s)
			is = append(is, GInstr{Op: "LOAD", A: sym, N: 0})
			ec.exts = append(ec.exts, extRule{sym: sym, callIdx: -1, content: fmt.Sprintf("%d.%d", k, s)})
			if s == 0 {
				is = append(is, GInstr{Op: "MAP", A: sym})
				tp += " {{." + sym + "}}"
			}
		}
		if k < depth {
			is = append(is, GInstr{Op: "MOUT", A: "next", B: "1"})
		}
		is = append(is, GInstr{Op: "MOUT", A: "back", B: "0"}, GInstr{Op: "MOUT", A: "top", B: "9"}, GInstr{Op: "HALT"})
		if k < depth {
			is = append(is, GInstr{Op: "INCMP", A: name(k + 1), B: "1"})
		}
		is = append(is, GInstr{Op: "INCMP", A: "_", B: "0"}, GInstr{Op: "INCMP", A: "^", B: "9"})
		ec.node(name(k), tp, is...)
	}
	ec.catchNode()
	ec.inputs = ins("")
	for k := 0; k < depth; k++ {
		ec.inputs = append(ec.inputs, []byte("1"))
	}
	for k := 0; k < 2+r.Intn(4); k++ {
		ec.inputs = append(ec.inputs, []byte([]string{"0", "0", "9", "1", "x"}[r.Intn(5)]))
	}
	return ec
}

// multi-byte text in templates, labels and loaded values, at output sizes around the page length
func scenUtf8(c *Ctx) *eCase {
	r := c.Rng
	ec := newScenario(0)
	words := []string{"Größe", "wählen", "größer", "kürzer", "äöüß", "€€€€€", "日本語", "naïve", "ok", "plain", "Ünï"}
	w := func() string { return words[r.Intn(len(words))] }
	ec.node("root", w()+" "+w()+": {{.val}}",
		GInstr{Op: "LOAD", A: "val", N: 0}, GInstr{Op: "MAP", A: "val"}, GInstr{Op: "MOUT", A: "go", B: "1"}, GInstr{Op: "MOUT", A: "lst", B: "2"}, GInstr{Op: "HALT"},
		GInstr{Op: "INCMP", A: "foo", B: "1"}, GInstr{Op: "INCMP", A: "lst", B: "2"})
	ec.node("foo", w()+"\n"+w()+" "+w(), GInstr{Op: "MOUT", A: "back", B: "0"}, GInstr{Op: "HALT"}, GInstr{Op: "INCMP", A: "_", B: "0"})
	ec.node("lst", w()+"\n{{.rows}}", GInstr{Op: "LOAD", A: "rows", N: 0}, GInstr{Op: "MAP", A: "rows"}, GInstr{Op: "MNEXT", A: "nx", B: "11"}, GInstr{Op: "MPREV", A: "pv", B: "22"},
		GInstr{Op: "MOUT", A: "back", B: "0"}, GInstr{Op: "HALT"}, GInstr{Op: "INCMP", A: ">", B: "11"}, GInstr{Op: "INCMP", A: "<", B: "22"}, GInstr{Op: "INCMP", A: "_", B: "0"})
	ec.catchNode()
	var rows []string
	for i := 0; i < 3+r.Intn(8); i++ {
		rows = append(rows, w()+" "+w())
	}
	ec.exts = append(ec.exts, extRule{sym: "val", callIdx: -1, content: w() + w()}, extRule{sym: "rows", callIdx: -1, content: strings.Join(rows, "\n")})
	ec.labels = append(ec.labels, tblEntry{nil, "go", w()}, tblEntry{nil, "back", w()}, tblEntry{nil, "nx", w()}, tblEntry{nil, "pv", w()})
	natural := len(ec.tpls[0].text) + 10
	ec.out = []int{0, natural - 8 + r.Intn(40), 30 + r.Intn(60), 48, 64}[r.Intn(5)]
	ec.inputs = ins("", "1", "0", "2", "11", "11", "22", "0", "zzz")
	return ec
}

// CROAK and CATCH placed in the input-handling part of a node, flags set by a handler
func scenCroak(c *Ctx) *eCase {
	r := c.Rng
	ec := newScenario(4)
	fl := uint32(8 + r.Intn(4))
	mode := r.Intn(2) == 0
	pre := []GInstr{GInstr{Op: "LOAD", A: "setter", N: 0}, GInstr{Op: "MOUT", A: "one", B: "1"}, GInstr{Op: "MOUT", A: "two", B: "2"}, GInstr{Op: "HALT"}}
	var post []GInstr
	post = append(post, GInstr{Op: "INCMP", A: "foo", B: "1"})
	switch r.Intn(3) {
	case 0:
		post = append(post, GInstr{Op: "CROAK", N: fl, M: mode}, GInstr{Op: "INCMP", A: "bar", B: "2"})
	case 1:
		post = append(post, GInstr{Op: "CATCH", A: "bar", N: fl, M: mode}, GInstr{Op: "INCMP", A: "bar", B: "2"})
	default:
		post = append(post, GInstr{Op: "INCMP", A: "bar", B: "2"}, GInstr{Op: "CROAK", N: fl, M: mode}, GInstr{Op: "HALT"})
	}
	ec.node("root", "Root", append(pre, post...)...)
	ec.node("foo", "Foo", GInstr{Op: "MOUT", A: "back", B: "0"}, GInstr{Op: "HALT"}, GInstr{Op: "INCMP", A: "_", B: "0"})
	ec.node("bar", "Bar", GInstr{Op: "MOUT", A: "back", B: "0"}, GInstr{Op: "HALT"}, GInstr{Op: "INCMP", A: "_", B: "0"})
	ec.catchNode()
	var set []uint32
	if r.Intn(2) == 0 {
		set = []uint32{fl}
	}
	ec.exts = append(ec.exts, extRule{sym: "setter", callIdx: -1, content: "s", set: set})
	ec.inputs = ins("", []string{"1", "2", "3", "x"}[r.Intn(4)], []string{"0", "1", "2", ""}[r.Intn(4)], []string{"0", "1", "2"}[r.Intn(3)], "2", "0")
	return ec
}

// language selected by a handler, then language-dependent lookups in the same run and in later requests
func scenLang(c *Ctx) *eCase {
	r := c.Rng
	ec := newScenario(0)
	code := []string{"nor", "no", "fra", "eng", "en", "zzzz", ""}[r.Intn(7)]
	ec.node("root", "Welcome", GInstr{Op: "MOUT", A: "pick", B: "1"}, GInstr{Op: "MOUT", A: "show", B: "2"}, GInstr{Op: "HALT"},
		GInstr{Op: "INCMP", A: "pick", B: "1"}, GInstr{Op: "INCMP", A: "show", B: "2"})
	ec.node("pick", "Picked {{.greet}}", GInstr{Op: "LOAD", A: "setlang", N: 0}, GInstr{Op: "LOAD", A: "greet", N: 0}, GInstr{Op: "MAP", A: "greet"},
		GInstr{Op: "MOUT", A: "back", B: "0"}, GInstr{Op: "HALT"}, GInstr{Op: "INCMP", A: "_", B: "0"})
	ec.node("show", "Show {{.greet2}}", GInstr{Op: "LOAD", A: "greet2", N: 0}, GInstr{Op: "MAP", A: "greet2"},
		GInstr{Op: "MOUT", A: "back", B: "0"}, GInstr{Op: "HALT"}, GInstr{Op: "INCMP", A: "_", B: "0"})
	ec.catchNode()
	for _, l := range []string{"nor", "fra", "eng"} {
		ec.tpls = append(ec.tpls, tblEntry{strp(l), "pick", "[" + l + "] {{.greet}}"}, tblEntry{strp(l), "root", "[" + l + "] root"}, tblEntry{strp(l), "show", "[" + l + "] {{.greet2}}"})
		ec.labels = append(ec.labels, tblEntry{strp(l), "back", "back-" + l})
		ec.exts = append(ec.exts, extRule{sym: "greet", callIdx: -1, lang: strp(l), content: "hello-" + l}, extRule{sym: "greet2", callIdx: -1, lang: strp(l), content: "again-" + l})
	}
	ec.exts = append(ec.exts, extRule{sym: "greet", callIdx: -1, content: "hello-default"}, extRule{sym: "greet2", callIdx: -1, content: "again-default"},
		extRule{sym: "setlang", callIdx: -1, content: code, set: []uint32{7}})
	if r.Intn(4) == 0 {
		ec.lang = []string{"nor", "eng", "fra"}[r.Intn(3)]
	}
	ec.inputs = ins("", "1", "0", "2", "0", "1")
	return ec
}

// a small cache and a RELOAD whose result grows and shrinks across calls
func scenReload(c *Ctx) *eCase {
	r := c.Rng
	ec := newScenario(0)
	ec.cache = []int{16, 32, 40}[r.Intn(3)]
	ec.node("root", "Root {{.note}}", GInstr{Op: "LOAD", A: "note", N: uint32([]int{0, 50}[r.Intn(2)])}, GInstr{Op: "MAP", A: "note"}, GInstr{Op: "MOUT", A: "go", B: "1"}, GInstr{Op: "HALT"},
		GInstr{Op: "INCMP", A: "edit", B: "1"})
	ec.node("edit", "Edit {{.name}}", GInstr{Op: "LOAD", A: "name", N: uint32([]int{0, 60}[r.Intn(2)])}, GInstr{Op: "MAP", A: "name"}, GInstr{Op: "MOUT", A: "again", B: "5"}, GInstr{Op: "MOUT", A: "back", B: "0"},
		GInstr{Op: "HALT"}, GInstr{Op: "INCMP", A: "_", B: "0"}, GInstr{Op: "RELOAD", A: "name"}, GInstr{Op: "RELOAD", A: "note"}, GInstr{Op: "MOVE", A: "."})
	ec.catchNode()
	sizes := []int{5, 3, 40, 3, 0, 12, 70, 1}
	ec.exts = append(ec.exts, extRule{sym: "note", callIdx: -1, content: "nb"})
	for i := 0; i < 12; i++ {
		ec.exts = append([]extRule{{sym: "name", callIdx: i, content: strings.Repeat("x", sizes[r.Intn(len(sizes))])}}, ec.exts...)
	}
	ec.exts = append(ec.exts, extRule{sym: "name", callIdx: -1, content: "bob"})
	ec.inputs = ins("", "1", "5", "5", "5", "0", "1", "5", "0", "1")
	return ec
}

// values and rows with leading/trailing blanks and newlines (trimming must not touch content)
func scenBlanks(c *Ctx) *eCase {
	r := c.Rng
	ec := newScenario(0)
	vals := []string{"  1 apple", " 12 mango ", "tail\n", "Karibu!\nYour balance is 42\n", "\tTabbed", " ", "a \n b\n", "x"}
	v := func() string { return vals[r.Intn(len(vals))] }
	var rows []string
	for i := 0; i < 4+r.Intn(10); i++ {
		rows = append(rows, fmt.Sprintf("%3d %s", i+1, []string{"apple", "banana", "cherry ", " date", "elderberry"}[r.Intn(5)]))
	}
	ec.node("root", "Top {{.msg}}", GInstr{Op: "LOAD", A: "msg", N: 0}, GInstr{Op: "MAP", A: "msg"}, GInstr{Op: "MOUT", A: "lst", B: "1"}, GInstr{Op: "HALT"}, GInstr{Op: "INCMP", A: "lst", B: "1"})
	ec.node("lst", "fruit\n{{.rows}}", GInstr{Op: "LOAD", A: "rows", N: 0}, GInstr{Op: "MAP", A: "rows"}, GInstr{Op: "MNEXT", A: "nx", B: "11"}, GInstr{Op: "MPREV", A: "pv", B: "22"},
		GInstr{Op: "MOUT", A: "back", B: "0"}, GInstr{Op: "MOUT", A: "detail", B: "3"}, GInstr{Op: "HALT"}, GInstr{Op: "INCMP", A: ">", B: "11"}, GInstr{Op: "INCMP", A: "<", B: "22"}, GInstr{Op: "INCMP", A: "_", B: "0"},
		GInstr{Op: "INCMP", A: "detail", B: "3"})
	ec.node("detail", "Detail", GInstr{Op: "MOUT", A: "back", B: "0"}, GInstr{Op: "MOUT", A: "top", B: "9"}, GInstr{Op: "HALT"}, GInstr{Op: "INCMP", A: "_", B: "0"}, GInstr{Op: "INCMP", A: "^", B: "9"})
	ec.catchNode()
	ec.exts = append(ec.exts, extRule{sym: "msg", callIdx: -1, content: v()}, extRule{sym: "rows", callIdx: -1, content: strings.Join(rows, "\n")})
	ec.out = []int{0, 60, 80, 90, 120}[r.Intn(5)]
	ec.inputs = ins("", "1", "11", []string{"11", "3"}[r.Intn(2)], "3", "0", "22", "11", "0", "1")
	return ec
}

// the last loaded value of every request ends in a newline (the persisted record then ends in it)
func scenNewlineLast(c *Ctx) *eCase {
	r := c.Rng
	ec := newScenario(0)
	ec.node("root", "Hi {{.msg}}", GInstr{Op: "LOAD", A: "msg", N: 0}, GInstr{Op: "MAP", A: "msg"}, GInstr{Op: "MOUT", A: "go", B: "1"}, GInstr{Op: "HALT"}, GInstr{Op: "INCMP", A: "mid", B: "1"})
	ec.node("mid", "Mid {{.bal}}", GInstr{Op: "LOAD", A: "bal", N: 0}, GInstr{Op: "MAP", A: "bal"}, GInstr{Op: "MOUT", A: "go", B: "1"}, GInstr{Op: "MOUT", A: "back", B: "0"}, GInstr{Op: "HALT"},
		GInstr{Op: "INCMP", A: "deep", B: "1"}, GInstr{Op: "INCMP", A: "_", B: "0"})
	ec.node("deep", "Deep {{.fin}}", GInstr{Op: "LOAD", A: "fin", N: 0}, GInstr{Op: "MAP", A: "fin"}, GInstr{Op: "MOUT", A: "back", B: "0"}, GInstr{Op: "HALT"}, GInstr{Op: "INCMP", A: "_", B: "0"})
	ec.catchNode()
	nl := []string{"\n", "\n", "\n\n", " \n"}
	ec.exts = append(ec.exts, extRule{sym: "msg", callIdx: -1, content: "Karibu!" + nl[r.Intn(4)]}, extRule{sym: "bal", callIdx: -1, content: "Your balance is 42" + nl[r.Intn(4)]},
		extRule{sym: "fin", callIdx: -1, content: "done" + nl[r.Intn(4)]})
	ec.inputs = ins("", "1", "1", "0", "0", "1")
	return ec
}

var scenarios = []func(*Ctx) *eCase{scenNewlineLast, scenDeep, scenUtf8, scenCroak, scenLang, scenReload, scenBlanks}

func genScenarioCases(c *Ctx, n int) []string {
	var ls []string
	for i := 0; i < n; i++ {
		ec := scenarios[i%len(scenarios)](c)
		// every third scenario is served through the library's DbResource (mem or fs store) instead of the recording one
		if i%3 == 2 && ec.dbResourceOK() {
			ec.res = []string{"db", "dbfs"}[c.Rng.Intn(2)]
		}
		ec.mode = "long"
		ls = append(ls, ec.String())
		ec.mode = "pers"
		ls = append(ls, ec.String())
	}
	return ls
}
