package main

// Generator for the engine suite: structured, mostly well-formed applications (wf=1) over a small
// node pool, plus a stream of deliberately irregular ones (wf=0), with input histories mixing the
// application's selectors, unknown selectors, empty input, junk and over-long input.

import (
	"fmt"
	"strings"

	"git.defalsify.org/vise.git/cache"
	"git.defalsify.org/vise.git/engine"
	"git.defalsify.org/vise.git/state"
)

type nodeB struct {
	code []byte
	sels []string
}

func (n *nodeB) add(i GInstr) { n.code = encodeVM(n.code, i) }

var extPool = []string{"aa", "bb", "cc", "dd", "ll"}

// isoTable: the ISO-639 codes the cases use (part 1, part 3 and the part 2 bibliographic variants) with their part 3 code
func isoTable() map[string]string {
	return map[string]string{"nor": "nor", "no": "nor", "eng": "eng", "en": "eng", "swa": "swa", "sw": "swa", "fra": "fra", "fr": "fra", "fre": "fra",
		"deu": "deu", "de": "deu", "ger": "deu"}
}

func genApp(c *Ctx, ec *eCase) {
	r := c.Rng
	ec.nodes = map[string][]byte{}
	ec.nolabel = map[string]bool{}
	ec.langof = isoTable()
	ec.wf = true
	ec.flags = []int{0, 2, 8, 10}[r.Intn(4)]
	userFlags := ec.flags
	flagIdx := func() uint32 {
		if userFlags == 0 {
			return uint32([]int{3, 4, 6}[r.Intn(3)])
		}
		return uint32(8 + r.Intn(userFlags))
	}
	children := []string{"foo", "bar", "baz", "lst", "fin", "die", "lng"}
	// which children exist
	var have []string
	for _, ch := range children {
		if r.Intn(10) < 7 {
			have = append(have, ch)
		}
	}
	if len(have) == 0 {
		have = []string{"foo"}
	}
	selOf := map[string]string{}
	for i, ch := range have {
		selOf[ch] = fmt.Sprintf("%d", i+1)
		if r.Intn(8) == 0 {
			selOf[ch] = []string{"a", "go", "x1", "00", "01", "y", "A", "n"}[r.Intn(8)]
		}
	}
	addNode := func(name string, n *nodeB) {
		ec.nodeOrd = append(ec.nodeOrd, name)
		ec.nodes[name] = n.code
	}
	tpl := func(name, text string) { ec.tpls = append(ec.tpls, tblEntry{nil, name, text}) }
	// ---- root
	root := &nodeB{}
	rootTpl := "Root"
	rootCatch := false
	if r.Intn(4) == 0 && userFlags > 0 {
		root.add(GInstr{Op: "CATCH", A: have[r.Intn(len(have))], N: flagIdx(), M: r.Intn(3) > 0})
		rootCatch = true
	}
	if r.Intn(6) == 0 && userFlags > 0 {
		root.add(GInstr{Op: "CROAK", N: flagIdx(), M: true})
	}
	if r.Intn(3) == 0 {
		root.add(GInstr{Op: "LOAD", A: "aa", N: uint32([]int{0, 5, 20, 255}[r.Intn(4)])})
		if r.Intn(2) == 0 {
			root.add(GInstr{Op: "MAP", A: "aa"})
			rootTpl += " {{.aa}}"
		}
	}
	for _, ch := range have {
		root.add(GInstr{Op: "MOUT", A: ch, B: selOf[ch]})
	}
	root.add(GInstr{Op: "HALT"})
	inc := func(n *nodeB, target, sel string) {
		n.add(GInstr{Op: "INCMP", A: target, B: sel})
		n.sels = append(n.sels, sel)
	}
	wild := r.Intn(8) == 0
	wildPos := r.Intn(len(have) + 1)
	for i, ch := range have {
		if wild && i == wildPos {
			inc(root, have[r.Intn(len(have))], "*")
		}
		inc(root, ch, selOf[ch])
		if r.Intn(15) == 0 {
			// duplicate selector with another target
			inc(root, have[r.Intn(len(have))], selOf[ch])
		}
	}
	if wild && wildPos == len(have) {
		inc(root, have[0], "*")
	}
	addNode("root", root)
	tpl("root", rootTpl)
	allSels := append([]string{}, root.sels...)
	back := func(n *nodeB) {
		n.add(GInstr{Op: "MOUT", A: "back", B: "0"})
	}
	for _, ch := range have {
		n := &nodeB{}
		t := strings.ToUpper(ch[:1]) + ch[1:] + " page"
		switch ch {
		case "foo":
			// plain node with a loaded and mapped value, optional RELOAD
			n.add(GInstr{Op: "LOAD", A: "bb", N: uint32([]int{0, 8, 40}[r.Intn(3)])})
			n.add(GInstr{Op: "MAP", A: "bb"})
			t += "\n{{.bb}}"
			if r.Intn(3) == 0 {
				n.add(GInstr{Op: "RELOAD", A: "bb"})
			}
			back(n)
			n.add(GInstr{Op: "MOUT", A: "deeper", B: "5"})
			n.add(GInstr{Op: "HALT"})
			inc(n, "_", "0")
			inc(n, "sub", "5")
			if r.Intn(3) == 0 {
				inc(n, ".", "6")
			}
			if r.Intn(4) == 0 {
				inc(n, "^", "7")
			}
		case "bar":
			// node whose handler may fail (LOADFAIL -> _catch) or exceed its size
			n.add(GInstr{Op: "LOAD", A: "cc", N: uint32([]int{3, 10, 0}[r.Intn(3)])})
			if r.Intn(2) == 0 {
				n.add(GInstr{Op: "MAP", A: "cc"})
				t += " {{.cc}}"
			}
			back(n)
			n.add(GInstr{Op: "HALT"})
			inc(n, "_", "0")
			inc(n, "root", "4") // absolute descent to an existing node (not itself)
		case "baz":
			// flag setting handler, then a CATCH on the flag
			n.add(GInstr{Op: "LOAD", A: "dd", N: 10})
			if userFlags > 0 {
				tgt := "sub"
				if !rootCatch && r.Intn(3) == 0 {
					// relative targets (the root has no CATCH of its own, so this cannot loop)
					tgt = []string{"_", "^"}[r.Intn(2)]
				}
				n.add(GInstr{Op: "CATCH", A: tgt, N: flagIdx(), M: true})
			}
			back(n)
			n.add(GInstr{Op: "HALT"})
			inc(n, "_", "0")
			if r.Intn(2) == 0 {
				n.add(GInstr{Op: "RELOAD", A: "dd"})
				n.add(GInstr{Op: "MOVE", A: "."})
			}
		case "lst":
			// paginated sink content
			n.add(GInstr{Op: "LOAD", A: "bb", N: 0})
			n.add(GInstr{Op: "MAP", A: "bb"})
			t = "List\n{{.bb}}"
			if r.Intn(4) > 0 {
				n.add(GInstr{Op: "MNEXT", A: "nx", B: "11"})
			}
			if r.Intn(4) > 0 {
				n.add(GInstr{Op: "MPREV", A: "pv", B: "22"})
			}
			back(n)
			n.add(GInstr{Op: "HALT"})
			for _, k := range r.Perm(3) {
				inc(n, []string{">", "<", "_"}[k], []string{"11", "22", "0"}[k])
			}
		case "fin":
			// graceful end: code runs out right after HALT
			if r.Intn(2) == 0 {
				n.add(GInstr{Op: "LOAD", A: "aa", N: 0})
			}
			n.add(GInstr{Op: "HALT"})
			t = "Bye"
		case "die":
			// abnormal end: code runs out without a HALT
			n.add(GInstr{Op: "LOAD", A: "aa", N: 30})
			t = "Dead"
		case "lng":
			// language switch
			n.add(GInstr{Op: "LOAD", A: "ll", N: 0})
			back(n)
			n.add(GInstr{Op: "HALT"})
			inc(n, "_", "0")
			t = "Lang"
			ec.tpls = append(ec.tpls, tblEntry{strp("nor"), "lng", "Spraak"}, tblEntry{strp("nor"), "root", "Rot"})
			ec.labels = append(ec.labels, tblEntry{strp("nor"), "back", "tilbake"})
		}
		addNode(ch, n)
		tpl(ch, t)
		allSels = append(allSels, n.sels...)
	}
	// sub: second level node (menu sink sometimes)
	sub := &nodeB{}
	if r.Intn(3) == 0 {
		sub.add(GInstr{Op: "MSINK"})
		sub.add(GInstr{Op: "MNEXT", A: "nx", B: "11"})
		sub.add(GInstr{Op: "MPREV", A: "pv", B: "22"})
		for i := 0; i < 3+r.Intn(5); i++ {
			sub.add(GInstr{Op: "MOUT", A: fmt.Sprintf("item%d", i), B: fmt.Sprintf("%d", i+1)})
		}
	}
	back(sub)
	sub.add(GInstr{Op: "HALT"})
	for _, k := range r.Perm(3) {
		inc(sub, []string{"_", ">", "<"}[k], []string{"0", "11", "22"}[k])
	}
	addNode("sub", sub)
	tpl("sub", "Sub")
	// catch node
	ct := &nodeB{}
	back(ct)
	ct.add(GInstr{Op: "HALT"})
	inc(ct, "_", "0")
	addNode("_catch", ct)
	tpl("_catch", "Oops")
	if r.Intn(10) == 0 {
		ec.labels = append(ec.labels, tblEntry{nil, "back", "go back"})
	}
	// ---- external functions
	multi := []string{"one\ntwo\nthree", "alpha\nbeta\ngamma\ndelta\nepsilon\nzeta\neta", "x", "", "l1\n\nl3\n", "row1\nrow2\nrow3\nrow4\nrow5\nrow6\nrow7\nrow8\nrow9"}
	ec.exts = append(ec.exts, extRule{sym: "aa", callIdx: -1, content: []string{"A", "aaaa", "", "0123456789abcdefghijABCDEFGHIJ"}[r.Intn(4)]})
	if r.Intn(3) == 0 {
		// result changes on a later call
		ec.exts = append([]extRule{{sym: "bb", callIdx: r.Intn(4), content: multi[r.Intn(len(multi))]}}, ec.exts...)
	}
	ec.exts = append(ec.exts, extRule{sym: "bb", callIdx: -1, content: multi[r.Intn(len(multi))]})
	ccFail := r.Intn(4) == 0
	ec.exts = append(ec.exts, extRule{sym: "cc", callIdx: -1, content: []string{"ok", "ok!", "", "ok", "toolongvalue!"}[r.Intn(5)], fail: ccFail, status: r.Intn(3)})
	var set, reset []uint32
	for i := 0; i < r.Intn(4); i++ {
		f := uint32(r.Intn(8 + userFlags))
		if r.Intn(2) == 0 {
			set = append(set, f)
		} else {
			reset = append(reset, f)
		}
	}
	if r.Intn(12) == 0 {
		set = append(set, 6) // TERMINATE
	}
	ec.exts = append(ec.exts, extRule{sym: "dd", callIdx: -1, content: "D", set: set, reset: reset})
	ec.exts = append(ec.exts, extRule{sym: "ll", callIdx: -1, content: []string{"nor", "no", "zzzz", "", "fra", "ger", "fre", "de"}[r.Intn(8)], set: []uint32{7}})
	if r.Intn(2) == 0 {
		ec.tpls = append(ec.tpls, tblEntry{strp("deu"), "root", "Wurzel"}, tblEntry{strp("fra"), "root", "Racine"})
		ec.labels = append(ec.labels, tblEntry{strp("deu"), "back", "zurueck"})
	}
	_ = allSels
}

var junkInputs = [][]byte{[]byte(""), []byte("x"), []byte("!bad"), []byte("1\n2"), []byte("+1"), []byte(" 1"), []byte("99"), {0xff, 0x31},
	[]byte(strings.Repeat("7", 300)), []byte(strings.Repeat("a", 255)), []byte(strings.Repeat("a", 256)), []byte("0"), []byte("*"), []byte("_"), []byte("<"),
	[]byte("11"), []byte("22"), []byte("5"), []byte("a{{"), []byte("1{{.aa}}"), []byte("x{{printf \"%9d\" 1}}y"), []byte("7}}{{")}

// pendingSelectors lists the selectors of all INCMP instructions in pending bytecode.
func pendingSelectors(code []byte) []string {
	var r []string
	b := code
	for len(b) >= 2 {
		s, rest, err, p := decodeStep(b)
		if err != nil || p != nil {
			break
		}
		if strings.HasPrefix(s, "INCMP:") {
			f := strings.Split(s, ":")
			sel := string(unhx(f[2]))
			if sel != "*" {
				r = append(r, sel)
			}
		}
		b = rest
	}
	return r
}

// pendingWildcard: the pending bytecode has a wildcard INCMP.
func pendingWildcard(code []byte) bool {
	b := code
	for len(b) >= 2 {
		s, rest, err, p := decodeStep(b)
		if err != nil || p != nil {
			break
		}
		if strings.HasPrefix(s, "INCMP:") {
			if f := strings.Split(s, ":"); string(unhx(f[2])) == "*" {
				return true
			}
		}
		b = rest
	}
	return false
}

// adaptiveInputs builds the input history by stepping the real engine: at each step it mostly picks a
// selector the pending bytecode accepts, sometimes junk, a refused input or an unknown selector.
// After the session ends it adds a few more requests (meaningful in persisted mode).
func adaptiveInputs(c *Ctx, ec *eCase) {
	r := c.Rng
	n := 3 + r.Intn(14)
	if r.Intn(10) == 0 {
		n = 20 + r.Intn(30)
	}
	ncalls := 0
	rs := &recRes{c: ec, ncalls: &ncalls}
	st := state.NewState(uint32(ec.flags))
	ca := cache.NewCache()
	if ec.cache > 0 {
		ca = ca.WithCacheSize(uint32(ec.cache))
	}
	en := engine.NewEngine(ec.config(), rs).WithState(st).WithMemory(ca)
	if f := rs.firstFunc(); f != nil {
		en = en.WithFirst(f)
	}
	ec.inputs = nil
	tail := -1
	for i := 0; i < n; i++ {
		var in []byte
		sels := pendingSelectors(st.Code)
		switch {
		case i == 0:
			in = []byte("")
			if r.Intn(10) == 0 {
				in = junkInputs[r.Intn(len(junkInputs))]
			}
		case tail < 0 && ec.roe && r.Intn(4) == 0:
			in = []byte("")
		case tail < 0 && pendingWildcard(st.Code) && r.Intn(3) == 0:
			in = []byte([]string{"", "", "ok", "any text", "0"}[r.Intn(5)])
		case tail >= 0 || len(sels) == 0 || r.Intn(6) == 0:
			in = junkInputs[r.Intn(len(junkInputs))]
		default:
			in = []byte(sels[r.Intn(len(sels))])
			if r.Intn(12) == 0 {
				// a selector followed by a blank is another (accepted) input, not that selector
				in = append(in, []byte{' ', '\t', '\r'}[r.Intn(3)])
			} else if up := strings.ToUpper(string(in)); up != string(in) && r.Intn(4) == 0 {
				// ... and so is a selector in the other case
				in = []byte(up)
			}
		}
		ec.inputs = append(ec.inputs, in)
		if tail >= 0 {
			tail--
			if tail < 0 {
				break
			}
			continue
		}
		rec := reqRec{}
		oneRequest(en, in, &rec)
		if rec.x == "panic" || rec.f == "panic" {
			break
		}
		if (rec.x == "ok" && !rec.cont) || (rec.x == "err" && !refusedInput(in)) {
			// the session ended (or broke): a short tail of further requests
			tail = r.Intn(4)
			if tail == 0 {
				break
			}
			tail--
		}
	}
}

func strp(s string) *string { return &s }

// serveOptions picks how the harness serves the case (see eCase.opts); the model is not told.
func serveOptions(c *Ctx, ec *eCase) {
	r := c.Rng
	ec.opts = nil
	if (r.Intn(5) == 0 || ec.preferAsm) && ec.asmOK() {
		ec.setOpt("asm")
	}
	if r.Intn(8) == 0 {
		ec.setOpt("pflush")
	}
	if ec.cache > 0 && r.Intn(3) == 0 {
		ec.setOpt("memcap")
	}
	if r.Intn(5) == 0 {
		ec.setOpt("loop")
	}
	if ec.res == "" && (r.Intn(6) == 0 || ec.preferShadow) {
		ec.setOpt("shadow")
	}
	if ec.res != "" {
		if r.Intn(2) == 0 {
			ec.setOpt("shared")
		}
		if r.Intn(2) == 0 || ec.preferStatic {
			ec.setOpt("static")
		}
	}
}

func genEngineCases(c *Ctx) []string {
	var ls []string
	ls = append(ls, genScenarioCases(c, c.Pick(200, 3000))...)
	n := c.Pick(400, 8000)
	for i := 0; i < n; i++ {
		ec := &eCase{mode: "long", root: "root"}
		genApp(c, ec)
		ec.out = []int{0, 0, 0, 160, 160, 90, 60, 40, 25, 12}[c.Rng.Intn(10)]
		ec.cache = []int{0, 0, 0, 100, 30}[c.Rng.Intn(5)]
		if c.Rng.Intn(8) == 0 {
			ec.lang = []string{"nor", "eng", "xx", "ger", "fr"}[c.Rng.Intn(5)]
		}
		if c.Rng.Intn(15) == 0 {
			ec.sep = ") "
		}
		if c.Rng.Intn(15) == 0 {
			ec.roe = true
		}
		if c.Rng.Intn(12) == 0 {
			// engine `first` function
			var set []uint32
			if c.Rng.Intn(3) == 0 {
				set = []uint32{6}
			}
			ec.firsts = []extRule{{callIdx: -1, content: []string{"", "hello", "blocked"}[c.Rng.Intn(3)], set: set}}
			if c.Rng.Intn(3) == 0 {
				// refuses (with an exit text) on its first call only, lets every later request through
				ec.firsts = []extRule{{callIdx: 0, content: "you are blocked, call again later", set: []uint32{6}}, {callIdx: -1, content: ""}}
			}
		}
		if c.Rng.Intn(12) == 0 {
			// irregular application: a dangling target or a missing template
			ec.wf = false
			switch c.Rng.Intn(3) {
			case 0:
				delete(ec.nodes, "sub")
				var ord []string
				for _, x := range ec.nodeOrd {
					if x != "sub" {
						ord = append(ord, x)
					}
				}
				ec.nodeOrd = ord
			case 1:
				var t []tblEntry
				for _, e := range ec.tpls {
					if e.sym != "foo" {
						t = append(t, e)
					}
				}
				ec.tpls = t
			case 2:
				ec.nolabel["back"] = true
			}
		}
		adaptiveInputs(c, ec)
		if c.Rng.Intn(5) == 0 && ec.wf && ec.dbResourceOK() {
			ec.res = []string{"db", "dbfs"}[c.Rng.Intn(2)]
		}
		serveOptions(c, ec)
		// the same history in both modes
		ec.mode = "long"
		ls = append(ls, ec.String())
		ec.mode = "pers"
		ls = append(ls, ec.String())
		if i%4 == 3 {
			// ... and with one long-lived engine that keeps its session in a persister
			ec.mode = "lp"
			ls = append(ls, ec.String())
		}
		if i%4 == 1 {
			// ... and with a new engine per request around state and cache objects the client keeps
			ec.mode = "ws"
			ls = append(ls, ec.String())
		}
	}
	return ls
}

// ---- scenario applications: small hand-shaped families aimed at behaviour the random pool reaches rarely ----

func newScenario(flags int) *eCase {
	return &eCase{mode: "long", root: "root", wf: true, flags: flags, nodes: map[string][]byte{}, nolabel: map[string]bool{},
		langof: isoTable()}
}

func (ec *eCase) node(name, tpl string, is ...GInstr) {
	var b []byte
	for _, i := range is {
		b = encodeVM(b, i)
	}
	ec.nodeOrd = append(ec.nodeOrd, name)
	ec.nodes[name] = b
	ec.tpls = append(ec.tpls, tblEntry{nil, name, tpl})
}

func (ec *eCase) catchNode() {
	ec.node("_catch", "Oops", GInstr{Op: "MOUT", A: "back", B: "0"}, GInstr{Op: "HALT"}, GInstr{Op: "INCMP", A: "_", B: "0"})
}

func ins(ss ...string) [][]byte {
	var r [][]byte
	for _, s := range ss {
		r = append(r, []byte(s))
	}
	return r
}

// deep chain: navigation depth and symbol count beyond 16, ascents, top, re-descent
func scenDeep(c *Ctx) *eCase {
	r := c.Rng
	ec := newScenario(0)
	depth := 3 + r.Intn(20)
	tick := c.Counts["gen:scenDeep"]
	c.Count("gen:scenDeep")
	if tick%4 == 1 {
		depth = []int{66, 127}[(tick/4)%2] // beyond any round number a decoder limit might use
	}
	name := func(k int) string {
		if k == 0 {
			return "root"
		}
		return fmt.Sprintf("n%02d", k)
	}
	many := r.Intn(depth)
	for k := 0; k <= depth; k++ {
		var is []GInstr
		tp := fmt.Sprintf("level %d", k)
		nsym := 1
		if k == many {
			nsym = 1 + r.Intn(20)
			if tick%4 == 3 {
				nsym = 70 // more symbols in one scope than a round decoder limit
			}
		}
		for s := 0; s < nsym; s++ {
			sym := fmt.Sprintf("v%d_%d", k, s)
			is = append(is, GInstr{Op: "LOAD", A: sym, N: 0})
			ec.exts = append(ec.exts, extRule{sym: sym, callIdx: -1, content: fmt.Sprintf("%d.%d", k, s)})
			if s == 0 {
				is = append(is, GInstr{Op: "MAP", A: sym})
				tp += " {{." + sym + "}}"
			}
		}
		if k < depth {
			is = append(is, GInstr{Op: "MOUT", A: "next", B: "1"})
		}
		is = append(is, GInstr{Op: "MOUT", A: "back", B: "0"}, GInstr{Op: "MOUT", A: "top", B: "9"}, GInstr{Op: "HALT"})
		if k < depth {
			is = append(is, GInstr{Op: "INCMP", A: name(k + 1), B: "1"})
		}
		is = append(is, GInstr{Op: "INCMP", A: "_", B: "0"}, GInstr{Op: "INCMP", A: "^", B: "9"})
		ec.node(name(k), tp, is...)
	}
	ec.catchNode()
	ec.inputs = ins("")
	for k := 0; k < depth; k++ {
		ec.inputs = append(ec.inputs, []byte("1"))
	}
	for k := 0; k < 2+r.Intn(4); k++ {
		ec.inputs = append(ec.inputs, []byte([]string{"0", "0", "9", "1", "x"}[r.Intn(5)]))
	}
	return ec
}

// multi-byte text in templates, labels and loaded values, at output sizes around the page length
func scenUtf8(c *Ctx) *eCase {
	r := c.Rng
	ec := newScenario(0)
	words := []string{"Größe", "wählen", "größer", "kürzer", "äöüß", "€€€€€", "日本語", "naïve", "ok", "plain", "Ünï"}
	w := func() string { return words[r.Intn(len(words))] }
	ec.node("root", w()+" "+w()+": {{.val}}",
		GInstr{Op: "LOAD", A: "val", N: 0}, GInstr{Op: "MAP", A: "val"}, GInstr{Op: "MOUT", A: "go", B: "1"}, GInstr{Op: "MOUT", A: "lst", B: "2"}, GInstr{Op: "HALT"},
		GInstr{Op: "INCMP", A: "foo", B: "1"}, GInstr{Op: "INCMP", A: "lst", B: "2"})
	ec.node("foo", w()+"\n"+w()+" "+w(), GInstr{Op: "MOUT", A: "back", B: "0"}, GInstr{Op: "HALT"}, GInstr{Op: "INCMP", A: "_", B: "0"})
	// the browse entries are named by symbols that are their own (multi-byte) text, or by symbols with a label
	nxSym, pvSym := "nx", "pv"
	if r.Intn(2) == 0 {
		nxSym, pvSym = []string{"Далее", "weiter»", "次へ"}[r.Intn(3)], []string{"Назад", "«zurück", "前へ"}[r.Intn(3)]
	}
	ec.node("lst", w()+"\n{{.rows}}", GInstr{Op: "LOAD", A: "rows", N: 0}, GInstr{Op: "MAP", A: "rows"}, GInstr{Op: "MNEXT", A: nxSym, B: "11"}, GInstr{Op: "MPREV", A: pvSym, B: "22"},
		GInstr{Op: "MOUT", A: "back", B: "0"}, GInstr{Op: "HALT"}, GInstr{Op: "INCMP", A: ">", B: "11"}, GInstr{Op: "INCMP", A: "<", B: "22"}, GInstr{Op: "INCMP", A: "_", B: "0"})
	ec.catchNode()
	var rows []string
	for i := 0; i < 3+r.Intn(8); i++ {
		rows = append(rows, w()+" "+w())
	}
	ec.exts = append(ec.exts, extRule{sym: "val", callIdx: -1, content: w() + w()}, extRule{sym: "rows", callIdx: -1, content: strings.Join(rows, "\n")})
	ec.labels = append(ec.labels, tblEntry{nil, "go", w()}, tblEntry{nil, "back", w()}, tblEntry{nil, "nx", w()}, tblEntry{nil, "pv", w()})
	natural := len(ec.tpls[0].text) + 10
	ec.out = []int{0, natural - 8 + r.Intn(40), 30 + r.Intn(60), 48, 64}[r.Intn(5)]
	if nxSym != "nx" {
		ec.out = []int{40 + r.Intn(50), 48, 56, 64, 72}[r.Intn(5)] // multi-byte browse entries: always paged
	}
	ec.inputs = ins("", "1", "0", "2", "11", "11", "22", "0", "zzz")
	return ec
}

// CROAK and CATCH placed in the input-handling part of a node, flags set by a handler
func scenCroak(c *Ctx) *eCase {
	r := c.Rng
	ec := newScenario(4)
	fl := uint32(8 + r.Intn(4))
	mode := r.Intn(2) == 0
	pre := []GInstr{GInstr{Op: "LOAD", A: "setter", N: 0}, GInstr{Op: "MOUT", A: "one", B: "1"}, GInstr{Op: "MOUT", A: "two", B: "2"}, GInstr{Op: "HALT"}}
	var post []GInstr
	post = append(post, GInstr{Op: "INCMP", A: "foo", B: "1"})
	switch r.Intn(3) {
	case 0:
		post = append(post, GInstr{Op: "CROAK", N: fl, M: mode}, GInstr{Op: "INCMP", A: "bar", B: "2"})
	case 1:
		post = append(post, GInstr{Op: "CATCH", A: "bar", N: fl, M: mode}, GInstr{Op: "INCMP", A: "bar", B: "2"})
	default:
		post = append(post, GInstr{Op: "INCMP", A: "bar", B: "2"}, GInstr{Op: "CROAK", N: fl, M: mode}, GInstr{Op: "HALT"})
	}
	ec.node("root", "Root", append(pre, post...)...)
	ec.node("foo", "Foo", GInstr{Op: "MOUT", A: "back", B: "0"}, GInstr{Op: "HALT"}, GInstr{Op: "INCMP", A: "_", B: "0"})
	ec.node("bar", "Bar", GInstr{Op: "MOUT", A: "back", B: "0"}, GInstr{Op: "HALT"}, GInstr{Op: "INCMP", A: "_", B: "0"})
	ec.catchNode()
	var set []uint32
	if r.Intn(2) == 0 {
		set = []uint32{fl}
	}
	ec.exts = append(ec.exts, extRule{sym: "setter", callIdx: -1, content: "s", set: set})
	ec.inputs = ins("", []string{"1", "2", "3", "x"}[r.Intn(4)], []string{"0", "1", "2", ""}[r.Intn(4)], []string{"0", "1", "2"}[r.Intn(3)], "2", "0")
	return ec
}

// language selected by a handler, then language-dependent lookups in the same run and in later requests
func scenLang(c *Ctx) *eCase {
	r := c.Rng
	ec := newScenario(0)
	// the codes are walked in turn (unknown ones first), so that even a small batch meets an unknown selection followed by an
	// ordinary value that happens to be a language code
	tick0 := c.Counts["gen:scenLang"]
	code := []string{"zzzz", "nor", "", "no", "fra", "eng", "en", "ger", "fre", "de", "deu"}[tick0%11]
	ec.node("root", "Welcome", GInstr{Op: "MOUT", A: "pick", B: "1"}, GInstr{Op: "MOUT", A: "show", B: "2"}, GInstr{Op: "HALT"},
		GInstr{Op: "INCMP", A: "pick", B: "1"}, GInstr{Op: "INCMP", A: "show", B: "2"})
	ec.node("pick", "Picked {{.greet}}", GInstr{Op: "LOAD", A: "setlang", N: 0}, GInstr{Op: "LOAD", A: "greet", N: 0}, GInstr{Op: "MAP", A: "greet"},
		GInstr{Op: "MOUT", A: "back", B: "0"}, GInstr{Op: "HALT"}, GInstr{Op: "INCMP", A: "_", B: "0"})
	ec.node("show", "Show {{.greet2}}", GInstr{Op: "LOAD", A: "greet2", N: 0}, GInstr{Op: "MAP", A: "greet2"}, GInstr{Op: "LOAD", A: "country", N: 0},
		GInstr{Op: "MOUT", A: "back", B: "0"}, GInstr{Op: "HALT"}, GInstr{Op: "INCMP", A: "_", B: "0"})
	ec.exts = append(ec.exts, extRule{sym: "country", callIdx: -1, content: []string{"no", "fra", "de", "sw"}[(tick0/2+tick0)%4]}) // not a language selection: no LANG flag
	ec.catchNode()
	for _, l := range []string{"nor", "fra", "eng", "deu"} {
		ec.tpls = append(ec.tpls, tblEntry{strp(l), "pick", "[" + l + "] {{.greet}}"}, tblEntry{strp(l), "root", "[" + l + "] root"}, tblEntry{strp(l), "show", "[" + l + "] {{.greet2}}"})
		ec.labels = append(ec.labels, tblEntry{strp(l), "back", "back-" + l})
		ec.exts = append(ec.exts, extRule{sym: "greet", callIdx: -1, lang: strp(l), content: "hello-" + l}, extRule{sym: "greet2", callIdx: -1, lang: strp(l), content: "again-" + l})
	}
	ec.exts = append(ec.exts, extRule{sym: "greet", callIdx: -1, content: "hello-default"}, extRule{sym: "greet2", callIdx: -1, content: "again-default"},
		extRule{sym: "setlang", callIdx: -1, content: code, set: []uint32{7}})
	if tick0%4 == 3 {
		ec.lang = []string{"nor", "eng", "fra"}[r.Intn(3)]
	}
	tick := c.Counts["gen:scenLang"]
	c.Count("gen:scenLang")
	ec.preferStatic = true
	if (tick/3)%2 == 1 { // (not tick%3: the rounds that go through DbResource all have the same residue)
		ec.inputs = ins("", "1", "0", "2", "0", "1")
	} else {
		// a language-dependent symbol is looked up before the language changes and again afterwards
		ec.inputs = ins("", "2", "0", "1", "0", "2", "0", "1")
	}
	return ec
}

// a small cache and a RELOAD whose result grows and shrinks across calls
func scenReload(c *Ctx) *eCase {
	r := c.Rng
	ec := newScenario(0)
	ec.cache = []int{16, 32, 40}[r.Intn(3)]
	ec.node("root", "Root {{.note}}", GInstr{Op: "LOAD", A: "note", N: uint32([]int{0, 50}[r.Intn(2)])}, GInstr{Op: "MAP", A: "note"}, GInstr{Op: "MOUT", A: "go", B: "1"}, GInstr{Op: "MOUT", A: "bye", B: "9"}, GInstr{Op: "HALT"},
		GInstr{Op: "INCMP", A: "edit", B: "1"}, GInstr{Op: "INCMP", A: "bye", B: "9"})
	ec.node("bye", "Bye", GInstr{Op: "HALT"})
	ec.node("edit", "Edit {{.name}}", GInstr{Op: "LOAD", A: "name", N: uint32([]int{0, 60}[r.Intn(2)])}, GInstr{Op: "MAP", A: "name"}, GInstr{Op: "MOUT", A: "again", B: "5"}, GInstr{Op: "MOUT", A: "back", B: "0"},
		GInstr{Op: "HALT"}, GInstr{Op: "INCMP", A: "_", B: "0"}, GInstr{Op: "RELOAD", A: "name"}, GInstr{Op: "RELOAD", A: "note"}, GInstr{Op: "MOVE", A: "."})
	ec.catchNode()
	sizes := []int{5, 3, 40, 3, 0, 12, 70, 1}
	ec.exts = append(ec.exts, extRule{sym: "note", callIdx: -1, content: "nb"})
	for i := 0; i < 12; i++ {
		ec.exts = append([]extRule{{sym: "name", callIdx: i, content: strings.Repeat("x", sizes[r.Intn(len(sizes))])}}, ec.exts...)
	}
	ec.exts = append(ec.exts, extRule{sym: "name", callIdx: -1, content: "bob"})
	ec.inputs = ins("", "1", "5", "5", "5", "0", "1", "5", "0", "1")
	if r.Intn(2) == 0 {
		ec.inputs = ins("", "1", "5", "5", "0", "9", "", "1", "5", "0")
	}
	return ec
}

// values and rows with leading/trailing blanks and newlines (trimming must not touch content)
func scenBlanks(c *Ctx) *eCase {
	r := c.Rng
	ec := newScenario(0)
	vals := []string{"  1 apple", " 12 mango ", "tail\n", "Karibu!\nYour balance is 42\n", "\tTabbed", " ", "a \n b\n", "x"}
	v := func() string { return vals[r.Intn(len(vals))] }
	var rows []string
	for i := 0; i < 4+r.Intn(10); i++ {
		rows = append(rows, fmt.Sprintf("%3d %s", i+1, []string{"apple", "banana", "cherry ", " date", "elderberry"}[r.Intn(5)]))
	}
	ec.node("root", "Top {{.msg}}", GInstr{Op: "LOAD", A: "msg", N: 0}, GInstr{Op: "MAP", A: "msg"}, GInstr{Op: "MOUT", A: "lst", B: "1"}, GInstr{Op: "HALT"}, GInstr{Op: "INCMP", A: "lst", B: "1"})
	ec.node("lst", "fruit\n{{.rows}}", GInstr{Op: "LOAD", A: "rows", N: 0}, GInstr{Op: "MAP", A: "rows"}, GInstr{Op: "MNEXT", A: "nx", B: "11"}, GInstr{Op: "MPREV", A: "pv", B: "22"},
		GInstr{Op: "MOUT", A: "back", B: "0"}, GInstr{Op: "MOUT", A: "detail", B: "3"}, GInstr{Op: "HALT"}, GInstr{Op: "INCMP", A: ">", B: "11"}, GInstr{Op: "INCMP", A: "<", B: "22"}, GInstr{Op: "INCMP", A: "_", B: "0"},
		GInstr{Op: "INCMP", A: "detail", B: "3"})
	ec.node("detail", "Detail", GInstr{Op: "MOUT", A: "back", B: "0"}, GInstr{Op: "MOUT", A: "top", B: "9"}, GInstr{Op: "HALT"}, GInstr{Op: "INCMP", A: "_", B: "0"}, GInstr{Op: "INCMP", A: "^", B: "9"})
	ec.catchNode()
	ec.exts = append(ec.exts, extRule{sym: "msg", callIdx: -1, content: v()}, extRule{sym: "rows", callIdx: -1, content: strings.Join(rows, "\n")})
	ec.out = []int{0, 60, 80, 90, 120}[r.Intn(5)]
	ec.inputs = ins("", "1", "11", []string{"11", "3"}[r.Intn(2)], "3", "0", "22", "11", "0", "1")
	return ec
}

// the last loaded value of every request ends in a newline (the persisted record then ends in it)
func scenNewlineLast(c *Ctx) *eCase {
	r := c.Rng
	ec := newScenario(0)
	ec.node("root", "Hi {{.msg}}", GInstr{Op: "LOAD", A: "msg", N: 0}, GInstr{Op: "MAP", A: "msg"}, GInstr{Op: "MOUT", A: "go", B: "1"}, GInstr{Op: "HALT"}, GInstr{Op: "INCMP", A: "mid", B: "1"})
	ec.node("mid", "Mid {{.bal}}", GInstr{Op: "LOAD", A: "bal", N: 0}, GInstr{Op: "MAP", A: "bal"}, GInstr{Op: "MOUT", A: "go", B: "1"}, GInstr{Op: "MOUT", A: "back", B: "0"}, GInstr{Op: "HALT"},
		GInstr{Op: "INCMP", A: "deep", B: "1"}, GInstr{Op: "INCMP", A: "_", B: "0"})
	ec.node("deep", "Deep {{.fin}}", GInstr{Op: "LOAD", A: "fin", N: 0}, GInstr{Op: "MAP", A: "fin"}, GInstr{Op: "MOUT", A: "back", B: "0"}, GInstr{Op: "HALT"}, GInstr{Op: "INCMP", A: "_", B: "0"})
	ec.catchNode()
	nl := []string{"\n", "\n", "\n\n", " \n"}
	ec.exts = append(ec.exts, extRule{sym: "msg", callIdx: -1, content: "Karibu!" + nl[r.Intn(4)]}, extRule{sym: "bal", callIdx: -1, content: "Your balance is 42" + nl[r.Intn(4)]},
		extRule{sym: "fin", callIdx: -1, content: "done" + nl[r.Intn(4)]})
	ec.inputs = ins("", "1", "1", "0", "0", "1")
	return ec
}

// wildcard routing: a wildcard INCMP alone, after and before ordinary selectors; the replies include the empty string
func scenWild(c *Ctx) *eCase {
	r := c.Rng
	ec := newScenario(0)
	ec.node("root", "Root", GInstr{Op: "MOUT", A: "terms", B: "1"}, GInstr{Op: "MOUT", A: "signup", B: "2"}, GInstr{Op: "HALT"},
		GInstr{Op: "INCMP", A: "terms", B: "1"}, GInstr{Op: "INCMP", A: "signup", B: "2"})
	var post []GInstr
	switch r.Intn(3) {
	case 0:
		post = []GInstr{{Op: "INCMP", A: "accepted", B: "*"}}
	case 1:
		post = []GInstr{{Op: "INCMP", A: "_", B: "0"}, {Op: "INCMP", A: "accepted", B: "*"}}
	default:
		post = []GInstr{{Op: "INCMP", A: "accepted", B: "*"}, {Op: "INCMP", A: "_", B: "0"}}
	}
	ec.node("terms", "Terms: send any reply to accept", append([]GInstr{{Op: "MOUT", A: "back", B: "0"}, {Op: "HALT"}}, post...)...)
	ec.node("signup", "Your name?", GInstr{Op: "HALT"}, GInstr{Op: "INCMP", A: "accepted", B: "*"})
	ec.node("accepted", "Thank you", GInstr{Op: "MOUT", A: "top", B: "9"}, GInstr{Op: "HALT"}, GInstr{Op: "INCMP", A: "^", B: "9"})
	ec.catchNode()
	ec.labels = append(ec.labels, tblEntry{nil, "top", "top"}, tblEntry{nil, "terms", "terms"}, tblEntry{nil, "signup", "sign up"})
	reply := func() string { return []string{"", "", "ok", "0", "x", "yes please", "9", "*"}[r.Intn(8)] }
	pick := func() string { return []string{"1", "2"}[r.Intn(2)] }
	ec.inputs = ins("", pick(), reply(), "9", pick(), reply(), []string{"9", "0", ""}[r.Intn(3)], pick(), reply())
	return ec
}

// CATCH with a relative target (_ ^) two levels down, on a flag a handler sets or leaves alone
func scenCatchRel(c *Ctx) *eCase {
	r := c.Rng
	ec := newScenario(4)
	fl := uint32(8 + r.Intn(4))
	mode := r.Intn(4) > 0
	tgt := []string{"_", "^", "_", "^", "other"}[r.Intn(5)]
	ec.node("root", "Root", GInstr{Op: "MOUT", A: "mid", B: "1"}, GInstr{Op: "HALT"}, GInstr{Op: "INCMP", A: "mid", B: "1"})
	ec.node("mid", "Mid", GInstr{Op: "MOUT", A: "leaf", B: "1"}, GInstr{Op: "MOUT", A: "back", B: "0"}, GInstr{Op: "HALT"}, GInstr{Op: "INCMP", A: "leaf", B: "1"}, GInstr{Op: "INCMP", A: "_", B: "0"})
	leaf := []GInstr{{Op: "LOAD", A: "deny", N: 0}, {Op: "CATCH", A: tgt, N: fl, M: mode}, {Op: "MOUT", A: "back", B: "0"}, {Op: "HALT"}, {Op: "INCMP", A: "_", B: "0"}}
	if r.Intn(3) == 0 {
		// the CATCH sits in the input-handling part instead
		leaf = []GInstr{{Op: "LOAD", A: "deny", N: 0}, {Op: "MOUT", A: "back", B: "0"}, {Op: "HALT"}, {Op: "INCMP", A: "_", B: "0"}, {Op: "CATCH", A: tgt, N: fl, M: mode}, {Op: "INCMP", A: "other", B: "2"}}
	}
	ec.node("leaf", "Leaf", leaf...)
	ec.node("other", "Other", GInstr{Op: "MOUT", A: "back", B: "0"}, GInstr{Op: "HALT"}, GInstr{Op: "INCMP", A: "_", B: "0"})
	ec.catchNode()
	var set []uint32
	if r.Intn(3) > 0 {
		set = []uint32{fl}
	}
	ec.exts = append(ec.exts, extRule{sym: "deny", callIdx: -1, content: "d", set: set})
	ec.inputs = ins("", "1", "1", []string{"0", "2", "x"}[r.Intn(3)], []string{"0", "1"}[r.Intn(2)], "1", "0")
	return ec
}

// several graceful ends in one history: an end node that loads a value before its HALT, one that is a bare HALT,
// one below a middle node; the session is restarted after each end
func scenEnds(c *Ctx) *eCase {
	r := c.Rng
	ec := newScenario([]int{0, 4}[r.Intn(2)])
	rootTail := []GInstr{{Op: "MOUT", A: "bye", B: "1"}, {Op: "MOUT", A: "quiet", B: "2"}, {Op: "MOUT", A: "deep", B: "3"}, {Op: "HALT"},
		{Op: "INCMP", A: "bye", B: "1"}, {Op: "INCMP", A: "quiet", B: "2"}, {Op: "INCMP", A: "deep", B: "3"}}
	if r.Intn(2) == 0 {
		ec.node("root", "Welcome {{.greeting}}", append([]GInstr{{Op: "LOAD", A: "greeting", N: 0}, {Op: "MAP", A: "greeting"}}, rootTail...)...)
	} else {
		ec.node("root", "Lobby", rootTail...) // nothing is loaded between the restart and the next end
	}
	ec.node("bye", "goodbye ", GInstr{Op: "LOAD", A: "msg", N: 0}, GInstr{Op: "HALT"})
	ec.node("quiet", "quiet end", GInstr{Op: "HALT"})
	ec.node("deep", "Deep {{.note}}", GInstr{Op: "LOAD", A: "note", N: 20}, GInstr{Op: "MAP", A: "note"}, GInstr{Op: "MOUT", A: "bye", B: "1"}, GInstr{Op: "MOUT", A: "quiet", B: "2"}, GInstr{Op: "MOUT", A: "back", B: "0"},
		GInstr{Op: "HALT"}, GInstr{Op: "INCMP", A: "bye", B: "1"}, GInstr{Op: "INCMP", A: "quiet", B: "2"}, GInstr{Op: "INCMP", A: "_", B: "0"})
	ec.catchNode()
	for i := 0; i < 6; i++ {
		ec.exts = append(ec.exts, extRule{sym: "greeting", callIdx: i, content: fmt.Sprintf("visitor#%d", i)})
	}
	ec.exts = append(ec.exts, extRule{sym: "greeting", callIdx: -1, content: "visitor"}, extRule{sym: "msg", callIdx: -1, content: []string{"see you", "see you\n", ""}[r.Intn(3)]},
		extRule{sym: "note", callIdx: -1, content: "n"})
	end := func() []string {
		e := []string{"1", "2"}[r.Intn(2)]
		if r.Intn(3) == 0 {
			return []string{"3", e}
		}
		return []string{e}
	}
	in := []string{""}
	for k := 0; k < 2+r.Intn(3); k++ {
		in = append(in, end()...)
		in = append(in, []string{"", "", "x", "1"}[r.Intn(4)])
	}
	ec.inputs = ins(in...)
	return ec
}

// declared sizes at the width boundaries of the integer encoding, values just below, at and above the limit
func scenSizes(c *Ctx) *eCase {
	r := c.Rng
	ec := newScenario(0)
	// the boundary values are walked in turn, so that even a small batch meets each of them
	tick := c.Counts["gen:scenSizes"]
	c.Count("gen:scenSizes")
	n := []int{256, 255, 257, 1, 65535, 300, 512, 2, 254, 511, 1000, 65280, 4096}[tick%13]
	l := n + []int{1, 0, -1, 44, 1, 0}[(tick/13+tick)%6]
	if l < 0 {
		l = 0
	}
	ec.node("root", "Root", GInstr{Op: "MOUT", A: "big", B: "1"}, GInstr{Op: "HALT"}, GInstr{Op: "INCMP", A: "big", B: "1"})
	ec.node("big", "Big {{.blob}}", GInstr{Op: "LOAD", A: "blob", N: uint32(n)}, GInstr{Op: "MAP", A: "blob"}, GInstr{Op: "MOUT", A: "back", B: "0"}, GInstr{Op: "MOUT", A: "again", B: "5"}, GInstr{Op: "HALT"},
		GInstr{Op: "INCMP", A: "_", B: "0"}, GInstr{Op: "RELOAD", A: "blob"}, GInstr{Op: "MOVE", A: "."})
	ec.catchNode()
	fill := func(k int, ch string) string { return strings.Repeat(ch, k) }
	if tick%3 == 2 && l >= 2 {
		// the limit counts bytes: two-byte characters, l bytes in all
		fill = func(k int, ch string) string {
			s := strings.Repeat("é", k/2)
			if len(s) < k {
				s += ch
			}
			return s
		}
	}
	ec.exts = append(ec.exts, extRule{sym: "blob", callIdx: 1, content: fill(n+1, "y")}, extRule{sym: "blob", callIdx: -1, content: fill(l, "x")})
	ec.inputs = ins("", "1", "5", "0", "1")
	ec.preferAsm = tick%2 == 0 || r.Intn(2) == 0
	return ec
}

// refused inputs at the start of the history and in a row (over-long and malformed), then ordinary navigation
func scenRefused(c *Ctx) *eCase {
	r := c.Rng
	ec := newScenario(0)
	ec.node("root", "Root", GInstr{Op: "MOUT", A: "foo", B: "1"}, GInstr{Op: "MOUT", A: "bar", B: "2"}, GInstr{Op: "HALT"}, GInstr{Op: "INCMP", A: "foo", B: "1"}, GInstr{Op: "INCMP", A: "bar", B: "2"})
	ec.node("foo", "Foo {{.val}}", GInstr{Op: "LOAD", A: "val", N: 0}, GInstr{Op: "MAP", A: "val"}, GInstr{Op: "MOUT", A: "back", B: "0"}, GInstr{Op: "HALT"}, GInstr{Op: "INCMP", A: "_", B: "0"})
	ec.node("bar", "Bar", GInstr{Op: "MOUT", A: "back", B: "0"}, GInstr{Op: "HALT"}, GInstr{Op: "INCMP", A: "_", B: "0"})
	ec.catchNode()
	ec.exts = append(ec.exts, extRule{sym: "val", callIdx: -1, content: "v"})
	bad := func() string {
		return []string{strings.Repeat("7", 300), strings.Repeat("a", 256), "+" + strings.Repeat("4", 299), "!bad", "1\n2", " 1", "*"}[r.Intn(7)]
	}
	in := []string{bad()}
	if r.Intn(2) == 0 {
		in = append(in, bad())
	}
	in = append(in, "", "1", bad(), "0", "2", bad(), bad(), "0", "1")
	ec.inputs = ins(in...)
	ec.preferLp = true
	return ec
}

// a menu reached through a CATCH on an unset flag (the VM then runs on the resource's own slice), two branches with
// sub-branches of the same shape: what another session does at the same node must not matter
func scenCatchHub(c *Ctx) *eCase {
	r := c.Rng
	ec := newScenario(4)
	ec.node("root", "Root", GInstr{Op: "CATCH", A: "menu", N: uint32(8 + r.Intn(4)), M: false}, GInstr{Op: "HALT"})
	ec.node("menu", "Menu", GInstr{Op: "MOUT", A: "foo", B: "1"}, GInstr{Op: "MOUT", A: "bar", B: "2"}, GInstr{Op: "HALT"}, GInstr{Op: "INCMP", A: "foo", B: "1"}, GInstr{Op: "INCMP", A: "bar", B: "2"})
	for _, n := range []string{"foo", "bar"} {
		ec.node(n, strings.ToUpper(n), GInstr{Op: "MOUT", A: n + "a", B: "1"}, GInstr{Op: "MOUT", A: n + "b", B: "2"}, GInstr{Op: "MOUT", A: "back", B: "0"}, GInstr{Op: "HALT"},
			GInstr{Op: "INCMP", A: n + "a", B: "1"}, GInstr{Op: "INCMP", A: n + "b", B: "2"}, GInstr{Op: "INCMP", A: "_", B: "0"})
		for _, l := range []string{"a", "b"} {
			ec.node(n+l, "leaf "+n+l, GInstr{Op: "MOUT", A: "back", B: "0"}, GInstr{Op: "HALT"}, GInstr{Op: "INCMP", A: "_", B: "0"})
		}
	}
	ec.catchNode()
	p := func() string { return []string{"1", "2"}[r.Intn(2)] }
	ec.inputs = ins("", p(), p(), "0", p(), "0", "0", p(), p())
	ec.preferShadow = true
	return ec
}

// consecutive requests whose stored records have the same length and differ in several places (a reloaded value of
// fixed length, the move counter): a store that treats "same size" specially shows up here
func scenSameLen(c *Ctx) *eCase {
	r := c.Rng
	ec := newScenario(0)
	ec.node("root", "Root", GInstr{Op: "MOUT", A: "edit", B: "1"}, GInstr{Op: "HALT"}, GInstr{Op: "INCMP", A: "edit", B: "1"})
	ec.node("edit", "Edit {{.name}}", GInstr{Op: "LOAD", A: "name", N: 20}, GInstr{Op: "MAP", A: "name"}, GInstr{Op: "MOUT", A: "again", B: "5"}, GInstr{Op: "MOUT", A: "back", B: "0"},
		GInstr{Op: "HALT"}, GInstr{Op: "INCMP", A: "_", B: "0"}, GInstr{Op: "RELOAD", A: "name"}, GInstr{Op: "MOVE", A: "."})
	ec.catchNode()
	vals := []string{"yes-yes", "nop-nop", "abc-xyz", "1234567"}
	for i := 0; i < 12; i++ {
		ec.exts = append(ec.exts, extRule{sym: "name", callIdx: i, content: vals[(i+r.Intn(3)+1)%4]})
	}
	ec.exts = append(ec.exts, extRule{sym: "name", callIdx: -1, content: "default"})
	ec.inputs = ins("", "1", "5", "5", "5", "5", "0", "1")
	return ec
}

// a RELOAD whose value does not fit the cache (rejected; the accounting must be put back), then ascent, a graceful end,
// a restart and the same LOAD again
func scenReloadEnd(c *Ctx) *eCase {
	r := c.Rng
	ec := newScenario(0)
	ec.cache = []int{48, 40, 64}[r.Intn(3)]
	ec.node("root", "Root", GInstr{Op: "MOUT", A: "go", B: "1"}, GInstr{Op: "MOUT", A: "bye", B: "9"}, GInstr{Op: "HALT"}, GInstr{Op: "INCMP", A: "sub", B: "1"}, GInstr{Op: "INCMP", A: "bye", B: "9"})
	ec.node("sub", "Sub {{.hist}}", GInstr{Op: "LOAD", A: "hist", N: 0}, GInstr{Op: "MAP", A: "hist"}, GInstr{Op: "MOUT", A: "again", B: "5"}, GInstr{Op: "MOUT", A: "back", B: "0"}, GInstr{Op: "HALT"},
		GInstr{Op: "INCMP", A: "_", B: "0"}, GInstr{Op: "INCMP", A: "again", B: "5"})
	ec.node("again", "Again", GInstr{Op: "RELOAD", A: "hist"}, GInstr{Op: "MOVE", A: "_"}) // refresh from one level down, then back
	ec.node("bye", "Bye", GInstr{Op: "HALT"})
	ec.catchNode()
	ec.exts = append(ec.exts, extRule{sym: "hist", callIdx: 1, content: strings.Repeat("h", ec.cache+12)}, extRule{sym: "hist", callIdx: -1, content: "eleven chrs"})
	in := []string{"", "1", "5"}
	if r.Intn(2) == 0 {
		in = append(in, "5")
	}
	ec.inputs = ins(append(in, "0", "9", "", "1", "0")...)
	return ec
}

// an engine with a (harmless) first function, a handler that sets TERMINATE, and several requests on the blocked session
func scenBlockedFirst(c *Ctx) *eCase {
	r := c.Rng
	ec := newScenario(0)
	ec.node("root", "Root", GInstr{Op: "MOUT", A: "go", B: "1"}, GInstr{Op: "HALT"}, GInstr{Op: "INCMP", A: "foo", B: "1"})
	ec.node("foo", "Foo", GInstr{Op: "LOAD", A: "block", N: 0}, GInstr{Op: "MOUT", A: "back", B: "0"}, GInstr{Op: "HALT"}, GInstr{Op: "INCMP", A: "_", B: "0"})
	ec.catchNode()
	ec.exts = append(ec.exts, extRule{sym: "block", callIdx: -1, content: []string{"", "closed"}[r.Intn(2)], set: []uint32{6}})
	ec.firsts = []extRule{{callIdx: -1, content: []string{"", "hello"}[r.Intn(2)]}}
	ec.inputs = ins("", "1", "1", []string{"1", "0", "x"}[r.Intn(3)], "1", "")
	return ec
}

// one node with two HALTs and no move in between: what the first part declared for the renderer (lateral navigation entries,
// a menu sink, mapped symbols) must be gone when the second part renders, exactly as in an engine created for that request
func scenTwoHalts(c *Ctx) *eCase {
	r := c.Rng
	ec := newScenario(0)
	ec.out = []int{40, 48, 36, 60}[r.Intn(4)]
	first := []GInstr{{Op: "LOAD", A: "big", N: 0}, {Op: "MAP", A: "big"}, {Op: "MNEXT", A: "fwd", B: "8"}, {Op: "MPREV", A: "bck", B: "9"}}
	if r.Intn(3) == 0 {
		first = append(first, GInstr{Op: "MOUT", A: "quit", B: "0"})
	}
	second := []GInstr{{Op: "MAP", A: "big"}}
	switch r.Intn(3) {
	case 0:
		second = append(second, GInstr{Op: "MNEXT", A: "more", B: "8"})
	case 1:
		second = append(second, GInstr{Op: "MOUT", A: "quit", B: "0"})
	}
	prog := append(append([]GInstr{}, first...), GInstr{Op: "HALT"})
	prog = append(append(prog, second...), GInstr{Op: "HALT"}, GInstr{Op: "INCMP", A: ">", B: "8"}, GInstr{Op: "INCMP", A: "<", B: "9"}, GInstr{Op: "INCMP", A: "bye", B: "0"})
	ec.node("root", "list {{.big}}", prog...)
	ec.node("bye", "Bye", GInstr{Op: "HALT"})
	ec.catchNode()
	rows := []string{"alpha", "bravo", "charlie", "delta", "echo", "foxtrot", "golf", "hotel", "india", "juliet"}
	ec.exts = append(ec.exts, extRule{sym: "big", callIdx: -1, content: strings.Join(rows[:6+r.Intn(5)], "\n")})
	ec.inputs = ins("", []string{"1", "x", "8"}[r.Intn(3)], "8", []string{"8", "9", "0"}[r.Intn(3)], "9")
	return ec
}

// '^' from a later page of a node below the entry node (directly, or through a node whose code is MOVE ^): the documented move
// table puts the session at the entry node, page 0
func scenTopFromPage(c *Ctx) *eCase {
	r := c.Rng
	ec := newScenario(0)
	ec.out = []int{40, 48, 44}[r.Intn(3)]
	ec.node("root", "Root {{.big}}", GInstr{Op: "LOAD", A: "big", N: 0}, GInstr{Op: "MAP", A: "big"}, GInstr{Op: "MNEXT", A: "fwd", B: "11"}, GInstr{Op: "MPREV", A: "bck", B: "22"},
		GInstr{Op: "MOUT", A: "sub", B: "1"}, GInstr{Op: "HALT"}, GInstr{Op: "INCMP", A: "sub", B: "1"}, GInstr{Op: "INCMP", A: ">", B: "11"}, GInstr{Op: "INCMP", A: "<", B: "22"})
	sub := []GInstr{{Op: "MAP", A: "big"}, {Op: "MNEXT", A: "fwd", B: "11"}, {Op: "MPREV", A: "bck", B: "22"}, {Op: "MOUT", A: "top", B: "7"}, {Op: "MOUT", A: "deep", B: "2"}, {Op: "HALT"},
		{Op: "INCMP", A: ">", B: "11"}, {Op: "INCMP", A: "<", B: "22"}, {Op: "INCMP", A: "deep", B: "2"}}
	if r.Intn(2) == 0 {
		sub = append(sub, GInstr{Op: "INCMP", A: "^", B: "7"})
	} else {
		sub = append(sub, GInstr{Op: "INCMP", A: "totop", B: "7"})
	}
	ec.node("sub", "Sub {{.big}}", sub...)
	ec.node("deep", "Deep {{.big}}", GInstr{Op: "MAP", A: "big"}, GInstr{Op: "MNEXT", A: "fwd", B: "11"}, GInstr{Op: "MPREV", A: "bck", B: "22"}, GInstr{Op: "MOUT", A: "top", B: "7"}, GInstr{Op: "HALT"},
		GInstr{Op: "INCMP", A: ">", B: "11"}, GInstr{Op: "INCMP", A: "<", B: "22"}, GInstr{Op: "INCMP", A: "^", B: "7"})
	ec.node("totop", "ToTop", GInstr{Op: "MOVE", A: "^"})
	ec.catchNode()
	rows := []string{"alpha", "bravo", "charlie", "delta", "echo", "foxtrot", "golf", "hotel", "india", "juliet", "kilo", "lima"}
	ec.exts = append(ec.exts, extRule{sym: "big", callIdx: -1, content: strings.Join(rows[:8+r.Intn(5)], "\n")})
	switch r.Intn(3) {
	case 0:
		ec.inputs = ins("", "1", "11", "7", "11", "1")
	case 1:
		ec.inputs = ins("", "1", "2", "11", "11", "7", "1", "11", "7")
	default:
		ec.inputs = ins("", "11", "1", "11", "22", "11", "7", "22")
	}
	return ec
}

// a CATCH or CROAK that does not match its flag, placed after MAP and MOUT lines of the same page: it must do nothing at all
func scenCatchMid(c *Ctx) *eCase {
	r := c.Rng
	ec := newScenario(4)
	sig := uint32(8 + r.Intn(3))
	var mid GInstr
	switch r.Intn(3) {
	case 0:
		mid = GInstr{Op: "CATCH", A: "other", N: sig, M: true} // flag not set, CATCH wants it set
	case 1:
		mid = GInstr{Op: "CROAK", N: sig, M: true}
	default:
		mid = GInstr{Op: "CATCH", A: "other", N: 11, M: false} // flag 11 is set by the handler, CATCH wants it unset
	}
	ec.node("root", []string{"Root {{.val}}", "Root"}[r.Intn(2)], GInstr{Op: "LOAD", A: "val", N: 12}, GInstr{Op: "MAP", A: "val"}, GInstr{Op: "MOUT", A: "one", B: "1"}, mid, GInstr{Op: "MOUT", A: "two", B: "2"}, GInstr{Op: "HALT"},
		GInstr{Op: "INCMP", A: "other", B: "1"}, GInstr{Op: "INCMP", A: "other", B: "2"})
	ec.node("other", "Other", GInstr{Op: "MOUT", A: "back", B: "0"}, GInstr{Op: "HALT"}, GInstr{Op: "INCMP", A: "_", B: "0"})
	ec.catchNode()
	ec.exts = append(ec.exts, extRule{sym: "val", callIdx: -1, content: "hello", set: []uint32{11}})
	ec.inputs = ins("", []string{"1", "2", "x"}[r.Intn(3)], "0", "")
	return ec
}

var scenarios = []func(*Ctx) *eCase{scenNewlineLast, scenDeep, scenUtf8, scenUtf8, scenCroak, scenLang, scenReload, scenBlanks, scenWild, scenCatchRel, scenEnds, scenSizes, scenRefused, scenCatchHub, scenSameLen, scenReloadEnd, scenBlockedFirst, scenTwoHalts, scenTopFromPage, scenCatchMid}

func genScenarioCases(c *Ctx, n int) []string {
	var ls []string
	for i := 0; i < n; i++ {
		ec := scenarios[i%len(scenarios)](c)
		// every third scenario is served through the library's DbResource (mem or fs store) instead of the recording one
		if (i/len(scenarios)+i%len(scenarios))%3 == 2 && ec.dbResourceOK() {
			ec.res = []string{"db", "dbfs"}[c.Rng.Intn(2)]
		}
		serveOptions(c, ec)
		ec.mode = "long"
		ls = append(ls, ec.String())
		ec.mode = "pers"
		ls = append(ls, ec.String())
		if ec.preferLp || i%4 == 3 {
			ec.mode = "lp"
			ls = append(ls, ec.String())
		}
		if i%4 == 1 || len(ec.firsts) > 0 {
			ec.mode = "ws"
			ls = append(ls, ec.String())
		}
	}
	return ls
}
