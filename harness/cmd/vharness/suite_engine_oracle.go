package main

// Direct oracles of the engine suite, evaluated on the records of the real engine only
// (independent of the Lean model).

import (
	"bytes"
	"fmt"
	"regexp"
	"strings"

	"git.defalsify.org/vise.git/vm"
)

var oracleInputRe = regexp.MustCompile(`^\+?[a-zA-Z0-9].*$`)

func refusedInput(in []byte) bool {
	if len(in) > 255 {
		return true
	}
	if len(in) > 0 && !oracleInputRe.Match(in) {
		return true
	}
	return false
}

func flagBit(flags []byte, i int) bool {
	if i/8 >= len(flags) {
		return false
	}
	return flags[i/8]&(1<<uint(i%8)) > 0
}

func sameState(a, b *reqRec) bool {
	return strings.Join(a.path, "/") == strings.Join(b.path, "/") && a.idx == b.idx && bytes.Equal(a.flags, b.flags) &&
		bytes.Equal(a.code, b.code) && a.caSnap.equal(b.caSnap)
}

// sameStateButLangFlag: as sameState, with the LANG flag (bit 7, "a language selection is pending") left out of the comparison.
// A new engine's preparation applies the configured language to the state object it is handed and raises that flag, whatever
// the request's input turns out to be; the next run consumes it and finds the language the session already has.
func sameStateButLangFlag(a, b *reqRec) bool {
	fa, fb := append([]byte{}, a.flags...), append([]byte{}, b.flags...)
	if len(fa) > 0 && len(fb) > 0 {
		fa[0] &^= 0x80
		fb[0] &^= 0x80
	}
	return strings.Join(a.path, "/") == strings.Join(b.path, "/") && a.idx == b.idx && bytes.Equal(fa, fb) &&
		bytes.Equal(a.code, b.code) && a.caSnap.equal(b.caSnap)
}

// firstMatch computes, from pending bytecode that starts with INCMP lines, which INCMP decides the move.
// ended: the code ends with the INCMP block; nmatch: how many INCMP lines of the block match the input.
func firstMatch(code []byte, input []byte) (target string, matched bool, ok bool, ended bool, nmatch int) {
	b := code
	n := 0
	for len(b) >= 2 {
		op, rest, err := vm.ParseOp(b)
		if err != nil || op != vm.INCMP {
			break
		}
		t, sel, rest2, err := vm.ParseInCmp(rest)
		if err != nil {
			return "", false, false, false, 0
		}
		n++
		if (sel == "*" && nmatch == 0) || sel == string(input) {
			if !matched {
				target, matched = t, true
			}
			nmatch++
		}
		b = rest2
	}
	if n == 0 {
		return "", false, false, false, 0
	}
	return target, matched, true, len(b) == 0, nmatch
}

// allInstrs decodes a whole code string.
func allInstrs(code []byte) (is []GInstr, ok bool) {
	b := code
	for len(b) > 0 {
		s, rest, err, p := decodeStep(b)
		if err != nil || p != nil {
			return nil, false
		}
		gi, okG := parseGInstr(s)
		if !okG {
			return nil, false
		}
		is = append(is, gi)
		b = rest
	}
	return is, true
}

// signalOutcome walks pending bytecode the way input handling does, for code with CATCH/CROAK lines on client flags:
// "croak" / "catch": a line whose flag test holds is reached before any INCMP matches; "incmp": every signal line before
// the only matching INCMP is a no-op and nothing but INCMP lines follow it. "" when these rules do not decide.
// reading: READIN is set when the signal line runs.
func signalOutcome(code, in, flags []byte) (kind, target string, reading bool) {
	is, ok := allInstrs(code)
	if !ok {
		return "", "", false
	}
	reading = flagBit(flags, 0)
	signals := 0
	for k, gi := range is {
		switch gi.Op {
		case "INCMP":
			reading = true
			if gi.B == "*" || gi.B == string(in) {
				if signals == 0 {
					return "", "", false // plain routing: the C03 rules apply
				}
				for _, x := range is[k+1:] {
					if x.Op != "INCMP" || x.B == string(in) {
						return "", "", false
					}
				}
				return "incmp", gi.A, true
			}
		case "CATCH", "CROAK":
			if gi.N < 8 || int(gi.N) >= 8*len(flags) {
				return "", "", false
			}
			signals++
			if flagBit(flags, int(gi.N)) == gi.M {
				if gi.Op == "CATCH" {
					return "catch", gi.A, reading
				}
				return "croak", "", reading
			}
		default:
			return "", "", false
		}
	}
	return "", "", false
}

func simpleNode(code []byte) bool {
	// a node whose own code performs no further navigation
	b := code
	for len(b) >= 2 {
		s, rest, err, p := decodeStep(b)
		if err != nil || p != nil {
			return false
		}
		if strings.HasPrefix(s, "MOVE") || strings.HasPrefix(s, "CATCH") || strings.HasPrefix(s, "CROAK") ||
			strings.HasPrefix(s, "LOAD") || strings.HasPrefix(s, "RELOAD") || strings.HasPrefix(s, "MAP") || s == "MSINK" {
			return false // navigation, or an external call / mapping that may fail over to the catch node
		}
		if s == "HALT" {
			return true
		}
		b = rest
	}
	return false
}

// nodeInstrs decodes a node's code up to and including its first HALT.
func nodeInstrs(code []byte) (is []GInstr, halted bool) {
	b := code
	for len(b) >= 2 {
		s, rest, err, p := decodeStep(b)
		if err != nil || p != nil {
			return nil, false
		}
		gi, ok := parseGInstr(s)
		if !ok {
			return nil, false
		}
		is = append(is, gi)
		if gi.Op == "HALT" {
			return is, true
		}
		b = rest
	}
	return is, false
}

// haltCount: the number of HALT instructions in a node's code (-1 when it does not decode). A node with more than one HALT
// renders pages from different segments of its code, each with its own menu declarations.
func haltCount(code []byte) int {
	n := 0
	b := code
	for len(b) >= 2 {
		s, rest, err, p := decodeStep(b)
		if err != nil || p != nil {
			return -1
		}
		if gi, ok := parseGInstr(s); ok && gi.Op == "HALT" {
			n++
		}
		b = rest
	}
	return n
}

// capacityNeverExceeded: the cache capacity can hold the longest value of every symbol of the application at once.
func (ec *eCase) capacityNeverExceeded() bool {
	if ec.cache == 0 {
		return true
	}
	longest := map[string]int{}
	for _, r := range ec.exts {
		if len(r.content) > longest[r.sym] {
			longest[r.sym] = len(r.content)
		}
	}
	total := 0
	for _, v := range longest {
		total += v
	}
	return total <= ec.cache
}

// calmNode: executing the node's code from the top neither navigates nor can fail: no MOVE/CATCH/CROAK before the
// HALT, and every symbol it loads has handlers that never fail, set no flags and respect the declared size.
func calmNode(ec *eCase, name string) bool {
	code, ok := ec.nodes[name]
	if !ok {
		return false
	}
	is, halted := nodeInstrs(code)
	if !halted {
		return false
	}
	sinks := 0
	for _, i := range is {
		switch i.Op {
		case "MOVE", "CATCH", "CROAK", "RELOAD":
			return false
		case "MSINK":
			sinks++
		case "LOAD":
			if !ec.capacityNeverExceeded() {
				return false // the LOAD can fail for lack of cache capacity and fail over to the catch node
			}
			if i.N == 0 {
				sinks++
			}
			have := false
			for _, r := range ec.exts {
				if r.sym != i.A {
					continue
				}
				have = true
				if r.fail || r.status != 0 || len(r.set) > 0 || len(r.reset) > 0 || (i.N > 0 && len(r.content) > int(i.N)) {
					return false
				}
			}
			if !have {
				return false
			}
		}
	}
	return sinks <= 1
}

// terminalNode: code without HALT and without navigation whose loads cannot fail: running it ends the session.
func terminalNode(ec *eCase, code []byte) bool {
	b := code
	for len(b) >= 2 {
		s, rest, err, p := decodeStep(b)
		if err != nil || p != nil {
			return false
		}
		gi, ok := parseGInstr(s)
		if !ok {
			return false
		}
		switch gi.Op {
		case "HALT", "MOVE", "CATCH", "CROAK", "INCMP", "RELOAD", "MSINK":
			return false
		case "LOAD":
			if !ec.capacityNeverExceeded() {
				return false
			}
			have := false
			for _, r := range ec.exts {
				if r.sym == gi.A {
					have = true
					if r.fail || r.status != 0 || len(r.set) > 0 || len(r.reset) > 0 || (gi.N > 0 && len(r.content) > int(gi.N)) {
						return false
					}
				}
			}
			if !have {
				return false
			}
		}
		b = rest
	}
	return len(b) == 0
}

func appHas(ec *eCase, ops ...string) bool {
	for _, code := range ec.nodes {
		b := code
		for len(b) >= 2 {
			s, rest, err, p := decodeStep(b)
			if err != nil || p != nil {
				break
			}
			for _, o := range ops {
				if strings.HasPrefix(s, o+":") || s == o {
					return true
				}
			}
			b = rest
		}
	}
	return false
}

// loadSizes: declared LOAD sizes per symbol (only symbols declared with one size everywhere)
func loadSizes(ec *eCase) map[string]uint32 {
	m := map[string]uint32{}
	bad := map[string]bool{}
	for _, code := range ec.nodes {
		b := code
		for len(b) >= 2 {
			s, rest, err, p := decodeStep(b)
			if err != nil || p != nil {
				break
			}
			if gi, ok := parseGInstr(s); ok && gi.Op == "LOAD" {
				if v, have := m[gi.A]; have && v != gi.N {
					bad[gi.A] = true
				}
				m[gi.A] = gi.N
			}
			b = rest
		}
	}
	for k := range bad {
		delete(m, k)
	}
	return m
}

func isPrefixPath(a, b []string) bool {
	if len(a) > len(b) {
		return false
	}
	for i := range a {
		if a[i] != b[i] {
			return false
		}
	}
	return true
}

func engineOracles(c *Ctx, ec *eCase, recs []reqRec) {
	hasCroak := appHas(ec, "CROAK")
	hasReload := appHas(ec, "RELOAD")
	sizes := loadSizes(ec)
	pers := ec.mode == "pers"
	hasFirst := len(ec.firsts) > 0
	staticSym := ec.staticSyms() // served by DbResource from STATICLOAD: their calls are not logged
	var prev *reqRec
	dupSeen := false
	okSeen := false
	failedBefore := false // an earlier request of the history failed inside Exec or Flush (not a refused input)
	for i := range recs {
		r := &recs[i]
		if r.x == "stopped" {
			break
		}
		in := ec.inputs[i]
		if prev != nil {
			if _, _, _, _, nm := firstMatch(prev.code, in); nm > 1 {
				dupSeen = true
			}
		}
		where := fmt.Sprintf("request %d (input %q, mode %s)", i, trunc(string(in), 40), ec.mode)
		// ---- C01: delivered output fits
		if r.f == "ok" && ec.out > 0 && len(r.out) > ec.out {
			cls := "flush-oversize"
			if !r.cont && r.x == "ok" {
				// the session is over (graceful end, or blocked by TERMINATE with a `first` function): Flush appends the
				// exit value (last loaded content) after the page, or delivers it alone, without a size check
				cls = "flush-oversize-exit-suffix"
			}
			c.Fail("C01", cls, fmt.Sprintf("%s: %d bytes delivered, output size %d: %q", where, len(r.out), ec.out, trunc(string(r.out), 80)))
		}
		// ---- C08: no panic, session consistent (well-formed applications only)
		if ec.wf {
			if r.x == "panic" || r.f == "panic" || r.fin == "panic" {
				cls := "panic"
				msg := fmt.Sprint(r.panicV)
				failedBefore := false
				for j := 0; j < i; j++ {
					if recs[j].x == "err" && !refusedInput(ec.inputs[j]) {
						failedBefore = true
					}
					if recs[j].x == "ok" && recs[j].f == "err" {
						failedBefore = true
					}
				}
				// a duplicate selector anywhere earlier in the history leaves stale INCMP lines in the
				// pending bytecode (two moves in one request), so it taints the rest of the session
				dupSel := dupSeen
				switch {
				case strings.Contains(msg, "down into same node") && dupSel:
					cls = "panic-duplicate-selector"
				case strings.Contains(msg, "down into same node") && failedBefore:
					cls = "panic-after-failed-request"
				case msg == "maxlevel":
					cls = "panic-maxlevel"
				case strings.Contains(msg, "slice bounds out of range") && r.f == "panic":
					cls = "panic-render-cursor"
				}
				c.Fail("C08", cls, fmt.Sprintf("%s: panic: %v", where, r.panicV))
			} else if r.state != "nostate" {
				if len(r.caSnap.frames) != len(r.path)+1 {
					c.Fail("C08", scopeClass(ec), fmt.Sprintf("%s: %d cache scopes for navigation depth %d (path %v)", where, len(r.caSnap.frames), len(r.path), r.path))
				}
				if uint64(r.caSnap.use) != r.caSnap.sum() {
					c.Fail("C08", "use-ne-sum", fmt.Sprintf("%s: CacheUseSize=%d, contents %d", where, r.caSnap.use, r.caSnap.sum()))
				}
				seen := map[string]bool{}
				for _, m := range r.caSnap.frames {
					for k := range m {
						if seen[k] {
							c.Fail("C08", "key-in-two-scopes", fmt.Sprintf("%s: key %q in two scopes", where, k))
						}
						seen[k] = true
					}
				}
			}
		}
		if r.x == "panic" || r.f == "panic" {
			break
		}
		// ---- C17: refused input has no effect
		if refusedInput(in) && (!hasFirst || len(in) <= 255) {
			if r.x != "err" {
				c.Fail("C17", "refused-not-rejected", fmt.Sprintf("%s: refused input did not produce an error (x=%s)", where, r.x))
			}
			if len(r.calls) > 0 {
				c.Fail("C17", "refused-ran-code", fmt.Sprintf("%s: %d external calls on a refused input", where, len(r.calls)))
			}
			// (not checked before the engine's first successful request: `prepare` then applies the configured
			// language; nor right after a failed Flush, whose pending unwind any next Exec performs)
			// (mode ws: a new engine prepares the state object the client kept; after a session end that object is a new session's
			// state again and the preparation applies the configured language to it, whatever the input - same exemption as above;
			// with a configured language every new engine's preparation raises the LANG flag on the kept state object, also mid-session)
			if prev != nil && prev.state != "nostate" && okSeen && prev.f != "err" && !sameState(prev, r) && prev.x != "panic" &&
				!(ec.mode == "ws" && (len(prev.path) == 0 || (ec.lang != "" && sameStateButLangFlag(prev, r)))) {
				c.Fail("C17", "refused-changed-state", fmt.Sprintf("%s: state changed: %s -> %s", where, trunc(prev.state, 200), trunc(r.state, 200)))
			}
		}
		// ---- C06 / C20: while TERMINATE is set nothing runs
		if prev != nil && (pers || ec.mode == "ws") && flagBit(prev.flags, 6) && !refusedInput(in) && !(ec.roe && len(in) == 0) {
			ran := len(r.calls) > 0 || r.cont || strings.Join(prev.path, "/") != strings.Join(r.path, "/") || prev.idx != r.idx
			if r.state != "nostate" && len(r.flags) > 0 && !flagBit(r.flags, 6) {
				// only client code may lift the block: the stored flag outlives the blocked request
				c.Fail("C06", "terminate-lifted-by-blocked-request", fmt.Sprintf("%s: TERMINATE was set before the request and is no longer stored after it (flags %x -> %x)", where, prev.flags, r.flags))
				c.Fail("C20", "terminate-lifted-by-blocked-request", fmt.Sprintf("%s: TERMINATE was set before the request and is no longer stored after it (flags %x -> %x)", where, prev.flags, r.flags))
			}
			if ran {
				// C06: nothing runs, nothing is called, no position changes
				c.Fail("C06", "terminate-not-blocking", fmt.Sprintf("%s: TERMINATE was set but calls=%d out=%q cont=%v path %v->%v", where, len(r.calls), trunc(string(r.out), 40), r.cont, prev.path, r.path))
			}
			if ran || len(r.out) > 0 {
				// C20: ... and no output either
				cls := "terminate-not-blocking"
				if !ran && failedBefore {
					// the request that set TERMINATE (or a later one) failed before its page was flushed: the stored state
					// still says "page pending", and the blocked request renders it
					cls = "blocked-request-renders-after-failed-request"
				}
				c.Fail("C20", cls, fmt.Sprintf("%s: TERMINATE was set but calls=%d out=%q cont=%v path %v->%v", where, len(r.calls), trunc(string(r.out), 40), r.cont, prev.path, r.path))
			}
		}
		// ---- C06: reserved flag 5 never set; user flags follow the handlers' requests
		if flagBit(r.flags, 5) {
			c.Fail("C06", "reserved-flag-set", fmt.Sprintf("%s: flag 5 (RESERVED) is set", where))
		}
		if prev != nil || i == 0 {
			var before []byte
			if prev != nil {
				before = prev.flags
			} else {
				before = make([]byte, len(r.flags))
			}
			exp := append([]byte{}, before...)
			if len(exp) == len(r.flags) {
				for _, cl := range r.calls {
					var ru *extRule
					if cl.sym == "_first" {
						continue
					}
					for k := range ec.exts {
						if ec.exts[k].sym == cl.sym {
							ru = &ec.exts[k]
						}
					}
					_ = ru
				}
			}
		}
		// ---- C20: graceful end leaves a clean restart point
		if pers && !hasFirst && r.x == "ok" && r.f == "ok" && !r.cont && !flagBit(r.flags, 6) && len(r.code) == 0 {
			if len(r.path) != 0 {
				c.Fail("C20", "end-not-unwound", fmt.Sprintf("%s: session ended gracefully but stored path is %v", where, r.path))
			}
			if r.state != "nostate" && r.caSnap.use != 0 {
				c.Fail("C20", "end-use-not-zero", fmt.Sprintf("%s: session ended gracefully but the stored cache accounts for %d bytes in use", where, r.caSnap.use))
			}
			if r.state != "nostate" && r.caSnap.last != "" {
				c.Fail("C20", "end-last-value-kept", fmt.Sprintf("%s: session ended gracefully but the stored cache keeps the last loaded value %q, which a later end would deliver again", where, trunc(r.caSnap.last, 30)))
			}
			for _, m := range r.caSnap.frames {
				if len(m) > 0 {
					c.Fail("C20", "end-cache-not-empty", fmt.Sprintf("%s: session ended gracefully but the cache still holds %d symbols", where, len(m)))
				}
			}
			if prev != nil && len(prev.flags) == len(r.flags) && len(r.flags) > 1 && !bytes.Equal(prev.flags[1:], r.flags[1:]) && len(r.calls) == 0 {
				c.Fail("C20", "end-user-flags-lost", fmt.Sprintf("%s: client flags changed at the end: %x -> %x", where, prev.flags, r.flags))
			}
			if i+1 < len(recs) && recs[i+1].x == "ok" && !refusedInput(ec.inputs[i+1]) && ec.wf {
				nx := recs[i+1]
				if nx.cont && (len(nx.path) == 0 || nx.path[0] != ec.root) {
					c.Fail("C20", "restart-not-at-entry", fmt.Sprintf("%s: next request did not restart at the entry node: path %v", where, nx.path))
				}
			}
		}
		// ---- C03 / C04: routing by the first matching INCMP (simple targets only)
		if prev != nil && prev.x == "ok" && r.x == "ok" && !refusedInput(in) && !hasFirst && !ec.roe && prev.cont && len(prev.code) > 0 {
			t, matched, ok, ended, nmatch := firstMatch(prev.code, in)
			if ok && matched && nmatch > 1 && !flagBit(prev.flags, 6) {
				// several INCMP lines match: only the first may move
				if code, have := ec.nodes[t]; have && simpleNode(code) && r.cont {
					exp := append(append([]string{}, prev.path...), t)
					if strings.Join(exp, "/") != strings.Join(r.path, "/") {
						c.Fail("C03", "duplicate-selector-second-move", fmt.Sprintf("%s: %d INCMP lines match; the first targets %q from %v, session is at %v", where, nmatch, t, prev.path, r.path))
					}
				}
			}
			if ok && (nmatch <= 1 || !matched) {
				if !matched && !ended {
					// code continues after the INCMP block: fallthrough executes it, no catch expected
				} else if !matched {
					if len(r.path) == 0 || r.path[len(r.path)-1] != "_catch" {
						if _, have := ec.nodes["_catch"]; have && !flagBit(prev.flags, 6) {
							c.Fail("C03", "nomatch-not-catch", fmt.Sprintf("%s: no INCMP matches but the session is at %v", where, r.path))
						}
					} else if r.f == "ok" && !flagBit(prev.flags, 6) && !strings.HasPrefix(string(r.out), "invalid input: '"+string(in)+"'") {
						c.Fail("C03", "nomatch-no-message", fmt.Sprintf("%s: no INCMP matches but the page does not start with the invalid-input message: %q", where, trunc(string(r.out), 60)))
					}
				} else if code, have := ec.nodes[t]; have && ended && !flagBit(prev.flags, 6) && ec.wf && terminalNode(ec, code) && r.f == "ok" {
					// the target runs out of code without a HALT: that is the end of the session, whatever INCMP lines follow the matching one
					if r.cont {
						c.Fail("C20", "dead-end-not-terminating", fmt.Sprintf("%s: the first matching INCMP targets %q, whose code ends without HALT, but the request reports continue (session at %v)", where, t, r.path))
					}
					// the target ends the session: its own page is what the client gets, not the catch node's
					if tp, okT := tblLookup(ec.tpls, r.lang, t); okT && !strings.Contains(tp, "{{") && ec.out == 0 {
						if !strings.HasPrefix(string(r.out), tp) {
							c.Fail("C03", "first-match", fmt.Sprintf("%s: first matching INCMP targets the terminal node %q but the page delivered is %q", where, t, trunc(string(r.out), 60)))
						}
					}
				} else if !ended {
					// instructions after the INCMP block run after the move and may navigate themselves
				} else if code, have := ec.nodes[t]; have && simpleNode(code) && !flagBit(prev.flags, 6) && r.cont {
					exp := append(append([]string{}, prev.path...), t)
					if strings.Join(exp, "/") != strings.Join(r.path, "/") || r.idx != 0 {
						c.Fail("C03", "first-match", fmt.Sprintf("%s: first matching INCMP targets %q from %v, session is at %v idx %d", where, t, prev.path, r.path, r.idx))
						c.Fail("C04", "move-table", fmt.Sprintf("%s: descent to %q from %v should give %v idx 0, got %v idx %d", where, t, prev.path, exp, r.path, r.idx))
					}
				} else if t == ">" && !flagBit(prev.flags, 6) {
					if strings.Join(prev.path, "/") != strings.Join(r.path, "/") || r.idx != prev.idx+1 {
						c.Fail("C04", "move-table", fmt.Sprintf("%s: '>' from %v idx %d gave %v idx %d", where, prev.path, prev.idx, r.path, r.idx))
					}
				} else if t == "<" && prev.idx == 0 && !flagBit(prev.flags, 6) && ended && ec.wf && calmNode(ec, "_catch") {
					// "previous" on the first page is an index error: the input counts as unmatched
					if len(r.path) == 0 || r.path[len(r.path)-1] != "_catch" {
						c.Fail("C03", "previous-on-first-page-not-catch", fmt.Sprintf("%s: '<' matched on page 0 of %v but the session is at %v (cont=%v)", where, prev.path, r.path, r.cont))
					} else if r.f == "ok" && !strings.HasPrefix(string(r.out), "invalid input: '"+string(in)+"'") {
						c.Fail("C03", "nomatch-no-message", fmt.Sprintf("%s: '<' on page 0 but the page does not start with the invalid-input message: %q", where, trunc(string(r.out), 60)))
					}
				} else if t == "<" && prev.idx > 0 && !flagBit(prev.flags, 6) {
					if strings.Join(prev.path, "/") != strings.Join(r.path, "/") || r.idx != prev.idx-1 {
						c.Fail("C04", "move-table", fmt.Sprintf("%s: '<' from %v idx %d gave %v idx %d", where, prev.path, prev.idx, r.path, r.idx))
					}
				} else if !flagBit(prev.flags, 6) && r.cont && ec.wf && len(prev.path) > 0 {
					// the documented move table for the remaining targets, when the node arrived at is calm
					var exp []string
					expIdx := uint16(0)
					okT := false
					switch {
					case t == "_" && len(prev.path) >= 2 && calmNode(ec, prev.path[len(prev.path)-2]):
						exp, okT = append([]string{}, prev.path[:len(prev.path)-1]...), true
					case t == "^" && calmNode(ec, prev.path[0]):
						exp, okT = []string{prev.path[0]}, true
						if len(prev.path) == 1 {
							expIdx = prev.idx
						}
					case t == "." && calmNode(ec, prev.path[len(prev.path)-1]):
						exp, expIdx, okT = append([]string{}, prev.path...), prev.idx, true
					case t != "_" && t != "^" && t != "." && t != ">" && t != "<" && calmNode(ec, t) && t != prev.path[len(prev.path)-1]:
						exp, okT = append(append([]string{}, prev.path...), t), true
					}
					if okT && (strings.Join(exp, "/") != strings.Join(r.path, "/") || r.idx != expIdx) {
						c.Fail("C04", "move-table", fmt.Sprintf("%s: target %q from %v idx %d should give %v idx %d, got %v idx %d", where, t, prev.path, prev.idx, exp, expIdx, r.path, r.idx))
					}
					// ---- C05: entering a calm node calls exactly the LOADs whose symbol is not visible yet
					if okT && t != "_" && t != "^" && t != "." && !hasCroak && strings.Join(exp, "/") == strings.Join(r.path, "/") {
						is, _ := nodeInstrs(ec.nodes[t])
						for _, gi := range is {
							if gi.Op != "LOAD" {
								continue
							}
							visible := false
							for li, fr := range prev.caSnap.frames {
								if _, have := fr[gi.A]; have && li <= len(prev.path) {
									visible = true
								}
							}
							called := 0
							for _, cl := range r.calls {
								if cl.sym == gi.A {
									called++
								}
							}
							if visible && called > 0 {
								c.Fail("C05", "load-while-visible", fmt.Sprintf("%s: LOAD %s ran its function although the symbol was visible (loaded at an outer level)", where, gi.A))
							}
							if !visible && called != 1 && !staticSym[gi.A] {
								c.Fail("C05", "load-not-run", fmt.Sprintf("%s: entering %q, LOAD %s of a symbol that is not visible ran its function %d times", where, t, gi.A, called))
							}
						}
					}
				}
			}
		}
		// ---- C04: reset-on-empty-input restarts at the entry node, from wherever the session is (the entry node included)
		if ec.roe && len(in) == 0 && prev != nil && prev.x == "ok" && r.x == "ok" && prev.cont && ec.wf && !hasFirst && len(prev.path) > 0 &&
			calmNode(ec, ec.root) && !failedBefore && !dupSeen {
			if len(r.path) != 1 || r.path[0] != ec.root || r.idx != 0 {
				c.Fail("C04", "reset-on-empty-input", fmt.Sprintf("%s: empty input with ResetOnEmptyInput at %v idx %d should restart at [%s] idx 0, session is at %v idx %d", where, prev.path, prev.idx, ec.root, r.path, r.idx))
			}
		}
		// ---- C04 / C06: a relative target is resolved by the move table, never fetched from the resource as a node
		for _, l := range r.lookups {
			if l.kind == "code" && (l.sym == "_" || l.sym == "^" || l.sym == "." || l.sym == ">" || l.sym == "<") {
				c.Fail("C04", "relative-target-fetched-as-node", fmt.Sprintf("%s: the resource was asked for the code of %q (session at %v)", where, l.sym, r.path))
				c.Fail("C06", "relative-target-fetched-as-node", fmt.Sprintf("%s: the resource was asked for the code of %q (session at %v)", where, l.sym, r.path))
				break
			}
		}
		// ---- C06: CATCH / CROAK on a client flag met while the input is being handled
		if prev != nil && prev.x == "ok" && r.x == "ok" && !refusedInput(in) && !hasFirst && !ec.roe && prev.cont && len(prev.code) > 0 &&
			!flagBit(prev.flags, 6) && ec.wf && len(prev.path) > 0 {
			kind, t, reading := signalOutcome(prev.code, in, prev.flags)
			if kind != "" {
				c.Count(fmt.Sprintf("oracle:signal-%s-reading=%v", kind, reading))
			}
			last := ""
			if len(r.path) > 0 {
				last = r.path[len(r.path)-1]
			}
			switch kind {
			case "croak":
				if reading && prev.path[len(prev.path)-1] != "_catch" && calmNode(ec, "_catch") {
					if last != "_catch" || !r.cont {
						c.Fail("C06", "croak-input-not-catch", fmt.Sprintf("%s: CROAK fired while input %q was being handled at %v; the session should be at the catch node, it is at %v (cont=%v)", where, in, prev.path, r.path, r.cont))
					}
				} else if !reading && r.cont {
					c.Fail("C06", "croak-not-terminated", fmt.Sprintf("%s: CROAK fired outside input handling at %v but the session continues at %v", where, prev.path, r.path))
				}
			case "catch":
				if code, have := ec.nodes[t]; have && simpleNode(code) && r.cont {
					exp := append(append([]string{}, prev.path...), t)
					if strings.Join(exp, "/") != strings.Join(r.path, "/") {
						c.Fail("C06", "catch-not-moved", fmt.Sprintf("%s: CATCH %s matched its flag at %v, session is at %v", where, t, prev.path, r.path))
					}
				}
			case "incmp":
				// every CATCH/CROAK before the matching INCMP was a no-op: the INCMP decides
				if code, have := ec.nodes[t]; have && simpleNode(code) && r.cont {
					exp := append(append([]string{}, prev.path...), t)
					if strings.Join(exp, "/") != strings.Join(r.path, "/") {
						c.Fail("C06", "signal-nonmatching-acted", fmt.Sprintf("%s: no CATCH/CROAK matched its flag, INCMP %s decides from %v, session is at %v", where, t, prev.path, r.path))
					}
				}
			}
		}
		// ---- C06: a CATCH or CROAK whose flag test fails does nothing: the menu entries declared before and after it in the same
		// stretch of code (single-HALT node, no move, load or sink in that stretch) are all on the page the stretch ends with
		// (at most one move in the request: a double move through duplicate selectors - open finding C03-duplicate-selector - runs a
		// node's code in pieces)
		if r.x == "ok" && r.f == "ok" && r.cont && len(r.path) > 0 && ec.wf && (prev == nil || (prev.x == "ok" && r.moves <= prev.moves+1)) {
			code := ec.nodes[r.path[len(r.path)-1]]
			if is, halted := nodeInstrs(code); halted && haltCount(code) == 1 {
				calm, signals := true, 0
				seenSignal := false
				for _, gi := range is {
					switch gi.Op {
					case "MOVE", "INCMP", "MSINK":
						calm = false
					case "LOAD", "RELOAD":
						if seenSignal {
							calm = false // flags may change between the signal test and the end of the request
						}
					case "CATCH", "CROAK":
						seenSignal = true
						signals++
						bit := int(gi.N)
						if bit/8 >= len(r.flags) {
							calm = false
						} else if (r.flags[bit/8]&(1<<uint(bit%8)) != 0) == gi.M {
							calm = false // it matches
						}
					}
				}
				if calm && signals > 0 {
					sep := ec.sep
					if sep == "" {
						sep = ":"
					}
					lastSignal := -1
					for k, gi := range is {
						if gi.Op == "CATCH" || gi.Op == "CROAK" {
							lastSignal = k
						}
					}
					// the entries declared BEFORE the signal test are the ones a test that acts would take away
					for k, gi := range is {
						if k < lastSignal && gi.Op == "MOUT" && !strings.Contains("\n"+string(r.out), "\n"+gi.B+sep) {
							c.Fail("C06", "nonmatching-signal-acted", fmt.Sprintf("%s: no CATCH/CROAK of %v matches its flag, yet the page lacks the menu entry %q declared in the same code: %q", where, r.path, gi.B, trunc(string(r.out), 120)))
						}
					}
				}
			}
		}
		// ---- C05: what a LOAD or RELOAD function answered last in this request is the value the symbol holds afterwards (also an
		// empty answer), as long as the symbol is still visible, the answer respects the declared size and no capacity is configured
		if r.x == "ok" && r.state != "nostate" && ec.cache == 0 && ec.wf && !ec.opt("memcap") {
			last := map[string]callRec{}
			for _, cl := range r.calls {
				if cl.answered {
					last[cl.sym] = cl
				}
			}
			for sym, cl := range last {
				lim, known := sizes[sym]
				if !known || cl.failed || cl.setsLang || (lim > 0 && len(cl.content) > int(lim)) || lim > 65535 {
					continue
				}
				for li, fr := range r.caSnap.frames {
					if v, have := fr[sym]; have && v != cl.content {
						c.Fail("C05", "answer-not-stored", fmt.Sprintf("%s: the function for %q answered %q last in this request, but level %d holds %q", where, sym, trunc(cl.content, 40), li, trunc(v, 40)))
					}
				}
			}
		}
		// ---- C02: on every page but the first of a node that declares MPREV, the previous entry is offered
		if r.x == "ok" && r.f == "ok" && r.cont && r.idx > 0 && len(r.path) > 0 && ec.wf && ec.out > 0 {
			// (a node with a second HALT renders its later pages from code that need not declare the entry again)
			if is, halted := nodeInstrs(ec.nodes[r.path[len(r.path)-1]]); halted && haltCount(ec.nodes[r.path[len(r.path)-1]]) == 1 {
				for _, gi := range is {
					if gi.Op != "MPREV" {
						continue
					}
					sep := ec.sep
					if sep == "" {
						sep = ":"
					}
					if !strings.Contains("\n"+string(r.out), "\n"+gi.B+sep) {
						c.Fail("C02", "previous-not-offered", fmt.Sprintf("%s: page %d of %v does not offer the previous entry %q declared by MPREV: %q", where, r.idx, r.path, gi.B, trunc(string(r.out), 120)))
					}
				}
			}
		}
		// ---- C09: the configured capacity bounds what is stored, also when it was set on the cache object handed to the engine
		if r.state != "nostate" && r.x != "panic" && ec.cache > 0 {
			total := 0
			for _, fr := range r.caSnap.frames {
				for _, v := range fr {
					total += len(v)
				}
			}
			if total > ec.cache {
				c.Fail("C09", "capacity-not-enforced", fmt.Sprintf("%s: the cache holds %d bytes, its capacity is %d", where, total, ec.cache))
			}
		}
		// ---- C05: scope lifetime and size limits, from the stored cache
		if r.state != "nostate" && r.x != "panic" && ec.wf && !hasCroak && r.cont {
			if len(r.caSnap.frames) > len(r.path)+1 {
				for li := len(r.path) + 1; li < len(r.caSnap.frames); li++ {
					for k := range r.caSnap.frames[li] {
						c.Fail("C05", "value-outlives-level", fmt.Sprintf("%s: %q is still cached at level %d although the session is at depth %d (%v)", where, k, li, len(r.path), r.path))
					}
				}
			}
			for li, fr := range r.caSnap.frames {
				for k, v := range fr {
					if lim, ok := sizes[k]; ok && lim > 0 && len(v) > int(lim) {
						c.Fail("C05", "oversize-value-stored", fmt.Sprintf("%s: %q holds %d bytes at level %d, its LOAD declares at most %d", where, k, len(v), li, lim))
					}
				}
			}
			if prev != nil && prev.state != "nostate" && prev.cont && prev.x == "ok" && prev.f == "ok" && r.x == "ok" && !hasReload && !refusedInput(in) &&
				r.moves <= prev.moves+1 && // at most one move: nothing was left and re-entered in between
				(isPrefixPath(prev.path, r.path) || isPrefixPath(r.path, prev.path)) {
				keep := len(prev.path)
				if len(r.path) < keep {
					keep = len(r.path)
				}
				for li, fr := range prev.caSnap.frames {
					if li > keep {
						continue
					}
					for k := range fr {
						for _, cl := range r.calls {
							if cl.sym == k {
								c.Fail("C05", "load-while-visible", fmt.Sprintf("%s: the function of %q ran although the symbol stayed visible at level %d (path %v -> %v)", where, k, li, prev.path, r.path))
							}
						}
					}
				}
			}
		}
		// ---- C18: a symbol loaded in this request, with the language unchanged, holds the entry of the session language
		if prev != nil && prev.x == "ok" && r.x == "ok" && r.state != "nostate" && prev.state != "nostate" && ec.wf && !hasFirst && r.lang != nil && prev.lang != nil && *r.lang == *prev.lang && r.cont {
			for li, fr := range r.caSnap.frames {
				for k, v := range fr {
					was := false
					for _, pf := range prev.caSnap.frames {
						if _, have := pf[k]; have {
							was = true
						}
					}
					if was {
						continue
					}
					// content-only rules: one for the session language and a different default
					var tr, def *string
					plain := true
					for ri := range ec.exts {
						ru := &ec.exts[ri]
						if ru.sym != k {
							continue
						}
						if ru.callIdx >= 0 || ru.status != 0 || len(ru.set) > 0 || len(ru.reset) > 0 || ru.fail {
							plain = false
						}
						if ru.lang != nil && *ru.lang == *r.lang && tr == nil {
							tr = &ru.content
						}
						if ru.lang == nil && def == nil {
							def = &ru.content
						}
					}
					if plain && tr != nil && def != nil && *tr != *def && v == *def {
						c.Fail("C18", "symbol-language", fmt.Sprintf("%s: %q was loaded at level %d while the session language is %s, but holds the default entry %q instead of %q", where, k, li, *r.lang, trunc(v, 30), trunc(*tr, 30)))
					}
				}
			}
		}
		// ---- C18: a LANG handler's valid code is the session language afterwards; nothing else changes the language
		if r.x == "ok" && r.state != "nostate" && !hasFirst && prev != nil && prev.state != "nostate" {
			var selected *string // the ISO form of the last valid code a LANG handler returned in this request
			langCall := false
			for _, cl := range r.calls {
				for ri := range ec.exts {
					ru := &ec.exts[ri]
					if ru.sym != cl.sym || ru.callIdx >= 0 || ru.lang != nil {
						continue
					}
					has7 := false
					for _, f := range ru.set {
						if f == 7 {
							has7 = true
						}
					}
					if has7 {
						langCall = true
						if iso, ok := ec.langof[ru.content]; ok && !ru.fail && ru.status == 0 {
							iso := iso
							selected = &iso
						}
					}
				}
			}
			same := (prev.lang == nil && r.lang == nil) || (prev.lang != nil && r.lang != nil && *prev.lang == *r.lang)
			if selected != nil && (r.lang == nil || *r.lang != *selected) && !flagBit(prev.flags, 6) {
				c.Fail("C18", "selection-ignored", fmt.Sprintf("%s: a handler selected the valid code for %s, the session language afterwards is %s", where, *selected, optS(r.lang)))
			}
			if !langCall && !same && !(ec.lang != "" && prev.lang == nil) { // (the configured language is applied when the engine is first prepared)
				c.Fail("C18", "language-changed-without-selection", fmt.Sprintf("%s: no handler asked for a language in this request but it changed from %s to %s", where, optS(prev.lang), optS(r.lang)))
			}
		}
		// ---- C18: once a handler has selected a language, the rest of the same run uses it
		if r.x == "ok" && r.lang != nil && !hasFirst {
			after := false
			for _, cl := range r.calls {
				if after && (cl.lang == nil || *cl.lang != *r.lang) {
					c.Fail("C18", "call-language-in-run", fmt.Sprintf("%s: %q was called in language %s after a handler had selected %s in the same request", where, cl.sym, optS(cl.lang), *r.lang))
					break
				}
				if cl.sym == "ll" || cl.sym == "setlang" {
					// the handler's code is valid exactly when the session language now is its ISO form
					for _, ru := range ec.exts {
						if ru.sym == cl.sym && ec.langof[ru.content] == *r.lang && (prev == nil || prev.lang == nil || *prev.lang != *r.lang) {
							after = true
						}
					}
				}
			}
		}
		// ---- C06: a handler's TERMINATE request sticks (also with a `first` function: only ITS request is transient)
		if r.x == "ok" && r.state != "nostate" {
			for _, cl := range r.calls {
				all, any := true, false
				for _, ru := range ec.exts {
					if ru.sym != cl.sym {
						continue
					}
					any = true
					has := false
					for _, f := range ru.set {
						if f == 6 {
							has = true
						}
					}
					for _, f := range ru.reset {
						if f == 6 {
							has = false
						}
					}
					if !has || ru.fail {
						all = false
					}
				}
				if any && all && !flagBit(r.flags, 6) && len(r.flags) > 0 {
					c.Fail("C06", "terminate-cleared", fmt.Sprintf("%s: handler %q asked for TERMINATE but the flag is not set after the request (flags %x)", where, cl.sym, r.flags))
					c.Fail("C20", "terminate-cleared", fmt.Sprintf("%s: handler %q asked for TERMINATE but the flag is not set after the request (flags %x)", where, cl.sym, r.flags))
					break
				}
			}
		}
		// ---- C18: the engine's first function is an external function like any other: it is called in the language the session
		// had when the request came in (also after save and resume)
		if prev != nil && prev.x == "ok" && prev.state != "nostate" && prev.cont && !refusedInput(in) {
			for _, cl := range r.calls {
				if cl.sym != "_first" {
					continue
				}
				ok := (cl.lang == nil && prev.lang == nil) || (cl.lang != nil && prev.lang != nil && *cl.lang == *prev.lang)
				if !ok {
					c.Fail("C18", "first-function-language", fmt.Sprintf("%s: the first function was called in language %s, the session language is %s", where, optS(cl.lang), optS(prev.lang)))
				}
				break
			}
		}
		// ---- C18: lookups carry the session language (requests without a language change)
		if prev != nil && prev.x != "panic" {
			same := (prev.lang == nil && r.lang == nil) || (prev.lang != nil && r.lang != nil && *prev.lang == *r.lang)
			changed := false
			for _, cl := range r.calls {
				if cl.sym == "ll" || cl.sym == "_first" {
					changed = true
				}
			}
			if same && !changed {
				for _, l := range r.lookups {
					ok := (l.lang == nil && r.lang == nil) || (l.lang != nil && r.lang != nil && *l.lang == *r.lang)
					if !ok {
						c.Fail("C18", "lookup-language", fmt.Sprintf("%s: %s lookup of %q made in language %s, session language is %s", where, l.kind, l.sym, optS(l.lang), optS(r.lang)))
						break
					}
				}
			}
		}
		if r.x == "ok" {
			okSeen = true
		}
		if (r.x == "err" && !refusedInput(in)) || r.f == "err" {
			failedBefore = true
		}
		prev = r
	}
	// ---- C07: the other mode gives the same outputs, cont and errors up to the end of the session
	if ec.mode == "long" && !hasFirst {
		// (with a `first` function the two modes differ by design: it runs once per engine object)
		other := ec.run("pers")
		for i := range recs {
			a, b := recs[i], other[i]
			if a.x == "stopped" || b.x == "stopped" {
				break
			}
			if a.x != b.x || a.cont != b.cont || a.f != b.f || !bytes.Equal(a.out, b.out) {
				cls := "mode-divergence"
				for j := 1; j <= i; j++ {
					// a duplicate selector made two moves in one request (finding C03-duplicate-selector): the stale
					// code of the first target then runs under the second, and what it leaves in the renderer
					// (browse entries) lives on in a long-lived engine only
					if _, _, _, _, nm := firstMatch(recs[j-1].code, ec.inputs[j]); nm > 1 {
						cls = "divergence-after-duplicate-selector"
					}
				}
				for j := 0; j < i; j++ {
					if (recs[j].x == "err" && !refusedInput(ec.inputs[j])) || (recs[j].x == "ok" && recs[j].f == "err") {
						cls = "divergence-after-failed-request"
					}
				}
				c.Fail("C07", cls, fmt.Sprintf("request %d (input %q): long-lived x=%s c=%v f=%s out=%q, persisted x=%s c=%v f=%s out=%q", i, trunc(string(ec.inputs[i]), 30),
					a.x, a.cont, a.f, trunc(string(a.out), 80), b.x, b.cont, b.f, trunc(string(b.out), 80)))
				break
			}
			if !a.cont || a.x != "ok" {
				if a.x == "ok" {
					break // end of the session
				}
			}
		}
		c.Count("c07-compared")
	}
	// ---- C17 (erasure): the history without the refused inputs gives the same remaining outputs
	nref := 0
	var kept [][]byte
	var keptIdx []int
	for i, in := range ec.inputs {
		if refusedInput(in) {
			nref++
		} else {
			kept = append(kept, in)
			keptIdx = append(keptIdx, i)
		}
	}
	if nref > 0 && !hasFirst && len(kept) > 0 {
		ec2 := *ec
		ec2.inputs = kept
		recs2 := ec2.run(ec.mode)
		for j, i := range keptIdx {
			if j >= len(recs2) || i >= len(recs) {
				break
			}
			a, b := recs[i], recs2[j]
			if a.x == "stopped" || b.x == "stopped" {
				break
			}
			if a.x != b.x || a.cont != b.cont || a.f != b.f || !bytes.Equal(a.out, b.out) {
				c.Fail("C17", "refused-not-erasable", fmt.Sprintf("input %d (%q) behaves differently when the %d refused inputs before it are dropped: x=%s/%s c=%v/%v f=%s/%s out=%q/%q", i,
					trunc(string(ec.inputs[i]), 30), nref, a.x, b.x, a.cont, b.cont, a.f, b.f, trunc(string(a.out), 60), trunc(string(b.out), 60)))
				break
			}
		}
		c.Count("c17-erasure-compared")
	}
}

// scopeClass: applications containing CROAK are known to lose the scope/level lockstep (CROAK resets
// the cache to one scope while the navigation stack keeps its depth).
func scopeClass(ec *eCase) string {
	for _, code := range ec.nodes {
		b := code
		for len(b) >= 2 {
			s, rest, err, p := decodeStep(b)
			if err != nil || p != nil {
				break
			}
			if strings.HasPrefix(s, "CROAK") {
				return "scope-count-after-croak"
			}
			b = rest
		}
	}
	return "scope-count"
}
