package main

// Suite "pg": C13 — the real db/postgres wrapper over the in-process fake driver with injected faults.
// Exhaustive over operation sequences up to a length bound and every choice of one or two failing
// primitive calls (plus a random stream of longer sequences).

import (
	"context"
	"fmt"
	"sort"
	"strconv"
	"strings"

	"git.defalsify.org/vise.git/db"
	pgdb "git.defalsify.org/vise.git/db/postgres"
	"git.defalsify.org/vise.git/lang"

	"verif/harness/internal/pgfake"
)

// the wrapper is used with the (unlocked) TEMPLATE type, which is language-scoped: storage key = 0x04 || key,
// translation key = 0x04 || key || "_nor"
func pgStorageKey(k []byte) []byte { return append([]byte{db.DATATYPE_TEMPLATE}, k...) }

func pgStateOut(f *pgfake.Fake) string {
	var com []string
	for k, v := range f.Committed {
		com = append(com, hx([]byte(k))+"="+hx(v))
	}
	sort.Strings(com)
	open := 0
	if len(f.Open) > 0 {
		open = 1
	}
	return fmt.Sprintf("%s|%s|%d", strings.Join(f.Log, ","), strings.Join(com, ","), open)
}

var pgAlphabet = []string{"W:61:31", "W:62:32", "W:61:33", "G:-:61", "G:-:62", "G:-:63", "B", "E", "A", "C"}

func init() {
	suites["pg"] = &Suite{
		Gen: func(c *Ctx) []string {
			var ls []string
			maxLen := 3
			if c.Thorough() {
				maxLen = 4
			}
			// exhaustive sequences over the alphabet (Close only last) x {no fault, every single fault, every pair}
			var rec func(prefix []string)
			emit := func(ops []string) {
				// count primitive calls of the fault-free run to bound the fault positions
				n := pgCountCalls(ops)
				s := strings.Join(ops, ";")
				ls = append(ls, "- "+s)
				for i := 0; i < n+1; i++ {
					ls = append(ls, fmt.Sprintf("%d %s", i, s))
				}
				if len(ops) <= 3 || c.Thorough() {
					for i := 0; i < n+1; i++ {
						for j := i + 1; j < n+2; j++ {
							ls = append(ls, fmt.Sprintf("%d,%d %s", i, j, s))
						}
					}
				}
			}
			rec = func(prefix []string) {
				if len(prefix) > 0 {
					emit(prefix)
				}
				if len(prefix) == maxLen || (len(prefix) > 0 && prefix[len(prefix)-1] == "C") {
					return
				}
				for _, a := range pgAlphabet {
					rec(append(append([]string{}, prefix...), a))
				}
			}
			rec(nil)
			// longer random sequences with translation keys and up to three faults
			for k := 0; k < c.Pick(1500, 30000); k++ {
				n := 4 + c.Rng.Intn(8)
				var ops []string
				for i := 0; i < n; i++ {
					switch x := c.Rng.Intn(12); {
					case x < 4:
						ops = append(ops, fmt.Sprintf("W:%s:%s", hxs([]string{"a", "b", "c_nor", "c"}[c.Rng.Intn(4)]), hxs("v"+strconv.Itoa(i))))
					case x < 8:
						key := []string{"a", "b", "c", "d"}[c.Rng.Intn(4)]
						tr := "-"
						if c.Rng.Intn(3) == 0 {
							tr = hxs(key + "_nor") // the translation key the wrapper derives for a language-scoped read
						}
						ops = append(ops, fmt.Sprintf("G:%s:%s", tr, hxs(key)))
					case x < 9:
						ops = append(ops, "B")
					case x < 10:
						ops = append(ops, "E")
					case x < 11:
						ops = append(ops, "A")
					default:
						if i == n-1 {
							ops = append(ops, "C")
						} else {
							ops = append(ops, "G:-:61")
						}
					}
				}
				nf := c.Rng.Intn(4)
				var fs []string
				seen := map[int]bool{}
				for i := 0; i < nf; i++ {
					f := c.Rng.Intn(3 * n)
					if !seen[f] {
						seen[f] = true
						fs = append(fs, strconv.Itoa(f))
					}
				}
				fl := "-"
				if len(fs) > 0 {
					fl = strings.Join(fs, ",")
				}
				ls = append(ls, fl+" "+strings.Join(ops, ";"))
			}
			// explicit transactions around language-scoped reads that hit a stored translation, ended by Stop or Abort
			for k := 0; k < c.Pick(400, 6000); k++ {
				ops := []string{"W:" + hxs("c_nor") + ":" + hxs("t0")}
				if c.Rng.Intn(2) == 0 {
					ops = append(ops, "W:"+hxs("d_nor")+":"+hxs("t1"))
				}
				ops = append(ops, "B")
				n := 1 + c.Rng.Intn(5)
				for i := 0; i < n; i++ {
					switch c.Rng.Intn(5) {
					case 0, 1:
						ops = append(ops, fmt.Sprintf("W:%s:%s", hxs([]string{"a", "b", "c", "c_nor"}[c.Rng.Intn(4)]), hxs("w"+strconv.Itoa(i))))
					case 2, 3:
						key := []string{"c", "c", "d", "a"}[c.Rng.Intn(4)]
						ops = append(ops, fmt.Sprintf("G:%s:%s", hxs(key+"_nor"), hxs(key)))
					default:
						ops = append(ops, "G:-:"+hxs([]string{"a", "c", "zz"}[c.Rng.Intn(3)]))
					}
				}
				ops = append(ops, []string{"E", "A", "A"}[c.Rng.Intn(3)], "G:-:"+hxs("a"))
				fl := "-"
				if c.Rng.Intn(4) == 0 {
					fl = strconv.Itoa(c.Rng.Intn(3 * len(ops)))
				}
				ls = append(ls, fl+" "+strings.Join(ops, ";"))
			}
			return ls
		},
		Exec: func(c *Ctx, line string) string {
			f := strings.Fields(line)
			if len(f) != 2 {
				return "bad-op"
			}
			fake := pgfake.New()
			maxFault := -1
			if f[0] != "-" {
				for _, x := range strings.Split(f[0], ",") {
					i, _ := strconv.Atoi(x)
					fake.Faults[i] = true
					if i > maxFault {
						maxFault = i
					}
				}
			}
			outs, _ := pgRun(c, fake, strings.Split(f[1], ";"), maxFault, true)
			c.Count(fmt.Sprintf("faults:%d", len(fake.Faults)))
			return strings.Join(outs, " # ")
		},
	}
}

func pgCountCalls(ops []string) int {
	fake := pgfake.New()
	pgRun(nil, fake, ops, -1, false)
	return fake.Calls
}

// pgRun executes the operations on the real wrapper; with oracle=true it checks C13 as it goes.
func pgRun(c *Ctx, fake *pgfake.Fake, ops []string, maxFault int, oracle bool) ([]string, bool) {
	ctx := context.Background()
	store := pgdb.NewPgDb().WithConnection(fake)
	store.SetLock(db.DATATYPE_TEMPLATE, false)
	store.SetPrefix(db.DATATYPE_TEMPLATE)
	var outs []string
	everMulti := false // Start succeeded at some point: the handle stays in multi mode (Stop does not leave it)
	inMulti := false   // between a successful Start and the next Stop/Abort/Close/failed operation
	var multiWrites map[string][]byte
	var atStart map[string]string // committed table when the explicit transaction began
	for oi, op := range ops {
		p := strings.Split(op, ":")
		where := fmt.Sprintf("op %d (%s) of %v", oi, op, ops)
		callsBefore := fake.Calls
		res := "bad-op"
		var opErr error
		isNotFound := false
		func() {
			defer func() {
				if r := recover(); r != nil {
					res = "panic"
					if oracle {
						c.Fail("C13", "panic", fmt.Sprintf("%s panicked: %v", where, r))
					}
				}
			}()
			switch p[0] {
			case "W":
				opErr = store.Put(ctx, unhx(p[1]), unhx(p[2]))
				res = errTag(opErr)
			case "G":
				gctx := ctx
				if p[1] != "-" {
					// a translation key <key>_nor is consulted first: emulate with a language on the context when the
					// translation key asked for is the default key + "_nor"
					gctx = context.WithValue(ctx, "Language", lang.Language{Code: "nor", Name: "nor"})
				}
				var v []byte
				v, opErr = store.Get(gctx, unhx(p[2]))
				switch {
				case opErr == nil:
					res = "val:" + hx(v)
				case db.IsNotFound(opErr):
					res = "notfound"
					isNotFound = true
				default:
					res = "err"
				}
			case "B":
				opErr = store.Start(ctx)
				res = errTag(opErr)
			case "E":
				opErr = store.Stop(ctx)
				res = errTag(opErr)
			case "A":
				store.Abort(ctx)
				res = "ok"
			case "C":
				opErr = store.Close(ctx)
				res = errTag(opErr)
			}
		}()
		if oracle && res != "panic" {
			// (1) a primitive call failed during this operation -> the operation reports an error
			faultFired := false
			for i := callsBefore; i < fake.Calls; i++ {
				if fake.Faults[i] {
					faultFired = true
				}
			}
			if faultFired && opErr == nil && p[0] != "A" {
				c.Fail("C13", "fault-not-reported", fmt.Sprintf("%s: a primitive driver call failed but the operation returned no error", where))
			}
			// (2) every transaction begun is ended at most once, never two open
			ended := map[string]int{}
			for _, e := range fake.Log {
				kv := strings.SplitN(e, ":", 2)
				if kv[0] != "begin" {
					ended[kv[1]]++
				}
			}
			for id, n := range ended {
				if n > 1 {
					c.Fail("C13", "tx-ended-twice", fmt.Sprintf("%s: transaction %s ended %d times: %v", where, id, n, fake.Log))
				}
			}
			if len(fake.Open) > 1 {
				c.Fail("C13", "two-open-tx", fmt.Sprintf("%s: %d transactions open", where, len(fake.Open)))
			}
			// bookkeeping of the explicit transaction
			switch {
			case p[0] == "B" && opErr == nil:
				everMulti, inMulti = true, true
				multiWrites = map[string][]byte{}
				atStart = map[string]string{}
				for k, v := range fake.Committed {
					atStart[k] = string(v)
				}
			case (p[0] == "W" || p[0] == "G") && inMulti && opErr == nil:
				if p[0] == "W" {
					multiWrites[string(pgStorageKey(unhx(p[1])))] = unhx(p[2])
				}
				// the writes become visible at Stop, not while the transaction is still going on
				for k, v := range multiWrites {
					if cv, was := fake.Committed[k]; was && string(cv) == string(v) {
						if sv, had := atStart[k]; !had || sv != string(v) {
							c.Fail("C13", "multi-write-visible-before-stop", fmt.Sprintf("%s: write %x=%q is already committed while the explicit transaction is open", where, k, v))
						}
					}
				}
			case inMulti && p[0] == "E":
				if opErr == nil {
					// (4) all writes of a successful multi-operation transaction are visible at Stop
					for k, v := range multiWrites {
						if string(fake.Committed[k]) != string(v) {
							c.Fail("C13", "multi-write-lost", fmt.Sprintf("%s: write %x=%q of the explicit transaction is not committed after Stop", where, k, v))
						}
					}
				}
				inMulti = false
			case inMulti && p[0] == "A":
				for k, v := range multiWrites {
					if cv, was := fake.Committed[k]; was && string(cv) == string(v) {
						if sv, had := atStart[k]; !had || sv != string(v) {
							c.Fail("C13", "multi-write-visible-after-abort", fmt.Sprintf("%s: write %x=%q is committed although the transaction was aborted", where, k, v))
						}
					}
				}
				inMulti = false
			case inMulti && (opErr != nil || p[0] == "C"):
				inMulti = false
			}
			// (3) single-operation mode: nothing stays open, acknowledged writes are committed, and once the
			// faults are used up every operation works and reads return the committed values
			if !everMulti {
				if len(fake.Open) > 0 {
					c.Fail("C13", "tx-left-open", fmt.Sprintf("%s: single-operation mode but a transaction is still open: %v", where, fake.Log))
				}
				if p[0] == "W" && opErr == nil {
					k := string(pgStorageKey(unhx(p[1])))
					if string(fake.Committed[k]) != string(unhx(p[2])) {
						c.Fail("C13", "acknowledged-write-lost", fmt.Sprintf("%s: Put returned nil but the value is not committed", where))
					}
				}
				if callsBefore > maxFault {
					if p[0] == "W" && opErr != nil {
						c.Fail("C13", "wedged", fmt.Sprintf("%s: the faults are gone (call %d > %d) but Put fails: %v", where, callsBefore, maxFault, opErr))
					}
					if p[0] == "G" {
						k := string(pgStorageKey(unhx(p[2])))
						want, have := fake.Committed[k]
						if p[1] != "-" {
							if tv, ok := fake.Committed[string(pgStorageKey(unhx(p[1])))]; ok {
								want, have = tv, true
							}
						}
						if have && (opErr != nil || res != "val:"+hx(want)) {
							c.Fail("C13", "wedged", fmt.Sprintf("%s: the faults are gone but Get returned %s (%v), committed value is %q", where, res, opErr, want))
						}
						if !have && !isNotFound {
							c.Fail("C13", "wedged", fmt.Sprintf("%s: the faults are gone but Get of a missing key returned %s (%v)", where, res, opErr))
						}
					}
				}
			}
		}
		outs = append(outs, res+"|"+pgStateOut(fake))
	}
	return outs, true
}
