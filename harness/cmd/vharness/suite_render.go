package main

// Suite "render": C01 (page fits) and C02 (pagination complete, ordered, navigable) at the level of
// render.Page.Render, on a fresh Page/Menu/Sizer per index (what the engine does per request).

import (
	"context"
	"fmt"
	"strconv"
	"strings"

	"git.defalsify.org/vise.git/cache"
	"git.defalsify.org/vise.git/render"
	"git.defalsify.org/vise.git/resource"
)

type rSym struct {
	name  string
	limit int
	value string
}

type rCase struct {
	out     int
	tpl     string
	err     *string
	menu    [][2]string
	next    *[2]string
	prev    *[2]string
	msink   bool
	syms    []rSym
	maps    []string
	labels  map[string]string
	nolabel map[string]bool
	idx     []int
}

func pairS(p [2]string) string { return hx([]byte(p[0])) + ":" + hx([]byte(p[1])) }

func (c *rCase) String() string {
	var f []string
	f = append(f, fmt.Sprintf("out=%d", c.out), "tpl="+hx([]byte(c.tpl)))
	if c.err != nil {
		f = append(f, "err="+hx([]byte(*c.err)))
	} else {
		f = append(f, "err=-")
	}
	var ms []string
	for _, m := range c.menu {
		ms = append(ms, pairS(m))
	}
	f = append(f, "menu="+dash(strings.Join(ms, ",")))
	if c.next != nil {
		f = append(f, "next="+pairS(*c.next))
	} else {
		f = append(f, "next=-")
	}
	if c.prev != nil {
		f = append(f, "prev="+pairS(*c.prev))
	} else {
		f = append(f, "prev=-")
	}
	if c.msink {
		f = append(f, "msink=1")
	} else {
		f = append(f, "msink=0")
	}
	var ss []string
	for _, s := range c.syms {
		ss = append(ss, fmt.Sprintf("%s:%d:%s", hx([]byte(s.name)), s.limit, hx([]byte(s.value))))
	}
	f = append(f, "syms="+dash(strings.Join(ss, ";")))
	var mp []string
	for _, m := range c.maps {
		mp = append(mp, hx([]byte(m)))
	}
	f = append(f, "maps="+dash(strings.Join(mp, ",")))
	var ls []string
	for _, k := range sortedKeys(c.labels) {
		ls = append(ls, hx([]byte(k))+":"+hx([]byte(c.labels[k])))
	}
	f = append(f, "labels="+dash(strings.Join(ls, ",")))
	var nl []string
	for _, k := range sortedKeysB(c.nolabel) {
		nl = append(nl, hx([]byte(k)))
	}
	f = append(f, "nolabel="+dash(strings.Join(nl, ",")))
	var is []string
	for _, i := range c.idx {
		is = append(is, strconv.Itoa(i))
	}
	f = append(f, "idx="+dash(strings.Join(is, ",")))
	return strings.Join(f, " ")
}

func dash(s string) string {
	if s == "" {
		return "-"
	}
	return s
}

func sortedKeys(m map[string]string) []string {
	var r []string
	for k := range m {
		r = append(r, k)
	}
	sortStrings(r)
	return r
}

func sortedKeysB(m map[string]bool) []string {
	var r []string
	for k := range m {
		r = append(r, k)
	}
	sortStrings(r)
	return r
}

func sortStrings(r []string) {
	for i := 1; i < len(r); i++ {
		for j := i; j > 0 && r[j] < r[j-1]; j-- {
			r[j], r[j-1] = r[j-1], r[j]
		}
	}
}

func parseRCase(line string) (*rCase, bool) {
	c := &rCase{labels: map[string]string{}, nolabel: map[string]bool{}}
	pair := func(s string) ([2]string, bool) {
		p := strings.Split(s, ":")
		if len(p) != 2 {
			return [2]string{}, false
		}
		return [2]string{string(unhx(p[0])), string(unhx(p[1]))}, true
	}
	for _, f := range strings.Fields(line) {
		kv := strings.SplitN(f, "=", 2)
		if len(kv) != 2 {
			return nil, false
		}
		v := kv[1]
		switch kv[0] {
		case "out":
			c.out, _ = strconv.Atoi(v)
		case "tpl":
			c.tpl = string(unhx(v))
		case "err":
			if v != "-" {
				s := string(unhx(v))
				c.err = &s
			}
		case "menu":
			if v != "-" {
				for _, m := range strings.Split(v, ",") {
					p, ok := pair(m)
					if !ok {
						return nil, false
					}
					c.menu = append(c.menu, p)
				}
			}
		case "next":
			if v != "-" {
				p, ok := pair(v)
				if !ok {
					return nil, false
				}
				c.next = &p
			}
		case "prev":
			if v != "-" {
				p, ok := pair(v)
				if !ok {
					return nil, false
				}
				c.prev = &p
			}
		case "msink":
			c.msink = v == "1"
		case "syms":
			if v != "-" {
				for _, s := range strings.Split(v, ";") {
					p := strings.Split(s, ":")
					if len(p) != 3 {
						return nil, false
					}
					l, _ := strconv.Atoi(p[1])
					c.syms = append(c.syms, rSym{string(unhx(p[0])), l, string(unhx(p[2]))})
				}
			}
		case "maps":
			if v != "-" {
				for _, m := range strings.Split(v, ",") {
					c.maps = append(c.maps, string(unhx(m)))
				}
			}
		case "labels":
			if v != "-" {
				for _, m := range strings.Split(v, ",") {
					p, ok := pair(m)
					if !ok {
						return nil, false
					}
					c.labels[p[0]] = p[1]
				}
			}
		case "nolabel":
			if v != "-" {
				for _, m := range strings.Split(v, ",") {
					c.nolabel[string(unhx(m))] = true
				}
			}
		case "idx":
			if v != "-" {
				for _, m := range strings.Split(v, ",") {
					i, _ := strconv.Atoi(m)
					c.idx = append(c.idx, i)
				}
			}
		}
	}
	return c, true
}

type plainErr string

func (e plainErr) Error() string { return string(e) }

// renderOne renders index idx of the case on fresh objects. status: ok|err|browse|panic
func (c *rCase) renderOne(idx int) (status string, out string) {
	defer func() {
		if r := recover(); r != nil {
			status, out = "panic", fmt.Sprint(r)
		}
	}()
	ctx := context.Background()
	rs := resource.NewMenuResource()
	rs.WithTemplateGetter(func(ctx context.Context, sym string) (string, error) { return c.tpl, nil })
	rs.WithMenuGetter(func(ctx context.Context, sym string) (string, error) {
		if c.nolabel[sym] {
			return "", fmt.Errorf("no label")
		}
		if l, ok := c.labels[sym]; ok {
			return l, nil
		}
		return sym, nil
	})
	ca := cache.NewCache()
	for _, s := range c.syms {
		ca.Add(s.name, s.value, uint16(s.limit))
	}
	mn := render.NewMenu()
	cfg := render.BrowseConfig{}
	if c.next != nil {
		cfg.NextAvailable, cfg.NextSelector, cfg.NextTitle = true, c.next[0], c.next[1]
	}
	if c.prev != nil {
		cfg.PreviousAvailable, cfg.PreviousSelector, cfg.PreviousTitle = true, c.prev[0], c.prev[1]
	}
	mn = mn.WithBrowseConfig(cfg)
	for _, m := range c.menu {
		mn.Put(m[0], m[1])
	}
	if c.msink {
		mn = mn.WithSink().WithPages()
	}
	pg := render.NewPage(ca, rs).WithMenu(mn)
	if c.out > 0 {
		pg = pg.WithSizer(render.NewSizer(uint32(c.out)))
	}
	if c.err != nil {
		pg = pg.WithError(plainErr(*c.err))
	}
	for _, m := range c.maps {
		if err := pg.Map(m); err != nil {
			return "err", err.Error()
		}
	}
	r, err := pg.Render(ctx, "x", uint16(idx))
	if err != nil {
		if _, ok := err.(*render.BrowseError); ok {
			return "browse", err.Error()
		}
		return "err", err.Error()
	}
	return "ok", r
}

func (c *rCase) label(t string) string {
	if l, ok := c.labels[t]; ok {
		return l
	}
	return t
}

// paginationOracle checks C02 on the real outputs of indices 0..last.
func (c *rCase) paginationOracle(cx *Ctx, res map[int][2]string) {
	if c.out == 0 {
		return
	}
	// which symbol is the sink?
	sink := ""
	var content string
	vals := map[string]string{}
	lim := map[string]int{}
	for _, s := range c.syms {
		vals[s.name] = s.value
		lim[s.name] = s.limit
	}
	for _, m := range c.maps {
		if lim[m] == 0 {
			sink = m
			content = vals[m]
		}
	}
	if c.msink {
		if sink != "" {
			return
		}
		sink = "_menu"
	}
	if sink == "" {
		return
	}
	for _, m := range c.maps {
		if _, ok := vals[m]; !ok {
			return // mapping an unknown symbol: Map fails, nothing to paginate
		}
	}
	for t := range c.nolabel {
		_ = t
		return
	}
	tpl := c.tpl
	var rows []string
	var ordinary []string
	if sink == "_menu" {
		tpl += "\n{{._menu}}"
		for _, m := range c.menu {
			rows = append(rows, m[0]+":"+c.label(m[1]))
		}
		if len(rows) == 0 {
			rows = []string{""}
		}
	} else {
		rows = strings.Split(content, "\n")
		for _, m := range c.menu {
			ordinary = append(ordinary, m[0]+":"+c.label(m[1]))
		}
	}
	ph := "{{." + sink + "}}"
	if strings.Count(tpl, ph) != 1 {
		return
	}
	// substitute the non-sink placeholders
	stat := tpl
	for _, m := range c.maps {
		if m != sink {
			stat = strings.ReplaceAll(stat, "{{."+m+"}}", vals[m])
		}
	}
	if strings.Contains(strings.Replace(stat, ph, "", 1), "{{") {
		return // placeholder of an unmapped symbol: every render fails
	}
	if c.err != nil {
		stat = *c.err + "\n" + stat
	}
	parts := strings.SplitN(stat, ph, 2)
	pre, suf := parts[0], parts[1]
	n := 0
	for {
		r, ok := res[n]
		if !ok || r[0] != "ok" {
			break
		}
		n++
	}
	gap := false
	for i, r := range res {
		if i > n && r[0] == "ok" {
			gap = true
		}
	}
	type pend struct{ class, detail string }
	var pending []pend
	nextDangling := false
	emptyDropOnly := false
	bothDefects := false
	noneShown := false // the pages that rendered show nothing of a content whose first row is not empty
	fail := func(class, detail string) { pending = append(pending, pend{class, detail}) }
	defer func() {
		for _, p := range pending {
			cls := p.class
			switch {
			case cls == "rows" && noneShown:
				cls = "rows-none-shown"
			case cls == "rows" && emptyDropOnly:
				cls = "rows-empty-row-dropped"
			case (cls == "rows" || cls == "next-entry" || cls == "page-after-gap") && longerBrowseLabel(c) && !emptyDropOnly:
				cls = cls + "-translated-browse-label"
			case cls == "rows" && bothDefects:
				cls = "rows-empty-dropped-and-unrenderable-page"
			case cls == "rows" && (gap || nextDangling):
				cls = "rows-unrenderable-page"
			case cls == "next-entry" && (gap || nextDangling):
				cls = "next-entry-unrenderable-page"
			}
			cx.Fail("C02", cls, p.detail)
			if cls == "rows" || cls == "rows-none-shown" {
				// rows of the content are missing or altered on pages that rendered without an error
				cx.Fail("C01", "silently-truncated", p.detail)
			}
		}
	}()
	// past the end: an error, never ok, never panic (checked for every rendered index >= n)
	for i, r := range res {
		if r[0] == "panic" {
			fail("panic", fmt.Sprintf("page %d of %d panics: %s", i, n, r[1]))
		}
		if i >= n && r[0] == "ok" && i > n {
			// an ok page after a failing one: pages are not contiguous
			fail("page-after-gap", fmt.Sprintf("page %d renders although page %d does not", i, n))
		}
	}
	if n == 0 {
		return
	}
	var got []string
	for i := 0; i < n; i++ {
		out := res[i][1]
		if !strings.HasPrefix(out, pre) {
			fail("static-part", fmt.Sprintf("page %d does not start with the static text %q: %q", i, pre, out))
			return
		}
		body := out[len(pre):]
		matched := false
		var shownNext, shownPrev bool
		var page string
		expN0 := c.next != nil && i < n-1
		expP0 := c.prev != nil && i > 0
		expCombo := 0
		if expN0 {
			expCombo |= 1
		}
		if expP0 {
			expCombo |= 2
		}
		_ = expCombo
		for _, combo := range []int{3, 2, 1, 0} {
			wn, wp := combo&1 == 1, combo&2 == 2
			if (wn && c.next == nil) || (wp && c.prev == nil) {
				continue
			}
			lines := append([]string{}, ordinary...)
			if wn {
				lines = append(lines, c.next[0]+":"+c.label(c.next[1]))
			}
			if wp {
				lines = append(lines, c.prev[0]+":"+c.label(c.prev[1]))
			}
			tail := suf
			if len(lines) > 0 {
				tail += "\n" + strings.Join(lines, "\n")
			}
			if strings.HasSuffix(body, tail) {
				page = body[:len(body)-len(tail)]
				shownNext, shownPrev = wn, wp
				matched = true
				break
			}
		}
		if !matched {
			fail("static-part", fmt.Sprintf("page %d: static template text or ordinary menu missing: %q", i, out))
			return
		}
		expN := c.next != nil && i < n-1
		expP := c.prev != nil && i > 0
		if shownNext != expN {
			fail("next-entry", fmt.Sprintf("page %d of %d: next shown=%v expected=%v", i, n, shownNext, expN))
			if i == n-1 && shownNext {
				nextDangling = true
			}
		}
		if shownPrev != expP {
			fail("prev-entry", fmt.Sprintf("page %d of %d: previous shown=%v expected=%v", i, n, shownPrev, expP))
		}
		got = append(got, strings.Split(page, "\n")...)
	}
	if strings.Join(got, "\x01") != strings.Join(rows, "\x01") {
		// is the difference explained by dropped empty rows alone?
		gi := 0
		emptyDropOnly = true
		for _, r := range rows {
			if gi < len(got) && got[gi] == r {
				gi++
			} else if r != "" {
				emptyDropOnly = false
			}
		}
		if gi != len(got) {
			emptyDropOnly = false
		}
		// rows missing at the end: is the first missing (non-empty) row one that cannot fit on a page of its own
		// (with the browse entries)? walk the content, letting empty rows drop out
		gj, k := 0, 0
		dropped := false
		for k = 0; k < len(rows) && gj < len(got); k++ {
			if got[gj] == rows[k] {
				gj++
			} else if rows[k] == "" {
				dropped = true
			} else {
				break
			}
		}
		if !emptyDropOnly && gj == len(got) {
			for k < len(rows) && rows[k] == "" {
				k++
			}
			if k < len(rows) && n >= 1 {
				if r, ok := res[n]; ok && r[0] != "ok" && r[0] != "panic" {
					// pages 0..n-1 show a clean prefix of the content and page n is an error although rows remain:
					// joinSink accepted a page (first row after a break, browse-entry reservation, uint32 wrap of the
					// reservation, translated browse labels) that the final size check then rejects
					nextDangling = true
					if dropped {
						bothDefects = true
					}
				}
			}
		}
		if len(rows) > 0 && rows[0] != "" && strings.Join(got, "") == "" {
			noneShown = true
		}
		fail("rows", fmt.Sprintf("pages 0..%d show rows %q, content rows are %q", n-1, got, rows))
	}
	// the page after the last must be an error if it was rendered
	if r, ok := res[n]; ok && r[0] == "ok" {
		fail("past-end", fmt.Sprintf("page %d past the end renders", n))
	}
	if n > 1 {
		cx.Count("paginated")
	}
	cx.Count("pagination-checked")
}

var rowAlpha = "abcdefghij"

func randRows(c *Ctx) string {
	n := c.Rng.Intn(9)
	if c.Rng.Intn(6) == 0 {
		n = 9 + c.Rng.Intn(8)
	}
	var rows []string
	style := 0
	if c.Rng.Intn(4) == 0 {
		style = 1 + c.Rng.Intn(3)
	}
	for i := 0; i < n; i++ {
		l := 1 + c.Rng.Intn(8)
		if c.Rng.Intn(8) == 0 {
			l = 0
		}
		if c.Rng.Intn(10) == 0 {
			l = 9 + c.Rng.Intn(8)
		}
		b := make([]byte, l)
		for j := range b {
			b[j] = rowAlpha[(i+j)%len(rowAlpha)]
		}
		row := string(b)
		switch style {
		case 1: // right-aligned numbering: leading blanks
			row = fmt.Sprintf("%3d %s", i+1, row)
		case 2: // blanks and tabs at either end
			row = []string{" ", "  ", "\t", ""}[c.Rng.Intn(4)] + row + []string{" ", "", "", "\t"}[c.Rng.Intn(4)]
		case 3: // multi-byte characters
			row = []string{"ä", "€", "日本", "ß"}[c.Rng.Intn(4)] + row + []string{"", "é", "語"}[c.Rng.Intn(3)]
		}
		if c.Rng.Intn(12) == 0 {
			// characters that only a text (not an HTML) renderer leaves alone
			row = []string{"+254 ", "R&D ", "a<b ", "it's ", "\"q\" "}[c.Rng.Intn(5)] + row
		}
		rows = append(rows, row)
	}
	s := strings.Join(rows, "\n")
	switch c.Rng.Intn(10) {
	case 0:
		s += "\n"
	case 1:
		s = "\n" + s
	}
	return s
}

func genRenderCase(c *Ctx) *rCase {
	rc := &rCase{labels: map[string]string{}, nolabel: map[string]bool{}}
	// symbols
	sinkKind := c.Rng.Intn(10) // 0-5 symbol sink, 6-7 menu sink, 8-9 no sink
	pre := []string{"", "T\n", "Head: ", "Title line\n\n", "Größe wählen: ", " lead\n"}[c.Rng.Intn(6)]
	suf := []string{"", "\nfoot", " end", "\n"}[c.Rng.Intn(4)]
	tpl := pre
	if sinkKind <= 5 {
		rc.syms = append(rc.syms, rSym{"x", 0, randRows(c)})
		rc.maps = append(rc.maps, "x")
		tpl += "{{.x}}"
	}
	if c.Rng.Intn(3) == 0 {
		v := strings.Repeat("Y", c.Rng.Intn(12))
		lim := len(v) + c.Rng.Intn(5)
		if lim == 0 {
			lim = 1
		}
		rc.syms = append(rc.syms, rSym{"yy", lim, v})
		rc.maps = append(rc.maps, "yy")
		if c.Rng.Intn(2) == 0 {
			tpl = "{{.yy}} " + tpl
		} else {
			tpl += " {{.yy}}"
		}
	}
	if c.Rng.Intn(12) == 0 {
		// second zero-limit symbol: Map must refuse it
		rc.syms = append(rc.syms, rSym{"zz", 0, "q\nr"})
		rc.maps = append(rc.maps, "zz")
	}
	if c.Rng.Intn(25) == 0 {
		tpl += "{{.nope}}"
	}
	if c.Rng.Intn(40) == 0 {
		tpl += "{{"
	}
	tpl += suf
	rc.tpl = tpl
	// menu
	nm := c.Rng.Intn(4)
	if sinkKind == 6 || sinkKind == 7 {
		rc.msink = true
		nm = c.Rng.Intn(9)
	}
	for i := 0; i < nm; i++ {
		rc.menu = append(rc.menu, [2]string{strconv.Itoa(i + 1), []string{"foo", "inky", "pinky", "a longer title", "b", "größer"}[c.Rng.Intn(6)]})
	}
	if c.Rng.Intn(5) > 0 {
		rc.next = &[2]string{[]string{"11", "n", "00"}[c.Rng.Intn(3)], []string{"next", "nx", "fwd page"}[c.Rng.Intn(3)]}
	}
	if c.Rng.Intn(5) > 0 {
		rc.prev = &[2]string{[]string{"22", "p", "99"}[c.Rng.Intn(3)], []string{"previous", "pv", "back"}[c.Rng.Intn(3)]}
	}
	if c.Rng.Intn(8) == 0 {
		// translated labels longer than their symbols (reservation is computed on the symbols)
		for _, t := range []string{"next", "nx", "previous", "pv", "foo"} {
			if c.Rng.Intn(2) == 0 {
				rc.labels[t] = t + " (translated)"
			}
		}
	}
	if c.Rng.Intn(60) == 0 {
		rc.nolabel["foo"] = true
	}
	if c.Rng.Intn(10) == 0 {
		e := []string{"invalid input: '9'", "error load:0", "e"}[c.Rng.Intn(3)]
		rc.err = &e
	}
	return rc
}

func init() {
	suites["render"] = &Suite{
		Gen: func(c *Ctx) []string {
			var ls []string
			n := c.Pick(1500, 30000)
			for i := 0; i < n; i++ {
				rc := genRenderCase(c)
				// natural length of the page with everything on one page
				rc.out = 0
				rc.idx = []int{0}
				st, out := rc.renderOne(0)
				nat := 40
				if st == "ok" {
					nat = len(out)
				}
				switch c.Rng.Intn(12) {
				case 0:
					rc.out = nat + c.Rng.Intn(4)
				case 1:
					rc.out = nat - 1 - c.Rng.Intn(3)
				case 2:
					rc.out = 1 + c.Rng.Intn(12)
				case 3:
					rc.out = 0
				case 4:
					rc.out = nat * 3
				default:
					// force pagination: between a third and the whole natural length
					rc.out = nat/3 + c.Rng.Intn(nat*2/3+2)
				}
				if rc.out < 0 {
					rc.out = 1
				}
				rc.idx = nil
				maxIdx := 4
				for _, s := range rc.syms {
					if s.limit == 0 {
						maxIdx = strings.Count(s.value, "\n") + 3
					}
				}
				if rc.msink {
					maxIdx = len(rc.menu) + 3
				}
				if maxIdx > 22 {
					maxIdx = 22
				}
				for j := 0; j <= maxIdx; j++ {
					rc.idx = append(rc.idx, j)
				}
				ls = append(ls, rc.String())
			}
			return ls
		},
		Exec: func(c *Ctx, line string) string {
			rc, ok := parseRCase(line)
			if !ok {
				return "bad-op"
			}
			var outs []string
			res := map[int][2]string{}
			for _, i := range rc.idx {
				st, out := rc.renderOne(i)
				res[i] = [2]string{st, out}
				c.Count("page:" + st)
				switch st {
				case "ok":
					outs = append(outs, fmt.Sprintf("%d:ok:%s", i, hx([]byte(out))))
					if rc.out > 0 && len(out) > rc.out {
						c.Fail("C01", "oversize", fmt.Sprintf("page %d is %d bytes, output size %d", i, len(out), rc.out))
					}
				case "panic":
					outs = append(outs, fmt.Sprintf("%d:panic", i))
				default:
					outs = append(outs, fmt.Sprintf("%d:%s", i, st))
				}
			}
			rc.paginationOracle(c, res)
			return strings.Join(outs, " ")
		},
	}
}

// longerBrowseLabel: a browse title resolves to a label longer than the symbol itself (Menu.Sizes reserves
// space for the symbol, not for its translation)
func longerBrowseLabel(c *rCase) bool {
	for _, p := range []*[2]string{c.next, c.prev} {
		if p != nil && len(c.label(p[1])) > len(p[1]) {
			return true
		}
	}
	return false
}
