// Package pgfake is an in-process transactional fake of the driver interface db/postgres uses
// (postgres.PgInterface, pgx.Tx, pgx.Rows) with fault injection and an event log.
//
// Semantics (the trusted stand-in for Postgres/pgx): one committed key-value table; a transaction
// buffers its writes and sees them; a failing statement poisons the transaction (every later statement
// fails, Commit rolls back and reports an error); Rollback always ends the transaction; using a
// transaction after it ended is an error. Faults are injected by primitive-call index: the n-th call
// of BeginTx / Exec / Query / Scan / Commit fails when n is in the fault set.
package pgfake

import (
	"context"
	"errors"
	"fmt"
	"sort"
	"strings"

	pgx "github.com/jackc/pgx/v5"
	"github.com/jackc/pgx/v5/pgconn"
)

var (
	ErrInjected = errors.New("injected fault")
	ErrTxDone   = errors.New("tx is closed")
	ErrAborted  = errors.New("current transaction is aborted")
)

type Fake struct {
	Committed map[string][]byte
	Faults    map[int]bool // primitive call indices that fail
	Calls     int          // primitive calls so far
	Log       []string     // begin:<id> commit:<id> rollback:<id> commitfail:<id>
	nextTx    int
	Open      map[int]bool
	Closed    bool
}

func New() *Fake {
	return &Fake{Committed: map[string][]byte{}, Faults: map[int]bool{}, Open: map[int]bool{}}
}

func (f *Fake) prim(kind string) error {
	i := f.Calls
	f.Calls++
	if f.Faults[i] {
		return fmt.Errorf("%w (%s, call %d)", ErrInjected, kind, i)
	}
	return nil
}

func (f *Fake) BeginTx(ctx context.Context, o pgx.TxOptions) (pgx.Tx, error) {
	if err := f.prim("begin"); err != nil {
		return nil, err
	}
	id := f.nextTx
	f.nextTx++
	f.Open[id] = true
	f.Log = append(f.Log, fmt.Sprintf("begin:%d", id))
	return &Tx{f: f, id: id, pending: map[string][]byte{}}, nil
}

func (f *Fake) Close() { f.Closed = true }

type Tx struct {
	f        *Fake
	id       int
	pending  map[string][]byte
	poisoned bool
	done     bool
}

func (t *Tx) Begin(ctx context.Context) (pgx.Tx, error) {
	return nil, errors.New("nested tx unsupported")
}

func (t *Tx) end(kind string) {
	t.done = true
	delete(t.f.Open, t.id)
	t.f.Log = append(t.f.Log, fmt.Sprintf("%s:%d", kind, t.id))
}

func (t *Tx) Commit(ctx context.Context) error {
	if t.done {
		return ErrTxDone
	}
	if err := t.f.prim("commit"); err != nil {
		// the commit did not happen; the server-side transaction is gone with the failed round trip
		t.end("commitfail")
		return err
	}
	if t.poisoned {
		t.end("rollback")
		return pgx.ErrTxCommitRollback
	}
	for k, v := range t.pending {
		t.f.Committed[k] = v
	}
	t.end("commit")
	return nil
}

func (t *Tx) Rollback(ctx context.Context) error {
	if t.done {
		return ErrTxDone
	}
	// a fault point like any round trip; the handle is closed and the transaction over whether or not the call fails
	err := t.f.prim("rollback")
	t.end("rollback")
	return err
}

func (t *Tx) CopyFrom(ctx context.Context, tableName pgx.Identifier, columnNames []string, rowSrc pgx.CopyFromSource) (int64, error) {
	return 0, errors.New("unsupported")
}
func (t *Tx) SendBatch(ctx context.Context, b *pgx.Batch) pgx.BatchResults { return nil }
func (t *Tx) LargeObjects() pgx.LargeObjects                               { return pgx.LargeObjects{} }
func (t *Tx) Prepare(ctx context.Context, name, sql string) (*pgconn.StatementDescription, error) {
	return nil, errors.New("unsupported")
}
func (t *Tx) QueryRow(ctx context.Context, sql string, args ...any) pgx.Row { return nil }
func (t *Tx) Conn() *pgx.Conn                                               { return nil }

func (t *Tx) stmt(kind string) error {
	if t.done {
		return ErrTxDone
	}
	if t.poisoned {
		return ErrAborted
	}
	if err := t.f.prim(kind); err != nil {
		t.poisoned = true
		return err
	}
	return nil
}

func (t *Tx) Exec(ctx context.Context, sql string, args ...any) (pgconn.CommandTag, error) {
	if err := t.stmt("exec"); err != nil {
		return pgconn.CommandTag{}, err
	}
	s := strings.TrimSpace(sql)
	switch {
	case strings.HasPrefix(s, "INSERT"):
		k, _ := args[0].([]byte)
		v, _ := args[1].([]byte)
		t.pending[string(k)] = append([]byte{}, v...)
		return pgconn.NewCommandTag("INSERT 0 1"), nil
	case strings.HasPrefix(s, "CREATE TABLE"):
		return pgconn.NewCommandTag("CREATE TABLE"), nil
	}
	return pgconn.CommandTag{}, fmt.Errorf("pgfake: unsupported statement %q", s)
}

func (t *Tx) view() map[string][]byte {
	m := map[string][]byte{}
	for k, v := range t.f.Committed {
		m[k] = v
	}
	for k, v := range t.pending {
		m[k] = v
	}
	return m
}

func (t *Tx) Query(ctx context.Context, sql string, args ...any) (pgx.Rows, error) {
	if err := t.stmt("query"); err != nil {
		return nil, err
	}
	s := strings.TrimSpace(sql)
	k, _ := args[0].([]byte)
	m := t.view()
	switch {
	case strings.HasPrefix(s, "SELECT value"):
		r := &Rows{t: t}
		if v, ok := m[string(k)]; ok {
			r.rows = append(r.rows, [][]byte{v})
		}
		return r, nil
	case strings.HasPrefix(s, "SELECT key, value"):
		var keys []string
		for kk := range m {
			if kk >= string(k) {
				keys = append(keys, kk)
			}
		}
		sort.Strings(keys)
		r := &Rows{t: t}
		for _, kk := range keys {
			r.rows = append(r.rows, [][]byte{[]byte(kk), m[kk]})
		}
		return r, nil
	}
	return nil, fmt.Errorf("pgfake: unsupported query %q", s)
}

type Rows struct {
	t    *Tx
	rows [][][]byte
	cur  [][]byte
	err  error
}

func (r *Rows) Close()                                       {}
func (r *Rows) Err() error                                   { return r.err }
func (r *Rows) CommandTag() pgconn.CommandTag                { return pgconn.CommandTag{} }
func (r *Rows) FieldDescriptions() []pgconn.FieldDescription { return nil }
func (r *Rows) Values() ([]any, error)                       { return nil, nil }
func (r *Rows) RawValues() [][]byte                          { return r.cur }
func (r *Rows) Conn() *pgx.Conn                              { return nil }

func (r *Rows) Next() bool {
	if len(r.rows) == 0 {
		return false
	}
	// advancing to a row that exists is a fault point: the failure is reported through Err(), Next just says false
	if err := r.t.f.prim("next"); err != nil {
		r.t.poisoned = true
		r.err = err
		return false
	}
	r.cur = r.rows[0]
	r.rows = r.rows[1:]
	return true
}

// Scan is the "row fetch" primitive: a fault here poisons the transaction like any failed round trip.
func (r *Rows) Scan(dest ...any) error {
	if err := r.t.f.prim("scan"); err != nil {
		r.t.poisoned = true
		r.err = err
		return err
	}
	for i, d := range dest {
		p, ok := d.(*[]byte)
		if !ok || i >= len(r.cur) {
			return errors.New("pgfake: bad scan destination")
		}
		*p = append([]byte{}, r.cur[i]...)
	}
	return nil
}
