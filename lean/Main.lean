/-
  visemodel — line-protocol driver for the executable model.
  usage: visemodel <suite> < cases.txt > model.out
  Imports model modules only (core Lean), so it links as a `lean_exe`.
-/
import Vise.Driver.Codec
import Vise.Driver.Cache
import Vise.Driver.Render
import Vise.Driver.Engine
import Vise.Driver.Db
import Vise.Driver.Pg
import Vise.Driver.Asm
import Vise.Driver.Crash
import Vise.Driver.Conc

open Vise.Driver

def main (args : List String) : IO UInt32 := do
  let stdin ← IO.getStdin
  let stdout ← IO.getStdout
  match args with
  | ["codec"] => loop stdin stdout () codecStep; return 0
  | ["cache"] => loop stdin stdout () cacheStep; return 0
  | ["render"] => loop stdin stdout () renderStep; return 0
  | ["engine"] => loop stdin stdout () engineStep; return 0
  | ["db"] => loop stdin stdout () dbStep; return 0
  | ["pg"] => loop stdin stdout () pgStep; return 0
  | ["asm"] => loop stdin stdout () asmStep; return 0
  | ["crash"] => loop stdin stdout () crashStep; return 0
  | ["conc"] => loop stdin stdout () concStep; return 0
  | _ =>
    IO.eprintln "usage: visemodel <suite>"
    return 2
