-- Root of the `Vise` library: the executable model (core Lean only).
import Vise.Basic
import Vise.Gen.Facts
import Vise.Codec
import Vise.Cache
import Vise.State
import Vise.Render
import Vise.Vm
import Vise.Engine
import Vise.Db
import Vise.PgTx
import Vise.Asm
import Vise.FsCrash
import Vise.Conc
