/-
  Vise.Asm — model of asm/asm.go and asm/menu.go: the participle lexer (first matching rule at each
  position, in source order), the struct-tag grammar with elided Whitespace/Comment tokens
  (`PeekAny` semantics: an explicitly referenced elided token matches when it comes before the next
  non-elided one), the numeric capture conversion (strconv.ParseUint base 0: a leading 0 means octal),
  `parseOne` and its writers, `Batcher.MenuAdd/MenuExit`, `MenuProcessor.Add/ToLines` and `Parse`.

  Go nil-pointer dereferences of absent optional arguments are `.panic`; every other failure is `.err`.
  Rule patterns, grammar tags, elided types, opcode table and batch codes are regenerated facts
  (`Vise.Gen.Facts`), pinned by the `#guard`s of Vise/Pins/C16.lean (imported by the C16 proofs only, so that a
  drift breaks that property's obligations and not the shared driver).
-/
import Vise.Codec

namespace Vise.Asm

/-! ### lexer -/

inductive Tok where
  | comment (s : Bytes)
  | ident (s : Bytes)
  | size (s : Bytes)
  | sym (s : Bytes)
  | ws (s : Bytes)
  | eol (s : Bytes)
  | quote (s : Bytes)
deriving Repr, DecidableEq

def isUpper (c : UInt8) : Bool := 0x41 ≤ c.toNat && c.toNat ≤ 0x5a
def isLower (c : UInt8) : Bool := 0x61 ≤ c.toNat && c.toNat ≤ 0x7a
def isDigit (c : UInt8) : Bool := 0x30 ≤ c.toNat && c.toNat ≤ 0x39
/-- `[a-zA-Z_\*\.\^\<\>]` -/
def isSymFirst (c : UInt8) : Bool :=
  isLower c || isUpper c || c.toNat == 0x5f || c.toNat == 0x2a || c.toNat == 0x2e || c.toNat == 0x5e ||
    c.toNat == 0x3c || c.toNat == 0x3e
/-- `[a-zA-Z0-9_]` -/
def isSymRest (c : UInt8) : Bool := isLower c || isUpper c || isDigit c || c.toNat == 0x5f
def isWsCh (c : UInt8) : Bool := c.toNat == 0x20 || c.toNat == 0x09
def isEolCh (c : UInt8) : Bool := c.toNat == 0x0a || c.toNat == 0x0d
def isQuoteCh (c : UInt8) : Bool := c.toNat == 0x22 || c.toNat == 0x27

/-- token kinds; each rule is "one start character, then a maximal run of continuation characters" -/
inductive Kind where
  | comment | ident | size | sym | ws | eol | quote
deriving Repr, DecidableEq

/-- the first rule (in source order) whose pattern matches at a position starting with `c` -/
def startKind (c : UInt8) : Option Kind :=
  if c.toNat == 0x23 then some .comment
  else if isUpper c then some .ident
  else if isDigit c then some .size
  else if isSymFirst c then some .sym
  else if isWsCh c then some .ws
  else if isEolCh c then some .eol
  else if isQuoteCh c then some .quote
  else none

/-- does the rule's greedy repetition take `c`? -/
def Kind.continues : Kind → UInt8 → Bool
  | .comment, c => c.toNat != 0x0a
  | .ident, c => isUpper c
  | .size, c => isDigit c
  | .sym, c => isSymRest c
  | .ws, c => isWsCh c
  | .eol, c => isEolCh c
  | .quote, _ => false

def Kind.mk : Kind → Bytes → Tok
  | .comment, s => .comment s
  | .ident, s => .ident s
  | .size, s => .size s
  | .sym, s => .sym s
  | .ws, s => .ws s
  | .eol, s => .eol s
  | .quote, s => .quote s

/-- streaming form of the rule-ordered lexer: `cur` is the token being accumulated -/
def lexGo : Option (Kind × Bytes) → Bytes → Option (List Tok)
  | none, [] => some []
  | some (k, acc), [] => some [k.mk acc]
  | none, c :: rest =>
    match startKind c with
    | none => none
    | some k => lexGo (some (k, [c])) rest
  | some (k, acc), c :: rest =>
    if k.continues c then lexGo (some (k, acc ++ [c])) rest
    else match startKind c with
      | none => none
      | some k' => (lexGo (some (k', [c])) rest).map (k.mk acc :: ·)

/-- `none` = "invalid input text" -/
def lex (src : Bytes) : Option (List Tok) := lexGo none src

/-! ### grammar -/

def Tok.isElided : Tok → Bool
  | .comment _ | .ws _ => true
  | _ => false

/-- `PeekAny(match)` followed by `FastForward`: skip elided tokens that do not match; succeed on the first
token that matches, fail on the first non-elided token that does not. -/
def peekAny (want : Tok → Bool) : List Tok → Option (Tok × List Tok)
  | [] => none
  | t :: rest => if want t then some (t, rest) else if t.isElided then peekAny want rest else none

def Tok.isSym : Tok → Bool | .sym _ => true | _ => false
def Tok.isSize : Tok → Bool | .size _ => true | _ => false
def Tok.isIdent : Tok → Bool | .ident _ => true | _ => false
def Tok.isWs : Tok → Bool | .ws _ => true | _ => false
def Tok.isComment : Tok → Bool | .comment _ => true | _ => false
def Tok.isEol : Tok → Bool | .eol _ => true | _ => false

def Tok.text : Tok → Bytes
  | .comment s | .ident s | .size s | .sym s | .ws s | .eol s | .quote s => s

/-- the text of a token list -/
def text (ts : List Tok) : Bytes := ts.flatMap Tok.text

def Tok.kind : Tok → Kind
  | .comment _ => .comment
  | .ident _ => .ident
  | .size _ => .size
  | .sym _ => .sym
  | .ws _ => .ws
  | .eol _ => .eol
  | .quote _ => .quote

/-- `Whitespace?` -/
def optWs (ts : List Tok) : List Tok :=
  match peekAny Tok.isWs ts with
  | some (_, rest) => rest
  | none => ts

/-- `(@T Whitespace?)?` -/
def optTok (want : Tok → Bool) (ts : List Tok) : Option Bytes × List Tok :=
  match peekAny want ts with
  | some (t, rest) => (some t.text, optWs rest)
  | none => (none, ts)

/-- the captured strings of one `Arg` -/
structure RawArg where
  sym : Option Bytes := none
  size : Option Bytes := none
  flag : Option Bytes := none
  selector : Option Bytes := none
  desc : Option Bytes := none
deriving Repr, DecidableEq

def parseArg (ts : List Tok) : RawArg × List Tok :=
  let (sym, ts) := optTok Tok.isSym ts
  let (size, ts) := optTok Tok.isSize ts
  let (flag, ts) := optTok Tok.isSize ts
  let (selector, ts) := optTok Tok.isSym ts
  let (desc, ts) := optTok Tok.isSym ts
  ({ sym, size, flag, selector, desc }, ts)

inductive PStep where
  | noMatch
  | fail
  | line (op : Bytes) (arg : RawArg) (rest : List Tok)

/-- `Instruction`: `@Ident (Whitespace @@)? Comment? EOL` -/
def parseInstr (ts : List Tok) : PStep :=
  match peekAny Tok.isIdent ts with
  | none => .noMatch
  | some (t, rest) =>
    let (arg, rest) := match peekAny Tok.isWs rest with
      | some (_, r) => parseArg r
      | none => ({}, rest)
    let rest := match peekAny Tok.isComment rest with
      | some (_, r) => r
      | none => rest
    match peekAny Tok.isEol rest with
    | some (_, r) => .line t.text arg r
    | none => .fail

/-- `Asm`: `@@*` then end of input (trailing elided tokens allowed) -/
def parseToksF : Nat → List Tok → Option (List (Bytes × RawArg))
  | 0, _ => none
  | f + 1, ts =>
    match parseInstr ts with
    | .noMatch => if (peekAny (fun _ => true) (ts.dropWhile Tok.isElided)).isNone then some [] else none
    | .fail => none
    | .line op arg rest => (parseToksF f rest).map ((op, arg) :: ·)

def parseToks (ts : List Tok) : Option (List (Bytes × RawArg)) := parseToksF (ts.length + 1) ts

/-! ### numeric captures: `strconv.ParseUint(s, 0, bits)` on a digit string -/

def digitVal (c : UInt8) : Nat := c.toNat - 0x30

def parseBase (base : Nat) (s : Bytes) : Option Nat :=
  s.foldl (fun acc c => match acc with
    | none => none
    | some a => if digitVal c < base then some (a * base + digitVal c) else none) (some 0)

/-- base 0: a leading `0` followed by more digits selects octal -/
def parseUint0 (bits : Nat) (s : Bytes) : Option Nat :=
  let v := match s with
    | 0x30 :: d :: rest => parseBase 8 (d :: rest)
    | _ => parseBase 10 s
  match v with
  | some n => if n < 2 ^ bits then some n else none
  | none => none

/-- `strconv.FormatUint(n, 10)` -/
def fmtUintF : Nat → Nat → Bytes → Bytes
  | 0, _, acc => acc
  | f + 1, n, acc =>
    let acc := UInt8.ofNat (0x30 + n % 10) :: acc
    if n / 10 = 0 then acc else fmtUintF f (n / 10) acc

def fmtUint (n : Nat) : Bytes := fmtUintF (n + 1) n []

structure Arg where
  sym : Option Bytes := none
  size : Option Nat := none
  flag : Option Nat := none
  selector : Option Bytes := none
  desc : Option Bytes := none
deriving Repr, DecidableEq

def convOpt (bits : Nat) : Option Bytes → Option (Option Nat)
  | none => some none
  | some s => (parseUint0 bits s).map some

def RawArg.conv (a : RawArg) : Option Arg :=
  match convOpt 32 a.size, convOpt 8 a.flag with
  | some size, some flag => some { sym := a.sym, size, flag, selector := a.selector, desc := a.desc }
  | _, _ => none

/-- lexer + parser + conversion: the AST `asmParser.Parse` returns, `none` on any error -/
def parseSrc (src : Bytes) : Option (List (Bytes × Arg)) := do
  let ts ← lex src
  let ls ← parseToks ts
  ls.mapM fun (op, a) => do
    let a ← a.conv
    pure (op, a)

/-! ### emitters -/

/-- `writeSym`: length byte and bytes; an error above 255 bytes -/
def writeSymE (s : Bytes) : Res Bytes :=
  if s.length > 255 then .err "string size too big" else .ok (writeSym s)

def deref {α} (site : String) : Option α → Res α
  | some x => .ok x
  | none => .panic site

/-- `parseTwoSym` -/
def twoSym (a : Arg) : Res Bytes := do
  let (sym, selector) ← (match a.size with
    | some n => do
      let s ← deref "parseTwoSym:*arg.Sym" a.sym
      pure (s, fmtUint n)
    | none => match a.selector with
      | some sel => do
        let s ← deref "parseTwoSym:*arg.Sym" a.sym
        if s = [0x2a] then pure (sel, s) else pure (s, sel)
      | none => pure (([] : Bytes), ([] : Bytes)))
  let x ← writeSymE sym
  let y ← writeSymE selector
  pure (x ++ y)

/-- `parseTwoSymReverse` -/
def twoSymReverse (a : Arg) : Res Bytes := do
  let sym ← deref "parseTwoSymReverse:*arg.Selector" a.selector
  let selector ← deref "parseTwoSymReverse:*arg.Sym" a.sym
  let x ← writeSymE selector
  let y ← writeSymE sym
  pure (x ++ y)

/-- `parseOne`: the bytes flushed for one regular instruction -/
def parseOne (op : Nat) (a : Arg) : Res Bytes :=
  let opc := u16be op
  if a.selector.isSome then do
    let r ← (if op = Facts.opMOUT then twoSymReverse a else twoSym a)
    pure (opc ++ r)
  else match a.size with
    | some n =>
      match a.sym with
      | none => do
        let f ← deref "parseFlagged:*arg.Flag" a.flag
        pure (opc ++ writeSize n ++ [UInt8.ofNat f])
      | some s =>
        match a.flag with
        | some f => do
          let x ← writeSymE s
          pure (opc ++ x ++ writeSize n ++ [UInt8.ofNat f])
        | none =>
          if op = Facts.opLOAD then do
            let x ← writeSymE s
            pure (opc ++ x ++ writeSize n)
          else do
            let r ← twoSym a
            pure (opc ++ r)
    | none =>
      match a.sym with
      | none => .ok opc
      | some s => do
        let x ← writeSymE s
        pure (opc ++ x)

structure MenuItem where
  code : Nat
  choice : Bytes
  display : Bytes
  target : Bytes
deriving Repr, DecidableEq

structure Batcher where
  items : List MenuItem := []
  inMenu : Bool := false
deriving Repr, DecidableEq

/-- the batch code table with the names as explicit bytes (pinned to the regenerated facts below) -/
def batchTable : List (Bytes × Nat) :=
  [([0x44, 0x4f, 0x57, 0x4e], 256), ([0x55, 0x50], 257), ([0x4e, 0x45, 0x58, 0x54], 258), ([0x50, 0x52, 0x45, 0x56, 0x49, 0x4f, 0x55, 0x53], 259)]

def batchCodeOf (name : Bytes) : Nat :=
  match batchTable.find? (fun p => p.1 = name) with
  | some p => p.2
  | none => 0

def menuDown : Nat := 256
def menuUp : Nat := 257
def menuNext : Nat := 258
def menuPrevious : Nat := 259

/-- `Batcher.MenuAdd` + `MenuProcessor.Add` -/
def menuAdd (bt : Batcher) (code : Bytes) (a : Arg) : Res Batcher := do
  let (selector, display, sym) ← (match a.desc with
    | some d => do
      let sym ← deref "MenuAdd:*arg.Sym" a.sym
      let sel ← deref "MenuAdd:*arg.Selector" a.selector
      pure (sel, d, sym)
    | none => match a.size with
      | some n => do
        let disp ← deref "MenuAdd:*arg.Selector" a.selector
        pure (fmtUint n, disp, a.sym.getD [])
      | none => do
        let sel ← deref "MenuAdd:*arg.Sym" a.sym
        let disp ← deref "MenuAdd:*arg.Selector" a.selector
        pure (sel, disp, ([] : Bytes)))
  let bop := batchCodeOf code
  if bop = 0 then .err "unknown menu instruction"
  else if sym.length > 0 && bop != menuDown then .err "target is only valid for DOWN"
  else if selector.length > 255 || display.length > 255 || sym.length > 255 then .err "string size too big"
  else .ok { items := bt.items ++ [{ code := bop, choice := selector, display := display, target := sym }], inMenu := true }

/-- `MenuProcessor.ToLines` -/
def toLines (items : List MenuItem) : Bytes :=
  let pre := items.flatMap fun v =>
    if v.code = menuUp then newLine Facts.opMOUT [v.display, v.choice] none none
    else if v.code = menuNext then newLine Facts.opMNEXT [v.display, v.choice] none none
    else if v.code = menuPrevious then newLine Facts.opMPREV [v.display, v.choice] none none
    else newLine Facts.opMOUT [v.display, v.choice] none none
  let post := items.flatMap fun v =>
    if v.code = menuUp then newLine Facts.opINCMP [[0x5f], v.choice] none none
    else if v.code = menuNext then newLine Facts.opINCMP [[0x3e], v.choice] none none
    else if v.code = menuPrevious then newLine Facts.opINCMP [[0x3c], v.choice] none none
    else newLine Facts.opINCMP [v.target, v.choice] none none
  pre ++ newLine Facts.opHALT [] none none ++ post

/-- `Batcher.MenuExit`: writes the batch and starts the next one empty -/
def menuExit (bt : Batcher) : Batcher × Bytes :=
  if !bt.inMenu then (bt, []) else ({ items := [], inMenu := false }, toLines bt.items)

/-- `vm.OpcodeIndex` with the names as explicit bytes (pinned to the regenerated facts below) -/
def opTable : List (Bytes × Nat) :=
  [([0x4e, 0x4f, 0x4f, 0x50], 0),
   ([0x43, 0x41, 0x54, 0x43, 0x48], 1),
   ([0x43, 0x52, 0x4f, 0x41, 0x4b], 2),
   ([0x4c, 0x4f, 0x41, 0x44], 3),
   ([0x52, 0x45, 0x4c, 0x4f, 0x41, 0x44], 4),
   ([0x4d, 0x41, 0x50], 5),
   ([0x4d, 0x4f, 0x56, 0x45], 6),
   ([0x48, 0x41, 0x4c, 0x54], 7),
   ([0x49, 0x4e, 0x43, 0x4d, 0x50], 8),
   ([0x4d, 0x53, 0x49, 0x4e, 0x4b], 9),
   ([0x4d, 0x4f, 0x55, 0x54], 10),
   ([0x4d, 0x4e, 0x45, 0x58, 0x54], 11),
   ([0x4d, 0x50, 0x52, 0x45, 0x56], 12)]

def opcodeOf (name : Bytes) : Option Nat :=
  (opTable.find? (fun p => p.1 = name)).map (·.2)

/-- the loop of `Parse` over the AST -/
def emitLines : Batcher → List (Bytes × Arg) → Res Bytes
  | bt, [] => .ok (menuExit bt).2
  | bt, (opName, a) :: rest =>
    match opcodeOf opName with
    | none => do
      let bt ← menuAdd bt opName a
      emitLines bt rest
    | some op => do
      let (bt, pre) := menuExit bt
      let x ← parseOne op a
      let r ← emitLines bt rest
      pure (pre ++ x ++ r)

/-- `asm.Parse`: the bytes written on success -/
def assemble (src : Bytes) : Res Bytes :=
  match parseSrc src with
  | none => .err "parse"
  | some ls => emitLines {} ls

end Vise.Asm
