/-
  Vise.AsmSpec — the independent reading of an assembly source: documented line forms
  (doc/texinfo/instructions.texi), how they are written as text, and the instructions they stand for.
  Nothing here refers to the assembler model (`Vise.Asm`) except the token type used to describe
  the text and `fmtUint` for decimal numerals.
-/
import Vise.Asm

namespace Vise.AsmSpec
open Vise.Asm

/-- a selector as written: the wildcard, a word, or a decimal number -/
inductive Sel where
  | star
  | word (s : Bytes)
  | num (n : Nat)
deriving Repr, DecidableEq

/-- the selector string the author wrote -/
def Sel.bytes : Sel → Bytes
  | .star => [0x2a]
  | .word s => s
  | .num n => fmtUint n

/-- one source line in a documented form -/
inductive SLine where
  | catch (node : Bytes) (sig : Nat) (mode : Bool)
  | croak (sig : Nat) (mode : Bool)
  | halt
  | msink
  | incmp (node : Bytes) (sel : Sel)
  | load (sym : Bytes) (size : Nat)
  | map (sym : Bytes)
  | move (node : Bytes)
  | reload (sym : Bytes)
  | mout (label : Bytes) (sel : Sel)
  | mnext (label : Bytes) (sel : Sel)
  | mprev (label : Bytes) (sel : Sel)
deriving Repr, DecidableEq

/-- a batch menu line -/
inductive BLine where
  | down (sym : Bytes) (sel : Sel) (label : Bytes)
  | up (sel : Sel) (label : Bytes)
  | next (sel : Sel) (label : Bytes)
  | previous (sel : Sel) (label : Bytes)
deriving Repr, DecidableEq

/-- what may follow the last argument on a line -/
inductive Trail where
  | none
  | ws (w : Bytes)
  | comment (c : Bytes)
  | wsComment (w c : Bytes)
deriving Repr, DecidableEq

/-- layout of one line: the whitespace used between tokens, the trailer, the line end -/
structure Layout where
  sep : Bytes := [0x20]
  trail : Trail := .none
  eol : Bytes := [0x0a]
deriving Repr, DecidableEq

def Trail.toks : Trail → List Tok
  | .none => []
  | .ws w => [.ws w]
  | .comment c => [.comment c]
  | .wsComment w c => [.ws w, .comment c]

def Sel.tok : Sel → Tok
  | .star => .sym [0x2a]
  | .word s => .sym s
  | .num n => .size (fmtUint n)

def modeTok (m : Bool) : Tok := .size (if m then [0x31] else [0x30])

def kwCATCH : Bytes := [0x43, 0x41, 0x54, 0x43, 0x48]
def kwCROAK : Bytes := [0x43, 0x52, 0x4f, 0x41, 0x4b]
def kwHALT : Bytes := [0x48, 0x41, 0x4c, 0x54]
def kwMSINK : Bytes := [0x4d, 0x53, 0x49, 0x4e, 0x4b]
def kwINCMP : Bytes := [0x49, 0x4e, 0x43, 0x4d, 0x50]
def kwLOAD : Bytes := [0x4c, 0x4f, 0x41, 0x44]
def kwMAP : Bytes := [0x4d, 0x41, 0x50]
def kwMOVE : Bytes := [0x4d, 0x4f, 0x56, 0x45]
def kwRELOAD : Bytes := [0x52, 0x45, 0x4c, 0x4f, 0x41, 0x44]
def kwMOUT : Bytes := [0x4d, 0x4f, 0x55, 0x54]
def kwMNEXT : Bytes := [0x4d, 0x4e, 0x45, 0x58, 0x54]
def kwMPREV : Bytes := [0x4d, 0x50, 0x52, 0x45, 0x56]
def kwDOWN : Bytes := [0x44, 0x4f, 0x57, 0x4e]
def kwUP : Bytes := [0x55, 0x50]
def kwNEXT : Bytes := [0x4e, 0x45, 0x58, 0x54]
def kwPREVIOUS : Bytes := [0x50, 0x52, 0x45, 0x56, 0x49, 0x4f, 0x55, 0x53]

#guard [kwCATCH, kwCROAK, kwHALT, kwMSINK, kwINCMP, kwLOAD, kwMAP, kwMOVE, kwRELOAD, kwMOUT, kwMNEXT, kwMPREV,
    kwDOWN, kwUP, kwNEXT, kwPREVIOUS]
  = ["CATCH", "CROAK", "HALT", "MSINK", "INCMP", "LOAD", "MAP", "MOVE", "RELOAD", "MOUT", "MNEXT", "MPREV",
    "DOWN", "UP", "NEXT", "PREVIOUS"].map ascii

/-- keyword and argument tokens of a line, in the documented order -/
def SLine.words : SLine → Bytes × List Tok
  | .catch node sig mode => (kwCATCH, [.sym node, .size (fmtUint sig), modeTok mode])
  | .croak sig mode => (kwCROAK, [.size (fmtUint sig), modeTok mode])
  | .halt => (kwHALT, [])
  | .msink => (kwMSINK, [])
  | .incmp node sel => (kwINCMP, [.sym node, sel.tok])
  | .load sym size => (kwLOAD, [.sym sym, .size (fmtUint size)])
  | .map sym => (kwMAP, [.sym sym])
  | .move node => (kwMOVE, [.sym node])
  | .reload sym => (kwRELOAD, [.sym sym])
  | .mout label sel => (kwMOUT, [.sym label, sel.tok])
  | .mnext label sel => (kwMNEXT, [.sym label, sel.tok])
  | .mprev label sel => (kwMPREV, [.sym label, sel.tok])

def BLine.words : BLine → Bytes × List Tok
  | .down sym sel label => (kwDOWN, [.sym sym, sel.tok, .sym label])
  | .up sel label => (kwUP, [sel.tok, .sym label])
  | .next sel label => (kwNEXT, [sel.tok, .sym label])
  | .previous sel label => (kwPREVIOUS, [sel.tok, .sym label])

/-- the tokens of a written line: keyword, each argument preceded by whitespace, trailer, line end -/
def lineToks (w : Bytes × List Tok) (l : Layout) : List Tok :=
  .ident w.1 :: (w.2.flatMap fun a => [.ws l.sep, a]) ++ l.trail.toks ++ [.eol l.eol]

/-- a program: regular lines, then (at the end of the node's code) the batch menu lines -/
structure Prog where
  lines : List (SLine × Layout)
  batch : List (BLine × Layout)

def Prog.toks (p : Prog) : List Tok :=
  (p.lines.flatMap fun x => lineToks x.1.words x.2) ++ (p.batch.flatMap fun x => lineToks x.1.words x.2)

/-- the source text of a program -/
def Prog.source (p : Prog) : Bytes := text p.toks

/-- the instruction a regular line stands for -/
def SLine.instr : SLine → Instr
  | .catch node sig mode => .catch node sig mode
  | .croak sig mode => .croak sig mode
  | .halt => .halt
  | .msink => .msink
  | .incmp node sel => .incmp node sel.bytes
  | .load sym size => .load sym size
  | .map sym => .map sym
  | .move node => .move node
  | .reload sym => .reload sym
  | .mout label sel => .mout label sel.bytes
  | .mnext label sel => .mnext label sel.bytes
  | .mprev label sel => .mprev label sel.bytes

/-- documented expansion of a batch line: the menu entry before the HALT ... -/
def BLine.pre : BLine → Instr
  | .down _ sel label => .mout label sel.bytes
  | .up sel label => .mout label sel.bytes
  | .next sel label => .mnext label sel.bytes
  | .previous sel label => .mprev label sel.bytes

/-- ... and the input comparison after it -/
def BLine.post : BLine → Instr
  | .down sym sel _ => .incmp sym sel.bytes
  | .up sel _ => .incmp [0x5f] sel.bytes
  | .next sel _ => .incmp [0x3e] sel.bytes
  | .previous sel _ => .incmp [0x3c] sel.bytes

/-- the instructions a program stands for, in order -/
def Prog.expected (p : Prog) : List Instr :=
  p.lines.map (·.1.instr) ++
    (if p.batch.isEmpty then [] else p.batch.map (·.1.pre) ++ [.halt] ++ p.batch.map (·.1.post))

/-! ### programs in general form: batches of menu lines anywhere between the regular lines -/

/-- a (possibly empty) batch of menu lines, the regular line that ends it, and the regular lines after that -/
structure Seg where
  batch : List (BLine × Layout)
  first : SLine × Layout
  rest : List (SLine × Layout)

/-- any number of such stretches, then a (possibly empty) batch at the very end -/
structure ProgN where
  segs : List Seg
  last : List (BLine × Layout)

def batchToks (b : List (BLine × Layout)) : List Tok := b.flatMap fun x => lineToks x.1.words x.2
def linesToks (l : List (SLine × Layout)) : List Tok := l.flatMap fun x => lineToks x.1.words x.2

def Seg.toks (s : Seg) : List Tok := batchToks s.batch ++ linesToks (s.first :: s.rest)

def ProgN.toks (p : ProgN) : List Tok := p.segs.flatMap Seg.toks ++ batchToks p.last

def ProgN.source (p : ProgN) : Bytes := text p.toks

/-- the documented expansion of one batch (nothing for an empty one) -/
def batchExpected (b : List (BLine × Layout)) : List Instr :=
  if b.isEmpty then [] else b.map (·.1.pre) ++ [.halt] ++ b.map (·.1.post)

def Seg.expected (s : Seg) : List Instr := batchExpected s.batch ++ (s.first :: s.rest).map (·.1.instr)

/-- every batch expands where it stands, with its own lines only -/
def ProgN.expected (p : ProgN) : List Instr := p.segs.flatMap Seg.expected ++ batchExpected p.last

/-! ### the domain on which the assembler is faithful -/

/-- a name the lexer reads as one `Sym` token and the format can hold: first character a lower-case letter
or one of `_ * . ^ < >`, then letters, digits, underscore; at most 255 bytes -/
def SafeName (s : Bytes) : Prop :=
  ∃ c r, s = c :: r ∧ isSymFirst c = true ∧ isUpper c = false ∧ (∀ x ∈ r, isSymRest x = true) ∧ s.length ≤ 255

/-- not the wildcard (which `parseTwoSym` swaps into selector position) -/
def NotStar (s : Bytes) : Prop := s ≠ [0x2a]

def SafeSel : Sel → Prop
  | .star => True
  | .word s => SafeName s
  | .num n => n < 4294967296

def SafeLine : SLine → Prop
  | .catch node sig _ => SafeName node ∧ sig < 4294967296
  | .croak sig _ => sig < 4294967296
  | .halt => True
  | .msink => True
  | .incmp node sel => SafeName node ∧ NotStar node ∧ SafeSel sel
  | .load sym size => SafeName sym ∧ size < 4294967296
  | .map sym => SafeName sym
  | .move node => SafeName node
  | .reload sym => SafeName sym
  | .mout label sel => SafeName label ∧ SafeSel sel
  | .mnext label sel => SafeName label ∧ NotStar label ∧ SafeSel sel
  | .mprev label sel => SafeName label ∧ NotStar label ∧ SafeSel sel

def SafeBLine : BLine → Prop
  | .down sym sel label => SafeName sym ∧ SafeSel sel ∧ SafeName label
  | .up sel label => SafeSel sel ∧ SafeName label
  | .next sel label => SafeSel sel ∧ SafeName label
  | .previous sel label => SafeSel sel ∧ SafeName label

def SafeTrail : Trail → Prop
  | .none => True
  | .ws w => w ≠ [] ∧ ∀ x ∈ w, isWsCh x = true
  | .comment c => ∃ r, c = 0x23 :: r ∧ ∀ x ∈ r, x.toNat ≠ 0x0a
  | .wsComment w c => (w ≠ [] ∧ ∀ x ∈ w, isWsCh x = true) ∧ ∃ r, c = 0x23 :: r ∧ ∀ x ∈ r, x.toNat ≠ 0x0a

def Trail.hasComment : Trail → Bool
  | .comment _ | .wsComment _ _ => true
  | _ => false

/-- layout: non-empty runs of blanks between tokens; a non-empty line end of CR/LF characters (so blank
lines are part of it) that starts with the line feed when it follows a comment -/
def SafeLayout (l : Layout) : Prop :=
  (l.sep ≠ [] ∧ ∀ x ∈ l.sep, isWsCh x = true) ∧ SafeTrail l.trail ∧
  (l.eol ≠ [] ∧ ∀ x ∈ l.eol, isEolCh x = true) ∧
  (l.trail.hasComment = true → ∃ r, l.eol = 0x0a :: r)

def SafeProg (p : Prog) : Prop :=
  (∀ x ∈ p.lines, SafeLine x.1 ∧ SafeLayout x.2) ∧ (∀ x ∈ p.batch, SafeBLine x.1 ∧ SafeLayout x.2)

def SafeBatch (b : List (BLine × Layout)) : Prop := ∀ x ∈ b, SafeBLine x.1 ∧ SafeLayout x.2
def SafeLines (l : List (SLine × Layout)) : Prop := ∀ x ∈ l, SafeLine x.1 ∧ SafeLayout x.2

def SafeSeg (s : Seg) : Prop := SafeBatch s.batch ∧ SafeLines (s.first :: s.rest)

def SafeProgN (p : ProgN) : Prop := (∀ s ∈ p.segs, SafeSeg s) ∧ SafeBatch p.last

end Vise.AsmSpec
