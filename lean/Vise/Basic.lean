/-
  Vise.Basic — shared vocabulary of the model.

  * `Bytes`      Go `string` / `[]byte`
  * `Res`        the three outcomes of a Go call: value, returned error, panic
  * guarded slice / index primitives that panic exactly where Go would
  * byte-string helpers (split, join, trim, index, replace) used by the renderer

  Core Lean only (no Mathlib) so that the line-protocol driver links as a `lean_exe`.
-/

namespace Vise

abbrev Bytes := List UInt8

/-- Outcome of a modelled Go call. `err k` is a returned `error` (k is a coarse kind, never the
message text), `panic site` is a run-time panic (index/slice out of range, nil dereference or an
explicit `panic(...)`), named by the site that raises it. -/
inductive Res (α : Type) where
  | ok (v : α)
  | err (k : String)
  | panic (site : String)
deriving Repr, DecidableEq

namespace Res

@[inline] def bind {α β : Type} (x : Res α) (f : α → Res β) : Res β :=
  match x with
  | .ok v => f v
  | .err k => .err k
  | .panic s => .panic s

instance : Monad Res where
  pure := .ok
  bind := Res.bind

def isOk {α} : Res α → Bool
  | .ok _ => true
  | _ => false

def isPanic {α} : Res α → Bool
  | .panic _ => true
  | _ => false

def isErr {α} : Res α → Bool
  | .err _ => true
  | _ => false

@[simp] theorem pure_eq {α} (a : α) : (pure a : Res α) = .ok a := rfl
@[simp] theorem bind_ok {α β} (a : α) (f : α → Res β) : (Res.ok a >>= f) = f a := rfl
@[simp] theorem bind_err {α β} (k : String) (f : α → Res β) : (Res.err k >>= f) = .err k := rfl
@[simp] theorem bind_panic {α β} (s : String) (f : α → Res β) : (Res.panic s >>= f) = .panic s := rfl
@[simp] theorem bind_ok' {α β} (a : α) (f : α → Res β) : Res.bind (.ok a) f = f a := rfl
@[simp] theorem bind_err' {α β} (k : String) (f : α → Res β) : Res.bind (.err k) f = .err k := rfl
@[simp] theorem bind_panic' {α β} (s : String) (f : α → Res β) : Res.bind (.panic s) f = .panic s := rfl

theorem bind_eq_ok {α β} {x : Res α} {f : α → Res β} {b : β} :
    (x >>= f) = .ok b ↔ ∃ a, x = .ok a ∧ f a = .ok b := by
  cases x <;> simp [Bind.bind, Res.bind]

theorem bind_eq_panic {α β} {x : Res α} {f : α → Res β} {s : String} :
    (x >>= f) = .panic s ↔ x = .panic s ∨ ∃ a, x = .ok a ∧ f a = .panic s := by
  cases x <;> simp [Bind.bind, Res.bind]

/-- `x` does not panic. -/
def NoPanic {α} (x : Res α) : Prop := ∀ s, x ≠ .panic s

theorem NoPanic.bind {α β} {x : Res α} {f : α → Res β}
    (hx : NoPanic x) (hf : ∀ a, x = .ok a → NoPanic (f a)) : NoPanic (x >>= f) := by
  intro s h
  rcases bind_eq_panic.mp h with h | ⟨a, ha, hfa⟩
  · exact hx s h
  · exact hf a ha s hfa

@[simp] theorem noPanic_ok {α} (a : α) : NoPanic (Res.ok a) := by intro s h; cases h
@[simp] theorem noPanic_err {α} (k : String) : NoPanic (Res.err k : Res α) := by intro s h; cases h

end Res

/-! ### Guarded Go primitives -/

/-- `b[i]` — panics when `i` is out of range. -/
def goIdx (site : String) (b : Bytes) (i : Nat) : Res UInt8 :=
  match b[i]? with
  | some x => .ok x
  | none => .panic site

/-- `b[i:]` — panics when `i > len(b)`. -/
def goFrom (site : String) (b : Bytes) (i : Nat) : Res Bytes :=
  if i ≤ b.length then .ok (b.drop i) else .panic site

/-- `b[i:j]` — panics unless `i ≤ j ≤ len(b)` (the model is stricter than Go, which allows
`j ≤ cap(b)`: reading spare capacity past the end is what the properties call "reading past the
end", so it is a panic here). -/
def goSlice (site : String) (b : Bytes) (i j : Nat) : Res Bytes :=
  if i ≤ j ∧ j ≤ b.length then .ok ((b.take j).drop i) else .panic site

/-! ### Byte-string helpers -/

def beNat (bs : Bytes) : Nat := bs.foldl (fun a b => a * 256 + b.toNat) 0

/-- big-endian encoding of `n` in exactly `w` bytes (high bytes dropped). -/
def toBE : Nat → Nat → Bytes
  | 0, _ => []
  | w + 1, n => toBE w (n / 256) ++ [UInt8.ofNat (n % 256)]

/-- `strings.Split(s, sep)` for a one-byte separator: always at least one field. -/
def splitOn (sep : UInt8) : Bytes → List Bytes
  | [] => [[]]
  | c :: cs =>
    if c = sep then [] :: splitOn sep cs
    else match splitOn sep cs with
      | [] => [[c]]          -- unreachable: splitOn never returns []
      | f :: fs => (c :: f) :: fs

/-- `strings.Join(fields, sep)` for a one-byte separator. -/
def joinWith (sep : UInt8) : List Bytes → Bytes
  | [] => []
  | [f] => f
  | f :: fs => f ++ sep :: joinWith sep fs

/-- `strings.TrimRight(s, string(c))`. -/
def trimRight (c : UInt8) (s : Bytes) : Bytes :=
  (s.reverse.dropWhile (· = c)).reverse

/-- `strings.Index(s, string(c))` (`none` for -1). -/
def indexOf (c : UInt8) : Bytes → Option Nat
  | [] => none
  | x :: xs => if x = c then some 0 else (indexOf c xs).map (· + 1)

/-- `bytes.ReplaceAll(s, [a], [b])`. -/
def replaceByte (a b : UInt8) (s : Bytes) : Bytes := s.map (fun x => if x = a then b else x)

def hexDigit (n : Nat) : Char :=
  if n < 10 then Char.ofNat (48 + n) else Char.ofNat (87 + n)

def toHex (b : Bytes) : String :=
  String.ofList (b.flatMap (fun x => [hexDigit (x.toNat / 16), hexDigit (x.toNat % 16)]))

def hexVal (c : Char) : Option Nat :=
  if '0' ≤ c ∧ c ≤ '9' then some (c.toNat - 48)
  else if 'a' ≤ c ∧ c ≤ 'f' then some (c.toNat - 87)
  else if 'A' ≤ c ∧ c ≤ 'F' then some (c.toNat - 55)
  else none

def fromHexChars : List Char → Option Bytes
  | [] => some []
  | [_] => none
  | a :: b :: rest => do
    let x ← hexVal a
    let y ← hexVal b
    let r ← fromHexChars rest
    pure (UInt8.ofNat (x * 16 + y) :: r)

def fromHex (s : String) : Option Bytes := fromHexChars s.toList

def ascii (s : String) : Bytes := s.toUTF8.toList

/-- decimal digits of a natural number as ASCII bytes (Go `%v` / `strconv.FormatUint(n, 10)`). -/
def natDec (n : Nat) : Bytes := ascii (toString n)

end Vise
