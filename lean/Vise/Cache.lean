/-
  Vise.Cache — model of cache/cache.go (with the two `fix:` commits: full-length limit comparison,
  empty replacement value accepted by Update).

  Generic in the value type: the engine instantiates `V := Bytes`, the cache suite of the driver
  uses `(tag, length)` pairs so that 70000-byte values cost nothing on the Lean side.

  Frames are kept newest-first (`frames.head` is the current scope, the last element is the
  top-level scope); `frameOf` nevertheless returns what the Go loop returns (the outermost frame
  that defines the key). Go maps are association lists with at most one entry per key.
  `uint32` arithmetic on `CacheUseSize` is explicit (`% 2^32`, truncating subtraction).
-/
import Vise.Basic

namespace Vise

class Sized (V : Type) where
  size : V → Nat
  empty : V
  size_empty : size empty = 0

instance : Sized Bytes := ⟨List.length, [], rfl⟩

/-- (tag, length) stand-in for a long string. -/
instance : Sized (Nat × Nat) := ⟨fun p => p.2, (0, 0), rfl⟩

def U32 : Nat := 4294967296

def u32add (a b : Nat) : Nat := (a + b) % U32
def u32sub (a b : Nat) : Nat := (a + U32 - b % U32) % U32

namespace AList

def lookup {V} (k : Bytes) : List (Bytes × V) → Option V
  | [] => none
  | (k', v) :: rest => if k' = k then some v else lookup k rest

/-- `m[k] = v` -/
def set {V} (k : Bytes) (v : V) : List (Bytes × V) → List (Bytes × V)
  | [] => [(k, v)]
  | (k', v') :: rest => if k' = k then (k, v) :: rest else (k', v') :: set k v rest

/-- `delete(m, k)` -/
def erase {V} (k : Bytes) : List (Bytes × V) → List (Bytes × V)
  | [] => []
  | (k', v') :: rest => if k' = k then rest else (k', v') :: erase k rest

def keys {V} (m : List (Bytes × V)) : List Bytes := m.map (·.1)

end AList

abbrev Frame (V : Type) := List (Bytes × V)

structure Cache (V : Type) where
  cacheSize : Nat
  useSize : Nat
  frames : List (Frame V)        -- newest first
  sizes : List (Bytes × Nat)
  lastValue : V
deriving Repr

namespace Cache
variable {V : Type} [Sized V]

/-- `NewCache().WithCacheSize(c)` -/
def new (c : Nat) : Cache V :=
  { cacheSize := c, useSize := 0, frames := [[]], sizes := [], lastValue := Sized.empty }

def frameBytes (f : Frame V) : Nat := (f.map (fun p => Sized.size p.2)).sum

def sumFrames (frames : List (Frame V)) : Nat := (frames.map frameBytes).sum

def totalBytes (ca : Cache V) : Nat := sumFrames ca.frames

def allKeys (frames : List (Frame V)) : List Bytes := frames.flatMap AList.keys

/-- index (from the head of the newest-first list) of the frame Go's `frameOf` returns: the
outermost frame defining the key. -/
def frameOf (k : Bytes) : List (Frame V) → Option Nat
  | [] => none
  | f :: rest =>
    match frameOf k rest with
    | some i => some (i + 1)
    | none => if (AList.lookup k f).isSome then some 0 else none

/-- `checkCapacity` -/
def checkCapacity (ca : Cache V) (v : V) : Nat :=
  let sz := Sized.size v % U32
  if ca.cacheSize = 0 then sz
  else if u32add ca.useSize sz > ca.cacheSize then 0 else sz

def modifyFrame (frames : List (Frame V)) (i : Nat) (f : Frame V → Frame V) : List (Frame V) :=
  frames.modify i f

/-- `Add`. Every operation returns the cache as Go leaves it, also when it reports an error, so
that "a rejected operation leaves the cache unchanged" is a statement with content. -/
def add (ca : Cache V) (k : Bytes) (v : V) (limit : Nat) : Cache V × Res Unit :=
  if limit > 0 ∧ Sized.size v > limit then (ca, .err "limit") else
  match frameOf k ca.frames with
  | some i => if i = 0 then (ca, .err "dup") else (ca, .err "other-frame")
  | none =>
    let sz := if Sized.size v > 0 then checkCapacity ca v else 0
    if Sized.size v > 0 ∧ sz = 0 then (ca, .err "capacity") else
    match ca.frames with
    | [] => (ca, .panic "Add:ca.Cache[len-1]")
    | f :: rest =>
      ({ ca with frames := AList.set k v f :: rest, useSize := u32add ca.useSize sz,
                 sizes := AList.set k limit ca.sizes, lastValue := v }, .ok ())

/-- first half of `Update`: blank the old value `r` in frame `i` and release its bytes. -/
def updBlank (ca : Cache V) (i : Nat) (k : Bytes) (r : V) : Cache V :=
  { ca with frames := modifyFrame ca.frames i (AList.set k Sized.empty),
            useSize := u32sub ca.useSize (Sized.size r % U32) }

/-- second half of `Update` (and its rollback): store `v` in frame `i` and account for it. -/
def updPut (ca : Cache V) (i : Nat) (k : Bytes) (v : V) : Cache V :=
  { ca with frames := modifyFrame ca.frames i (AList.set k v),
            useSize := u32add ca.useSize (Sized.size v % U32) }

/-- `Update`: the old value is blanked and its bytes released before the capacity test, and put
back when the test fails. -/
def update (ca : Cache V) (k : Bytes) (v : V) : Cache V × Res Unit :=
  let limit := (AList.lookup k ca.sizes).getD 0     -- Go map read of a missing key yields 0
  if limit > 0 ∧ Sized.size v > limit then (ca, .err "limit") else
  match frameOf k ca.frames with
  | none => (ca, .err "undefined")
  | some i =>
    let r := match ca.frames[i]? with
      | some f => (AList.lookup k f).getD Sized.empty
      | none => Sized.empty
    let ca1 := updBlank ca i k r
    if checkCapacity ca1 v = 0 ∧ Sized.size v > 0 then
      (updPut ca1 i k r, .err "capacity")
    else
      (updPut ca1 i k v, .ok ())

/-- `Get` -/
def get (ca : Cache V) (k : Bytes) : Res V :=
  match frameOf k ca.frames with
  | none => .err "notfound"
  | some i =>
    match ca.frames[i]? with
    | some f => match AList.lookup k f with
      | some v => .ok v
      | none => .err "unknown"
    | none => .err "unknown"

/-- `ReservedSize` -/
def reservedSize (ca : Cache V) (k : Bytes) : Res Nat :=
  match AList.lookup k ca.sizes with
  | some n => .ok n
  | none => .err "unknown-symbol"

/-- `Push` -/
def push (ca : Cache V) : Cache V := { ca with frames := [] :: ca.frames }

/-- `Pop` -/
def pop (ca : Cache V) : Cache V × Res Unit :=
  match ca.frames with
  | [] => (ca, .err "top")
  | f :: rest =>
    let use := f.foldl (fun u p => u32sub u (Sized.size p.2)) ca.useSize
    let sizes := f.foldl (fun s p => AList.erase p.1 s) ca.sizes
    let frames := if rest.isEmpty then [[]] else rest
    ({ ca with frames := frames, useSize := use, sizes := sizes }, .ok ())

/-- `Reset` -/
def reset (ca : Cache V) : Cache V :=
  match ca.frames.getLast? with
  | none => ca
  | some top =>
    { ca with frames := [top],
              useSize := top.foldl (fun u p => u32add u (Sized.size p.2 % U32)) 0 }

/-- `Last` -/
def last (ca : Cache V) : V × Cache V := (ca.lastValue, { ca with lastValue := Sized.empty })

def levels (ca : Cache V) : Nat := ca.frames.length

/-- `Keys(level)`; level 0 is the top-level frame. Panics when out of range. -/
def keys (ca : Cache V) (level : Nat) : Res (List Bytes) :=
  match ca.frames.reverse[level]? with
  | some f => .ok (AList.keys f)
  | none => .panic "Keys:ca.Cache[level]"

end Cache
end Vise
