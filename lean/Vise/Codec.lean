/-
  Vise.Codec — model of vm/vm.go (NewLine, the argument decoders), vm/debug.go (ParseAll, ToString)
  and the assembler's integer / string writers (asm/asm.go writeSym, writeSize; numSize is
  *specified* as the integer byte width, see DESIGN.md C14).

  Every Go index / slice expression goes through `goIdx` / `goFrom` / `goSlice`, which panic exactly
  when Go does, so "never panics" is a theorem about the length checks and not an artefact of
  totalisation.
-/
import Vise.Basic
import Vise.Gen.Facts

namespace Vise

open Res

/-- One decoded instruction. -/
inductive Instr where
  | catch (sym : Bytes) (sig : Nat) (mode : Bool)
  | croak (sig : Nat) (mode : Bool)
  | load (sym : Bytes) (size : Nat)
  | reload (sym : Bytes)
  | map (sym : Bytes)
  | move (sym : Bytes)
  | halt
  | incmp (target sel : Bytes)
  | msink
  | mout (label sel : Bytes)
  | mnext (label sel : Bytes)
  | mprev (label sel : Bytes)
  | noop
deriving Repr, DecidableEq

/-! ### Encoder: vm.NewLine -/

def u16be (n : Nat) : Bytes := [UInt8.ofNat (n / 256 % 256), UInt8.ofNat (n % 256)]

/-- length prefix written as `uint8(len(arg))` — truncating, as in Go. -/
def lenByte (s : Bytes) : UInt8 := UInt8.ofNat (s.length % 256)

/-- `vm.NewLine(nil, op, strargs, byteargs, numargs)` -/
def newLine (op : Nat) (strs : List Bytes) (bytesArg : Option Bytes) (nums : Option Bytes) : Bytes :=
  u16be op
    ++ strs.flatMap (fun s => lenByte s :: s)
    ++ (match bytesArg with | some b => lenByte b :: b | none => [])
    ++ (match nums with | some n => n | none => [])

/-! ### Decoders: opSplit, instructionSplit, intSplit and the parse* family -/

/-- vm.go:opSplit -/
def opSplit (b : Bytes) : Res (Nat × Bytes) :=
  if b.length < 2 then .err "short-opcode" else do
    let hi ← goIdx "opSplit:b[0]" b 0
    let lo ← goIdx "opSplit:b[1]" b 1
    let op := hi.toNat * 256 + lo.toNat
    if op > Facts.opMax then .err "invalid-opcode" else do
      let rest ← goFrom "opSplit:b[2:]" b 2
      pure (op, rest)

/-- vm.go:instructionSplit (with the length byte counted, as fixed) -/
def instructionSplit (b : Bytes) : Res (Bytes × Bytes) :=
  if b.length = 0 then .err "arg-empty" else do
    let sz ← goIdx "instructionSplit:b[0]" b 0
    if sz = 0 then .err "arg-zero" else
    if b.length ≤ sz.toNat then .err "arg-short" else do
      let r ← goSlice "instructionSplit:b[1:1+sz]" b 1 (1 + sz.toNat)
      let rest ← goFrom "instructionSplit:b[1+sz:]" b (1 + sz.toNat)
      pure (r, rest)

/-- vm.go:intSplit (with the presence, width and length checks, as fixed).
The Go loop copies `l` bytes into the low end of a 4-byte array and reads it big-endian; for
`l ≤ 4` that is the big-endian value of the `l` bytes. -/
def intSplit (b : Bytes) : Res (Nat × Bytes) :=
  if b.length = 0 then .err "int-empty" else do
    let l ← goIdx "intSplit:b[0]" b 0
    if l.toNat > 4 then .err "int-width" else do
      let b1 ← goFrom "intSplit:b[1:]" b 1
      if b1.length < l.toNat then .err "int-short" else
      if l.toNat > 0 then do
        let digits ← goSlice "intSplit:b[c]" b1 0 l.toNat
        let rest ← goFrom "intSplit:b[l:]" b1 l.toNat
        pure (beNat digits, rest)
      else pure (0, b1)

def parseSym (b : Bytes) : Res (Bytes × Bytes) := instructionSplit b

def parseTwoSym (b : Bytes) : Res (Bytes × Bytes × Bytes) := do
  let (s1, b) ← instructionSplit b
  let (s2, b) ← instructionSplit b
  pure (s1, s2, b)

def parseSymLen (b : Bytes) : Res (Bytes × Nat × Bytes) := do
  let (s, b) ← instructionSplit b
  let (n, b) ← intSplit b
  pure (s, n, b)

def parseSig (b : Bytes) : Res (Nat × Bool × Bytes) := do
  let (sig, b) ← intSplit b
  if b.length = 0 then .err "mode-missing" else do
    let m ← goIdx "parseSig:b[0]" b 0
    let rest ← goFrom "parseSig:b[1:]" b 1
    pure (sig, decide (m.toNat > 0), rest)

def parseSymSig (b : Bytes) : Res (Bytes × Nat × Bool × Bytes) := do
  let (s, b) ← instructionSplit b
  let (sig, m, b) ← parseSig b
  pure (s, sig, m, b)

/-- One iteration of `ParseHandler.ParseAll`: opcode, then the arguments of that opcode. -/
def decodeOne (b : Bytes) : Res (Instr × Bytes) := do
  let (op, b) ← opSplit b
  if op = Facts.opCATCH then do
    let (s, sig, m, b) ← parseSymSig b; pure (.catch s sig m, b)
  else if op = Facts.opCROAK then do
    let (sig, m, b) ← parseSig b; pure (.croak sig m, b)
  else if op = Facts.opLOAD then do
    let (s, n, b) ← parseSymLen b; pure (.load s n, b)
  else if op = Facts.opRELOAD then do
    let (s, b) ← parseSym b; pure (.reload s, b)
  else if op = Facts.opMAP then do
    let (s, b) ← parseSym b; pure (.map s, b)
  else if op = Facts.opMOVE then do
    let (s, b) ← parseSym b; pure (.move s, b)
  else if op = Facts.opINCMP then do
    let (s, v, b) ← parseTwoSym b; pure (.incmp s v, b)
  else if op = Facts.opHALT then pure (.halt, b)
  else if op = Facts.opMSINK then pure (.msink, b)
  else if op = Facts.opMOUT then do
    let (s, v, b) ← parseTwoSym b; pure (.mout s v, b)
  else if op = Facts.opMNEXT then do
    let (s, v, b) ← parseTwoSym b; pure (.mnext s v, b)
  else if op = Facts.opMPREV then do
    let (s, v, b) ← parseTwoSym b; pure (.mprev s v, b)
  else if op = Facts.opNOOP then pure (.noop, b)
  else .err "unknown-opcode"

/-- `ParseAll`: a do-while loop — at least one instruction, until the bytes are used up.
Structural recursion on fuel; `parseAll` supplies `len + 1`, which `parseAllF_fuel` shows is
never exhausted (each iteration consumes at least two bytes). -/
def parseAllF : Nat → Bytes → Res (List Instr)
  | 0, _ => .err "fuel"
  | n + 1, b => do
    let (i, b') ← decodeOne b
    if b'.length = 0 then pure [i]
    else do
      let is ← parseAllF n b'
      pure (i :: is)

def parseAll (b : Bytes) : Res (List Instr) := parseAllF (b.length + 1) b

/-! ### Disassembler text (vm/debug.go) -/

def sp : Bytes := [0x20]
def nl : Bytes := [0x0a]
def modeDigit (m : Bool) : Bytes := if m then ascii "1" else ascii "0"

/-- the line `ParseHandler` writes for one instruction. -/
def pretty : Instr → Bytes
  | .catch s f m => ascii "CATCH" ++ sp ++ s ++ sp ++ natDec f ++ sp ++ modeDigit m ++ nl
  | .croak f m => ascii "CROAK" ++ sp ++ natDec f ++ sp ++ modeDigit m ++ nl
  | .load s n => ascii "LOAD" ++ sp ++ s ++ sp ++ natDec n ++ nl
  | .reload s => ascii "RELOAD" ++ sp ++ s ++ nl
  | .map s => ascii "MAP" ++ sp ++ s ++ nl
  | .move s => ascii "MOVE" ++ sp ++ s ++ nl
  | .halt => ascii "HALT" ++ nl
  | .incmp s v => ascii "INCMP" ++ sp ++ s ++ sp ++ v ++ nl
  | .msink => ascii "MSINK" ++ nl
  | .mout s v => ascii "MOUT" ++ sp ++ s ++ sp ++ v ++ nl
  | .mnext s v => ascii "MNEXT" ++ sp ++ s ++ sp ++ v ++ nl
  | .mprev s v => ascii "MPREV" ++ sp ++ s ++ sp ++ v ++ nl
  | .noop => []

/-- `ParseHandler.ToString` -/
def toStringAll (b : Bytes) : Res Bytes := do
  let is ← parseAll b
  pure (is.flatMap pretty)

/-! ### Canonical encoders -/

/-- number of bytes needed for `n` (the specification of `asm.numSize` for `n > 0`). -/
def byteWidth (n : Nat) : Nat :=
  if n < 256 then 1 else if n < 65536 then 2 else if n < 16777216 then 3 else 4

/-- `asm.writeSize` — minimal big-endian width, zero as `01 00`. -/
def writeSize (n : Nat) : Bytes :=
  if n = 0 then [1, 0] else UInt8.ofNat (byteWidth n) :: toBE (byteWidth n) n

/-- an integer argument written with an explicit width `w` (what `NewLine` does with a caller
supplied `byteargs` of `w` bytes). -/
def encodeIntW (w n : Nat) : Bytes := UInt8.ofNat w :: toBE w n

/-- `asm.writeSym` (length byte, then the bytes). -/
def writeSym (s : Bytes) : Bytes := lenByte s :: s

def modeByte (m : Bool) : UInt8 := if m then 1 else 0

/-- Encoding of an instruction with the assembler's argument layout (`vm.NewLine` produces the
same bytes when given the minimal-width integer). -/
def encode : Instr → Bytes
  | .catch s f m => u16be Facts.opCATCH ++ writeSym s ++ writeSize f ++ [modeByte m]
  | .croak f m => u16be Facts.opCROAK ++ writeSize f ++ [modeByte m]
  | .load s n => u16be Facts.opLOAD ++ writeSym s ++ writeSize n
  | .reload s => u16be Facts.opRELOAD ++ writeSym s
  | .map s => u16be Facts.opMAP ++ writeSym s
  | .move s => u16be Facts.opMOVE ++ writeSym s
  | .halt => u16be Facts.opHALT
  | .incmp s v => u16be Facts.opINCMP ++ writeSym s ++ writeSym v
  | .msink => u16be Facts.opMSINK
  | .mout s v => u16be Facts.opMOUT ++ writeSym s ++ writeSym v
  | .mnext s v => u16be Facts.opMNEXT ++ writeSym s ++ writeSym v
  | .mprev s v => u16be Facts.opMPREV ++ writeSym s ++ writeSym v
  | .noop => u16be Facts.opNOOP

/-- the same instruction through `vm.NewLine` with an integer written in `w` bytes. -/
def encodeNewLine (w : Nat) : Instr → Bytes
  | .catch s f m => newLine Facts.opCATCH [s] (some (toBE w f)) (some [modeByte m])
  | .croak f m => newLine Facts.opCROAK [] (some (toBE w f)) (some [modeByte m])
  | .load s n => newLine Facts.opLOAD [s] (some (toBE w n)) none
  | .reload s => newLine Facts.opRELOAD [s] none none
  | .map s => newLine Facts.opMAP [s] none none
  | .move s => newLine Facts.opMOVE [s] none none
  | .halt => newLine Facts.opHALT [] none none
  | .incmp s v => newLine Facts.opINCMP [s, v] none none
  | .msink => newLine Facts.opMSINK [] none none
  | .mout s v => newLine Facts.opMOUT [s, v] none none
  | .mnext s v => newLine Facts.opMNEXT [s, v] none none
  | .mprev s v => newLine Facts.opMPREV [s, v] none none
  | .noop => newLine Facts.opNOOP [] none none

def symOk (s : Bytes) : Prop := 1 ≤ s.length ∧ s.length ≤ 255

instance (s : Bytes) : Decidable (symOk s) := by unfold symOk; exact inferInstance

/-- encodable instructions: symbols/selectors of 1..255 bytes, numbers below 2^32. -/
def Instr.WF : Instr → Prop
  | .catch s f _ => symOk s ∧ f < 4294967296
  | .croak f _ => f < 4294967296
  | .load s n => symOk s ∧ n < 4294967296
  | .reload s => symOk s
  | .map s => symOk s
  | .move s => symOk s
  | .halt => True
  | .incmp s v => symOk s ∧ symOk v
  | .msink => True
  | .mout s v => symOk s ∧ symOk v
  | .mnext s v => symOk s ∧ symOk v
  | .mprev s v => symOk s ∧ symOk v
  | .noop => True

end Vise
