/-
  Vise.Conc — the part of "independent sessions do not interfere" that is logic:

  * Go slices over a heap of arrays, with `append`'s in-place-when-capacity-allows semantics, reslicing
    and the clipped append `append(b[:len(b):len(b)], x...)` the VM uses since the `fix:` commit.
    A slice handed out by the resource is shared by every session; what a session appends to is its
    pending code buffer `b`.
  * a system of sessions, each with its own state, stepping over shared immutable data.

  What is NOT here: goroutine scheduling, the Go memory model, the race detector's view. Those are
  exercised on the real code by the `conc` suite under `-race`.

  The process-wide state of the library is pinned to the regenerated inventory in Vise/Pins/C19.lean.
-/
import Vise.Basic
import Vise.Gen.Facts

namespace Vise.Conc

abbrev Heap := List Bytes

structure Slice where
  arr : Nat
  off : Nat
  len : Nat
  cap : Nat  -- counted from `off`
deriving Repr, DecidableEq

def Slice.read (h : Heap) (s : Slice) : Bytes := ((h.getD s.arr []).drop s.off).take s.len

/-- `make([]byte, len, cap)` filled by `fill` -/
def goMake (h : Heap) (content : Bytes) (cap : Nat) : Heap × Slice :=
  (h ++ [content ++ List.replicate (cap - content.length) 0],
   { arr := h.length, off := 0, len := content.length, cap := max cap content.length })

/-- `s[k:]` (k ≤ len) -/
def Slice.from (s : Slice) (k : Nat) : Slice :=
  let k := min k s.len
  { s with off := s.off + k, len := s.len - k, cap := s.cap - k }

/-- `s[:len(s):len(s)]` -/
def Slice.clip (s : Slice) : Slice := { s with cap := s.len }

/-- overwrite `a` from position `i` with `xs` (positions exist) -/
def writeAt (a : Bytes) (i : Nat) (xs : Bytes) : Bytes := a.take i ++ xs ++ a.drop (i + xs.length)

/-- the Go runtime's allocation size classes (bytes) that matter for the buffers compared by the harness -/
def sizeClasses : List Nat :=
  [8, 16, 24, 32, 48, 64, 80, 96, 112, 128, 144, 160, 176, 192, 208, 224, 240, 256, 288, 320, 352, 384, 416, 448, 480, 512]

/-- `growslice` for byte slices: double a small capacity unless more is needed, then round up to the size
class. Only `needed ≤ growCap` matters to the theorems; the exact value is compared with the runtime. -/
def growCap (oldCap needed : Nat) : Nat :=
  let want := if needed > 2 * oldCap then needed else if oldCap < 256 then 2 * oldCap else needed
  let c := (sizeClasses.find? (fun c => want ≤ c)).getD want
  max c needed

/-- `append(s, xs...)`: in place when the capacity allows, otherwise a fresh, larger array -/
def goAppend (h : Heap) (s : Slice) (xs : Bytes) : Heap × Slice :=
  if s.len + xs.length ≤ s.cap then
    (h.modify s.arr (fun a => writeAt a (s.off + s.len) xs), { s with len := s.len + xs.length })
  else
    let content := s.read h ++ xs
    let cap := growCap s.cap content.length
    (h ++ [content ++ List.replicate (cap - content.length) 0],
     { arr := h.length, off := 0, len := content.length, cap := cap })

/-- the append of `runMove`/`runInCmp` since the fix -/
def clippedAppend (h : Heap) (s : Slice) (xs : Bytes) : Heap × Slice := goAppend h s.clip xs

/-! ### sessions over shared data -/

/-- a system: shared immutable data `env`, one private state per session -/
structure Sys (σ : Type) where
  sessions : List σ

/-- serve one request of session `i` -/
def Sys.serve {ε σ ι ω} (step : ε → σ → ι → σ × ω) (env : ε) (sys : Sys σ) (i : Nat) (inp : ι) : Sys σ × Option ω :=
  match sys.sessions[i]? with
  | none => (sys, none)
  | some st =>
    let (st', out) := step env st inp
    ({ sessions := sys.sessions.set i st' }, some out)

/-- serve a schedule (any interleaving of the sessions' requests); the transcript is in schedule order -/
def Sys.run {ε σ ι ω} (step : ε → σ → ι → σ × ω) (env : ε) : Sys σ → List (Nat × ι) → Sys σ × List (Nat × ω)
  | sys, [] => (sys, [])
  | sys, (i, inp) :: rest =>
    let (sys', out) := sys.serve step env i inp
    let (sys'', outs) := Sys.run step env sys' rest
    (sys'', match out with | some o => (i, o) :: outs | none => outs)

/-- one session served alone -/
def alone {ε σ ι ω} (step : ε → σ → ι → σ × ω) (env : ε) : σ → List ι → σ × List ω
  | st, [] => (st, [])
  | st, inp :: rest =>
    let (st', o) := step env st inp
    let (st'', os) := alone step env st' rest
    (st'', o :: os)

end Vise.Conc
