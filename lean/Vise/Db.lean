/-
  Vise.Db — model of db/db.go (key derivation, locks), db/mem/mem.go and db/fs/fs.go + dump.go.

  * a storage key is the type byte, the session prefix (session id + '.', only for the sessioned
    types STATE and USERDATA), the key, and a language suffix ("_" + ISO code, only for MENU,
    TEMPLATE, STATICLOAD). Constants are regenerated from db/db.go.
  * the memory backend is a map on storage keys; the filesystem backend is a map on file names
    (`pathFor`: type byte + 0x30; `altPathFor`: the legacy name without the type byte, `.bin` for
    bytecode) read in the order translation, legacy translation, default, legacy default.
    `path.Join` cleaning is not modelled: keys and session ids containing '/' are outside the domain.
  * binary-key mode applies an encoding (base64) to the key before everything else; the model takes
    the encoder as a parameter (the driver passes real base64).
-/
import Vise.Cache
import Vise.Gen.Facts

namespace Vise

structure DbCtx where
  pfx : Nat := 0
  /-- session prefix as stored: empty, or the session id followed by the separator -/
  sid : Bytes := []
  lang : Option Bytes := none
  lock : Nat := Facts.safeLock
  isSealed : Bool := false
deriving Repr, DecidableEq

def langTypes : Nat := Facts.dtMenu ||| Facts.dtTemplate ||| Facts.dtStaticload

namespace DbCtx

/-- `SetSession` -/
def setSession (c : DbCtx) (sessionId : Bytes) : DbCtx :=
  { c with sid := if sessionId.isEmpty then [] else sessionId ++ [UInt8.ofNat Facts.sessionSep] }

def setPrefix (c : DbCtx) (pfx : Nat) : DbCtx := { c with pfx := pfx % 256 }

def setLanguage (c : DbCtx) (l : Option Bytes) : DbCtx := { c with lang := l }

/-- `SetLock(pfx, lock)` -/
def setLock (c : DbCtx) (pfx : Nat) (lock : Bool) : Res DbCtx :=
  if c.isSealed then .err "sealed"
  else if pfx = 0 then .ok { c with lock := c.lock ||| Facts.safeLock, isSealed := true }
  else if lock then .ok { c with lock := (c.lock ||| pfx) % 256 }
  else .ok { c with lock := c.lock &&& ((255 - pfx % 256) % 256) }

/-- `CheckPut` -/
def checkPut (c : DbCtx) : Bool := c.pfx &&& c.lock = 0

/-- `Safe` -/
def safe (c : DbCtx) : Bool := c.lock &&& Facts.safeLock = Facts.safeLock

end DbCtx

/-- `ToSessionKey` -/
def toSessionKey (sid : Bytes) (pfx : Nat) (key : Bytes) : Bytes :=
  if pfx > Facts.sessionedThreshold then sid ++ key else key

/-- `ToDbKey(typ, b, lang)` -/
def toDbKey (typ : Nat) (b : Bytes) (l : Option Bytes) : Bytes :=
  let b := match l with
    | some code => if !code.isEmpty && typ &&& langTypes > 0 then b ++ ascii Facts.langSep ++ code else b
    | none => b
  UInt8.ofNat typ :: b

structure LookupKey where
  default : Bytes
  translation : Option Bytes
deriving Repr, DecidableEq

/-- `ToKey(ctx, key)`; `ctxLang` is the language on the Go context -/
def toKey (c : DbCtx) (ctxLang : Option Bytes) (key : Bytes) : Res LookupKey :=
  if c.pfx = Facts.dtUnknown then .err "unknown-datatype"
  else
    let b := toSessionKey c.sid c.pfx key
    let ln := match c.lang with | some l => some l | none => ctxLang
    let tr := if c.pfx &&& langTypes > 0 then
        (match ln with | some l => some (toDbKey c.pfx b (some l)) | none => none)
      else none
    .ok { default := toDbKey c.pfx b none, translation := tr }

/-! ### memory backend -/

abbrev Store := List (Bytes × Bytes)

namespace Mem

def get (c : DbCtx) (ctxLang : Option Bytes) (st : Store) (key : Bytes) : Res Bytes := do
  let lk ← toKey c ctxLang key
  let tr := match lk.translation with
    | some t => AList.lookup t st
    | none => none
  match tr with
  | some v => pure v
  | none => match AList.lookup lk.default st with
    | some v => pure v
    | none => .err "notfound"

def put (c : DbCtx) (ctxLang : Option Bytes) (st : Store) (key val : Bytes) : Store × Res Unit :=
  if !c.checkPut then (st, .err "locked")
  else match toKey c ctxLang key with
    | .ok lk =>
      (AList.set (lk.translation.getD lk.default) val st, .ok ())
    | .err e => (st, .err e)
    | .panic p => (st, .panic p)

end Mem

/-! ### filesystem backend -/

namespace Fs

/-- file name for a storage key (`pathFor`): the type byte shifted into the printable range -/
def nameFor (k : Bytes) : Bytes :=
  match k with
  | [] => []
  | t :: rest => UInt8.ofNat ((t.toNat + Facts.fsTypeOffset) % 256) :: rest

/-- legacy file name (`altPathFor`): the key without its type byte, `.bin` for bytecode -/
def altNameFor (pfx : Nat) (k : Bytes) : Bytes :=
  k.drop 1 ++ (if pfx = Facts.dtBin then ascii ".bin" else [])

/-- `fsDb.ToKey`: binary mode encodes the key first -/
def fsToKey (enc : Option (Bytes → Bytes)) (c : DbCtx) (ctxLang : Option Bytes) (key : Bytes) : Res LookupKey :=
  toKey c ctxLang (match enc with | some f => f key | none => key)

def get (enc : Option (Bytes → Bytes)) (c : DbCtx) (ctxLang : Option Bytes) (files : Store) (key : Bytes) :
    Res Bytes := do
  let lk ← fsToKey enc c ctxLang key
  let cands : List (Option Bytes) :=
    [lk.translation.map nameFor, lk.translation.map (altNameFor c.pfx),
     some (nameFor lk.default), some (altNameFor c.pfx lk.default)]
  -- an empty file name means "skip" in Go (`if fp == ""`); with a directory it never is empty
  match cands.findSome? (fun c => match c with
      | some n => AList.lookup n files
      | none => none) with
  | some v => pure v
  | none => .err "notfound"

def put (enc : Option (Bytes → Bytes)) (c : DbCtx) (ctxLang : Option Bytes) (files : Store) (key val : Bytes) :
    Store × Res Unit :=
  if !c.checkPut then (files, .err "locked")
  else match fsToKey enc c ctxLang key with
    | .ok lk =>
      (AList.set (nameFor (lk.translation.getD lk.default)) val files, .ok ())
    | .err e => (files, .err e)
    | .panic p => (files, .panic p)

/-- `FromDbKey` -/
def fromDbKey (b : Bytes) : Res Bytes :=
  if b.length < 2 then .err "invalid-db-key"
  else
    let typ := (b.headD 0).toNat
    let b := b.drop 1
    if typ &&& langTypes > 0 && b.length > 6 && b[b.length - 4]? = some 0x5f then .ok (b.take (b.length - 4))
    else .ok b

/-- `FromSessionKey` -/
def fromSessionKey (sid key : Bytes) : Res Bytes :=
  if sid.isEmpty then .ok key
  else if sid.isPrefixOf key then .ok (key.drop sid.length)
  else .err "session-prefix-mismatch"

/-- `fsDb.DecodeKey` (`dec` is the base64 decoder in binary mode) -/
def decodeKey (dec : Option (Bytes → Option Bytes)) (c : DbCtx) (k : Bytes) : Res Bytes := do
  let k ← fromDbKey k
  let k ← fromSessionKey c.sid k
  match dec with
  | none => pure k
  | some f => match f k with
    | some x => pure x
    | none => .err "base64"

/-- `nextElement`: the directory entry name with its first byte shifted back -/
def elementKey (name : Bytes) : Bytes :=
  match name with
  | [] => []
  | t :: rest => UInt8.ofNat ((t.toNat + 256 - Facts.fsTypeOffset) % 256) :: rest

def insertSortedB (x : Bytes × Bytes) : Store → Store
  | [] => [x]
  | y :: ys => if x.1 ≤ y.1 then x :: y :: ys else y :: insertSortedB x ys

/-- `os.ReadDir`: entries sorted by file name -/
def sortedFiles (files : Store) : Store := files.foldl (fun acc x => insertSortedB x acc) []

/-- the continuation of a dump (`dumpFunc` called by `Dumper.Next` until it yields nil) -/
def dumpRest (enc : Option (Bytes → Bytes)) (dec : Option (Bytes → Option Bytes)) (c : DbCtx)
    (ctxLang : Option Bytes) (files : Store) (mp : Bytes) : List Bytes → List (Bytes × Bytes)
  | [] => []
  | name :: rest =>
    let k := elementKey name
    match decodeKey dec c k with
    | .ok kk =>
      let kkk := (k.headD 0) :: kk
      if mp.isPrefixOf kkk then
        match get enc c ctxLang files kk with
        | .ok vv => (kk, vv) :: dumpRest enc dec c ctxLang files mp rest
        | _ => []
      else []
    | _ => []

/-- `Dump(key)` followed by `Next` until exhaustion: the listed (key, value) pairs -/
def dump (enc : Option (Bytes → Bytes)) (dec : Option (Bytes → Option Bytes)) (c : DbCtx)
    (ctxLang : Option Bytes) (files : Store) (key : Bytes) : Res (List (Bytes × Bytes)) :=
  let mp := UInt8.ofNat c.pfx :: key
  let names := (sortedFiles files).map (·.1)
  let rec first : List Bytes → Res (List (Bytes × Bytes))
    | [] => .err "notfound"
    | name :: rest =>
      let k := elementKey name
      if mp.length > k.length then first rest
      else match decodeKey dec c k with
        | .ok kk =>
          let kkk := (k.headD 0) :: kk
          if mp.isPrefixOf kkk then
            match get enc c ctxLang files kk with
            | .ok vv => .ok ((kk, vv) :: dumpRest enc dec c ctxLang files mp rest)
            | .err e => .err e
            | .panic p => .panic p
          else first rest
        | _ => first rest
  first names

end Fs

/-! ### Postgres wrapper: listing (db/postgres/dump.go), on the rows of the table in key order -/
namespace Pg

/-- the continuation of a dump: rows are handed out while they carry the storage-key prefix the listing was
opened with and decode in the current session -/
def dumpRest (c : DbCtx) (base : Bytes) : List (Bytes × Bytes) → List (Bytes × Bytes)
  | [] => []
  | (kk, vv) :: rest =>
    if base.isPrefixOf kk then
      match Fs.decodeKey none c kk with
      | .ok k => (k, vv) :: dumpRest c base rest
      | _ => []
    else []

/-- the rows the query `SELECT key, value ... WHERE key >= $1` returns (the fake server returns them in key order) -/
def rowsFrom (st : Store) (base : Bytes) : List (Bytes × Bytes) :=
  (Fs.sortedFiles st).filter (fun r => base ≤ r.1)

/-- `Dump(key)` followed by `Next` until exhaustion; the handle's language is reset as a side effect (the caller
applies it to the context). -/
def dump (c : DbCtx) (st : Store) (key : Bytes) : Res (List (Bytes × Bytes)) :=
  match toKey { c with lang := none } none key with
  | .err e => .err e
  | .panic p => .panic p
  | .ok lk =>
    match rowsFrom st lk.default with
    | [] => .err "notfound"
    | (kk, vv) :: rest =>
      if lk.default.isPrefixOf kk then
        match Fs.decodeKey none c kk with
        | .ok k => .ok ((k, vv) :: dumpRest c lk.default rest)
        | .err e => .err e
        | .panic p => .panic p
      else .err "notfound"

end Pg
end Vise
