/-
  Driver suite `asm`:
    asm <hexsrc>          -> ok <hexbytes> | err | panic
    lex <hexsrc>          -> <Rule>:<hex> ... | - | err
    pu <bits> <hexdigits> -> ok <n> | err       (strconv.ParseUint(s, 0, bits) on a digit string)
    fu <n>                -> <hex>              (strconv.FormatUint(n, 10))
-/
import Vise.Asm
import Vise.Driver.Common

namespace Vise.Driver
open Vise Vise.Asm

def tokOut : Tok → String
  | .comment s => "Comment:" ++ hexOut s
  | .ident s => "Ident:" ++ hexOut s
  | .size s => "Size:" ++ hexOut s
  | .sym s => "Sym:" ++ hexOut s
  | .ws s => "Whitespace:" ++ hexOut s
  | .eol s => "EOL:" ++ hexOut s
  | .quote s => "Quote:" ++ hexOut s

def asmStep (_ : Unit) (line : String) : Unit × List String :=
  let out := match words line with
    | ["asm", h] =>
      match hexArg h with
      | none => "bad-op"
      | some src => match assemble src with
        | .ok b => "ok " ++ hexOut b
        | .err _ => "err"
        | .panic _ => "panic"
    | ["cli", h] =>
      -- dev/asm without -f hands the file to asm.Parse unchanged
      match hexArg h with
      | none => "bad-op"
      | some src => match assemble src with
        | .ok b => "ok " ++ hexOut b
        | .err _ => "err"
        | .panic _ => "err"   -- the process dies: exit status non-zero
    | ["clif", h] =>
      -- with -f the flag names of CATCH (third word) and CROAK (second word) are replaced by their numbers
      match hexArg h with
      | none => "bad-op"
      | some src =>
        let flagOf := fun (w : String) =>
          if w = "alpha" then "8" else if w = "beta" then "9" else if w = "gamma" then "300" else w
        let lines := (String.fromUTF8! (ByteArray.mk src.toArray)).splitOn "\n"
        let lines := lines.map fun l =>
          match words l with
          | ["CATCH", n, fl, m] => " ".intercalate ["CATCH", n, flagOf fl, m]
          | ["CROAK", fl, m] => " ".intercalate ["CROAK", flagOf fl, m]
          | _ => l
        match assemble (ascii ("\n".intercalate lines)) with
        | .ok b => "ok " ++ hexOut b
        | .err _ => "err"
        | .panic _ => "err"
    | ["lex", h] =>
      match hexArg h with
      | none => "bad-op"
      | some src => match lex src with
        | none => "err"
        | some [] => "-"
        | some ts => " ".intercalate (ts.map tokOut)
    | ["pu", bits, h] =>
      match bits.toNat?, hexArg h with
      | some b, some s => match parseUint0 b s with
        | some n => s!"ok {n}"
        | none => "err"
      | _, _ => "bad-op"
    | ["fu", n] =>
      match n.toNat? with
      | some n => hexOut (fmtUint n)
      | none => "bad-op"
    | _ => "bad-op"
  ((), [out])

end Vise.Driver
