/-
  Driver suite `cache`: one operation sequence per line.
    <capacity> <op>;<op>;...
  ops:  a:<key>:<tag>:<len>:<limit>   Add        u:<key>:<tag>:<len>   Update
        g:<key>   Get      r:<key>   ReservedSize     p  Push     o  Pop     x  Reset
        l  Last            k:<level> Keys
  values are (tag, length) pairs standing for `length` copies of the byte 'a'+tag.
  output: one field per op, separated by " # ":  <result>|<use>|<frames>|<sizes>|<last>
-/
import Vise.Cache
import Vise.Driver.Common

namespace Vise.Driver
open Vise

abbrev TV := Nat × Nat

def canonTV (v : TV) : TV := if v.2 = 0 then (0, 0) else v

def tvOut (v : TV) : String := let v := canonTV v; s!"{v.1}.{v.2}"

def insertSorted (x : String) : List String → List String
  | [] => [x]
  | y :: ys => if x ≤ y then x :: y :: ys else y :: insertSorted x ys

def sortStrings (l : List String) : List String := l.foldl (fun acc x => insertSorted x acc) []

def frameOut (f : Frame TV) : String :=
  ",".intercalate (sortStrings (f.map (fun p => s!"{hexOut p.1}={tvOut p.2}")))

def cacheOut (ca : Cache TV) : String :=
  let frames := ";".intercalate (ca.frames.reverse.map frameOut)
  let sizes := ",".intercalate (sortStrings (ca.sizes.map (fun p => s!"{hexOut p.1}={p.2}")))
  s!"{ca.useSize}|{frames}|{sizes}|{tvOut ca.lastValue}"

def cacheOp (ca : Cache TV) (op : String) : Cache TV × String :=
  match op.splitOn ":" with
  | ["a", k, t, l, lim] =>
    match hexArg k, t.toNat?, l.toNat?, lim.toNat? with
    | some k, some t, some l, some lim =>
      let (ca', r) := ca.add k (canonTV (t, l)) lim
      (ca', resTag r)
    | _, _, _, _ => (ca, "bad-op")
  | ["u", k, t, l] =>
    match hexArg k, t.toNat?, l.toNat? with
    | some k, some t, some l =>
      let (ca', r) := ca.update k (canonTV (t, l))
      (ca', resTag r)
    | _, _, _ => (ca, "bad-op")
  | ["g", k] =>
    match hexArg k with
    | some k => match ca.get k with
      | .ok v => (ca, "ok:" ++ tvOut v)
      | r => (ca, resTag r)
    | none => (ca, "bad-op")
  | ["r", k] =>
    match hexArg k with
    | some k => match ca.reservedSize k with
      | .ok n => (ca, s!"ok:{n}")
      | r => (ca, resTag r)
    | none => (ca, "bad-op")
  | ["p"] => (ca.push, "ok")
  | ["o"] => let (ca', r) := ca.pop; (ca', resTag r)
  | ["x"] => (ca.reset, "ok")
  | ["l"] => let (v, ca') := ca.last; (ca', "ok:" ++ tvOut v)
  | ["k", lv] =>
    match lv.toNat? with
    | some lv => match ca.keys lv with
      | .ok ks => (ca, "ok:" ++ ",".intercalate (sortStrings (ks.map hexOut)))
      | r => (ca, resTag r)
    | none => (ca, "bad-op")
  | _ => (ca, "bad-op")

def cacheStep (_ : Unit) (line : String) : Unit × List String :=
  match words line with
  | [cap, ops] =>
    match cap.toNat? with
    | some cap =>
      let init : Cache TV := Cache.new cap
      let (_, outs) := (ops.splitOn ";").foldl (fun (acc : Cache TV × List String) op =>
        let (ca', r) := cacheOp acc.1 op
        (ca', (s!"{r}|{cacheOut ca'}") :: acc.2)) (init, [])
      ((), [" # ".intercalate outs.reverse])
    | none => ((), ["bad-op"])
  | _ => ((), ["bad-op"])

end Vise.Driver
