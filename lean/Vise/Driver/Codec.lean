/-
  Driver suite `codec`: one request per line.
    parse <hex>      -> ok <instr>,<instr>,... | err | panic      (ParseHandler.ParseAll)
    str <hex>        -> ok <hex of listing>   | err | panic       (ParseHandler.ToString)
    one <hex>        -> ok <instr> <rest-hex> | err | panic       (one decode step, as Vm.Run does)
    int <n>          -> <hex>                                     (asm.writeSize)
    enc <instr>      -> <hex>                                     (assembler layout / NewLine minimal)
-/
import Vise.Codec
import Vise.Driver.Common

namespace Vise.Driver
open Vise

def instrOut : Instr → String
  | .catch s f m => s!"CATCH:{hexOut s}:{f}:{if m then 1 else 0}"
  | .croak f m => s!"CROAK:{f}:{if m then 1 else 0}"
  | .load s n => s!"LOAD:{hexOut s}:{n}"
  | .reload s => s!"RELOAD:{hexOut s}"
  | .map s => s!"MAP:{hexOut s}"
  | .move s => s!"MOVE:{hexOut s}"
  | .halt => "HALT"
  | .incmp s v => s!"INCMP:{hexOut s}:{hexOut v}"
  | .msink => "MSINK"
  | .mout s v => s!"MOUT:{hexOut s}:{hexOut v}"
  | .mnext s v => s!"MNEXT:{hexOut s}:{hexOut v}"
  | .mprev s v => s!"MPREV:{hexOut s}:{hexOut v}"
  | .noop => "NOOP"

def instrIn (s : String) : Option Instr :=
  match s.splitOn ":" with
  | ["CATCH", a, f, m] => do pure (.catch (← hexArg a) (← f.toNat?) (m = "1"))
  | ["CROAK", f, m] => do pure (.croak (← f.toNat?) (m = "1"))
  | ["LOAD", a, n] => do pure (.load (← hexArg a) (← n.toNat?))
  | ["RELOAD", a] => do pure (.reload (← hexArg a))
  | ["MAP", a] => do pure (.map (← hexArg a))
  | ["MOVE", a] => do pure (.move (← hexArg a))
  | ["HALT"] => some .halt
  | ["INCMP", a, b] => do pure (.incmp (← hexArg a) (← hexArg b))
  | ["MSINK"] => some .msink
  | ["MOUT", a, b] => do pure (.mout (← hexArg a) (← hexArg b))
  | ["MNEXT", a, b] => do pure (.mnext (← hexArg a) (← hexArg b))
  | ["MPREV", a, b] => do pure (.mprev (← hexArg a) (← hexArg b))
  | ["NOOP"] => some .noop
  | _ => none

def codecStep (_ : Unit) (line : String) : Unit × List String :=
  let out :=
    match words line with
    | ["parse", h] =>
      match hexArg h with
      | some b =>
        match parseAll b with
        -- NOOP has no handler callback in `ParseHandler`, so it is invisible on the Go side
        | .ok is => "ok " ++ ",".intercalate ((is.filter (· ≠ .noop)).map instrOut)
        | r => resTag r
      | none => "bad-op"
    | ["str", h] =>
      match hexArg h with
      | some b =>
        match toStringAll b with
        | .ok t => "ok " ++ hexOut t
        | r => resTag r
      | none => "bad-op"
    | ["one", h] =>
      match hexArg h with
      | some b =>
        match decodeOne b with
        | .ok (i, r) => s!"ok {instrOut i} {hexOut r}"
        | r => resTag r
      | none => "bad-op"
    | ["prog", l] =>
      match (l.splitOn ",").mapM instrIn with
      | some is => "ok " ++ hexOut (is.flatMap encode)
      | none => "bad-op"
    | ["int", n] =>
      match n.toNat? with
      | some n => hexOut (writeSize n)
      | none => "bad-op"
    | ["encw", w, i] =>
      match w.toNat?, instrIn i with
      | some w, some i => hexOut (encodeNewLine w i ++ encodeNewLine 0 .halt)
      | _, _ => "bad-op"
    | ["enc", i] =>
      match instrIn i with
      | some i => hexOut (encode i)
      | none => "bad-op"
    | _ => "bad-op"
  ((), [out])

end Vise.Driver
