/-
  Line-protocol helpers shared by the driver suites (core Lean only).
-/
import Vise.Basic

namespace Vise.Driver
open Vise

def words (s : String) : List String :=
  (s.splitOn " ").filter (· ≠ "")

/-- hex field; the single character `-` denotes the empty string. -/
def hexArg (s : String) : Option Bytes :=
  if s = "-" then some [] else fromHex s

def hexOut (b : Bytes) : String := if b.isEmpty then "-" else toHex b

def resTag {α} : Res α → String
  | .ok _ => "ok"
  | .err _ => "err"
  | .panic _ => "panic"

partial def loop (h : IO.FS.Stream) (out : IO.FS.Stream) (st : σ) (step : σ → String → σ × List String) : IO Unit := do
  let line ← h.getLine
  if line.isEmpty then
    return ()
  let line := String.ofList (line.toList.reverse.dropWhile (fun c => c = '\n' || c = '\r')).reverse
  let (st', outs) := step st line
  for o in outs do
    out.putStrLn o
  loop h out st' step

end Vise.Driver
