/-
  Driver suite `conc`:
    conc spare=.. store=.. rounds=.. ## <engine case> ## <engine case> ...
        -> the sequential engine model on every session's history, sessions separated by " @@ "
    slice <op>;<op>;...   (M:<len>:<cap>  S:<i>:<k>  A:<i>:<hex>  C:<i>:<hex>)
        -> contents of all slices after every op, ops separated by " | "
-/
import Vise.Conc
import Vise.Driver.Engine

namespace Vise.Driver
open Vise Vise.Conc

def sliceRun (ops : List String) : String :=
  let step := fun (acc : Option (Heap × List Slice × Nat × List String)) (op : String) =>
    match acc with
    | none => none
    | some (h, sl, ctr, outs) =>
      let r : Option (Heap × List Slice × Nat) :=
        match op.splitOn ":" with
        | ["M", l, c] =>
          match l.toNat?, c.toNat? with
          | some l, some c =>
            let content := (List.range l).map fun i => UInt8.ofNat (ctr + i)
            let (h', s) := goMake h content c
            some (h', sl ++ [s], ctr + l)
          | _, _ => none
        | ["S", i, k] =>
          match i.toNat?, k.toNat? with
          | some i, some k => (sl[i]?).map fun s => (h, sl ++ [s.from k], ctr)
          | _, _ => none
        | ["A", i, x] =>
          match i.toNat?, hexArg x with
          | some i, some xs => (sl[i]?).map fun s =>
              let (h', s') := goAppend h s xs
              (h', sl.set i s', ctr)
          | _, _ => none
        | ["C", i, x] =>
          match i.toNat?, hexArg x with
          | some i, some xs => (sl[i]?).map fun s =>
              let (h', s') := clippedAppend h s xs
              (h', sl.set i s', ctr)
          | _, _ => none
        | _ => none
      match r with
      | none => none
      | some (h', sl', ctr') => some (h', sl', ctr', outs ++ [",".intercalate (sl'.map fun s => hexOut (s.read h'))])
  match ops.foldl step (some ([], [], 1, [])) with
  | some (_, _, _, outs) => " | ".intercalate outs
  | none => "bad-op"

def concStep (_ : Unit) (line : String) : Unit × List String :=
  if line.startsWith "slice " then
    ((), [sliceRun ((line.drop 6).toString.splitOn ";")])
  else
    match line.splitOn " ## " with
    | _ :: cases =>
      let outs := cases.map fun c => match parseEngCase c with
        | some ec => engCaseRun ec
        | none => "bad-op"
      ((), [" @@ ".intercalate outs])
    | [] => ((), ["bad-op"])

end Vise.Driver
