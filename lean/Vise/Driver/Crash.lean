/-
  Driver suite `crash`: one traced save per line (written by the harness after it ran the real process)
    ops <letters> same=<0|1>      ->  ops=<letters> safe=<0|1> pts=<k>:<old|new|same|torn>/<cont|fresh>,...
    none                          ->  (echo of the implementation's non-result is not attempted) none
-/
import Vise.FsCrash
import Vise.Driver.Common

namespace Vise.Driver
open Vise Vise.FsCrash

def crashLine (letters : String) (same : Bool) : String :=
  let ls := letters.toList.map L.ofChar
  let r : Bytes := [0x72]
  let t : Bytes := [0x74]
  let old : Bytes := [0xff]
  let fs : Store := [(r, old), ([0x6f], [0x01])]
  let new := valueOfLetters 0 ls
  let ops := opsOfLetters r t 0 ls
  -- the reference "new" record is what the complete sequence leaves
  let final := AList.lookup r (crashAt ops ops.length fs)
  let dec : Bytes → Option Bytes := fun b => if some b = final || b = old then some b else none
  let pts := (List.range (ops.length + 1)).map fun k =>
    let fs' := crashAt ops k fs
    let recS := match AList.lookup r fs' with
      | some b => if same && (b = old || some b = final) then "same" else if b = old then "old"
                  else if some b = final && !new.isEmpty then "new" else if some b = final then "same" else "torn"
      | none => "torn"
    let nx := match startSession dec r fs' with
      | .continues _ => "cont"
      | _ => "fresh"
    s!"{k}:{recS}/{nx}"
  s!"ops={letters} safe={if safeLetters ls then 1 else 0} pts={",".intercalate pts}"

def crashStep (_ : Unit) (line : String) : Unit × List String :=
  let out := match words line with
    | ["ops", letters, same] => crashLine letters (same = "same=1")
    | ["ops", same] => crashLine "" (same = "same=1")
    | _ => "none"
  ((), [out])

end Vise.Driver
