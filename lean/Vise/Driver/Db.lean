/-
  Driver suite `db`: one operation sequence per line on one backend.
    <backend> <op>;<op>;...          backend = mem | fs | fsbin
  ops:  P:<pfx>            SetPrefix            S:<sid>         SetSession
        L:<lang|->         SetLanguage          K:<pfx>:<0|1>   SetLock
        G:<key>:<ctxlang|->        Get          W:<key>:<val>:<ctxlang|->   Put
        D:<keyprefix>:<ctxlang|->  Dump + Next until exhausted (fs backends)
  output per op, separated by " # ":  ok | ok:<hex> | err | notfound | ok:<k>=<v>,<k>=<v>...
-/
import Vise.Db
import Vise.Driver.Common

namespace Vise.Driver
open Vise

def b64chars : Bytes := ascii "ABCDEFGHIJKLMNOPQRSTUVWXYZabcdefghijklmnopqrstuvwxyz0123456789+/"

def b64enc : Bytes → Bytes
  | [] => []
  | [a] =>
    let n := a.toNat * 65536
    [b64chars.getD (n / 262144 % 64) 0, b64chars.getD (n / 4096 % 64) 0, 0x3d, 0x3d]
  | [a, b] =>
    let n := a.toNat * 65536 + b.toNat * 256
    [b64chars.getD (n / 262144 % 64) 0, b64chars.getD (n / 4096 % 64) 0, b64chars.getD (n / 64 % 64) 0, 0x3d]
  | a :: b :: c :: rest =>
    let n := a.toNat * 65536 + b.toNat * 256 + c.toNat
    [b64chars.getD (n / 262144 % 64) 0, b64chars.getD (n / 4096 % 64) 0, b64chars.getD (n / 64 % 64) 0,
     b64chars.getD (n % 64) 0] ++ b64enc rest

def b64val (c : UInt8) : Option Nat := indexOf c b64chars

/-- strict base64 (StdEncoding): groups of four, padding only at the end -/
partial def b64dec (s : Bytes) : Option Bytes :=
  match s with
  | [] => some []
  | [a, b, 0x3d, 0x3d] => do
    let x ← b64val a; let y ← b64val b
    if y % 16 ≠ 0 then none else pure [UInt8.ofNat ((x * 64 + y) / 16)]
  | [a, b, c, 0x3d] => do
    let x ← b64val a; let y ← b64val b; let z ← b64val c
    if z % 4 ≠ 0 then none else
    let n := (x * 4096 + y * 64 + z) / 4
    pure [UInt8.ofNat (n / 256), UInt8.ofNat (n % 256)]
  | a :: b :: c :: d :: rest => do
    let x ← b64val a; let y ← b64val b; let z ← b64val c; let w ← b64val d
    let n := x * 262144 + y * 4096 + z * 64 + w
    let r ← b64dec rest
    pure (UInt8.ofNat (n / 65536) :: UInt8.ofNat (n / 256 % 256) :: UInt8.ofNat (n % 256) :: r)
  | _ => none

structure DbSt where
  ctx : DbCtx := {}
  store : Store := []

def dbOp (backend : String) (st : DbSt) (op : String) : DbSt × String :=
  let enc : Option (Bytes → Bytes) := if backend = "fsbin" then some b64enc else none
  let dec : Option (Bytes → Option Bytes) := if backend = "fsbin" then some b64dec else none
  let resOut : Res Bytes → String := fun r => match r with
    | .ok v => "ok:" ++ hexOut v
    | .err "notfound" => "notfound"
    | .err _ => "err"
    | .panic _ => "panic"
  match op.splitOn ":" with
  | ["P", p] => match p.toNat? with
    | some p => ({ st with ctx := st.ctx.setPrefix p }, "ok")
    | none => (st, "bad-op")
  | ["S", s] => match hexArg s with
    | some s => ({ st with ctx := st.ctx.setSession s }, "ok")
    | none => (st, "bad-op")
  | ["L", l] => match optHex l with
    | some l => ({ st with ctx := st.ctx.setLanguage l }, "ok")
    | none => (st, "bad-op")
  | ["K", p, l] => match p.toNat? with
    | some p => match st.ctx.setLock p (l = "1") with
      | .ok c => ({ st with ctx := c }, "ok")
      | _ => (st, "err")
    | none => (st, "bad-op")
  | ["G", k, l] => match hexArg k, optHex l with
    | some k, some l =>
      if backend = "mem" || backend = "pg" then (st, resOut (Mem.get st.ctx l st.store k))
      else (st, resOut (Fs.get enc st.ctx l st.store k))
    | _, _ => (st, "bad-op")
  | ["W", k, v, l] => match hexArg k, hexArg v, optHex l with
    | some k, some v, some l =>
      let (store', r) := if backend = "mem" || backend = "pg" then Mem.put st.ctx l st.store k v else Fs.put enc st.ctx l st.store k v
      ({ st with store := store' }, match r with | .ok _ => "ok" | .err _ => "err" | .panic _ => "panic")
    | _, _, _ => (st, "bad-op")
  | ["D", k, l] => match hexArg k, optHex l with
    | some k, some l =>
      if backend = "mem" then (st, "unsupported") else
      if backend = "pg" then
        -- pgDb.Dump calls SetLanguage(nil) on the handle
        let st' := { st with ctx := st.ctx.setLanguage none }
        match Pg.dump st.ctx st.store k with
        | .ok kvs => (st', "ok:" ++ ",".intercalate (kvs.map fun p => s!"{hexOut p.1}={hexOut p.2}"))
        | .err "notfound" => (st', "notfound")
        | .err _ => (st', "err")
        | .panic _ => (st', "panic")
      else
      match Fs.dump enc dec st.ctx l st.store k with
      | .ok kvs => (st, "ok:" ++ ",".intercalate (kvs.map fun p => s!"{hexOut p.1}={hexOut p.2}"))
      | .err "notfound" => (st, "notfound")
      | .err _ => (st, "err")
      | .panic _ => (st, "panic")
    | _, _ => (st, "bad-op")
  | _ => (st, "bad-op")
where
  optHex (s : String) : Option (Option Bytes) := if s = "-" then some none else (hexArg s).map some

def dbStep (_ : Unit) (line : String) : Unit × List String :=
  match words line with
  | [backend, _dom, ops] =>
    -- the Postgres wrapper without faults is the memory map on the same storage keys (C13 models faults)
    let backend := backend
    let (_, outs) := (ops.splitOn ";").foldl (fun (acc : DbSt × List String) op =>
      let (st', r) := dbOp backend acc.1 op
      (st', r :: acc.2)) ({}, [])
    ((), [" # ".intercalate outs.reverse])
  | _ => ((), ["bad-op"])

end Vise.Driver
