/-
  Driver suite `engine`: one session history per line (key=value tokens, keys may repeat).

    mode=long|pers|lp|ws out=N cache=N flags=N root=hex lang=hex sep=hex roe=0|1
    node=<sym>:<code>            bytecode of a node
    tpl=<lang|->:<sym>:<text>    template (translation when lang given)
    label=<lang|->:<sym>:<text>  menu label; unlisted labels resolve to the symbol itself
    nolabel=<sym>                label lookup fails
    ext=<sym>:<callidx|*>:<lang|*>:<content>:<status>:<set,..|->:<reset,..|->:<fail 0|1>
    first=<callidx|*>:<content>:<status>:<set>:<reset>:<fail>     engine `first` function rules
    langof=<code>:<part3>        ISO table entries used by the case
    in=<hex>                     client inputs, in order

  One output line per case: per input one record, separated by " # ":
    x=<ok|err|panic> c=<0|1> f=<ok|err|panic|-> o=<hex> e=<0|1|2> p=<path> i=<idx> fl=<flags> cd=<code>
    fr=<frames> sz=<sizes> u=<use> lv=<last> cl=<calls> lk=<lookups> lg=<lang> mv=<moves>
  (`e`: 1 = the page carries an error prefix, 2 = a prefix whose text the model does not reproduce)
-/
import Vise.Engine
import Vise.Driver.Common
import Vise.Driver.Cache

namespace Vise.Driver
open Vise

structure ExtRule where
  sym : Bytes
  callIdx : Option Nat
  lang : Option (Option Bytes)      -- none = any
  res : ExtResult

structure EngCase where
  mode : String := "long"
  cfg : Cfg := {}
  nodes : List (Bytes × Bytes) := []
  tpls : List (Option Bytes × Bytes × Bytes) := []
  labels : List (Option Bytes × Bytes × Bytes) := []
  nolabel : List Bytes := []
  exts : List ExtRule := []
  firsts : List ExtRule := []
  langof : List (Bytes × Bytes) := []
  inputs : List Bytes := []

def natList (s : String) : Option (List Nat) :=
  if s = "-" || s = "" then some [] else (s.splitOn ",").mapM (·.toNat?)

def optLang (s : String) : Option (Option Bytes) :=
  if s = "-" then some none else (hexArg s).map some

def parseExtRest (f : List String) : Option ExtResult :=
  match f with
  | [content, status, set, reset, fl] => do
    pure { content := (← hexArg content), status := (← status.toInt?), flagSet := (← natList set),
           flagReset := (← natList reset), fail := fl = "1" }
  | _ => none

def engToken (c : EngCase) (tok : String) : Option EngCase :=
  match tok.splitOn "=" with
  | [k, v] =>
    match k with
    | "mode" => some { c with mode := v }
    | "out" => v.toNat?.map fun n => { c with cfg := { c.cfg with outputSize := n } }
    | "cache" => v.toNat?.map fun n => { c with cfg := { c.cfg with cacheSize := n } }
    | "flags" => v.toNat?.map fun n => { c with cfg := { c.cfg with flagCount := n } }
    | "root" => (hexArg v).map fun b => { c with cfg := { c.cfg with root := if b.isEmpty then ascii "root" else b } }
    | "lang" => (hexArg v).map fun b => { c with cfg := { c.cfg with language := b } }
    | "sep" => (hexArg v).map fun b => { c with cfg := { c.cfg with menuSep := b } }
    | "roe" => some { c with cfg := { c.cfg with resetOnEmpty := v = "1" } }
    | "wf" => some c
    | "res" => some c   -- which resource implementation the harness served the case with
    | "opt" => some c   -- how the harness served it (assembled nodes, persister/store options)
    | "node" => match v.splitOn ":" with
      | [s, code] => do pure { c with nodes := c.nodes ++ [((← hexArg s), (← hexArg code))] }
      | _ => none
    | "tpl" => match v.splitOn ":" with
      | [l, s, t] => do pure { c with tpls := c.tpls ++ [((← optLang l), (← hexArg s), (← hexArg t))] }
      | _ => none
    | "label" => match v.splitOn ":" with
      | [l, s, t] => do pure { c with labels := c.labels ++ [((← optLang l), (← hexArg s), (← hexArg t))] }
      | _ => none
    | "nolabel" => (hexArg v).map fun b => { c with nolabel := c.nolabel ++ [b] }
    | "ext" => match v.splitOn ":" with
      | s :: ci :: lg :: rest => do
        let r ← parseExtRest rest
        let ci ← if ci = "*" then some none else ci.toNat?.map some
        let lg ← if lg = "*" then some none else (optLang lg).map some
        pure { c with exts := c.exts ++ [{ sym := (← hexArg s), callIdx := ci, lang := lg, res := r }] }
      | _ => none
    | "first" => match v.splitOn ":" with
      | ci :: rest => do
        let r ← parseExtRest rest
        let ci ← if ci = "*" then some none else ci.toNat?.map some
        pure { c with firsts := c.firsts ++ [{ sym := [], callIdx := ci, lang := none, res := r }] }
      | _ => none
    | "langof" => match v.splitOn ":" with
      | [a, b] => do pure { c with langof := c.langof ++ [((← hexArg a), (← hexArg b))] }
      | _ => none
    | "in" => (hexArg v).map fun b => { c with inputs := c.inputs ++ [b] }
    | _ => none
  | _ => none

def parseEngCase (line : String) : Option EngCase :=
  (words line).foldlM engToken {}

/-- translation-then-default lookup in a (lang, sym, text) table -/
def tableLookup (t : List (Option Bytes × Bytes × Bytes)) (lang : Option Bytes) (sym : Bytes) : Option Bytes :=
  let tr := match lang with
    | some l => (t.find? fun (e : Option Bytes × Bytes × Bytes) => e.1 = some l && e.2.1 = sym).map
        (fun (e : Option Bytes × Bytes × Bytes) => e.2.2)
    | none => none
  match tr with
  | some x => some x
  | none => (t.find? fun (e : Option Bytes × Bytes × Bytes) => e.1 = none && e.2.1 = sym).map
      (fun (e : Option Bytes × Bytes × Bytes) => e.2.2)

def envOf (c : EngCase) : Env :=
  { code := fun _ sym => AList.lookup sym c.nodes,
    tpl := fun lang sym => tableLookup c.tpls lang sym,
    label := fun lang sym =>
      if c.nolabel.contains sym then none else
      match tableLookup c.labels lang sym with
      | some x => some x
      | none => some sym,
    ext := fun n sym _ lang =>
      (c.exts.find? fun r => r.sym = sym && (r.callIdx.isNone || r.callIdx = some n) &&
        (match r.lang with | none => true | some l => l = lang)).map (·.res),
    langOf := fun code => AList.lookup code c.langof,
    first := if c.firsts.isEmpty then none else
      some fun n _ _ =>
        match c.firsts.find? fun r => r.callIdx.isNone || r.callIdx = some n with
        | some r => r.res
        | none => {} }

def pathOut (p : List Bytes) : String :=
  if p.isEmpty then "-" else "/".intercalate (p.map hexOut)

def framesOut (ca : Cache Bytes) : String :=
  ";".intercalate (ca.frames.reverse.map fun f =>
    ",".intercalate (sortStrings (f.map fun p => s!"{hexOut p.1}={hexOut p.2}")))

def sizesOut (ca : Cache Bytes) : String :=
  ",".intercalate (sortStrings (ca.sizes.map fun p => s!"{hexOut p.1}={p.2}"))

def optOut (o : Option Bytes) : String := match o with | none => "~" | some b => hexOut b

def callsOut (g : Ghost) (from_ : Nat) : String :=
  let cs := g.calls.drop from_
  if cs.isEmpty then "-" else
  ",".intercalate (cs.map fun c => s!"{hexOut c.1}:{optOut c.2.1}:{optOut c.2.2}")

def lookupsOut (g : Ghost) (from_ : Nat) : String :=
  let ls := g.lookups.drop from_
  if ls.isEmpty then "-" else
  ",".intercalate (ls.map fun l => s!"{l.1}:{hexOut l.2.1}:{optOut l.2.2}")

def movesOut (g : Ghost) (from_ : Nat) : String :=
  let ms := g.moves.drop from_
  if ms.isEmpty then "-" else ",".intercalate (ms.map fun m => s!"{m.1}:{hexOut m.2}")

def vresTag {α} : VRes α → String
  | .ok _ => "ok"
  | .err "fuel" _ => "fuel"
  | .err _ _ => "err"
  | .panic _ => "panic"

structure ReqOut where
  /-- error kind of Exec / Flush on the model side (diagnostic only; never compared) -/
  xk : String := "-"
  x : String
  c : Bool
  f : String
  o : Bytes
  e : Nat

def stateOut (e : Eng) (callsFrom lookupsFrom movesFrom : Nat) : String :=
  let st := e.vm.st
  s!"p={pathOut st.execPath} i={st.sizeIdx} fl={hexOut st.flagBytes} cd={hexOut st.code} fr={framesOut e.vm.ca} sz={sizesOut e.vm.ca} u={e.vm.ca.useSize} lv={hexOut e.vm.ca.lastValue} cl={callsOut e.vm.ghost callsFrom} lk={lookupsOut e.vm.ghost lookupsFrom} lg={optOut st.language} mv={movesOut e.vm.ghost movesFrom}"

/-- one request on an engine, through the model's own `Vise.request` (the definition the theorems
are about); the error-prefix marker and the diagnostic kind are computed on the side. -/
def request (env : Env) (cfg : Cfg) (e : Eng) (input : Bytes) : ReqOut × Eng :=
  let (o, e2) := Vise.request env cfg e input
  let (rx, e1) := exec env cfg input e
  let hadErr := e1.vm.pg.err.isSome
  let opq := e1.vm.errOpaque
  let shown := o.f = "ok" && hadErr && o.out.length > 0
  let xk := match rx with
    | .err k _ => k
    | .panic p => "panic:" ++ p
    | .ok _ => match (flush env cfg e1).1 with
      | .err k _ => "flush:" ++ k
      | .panic p => "flushpanic:" ++ p
      | .ok _ => "-"
  ({ x := o.x, c := o.cont, f := o.f, o := o.out, e := if shown then (if opq then 2 else 1) else 0, xk := xk }, e2)

def reqOutStr (r : ReqOut) : String :=
  s!"x={r.x} c={if r.c then 1 else 0} f={r.f} o={hexOut r.o} e={r.e} xk={r.xk.replace " " "_"}"

def engCaseRun (c : EngCase) : String :=
  let env := envOf c
  let cfg := c.cfg
  if c.mode = "long" || c.mode = "lp" || c.mode = "ws" then
    -- a long-lived engine is given its state and cache explicitly (WithState / WithMemory); in mode lp it is given a
    -- persister over an empty store instead, and takes its state from there when it is first prepared
    -- mode ws: the client keeps state and cache and builds a new engine around them for every request
    let e0 : Eng := if c.mode = "long" || c.mode = "ws"
      then { vm := newVmSt cfg (St.new cfg.flagCount) (freshCache cfg) {}, explicitState := true }
      else restore env cfg none {}
    let (_, outs, _, _) := c.inputs.foldl (fun (acc : Eng × List String × Bool × Bool) input =>
      let (e, outs, stopped, stored) := acc
      if stopped then (e, outs ++ ["stopped"], true, stored) else
      -- mode lp: an engine that is not initialised yet prepares itself again and thereby reloads what its persister
      -- stored at the first preparation - the state of a new session: it is a new engine (same logs)
      -- (the reload is part of `prepare`, which a request refused for its format does not reach)
      let fmtOk := input.isEmpty || matchesInput input
      let e := if c.mode = "lp" && !e.initd && e.prepared && fmtOk then restore env cfg none e.vm.ghost else e
      let e : Eng := if c.mode = "ws" then { vm := newVmSt cfg e.vm.st e.vm.ca e.vm.ghost, explicitState := true } else e
      let nc := e.vm.ghost.calls.length
      let nl := e.vm.ghost.lookups.length
      let nm := e.vm.ghost.moves.length
      let (r, e') := request env cfg e input
      -- mode lp: until the engine has been prepared for the first time the persister holds no state
      let stored := stored || e'.prepared
      let shown := if c.mode = "lp" && !stored
        then s!"nostate cl={callsOut e'.vm.ghost nc} lk={lookupsOut e'.vm.ghost nl}"
        else stateOut e' nc nl nm
      (e', outs ++ [reqOutStr r ++ " " ++ shown], r.x = "panic" || r.f = "panic", stored)) (e0, [], false, false)
    " # ".intercalate outs
  else
    let (_, _, outs, _) := c.inputs.foldl (fun (acc : Option Snap × Ghost × List String × Bool) input =>
      let (snap, ghost, outs, stopped) := acc
      if stopped then (snap, ghost, outs ++ ["stopped"], true) else
      let e := restore env cfg snap { ghost with calls := [], lookups := [], moves := [] }
      let (r, e') := request env cfg e input
      -- `ensurePersist` stores a brand-new session as soon as the engine is prepared, i.e. for every
      -- request that gets past the format check
      let formatRefused := r.x = "err" && r.c
      let snap0 := match snap with
        | some s => some s
        | none => if formatRefused then none else some (snapshot (newEngine env cfg))
      let (snap', fin) := match finish e' with
        | .ok (some s) => (some s, "ok")
        | .ok none => (snap0, "ok")
        | _ => (snap0, "panic")
      -- what is observable after the request is what the store now holds
      let shown := match snap' with
        | some s => stateOut { e' with vm := { e'.vm with st := s.st, ca := s.ca } } 0 0 0
        | none => s!"nostate cl={callsOut e'.vm.ghost 0} lk={lookupsOut e'.vm.ghost 0}"
      (snap', e'.vm.ghost, outs ++ [reqOutStr r ++ s!" fin={fin} " ++ shown],
        r.x = "panic" || r.f = "panic" || fin = "panic")) (none, {}, [], false)
    " # ".intercalate outs

def engineStep (_ : Unit) (line : String) : Unit × List String :=
  match parseEngCase line with
  | some c => ((), [engCaseRun c])
  | none => ((), ["bad-op"])

end Vise.Driver
