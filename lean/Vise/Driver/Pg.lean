/-
  Driver suite `pg`: one operation sequence with a fault schedule per line.
    <fault,fault,...|-> <op>;<op>;...
  ops:  W:<key>:<val>   Put        G:<tr|->:<key>   Get (translation key, default key)
        B  Start        E  Stop    A  Abort         C  Close
  output per op, separated by " # ":  <res>|<log>|<committed>|<open 0/1>
-/
import Vise.PgTx
import Vise.Driver.Common
import Vise.Driver.Cache

namespace Vise.Driver
open Vise

def pgResOut : PgRes → String
  | .ok => "ok"
  | .val v => "val:" ++ hexOut v
  | .err "notfound" => "notfound"
  | .err _ => "err"
  | .panic _ => "panic"

def pgStateOut (p : Pg) : String :=
  let log := ",".intercalate (p.drv.log.map fun e => s!"{e.1}:{e.2}")
  let com := ",".intercalate (sortStrings (p.drv.committed.map fun kv => s!"{hexOut kv.1}={hexOut kv.2}"))
  s!"{log}|{com}|{if p.drv.cur.isSome then 1 else 0}"

def pgOpIn (s : String) : Option PgOp :=
  match s.splitOn ":" with
  -- the harness uses the TEMPLATE type: storage key = type byte 4 followed by the key
  | ["W", k, v] => do pure (.put (4 :: (← hexArg k)) (← hexArg v))
  | ["G", t, k] => do
    let tr ← if t = "-" then some none else (hexArg t).map (fun b => some (4 :: b))
    pure (.get tr (4 :: (← hexArg k)))
  | ["B"] => some .start
  | ["E"] => some .stop
  | ["A"] => some .abort
  | ["C"] => some .close
  | _ => none

def pgStep (_ : Unit) (line : String) : Unit × List String :=
  match words line with
  | [faults, ops] =>
    let fl : Option (List Nat) := if faults = "-" then some [] else (faults.splitOn ",").mapM (·.toNat?)
    match fl, (ops.splitOn ";").mapM pgOpIn with
    | some fl, some ops =>
      let init : Pg := { drv := { faults := fl } }
      let (_, outs) := ops.foldl (fun (acc : Pg × List String) op =>
        let (r, p') := acc.1.step op
        (p', s!"{pgResOut r}|{pgStateOut p'}" :: acc.2)) (init, [])
      ((), [" # ".intercalate outs.reverse])
    | _, _ => ((), ["bad-op"])
  | _ => ((), ["bad-op"])

end Vise.Driver
