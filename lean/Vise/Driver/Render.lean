/-
  Driver suite `render`: one page definition per line, rendered at each listed index on a fresh
  Page/Menu/Sizer (what the engine does per request).
    out=<n> tpl=<hex> err=<hex> menu=<selhex:titlehex,...> next=<sel:title|-> prev=<sel:title|->
    msink=<0|1> syms=<name:limit:value;...> maps=<name,...> labels=<title=text,...> nolabel=<title,...> idx=<i,j,...>
  output: <idx>:<ok:hex|err|browse|panic> separated by spaces
-/
import Vise.Render
import Vise.Driver.Common

namespace Vise.Driver
open Vise

def kv (s : String) : Option (String × String) :=
  match s.splitOn "=" with
  | [k, v] => some (k, v)
  | _ => none

def fieldOf (fs : List (String × String)) (k : String) : String :=
  match fs.find? (·.1 = k) with
  | some p => p.2
  | none => "-"

def listArg (s : String) (sep : String) : List String :=
  if s = "-" || s = "" then [] else s.splitOn sep

def pairArg (s : String) : Option (Bytes × Bytes) :=
  match s.splitOn ":" with
  | [a, b] => do pure ((← hexArg a), (← hexArg b))
  | _ => none

structure RenderCase where
  out : Nat
  tpl : Bytes
  err : Option Bytes
  menu : List (Bytes × Bytes)
  next : Option (Bytes × Bytes)
  prev : Option (Bytes × Bytes)
  msink : Bool
  syms : List (Bytes × Nat × Bytes)
  maps : List Bytes
  labels : List (Bytes × Bytes)
  nolabel : List Bytes
  idx : List Nat

def parseRenderCase (line : String) : Option RenderCase := do
  let fs ← (words line).mapM kv
  let out ← (fieldOf fs "out").toNat?
  let tpl ← hexArg (fieldOf fs "tpl")
  let errS := fieldOf fs "err"
  let err ← if errS = "-" then some none else (hexArg errS).map some
  let menu ← (listArg (fieldOf fs "menu") ",").mapM pairArg
  let nextS := fieldOf fs "next"
  let next ← if nextS = "-" then some none else (pairArg nextS).map some
  let prevS := fieldOf fs "prev"
  let prev ← if prevS = "-" then some none else (pairArg prevS).map some
  let syms ← (listArg (fieldOf fs "syms") ";").mapM fun s =>
    match s.splitOn ":" with
    | [n, l, v] => do pure ((← hexArg n), (← l.toNat?), (← hexArg v))
    | _ => none
  let maps ← (listArg (fieldOf fs "maps") ",").mapM hexArg
  let labels ← (listArg (fieldOf fs "labels") ",").mapM pairArg
  let nolabel ← (listArg (fieldOf fs "nolabel") ",").mapM hexArg
  let idx ← (listArg (fieldOf fs "idx") ",").mapM (·.toNat?)
  pure { out, tpl, err, menu, next, prev, msink := fieldOf fs "msink" = "1", syms, maps, labels, nolabel, idx }

def renderCaseRun (c : RenderCase) : String :=
  let env : RenderEnv := {
    tpl := fun _ => some c.tpl,
    label := fun t => if c.nolabel.contains t then none else
      match AList.lookup t c.labels with
      | some l => some l
      | none => some t }
  -- the cache: every symbol added at the top level
  let ca : Cache Bytes := c.syms.foldl (fun ca (n, l, v) => (ca.add n v l).1) (Cache.new 0)
  let outs := c.idx.map fun i =>
    let browse : BrowseCfg := {
      nextAvailable := c.next.isSome, nextSelector := (c.next.map (·.1)).getD [], nextTitle := (c.next.map (·.2)).getD [],
      prevAvailable := c.prev.isSome, prevSelector := (c.prev.map (·.1)).getD [], prevTitle := (c.prev.map (·.2)).getD [] }
    let menu : Menu := { (Menu.new) with browse := browse, hasRs := true }
    let menu := c.menu.foldl (fun m (s, t) => m.put s t) menu
    let menu := if c.msink then { menu with sink := true }.withPages else menu
    let pg : Page := { menu := menu, sizer := if c.out > 0 then some { outputSize := c.out } else none, err := c.err }
    let r : Res (Bytes × Page) := do
      let pg ← c.maps.foldlM (fun pg m => pg.map ca m) pg
      pg.renderPage env ca [0x78] i
    match r with
    | .ok (b, _) => s!"{i}:ok:{hexOut b}"
    | .err "browse" => s!"{i}:browse"
    | .err _ => s!"{i}:err"
    | .panic _ => s!"{i}:panic"
  " ".intercalate outs

def renderStep (_ : Unit) (line : String) : Unit × List String :=
  match parseRenderCase line with
  | some c => ((), [renderCaseRun c])
  | none => ((), ["bad-op"])

end Vise.Driver
