/-
  Vise.Engine — model of engine/db.go (DefaultEngine: Exec, Flush, Finish, reset, runFirst) and of
  persist/persist.go as `snapshot` / `restore` of the exported fields (CBOR bytes are not modelled).

  Two drivers over the same engine model:
    `longStep`  one long-lived engine serves every request
    `persStep`  a fresh engine per request: Load (or create), Exec, Flush, Finish (Save)
-/
import Vise.Vm

namespace Vise
open VM

structure Cfg where
  outputSize : Nat := 0
  cacheSize : Nat := 0
  flagCount : Nat := 0
  root : Bytes := [114, 111, 111, 116]          -- "root"
  language : Bytes := []
  menuSep : Bytes := []
  resetOnEmpty : Bool := false
  /-- model only: fuel for one `Vm.Run` (structural recursion). Theorems hold for every value; the
  driver uses 2000 and reports exhaustion as its own outcome. -/
  fuel : Nat := 2000
deriving Repr, DecidableEq

structure Eng where
  vm : VmSt
  initd : Bool := false
  execd : Bool := false
  exiting : Bool := false
  exit : Bytes := []
  /-- state and cache were invalidated by a failing `first` (Save then panics) -/
  invalid : Bool := false
  /-- `prepare` already ran once on this engine object -/
  prepared : Bool := false
  /-- the engine was given its state explicitly (`WithState`): `ensureState` takes its
  existing-state branch already on the first `prepare` -/
  explicitState : Bool := false

/-- what a persister stores: the exported fields of State and Cache -/
structure Snap where
  st : St
  ca : Cache Bytes

/-- engine computations: same shape as `VM`, over `Eng` -/
abbrev EM (α : Type) := Eng → VRes α × Eng

namespace EM
instance : Monad EM where
  pure a := fun e => (.ok a, e)
  bind x f := fun e =>
    match x e with
    | (.ok a, e') => f a e'
    | (.err k m, e') => (.err k m, e')
    | (.panic p, e') => (.panic p, e')

def fail {α} (kind : String) (msg : Bytes := []) : EM α := fun e => (.err kind msg, e)
def get : EM Eng := fun e => (.ok e, e)
def modify (f : Eng → Eng) : EM Unit := fun e => (.ok (), f e)
/-- run a VM computation on the engine's VM state -/
def vm {α} (x : VM α) : EM α := fun e =>
  let (r, s) := x e.vm
  (r, { e with vm := s })
def attempt {α} (x : EM α) : EM (VRes α) := fun e =>
  let (r, e') := x e
  (.ok r, e')
end EM

open EM


/-- a new engine's VM state around a given state and cache (`setupVm`, `NewVm`) -/
def newVmSt (cfg : Cfg) (st : St) (ca : Cache Bytes) (ghost : Ghost) : VmSt :=
  let sep := if cfg.menuSep.isEmpty then [0x3a] else cfg.menuSep
  { st := st, ca := ca, sep := sep, ghost := ghost,
    -- WithMenuSeparator also applies to the menu NewVm created (fix: commit e32b2bd)
    pg := { menu := { (Menu.new sep) with hasRs := true },
            sizer := if cfg.outputSize > 0 then some { outputSize := cfg.outputSize } else none } }

/-- `ensureState` on a fresh engine: new state, configured language, LANG flag -/
def freshState (env : Env) (cfg : Cfg) : St :=
  let st := St.new cfg.flagCount
  let st := st.setLanguageSt env.langOf cfg.language
  match st.language with
  | some _ => match st.setFlag Facts.langFlag with
    | .ok (_, st') => st'
    | _ => st
  | none => st

/-- `ensureState` on a loaded state: the configured language applies only if none is stored -/
def loadedState (env : Env) (cfg : Cfg) (st : St) : St :=
  if cfg.language.isEmpty then st
  else match st.language with
    | some _ => st
    | none =>
      let st := st.setLanguageSt env.langOf cfg.language
      match st.setFlag Facts.langFlag with
      | .ok (_, st') => st'
      | _ => st

def freshCache (cfg : Cfg) : Cache Bytes := Cache.new cfg.cacheSize

/-- a brand-new engine (no persister, or a persister with nothing stored) -/
def newEngine (env : Env) (cfg : Cfg) (ghost : Ghost := {}) : Eng :=
  { vm := newVmSt cfg (freshState env cfg) (freshCache cfg) ghost }

/-- `persist.Save` / `persist.Load` on the exported fields. `input` and `lastMove` are unexported
and not stored. -/
def snapshot (e : Eng) : Snap :=
  { st := { e.vm.st with input := none, lastMove := 0 }, ca := e.vm.ca }

/-- a fresh engine around a stored session (`ensurePersist`: Load, and Save+Load when nothing is
stored). NB: `ensureState` runs *before* the load, so the configured language is applied to the
fresh state and then overwritten by whatever was stored. -/
def restore (env : Env) (cfg : Cfg) (snap : Option Snap) (ghost : Ghost := {}) : Eng :=
  match snap with
  | none => newEngine env cfg ghost
  | some s => { vm := newVmSt cfg s.st s.ca ghost }

def langOfEng (e : Eng) : Option Bytes := e.vm.st.language

/-- `reset(ctx)`: unwind to (and past) the top, clear TERMINATE and DIRTY -/
def engReset : Nat → EM Unit
  | 0 => pure ()
  | fuel + 1 => do
    let e ← get
    match e.vm.st.top with
    | .err _ => fail "reset-top" (ascii "state root node not yet defined")
    | .panic p => fun e => (.panic p, e)
    | .ok isTop => do
      match e.vm.st.up with
      | .ok (_, st') =>
        let (ca', _) := e.vm.ca.pop
        modify fun e => { e with vm := { e.vm with st := st', ca := ca' } }
      | _ => fail "reset-up" (ascii "exit called beyond top frame")
      if isTop then do
        -- Restart() fails on the now empty path and its error is ignored
        let e ← get
        match e.vm.st.restart with
        | .ok st' => modify fun e => { e with vm := { e.vm with st := st' } }
        | _ => pure ()
        let _ ← vm (resetFlagM Facts.terminateFlag)
        let _ ← vm (resetFlagM Facts.dirtyFlag)
        pure ()
      else engReset fuel

/-- `Flush`: the bytes written to the client -/
def flush (env : Env) (cfg : Cfg) : EM Bytes := do
  let e ← get
  if !e.execd then fail "flush-no-exec" else do
  let lang := langOfEng e
  let r ← attempt (vm (vmRender env cfg.fuel lang))
  let e ← get
  let out ← match r with
    | .ok r => pure r
    | .panic p => fun e => (.panic p, e)
    | .err k m => if e.exit.length = 0 then fail k m else pure []
  let out := out ++ e.exit
  if e.exiting then do
    let _ ← attempt (engReset (e.vm.st.execPath.length + 2))
    modify fun e => { e with exiting := false }
  pure out

/-- `setCode` -/
def setCode (code : Bytes) : EM Bool := do
  modify fun e => { e with vm := { e.vm with st := e.vm.st.setCode code } }
  if code.length = 0 then do
    let d ← vm (matchFlagM Facts.dirtyFlag true)
    if d then
      modify fun e =>
        let (v, ca') := e.vm.ca.last
        { e with exiting := true, exit := v, vm := { e.vm with ca := ca' } }
    pure false
  else pure true

/-- the deferred calls of `runFirst`, in LIFO order: ResetFlag(DIRTY), ResetFlag(TERMINATE), st.Up(), ca.Pop(), and the
page index put back to what it was before the detour -/
def firstFinish (idx0 : Nat) : EM Unit := do
  let _ ← vm (resetFlagM Facts.dirtyFlag)
  let _ ← vm (resetFlagM Facts.terminateFlag)
  let e ← get
  match e.vm.st.up with
  | .ok (_, st') => modify fun e => { e with vm := { e.vm with st := st' } }
  | _ => pure ()
  modify fun e => { e with vm := { e.vm with ca := e.vm.ca.pop.1 } }
  modify fun e => { e with vm := { e.vm with st := { e.vm.st with sizeIdx := idx0 } } }

/-- `runFirst`: returns whether to go on with the VM -/
def runFirstBody (env : Env) (cfg : Cfg) (fn : Nat → Option Bytes → Option Bytes → ExtResult) : EM Bool := do
  let e ← get
  let idx0 := e.vm.st.sizeIdx     -- the page the session is on (restored at the end, fix: commit)
  -- ca.Push(); st.Down("_first")
  let firstSym : Bytes := [95, 102, 105, 114, 115, 116]   -- "_first"
  match e.vm.st.down firstSym with
  | .panic p => fun e => (.panic p, e)
  | .err k => fail k
  | .ok st' => do
    modify fun e => { e with vm := { e.vm with st := st', ca := e.vm.ca.push } }
    -- a private VM over the same state and cache, with a resource that only knows `_first`
    let env' : Env := { env with
      ext := fun n sym input lang => if sym = firstSym then some (fn n input lang) else none,
      code := fun _ _ => some [] }
    let e ← get
    let pvm : VmSt := { e.vm with pg := { menu := Menu.new }, sep := [0x3a] }
    let code := newLine Facts.opLOAD [firstSym] (some [0]) none ++ newLine Facts.opHALT [] none none
    let (r, pvm') := runLoop env' cfg.fuel (langOfEng e) code pvm
    modify fun e => { e with vm := { e.vm with st := pvm'.st, ca := pvm'.ca, ghost := pvm'.ghost } }
    let finish : EM Unit := firstFinish idx0
    match r with
    | .panic p => fun e => (.panic p, e)
    | .err k m => do
      finish
      fail k m
    | .ok b => do
      if b.length > 0 then do
        modify fun e => { e with invalid := true }
        finish
        fail "first-remaining-code"
      else do
        let t ← vm (matchFlagM Facts.terminateFlag true)
        if t then
          modify fun e =>
            let (v, ca') := e.vm.ca.last
            { e with execd := true, exit := v, vm := { e.vm with ca := ca' } }
        finish
        pure (!t)

def runFirst (env : Env) (cfg : Cfg) : EM Bool := do
  match env.first with
  | none => pure true
  | some fn => do
    -- a session that is already blocked: the pre-VM check does not run and there is nothing to output
    let t0 ← vm (matchFlagM Facts.terminateFlag true)
    if t0 then do
      modify fun e => { e with execd := true }
      pure false
    else runFirstBody env cfg fn

/-- `init(ctx, input)` (with `prepare`): returns cont -/
def engInit (env : Env) (cfg : Cfg) (input : Bytes) : EM Bool := do
  let e ← get
  if e.execd then
    let _ ← flush env cfg               -- `empty()`: an error here fails the request
  modify fun e => { e with execd := false, exit := [], exiting := false }
  let e ← get
  if e.initd then pure true else do
  -- `prepare` runs again on every Exec until the engine is initialised: `ensureState` (now on an
  -- existing state) and `setupVm` (a brand-new Vm, page, menu and sizer)
  if e.prepared || e.explicitState then
    modify fun e => { e with vm := newVmSt cfg (loadedState env cfg e.vm.st) e.vm.ca e.vm.ghost }
  modify fun e => { e with prepared := true }
  let e ← get
  if cfg.root.isEmpty then fail "start-sym-empty" else do
  let inSave := e.vm.st.input
  match e.vm.st.setInput (some input) with
  | .err k => fail k
  | .panic p => fun e => (.panic p, e)
  | .ok st' => do
    modify fun e => { e with vm := { e.vm with st := st' } }
    let r ← runFirst env cfg
    if !r then pure false else do
    let e ← get
    let cont ← if e.vm.st.code.length = 0 then
        setCode (newLine Facts.opMOVE [cfg.root] none none)
      else pure true
    let e ← get
    match e.vm.st.setInput inSave with
    | .ok st' =>
      modify fun e => { e with vm := { e.vm with st := st' }, initd := true }
      pure cont
    | .err k => fail k
    | .panic p => fun e => (.panic p, e)

/-- `Reset(ctx, true)` as called for `ResetOnEmptyInput` -/
def engResetForce (cfg : Cfg) : EM Unit := do
  let e ← get
  if e.vm.st.execPath.isEmpty then pure () else do
  if cfg.root.isEmpty then fail "start-sym-empty" else do
  modify fun e => { e with vm := { e.vm with st := e.vm.st.setCode (newLine Facts.opMOVE [cfg.root] none none) } }
  let e ← get
  engReset (e.vm.st.execPath.length + 2)

/-- `Exec(ctx, input)`: returns cont; the error outcome carries Go's (cont, err) as kind
`"invalid-input"` for the one case where cont is true together with an error. -/
def exec (env : Env) (cfg : Cfg) (input : Bytes) : EM Bool := do
  -- the format check comes first (fix: commit): nothing has run, nothing is touched
  if input.length > 0 && !matchesInput input then fail "invalid-input" else do
  let cont ← engInit env cfg input
  if !cont then pure false else do
  if cfg.resetOnEmpty && input.isEmpty then engResetForce cfg
  let e ← get
  match e.vm.st.setInput (some input) with
  | .err k => fail k
  | .panic p => fun e => (.panic p, e)
  | .ok st' => do
    modify fun e => { e with vm := { e.vm with st := st' } }
    -- exec()
    let e ← get
    let (code, st'') := e.vm.st.getCode
    modify fun e => { e with vm := { e.vm with st := st'' } }
    if code.length = 0 then fail "no-code" else do
    let code' ← vm (runLoop env cfg.fuel (langOfEng e) code)
    modify fun e => { e with execd := true }
    let t ← vm (matchFlagM Facts.terminateFlag true)
    if t then pure false else setCode code'

/-- `Finish`: the stored snapshot, `none` when nothing is saved (engine never initialised) -/
def finish (e : Eng) : Res (Option Snap) :=
  if !e.initd then .ok none
  else if e.invalid then .panic "persister has been invalidated"
  else .ok (some (snapshot e))

/-! ### what a client observes, and the two ways of serving a session -/

/-- outcome tag of a Go call: value, returned error, panic (model fuel exhaustion kept apart) -/
def vtag {α} : VRes α → String
  | .ok _ => "ok"
  | .err "fuel" _ => "fuel"
  | .err _ _ => "err"
  | .panic _ => "panic"

/-- what the client of one request observes: result of Exec (tag and continue flag), result of
Flush (tag, "-" when Flush is not called because Exec failed) and the bytes delivered. -/
structure Obs where
  x : String
  cont : Bool
  f : String
  out : Bytes
deriving Repr, DecidableEq

/-- one client request on an engine: Exec, then Flush unless Exec failed. For the one refusal
that Go reports with `cont = true` (input format) the continue flag is true. -/
def request (env : Env) (cfg : Cfg) (e : Eng) (input : Bytes) : Obs × Eng :=
  match exec env cfg input e with
  | (.ok cont, e1) =>
    match flush env cfg e1 with
    | (.ok out, e2) => ({ x := "ok", cont := cont, f := "ok", out := out }, e2)
    | (r, e2) => ({ x := "ok", cont := cont, f := vtag r, out := [] }, e2)
  | (.err "invalid-input" _, e1) => ({ x := "err", cont := true, f := "-", out := [] }, e1)
  | (r, e1) => ({ x := vtag r, cont := false, f := "-", out := [] }, e1)

/-- a long-lived engine serving a whole history -/
def longRun (env : Env) (cfg : Cfg) (e : Eng) : List Bytes → List Obs × Eng
  | [] => ([], e)
  | i :: is =>
    let (o, e') := request env cfg e i
    let (os, e'') := longRun env cfg e' is
    (o :: os, e'')

/-- one request served by a fresh engine over the stored session: Load (or create), Exec, Flush,
Finish. Returns the observation and what the store holds afterwards. A brand-new session is stored
as soon as the engine is prepared, i.e. for every request that gets past the format check. -/
def persStep (env : Env) (cfg : Cfg) (snap : Option Snap) (input : Bytes) (ghost : Ghost := {}) :
    Obs × Option Snap × Eng :=
  let e := restore env cfg snap ghost
  let (o, e') := request env cfg e input
  let formatRefused := o.x = "err" && o.cont
  let snap0 := match snap with
    | some s => some s
    | none => if formatRefused then none else some (snapshot (newEngine env cfg))
  match finish e' with
  | .ok (some s) => (o, some s, e')
  | _ => (o, snap0, e')

def persRun (env : Env) (cfg : Cfg) (snap : Option Snap) : List Bytes → List Obs × Option Snap
  | [] => ([], snap)
  | i :: is =>
    let (o, snap', _) := persStep env cfg snap i
    let (os, snap'') := persRun env cfg snap' is
    (o :: os, snap'')

end Vise
