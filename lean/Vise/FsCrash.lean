/-
  Vise.FsCrash — file operations of a save on the filesystem store, with a crash after any prefix.

  The store directory is a map from file names to contents. A save is a list of operations; a crash
  at point `k` means exactly the first `k` operations took effect (operations are system calls: each
  either happened or did not; a short write is a write of a shorter chunk followed by the crash).
  Two save procedures: the one `fsDb.Put` uses since the `fix:` commit (create a temporary file
  exclusively, write, sync, close, rename over the record) and the previous one (open the record with
  O_TRUNC, write, close). The operation letters are the ones the harness abstracts from the traced
  system calls of the real process.

  The record is decoded by a parameter `dec` (CBOR is not modelled); `ensurePersist`'s reaction to a
  record that does not load — save a fresh state over it and carry on — is `startSession`.
-/
import Vise.Db

namespace Vise.FsCrash

inductive FsOp where
  | createExcl (p : Bytes)
  | openTrunc (p : Bytes)
  | append (p : Bytes) (b : Bytes)
  | rename (a b : Bytes)
  | unlink (p : Bytes)
  | nop
deriving Repr, DecidableEq

def applyOp (fs : Store) : FsOp → Store
  | .createExcl p => match AList.lookup p fs with
    | none => AList.set p [] fs
    | some _ => fs
  | .openTrunc p => AList.set p [] fs
  | .append p b => match AList.lookup p fs with
    | some c => AList.set p (c ++ b) fs
    | none => fs
  | .rename a b => match AList.lookup a fs with
    | some c => AList.set b c (AList.erase a fs)
    | none => fs
  | .unlink p => AList.erase p fs
  | .nop => fs

/-- the directory after a crash at point `k` -/
def crashAt (ops : List FsOp) (k : Nat) (fs : Store) : Store := (ops.take k).foldl applyOp fs

/-- the save `fsDb.Put` performs: temporary file, chunks, fsync, close, rename -/
def atomicPut (tmp rec : Bytes) (chunks : List Bytes) : List FsOp :=
  [.createExcl tmp] ++ chunks.map (.append tmp) ++ [.nop, .nop, .rename tmp rec]

/-- the save it performed before: truncate in place, chunks, close -/
def truncPut (rec : Bytes) (chunks : List Bytes) : List FsOp :=
  [.openTrunc rec] ++ chunks.map (.append rec) ++ [.nop]

/-! ### what a fresh process makes of the record -/

inductive Start (σ : Type) where
  | continues (s : σ)
  /-- no record: a new session (legitimate) -/
  | fresh
  /-- a record exists but does not load: `ensurePersist` overwrites it with a fresh state -/
  | silentRestart
deriving Repr, DecidableEq

def startSession {σ} (dec : Bytes → Option σ) (rec : Bytes) (fs : Store) : Start σ :=
  match AList.lookup rec fs with
  | none => .fresh
  | some b => match dec b with
    | some s => .continues s
    | none => .silentRestart

/-! ### interpretation of a traced operation string -/

/-- the letters the harness abstracts the traced system calls of a save to -/
inductive L where
  | T  -- exclusive create of the temporary file
  | w  -- write to the temporary file
  | O  -- open of the record with O_TRUNC / for writing
  | W  -- write to the record
  | N  -- rename temporary -> record
  | U  -- unlink of the temporary file
  | X  -- a write-open, write or rename on another file of the store
  | other  -- read-only open, fsync, close, calls that do not touch the store
deriving Repr, DecidableEq

def L.ofChar (c : Char) : L :=
  if c = 'T' then .T else if c = 'w' then .w else if c = 'O' then .O else if c = 'W' then .W
  else if c = 'N' then .N else if c = 'U' then .U else if c = 'X' then .X else .other

/-- the letters as operations on the record `r` and the temporary file `t`; the i-th write carries the
chunk `[i]` -/
def opsOfLetters (r t : Bytes) : Nat → List L → List FsOp
  | _, [] => []
  | i, .T :: rest => .createExcl t :: opsOfLetters r t i rest
  | i, .w :: rest => .append t [UInt8.ofNat i] :: opsOfLetters r t (i + 1) rest
  | i, .O :: rest => .openTrunc r :: opsOfLetters r t i rest
  | i, .W :: rest => .append r [UInt8.ofNat i] :: opsOfLetters r t (i + 1) rest
  | i, .N :: rest => .rename t r :: opsOfLetters r t i rest
  | i, .U :: rest => .unlink t :: opsOfLetters r t i rest
  | i, .X :: rest => .nop :: opsOfLetters r t i rest
  | i, .other :: rest => .nop :: opsOfLetters r t i rest

/-- the value a complete save writes: all chunks in order -/
def valueOfLetters : Nat → List L → Bytes
  | _, [] => []
  | i, .w :: rest => UInt8.ofNat i :: valueOfLetters (i + 1) rest
  | i, .W :: rest => UInt8.ofNat i :: valueOfLetters (i + 1) rest
  | i, _ :: rest => valueOfLetters i rest

inductive Phase where
  | before | writing | done
deriving Repr, DecidableEq

/-- the crash-safe save patterns: nothing but reads, then an exclusive temporary file, writes to it (with
syncs/closes in between), one rename over the record, then nothing but reads -/
def safeFrom : Phase → List L → Bool
  | _, [] => true
  | .before, .T :: rest => safeFrom .writing rest
  | .before, .other :: rest => safeFrom .before rest
  | .before, _ :: _ => false
  | .writing, .w :: rest => safeFrom .writing rest
  | .writing, .N :: rest => safeFrom .done rest
  | .writing, .other :: rest => safeFrom .writing rest
  | .writing, _ :: _ => false
  | .done, .other :: rest => safeFrom .done rest
  | .done, _ :: _ => false

def safeLetters (s : List L) : Bool := safeFrom .before s

end Vise.FsCrash
