/-
  The documented line forms as rows (tokens, expected capture, expected converted argument), and what
  `parseOne` / `MenuAdd` / `ToLines` emit for them.
-/
import Vise.Lemmas.AsmRows

namespace Vise.Asm
open Vise.AsmSpec

def selRaw (s : Bytes) : Sel → RawArg
  | .star => { sym := some s, selector := some [0x2a] }
  | .word v => { sym := some s, selector := some v }
  | .num n => { sym := some s, size := some (fmtUint n) }

def selAst (s : Bytes) : Sel → Arg
  | .star => { sym := some s, selector := some [0x2a] }
  | .word v => { sym := some s, selector := some v }
  | .num n => { sym := some s, size := some n }

def modeDigits (m : Bool) : Bytes := if m then [0x31] else [0x30]
def modeNat (m : Bool) : Nat := if m then 1 else 0

def _root_.Vise.AsmSpec.SLine.raw : SLine → RawArg
  | .catch node sig mode => { sym := some node, size := some (fmtUint sig), flag := some (modeDigits mode) }
  | .croak sig mode => { size := some (fmtUint sig), flag := some (modeDigits mode) }
  | .halt => {}
  | .msink => {}
  | .incmp node sel => selRaw node sel
  | .load sym size => { sym := some sym, size := some (fmtUint size) }
  | .map sym => { sym := some sym }
  | .move node => { sym := some node }
  | .reload sym => { sym := some sym }
  | .mout label sel => selRaw label sel
  | .mnext label sel => selRaw label sel
  | .mprev label sel => selRaw label sel

def _root_.Vise.AsmSpec.SLine.ast : SLine → Arg
  | .catch node sig mode => { sym := some node, size := some sig, flag := some (modeNat mode) }
  | .croak sig mode => { size := some sig, flag := some (modeNat mode) }
  | .halt => {}
  | .msink => {}
  | .incmp node sel => selAst node sel
  | .load sym size => { sym := some sym, size := some size }
  | .map sym => { sym := some sym }
  | .move node => { sym := some node }
  | .reload sym => { sym := some sym }
  | .mout label sel => selAst label sel
  | .mnext label sel => selAst label sel
  | .mprev label sel => selAst label sel

def downRaw (sym label : Bytes) : Sel → RawArg
  | .star => { sym := some sym, selector := some [0x2a], desc := some label }
  | .word v => { sym := some sym, selector := some v, desc := some label }
  | .num n => { sym := some sym, size := some (fmtUint n), selector := some label }

def downAst (sym label : Bytes) : Sel → Arg
  | .star => { sym := some sym, selector := some [0x2a], desc := some label }
  | .word v => { sym := some sym, selector := some v, desc := some label }
  | .num n => { sym := some sym, size := some n, selector := some label }

def upRaw (label : Bytes) : Sel → RawArg
  | .star => { sym := some [0x2a], selector := some label }
  | .word v => { sym := some v, selector := some label }
  | .num n => { size := some (fmtUint n), selector := some label }

def upAst (label : Bytes) : Sel → Arg
  | .star => { sym := some [0x2a], selector := some label }
  | .word v => { sym := some v, selector := some label }
  | .num n => { size := some n, selector := some label }

def _root_.Vise.AsmSpec.BLine.raw : BLine → RawArg
  | .down sym sel label => downRaw sym label sel
  | .up sel label => upRaw label sel
  | .next sel label => upRaw label sel
  | .previous sel label => upRaw label sel

def _root_.Vise.AsmSpec.BLine.ast : BLine → Arg
  | .down sym sel label => downAst sym label sel
  | .up sel label => upAst label sel
  | .next sel label => upAst label sel
  | .previous sel label => upAst label sel

def _root_.Vise.AsmSpec.SLine.row (x : SLine) (l : Layout) : Row := { w := x.words, l := l, raw := x.raw, ast := x.ast }
def _root_.Vise.AsmSpec.BLine.row (x : BLine) (l : Layout) : Row := { w := x.words, l := l, raw := x.raw, ast := x.ast }

/-! ### parsing -/

theorem sline_parse (x : SLine) (l : Layout) (rest : List Tok) :
    parseInstr (lineToks x.words l ++ rest) = .line x.words.1 x.raw rest := by
  cases x with
  | «catch» node sig mode => exact parseInstr_snn _ _ _ _ l rest
  | croak sig mode => exact parseInstr_nn _ _ _ l rest
  | halt => exact parseInstr_0 _ l rest
  | msink => exact parseInstr_0 _ l rest
  | incmp node sel =>
    cases sel with
    | star => exact parseInstr_ss _ _ _ l rest
    | word v => exact parseInstr_ss _ _ _ l rest
    | num n => exact parseInstr_sn _ _ _ l rest
  | load sym size => exact parseInstr_sn _ _ _ l rest
  | map sym => exact parseInstr_s _ _ l rest
  | move node => exact parseInstr_s _ _ l rest
  | reload sym => exact parseInstr_s _ _ l rest
  | mout label sel =>
    cases sel with
    | star => exact parseInstr_ss _ _ _ l rest
    | word v => exact parseInstr_ss _ _ _ l rest
    | num n => exact parseInstr_sn _ _ _ l rest
  | mnext label sel =>
    cases sel with
    | star => exact parseInstr_ss _ _ _ l rest
    | word v => exact parseInstr_ss _ _ _ l rest
    | num n => exact parseInstr_sn _ _ _ l rest
  | mprev label sel =>
    cases sel with
    | star => exact parseInstr_ss _ _ _ l rest
    | word v => exact parseInstr_ss _ _ _ l rest
    | num n => exact parseInstr_sn _ _ _ l rest

theorem bline_parse (x : BLine) (l : Layout) (rest : List Tok) :
    parseInstr (lineToks x.words l ++ rest) = .line x.words.1 x.raw rest := by
  cases x with
  | down sym sel label =>
    cases sel with
    | star => exact parseInstr_sss _ _ _ _ l rest
    | word v => exact parseInstr_sss _ _ _ _ l rest
    | num n => exact parseInstr_sns _ _ _ _ l rest
  | up sel label =>
    cases sel with
    | star => exact parseInstr_ss _ _ _ l rest
    | word v => exact parseInstr_ss _ _ _ l rest
    | num n => exact parseInstr_ns _ _ _ l rest
  | next sel label =>
    cases sel with
    | star => exact parseInstr_ss _ _ _ l rest
    | word v => exact parseInstr_ss _ _ _ l rest
    | num n => exact parseInstr_ns _ _ _ l rest
  | previous sel label =>
    cases sel with
    | star => exact parseInstr_ss _ _ _ l rest
    | word v => exact parseInstr_ss _ _ _ l rest
    | num n => exact parseInstr_ns _ _ _ l rest

/-! ### conversion -/

theorem conv_size (n : Nat) (h : n < 4294967296) : convOpt 32 (some (fmtUint n)) = some (some n) := by
  simp [convOpt, parseUint0_fmtUint 32 n (by simpa using h)]

theorem conv_mode (m : Bool) : convOpt 8 (some (modeDigits m)) = some (some (modeNat m)) := by
  cases m <;> decide

theorem conv_none (bits : Nat) : convOpt bits none = some none := rfl

theorem selRaw_conv (s : Bytes) (sel : Sel) (h : SafeSel sel) : (selRaw s sel).conv = some (selAst s sel) := by
  cases sel with
  | star => rfl
  | word v => rfl
  | num n => simp [selRaw, selAst, RawArg.conv, conv_size n h, conv_none]

theorem sline_conv (x : SLine) (h : SafeLine x) : x.raw.conv = some x.ast := by
  cases x with
  | «catch» node sig mode => simp [SLine.raw, SLine.ast, RawArg.conv, conv_size sig h.2, conv_mode]
  | croak sig mode => simp [SLine.raw, SLine.ast, RawArg.conv, conv_size sig h, conv_mode]
  | halt => rfl
  | msink => rfl
  | incmp node sel => exact selRaw_conv _ _ h.2.2
  | load sym size => simp [SLine.raw, SLine.ast, RawArg.conv, conv_size size h.2, conv_none]
  | map sym => rfl
  | move node => rfl
  | reload sym => rfl
  | mout label sel => exact selRaw_conv _ _ h.2
  | mnext label sel => exact selRaw_conv _ _ h.2.2
  | mprev label sel => exact selRaw_conv _ _ h.2.2

theorem upRaw_conv (label : Bytes) (sel : Sel) (h : SafeSel sel) : (upRaw label sel).conv = some (upAst label sel) := by
  cases sel with
  | star => rfl
  | word v => rfl
  | num n => simp [upRaw, upAst, RawArg.conv, conv_size n h, conv_none]

theorem bline_conv (x : BLine) (h : SafeBLine x) : x.raw.conv = some x.ast := by
  cases x with
  | down sym sel label =>
    cases sel with
    | star => rfl
    | word v => rfl
    | num n => simp [BLine.raw, BLine.ast, downRaw, downAst, RawArg.conv, conv_size n h.2.1, conv_none]
  | up sel label => exact upRaw_conv _ _ h.1
  | next sel label => exact upRaw_conv _ _ h.1
  | previous sel label => exact upRaw_conv _ _ h.1

/-! ### argument tokens are lexable -/

theorem argTok_sym {s : Bytes} (h : SafeName s) : ArgTok (.sym s) := Or.inl ⟨s, rfl, h⟩

theorem argTok_num (n : Nat) : ArgTok (.size (fmtUint n)) := by
  rw [fmtUint_eq]
  have hd := D_digits n
  cases hD : D n with
  | nil => exact absurd hD (D_ne_nil n)
  | cons c r =>
    rw [hD] at hd
    exact Or.inr ⟨c, r, rfl, hd c (by simp), fun x hx => hd x (by simp [hx])⟩

theorem argTok_mode (m : Bool) : ArgTok (modeTok m) := by
  cases m
  · exact Or.inr ⟨0x30, [], rfl, by decide, by simp⟩
  · exact Or.inr ⟨0x31, [], rfl, by decide, by simp⟩

theorem safeName_star : SafeName [0x2a] := ⟨0x2a, [], rfl, by decide, by decide, by simp, by simp⟩

theorem argTok_sel {sel : Sel} (h : SafeSel sel) : ArgTok sel.tok := by
  cases sel with
  | star => exact argTok_sym safeName_star
  | word v => exact argTok_sym h
  | num n => exact argTok_num n

theorem wfKw_of (kw : Bytes) (h : (match kw with | [] => false | c :: r => isUpper c && r.all isUpper) = true) :
    WfKw kw := by
  cases kw with
  | nil => simp at h
  | cons c r =>
    simp only [Bool.and_eq_true, List.all_eq_true] at h
    exact ⟨c, r, rfl, h.1, h.2⟩

theorem sline_good (x : SLine) (l : Layout) (h : SafeLine x) (hl : SafeLayout l) : GoodRow (x.row l) := by
  refine ⟨?_, ?_, hl, fun rest => sline_parse x l rest, sline_conv x h⟩
  · cases x <;> exact wfKw_of _ (by simp only [SLine.row, SLine.words]; decide)
  · intro a ha
    cases x with
    | «catch» node sig mode =>
      simp [SLine.row, SLine.words] at ha
      rcases ha with rfl | rfl | rfl
      · exact argTok_sym h.1
      · exact argTok_num _
      · exact argTok_mode _
    | croak sig mode =>
      simp [SLine.row, SLine.words] at ha
      rcases ha with rfl | rfl
      · exact argTok_num _
      · exact argTok_mode _
    | halt => simp [SLine.row, SLine.words] at ha
    | msink => simp [SLine.row, SLine.words] at ha
    | incmp node sel =>
      simp [SLine.row, SLine.words] at ha
      rcases ha with rfl | rfl
      · exact argTok_sym h.1
      · exact argTok_sel h.2.2
    | load sym size =>
      simp [SLine.row, SLine.words] at ha
      rcases ha with rfl | rfl
      · exact argTok_sym h.1
      · exact argTok_num _
    | map sym => simp [SLine.row, SLine.words] at ha; subst ha; exact argTok_sym h
    | move node => simp [SLine.row, SLine.words] at ha; subst ha; exact argTok_sym h
    | reload sym => simp [SLine.row, SLine.words] at ha; subst ha; exact argTok_sym h
    | mout label sel =>
      simp [SLine.row, SLine.words] at ha
      rcases ha with rfl | rfl
      · exact argTok_sym h.1
      · exact argTok_sel h.2
    | mnext label sel =>
      simp [SLine.row, SLine.words] at ha
      rcases ha with rfl | rfl
      · exact argTok_sym h.1
      · exact argTok_sel h.2.2
    | mprev label sel =>
      simp [SLine.row, SLine.words] at ha
      rcases ha with rfl | rfl
      · exact argTok_sym h.1
      · exact argTok_sel h.2.2

theorem bline_good (x : BLine) (l : Layout) (h : SafeBLine x) (hl : SafeLayout l) : GoodRow (x.row l) := by
  refine ⟨?_, ?_, hl, fun rest => bline_parse x l rest, bline_conv x h⟩
  · cases x <;> exact wfKw_of _ (by simp only [BLine.row, BLine.words]; decide)
  · intro a ha
    cases x with
    | down sym sel label =>
      simp [BLine.row, BLine.words] at ha
      rcases ha with rfl | rfl | rfl
      · exact argTok_sym h.1
      · exact argTok_sel h.2.1
      · exact argTok_sym h.2.2
    | up sel label =>
      simp [BLine.row, BLine.words] at ha
      rcases ha with rfl | rfl
      · exact argTok_sel h.1
      · exact argTok_sym h.2
    | next sel label =>
      simp [BLine.row, BLine.words] at ha
      rcases ha with rfl | rfl
      · exact argTok_sel h.1
      · exact argTok_sym h.2
    | previous sel label =>
      simp [BLine.row, BLine.words] at ha
      rcases ha with rfl | rfl
      · exact argTok_sel h.1
      · exact argTok_sym h.2

end Vise.Asm
