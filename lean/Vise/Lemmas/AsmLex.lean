/-
  Lexer lemmas for Vise.Asm: a token list whose tokens are well formed (one start character of the rule,
  then continuation characters) and separated (the next token does not begin with a character the
  previous rule's repetition would take) is lexed back from its text.
-/
import Vise.AsmSpec

namespace Vise.Asm

theorem Tok.mk_kind_text (t : Tok) : t.kind.mk t.text = t := by cases t <;> rfl

theorem lexGo_run (k : Kind) (run acc rest : Bytes) (h : ∀ x ∈ run, k.continues x = true) :
    lexGo (some (k, acc)) (run ++ rest) = lexGo (some (k, acc ++ run)) rest := by
  induction run generalizing acc with
  | nil => simp
  | cons x xs ih =>
    have hx := h x (by simp)
    simp only [List.cons_append, lexGo, hx, if_true]
    rw [ih (acc ++ [x]) (fun y hy => h y (by simp [hy]))]
    simp [List.append_assoc]

/-- a token the lexer can produce -/
def WfTok (t : Tok) : Prop :=
  ∃ c r, t.text = c :: r ∧ startKind c = some t.kind ∧ ∀ x ∈ r, t.kind.continues x = true

/-- the token does not begin with a character that a preceding token of kind `k` would absorb -/
def SepFrom (k : Kind) (t : Tok) : Prop := ∀ c r, t.text = c :: r → k.continues c = false

/-- a token list that may follow a token of kind `k` -/
inductive Lexable : Kind → List Tok → Prop
  | nil {k} : Lexable k []
  | cons {k t ts} : WfTok t → SepFrom k t → Lexable t.kind ts → Lexable k (t :: ts)

theorem lexGo_toks (k : Kind) (acc : Bytes) (ts : List Tok) (h : Lexable k ts) :
    lexGo (some (k, acc)) (text ts) = some (k.mk acc :: ts) := by
  induction h generalizing acc with
  | nil => simp [text, lexGo]
  | @cons k t ts hw hs _ ih =>
    obtain ⟨c, r, ht, hst, hr⟩ := hw
    have hc := hs c r ht
    have e : text (t :: ts) = c :: (r ++ text ts) := by simp [text, ht]
    rw [e]
    simp only [lexGo, hc, Bool.false_eq_true, if_false, hst]
    rw [lexGo_run t.kind r [c] (text ts) hr, ih]
    have : t.kind.mk (c :: r) = t := by
      have := Tok.mk_kind_text t; rw [ht] at this; exact this
    simp [this]

/-- the lexer returns exactly the tokens the text was written from -/
theorem lex_text (t : Tok) (ts : List Tok) (hw : WfTok t) (h : Lexable t.kind ts) :
    lex (text (t :: ts)) = some (t :: ts) := by
  obtain ⟨c, r, ht, hst, hr⟩ := hw
  have e : text (t :: ts) = c :: (r ++ text ts) := by simp [text, ht]
  rw [e]
  simp only [lex, lexGo, hst]
  rw [lexGo_run t.kind r [c] (text ts) hr, lexGo_toks _ _ _ h]
  have : t.kind.mk (c :: r) = t := by
    have := Tok.mk_kind_text t; rw [ht] at this; exact this
  simp [this]

/-! ### character class facts -/

macro "cc" : tactic => `(tactic| (
  simp only [startKind, Kind.continues, isUpper, isLower, isDigit, isSymFirst, isSymRest, isWsCh, isEolCh, isQuoteCh,
    Bool.and_eq_true, Bool.or_eq_true, decide_eq_true_eq, beq_iff_eq, Bool.or_eq_false_iff,
    Bool.and_eq_false_iff, decide_eq_false_iff_not, bne_iff_ne, ne_eq, Bool.not_eq_true,
    beq_eq_false_iff_ne] at *
  <;> omega))

theorem ws_not_upper {x : UInt8} (h : isWsCh x = true) : isUpper x = false := by cc
theorem ws_not_symRest {x : UInt8} (h : isWsCh x = true) : isSymRest x = false := by cc
theorem ws_not_digit {x : UInt8} (h : isWsCh x = true) : isDigit x = false := by cc
theorem eol_not_upper {x : UInt8} (h : isEolCh x = true) : isUpper x = false := by cc
theorem eol_not_symRest {x : UInt8} (h : isEolCh x = true) : isSymRest x = false := by cc
theorem eol_not_digit {x : UInt8} (h : isEolCh x = true) : isDigit x = false := by cc
theorem eol_not_ws {x : UInt8} (h : isEolCh x = true) : isWsCh x = false := by cc
theorem upper_not_eol {x : UInt8} (h : isUpper x = true) : isEolCh x = false := by cc
theorem digit_not_ws {x : UInt8} (h : isDigit x = true) : isWsCh x = false := by cc
theorem symFirst_not_ws {x : UInt8} (h : isSymFirst x = true) : isWsCh x = false := by cc

theorem startKind_ws {x : UInt8} (h : isWsCh x = true) : startKind x = some .ws := by
  have h1 : x.toNat = 0x20 ∨ x.toNat = 0x09 := by cc
  rcases h1 with h1 | h1 <;> simp [startKind, isUpper, isDigit, isSymFirst, isLower, isWsCh, h1]
theorem startKind_eol {x : UInt8} (h : isEolCh x = true) : startKind x = some .eol := by
  have h1 : x.toNat = 0x0a ∨ x.toNat = 0x0d := by cc
  rcases h1 with h1 | h1 <;> simp [startKind, isUpper, isDigit, isSymFirst, isLower, isWsCh, isEolCh, h1]
theorem startKind_upper {x : UInt8} (h : isUpper x = true) : startKind x = some .ident := by
  have h1 : x.toNat ≠ 0x23 := by cc
  simp [startKind, h, h1]
theorem startKind_digit {x : UInt8} (h : isDigit x = true) : startKind x = some .size := by
  have h1 : x.toNat ≠ 0x23 := by cc
  have h2 : isUpper x = false := by cc
  simp [startKind, h, h1, h2]
theorem startKind_symFirst {x : UInt8} (h : isSymFirst x = true) (hu : isUpper x = false) :
    startKind x = some .sym := by
  have h1 : x.toNat ≠ 0x23 := by cc
  have h2 : isDigit x = false := by cc
  simp [startKind, h, h1, h2, hu]

end Vise.Asm
