/-
  A written program is lexed back to its tokens: well-formedness and separation of the tokens of a line.
-/
import Vise.Lemmas.AsmParse

namespace Vise.Asm
open Vise.AsmSpec

def Argish (k : Kind) : Prop := k = .ident ∨ k = .sym ∨ k = .size

/-- keyword: non-empty, upper case -/
def WfKw (kw : Bytes) : Prop := ∃ c r, kw = c :: r ∧ isUpper c = true ∧ ∀ x ∈ r, isUpper x = true

/-- an argument token: a safe name or a digit string -/
def ArgTok (a : Tok) : Prop :=
  (∃ s, a = .sym s ∧ SafeName s) ∨ (∃ c r, a = .size (c :: r) ∧ isDigit c = true ∧ ∀ x ∈ r, isDigit x = true)

def WsRun (w : Bytes) : Prop := w ≠ [] ∧ ∀ x ∈ w, isWsCh x = true
def EolRun (e : Bytes) : Prop := e ≠ [] ∧ ∀ x ∈ e, isEolCh x = true

theorem wf_ws {w : Bytes} (h : WsRun w) : WfTok (.ws w) := by
  obtain ⟨hne, hall⟩ := h
  cases w with
  | nil => exact absurd rfl hne
  | cons c r =>
    exact ⟨c, r, rfl, startKind_ws (hall c (by simp)), fun x hx => by
      simpa [Tok.kind, Kind.continues] using hall x (by simp [hx])⟩

theorem wf_eol {e : Bytes} (h : EolRun e) : WfTok (.eol e) := by
  obtain ⟨hne, hall⟩ := h
  cases e with
  | nil => exact absurd rfl hne
  | cons c r =>
    exact ⟨c, r, rfl, startKind_eol (hall c (by simp)), fun x hx => by
      simpa [Tok.kind, Kind.continues] using hall x (by simp [hx])⟩

theorem wf_ident {kw : Bytes} (h : WfKw kw) : WfTok (.ident kw) := by
  obtain ⟨c, r, rfl, hc, hr⟩ := h
  exact ⟨c, r, rfl, startKind_upper hc, fun x hx => by simpa [Tok.kind, Kind.continues] using hr x hx⟩

theorem wf_arg {a : Tok} (h : ArgTok a) : WfTok a := by
  rcases h with ⟨s, rfl, c, r, rfl, h1, h2, h3, _⟩ | ⟨c, r, rfl, h1, h2⟩
  · exact ⟨c, r, rfl, startKind_symFirst h1 h2, fun x hx => by simpa [Tok.kind, Kind.continues] using h3 x hx⟩
  · exact ⟨c, r, rfl, startKind_digit h1, fun x hx => by simpa [Tok.kind, Kind.continues] using h2 x hx⟩

theorem wf_comment {c : Bytes} (h : ∃ r, c = 0x23 :: r ∧ ∀ x ∈ r, x.toNat ≠ 0x0a) : WfTok (.comment c) := by
  obtain ⟨r, rfl, hr⟩ := h
  refine ⟨0x23, r, rfl, by simp [Tok.kind]; decide, fun x hx => ?_⟩
  simpa [Tok.kind, Kind.continues] using hr x hx

theorem argish_arg {a : Tok} (h : ArgTok a) : Argish a.kind := by
  rcases h with ⟨s, rfl, _⟩ | ⟨c, r, rfl, _⟩
  · right; left; rfl
  · right; right; rfl

theorem sep_ws {k : Kind} (hk : Argish k) {w : Bytes} (h : WsRun w) : SepFrom k (.ws w) := by
  intro c r ht
  have hc : isWsCh c = true := h.2 c (by simp [Tok.text] at ht; simp [ht])
  rcases hk with rfl | rfl | rfl
  · simpa [Kind.continues] using ws_not_upper hc
  · simpa [Kind.continues] using ws_not_symRest hc
  · simpa [Kind.continues] using ws_not_digit hc

theorem sep_eol {k : Kind} (hk : Argish k) {e : Bytes} (h : EolRun e) : SepFrom k (.eol e) := by
  intro c r ht
  have hc : isEolCh c = true := h.2 c (by simp [Tok.text] at ht; simp [ht])
  rcases hk with rfl | rfl | rfl
  · simpa [Kind.continues] using eol_not_upper hc
  · simpa [Kind.continues] using eol_not_symRest hc
  · simpa [Kind.continues] using eol_not_digit hc

theorem sep_comment {k : Kind} (hk : Argish k) {c : Bytes} (h : ∃ r, c = 0x23 :: r ∧ ∀ x ∈ r, x.toNat ≠ 0x0a) :
    SepFrom k (.comment c) := by
  obtain ⟨r, rfl, _⟩ := h
  intro c' r' ht
  simp [Tok.text] at ht
  obtain ⟨rfl, _⟩ := ht
  rcases hk with rfl | rfl | rfl <;> decide

theorem sep_ws_arg {a : Tok} (h : ArgTok a) : SepFrom .ws a := by
  intro c' r' ht
  rcases h with ⟨s, rfl, c, r, rfl, h1, _, _, _⟩ | ⟨c, r, rfl, h1, _⟩
  · simp [Tok.text] at ht; obtain ⟨rfl, _⟩ := ht
    simpa [Kind.continues] using symFirst_not_ws h1
  · simp [Tok.text] at ht; obtain ⟨rfl, _⟩ := ht
    simpa [Kind.continues] using digit_not_ws h1

theorem sep_ws_eol {e : Bytes} (h : EolRun e) : SepFrom .ws (.eol e) := by
  intro c r ht
  have hc : isEolCh c = true := h.2 c (by simp [Tok.text] at ht; simp [ht])
  simpa [Kind.continues] using eol_not_ws hc

theorem sep_ws_comment {c : Bytes} (h : ∃ r, c = 0x23 :: r ∧ ∀ x ∈ r, x.toNat ≠ 0x0a) : SepFrom .ws (.comment c) := by
  obtain ⟨r, rfl, _⟩ := h
  intro c' r' ht
  simp [Tok.text] at ht
  obtain ⟨rfl, _⟩ := ht
  decide

theorem sep_comment_eol {e : Bytes} (h : ∃ r, e = 0x0a :: r) : SepFrom .comment (.eol e) := by
  obtain ⟨r, rfl⟩ := h
  intro c' r' ht
  simp [Tok.text] at ht
  obtain ⟨rfl, _⟩ := ht
  decide

theorem sep_eol_ident {kw : Bytes} (h : WfKw kw) : SepFrom .eol (.ident kw) := by
  obtain ⟨c, r, rfl, hc, _⟩ := h
  intro c' r' ht
  simp [Tok.text] at ht
  obtain ⟨rfl, _⟩ := ht
  simpa [Kind.continues] using upper_not_eol hc

/-- the trailer and the line end, after a keyword or an argument -/
theorem trail_lexable {k : Kind} (hk : Argish k) (l : Layout) (hl : SafeLayout l) (rest : List Tok)
    (hrest : Lexable .eol rest) : Lexable k (l.trail.toks ++ (.eol l.eol :: rest)) := by
  obtain ⟨_, ht, he, hce⟩ := hl
  have he' : EolRun l.eol := he
  cases htr : l.trail with
  | none => exact .cons (wf_eol he') (sep_eol hk he') hrest
  | ws w =>
    rw [htr] at ht
    exact .cons (wf_ws ht) (sep_ws hk ht) (.cons (wf_eol he') (sep_ws_eol he') hrest)
  | comment c =>
    rw [htr] at ht hce
    exact .cons (wf_comment ht) (sep_comment hk ht) (.cons (wf_eol he') (sep_comment_eol (hce rfl)) hrest)
  | wsComment w c =>
    rw [htr] at ht hce
    exact .cons (wf_ws ht.1) (sep_ws hk ht.1)
      (.cons (wf_comment ht.2) (sep_ws_comment ht.2) (.cons (wf_eol he') (sep_comment_eol (hce rfl)) hrest))

theorem args_lexable (sep : Bytes) (hs : WsRun sep) (tail : List Tok) (htail : ∀ k, Argish k → Lexable k tail) :
    ∀ (args : List Tok), (∀ a ∈ args, ArgTok a) → ∀ k, Argish k →
      Lexable k ((args.flatMap fun a => [.ws sep, a]) ++ tail) := by
  intro args
  induction args with
  | nil => intro _ k hk; simpa using htail k hk
  | cons a as ih =>
    intro ha k hk
    have haa := ha a (by simp)
    simp only [List.flatMap_cons, List.cons_append, List.nil_append]
    exact .cons (wf_ws hs) (sep_ws hk hs)
      (.cons (wf_arg haa) (sep_ws_arg haa) (ih (fun b hb => ha b (by simp [hb])) _ (argish_arg haa)))

/-- one written line followed by lexable tokens is lexable after a line end -/
theorem line_lexable (w : Bytes × List Tok) (l : Layout) (hkw : WfKw w.1) (hargs : ∀ a ∈ w.2, ArgTok a)
    (hl : SafeLayout l) (rest : List Tok) (hrest : Lexable .eol rest) :
    Lexable .eol (lineToks w l ++ rest) := by
  unfold lineToks
  simp only [List.cons_append, List.append_assoc]
  refine .cons (wf_ident hkw) (sep_eol_ident hkw) ?_
  exact args_lexable l.sep hl.1 _ (fun k hk => by simpa using trail_lexable hk l hl rest hrest) w.2 hargs _ (Or.inl rfl)

theorem lines_lexable (ls : List ((Bytes × List Tok) × Layout))
    (h : ∀ x ∈ ls, WfKw x.1.1 ∧ (∀ a ∈ x.1.2, ArgTok a) ∧ SafeLayout x.2) :
    Lexable .eol (ls.flatMap fun x => lineToks x.1 x.2) := by
  induction ls with
  | nil => exact .nil
  | cons x xs ih =>
    obtain ⟨h1, h2, h3⟩ := h x (by simp)
    simp only [List.flatMap_cons]
    exact line_lexable x.1 x.2 h1 h2 h3 _ (ih fun y hy => h y (by simp [hy]))

/-- a non-empty sequence of written lines is lexed back to exactly its tokens -/
theorem lex_lines (ls : List ((Bytes × List Tok) × Layout))
    (h : ∀ x ∈ ls, WfKw x.1.1 ∧ (∀ a ∈ x.1.2, ArgTok a) ∧ SafeLayout x.2) :
    lex (text (ls.flatMap fun x => lineToks x.1 x.2)) = some (ls.flatMap fun x => lineToks x.1 x.2) := by
  have hl := lines_lexable ls h
  cases hts : (ls.flatMap fun x => lineToks x.1 x.2) with
  | nil => simp [text, lex, lexGo]
  | cons t ts =>
    rw [hts] at hl
    cases hl with
    | cons hw _ ht => exact lex_text t ts hw ht

end Vise.Asm
