/-
  Decimal numerals: `fmtUint` (strconv.FormatUint) followed by `parseUint0` (strconv.ParseUint base 0)
  is the identity below the bit bound; the numeral is a non-empty digit string.
-/
import Vise.Lemmas.AsmLex

namespace Vise.Asm

/-- decimal digits, most significant first -/
def D (n : Nat) : Bytes :=
  if n < 10 then [UInt8.ofNat (0x30 + n)] else D (n / 10) ++ [UInt8.ofNat (0x30 + n % 10)]
termination_by n
decreasing_by omega

theorem fmtUintF_eq (f n : Nat) (acc : Bytes) (h : n < f) : fmtUintF f n acc = D n ++ acc := by
  induction f generalizing n acc with
  | zero => omega
  | succ f ih =>
    unfold fmtUintF
    by_cases h0 : n / 10 = 0
    · have hn : n < 10 := by omega
      have : n % 10 = n := by omega
      simp only [h0, if_true]
      rw [D]; simp [hn, this]
    · have hn : ¬ n < 10 := by omega
      simp only [h0, if_false]
      rw [ih (n / 10) _ (by omega)]
      conv => rhs; rw [D]
      simp [hn]

theorem fmtUint_eq (n : Nat) : fmtUint n = D n := by
  unfold fmtUint; rw [fmtUintF_eq _ _ _ (by omega)]; simp

theorem digit_toNat (d : Nat) (h : d < 10) : (UInt8.ofNat (0x30 + d)).toNat = 0x30 + d := by
  simp [UInt8.toNat_ofNat']; omega

theorem digitVal_digit (d : Nat) (h : d < 10) : digitVal (UInt8.ofNat (0x30 + d)) = d := by
  unfold digitVal; rw [digit_toNat d h]; omega

def pstep (base : Nat) (acc : Option Nat) (c : UInt8) : Option Nat :=
  match acc with
  | none => none
  | some a => if digitVal c < base then some (a * base + digitVal c) else none

theorem parseBase_eq (base : Nat) (s : Bytes) : parseBase base s = s.foldl (pstep base) (some 0) := rfl

theorem parseBase_D (n : Nat) : parseBase 10 (D n) = some n := by
  induction n using Nat.strongRecOn with
  | _ n ih =>
    rw [D]
    by_cases hn : n < 10
    · simp only [hn, if_true, parseBase_eq, List.foldl_cons, List.foldl_nil, pstep]
      rw [digitVal_digit n hn]; simp [hn]
    · simp only [hn, if_false, parseBase_eq, List.foldl_append, List.foldl_cons, List.foldl_nil]
      rw [← parseBase_eq, ih (n / 10) (by omega)]
      simp only [pstep, digitVal_digit (n % 10) (by omega)]
      have : n % 10 < 10 := by omega
      simp [this]; omega

theorem D_ne_nil (n : Nat) : D n ≠ [] := by
  rw [D]; by_cases hn : n < 10 <;> simp [hn]

theorem D_digits (n : Nat) : ∀ x ∈ D n, isDigit x = true := by
  induction n using Nat.strongRecOn with
  | _ n ih =>
    rw [D]
    by_cases hn : n < 10
    · simp only [hn, if_true, List.mem_singleton]
      intro x hx; subst hx
      simp [isDigit]; omega
    · simp only [hn, if_false, List.mem_append, List.mem_singleton]
      intro x hx
      rcases hx with hx | hx
      · exact ih (n / 10) (by omega) x hx
      · subst hx; simp [isDigit]; omega

/-- the numeral has no superfluous leading zero -/
theorem D_head (n : Nat) : D n = [0x30] ∨ ∃ c r, D n = c :: r ∧ c ≠ 0x30 := by
  induction n using Nat.strongRecOn with
  | _ n ih =>
    by_cases hn : n < 10
    · by_cases h0 : n = 0
      · left; subst h0; rw [D]; simp
      · right; refine ⟨UInt8.ofNat (0x30 + n), [], ?_, ?_⟩
        · rw [D]; simp [hn]
        · intro h
          have := congrArg UInt8.toNat h
          rw [digit_toNat n hn] at this
          simp at this; omega
    · right
      have e : D n = D (n / 10) ++ [UInt8.ofNat (0x30 + n % 10)] := by rw [D]; simp [hn]
      rcases ih (n / 10) (by omega) with h | ⟨c, r, h, hc⟩
      · -- n / 10 = 0 is impossible here: D (n/10) = "0" only for n / 10 = 0
        exfalso
        have := parseBase_D (n / 10)
        rw [h] at this
        simp [parseBase_eq, pstep, digitVal] at this
        omega
      · exact ⟨c, r ++ [UInt8.ofNat (0x30 + n % 10)], by rw [e, h]; rfl, hc⟩

theorem parseUint0_fmtUint (bits n : Nat) (h : n < 2 ^ bits) : parseUint0 bits (fmtUint n) = some n := by
  rw [fmtUint_eq]
  have hp := parseBase_D n
  unfold parseUint0
  rcases D_head n with h0 | ⟨c, r, hc, hne⟩
  · rw [h0] at hp ⊢
    simp only [hp]
    simp [h]
  · rw [hc] at hp ⊢
    split
    · next heq => simp at heq; exact absurd heq.1 hne
    · simp only [hp]; simp [h]

end Vise.Asm
