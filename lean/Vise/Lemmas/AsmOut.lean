/-
  What the emitters write for the converted arguments of the documented line forms.
-/
import Vise.Lemmas.AsmEmit

namespace Vise.Asm
open Vise.AsmSpec

theorem D_length (k n : Nat) (hk : 1 ≤ k) (h : n < 10 ^ k) : (D n).length ≤ k := by
  induction k generalizing n with
  | zero => omega
  | succ k ih =>
    rw [D]
    by_cases hn : n < 10
    · simp [hn]
    · simp only [hn, if_false, List.length_append, List.length_singleton]
      have hk1 : 1 ≤ k := by
        rcases Nat.eq_zero_or_pos k with rfl | hp
        · simp at h; omega
        · exact hp
      have : n / 10 < 10 ^ k := by
        rw [Nat.pow_succ] at h
        exact Nat.div_lt_of_lt_mul (by omega)
      have := ih (n / 10) hk1 this
      omega

theorem fmtUint_length (n : Nat) (h : n < 4294967296) : (fmtUint n).length ≤ 255 := by
  rw [fmtUint_eq]
  have := D_length 10 n (by omega) (by omega)
  omega

theorem fmtUint_ne_nil (n : Nat) : fmtUint n ≠ [] := by rw [fmtUint_eq]; exact D_ne_nil n

theorem safeName_len {s : Bytes} (h : SafeName s) : 1 ≤ s.length ∧ s.length ≤ 255 := by
  obtain ⟨c, r, rfl, _, _, _, hl⟩ := h
  exact ⟨by simp, hl⟩

theorem sel_len {sel : Sel} (h : SafeSel sel) : 1 ≤ sel.bytes.length ∧ sel.bytes.length ≤ 255 := by
  cases sel with
  | star => simp [Sel.bytes]
  | word v => exact safeName_len h
  | num n =>
    refine ⟨?_, fmtUint_length n h⟩
    have := fmtUint_ne_nil n
    cases hf : fmtUint n with
    | nil => exact absurd hf this
    | cons c r => simp [Sel.bytes, hf]

theorem writeSymE_ok {s : Bytes} (h : s.length ≤ 255) : writeSymE s = .ok (writeSym s) := by
  unfold writeSymE; simp; omega

/-- the two strings of a two-symbol instruction, via `parseTwoSym` -/
theorem twoSym_sel (s : Bytes) (sel : Sel) (hs : SafeName s) (hns : NotStar s) (h : SafeSel sel) :
    twoSym (selAst s sel) = .ok (writeSym s ++ writeSym sel.bytes) := by
  have h1 := writeSymE_ok (safeName_len hs).2
  have h2 := writeSymE_ok (sel_len h).2
  unfold NotStar at hns
  cases sel with
  | star =>
    have h2' : writeSymE [0x2a] = .ok (writeSym [0x2a]) := h2
    simp only [twoSym, selAst, deref, Sel.bytes]
    simp [hns, h1, h2']
  | word v =>
    have h2' : writeSymE v = .ok (writeSym v) := h2
    simp only [twoSym, selAst, deref, Sel.bytes]
    simp [hns, h1, h2']
  | num n =>
    have h2' : writeSymE (fmtUint n) = .ok (writeSym (fmtUint n)) := h2
    simp only [twoSym, selAst, deref, Sel.bytes]
    simp [h1, h2']

/-- the opcode the keyword of a regular line stands for -/
def _root_.Vise.AsmSpec.SLine.op : SLine → Nat
  | .catch .. => Facts.opCATCH
  | .croak .. => Facts.opCROAK
  | .halt => Facts.opHALT
  | .msink => Facts.opMSINK
  | .incmp .. => Facts.opINCMP
  | .load .. => Facts.opLOAD
  | .map .. => Facts.opMAP
  | .move .. => Facts.opMOVE
  | .reload .. => Facts.opRELOAD
  | .mout .. => Facts.opMOUT
  | .mnext .. => Facts.opMNEXT
  | .mprev .. => Facts.opMPREV

theorem sline_opcode (x : SLine) : opcodeOf x.words.1 = some x.op := by
  cases x <;> (simp only [SLine.words, SLine.op]; decide)

theorem bline_opcode (x : BLine) : opcodeOf x.words.1 = none := by
  cases x <;> (simp only [BLine.words]; decide)

theorem modeByte_eq (m : Bool) : UInt8.ofNat (modeNat m) = modeByte m := by cases m <;> rfl

/-- `parseOne` writes exactly the encoding of the instruction the line stands for -/
theorem sline_emit (x : SLine) (h : SafeLine x) : parseOne x.op x.ast = .ok (encode x.instr) := by
  cases x with
  | «catch» node sig mode =>
    have h1 := writeSymE_ok (safeName_len h.1).2
    simp [parseOne, SLine.ast, SLine.op, SLine.instr, encode, h1, modeByte_eq]
  | croak sig mode => simp [parseOne, SLine.ast, SLine.op, SLine.instr, encode, deref, modeByte_eq]
  | halt => simp [parseOne, SLine.ast, SLine.op, SLine.instr, encode]
  | msink => simp [parseOne, SLine.ast, SLine.op, SLine.instr, encode]
  | incmp node sel =>
    have := twoSym_sel node sel h.1 h.2.1 h.2.2
    cases sel <;> simp [parseOne, SLine.ast, SLine.op, SLine.instr, encode, selAst, Sel.bytes] at this ⊢ <;>
      simp [this, Facts.opINCMP, Facts.opMOUT, Facts.opLOAD]
  | load sym size =>
    have h1 := writeSymE_ok (safeName_len h.1).2
    simp [parseOne, SLine.ast, SLine.op, SLine.instr, encode, h1]
  | map sym =>
    have h1 := writeSymE_ok (safeName_len h).2
    simp [parseOne, SLine.ast, SLine.op, SLine.instr, encode, h1]
  | move node =>
    have h1 := writeSymE_ok (safeName_len h).2
    simp [parseOne, SLine.ast, SLine.op, SLine.instr, encode, h1]
  | reload sym =>
    have h1 := writeSymE_ok (safeName_len h).2
    simp [parseOne, SLine.ast, SLine.op, SLine.instr, encode, h1]
  | mout label sel =>
    have h1 := writeSymE_ok (safeName_len h.1).2
    have h2 := writeSymE_ok (sel_len h.2).2
    cases sel with
    | star =>
      have h2' : writeSymE [0x2a] = .ok (writeSym [0x2a]) := h2
      simp [parseOne, SLine.ast, SLine.op, SLine.instr, encode, selAst, Sel.bytes, twoSymReverse, deref, h1, h2']
    | word v =>
      have h2' : writeSymE v = .ok (writeSym v) := h2
      simp [parseOne, SLine.ast, SLine.op, SLine.instr, encode, selAst, Sel.bytes, twoSymReverse, deref, h1, h2']
    | num n =>
      have h2' : writeSymE (fmtUint n) = .ok (writeSym (fmtUint n)) := h2
      simp [parseOne, SLine.ast, SLine.op, SLine.instr, encode, selAst, Sel.bytes, twoSym, deref, h1, h2',
        Facts.opMOUT, Facts.opLOAD]
  | mnext label sel =>
    have := twoSym_sel label sel h.1 h.2.1 h.2.2
    cases sel <;> simp [parseOne, SLine.ast, SLine.op, SLine.instr, encode, selAst, Sel.bytes] at this ⊢ <;>
      simp [this, Facts.opMNEXT, Facts.opMOUT, Facts.opLOAD]
  | mprev label sel =>
    have := twoSym_sel label sel h.1 h.2.1 h.2.2
    cases sel <;> simp [parseOne, SLine.ast, SLine.op, SLine.instr, encode, selAst, Sel.bytes] at this ⊢ <;>
      simp [this, Facts.opMPREV, Facts.opMOUT, Facts.opLOAD]

/-! ### batch lines -/

def _root_.Vise.AsmSpec.BLine.item : BLine → MenuItem
  | .down sym sel label => { code := menuDown, choice := sel.bytes, display := label, target := sym }
  | .up sel label => { code := menuUp, choice := sel.bytes, display := label, target := [] }
  | .next sel label => { code := menuNext, choice := sel.bytes, display := label, target := [] }
  | .previous sel label => { code := menuPrevious, choice := sel.bytes, display := label, target := [] }

theorem bline_add (x : BLine) (h : SafeBLine x) (bt : Batcher) :
    menuAdd bt x.words.1 x.ast = .ok { items := bt.items ++ [x.item], inMenu := true } := by
  cases x with
  | down sym sel label =>
    have l1 := (safeName_len h.1).2
    have l2 := (sel_len h.2.1).2
    have l3 := (safeName_len h.2.2).2
    have hc : batchCodeOf (BLine.down sym sel label).words.1 = menuDown := by
      simp only [BLine.words]; decide
    cases sel <;>
      simp [menuAdd, BLine.ast, downAst, deref, hc, menuDown, BLine.item, Sel.bytes] at l2 ⊢ <;> omega
  | up sel label =>
    have l2 := (sel_len h.1).2
    have l3 := (safeName_len h.2).2
    have hc : batchCodeOf (BLine.up sel label).words.1 = menuUp := by
      simp only [BLine.words]; decide
    cases sel <;>
      simp [menuAdd, BLine.ast, upAst, deref, hc, menuDown, menuUp, BLine.item, Sel.bytes] at l2 ⊢ <;> omega
  | next sel label =>
    have l2 := (sel_len h.1).2
    have l3 := (safeName_len h.2).2
    have hc : batchCodeOf (BLine.next sel label).words.1 = menuNext := by
      simp only [BLine.words]; decide
    cases sel <;>
      simp [menuAdd, BLine.ast, upAst, deref, hc, menuDown, menuNext, BLine.item, Sel.bytes] at l2 ⊢ <;> omega
  | previous sel label =>
    have l2 := (sel_len h.1).2
    have l3 := (safeName_len h.2).2
    have hc : batchCodeOf (BLine.previous sel label).words.1 = menuPrevious := by
      simp only [BLine.words]; decide
    cases sel <;>
      simp [menuAdd, BLine.ast, upAst, deref, hc, menuDown, menuPrevious, BLine.item, Sel.bytes] at l2 ⊢ <;> omega

theorem newLine_two (op : Nat) (a b : Bytes) :
    newLine op [a, b] none none = u16be op ++ writeSym a ++ writeSym b := by
  simp [newLine, writeSym]

theorem item_pre (x : BLine) :
    (if x.item.code = menuUp then newLine Facts.opMOUT [x.item.display, x.item.choice] none none
     else if x.item.code = menuNext then newLine Facts.opMNEXT [x.item.display, x.item.choice] none none
     else if x.item.code = menuPrevious then newLine Facts.opMPREV [x.item.display, x.item.choice] none none
     else newLine Facts.opMOUT [x.item.display, x.item.choice] none none) = encode x.pre := by
  cases x <;> simp [BLine.item, BLine.pre, menuUp, menuNext, menuPrevious, menuDown, newLine_two, encode]

theorem item_post (x : BLine) :
    (if x.item.code = menuUp then newLine Facts.opINCMP [[0x5f], x.item.choice] none none
     else if x.item.code = menuNext then newLine Facts.opINCMP [[0x3e], x.item.choice] none none
     else if x.item.code = menuPrevious then newLine Facts.opINCMP [[0x3c], x.item.choice] none none
     else newLine Facts.opINCMP [x.item.target, x.item.choice] none none) = encode x.post := by
  cases x <;> simp [BLine.item, BLine.post, menuUp, menuNext, menuPrevious, menuDown, newLine_two, encode]

/-- `ToLines` on the items of the batch lines is the documented expansion -/
theorem toLines_items (xs : List BLine) :
    toLines (xs.map BLine.item)
      = (xs.map BLine.pre).flatMap encode ++ encode .halt ++ (xs.map BLine.post).flatMap encode := by
  unfold toLines
  simp only [List.flatMap_map]
  have e1 : ∀ x : BLine, _ = encode x.pre := item_pre
  have e2 : ∀ x : BLine, _ = encode x.post := item_post
  simp only [e1, e2]
  simp [newLine, encode]

theorem emit_batch (xs : List BLine) (h : ∀ x ∈ xs, SafeBLine x) (bt : Batcher) (hb : bt.inMenu = true) :
    emitLines bt (xs.map fun x => (x.words.1, x.ast)) = .ok (toLines (bt.items ++ xs.map BLine.item)) := by
  induction xs generalizing bt with
  | nil => simp [emitLines, menuExit, hb]
  | cons x xs ih =>
    simp only [List.map_cons, emitLines, bline_opcode x, bline_add x (h x (by simp)) bt]
    simp only [Res.bind_ok]
    rw [ih (fun y hy => h y (by simp [hy])) _ rfl]
    simp [List.append_assoc]

end Vise.Asm
