/-
  Parser lemmas for Vise.Asm: what `parseInstr` makes of a written line, per argument shape.
-/
import Vise.Lemmas.AsmNum

namespace Vise.Asm
open Vise.AsmSpec

macro "parse_shape" : tactic => `(tactic| (
  intro l rest
  obtain ⟨sep, trail, eol⟩ := l
  cases trail <;>
  simp [lineToks, Trail.toks, parseInstr, peekAny, parseArg, optTok, optWs, Tok.isIdent, Tok.isWs, Tok.isSym,
    Tok.isSize, Tok.isComment, Tok.isEol, Tok.isElided, Tok.text]))

theorem parseInstr_0 (kw : Bytes) : ∀ (l : Layout) (rest : List Tok),
    parseInstr (lineToks (kw, []) l ++ rest) = .line kw {} rest := by parse_shape

theorem parseInstr_s (kw s : Bytes) : ∀ (l : Layout) (rest : List Tok),
    parseInstr (lineToks (kw, [.sym s]) l ++ rest) = .line kw { sym := some s } rest := by parse_shape

theorem parseInstr_sn (kw s d : Bytes) : ∀ (l : Layout) (rest : List Tok),
    parseInstr (lineToks (kw, [.sym s, .size d]) l ++ rest) = .line kw { sym := some s, size := some d } rest := by
  parse_shape

theorem parseInstr_snn (kw s d e : Bytes) : ∀ (l : Layout) (rest : List Tok),
    parseInstr (lineToks (kw, [.sym s, .size d, .size e]) l ++ rest)
      = .line kw { sym := some s, size := some d, flag := some e } rest := by parse_shape

theorem parseInstr_nn (kw d e : Bytes) : ∀ (l : Layout) (rest : List Tok),
    parseInstr (lineToks (kw, [.size d, .size e]) l ++ rest)
      = .line kw { size := some d, flag := some e } rest := by parse_shape

theorem parseInstr_ss (kw s v : Bytes) : ∀ (l : Layout) (rest : List Tok),
    parseInstr (lineToks (kw, [.sym s, .sym v]) l ++ rest)
      = .line kw { sym := some s, selector := some v } rest := by parse_shape

theorem parseInstr_sss (kw s v x : Bytes) : ∀ (l : Layout) (rest : List Tok),
    parseInstr (lineToks (kw, [.sym s, .sym v, .sym x]) l ++ rest)
      = .line kw { sym := some s, selector := some v, desc := some x } rest := by parse_shape

theorem parseInstr_sns (kw s d x : Bytes) : ∀ (l : Layout) (rest : List Tok),
    parseInstr (lineToks (kw, [.sym s, .size d, .sym x]) l ++ rest)
      = .line kw { sym := some s, size := some d, selector := some x } rest := by parse_shape

theorem parseInstr_ns (kw d x : Bytes) : ∀ (l : Layout) (rest : List Tok),
    parseInstr (lineToks (kw, [.size d, .sym x]) l ++ rest)
      = .line kw { size := some d, selector := some x } rest := by parse_shape

end Vise.Asm
