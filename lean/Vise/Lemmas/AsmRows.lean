/-
  From written lines to the AST: every documented line form with safe arguments is lexed, parsed and
  converted to the expected `Arg`.
-/
import Vise.Lemmas.AsmLines

namespace Vise.Asm
open Vise.AsmSpec

/-- a written line together with what the parser is expected to make of it -/
structure Row where
  w : Bytes × List Tok
  l : Layout
  raw : RawArg
  ast : Arg

def Row.toks (r : Row) : List Tok := lineToks r.w r.l

structure GoodRow (r : Row) : Prop where
  kw : WfKw r.w.1
  args : ∀ a ∈ r.w.2, ArgTok a
  layout : SafeLayout r.l
  parse : ∀ rest, parseInstr (r.toks ++ rest) = .line r.w.1 r.raw rest
  conv : r.raw.conv = some r.ast

theorem parseToksF_rows (rows : List Row) (h : ∀ r ∈ rows, GoodRow r) (fuel : Nat) (hf : rows.length < fuel) :
    parseToksF fuel (rows.flatMap Row.toks) = some (rows.map fun r => (r.w.1, r.raw)) := by
  induction rows generalizing fuel with
  | nil =>
    cases fuel with
    | zero => omega
    | succ f => simp [parseToksF, parseInstr, peekAny]
  | cons r rs ih =>
    cases fuel with
    | zero => omega
    | succ f =>
      simp only [List.flatMap_cons, parseToksF, (h r (by simp)).parse]
      rw [ih (fun x hx => h x (by simp [hx])) f (by simp at hf; omega)]
      simp

theorem rows_toks_length (rows : List Row) : rows.length ≤ (rows.flatMap Row.toks).length := by
  induction rows with
  | nil => simp
  | cons r rs ih =>
    simp only [List.flatMap_cons, List.length_append, List.length_cons]
    have : 1 ≤ r.toks.length := by simp [Row.toks, lineToks]
    omega

theorem mapM_conv (rows : List Row) (h : ∀ r ∈ rows, GoodRow r) :
    (rows.map fun r => (r.w.1, r.raw)).mapM (fun (x : Bytes × RawArg) => do
        let a ← x.2.conv
        pure (x.1, a))
      = some (rows.map fun r => (r.w.1, r.ast)) := by
  induction rows with
  | nil => rfl
  | cons r rs ih =>
    simp only [List.map_cons, List.mapM_cons, (h r (by simp)).conv]
    rw [ih fun x hx => h x (by simp [hx])]
    rfl

/-- lexer, grammar and numeric conversion on a written program -/
theorem parseSrc_rows (rows : List Row) (h : ∀ r ∈ rows, GoodRow r) :
    parseSrc (text (rows.flatMap Row.toks)) = some (rows.map fun r => (r.w.1, r.ast)) := by
  have hlex : lex (text (rows.flatMap Row.toks)) = some (rows.flatMap Row.toks) := by
    have := lex_lines (rows.map fun r => (r.w, r.l))
      (by intro x hx; simp at hx; obtain ⟨r, hr, rfl⟩ := hx; exact ⟨(h r hr).kw, (h r hr).args, (h r hr).layout⟩)
    have e : (fun r : Row => lineToks r.w r.l) = Row.toks := rfl
    simpa [List.flatMap_map, e] using this
  have hparse : parseToks (rows.flatMap Row.toks) = some (rows.map fun r => (r.w.1, r.raw)) :=
    parseToksF_rows rows h _ (by have := rows_toks_length rows; omega)
  unfold parseSrc
  simp only [hlex, hparse, Option.bind_eq_bind, Option.bind_some]
  exact mapM_conv rows h

end Vise.Asm
