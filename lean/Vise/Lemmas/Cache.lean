/-
  Helper lemmas for the cache model (C09, and the cache part of C05/C08).
-/
import Vise.Cache

set_option linter.unusedSectionVars false

namespace Vise
open Res

theorem u32add_mod (a A b : Nat) (h : a = A % U32) : u32add a b = (A + b) % U32 := by
  unfold u32add U32 at *; omega

theorem u32sub_mod (a A b : Nat) (h : a = A % U32) (hb : b ≤ A) : u32sub a b = (A - b) % U32 := by
  unfold u32sub U32 at *; omega

namespace AList
variable {V : Type}

theorem lookup_set_self (k : Bytes) (v : V) (m : List (Bytes × V)) :
    lookup k (set k v m) = some v := by
  induction m with
  | nil => simp [set, lookup]
  | cons p m ih =>
    obtain ⟨k', v'⟩ := p
    by_cases h : k' = k <;> simp [set, lookup, h, ih]

theorem lookup_set_other (k k2 : Bytes) (v : V) (m : List (Bytes × V)) (h : k2 ≠ k) :
    lookup k2 (set k v m) = lookup k2 m := by
  induction m with
  | nil => simp [set, lookup]; intro h'; exact absurd h'.symm h
  | cons p m ih =>
    obtain ⟨k', v'⟩ := p
    by_cases h1 : k' = k
    · subst h1; simp [set, lookup]
      have : ¬ k' = k2 := fun e => h e.symm
      simp [this]
    · simp [set, h1, lookup]
      by_cases h2 : k' = k2 <;> simp [h2, ih]

theorem keys_set_of_mem (k : Bytes) (v : V) (m : List (Bytes × V)) (h : (lookup k m).isSome) :
    keys (set k v m) = keys m := by
  induction m with
  | nil => simp [lookup] at h
  | cons p m ih =>
    obtain ⟨k', v'⟩ := p
    by_cases h1 : k' = k
    · simp [set, h1, keys]
    · simp [lookup, h1] at h
      simp [set, h1, keys]
      exact ih h

theorem keys_set_of_not_mem (k : Bytes) (v : V) (m : List (Bytes × V)) (h : lookup k m = none) :
    keys (set k v m) = keys m ++ [k] := by
  induction m with
  | nil => simp [set, keys]
  | cons p m ih =>
    obtain ⟨k', v'⟩ := p
    by_cases h1 : k' = k
    · simp [lookup, h1] at h
    · simp [lookup, h1] at h
      simp [set, h1, keys]
      exact ih h

theorem lookup_isSome_iff_mem (k : Bytes) (m : List (Bytes × V)) :
    (lookup k m).isSome ↔ k ∈ keys m := by
  induction m with
  | nil => simp [lookup, keys]
  | cons p m ih =>
    obtain ⟨k', v'⟩ := p
    by_cases h1 : k' = k
    · simp [lookup, h1, keys]
    · simp [lookup, h1, keys]
      constructor
      · intro h; right; exact (by simpa [keys] using ih.mp h)
      · rintro (h | h)
        · exact absurd h.symm h1
        · exact ih.mpr (by simpa [keys] using h)

theorem lookup_none_iff_not_mem (k : Bytes) (m : List (Bytes × V)) :
    lookup k m = none ↔ k ∉ keys m := by
  rw [← lookup_isSome_iff_mem]; cases lookup k m <;> simp

theorem lookup_erase_other (k k2 : Bytes) (m : List (Bytes × V)) (h : k2 ≠ k) :
    lookup k2 (erase k m) = lookup k2 m := by
  induction m with
  | nil => simp [erase]
  | cons p m ih =>
    obtain ⟨k', v'⟩ := p
    by_cases h1 : k' = k
    · subst h1
      have : ¬ k' = k2 := fun e => h e.symm
      simp [erase, lookup, this]
    · simp [erase, h1, lookup]
      by_cases h2 : k' = k2 <;> simp [h2, ih]

/-- writing back the value that was there restores the map exactly (Update's rollback). -/
theorem set_set_restore (k : Bytes) (e r : V) (m : List (Bytes × V)) (h : lookup k m = some r) :
    set k r (set k e m) = m := by
  induction m with
  | nil => simp [lookup] at h
  | cons p m ih =>
    obtain ⟨k', v'⟩ := p
    by_cases h1 : k' = k
    · simp [lookup, h1] at h; subst h; subst h1; simp [set]
    · simp [lookup, h1] at h
      simp [set, h1, ih h]

theorem set_set (k : Bytes) (e v : V) (m : List (Bytes × V)) :
    set k v (set k e m) = set k v m := by
  induction m with
  | nil => simp [set]
  | cons p m ih =>
    obtain ⟨k', v'⟩ := p
    by_cases h1 : k' = k
    · simp [set, h1]
    · simp [set, h1, ih]

end AList

namespace Cache
variable {V : Type} [Sized V]

theorem frameBytes_cons (p : Bytes × V) (f : Frame V) :
    frameBytes (p :: f) = Sized.size p.2 + frameBytes f := by
  simp [frameBytes]

theorem frameBytes_set_some (k : Bytes) (v old : V) (f : Frame V)
    (h : AList.lookup k f = some old) :
    frameBytes (AList.set k v f) + Sized.size old = frameBytes f + Sized.size v := by
  induction f with
  | nil => simp [AList.lookup] at h
  | cons p f ih =>
    obtain ⟨k', v'⟩ := p
    by_cases h1 : k' = k
    · simp [AList.lookup, h1] at h; subst h
      simp [AList.set, h1, frameBytes_cons]; omega
    · simp [AList.lookup, h1] at h
      simp [AList.set, h1, frameBytes_cons]
      have := ih h; omega

theorem frameBytes_set_none (k : Bytes) (v : V) (f : Frame V) (h : AList.lookup k f = none) :
    frameBytes (AList.set k v f) = frameBytes f + Sized.size v := by
  induction f with
  | nil => simp [AList.set, frameBytes]
  | cons p f ih =>
    obtain ⟨k', v'⟩ := p
    by_cases h1 : k' = k
    · simp [AList.lookup, h1] at h
    · simp [AList.lookup, h1] at h
      simp [AList.set, h1, frameBytes_cons, ih h]; omega

theorem lookup_size_le (k : Bytes) (old : V) (f : Frame V) (h : AList.lookup k f = some old) :
    Sized.size old ≤ frameBytes f := by
  induction f with
  | nil => simp [AList.lookup] at h
  | cons p f ih =>
    obtain ⟨k', v'⟩ := p
    by_cases h1 : k' = k
    · simp [AList.lookup, h1] at h; subst h; simp [frameBytes_cons]
    · simp [AList.lookup, h1] at h
      have := ih h; simp [frameBytes_cons]; omega

@[simp] theorem sumFrames_cons (f : Frame V) (rest : List (Frame V)) :
    sumFrames (f :: rest) = frameBytes f + sumFrames rest := by simp [sumFrames]

@[simp] theorem sumFrames_nil : sumFrames ([] : List (Frame V)) = 0 := rfl

theorem sumFrames_modify (frames : List (Frame V)) (i : Nat) (g : Frame V → Frame V) (f : Frame V)
    (h : frames[i]? = some f) :
    sumFrames (frames.modify i g) + frameBytes f = sumFrames frames + frameBytes (g f) := by
  induction frames generalizing i with
  | nil => simp at h
  | cons f0 rest ih =>
    cases i with
    | zero => simp at h; subst h; simp [List.modify]; omega
    | succ i =>
      simp at h
      have := ih i h
      simp [List.modify] at *
      omega

theorem frameBytes_le_sum (frames : List (Frame V)) (i : Nat) (f : Frame V)
    (h : frames[i]? = some f) : frameBytes f ≤ sumFrames frames := by
  induction frames generalizing i with
  | nil => simp at h
  | cons f0 rest ih =>
    cases i with
    | zero => simp at h; subst h; simp
    | succ i => simp at h; have := ih i h; simp; omega

/-! ### frameOf -/

@[simp] theorem allKeys_cons (f : Frame V) (rest : List (Frame V)) :
    allKeys (f :: rest) = AList.keys f ++ allKeys rest := by simp [allKeys]

@[simp] theorem allKeys_nil : allKeys ([] : List (Frame V)) = [] := rfl

theorem frameOf_none_iff (k : Bytes) (frames : List (Frame V)) :
    frameOf k frames = none ↔ k ∉ allKeys frames := by
  induction frames with
  | nil => simp [frameOf]
  | cons f rest ih =>
    simp only [frameOf, allKeys_cons, List.mem_append, not_or]
    cases h : frameOf k rest with
    | some i =>
      simp
      intro _
      exact Classical.byContradiction fun hn => by
        have := ih.mpr hn
        simp [h] at this
    | none =>
      have hr := ih.mp h
      by_cases hm : (AList.lookup k f).isSome
      · simp [hm]; intro hn; exact absurd ((AList.lookup_isSome_iff_mem k f).mp hm) hn
      · simp [hm]
        exact ⟨fun hk => hm ((AList.lookup_isSome_iff_mem k f).mpr hk), hr⟩

theorem frameOf_some (k : Bytes) (frames : List (Frame V)) (i : Nat) (h : frameOf k frames = some i) :
    ∃ f, frames[i]? = some f ∧ (AList.lookup k f).isSome := by
  induction frames generalizing i with
  | nil => simp [frameOf] at h
  | cons f rest ih =>
    simp only [frameOf] at h
    cases hr : frameOf k rest with
    | some j =>
      simp [hr] at h; subst h
      obtain ⟨f', h1, h2⟩ := ih j hr
      exact ⟨f', by simpa using h1, h2⟩
    | none =>
      simp [hr] at h
      obtain ⟨hm, hi⟩ := h
      subst hi
      exact ⟨f, by simp, by simpa using hm⟩

/-- with unique keys, the frame that holds `k` is the one `frameOf` reports. -/
theorem frameOf_of_lookup (k : Bytes) (frames : List (Frame V)) (i : Nat) (f : Frame V)
    (hn : (allKeys frames).Nodup) (hf : frames[i]? = some f) (hk : (AList.lookup k f).isSome) :
    frameOf k frames = some i := by
  induction frames generalizing i with
  | nil => simp at hf
  | cons f0 rest ih =>
    simp only [allKeys_cons] at hn
    have hn' := List.nodup_append.mp hn
    cases i with
    | zero =>
      simp at hf; subst hf
      have hk' := (AList.lookup_isSome_iff_mem k f0).mp hk
      have : k ∉ allKeys rest := fun hm => hn'.2.2 k hk' k hm rfl
      simp [frameOf, (frameOf_none_iff k rest).mpr this, hk]
    | succ i =>
      simp at hf
      simp [frameOf, ih i hn'.2.1 hf]

end Cache
end Vise
