/-
  The cache invariant and its preservation by every operation of cache/cache.go.
-/
import Vise.Lemmas.Cache

set_option linter.unusedSectionVars false

namespace Vise
open Res

theorem add_use_arith (use T c n : Nat) (huse : use = T % U32)
    (hcap : ¬ (n > 0 ∧ (if c = 0 then n % U32 else if u32add use (n % U32) > c then 0 else n % U32) = 0)) :
    u32add use (if n > 0 then (if c = 0 then n % U32 else if u32add use (n % U32) > c then 0 else n % U32) else 0)
      = (T + n) % U32 := by
  by_cases hz : n > 0
  · simp only [hz, true_and, if_true] at hcap ⊢
    by_cases hc : c = 0
    · simp only [hc, if_true] at hcap ⊢
      unfold u32add U32 at *; omega
    · simp only [hc, if_false] at hcap ⊢
      by_cases ho : u32add use (n % U32) > c
      · simp [ho] at hcap
      · simp only [ho, if_false] at hcap ⊢
        unfold u32add U32 at *; omega
  · have : n = 0 := by omega
    subst this
    simp [u32add]; unfold U32 at *; omega

theorem add_cap_arith (use T c n : Nat) (huse : use = T % U32) (hT : T ≤ c) (hc : c > 0) (hcU : c < U32)
    (hn : n + c < U32)
    (hcap : ¬ (n > 0 ∧ (if c = 0 then n % U32 else if u32add use (n % U32) > c then 0 else n % U32) = 0)) :
    T + n ≤ c := by
  by_cases hz : n > 0
  · simp only [hz, true_and] at hcap
    have hc0 : ¬ c = 0 := by omega
    simp only [hc0, if_false] at hcap
    by_cases ho : u32add use (n % U32) > c
    · simp [ho] at hcap
    · unfold u32add U32 at *; omega
  · omega

namespace Cache
variable {V : Type} [Sized V]

/-- What C09 demands of every reachable cache (plus what is needed to keep it inductive). -/
structure Inv (ca : Cache V) : Prop where
  /-- there is always a current scope -/
  nonempty : ca.frames ≠ []
  /-- a symbol is defined in at most one scope, and once per scope -/
  nodup : (allKeys ca.frames).Nodup
  /-- the reported used size is the sum of the stored values' lengths (as a `uint32`) -/
  use : ca.useSize = ca.totalBytes % U32
  /-- with a capacity configured the total never exceeds it -/
  cap : ca.cacheSize > 0 → ca.totalBytes ≤ ca.cacheSize
  capU32 : ca.cacheSize < U32
  /-- every live symbol has a declared size -/
  sized : ∀ k ∈ allKeys ca.frames, (AList.lookup k ca.sizes).isSome
  /-- no stored value is longer than the limit declared for its symbol -/
  limited : ∀ (i : Nat) (f : Frame V) (k : Bytes) (v : V) (lim : Nat),
    ca.frames[i]? = some f → AList.lookup k f = some v →
    AList.lookup k ca.sizes = some lim → lim > 0 → Sized.size v ≤ lim

theorem inv_new (c : Nat) (hc : c < U32) : Inv (new c : Cache V) := by
  refine ⟨by simp [new], by simp [new, AList.keys], by simp [new, totalBytes, frameBytes], ?_, hc,
    by simp [new, AList.keys], ?_⟩
  · intro _; simp [new, totalBytes, frameBytes]
  · intro i f k v lim h1 h2
    simp [new] at h1
    cases i with
    | zero => simp at h1; subst h1; simp [AList.lookup] at h2
    | succ i => simp at h1

theorem inv_push (ca : Cache V) (h : Inv ca) : Inv ca.push := by
  refine ⟨by simp [push], ?_, ?_, ?_, h.capU32, ?_, ?_⟩
  · simpa [push, AList.keys] using h.nodup
  · simpa [push, totalBytes, frameBytes] using h.use
  · simpa [push, totalBytes, frameBytes] using h.cap
  · simpa [push, AList.keys] using h.sized
  · intro i f k v lim h1 h2 h3 h4
    cases i with
    | zero => simp [push] at h1; subst h1; simp [AList.lookup] at h2
    | succ i => simp [push] at h1; exact h.limited i f k v lim h1 h2 (by simpa [push] using h3) h4

theorem inv_last (ca : Cache V) (h : Inv ca) : Inv ca.last.2 := by
  refine ⟨h.nonempty, h.nodup, h.use, h.cap, h.capU32, h.sized, h.limited⟩

/-! ### Pop -/

theorem foldl_u32sub (f : Frame V) (use A : Nat) (h : use = A % U32) (hb : frameBytes f ≤ A) :
    f.foldl (fun u p => u32sub u (Sized.size p.2)) use = (A - frameBytes f) % U32 := by
  induction f generalizing use A with
  | nil => simp [frameBytes, h]
  | cons p f ih =>
    simp only [List.foldl_cons]
    rw [frameBytes_cons] at hb
    rw [ih (u32sub use (Sized.size p.2)) (A - Sized.size p.2)
      (u32sub_mod use A _ h (by omega)) (by omega)]
    rw [frameBytes_cons]
    congr 1; omega

theorem lookup_foldl_erase (f : Frame V) (s : List (Bytes × Nat)) (k : Bytes)
    (hk : k ∉ AList.keys f) :
    AList.lookup k (f.foldl (fun s p => AList.erase p.1 s) s) = AList.lookup k s := by
  induction f generalizing s with
  | nil => simp
  | cons p f ih =>
    simp only [List.foldl_cons]
    simp [AList.keys] at hk
    rw [ih _ (by simpa [AList.keys] using hk.2)]
    exact AList.lookup_erase_other p.1 k s (fun e => hk.1 e)

theorem inv_pop (ca : Cache V) (h : Inv ca) : Inv ca.pop.1 := by
  unfold pop
  match hf : ca.frames with
  | [] => exact absurd hf h.nonempty
  | f :: rest =>
    simp only []
    have hn : (AList.keys f ++ allKeys rest).Nodup := by simpa [hf] using h.nodup
    have hn' := List.nodup_append.mp hn
    have htot : ca.totalBytes = frameBytes f + sumFrames rest := by simp [totalBytes, hf]
    have huse := foldl_u32sub f ca.useSize ca.totalBytes h.use (by omega)
    have hsub : ca.totalBytes - frameBytes f = sumFrames rest := by omega
    have hdisj : ∀ k ∈ allKeys rest, k ∉ AList.keys f := fun k hk hkf => hn'.2.2 k hkf k hk rfl
    by_cases hr : rest.isEmpty
    · have : rest = [] := by simpa using hr
      subst this
      refine ⟨by simp, by simp [AList.keys], ?_, ?_, h.capU32, by simp [AList.keys], ?_⟩
      · simp [totalBytes, frameBytes] at *; rw [huse, hsub]; rfl
      · intro _; simp [totalBytes, frameBytes]
      · intro i f' k v lim h1 h2
        cases i with
        | zero => simp at h1; subst h1; simp [AList.lookup] at h2
        | succ i => simp at h1
    · simp only [hr]
      refine ⟨by intro h0; simp at h0 hr; exact hr h0, hn'.2.1, ?_, ?_, h.capU32, ?_, ?_⟩
      · simp [totalBytes] at *; rw [huse, hsub]
      · intro hc; have := h.cap hc; simp [totalBytes] at *; omega
      · intro k hk
        simp at hk ⊢
        rw [lookup_foldl_erase f ca.sizes k (hdisj k hk)]
        exact h.sized k (by simp [hf, hk])
      · intro i f' k v lim h1 h2 h3 h4
        simp at h1 h3
        have hkin : k ∈ allKeys rest := by
          have : k ∈ AList.keys f' := (AList.lookup_isSome_iff_mem k f').mp (by simp [h2])
          simp [allKeys]
          exact ⟨f', List.mem_of_getElem? h1, this⟩
        rw [lookup_foldl_erase f ca.sizes k (hdisj k hkin)] at h3
        exact h.limited (i + 1) f' k v lim (by simp [hf, h1]) h2 h3 h4


/-! ### Reset -/

theorem foldl_u32add (f : Frame V) (a A : Nat) (h : a = A % U32) :
    f.foldl (fun u p => u32add u (Sized.size p.2 % U32)) a = (A + frameBytes f) % U32 := by
  induction f generalizing a A with
  | nil => simp [frameBytes, h]
  | cons p f ih =>
    simp only [List.foldl_cons]
    rw [ih (u32add a (Sized.size p.2 % U32)) (A + Sized.size p.2)
      (by unfold u32add U32 at *; omega)]
    rw [frameBytes_cons]; congr 1; omega

theorem getLast?_getElem? {α} (l : List α) (x : α) (h : l.getLast? = some x) :
    l[l.length - 1]? = some x := by
  rw [List.getLast?_eq_getElem?] at h; exact h

theorem inv_reset (ca : Cache V) (h : Inv ca) : Inv ca.reset := by
  unfold reset
  cases hl : ca.frames.getLast? with
  | none => simpa using h
  | some top =>
    simp only []
    have hidx := getLast?_getElem? ca.frames top hl
    have hmem : top ∈ ca.frames := List.mem_of_getElem? hidx
    have hle := frameBytes_le_sum ca.frames _ top hidx
    have hsub : (AList.keys top).Sublist (allKeys ca.frames) := by
      unfold allKeys
      rw [List.flatMap_def]
      exact List.sublist_flatten_of_mem (List.mem_map_of_mem hmem)
    refine ⟨by simp, ?_, ?_, ?_, h.capU32, ?_, ?_⟩
    · simpa using hsub.nodup h.nodup
    · simp [totalBytes]
      rw [foldl_u32add top 0 0 (by simp [U32])]; simp
    · intro hc; have := h.cap hc; simp [totalBytes] at *; omega
    · intro k hk
      simp at hk
      exact h.sized k (hsub.subset hk)
    · intro i f' k v lim h1 h2 h3 h4
      cases i with
      | zero =>
        simp at h1; subst h1
        exact h.limited _ _ k v lim hidx h2 h3 h4
      | succ i => simp at h1


/-! ### Add -/

/-- the five ways `Add` can go. -/
theorem add_cases (ca : Cache V) (k : Bytes) (v : V) (limit : Nat) :
    (∃ e, ca.add k v limit = (ca, .err e)) ∨
    (∃ s, ca.add k v limit = (ca, .panic s) ∧ ca.frames = []) ∨
    (∃ f rest, ¬ (limit > 0 ∧ Sized.size v > limit) ∧ frameOf k ca.frames = none ∧
      ¬ (Sized.size v > 0 ∧ checkCapacity ca v = 0) ∧ ca.frames = f :: rest ∧
      ca.add k v limit =
        ({ ca with frames := AList.set k v f :: rest,
                   useSize := u32add ca.useSize (if Sized.size v > 0 then checkCapacity ca v else 0),
                   sizes := AList.set k limit ca.sizes, lastValue := v }, .ok ())) := by
  unfold add
  by_cases h1 : limit > 0 ∧ Sized.size v > limit
  · left; exact ⟨"limit", by simp [h1]⟩
  · cases h2 : frameOf k ca.frames with
    | some i =>
      left
      by_cases hi : i = 0
      · exact ⟨"dup", by simp [h1, hi]⟩
      · exact ⟨"other-frame", by simp [h1, hi]⟩
    | none =>
      by_cases hz : Sized.size v > 0
      · by_cases h3 : checkCapacity ca v = 0
        · left; exact ⟨"capacity", by simp [h1, hz, h3]⟩
        · match hf : ca.frames with
          | [] => right; left; exact ⟨"Add:ca.Cache[len-1]", by simp [h1, hz, h3], rfl⟩
          | f :: rest =>
            right; right
            exact ⟨f, rest, h1, rfl, by simp [h3], rfl, by simp [h1, hz, h3]⟩
      · match hf : ca.frames with
        | [] => right; left; exact ⟨"Add:ca.Cache[len-1]", by simp [h1, hz], rfl⟩
        | f :: rest =>
          right; right
          exact ⟨f, rest, h1, rfl, by simp [hz], rfl, by simp [h1, hz]⟩

/-- every rejecting path of `Add` returns the cache untouched. -/
theorem add_rejected_unchanged (ca : Cache V) (k : Bytes) (v : V) (limit : Nat)
    (h : (ca.add k v limit).2 ≠ .ok ()) : (ca.add k v limit).1 = ca := by
  rcases add_cases ca k v limit with ⟨e, he⟩ | ⟨s, hs, _⟩ | ⟨f, rest, _, _, _, _, hok⟩
  · rw [he]
  · rw [hs]
  · rw [hok] at h; simp at h

theorem nodup_insert_mid (a b : List Bytes) (k : Bytes) (h : (a ++ b).Nodup) (hk : k ∉ a ++ b) :
    (a ++ [k] ++ b).Nodup := by
  have h' := List.nodup_append.mp h
  simp at hk
  rw [List.append_assoc]
  apply List.nodup_append.mpr
  refine ⟨h'.1, ?_, ?_⟩
  · simp; exact ⟨hk.2, h'.2.1⟩
  · intro x hx y hy
    simp at hy
    rcases hy with hy | hy
    · subst hy; intro e; subst e; exact hk.1 hx
    · exact h'.2.2 x hx y hy

theorem inv_add (ca : Cache V) (k : Bytes) (v : V) (limit : Nat) (h : Inv ca)
    (hv : Sized.size v + ca.cacheSize < U32) : Inv (ca.add k v limit).1 := by
  rcases add_cases ca k v limit with ⟨e, he⟩ | ⟨s, hs, _⟩ | ⟨f, rest, hlim, hfo, hcap, hf, hok⟩
  · rw [he]; exact h
  · rw [hs]; exact h
  rw [hok]
  simp only []
  have hknot := (frameOf_none_iff k ca.frames).mp hfo
  have hk1 : k ∉ AList.keys f ++ allKeys rest := by simpa [hf] using hknot
  have hkf : AList.lookup k f = none :=
    (AList.lookup_none_iff_not_mem k f).mpr (fun hm => hk1 (by simp [hm]))
  have hn : (AList.keys f ++ allKeys rest).Nodup := by simpa [hf] using h.nodup
  have htot : ca.totalBytes = frameBytes f + sumFrames rest := by simp [totalBytes, hf]
  have huse := h.use
  have hcapU := h.capU32
  refine ⟨by simp, ?_, ?_, ?_, h.capU32, ?_, ?_⟩
  · simp [AList.keys_set_of_not_mem k v f hkf]
    have := nodup_insert_mid _ _ k hn hk1
    simpa using this
  · simp only [totalBytes, sumFrames_cons, frameBytes_set_none k v f hkf]
    have := add_use_arith ca.useSize ca.totalBytes ca.cacheSize (Sized.size v) huse
      (by simpa [checkCapacity] using hcap)
    simp only [checkCapacity]
    rw [this, htot]; congr 1; omega
  · intro hc
    have hT := h.cap hc
    simp only [totalBytes, sumFrames_cons, frameBytes_set_none k v f hkf]
    have := add_cap_arith ca.useSize ca.totalBytes ca.cacheSize (Sized.size v) huse hT hc hcapU hv
      (by simpa [checkCapacity] using hcap)
    rw [htot] at this; omega
  · intro k2 hk2
    simp only [allKeys_cons, AList.keys_set_of_not_mem k v f hkf, List.mem_append,
      List.mem_singleton] at hk2
    by_cases he : k2 = k
    · subst he; simp [AList.lookup_set_self]
    · simp only []
      rw [AList.lookup_set_other k k2 limit ca.sizes he]
      apply h.sized k2
      rw [hf]; simp
      rcases hk2 with (hk2 | hk2) | hk2
      · exact Or.inl hk2
      · exact absurd hk2 he
      · exact Or.inr hk2
  · intro i f' k2 v2 lim h1 h2 h3 h4
    simp only [] at h1 h3
    by_cases he : k2 = k
    · subst he
      rw [AList.lookup_set_self] at h3
      simp at h3; subst h3
      cases i with
      | zero =>
        simp at h1; subst h1
        rw [AList.lookup_set_self] at h2; simp at h2; subst h2
        simp at hlim; omega
      | succ i =>
        simp at h1
        have : k2 ∈ allKeys rest := by
          simp [allKeys]
          exact ⟨f', List.mem_of_getElem? h1,
            (AList.lookup_isSome_iff_mem k2 f').mp (by simp [h2])⟩
        exact absurd (by simp [this]) hk1
    · rw [AList.lookup_set_other k k2 limit ca.sizes he] at h3
      cases i with
      | zero =>
        simp at h1; subst h1
        rw [AList.lookup_set_other k k2 v f he] at h2
        exact h.limited 0 f k2 v2 lim (by simp [hf]) h2 h3 h4
      | succ i =>
        simp at h1
        exact h.limited (i + 1) f' k2 v2 lim (by simp [hf, h1]) h2 h3 h4

end Cache

/-! ### Update -/

theorem upd_use_arith (use T c r n : Nat) (huse : use = T % U32) (hr : r ≤ T) :
    u32add (u32sub use (r % U32)) (n % U32) = (T - r + n) % U32 := by
  unfold u32add u32sub U32 at *; omega

theorem upd_restore_arith (use T r : Nat) (huse : use = T % U32) (hr : r ≤ T) :
    u32add (u32sub use (r % U32)) (r % U32) = use := by
  unfold u32add u32sub U32 at *; omega

theorem upd_cap_arith (use T c r n : Nat) (huse : use = T % U32) (hr : r ≤ T) (hT : T ≤ c) (hc : c > 0)
    (hcU : c < U32) (hn : n + c < U32)
    (hcap : ¬ ((if c = 0 then n % U32 else if u32add (u32sub use (r % U32)) (n % U32) > c then 0 else n % U32) = 0 ∧ n > 0)) :
    T - r + n ≤ c := by
  have hc0 : ¬ c = 0 := by omega
  simp only [hc0, if_false] at hcap
  by_cases hz : n > 0
  · by_cases ho : u32add (u32sub use (r % U32)) (n % U32) > c
    · simp [ho, hz] at hcap
    · unfold u32add u32sub U32 at *; omega
  · omega

namespace Cache
variable {V : Type} [Sized V]

theorem modify_modify {α} (l : List α) (i : Nat) (g h : α → α) :
    (l.modify i g).modify i h = l.modify i (h ∘ g) := by
  induction l generalizing i with
  | nil => simp
  | cons x xs ih => cases i <;> simp [ih]

theorem modify_id_of {α} (l : List α) (i : Nat) (g : α → α) (x : α) (hx : l[i]? = some x) (hg : g x = x) :
    l.modify i g = l := by
  induction l generalizing i with
  | nil => simp
  | cons y ys ih =>
    cases i with
    | zero => simp at hx; subst hx; simp [hg]
    | succ i => simp at hx; simp [ih i hx]

theorem allKeys_modify_set (frames : List (Frame V)) (i : Nat) (f : Frame V) (k : Bytes) (v : V)
    (hf : frames[i]? = some f) (hk : (AList.lookup k f).isSome) :
    allKeys (frames.modify i (AList.set k v)) = allKeys frames := by
  induction frames generalizing i with
  | nil => simp
  | cons f0 rest ih =>
    cases i with
    | zero => simp at hf; subst hf; simp [AList.keys_set_of_mem k v f0 hk]
    | succ i => simp at hf; simp [ih i hf]

theorem updPut_sizes (ca : Cache V) (i : Nat) (k : Bytes) (r v : V) :
    (updPut (updBlank ca i k r) i k v).sizes = ca.sizes := by unfold updPut updBlank; rfl
theorem updPut_cacheSize (ca : Cache V) (i : Nat) (k : Bytes) (r v : V) :
    (updPut (updBlank ca i k r) i k v).cacheSize = ca.cacheSize := by unfold updPut updBlank; rfl
theorem updPut_useSize (ca : Cache V) (i : Nat) (k : Bytes) (r v : V) :
    (updPut (updBlank ca i k r) i k v).useSize = u32add (u32sub ca.useSize (Sized.size r % U32)) (Sized.size v % U32) := by unfold updPut updBlank; rfl
theorem updPut_frames (ca : Cache V) (i : Nat) (k : Bytes) (r v : V) :
    (updPut (updBlank ca i k r) i k v).frames = modifyFrame (modifyFrame ca.frames i (AList.set k Sized.empty)) i (AList.set k v) := by unfold updPut updBlank; rfl
theorem updPut_lastValue (ca : Cache V) (i : Nat) (k : Bytes) (r v : V) :
    (updPut (updBlank ca i k r) i k v).lastValue = ca.lastValue := by unfold updPut updBlank; rfl

theorem checkCapacity_updBlank (ca : Cache V) (i : Nat) (k : Bytes) (r v : V) :
    checkCapacity (updBlank ca i k r) v =
      (if ca.cacheSize = 0 then Sized.size v % U32
       else if u32add (u32sub ca.useSize (Sized.size r % U32)) (Sized.size v % U32) > ca.cacheSize then 0
       else Sized.size v % U32) := by
  unfold checkCapacity updBlank; rfl

/-- the ways `Update` can go. -/
theorem update_cases (ca : Cache V) (k : Bytes) (v : V) :
    (∃ e, ca.update k v = (ca, .err e)) ∨
    (∃ i f r, frameOf k ca.frames = some i ∧ ca.frames[i]? = some f ∧ AList.lookup k f = some r ∧
      ¬ ((AList.lookup k ca.sizes).getD 0 > 0 ∧ Sized.size v > (AList.lookup k ca.sizes).getD 0) ∧
      (((checkCapacity (updBlank ca i k r) v = 0 ∧ Sized.size v > 0) ∧
        ca.update k v = (updPut (updBlank ca i k r) i k r, .err "capacity"))
       ∨
       (¬ (checkCapacity (updBlank ca i k r) v = 0 ∧ Sized.size v > 0) ∧
        ca.update k v = (updPut (updBlank ca i k r) i k v, .ok ())))) := by
  unfold update
  simp only []
  by_cases h1 : (AList.lookup k ca.sizes).getD 0 > 0 ∧ Sized.size v > (AList.lookup k ca.sizes).getD 0
  · left; exact ⟨"limit", by simp [h1]⟩
  · cases h2 : frameOf k ca.frames with
    | none => left; exact ⟨"undefined", by simp [h1]⟩
    | some i =>
      right
      obtain ⟨f, hf, hk⟩ := frameOf_some k ca.frames i h2
      obtain ⟨r, hr⟩ := Option.isSome_iff_exists.mp hk
      refine ⟨i, f, r, rfl, hf, hr, h1, ?_⟩
      simp only [hf, hr, Option.getD_some]
      by_cases h3 : checkCapacity (updBlank ca i k r) v = 0 ∧ Sized.size v > 0
      · left; exact ⟨h3, by simp [h1, h3]⟩
      · right; exact ⟨h3, by simp [h1, h3]⟩


theorem cache_ext (a b : Cache V) (h1 : a.cacheSize = b.cacheSize) (h2 : a.useSize = b.useSize)
    (h3 : a.frames = b.frames) (h4 : a.sizes = b.sizes) (h5 : a.lastValue = b.lastValue) : a = b := by
  cases a; cases b; simp at *; exact ⟨h1, h2, h3, h4, h5⟩

/-- a rejected `Update` leaves the cache exactly as it was — on the capacity path because the
rollback restores the blanked value and its bytes. -/
theorem update_rejected_unchanged (ca : Cache V) (k : Bytes) (v : V) (h : Inv ca)
    (hr : (ca.update k v).2 ≠ .ok ()) : (ca.update k v).1 = ca := by
  rcases update_cases ca k v with ⟨e, he⟩ | ⟨i, f, r, hfo, hf, hk, hlim, (⟨hc, hu⟩ | ⟨hc, hu⟩)⟩
  · rw [he]
  · rw [hu]
    show updPut (updBlank ca i k r) i k r = ca
    have h1 := lookup_size_le k r f hk
    have h2 := frameBytes_le_sum ca.frames i f hf
    have hU := upd_restore_arith ca.useSize ca.totalBytes (Sized.size r) h.use (by simp [totalBytes]; omega)
    have hF : (ca.frames.modify i (AList.set k Sized.empty)).modify i (AList.set k r) = ca.frames := by
      rw [List.modify_modify_eq]
      apply modify_id_of ca.frames i _ f hf
      simp [AList.set_set_restore k Sized.empty r f hk]
    cases ca with
    | mk cs us fr sz lv =>
      simp only [updPut, updBlank, modifyFrame] at *
      simp only [hU, hF]
  · rw [hu] at hr; simp at hr

theorem inv_update (ca : Cache V) (k : Bytes) (v : V) (h : Inv ca)
    (hv : Sized.size v + ca.cacheSize < U32) : Inv (ca.update k v).1 := by
  by_cases hok : ¬ (ca.update k v).2 = .ok ()
  · rw [update_rejected_unchanged ca k v h hok]; exact h
  have hok : (ca.update k v).2 = .ok () := Classical.not_not.mp hok
  rcases update_cases ca k v with ⟨e, he⟩ | ⟨i, f, r, hfo, hf, hk, hlim, (⟨hc, hu⟩ | ⟨hc, hu⟩)⟩
  · rw [he] at hok; simp at hok
  · rw [hu] at hok; simp at hok
  rw [hu]
  show Inv (updPut (updBlank ca i k r) i k v)
  have hkS : (AList.lookup k f).isSome := by simp [hk]
  have hfr : (updPut (updBlank ca i k r) i k v).frames = ca.frames.modify i (AList.set k v) := by
    rw [updPut_frames]
    simp only [modifyFrame]
    rw [List.modify_modify_eq]
    congr 1; funext m; simp [AList.set_set]
  have hsz := updPut_sizes ca i k r v
  have hcs := updPut_cacheSize ca i k r v
  have hus := updPut_useSize ca i k r v
  have hc' : ¬ ((if ca.cacheSize = 0 then Sized.size v % U32
      else if u32add (u32sub ca.useSize (Sized.size r % U32)) (Sized.size v % U32) > ca.cacheSize then 0
      else Sized.size v % U32) = 0 ∧ Sized.size v > 0) := by
    rw [checkCapacity_updBlank] at hc; exact hc
  generalize updPut (updBlank ca i k r) i k v = ca2 at *
  have h1 := lookup_size_le k r f hk
  have h2 := frameBytes_le_sum ca.frames i f hf
  have hsum := sumFrames_modify ca.frames i (AList.set k v) f hf
  have hset := frameBytes_set_some k v r f hk
  have htot : ca2.totalBytes = ca.totalBytes - Sized.size r + Sized.size v := by
    simp only [totalBytes, hfr]; omega
  have hrT : Sized.size r ≤ ca.totalBytes := by simp only [totalBytes]; omega
  refine ⟨?_, ?_, ?_, ?_, ?_, ?_, ?_⟩
  · rw [hfr]; simp; exact h.nonempty
  · rw [hfr, allKeys_modify_set ca.frames i f k v hf hkS]; exact h.nodup
  · rw [htot, hus]
    exact upd_use_arith ca.useSize ca.totalBytes ca.cacheSize (Sized.size r) (Sized.size v) h.use hrT
  · rw [hcs, htot]
    intro hcpos
    have hT := h.cap hcpos
    exact upd_cap_arith ca.useSize ca.totalBytes ca.cacheSize (Sized.size r) (Sized.size v) h.use
      hrT hT hcpos h.capU32 hv hc'
  · rw [hcs]; exact h.capU32
  · intro k2 hk2
    rw [hfr, allKeys_modify_set ca.frames i f k v hf hkS] at hk2
    rw [hsz]
    exact h.sized k2 hk2
  · intro j f' k2 v2 lim hj1 hj2 hj3 hj4
    rw [hfr] at hj1
    rw [hsz] at hj3
    by_cases hij : i = j
    · subst hij
      rw [List.getElem?_modify_eq, hf] at hj1
      simp at hj1; subst hj1
      by_cases he : k2 = k
      · subst he
        rw [AList.lookup_set_self] at hj2; simp at hj2; subst hj2
        simp [hj3] at hlim
        omega
      · rw [AList.lookup_set_other k k2 v f he] at hj2
        exact h.limited i f k2 v2 lim hf hj2 hj3 hj4
    · rw [List.getElem?_modify_ne _ _ hij] at hj1
      exact h.limited j f' k2 v2 lim hj1 hj2 hj3 hj4

end Cache
end Vise
