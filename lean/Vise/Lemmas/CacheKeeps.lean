/-
  The cache invariant (C09) is kept by every VM computation: `Vm.Run` for every program, fuel,
  language and environment whose external results fit a `uint32` sum together with the capacity.
-/
import Vise.Lemmas.Keeps
import Vise.Props.C09

namespace Vise
open VM

/-- the relation "if the cache was a valid cache of capacity `c`, it still is" -/
def CacheInvR (c : Nat) (s s' : VmSt) : Prop :=
  (Cache.Inv s.ca ∧ s.ca.cacheSize = c) → (Cache.Inv s'.ca ∧ s'.ca.cacheSize = c)

theorem cacheInvR_preord (c : Nat) : PreOrd (CacheInvR c) :=
  ⟨fun _ h => h, fun _ _ _ h1 h2 h => h2 (h1 h)⟩

/-- anything that leaves the cache alone keeps the invariant -/
theorem Keeps.of_same {α} {c : Nat} {x : VM α} (h : Keeps SameCachePagePos x) : Keeps (CacheInvR c) x := by
  intro s hi
  rw [(h s).1]; exact hi

/-- every external result, together with the capacity, fits a `uint32` (4 GiB of content would be
needed to violate this) -/
def EnvBounded (env : Env) (c : Nat) : Prop :=
  ∀ n sym input lang r, env.ext n sym input lang = some r → r.content.length + c < U32

theorem modify_ca_keeps (c : Nat) (f : Cache Bytes → Cache Bytes)
    (hf : ∀ ca, Cache.Inv ca → ca.cacheSize = c → Cache.Inv (f ca) ∧ (f ca).cacheSize = c) :
    Keeps (CacheInvR c) (VM.modify fun s => { s with ca := f s.ca }) := by
  intro s hi
  exact hf s.ca hi.1 hi.2

theorem push_ok (c : Nat) (ca : Cache Bytes) (h : Cache.Inv ca) (hc : ca.cacheSize = c) :
    Cache.Inv ca.push ∧ ca.push.cacheSize = c := ⟨Cache.inv_push ca h, hc⟩

theorem pop_ok' (c : Nat) (ca : Cache Bytes) (h : Cache.Inv ca) (hc : ca.cacheSize = c) :
    Cache.Inv ca.pop.1 ∧ ca.pop.1.cacheSize = c :=
  ⟨Cache.inv_pop ca h, by rw [← hc]; exact C09.step_cacheSize ca .pop⟩

theorem reset_ok (c : Nat) (ca : Cache Bytes) (h : Cache.Inv ca) (hc : ca.cacheSize = c) :
    Cache.Inv ca.reset ∧ ca.reset.cacheSize = c :=
  ⟨Cache.inv_reset ca h, by rw [← hc]; exact C09.step_cacheSize ca .reset⟩

theorem add_ok (c : Nat) (ca : Cache Bytes) (k v : Bytes) (l : Nat) (h : Cache.Inv ca) (hc : ca.cacheSize = c)
    (hv : v.length + c < U32) : Cache.Inv (ca.add k v l).1 ∧ (ca.add k v l).1.cacheSize = c :=
  ⟨Cache.inv_add ca k v l h (by rw [hc]; exact hv), by rw [← hc]; exact C09.step_cacheSize ca (.add k v l)⟩

theorem update_ok (c : Nat) (ca : Cache Bytes) (k v : Bytes) (h : Cache.Inv ca) (hc : ca.cacheSize = c)
    (hv : v.length + c < U32) : Cache.Inv (ca.update k v).1 ∧ (ca.update k v).1.cacheSize = c :=
  ⟨Cache.inv_update ca k v h (by rw [hc]; exact hv), by rw [← hc]; exact C09.step_cacheSize ca (.update k v)⟩

theorem rewind_keeps (c : Nat) (fuel : Nat) (sym : Bytes) : Keeps (CacheInvR c) (rewind fuel sym) := by
  have P := cacheInvR_preord c
  induction fuel generalizing sym with
  | zero => exact Keeps.pure P _
  | succ fuel ih =>
    apply Keeps.of_at; intro s
    unfold rewind
    apply KeepsAt.get_bind P
    split
    · exact KeepsAt.pure P _ _
    · split
      · next sym' st' _ =>
        apply KeepsAt.bind P
        · exact KeepsAt.modify _ _ (fun hi => pop_ok' c s.ca hi.1 hi.2)
        · intro _ s' _
          split
          · exact ih _ s'
          · exact KeepsAt.pure P _ _
      · exact KeepsAt.pure P _ _


/-- the cache is untouched -/
def SameCache (s s' : VmSt) : Prop := s'.ca = s.ca

theorem sameCache_preord : PreOrd SameCache := ⟨fun _ => rfl, fun _ _ _ h1 h2 => h2.trans h1⟩

theorem Keeps.of_sameCache {α} {c : Nat} {x : VM α} (h : Keeps SameCache x) : Keeps (CacheInvR c) x := by
  intro s hi; rw [h s]; exact hi

theorem Keeps.sameCache_of_same {α} {x : VM α} (h : Keeps SameCachePagePos x) : Keeps SameCache x :=
  fun s => (h s).1

theorem vmReset_sameCache : Keeps SameCache vmReset := fun s => by simp [vmReset, SameCache]

theorem logMove_sameCache (k : String) (t : Bytes) : Keeps SameCache (logMove k t) := fun s => by
  simp [logMove, SameCache]

theorem getCodeM_sameCache (env : Env) (lang : Option Bytes) (sym : Bytes) :
    Keeps SameCache (getCodeM env lang sym) := by
  have P := sameCache_preord
  unfold getCodeM
  apply Keeps.bind P (Keeps.sameCache_of_same (logLookup_keeps _ _ _)); intro _
  split
  · exact Keeps.pure P _
  · exact Keeps.fail P _ _

theorem pageMapM_sameCache (sym : Bytes) : Keeps SameCache (pageMapM sym) := by
  intro s
  unfold pageMapM SameCache
  simp only [VM.bind_apply, VM.get_apply]
  cases s.pg.map s.ca sym <;> simp

theorem flagOps_sameCache (f : Nat) : Keeps SameCache (setFlagM f) ∧ Keeps SameCache (resetFlagM f) ∧
    Keeps SameCache (getFlagM f) ∧ (∀ m, Keeps SameCache (matchFlagM f m)) :=
  ⟨Keeps.sameCache_of_same (setFlagM_keeps f), Keeps.sameCache_of_same (resetFlagM_keeps f),
   Keeps.sameCache_of_same (getFlagM_keeps f), fun m => Keeps.sameCache_of_same (matchFlagM_keeps f m)⟩

theorem decodeErr_keeps {α} {R : VmSt → VmSt → Prop} (hR : PreOrd R) (r : Res α) : Keeps R (decodeErr r) :=
  Keeps.lift hR _ _

theorem runMenuOps_sameCache (b : Bytes) : Keeps SameCache (runMSink b) ∧ Keeps SameCache (runMOut b) ∧
    Keeps SameCache (runMNext b) ∧ Keeps SameCache (runMPrev b) ∧ Keeps SameCache (runHalt b) := by
  have P := sameCache_preord
  refine ⟨?_, ?_, ?_, ?_, ?_⟩
  · unfold runMSink
    keeps_modify_rfl P
    exact Keeps.pure P _
  · unfold runMOut
    apply Keeps.bind P (decodeErr_keeps P _); intro _
    keeps_modify_rfl P
    exact Keeps.pure P _
  · unfold runMNext
    apply Keeps.bind P (decodeErr_keeps P _); intro _
    keeps_modify_rfl P
    exact Keeps.pure P _
  · unfold runMPrev
    apply Keeps.bind P (decodeErr_keeps P _); intro _
    keeps_modify_rfl P
    exact Keeps.pure P _
  · unfold runHalt
    exact Keeps.bind P (flagOps_sameCache _).1 (fun _ => Keeps.pure P _)

theorem runMap_sameCache (b : Bytes) : Keeps SameCache (runMap b) := by
  have P := sameCache_preord
  unfold runMap
  dsimp only
  exact Keeps.bind P (pageMapM_sameCache _) (fun _ => Keeps.pure P _)

theorem runErrCheck_sameCache (k : String) (m : Bytes) (o : Bool) : Keeps SameCache (runErrCheck k m o) := by
  have P := sameCache_preord
  unfold runErrCheck
  keeps_modify_rfl P
  apply Keeps.bind P ((flagOps_sameCache _).2.2.2 _); intro _
  apply Keeps.ite
  · exact Keeps.fail P _ _
  · exact Keeps.pure P _

theorem runDeadCheck_sameCache : Keeps SameCache runDeadCheck := by
  have P := sameCache_preord
  unfold runDeadCheck
  apply Keeps.bind P ((flagOps_sameCache _).2.2.2 _); intro _
  apply Keeps.ite
  · exact Keeps.bind P (flagOps_sameCache _).1 (fun _ => Keeps.pure P _)
  · apply Keeps.bind P ((flagOps_sameCache _).2.2.2 _); intro _
    apply Keeps.ite
    · exact Keeps.pure P _
    · apply Keeps.bind P (Keeps.get P); intro _
      dsimp only
      apply Keeps.ite
      · exact Keeps.fail P _ _
      · apply Keeps.ite
        · exact Keeps.fail P _ _
        · keeps_modify_rfl P
          exact Keeps.pure P _

/-- every move keeps the cache a valid cache -/
theorem applyTarget_keeps (c : Nat) (t : Bytes) : Keeps (CacheInvR c) (applyTarget t) := by
  have P := cacheInvR_preord c
  apply Keeps.of_at; intro s
  unfold applyTarget
  apply KeepsAt.get_bind P
  dsimp only
  split
  · exact KeepsAt.fail P _ _ _
  split
  · -- "_": Up then Pop
    apply KeepsAt.bind P (KeepsAt.of_keeps (Keeps.lift P _ _) _); intro a s1 h1
    apply KeepsAt.bind P (KeepsAt.modify _ _ (fun hi => hi)); intro _ s2 h2
    apply KeepsAt.get_bind P
    apply KeepsAt.bind P (KeepsAt.modify _ _ (fun hi => pop_ok' c s2.ca hi.1 hi.2)); intro _ s3 _
    apply KeepsAt.bind P (KeepsAt.of_keeps (Keeps.lift P _ _) _); intro _ _ _
    exact KeepsAt.pure P _ _
  split
  · apply KeepsAt.bind P (KeepsAt.of_keeps (Keeps.lift P _ _) _); intro a s1 _
    apply KeepsAt.bind P (KeepsAt.modify _ _ (fun hi => hi)); intro _ _ _
    exact KeepsAt.pure P _ _
  split
  · apply KeepsAt.bind P (KeepsAt.of_keeps (Keeps.lift P _ _) _); intro a s1 _
    apply KeepsAt.bind P (KeepsAt.modify _ _ (fun hi => hi)); intro _ _ _
    exact KeepsAt.pure P _ _
  split
  · apply KeepsAt.bind P (KeepsAt.of_keeps (rewind_keeps c _ _) _); intro _ _ _
    exact KeepsAt.pure P _ _
  split
  · apply KeepsAt.bind P (KeepsAt.modify _ _ (fun hi => hi)); intro _ s1 _
    apply KeepsAt.get_bind P
    exact KeepsAt.pure P _ _
  · apply KeepsAt.bind P (KeepsAt.of_keeps (Keeps.lift P _ _) _); intro a s1 _
    apply KeepsAt.bind P (KeepsAt.modify _ _ (fun hi => push_ok c s1.ca hi.1 hi.2)); intro _ _ _
    exact KeepsAt.pure P _ _


theorem runCatch_keeps (c : Nat) (env : Env) (lang : Option Bytes) (b : Bytes) :
    Keeps (CacheInvR c) (runCatch env lang b) := by
  have P := cacheInvR_preord c
  unfold runCatch
  apply Keeps.bind P (decodeErr_keeps P _); intro _
  apply Keeps.bind P (Keeps.of_sameCache ((flagOps_sameCache _).2.2.2 _)); intro _
  apply Keeps.ite
  · apply Keeps.bind P (Keeps.of_sameCache (logMove_sameCache _ _)); intro _
    apply Keeps.bind P (applyTarget_keeps c _); intro _
    apply Keeps.bind P (Keeps.of_sameCache vmReset_sameCache); intro _
    exact Keeps.of_sameCache (getCodeM_sameCache _ _ _)
  · exact Keeps.pure P _

theorem runCroak_keeps (c : Nat) (b : Bytes) : Keeps (CacheInvR c) (runCroak b) := by
  have P := cacheInvR_preord c
  unfold runCroak
  apply Keeps.bind P (decodeErr_keeps P _); intro _
  apply Keeps.bind P (Keeps.of_sameCache ((flagOps_sameCache _).2.2.2 _)); intro _
  apply Keeps.ite
  · apply Keeps.bind P (Keeps.of_sameCache vmReset_sameCache); intro _
    apply Keeps.bind P
    · exact modify_ca_keeps c Cache.reset (fun ca h hc => reset_ok c ca h hc)
    · intro _; exact Keeps.pure P _
  · exact Keeps.pure P _

/-- the value a successful `refresh` returns is one the environment produced -/
theorem refresh_content (env : Env) (lang : Option Bytes) (key content : Bytes) (s s1 : VmSt)
    (h : refresh env lang key s = (.ok content, s1)) :
    ∃ n input r, env.ext n key input lang = some r ∧ r.content = content := by
  unfold refresh at h
  simp only [VM.bind_apply, VM.get_apply, logLookup, VM.modify_apply] at h
  cases he : env.ext s.ghost.ncalls key s.st.input lang with
  | none => simp [he] at h
  | some r =>
    refine ⟨_, _, r, he, ?_⟩
    simp only [he, VM.bind_apply, VM.modify_apply] at h
    unfold refreshTail at h
    by_cases hf : r.fail = true
    · simp only [hf, if_true, VM.bind_apply] at h
      rcases hx : setFlagM Facts.loadfailFlag _ with ⟨r', s'⟩
      rw [hx] at h
      cases r' <;> simp at h
    · simp only [hf, Bool.false_eq_true, if_false, VM.bind_apply] at h
      rcases hx1 : applyFlagList false r.flagReset _ with ⟨r1, s1'⟩
      rw [hx1] at h
      cases r1 with
      | ok _ =>
        simp only [] at h
        rcases hx2 : applyFlagList true r.flagSet s1' with ⟨r2, s2'⟩
        rw [hx2] at h
        cases r2 with
        | ok _ =>
          simp only [] at h
          rcases hx3 : matchFlagM Facts.langFlag true s2' with ⟨r3, s3'⟩
          rw [hx3] at h
          cases r3 with
          | ok _ => simp at h; exact h.1
          | err _ _ => simp at h
          | panic _ => simp at h
        | err _ _ => simp at h
        | panic _ => simp at h
      | err _ _ => simp at h
      | panic _ => simp at h

theorem runLoad_keeps (c : Nat) (env : Env) (hb : EnvBounded env c) (lang : Option Bytes) (b : Bytes) :
    Keeps (CacheInvR c) (runLoad env lang b) := by
  have P := cacheInvR_preord c
  apply Keeps.of_at; intro s
  unfold runLoad
  apply KeepsAt.bind P (KeepsAt.of_keeps (decodeErr_keeps P _) _); intro a s1 _
  apply KeepsAt.get_bind P
  split
  · exact KeepsAt.pure P _ _
  · apply KeepsAt.bind P (KeepsAt.of_keeps (Keeps.of_same (refresh_keeps _ _ _)) _); intro content s2 hr
    obtain ⟨n, input, r, he, hc⟩ := refresh_content env lang _ content s1 s2 hr
    have hfit : content.length + c < U32 := by rw [← hc]; exact hb _ _ _ _ _ he
    apply KeepsAt.get_bind P
    dsimp only
    apply KeepsAt.bind P
    · exact KeepsAt.modify _ _ (fun hi => add_ok c s2.ca _ content _ hi.1 hi.2 hfit)
    · intro _ s3 _
      split <;> first | exact KeepsAt.pure P _ _ | exact KeepsAt.fail P _ _ _ | exact KeepsAt.vpanic P _ _

theorem runReload_keeps (c : Nat) (env : Env) (hb : EnvBounded env c) (lang : Option Bytes) (b : Bytes) :
    Keeps (CacheInvR c) (runReload env lang b) := by
  have P := cacheInvR_preord c
  apply Keeps.of_at; intro s
  unfold runReload
  apply KeepsAt.bind P (KeepsAt.of_keeps (decodeErr_keeps P _) _); intro a s1 _
  apply KeepsAt.bind P (KeepsAt.of_keeps (Keeps.of_same (refresh_keeps _ _ _)) _); intro content s2 hr
  obtain ⟨n, input, r, he, hc⟩ := refresh_content env lang _ content s1 s2 hr
  have hfit : content.length + c < U32 := by rw [← hc]; exact hb _ _ _ _ _ he
  apply KeepsAt.bind P
  · exact KeepsAt.modify _ _ (fun hi => update_ok c s2.ca _ content hi.1 hi.2 hfit)
  · intro _ s3 _
    apply KeepsAt.bind P (KeepsAt.of_keeps (Keeps.of_sameCache (pageMapM_sameCache _)) _); intro _ _ _
    exact KeepsAt.pure P _ _

theorem runMove_keeps (c : Nat) (env : Env) (lang : Option Bytes) (b : Bytes) :
    Keeps (CacheInvR c) (runMove env lang b) := by
  have P := cacheInvR_preord c
  unfold runMove
  apply Keeps.bind P (decodeErr_keeps P _); intro _
  apply Keeps.bind P (Keeps.of_sameCache (logMove_sameCache _ _)); intro _
  apply Keeps.bind P (applyTarget_keeps c _); intro _
  apply Keeps.bind P (Keeps.of_sameCache (getCodeM_sameCache _ _ _)); intro _
  apply Keeps.bind P (Keeps.of_sameCache vmReset_sameCache); intro _
  exact Keeps.pure P _

theorem incmpMove_keeps (c : Nat) (env : Env) (lang : Option Bytes) (sym rest : Bytes) :
    Keeps (CacheInvR c) (incmpMove env lang sym rest) := by
  have P := cacheInvR_preord c
  unfold incmpMove
  apply Keeps.bind P (Keeps.of_sameCache (flagOps_sameCache _).1); intro _
  apply Keeps.bind P (Keeps.of_sameCache (flagOps_sameCache _).2.1); intro _
  apply Keeps.bind P (Keeps.of_sameCache (logMove_sameCache _ _)); intro _
  apply Keeps.bind P (Keeps.attempt (applyTarget_keeps c _)); intro r
  split
  · exact Keeps.bind P (Keeps.of_sameCache (flagOps_sameCache _).1) (fun _ => Keeps.pure P _)
  · exact Keeps.fail P _ _
  · exact Keeps.vpanic P _
  · apply Keeps.bind P (Keeps.of_sameCache vmReset_sameCache); intro _
    apply Keeps.bind P (Keeps.of_sameCache (getCodeM_sameCache _ _ _)); intro _
    exact Keeps.pure P _

theorem runInCmp_keeps (c : Nat) (env : Env) (lang : Option Bytes) (b : Bytes) :
    Keeps (CacheInvR c) (runInCmp env lang b) := by
  have P := cacheInvR_preord c
  unfold runInCmp
  apply Keeps.bind P (decodeErr_keeps P _); intro _
  apply Keeps.bind P (Keeps.of_sameCache (flagOps_sameCache _).2.2.1); intro _
  apply Keeps.bind P (Keeps.of_sameCache (flagOps_sameCache _).2.2.1); intro _
  apply Keeps.ite
  · exact Keeps.pure P _
  · apply Keeps.bind P
    · apply Keeps.ite
      · exact Keeps.of_sameCache (flagOps_sameCache _).1
      · exact Keeps.pure P _
    · intro _
      apply Keeps.bind P (Keeps.get P); intro _
      split
      · exact Keeps.fail P _ _
      · dsimp only
        apply Keeps.ite
        · exact Keeps.pure P _
        · exact incmpMove_keeps c _ _ _ _


/-- **`Vm.Run` keeps the cache a valid cache** — for every program (also malformed bytecode),
every fuel, every language, every environment with bounded results. -/
theorem runLoop_keeps (c : Nat) (env : Env) (hb : EnvBounded env c) (fuel : Nat) (lang : Option Bytes)
    (b : Bytes) : Keeps (CacheInvR c) (runLoop env fuel lang b) := by
  have P := cacheInvR_preord c
  have S := fun {α} {x : VM α} (h : Keeps SameCache x) => (Keeps.of_sameCache (c := c) h)
  induction fuel generalizing lang b with
  | zero => unfold runLoop; exact Keeps.fail P _ _
  | succ fuel ih =>
    unfold runLoop
    apply Keeps.bind P (S ((flagOps_sameCache _).2.2.2 _)); intro _
    apply Keeps.ite
    · exact Keeps.pure P _
    apply Keeps.bind P (S (flagOps_sameCache _).2.1); intro _
    apply Keeps.bind P (Keeps.get P); intro _
    dsimp only
    apply Keeps.bind P (S (flagOps_sameCache _).2.1); intro _
    apply Keeps.bind P
    · apply Keeps.ite
      · exact S (flagOps_sameCache _).2.1
      · exact Keeps.pure P _
    intro _
    apply Keeps.bind P
    · exact Keeps.modify _ (fun s hi => by split <;> exact hi)
    intro _
    apply Keeps.bind P (S (flagOps_sameCache _).1); intro _
    split
    · exact Keeps.fail P _ _
    · exact Keeps.vpanic P _
    · apply Keeps.ite
      · exact S (runMenuOps_sameCache _).2.2.2.2
      apply Keeps.bind P
      · apply Keeps.attempt
        repeat' apply Keeps.ite
        · exact runCatch_keeps c _ _ _
        · exact runCroak_keeps c _
        · exact runLoad_keeps c env hb _ _
        · exact runReload_keeps c env hb _ _
        · exact S (runMap_sameCache _)
        · exact runMove_keeps c _ _ _
        · exact runInCmp_keeps c _ _ _
        · exact S (runMenuOps_sameCache _).1
        · exact S (runMenuOps_sameCache _).2.1
        · exact S (runMenuOps_sameCache _).2.2.1
        · exact S (runMenuOps_sameCache _).2.2.2.1
        · exact Keeps.fail P _ _
      intro r
      apply Keeps.bind P
      · unfold settle
        apply Keeps.bind P
        · split
          · exact Keeps.pure P _
          · exact Keeps.vpanic P _
          · exact S (runErrCheck_sameCache _ _ _)
        intro _
        apply Keeps.ite
        · exact S runDeadCheck_sameCache
        · exact Keeps.pure P _
      intro _
      apply Keeps.ite
      · exact Keeps.pure P _
      · exact ih _ _

end Vise
