/-
  Helper lemmas for the codec model (C14, C15). Property theorems live in Vise/Props.

  `opSplit_eq`, `instructionSplit_eq`, `intSplit_eq` give each guarded decoder a closed form with
  no panic branch: that is where the Go length checks are shown to protect every index and slice.
-/
import Vise.Codec

namespace Vise
open Res

theorem opSplit_eq (b : Bytes) : opSplit b =
    match b with
    | hi :: lo :: rest =>
      if hi.toNat * 256 + lo.toNat > Facts.opMax then .err "invalid-opcode"
      else .ok (hi.toNat * 256 + lo.toNat, rest)
    | _ => .err "short-opcode" := by
  match b with
  | [] => simp [opSplit]
  | [_] => simp [opSplit]
  | hi :: lo :: rest =>
    simp [opSplit, goIdx, goFrom]
    split <;> simp_all

theorem instructionSplit_eq (b : Bytes) : instructionSplit b =
    match b with
    | [] => .err "arg-empty"
    | x :: rest =>
      if x = 0 then .err "arg-zero"
      else if rest.length < x.toNat then .err "arg-short"
      else .ok (rest.take x.toNat, rest.drop x.toNat) := by
  match b with
  | [] => simp [instructionSplit]
  | x :: rest =>
    simp only [instructionSplit, goIdx, goSlice, goFrom]
    simp
    split
    · rfl
    · split
      · next h => simp [show rest.length < x.toNat by omega]
      · next h =>
        have h1 : ¬ rest.length < x.toNat := by omega
        have h2 : 1 + x.toNat ≤ rest.length + 1 := by omega
        have e : 1 + x.toNat = x.toNat + 1 := by omega
        have h3 : x.toNat ≤ rest.length := by omega
        simp [h1, e, h3]

theorem intSplit_eq (b : Bytes) : intSplit b =
    match b with
    | [] => .err "int-empty"
    | l :: rest =>
      if l.toNat > 4 then .err "int-width"
      else if rest.length < l.toNat then .err "int-short"
      else .ok (beNat (rest.take l.toNat), rest.drop l.toNat) := by
  match b with
  | [] => simp [intSplit]
  | l :: rest =>
    simp only [intSplit, goIdx, goSlice, goFrom]
    simp
    split
    · rfl
    · split
      · rfl
      · next h1 h2 =>
        by_cases hz : l.toNat = 0
        · simp [hz, beNat]
        · have : 0 < l.toNat := by omega
          have h3 : l.toNat ≤ rest.length := by omega
          simp [this, h3]

/-! ### big-endian numbers -/

@[simp] theorem toBE_length (w n : Nat) : (toBE w n).length = w := by
  induction w generalizing n with
  | zero => simp [toBE]
  | succ w ih => simp [toBE, ih]

theorem beNat_append_single (bs : Bytes) (x : UInt8) :
    beNat (bs ++ [x]) = beNat bs * 256 + x.toNat := by
  simp [beNat, List.foldl_append]

theorem beNat_toBE (w n : Nat) (h : n < 256 ^ w) : beNat (toBE w n) = n := by
  induction w generalizing n with
  | zero => simp [toBE, beNat] at *; omega
  | succ w ih =>
    simp only [toBE, beNat_append_single]
    have h1 : n / 256 < 256 ^ w := by
      rw [Nat.pow_succ] at h
      exact Nat.div_lt_of_lt_mul (by omega)
    rw [ih _ h1]
    simp
    omega

theorem beNat_lt_aux (bs : Bytes) (a : Nat) :
    bs.foldl (fun a b => a * 256 + b.toNat) a < (a + 1) * 256 ^ bs.length := by
  induction bs generalizing a with
  | nil => simp
  | cons x xs ih =>
    simp only [List.foldl_cons, List.length_cons]
    have := ih (a * 256 + x.toNat)
    have hx := x.toNat_lt
    have : (a * 256 + x.toNat + 1) * 256 ^ xs.length ≤ (a + 1) * 256 * 256 ^ xs.length :=
      Nat.mul_le_mul_right _ (by omega)
    rw [Nat.pow_succ]
    have e : (a + 1) * (256 ^ xs.length * 256) = (a + 1) * 256 * 256 ^ xs.length := by
      rw [Nat.mul_comm (256 ^ xs.length) 256, Nat.mul_assoc]
    omega

theorem beNat_lt (bs : Bytes) : beNat bs < 256 ^ bs.length := by
  have := beNat_lt_aux bs 0
  simpa [beNat] using this

theorem byteWidth_le (n : Nat) : 1 ≤ byteWidth n ∧ byteWidth n ≤ 4 := by
  unfold byteWidth; split <;> (try split) <;> (try split) <;> omega

theorem lt_pow_byteWidth (n : Nat) (h : n < 4294967296) : n < 256 ^ byteWidth n := by
  unfold byteWidth; split <;> (try split) <;> (try split) <;> omega

/-! ### round trips of the primitive encoders -/

theorem opSplit_u16be (op : Nat) (t : Bytes) (h : op ≤ Facts.opMax) :
    opSplit (u16be op ++ t) = .ok (op, t) := by
  have hm : Facts.opMax = 12 := rfl
  have h1 : op / 256 % 256 = 0 := by omega
  have h2 : op % 256 = op := by omega
  rw [opSplit_eq]
  simp [u16be, h1, h2]
  omega

theorem instructionSplit_writeSym (s t : Bytes) (h : symOk s) :
    instructionSplit (writeSym s ++ t) = .ok (s, t) := by
  obtain ⟨h1, h2⟩ := h
  have hm : s.length % 256 = s.length := by omega
  rw [instructionSplit_eq]
  simp only [writeSym, lenByte, List.cons_append]
  have hz : UInt8.ofNat (s.length % 256) ≠ 0 := by
    intro h0
    have : (UInt8.ofNat (s.length % 256)).toNat = 0 := by rw [h0]; rfl
    simp at this; omega
  have hn : (UInt8.ofNat (s.length % 256)).toNat = s.length := by simp; omega
  simp [hz, hn]

theorem intSplit_encodeIntW (w n : Nat) (t : Bytes) (hw : w ≤ 4) (h : n < 256 ^ w) :
    intSplit (encodeIntW w n ++ t) = .ok (n, t) := by
  have hm : (UInt8.ofNat w).toNat = w := by simp; omega
  rw [intSplit_eq]
  simp only [encodeIntW, List.cons_append, hm]
  have ht : List.take w (toBE w n ++ t) = toBE w n := by
    have := @List.take_left _ (toBE w n) t
    rw [toBE_length] at this; exact this
  have hd : List.drop w (toBE w n ++ t) = t := by
    have := @List.drop_left _ (toBE w n) t
    rw [toBE_length] at this; exact this
  have h4 : ¬ w > 4 := by omega
  simp [h4, ht, hd, beNat_toBE w n h]

theorem writeSize_eq (n : Nat) :
    writeSize n = if n = 0 then encodeIntW 1 0 else encodeIntW (byteWidth n) n := by
  unfold writeSize encodeIntW
  split <;> simp [toBE]

theorem intSplit_writeSize (n : Nat) (t : Bytes) (h : n < 4294967296) :
    intSplit (writeSize n ++ t) = .ok (n, t) := by
  rw [writeSize_eq]
  split
  · next h0 => subst h0; exact intSplit_encodeIntW 1 0 t (by omega) (by omega)
  · exact intSplit_encodeIntW _ n t (byteWidth_le n).2 (lt_pow_byteWidth n h)

/-- any width `w ≤ 4` that can hold `n` decodes to `n` (NewLine with caller-chosen byteargs). -/
theorem intSplit_toBE (w n : Nat) (t : Bytes) (hw : w ≤ 4) (h : n < 256 ^ w) :
    intSplit (lenByte (toBE w n) :: toBE w n ++ t) = .ok (n, t) := by
  have : lenByte (toBE w n) = UInt8.ofNat w := by
    simp [lenByte]
    congr 1; omega
  rw [this]
  exact intSplit_encodeIntW w n t hw h

/-! ### consumption: every successful decode step consumes input -/

theorem opSplit_length {b : Bytes} {op : Nat} {r : Bytes} (h : opSplit b = .ok (op, r)) :
    r.length + 2 = b.length ∧ op ≤ Facts.opMax := by
  rw [opSplit_eq] at h
  match b, h with
  | hi :: lo :: rest, h =>
    simp only at h
    split at h
    · cases h
    · cases h; simp; omega

theorem instructionSplit_length {b s r : Bytes} (h : instructionSplit b = .ok (s, r)) :
    r.length + 1 + s.length = b.length ∧ 1 ≤ s.length ∧ s.length ≤ 255 := by
  rw [instructionSplit_eq] at h
  match b, h with
  | x :: rest, h =>
    simp only at h
    split at h
    · cases h
    · split at h
      · cases h
      · next hz hl =>
        cases h
        have hx : x.toNat ≠ 0 := by
          intro h0; apply hz
          have : UInt8.ofNat x.toNat = UInt8.ofNat 0 := by rw [h0]
          simpa using this
        have := x.toNat_lt
        simp
        omega

theorem intSplit_length {b r : Bytes} {n : Nat} (h : intSplit b = .ok (n, r)) :
    r.length + 1 ≤ b.length ∧ n < 4294967296 := by
  rw [intSplit_eq] at h
  match b, h with
  | x :: rest, h =>
    simp only at h
    split at h
    · cases h
    · split at h
      · cases h
      · next hw hl =>
        cases h
        have := beNat_lt (List.take x.toNat rest)
        have hl : (List.take x.toNat rest).length ≤ 4 := by simp; omega
        have : 256 ^ (List.take x.toNat rest).length ≤ 256 ^ 4 :=
          Nat.pow_le_pow_right (by omega) hl
        simp
        omega


/-! ### inversion: a successful primitive decode determines the bytes it consumed -/

theorem opSplit_inv {b : Bytes} {op : Nat} {r : Bytes} (h : opSplit b = .ok (op, r)) :
    b = u16be op ++ r ∧ op ≤ Facts.opMax := by
  rw [opSplit_eq] at h
  match b, h with
  | hi :: lo :: rest, h =>
    simp only at h
    split at h
    · cases h
    · next hle =>
      cases h
      have hm : Facts.opMax = 12 := rfl
      have h1 := hi.toNat_lt
      have h2 := lo.toNat_lt
      have hhi : hi.toNat = 0 := by omega
      refine ⟨?_, by omega⟩
      have hlo : lo.toNat / 256 % 256 = 0 := by omega
      have hh : hi = 0 := by
        have : UInt8.ofNat hi.toNat = UInt8.ofNat 0 := by rw [hhi]
        simpa using this
      simp [u16be, hlo, hh]

theorem instructionSplit_inv {b s r : Bytes} (h : instructionSplit b = .ok (s, r)) :
    b = writeSym s ++ r ∧ symOk s := by
  have hl := instructionSplit_length h
  rw [instructionSplit_eq] at h
  match b, h with
  | x :: rest, h =>
    simp only at h
    split at h
    · cases h
    · split at h
      · cases h
      · next hz hlt =>
        cases h
        have hlen : (List.take x.toNat rest).length = x.toNat := by simp; omega
        refine ⟨?_, by unfold symOk; omega⟩
        simp [writeSym, lenByte, hlen]

theorem intSplit_inv {b r : Bytes} {n : Nat} (h : intSplit b = .ok (n, r)) :
    ∃ digits : Bytes, digits.length ≤ 4 ∧ b = UInt8.ofNat digits.length :: digits ++ r ∧
      n = beNat digits := by
  rw [intSplit_eq] at h
  match b, h with
  | x :: rest, h =>
    simp only at h
    split at h
    · cases h
    · split at h
      · cases h
      · next hw hlt =>
        cases h
        have hlen : (List.take x.toNat rest).length = x.toNat := by simp; omega
        refine ⟨List.take x.toNat rest, by omega, ?_, rfl⟩
        rw [hlen]; simp

theorem intSplit_digits (digits r : Bytes) (h : digits.length ≤ 4) :
    intSplit (UInt8.ofNat digits.length :: digits ++ r) = .ok (beNat digits, r) := by
  rw [intSplit_eq]
  have hm : (UInt8.ofNat digits.length).toNat = digits.length := by simp; omega
  simp only [List.cons_append, hm]
  have h4 : ¬ digits.length > 4 := by omega
  simp [h4]


/-! ### parseSig closed form, no-panic of every decoder -/

theorem parseSig_eq (b : Bytes) : parseSig b =
    (intSplit b >>= fun x =>
      match x.2 with
      | [] => .err "mode-missing"
      | m :: rest => .ok (x.1, decide (m.toNat > 0), rest)) := by
  unfold parseSig
  congr 1
  funext x
  obtain ⟨sig, b'⟩ := x
  match b' with
  | [] => simp
  | m :: rest => simp [goIdx, goFrom]

theorem opSplit_noPanic (b : Bytes) : NoPanic (opSplit b) := by
  rw [opSplit_eq]; intro s h
  split at h
  · split at h <;> cases h
  · cases h

theorem instructionSplit_noPanic (b : Bytes) : NoPanic (instructionSplit b) := by
  rw [instructionSplit_eq]; intro s h
  split at h
  · cases h
  · split at h
    · cases h
    · split at h <;> cases h

theorem intSplit_noPanic (b : Bytes) : NoPanic (intSplit b) := by
  rw [intSplit_eq]; intro s h
  split at h
  · cases h
  · split at h
    · cases h
    · split at h <;> cases h

theorem parseSig_noPanic (b : Bytes) : NoPanic (parseSig b) := by
  rw [parseSig_eq]
  apply NoPanic.bind (intSplit_noPanic b)
  intro a _ s h
  split at h <;> cases h

theorem parseSym_noPanic (b : Bytes) : NoPanic (parseSym b) := instructionSplit_noPanic b

theorem parseTwoSym_noPanic (b : Bytes) : NoPanic (parseTwoSym b) := by
  unfold parseTwoSym
  apply NoPanic.bind (instructionSplit_noPanic b)
  intro a _
  apply NoPanic.bind (instructionSplit_noPanic _)
  intro a' _
  simp

theorem parseSymLen_noPanic (b : Bytes) : NoPanic (parseSymLen b) := by
  unfold parseSymLen
  apply NoPanic.bind (instructionSplit_noPanic b)
  intro a _
  apply NoPanic.bind (intSplit_noPanic _)
  intro a' _
  simp

theorem parseSymSig_noPanic (b : Bytes) : NoPanic (parseSymSig b) := by
  unfold parseSymSig
  apply NoPanic.bind (instructionSplit_noPanic b)
  intro a _
  apply NoPanic.bind (parseSig_noPanic _)
  intro a' _
  simp

theorem noPanic_ite {α} {c : Prop} [Decidable c] {a b : Res α} (ha : NoPanic a) (hb : NoPanic b) :
    NoPanic (if c then a else b) := by
  split <;> assumption

theorem decodeOne_noPanic (b : Bytes) : NoPanic (decodeOne b) := by
  unfold decodeOne
  apply NoPanic.bind (opSplit_noPanic b)
  intro a _
  obtain ⟨op, b'⟩ := a
  simp only []
  repeat' apply noPanic_ite
  all_goals first
    | exact Res.noPanic_ok _
    | exact Res.noPanic_err _
    | (apply NoPanic.bind (parseSymSig_noPanic _); intro _ _; exact Res.noPanic_ok _)
    | (apply NoPanic.bind (parseSig_noPanic _); intro _ _; exact Res.noPanic_ok _)
    | (apply NoPanic.bind (parseSymLen_noPanic _); intro _ _; exact Res.noPanic_ok _)
    | (apply NoPanic.bind (parseSym_noPanic _); intro _ _; exact Res.noPanic_ok _)
    | (apply NoPanic.bind (parseTwoSym_noPanic _); intro _ _; exact Res.noPanic_ok _)

theorem parseAllF_noPanic (n : Nat) (b : Bytes) : NoPanic (parseAllF n b) := by
  induction n generalizing b with
  | zero => simp [parseAllF]
  | succ n ih =>
    unfold parseAllF
    apply NoPanic.bind (decodeOne_noPanic b)
    intro a _
    apply noPanic_ite
    · exact Res.noPanic_ok _
    · apply NoPanic.bind (ih _)
      intro _ _; exact Res.noPanic_ok _

end Vise
