/-
  The relational bytecode format specification (`ValidInstr`, `ValidSeq`) and the lemmas relating
  it to the decoders: inversion (soundness) and forward (completeness) per argument parser.
-/
import Vise.Lemmas.Codec

namespace Vise
open Res

/-- `e` is a complete integer argument: a width byte `w ≤ 4` and exactly `w` big-endian bytes. -/
def IntEnc (e : Bytes) (n : Nat) : Prop :=
  ∃ d : Bytes, d.length ≤ 4 ∧ e = UInt8.ofNat d.length :: d ∧ n = beNat d

/-- `e` is a complete string argument: a non-zero length byte and exactly that many bytes. -/
def SymEnc (e s : Bytes) : Prop := symOk s ∧ e = writeSym s

/-- `e` is the one-byte match mode. -/
def ModeEnc (e : Bytes) (m : Bool) : Prop := ∃ x : UInt8, e = [x] ∧ m = decide (x.toNat > 0)

/-- `b` is exactly one complete, valid instruction `i`: a defined opcode followed by exactly the
arguments that opcode takes. -/
inductive ValidInstr : Bytes → Instr → Prop
  | catch {e1 e2 e3 s n m} : SymEnc e1 s → IntEnc e2 n → ModeEnc e3 m →
      ValidInstr (u16be Facts.opCATCH ++ (e1 ++ (e2 ++ e3))) (.catch s n m)
  | croak {e2 e3 n m} : IntEnc e2 n → ModeEnc e3 m →
      ValidInstr (u16be Facts.opCROAK ++ (e2 ++ e3)) (.croak n m)
  | load {e1 e2 s n} : SymEnc e1 s → IntEnc e2 n →
      ValidInstr (u16be Facts.opLOAD ++ (e1 ++ e2)) (.load s n)
  | reload {e1 s} : SymEnc e1 s → ValidInstr (u16be Facts.opRELOAD ++ e1) (.reload s)
  | map {e1 s} : SymEnc e1 s → ValidInstr (u16be Facts.opMAP ++ e1) (.map s)
  | move {e1 s} : SymEnc e1 s → ValidInstr (u16be Facts.opMOVE ++ e1) (.move s)
  | halt : ValidInstr (u16be Facts.opHALT) .halt
  | incmp {e1 e2 s v} : SymEnc e1 s → SymEnc e2 v →
      ValidInstr (u16be Facts.opINCMP ++ (e1 ++ e2)) (.incmp s v)
  | msink : ValidInstr (u16be Facts.opMSINK) .msink
  | mout {e1 e2 s v} : SymEnc e1 s → SymEnc e2 v →
      ValidInstr (u16be Facts.opMOUT ++ (e1 ++ e2)) (.mout s v)
  | mnext {e1 e2 s v} : SymEnc e1 s → SymEnc e2 v →
      ValidInstr (u16be Facts.opMNEXT ++ (e1 ++ e2)) (.mnext s v)
  | mprev {e1 e2 s v} : SymEnc e1 s → SymEnc e2 v →
      ValidInstr (u16be Facts.opMPREV ++ (e1 ++ e2)) (.mprev s v)
  | noop : ValidInstr (u16be Facts.opNOOP) .noop

/-- `b` is a non-empty sequence of complete valid instructions and nothing else. -/
inductive ValidSeq : Bytes → List Instr → Prop
  | single {b i} : ValidInstr b i → ValidSeq b [i]
  | cons {b bs i is} : ValidInstr b i → ValidSeq bs is → ValidSeq (b ++ bs) (i :: is)

/-! ### forward: valid arguments decode -/

theorem sym_fwd {e s : Bytes} (h : SymEnc e s) (r : Bytes) :
    instructionSplit (e ++ r) = .ok (s, r) := by
  obtain ⟨h1, h2⟩ := h; subst h2; exact instructionSplit_writeSym s r h1

theorem int_fwd {e : Bytes} {n : Nat} (h : IntEnc e n) (r : Bytes) :
    intSplit (e ++ r) = .ok (n, r) := by
  obtain ⟨d, h1, h2, h3⟩ := h; subst h2; subst h3
  exact intSplit_digits d r h1

theorem sig_fwd {e2 e3 : Bytes} {n : Nat} {m : Bool} (h2 : IntEnc e2 n) (h3 : ModeEnc e3 m)
    (r : Bytes) : parseSig (e2 ++ (e3 ++ r)) = .ok (n, m, r) := by
  obtain ⟨x, hx, hm⟩ := h3; subst hx; subst hm
  rw [parseSig_eq, int_fwd h2]
  simp

theorem twoSym_fwd {e1 e2 s v : Bytes} (h1 : SymEnc e1 s) (h2 : SymEnc e2 v) (r : Bytes) :
    parseTwoSym (e1 ++ (e2 ++ r)) = .ok (s, v, r) := by
  simp [parseTwoSym, sym_fwd h1, sym_fwd h2]

theorem symLen_fwd {e1 e2 s : Bytes} {n : Nat} (h1 : SymEnc e1 s) (h2 : IntEnc e2 n) (r : Bytes) :
    parseSymLen (e1 ++ (e2 ++ r)) = .ok (s, n, r) := by
  simp [parseSymLen, sym_fwd h1, int_fwd h2]

theorem symSig_fwd {e1 e2 e3 s : Bytes} {n : Nat} {m : Bool} (h1 : SymEnc e1 s)
    (h2 : IntEnc e2 n) (h3 : ModeEnc e3 m) (r : Bytes) :
    parseSymSig (e1 ++ (e2 ++ (e3 ++ r))) = .ok (s, n, m, r) := by
  simp [parseSymSig, sym_fwd h1, sig_fwd h2 h3]

/-! ### inversion: a successful decode consumed a valid argument -/

theorem sym_inv {b s r : Bytes} (h : instructionSplit b = .ok (s, r)) :
    ∃ e, SymEnc e s ∧ b = e ++ r := by
  obtain ⟨h1, h2⟩ := instructionSplit_inv h
  exact ⟨writeSym s, ⟨h2, rfl⟩, h1⟩

theorem int_inv {b r : Bytes} {n : Nat} (h : intSplit b = .ok (n, r)) :
    ∃ e, IntEnc e n ∧ b = e ++ r := by
  obtain ⟨d, h1, h2, h3⟩ := intSplit_inv h
  exact ⟨UInt8.ofNat d.length :: d, ⟨d, h1, rfl, h3⟩, by simpa using h2⟩

theorem sig_inv {b r : Bytes} {n : Nat} {m : Bool} (h : parseSig b = .ok (n, m, r)) :
    ∃ e2 e3, IntEnc e2 n ∧ ModeEnc e3 m ∧ b = e2 ++ (e3 ++ r) := by
  rw [parseSig_eq] at h
  obtain ⟨⟨n', b'⟩, h1, h2⟩ := bind_eq_ok.mp h
  obtain ⟨e2, he2, hb⟩ := int_inv h1
  match b', h2 with
  | x :: rest, h2 =>
    simp at h2
    obtain ⟨hn, hm, hr⟩ := h2
    subst hn; subst hr
    exact ⟨e2, [x], he2, ⟨x, rfl, hm.symm⟩, by simpa using hb⟩

theorem twoSym_inv {b s v r : Bytes} (h : parseTwoSym b = .ok (s, v, r)) :
    ∃ e1 e2, SymEnc e1 s ∧ SymEnc e2 v ∧ b = e1 ++ (e2 ++ r) := by
  unfold parseTwoSym at h
  obtain ⟨⟨s1, b1⟩, h1, h⟩ := bind_eq_ok.mp h
  obtain ⟨⟨s2, b2⟩, h2, h⟩ := bind_eq_ok.mp h
  simp at h
  obtain ⟨hs, hv, hr⟩ := h
  subst hs; subst hv; subst hr
  obtain ⟨e1, he1, hb1⟩ := sym_inv h1
  obtain ⟨e2, he2, hb2⟩ := sym_inv h2
  exact ⟨e1, e2, he1, he2, by rw [hb1, hb2]⟩

theorem symLen_inv {b s r : Bytes} {n : Nat} (h : parseSymLen b = .ok (s, n, r)) :
    ∃ e1 e2, SymEnc e1 s ∧ IntEnc e2 n ∧ b = e1 ++ (e2 ++ r) := by
  unfold parseSymLen at h
  obtain ⟨⟨s1, b1⟩, h1, h⟩ := bind_eq_ok.mp h
  obtain ⟨⟨n2, b2⟩, h2, h⟩ := bind_eq_ok.mp h
  simp at h
  obtain ⟨hs, hv, hr⟩ := h
  subst hs; subst hv; subst hr
  obtain ⟨e1, he1, hb1⟩ := sym_inv h1
  obtain ⟨e2, he2, hb2⟩ := int_inv h2
  exact ⟨e1, e2, he1, he2, by rw [hb1, hb2]⟩

theorem symSig_inv {b s r : Bytes} {n : Nat} {m : Bool} (h : parseSymSig b = .ok (s, n, m, r)) :
    ∃ e1 e2 e3, SymEnc e1 s ∧ IntEnc e2 n ∧ ModeEnc e3 m ∧ b = e1 ++ (e2 ++ (e3 ++ r)) := by
  unfold parseSymSig at h
  obtain ⟨⟨s1, b1⟩, h1, h⟩ := bind_eq_ok.mp h
  obtain ⟨⟨n2, m2, b2⟩, h2, h⟩ := bind_eq_ok.mp h
  simp at h
  obtain ⟨hs, hn, hm, hr⟩ := h
  subst hs; subst hn; subst hm; subst hr
  obtain ⟨e1, he1, hb1⟩ := sym_inv h1
  obtain ⟨e2, e3, he2, he3, hb2⟩ := sig_inv h2
  exact ⟨e1, e2, e3, he1, he2, he3, by rw [hb1, hb2]⟩


/-! ### decodeOne against the specification -/

theorem decodeOne_complete {p : Bytes} {i : Instr} (h : ValidInstr p i) (r : Bytes) :
    decodeOne (p ++ r) = .ok (i, r) := by
  cases h with
  | «catch» h1 h2 h3 =>
    simp only [List.append_assoc, decodeOne]
    rw [opSplit_u16be _ _ (by decide)]
    simp [Facts.opCATCH, symSig_fwd h1 h2 h3]
  | croak h2 h3 =>
    simp only [List.append_assoc, decodeOne]
    rw [opSplit_u16be _ _ (by decide)]
    simp [Facts.opCATCH, Facts.opCROAK, sig_fwd h2 h3]
  | load h1 h2 =>
    simp only [List.append_assoc, decodeOne]
    rw [opSplit_u16be _ _ (by decide)]
    simp [Facts.opCATCH, Facts.opCROAK, Facts.opLOAD, symLen_fwd h1 h2]
  | reload h1 =>
    simp only [List.append_assoc, decodeOne]
    rw [opSplit_u16be _ _ (by decide)]
    simp [Facts.opCATCH, Facts.opCROAK, Facts.opLOAD, Facts.opRELOAD, parseSym, sym_fwd h1]
  | map h1 =>
    simp only [List.append_assoc, decodeOne]
    rw [opSplit_u16be _ _ (by decide)]
    simp [Facts.opCATCH, Facts.opCROAK, Facts.opLOAD, Facts.opRELOAD, Facts.opMAP, parseSym,
      sym_fwd h1]
  | move h1 =>
    simp only [List.append_assoc, decodeOne]
    rw [opSplit_u16be _ _ (by decide)]
    simp [Facts.opCATCH, Facts.opCROAK, Facts.opLOAD, Facts.opRELOAD, Facts.opMAP, Facts.opMOVE,
      parseSym, sym_fwd h1]
  | halt =>
    simp only [decodeOne]
    rw [opSplit_u16be _ _ (by decide)]
    simp [Facts.opCATCH, Facts.opCROAK, Facts.opLOAD, Facts.opRELOAD, Facts.opMAP, Facts.opMOVE,
      Facts.opINCMP, Facts.opHALT]
  | incmp h1 h2 =>
    simp only [List.append_assoc, decodeOne]
    rw [opSplit_u16be _ _ (by decide)]
    simp [Facts.opCATCH, Facts.opCROAK, Facts.opLOAD, Facts.opRELOAD, Facts.opMAP, Facts.opMOVE,
      Facts.opINCMP, twoSym_fwd h1 h2]
  | msink =>
    simp only [decodeOne]
    rw [opSplit_u16be _ _ (by decide)]
    simp [Facts.opCATCH, Facts.opCROAK, Facts.opLOAD, Facts.opRELOAD, Facts.opMAP, Facts.opMOVE,
      Facts.opINCMP, Facts.opHALT, Facts.opMSINK]
  | mout h1 h2 =>
    simp only [List.append_assoc, decodeOne]
    rw [opSplit_u16be _ _ (by decide)]
    simp [Facts.opCATCH, Facts.opCROAK, Facts.opLOAD, Facts.opRELOAD, Facts.opMAP, Facts.opMOVE,
      Facts.opINCMP, Facts.opHALT, Facts.opMSINK, Facts.opMOUT, twoSym_fwd h1 h2]
  | mnext h1 h2 =>
    simp only [List.append_assoc, decodeOne]
    rw [opSplit_u16be _ _ (by decide)]
    simp [Facts.opCATCH, Facts.opCROAK, Facts.opLOAD, Facts.opRELOAD, Facts.opMAP, Facts.opMOVE,
      Facts.opINCMP, Facts.opHALT, Facts.opMSINK, Facts.opMOUT, Facts.opMNEXT, twoSym_fwd h1 h2]
  | mprev h1 h2 =>
    simp only [List.append_assoc, decodeOne]
    rw [opSplit_u16be _ _ (by decide)]
    simp [Facts.opCATCH, Facts.opCROAK, Facts.opLOAD, Facts.opRELOAD, Facts.opMAP, Facts.opMOVE,
      Facts.opINCMP, Facts.opHALT, Facts.opMSINK, Facts.opMOUT, Facts.opMNEXT, Facts.opMPREV,
      twoSym_fwd h1 h2]
  | noop =>
    simp only [decodeOne]
    rw [opSplit_u16be _ _ (by decide)]
    simp [Facts.opCATCH, Facts.opCROAK, Facts.opLOAD, Facts.opRELOAD, Facts.opMAP, Facts.opMOVE,
      Facts.opINCMP, Facts.opHALT, Facts.opMSINK, Facts.opMOUT, Facts.opMNEXT, Facts.opMPREV,
      Facts.opNOOP]

theorem decodeOne_sound {b r : Bytes} {i : Instr} (h : decodeOne b = .ok (i, r)) :
    ∃ p, ValidInstr p i ∧ b = p ++ r := by
  unfold decodeOne at h
  obtain ⟨⟨op, b1⟩, h1, h⟩ := bind_eq_ok.mp h
  obtain ⟨hb, hop⟩ := opSplit_inv h1
  simp only [] at h
  have hm : Facts.opMax = 12 := rfl
  by_cases ho0 : op = Facts.opCATCH
  · rw [if_pos ho0] at h
    have ho := ho0
    obtain ⟨⟨s, n, m, r'⟩, h2, h⟩ := bind_eq_ok.mp h
    simp at h; obtain ⟨hi, hr⟩ := h; subst hi; subst hr
    obtain ⟨e1, e2, e3, he1, he2, he3, hb1⟩ := symSig_inv h2
    exact ⟨_, .catch he1 he2 he3, by rw [hb, hb1, ho]; simp⟩
  rw [if_neg ho0] at h
  by_cases ho1 : op = Facts.opCROAK
  · rw [if_pos ho1] at h
    have ho := ho1
    obtain ⟨⟨n, m, r'⟩, h2, h⟩ := bind_eq_ok.mp h
    simp at h; obtain ⟨hi, hr⟩ := h; subst hi; subst hr
    obtain ⟨e2, e3, he2, he3, hb1⟩ := sig_inv h2
    exact ⟨_, .croak he2 he3, by rw [hb, hb1, ho]; simp⟩
  rw [if_neg ho1] at h
  by_cases ho2 : op = Facts.opLOAD
  · rw [if_pos ho2] at h
    have ho := ho2
    obtain ⟨⟨s, n, r'⟩, h2, h⟩ := bind_eq_ok.mp h
    simp at h; obtain ⟨hi, hr⟩ := h; subst hi; subst hr
    obtain ⟨e1, e2, he1, he2, hb1⟩ := symLen_inv h2
    exact ⟨_, .load he1 he2, by rw [hb, hb1, ho]; simp⟩
  rw [if_neg ho2] at h
  by_cases ho3 : op = Facts.opRELOAD
  · rw [if_pos ho3] at h
    have ho := ho3
    obtain ⟨⟨s, r'⟩, h2, h⟩ := bind_eq_ok.mp h
    simp at h; obtain ⟨hi, hr⟩ := h; subst hi; subst hr
    obtain ⟨e1, he1, hb1⟩ := sym_inv h2
    exact ⟨_, .reload he1, by rw [hb, hb1, ho]; simp⟩
  rw [if_neg ho3] at h
  by_cases ho4 : op = Facts.opMAP
  · rw [if_pos ho4] at h
    have ho := ho4
    obtain ⟨⟨s, r'⟩, h2, h⟩ := bind_eq_ok.mp h
    simp at h; obtain ⟨hi, hr⟩ := h; subst hi; subst hr
    obtain ⟨e1, he1, hb1⟩ := sym_inv h2
    exact ⟨_, .map he1, by rw [hb, hb1, ho]; simp⟩
  rw [if_neg ho4] at h
  by_cases ho5 : op = Facts.opMOVE
  · rw [if_pos ho5] at h
    have ho := ho5
    obtain ⟨⟨s, r'⟩, h2, h⟩ := bind_eq_ok.mp h
    simp at h; obtain ⟨hi, hr⟩ := h; subst hi; subst hr
    obtain ⟨e1, he1, hb1⟩ := sym_inv h2
    exact ⟨_, .move he1, by rw [hb, hb1, ho]; simp⟩
  rw [if_neg ho5] at h
  by_cases ho6 : op = Facts.opINCMP
  · rw [if_pos ho6] at h
    have ho := ho6
    obtain ⟨⟨s, v, r'⟩, h2, h⟩ := bind_eq_ok.mp h
    simp at h; obtain ⟨hi, hr⟩ := h; subst hi; subst hr
    obtain ⟨e1, e2, he1, he2, hb1⟩ := twoSym_inv h2
    exact ⟨_, .incmp he1 he2, by rw [hb, hb1, ho]; simp⟩
  rw [if_neg ho6] at h
  by_cases ho7 : op = Facts.opHALT
  · rw [if_pos ho7] at h
    have ho := ho7
    simp at h; obtain ⟨hi, hr⟩ := h; subst hi; subst hr
    exact ⟨_, .halt, by rw [hb, ho]⟩
  rw [if_neg ho7] at h
  by_cases ho8 : op = Facts.opMSINK
  · rw [if_pos ho8] at h
    have ho := ho8
    simp at h; obtain ⟨hi, hr⟩ := h; subst hi; subst hr
    exact ⟨_, .msink, by rw [hb, ho]⟩
  rw [if_neg ho8] at h
  by_cases ho9 : op = Facts.opMOUT
  · rw [if_pos ho9] at h
    have ho := ho9
    obtain ⟨⟨s, v, r'⟩, h2, h⟩ := bind_eq_ok.mp h
    simp at h; obtain ⟨hi, hr⟩ := h; subst hi; subst hr
    obtain ⟨e1, e2, he1, he2, hb1⟩ := twoSym_inv h2
    exact ⟨_, .mout he1 he2, by rw [hb, hb1, ho]; simp⟩
  rw [if_neg ho9] at h
  by_cases ho10 : op = Facts.opMNEXT
  · rw [if_pos ho10] at h
    have ho := ho10
    obtain ⟨⟨s, v, r'⟩, h2, h⟩ := bind_eq_ok.mp h
    simp at h; obtain ⟨hi, hr⟩ := h; subst hi; subst hr
    obtain ⟨e1, e2, he1, he2, hb1⟩ := twoSym_inv h2
    exact ⟨_, .mnext he1 he2, by rw [hb, hb1, ho]; simp⟩
  rw [if_neg ho10] at h
  by_cases ho11 : op = Facts.opMPREV
  · rw [if_pos ho11] at h
    have ho := ho11
    obtain ⟨⟨s, v, r'⟩, h2, h⟩ := bind_eq_ok.mp h
    simp at h; obtain ⟨hi, hr⟩ := h; subst hi; subst hr
    obtain ⟨e1, e2, he1, he2, hb1⟩ := twoSym_inv h2
    exact ⟨_, .mprev he1 he2, by rw [hb, hb1, ho]; simp⟩
  rw [if_neg ho11] at h
  by_cases ho12 : op = Facts.opNOOP
  · rw [if_pos ho12] at h
    have ho := ho12
    simp at h; obtain ⟨hi, hr⟩ := h; subst hi; subst hr
    exact ⟨_, .noop, by rw [hb, ho]⟩
  · rw [if_neg ho12] at h; cases h

theorem validInstr_length {p : Bytes} {i : Instr} (h : ValidInstr p i) : 2 ≤ p.length := by
  cases h <;> simp [u16be] <;> omega

theorem decodeOne_length {b r : Bytes} {i : Instr} (h : decodeOne b = .ok (i, r)) :
    r.length + 2 ≤ b.length := by
  obtain ⟨p, hp, hb⟩ := decodeOne_sound h
  have := validInstr_length hp
  rw [hb]; simp; omega

/-! ### parseAll against the specification -/

theorem parseAllF_sound (n : Nat) {b : Bytes} {is : List Instr} (h : parseAllF n b = .ok is) :
    ValidSeq b is := by
  induction n generalizing b is with
  | zero => simp [parseAllF] at h
  | succ n ih =>
    unfold parseAllF at h
    obtain ⟨⟨i, b'⟩, h1, h⟩ := bind_eq_ok.mp h
    obtain ⟨p, hp, hb⟩ := decodeOne_sound h1
    simp only [] at h
    split at h
    · next hl =>
      simp at h; subst h
      have : b' = [] := List.eq_nil_of_length_eq_zero hl
      subst this
      simp at hb; subst hb
      exact .single hp
    · obtain ⟨is', h2, h⟩ := bind_eq_ok.mp h
      simp at h; subst h
      rw [hb]
      exact .cons hp (ih h2)

theorem validSeq_length {b : Bytes} {is : List Instr} (h : ValidSeq b is) :
    2 * is.length ≤ b.length := by
  induction h with
  | single h => have := validInstr_length h; simp; omega
  | cons h _ ih => have := validInstr_length h; simp; omega

theorem parseAllF_complete {b : Bytes} {is : List Instr} (h : ValidSeq b is) (n : Nat)
    (hn : is.length ≤ n) : parseAllF n b = .ok is := by
  induction h generalizing n with
  | single h =>
    match n, hn with
    | n + 1, _ =>
      have := decodeOne_complete h []
      simp at this
      simp [parseAllF, this]
  | @cons b bs i is h hs ih =>
    match n, hn with
    | n + 1, hn =>
      have hl := validSeq_length hs
      have hne : is ≠ [] := by cases hs <;> simp
      have : 0 < is.length := List.length_pos_iff.mpr hne
      have hbs : bs ≠ [] := by intro h0; subst h0; simp at hl; omega
      simp [parseAllF, decodeOne_complete h bs, hbs, ih n (by simpa using hn)]


/-- once the fuel covers the input its amount is irrelevant. -/
theorem parseAllF_fuel (n m : Nat) (b : Bytes) (hn : b.length < n) (hm : b.length < m) :
    parseAllF n b = parseAllF m b := by
  induction n generalizing m b with
  | zero => omega
  | succ n ih =>
    match m, hm with
    | m + 1, hm =>
      unfold parseAllF
      cases hd : decodeOne b with
      | err k => rfl
      | panic s => rfl
      | ok v =>
        obtain ⟨i, c⟩ := v
        have hlen := decodeOne_length hd
        simp only [bind_ok, Bind.bind, Res.bind]
        split
        · rfl
        · rw [ih m c (by omega) (by omega)]

end Vise
