/-
  The cache invariant (C09) is kept by the ENGINE: Exec (init, first function, reset on empty input,
  the VM run, the end-of-code handling), Flush (render, unwinding) and whole request histories.
  Relational lemmas for the engine monad `EM`, on top of Lemmas/CacheKeeps for the VM.
-/
import Vise.Lemmas.CacheKeeps
import Vise.Lemmas.VmMonad
import Vise.Engine

namespace Vise
open EM

def EKeeps {α : Type} (R : Eng → Eng → Prop) (x : EM α) : Prop := ∀ e, R e (x e).2

structure EPre (R : Eng → Eng → Prop) : Prop where
  refl : ∀ e, R e e
  trans : ∀ a b c, R a b → R b c → R a c

namespace EKeeps
variable {α β : Type} {R : Eng → Eng → Prop}

theorem pure (hR : EPre R) (a : α) : EKeeps R (Pure.pure a : EM α) := fun e => hR.refl e
theorem fail (hR : EPre R) (k : String) (m : Bytes) : EKeeps R (EM.fail k m : EM α) := fun e => hR.refl e
theorem get (hR : EPre R) : EKeeps R EM.get := fun e => hR.refl e
theorem modify (f : Eng → Eng) (h : ∀ e, R e (f e)) : EKeeps R (EM.modify f) := fun e => h e
theorem raw (hR : EPre R) (r : VRes α) : EKeeps R (fun e => (r, e) : EM α) := fun e => hR.refl e

theorem bind (hR : EPre R) {x : EM α} {f : α → EM β} (hx : EKeeps R x) (hf : ∀ a, EKeeps R (f a)) :
    EKeeps R (x >>= f) := by
  intro e
  simp only [EM.bind_apply]
  have h1 := hx e
  rcases hr : x e with ⟨r, e'⟩
  rw [hr] at h1
  cases r with
  | ok a => exact hR.trans _ _ _ h1 (hf a e')
  | err k m => exact h1
  | panic p => exact h1

theorem attempt {x : EM α} (hx : EKeeps R x) : EKeeps R (EM.attempt x) := fun e => hx e

theorem ite {c : Prop} [Decidable c] {x y : EM α} (hx : EKeeps R x) (hy : EKeeps R y) :
    EKeeps R (if c then x else y) := by split <;> assumption

end EKeeps

/-- pointwise version (a handler reads the state with `get` and later writes something computed from it) -/
def EKeepsAt {α : Type} (R : Eng → Eng → Prop) (x : EM α) (e : Eng) : Prop := R e (x e).2

namespace EKeepsAt
variable {α β : Type} {R : Eng → Eng → Prop}

theorem of_keeps {x : EM α} (h : EKeeps R x) (e : Eng) : EKeepsAt R x e := h e

theorem bind (hR : EPre R) {x : EM α} {f : α → EM β} {e : Eng} (hx : EKeepsAt R x e)
    (hf : ∀ a e', x e = (.ok a, e') → EKeepsAt R (f a) e') : EKeepsAt R (x >>= f) e := by
  unfold EKeepsAt at *
  simp only [EM.bind_apply]
  rcases hr : x e with ⟨r, e'⟩
  rw [hr] at hx
  cases r with
  | ok a => exact hR.trans _ _ _ hx (hf a e' hr)
  | err k m => exact hx
  | panic p => exact hx

theorem get_bind (hR : EPre R) {f : Eng → EM β} {e : Eng} (hf : EKeepsAt R (f e) e) :
    EKeepsAt R (EM.get >>= f) e :=
  bind hR (hR.refl e) (fun a e' h => by simp at h; obtain ⟨h1, h2⟩ := h; subst h1; subst h2; exact hf)

theorem pure (hR : EPre R) (a : α) (e : Eng) : EKeepsAt R (Pure.pure a : EM α) e := hR.refl e
theorem fail (hR : EPre R) (k : String) (m : Bytes) (e : Eng) : EKeepsAt R (EM.fail k m : EM α) e := hR.refl e
theorem raw (hR : EPre R) (r : VRes α) (e : Eng) : EKeepsAt R (fun e => (r, e) : EM α) e := hR.refl e
theorem modify (f : Eng → Eng) (e : Eng) (h : R e (f e)) : EKeepsAt R (EM.modify f) e := h

end EKeepsAt

theorem EKeeps.of_at {α} {R : Eng → Eng → Prop} {x : EM α} (h : ∀ e, EKeepsAt R x e) : EKeeps R x := h

/-- "if the engine's cache was a valid cache of capacity `c`, it still is" -/
def ECacheR (c : Nat) (e e' : Eng) : Prop :=
  (Cache.Inv e.vm.ca ∧ e.vm.ca.cacheSize = c) → (Cache.Inv e'.vm.ca ∧ e'.vm.ca.cacheSize = c)

theorem eCacheR_pre (c : Nat) : EPre (ECacheR c) := ⟨fun _ h => h, fun _ _ _ h1 h2 h => h2 (h1 h)⟩

/-- a VM computation that keeps the invariant keeps it when run inside the engine -/
theorem EKeeps.vm {α} {c : Nat} {x : VM α} (h : Keeps (CacheInvR c) x) : EKeeps (ECacheR c) (EM.vm x) := by
  intro e hi
  simp only [EM.vm_apply]
  exact h e.vm hi

/-- an engine update that does not touch the cache -/
theorem EKeeps.modify_same {c : Nat} (f : Eng → Eng) (h : ∀ e, (f e).vm.ca = e.vm.ca) :
    EKeeps (ECacheR c) (EM.modify f) := by
  intro e hi; simp only [EM.modify_apply]; rw [h e]; exact hi

/-! ### the VM's render -/

theorem renderM_sameCache (env : Env) (lang : Option Bytes) (sym : Bytes) (idx : Nat) :
    Keeps SameCache (renderM env lang sym idx) := by
  intro s
  unfold renderM SameCache
  simp only [VM.bind_apply, VM.get_apply, logLookup, VM.modify_apply]
  cases s.pg.renderPage (renderEnv env lang) s.ca sym idx with
  | ok rp => obtain ⟨r, pg⟩ := rp; simp
  | err k => simp [VM.fail]
  | panic p => simp [VM.vpanic]

theorem vmRender_keeps (c : Nat) (env : Env) (hb : EnvBounded env c) (fuel : Nat) (lang : Option Bytes) :
    Keeps (CacheInvR c) (vmRender env fuel lang) := by
  have P := cacheInvR_preord c
  have S := fun {α} {x : VM α} (h : Keeps SameCache x) => (Keeps.of_sameCache (c := c) h)
  unfold vmRender
  apply Keeps.bind P (S (flagOps_sameCache _).2.1); intro _
  apply Keeps.ite
  · exact Keeps.pure P _
  apply Keeps.bind P (Keeps.get P); intro _
  apply Keeps.ite
  · exact Keeps.pure P _
  apply Keeps.bind P (Keeps.attempt (S (renderM_sameCache _ _ _ _))); intro r
  split
  · apply Keeps.bind P (S vmReset_sameCache); intro _
    apply Keeps.bind P (Keeps.attempt (runLoop_keeps c env hb _ _ _)); intro _
    apply Keeps.bind P (Keeps.get P); intro _
    exact S (renderM_sameCache _ _ _ _)
  · exact Keeps.fail P _ _
  · exact Keeps.vpanic P _
  · exact Keeps.pure P _

/-! ### the engine -/

/-- `modify g >>= f` where `g` visibly leaves the cache alone -/
macro "ekeeps_modify_same " P:term : tactic =>
  `(tactic| (refine EKeeps.bind $P (EKeeps.modify_same _ ?_) ?_; · exact fun _ => rfl))

theorem setCode_keeps (c : Nat) (code : Bytes) : EKeeps (ECacheR c) (setCode code) := by
  have P := eCacheR_pre c
  unfold setCode
  ekeeps_modify_same P
  intro _
  apply EKeeps.ite
  · apply EKeeps.bind P (EKeeps.vm (Keeps.of_sameCache ((flagOps_sameCache _).2.2.2 _))); intro d
    dsimp only
    apply EKeeps.ite
    · apply EKeeps.bind P
      · refine EKeeps.modify _ (fun e hi => ?_)
        exact ⟨Cache.inv_last e.vm.ca hi.1, hi.2⟩
      · intro _; exact EKeeps.pure P _
    · exact EKeeps.pure P _
  · exact EKeeps.pure P _

theorem resetTail_keeps (c : Nat) : EKeeps (ECacheR c) (do
    let _ ← vm (resetFlagM Facts.terminateFlag)
    let _ ← vm (resetFlagM Facts.dirtyFlag)
    pure () : EM Unit) := by
  have P := eCacheR_pre c
  apply EKeeps.bind P (EKeeps.vm (Keeps.of_sameCache (flagOps_sameCache _).2.1)); intro _
  apply EKeeps.bind P (EKeeps.vm (Keeps.of_sameCache (flagOps_sameCache _).2.1)); intro _
  exact EKeeps.pure P _

theorem engReset_keeps (c : Nat) (fuel : Nat) : EKeeps (ECacheR c) (engReset fuel) := by
  have P := eCacheR_pre c
  induction fuel with
  | zero => unfold engReset; exact EKeeps.pure P _
  | succ fuel ih =>
    apply EKeeps.of_at; intro e
    unfold engReset
    apply EKeepsAt.get_bind P
    split
    · exact EKeepsAt.fail P _ _ _
    · exact EKeepsAt.raw P _ _
    · next isTop _ =>
      dsimp only
      -- after Up and Pop (or the failure of Up): the top test
      have hjp : ∀ e', EKeepsAt (ECacheR c) (if isTop = true then (do
            let e ← EM.get
            match e.vm.st.restart with
              | .ok st' => do
                EM.modify fun e => { e with vm := { e.vm with st := st' } }
                let _ ← vm (resetFlagM Facts.terminateFlag)
                let _ ← vm (resetFlagM Facts.dirtyFlag)
                pure ()
              | _ => do
                let _ ← vm (resetFlagM Facts.terminateFlag)
                let _ ← vm (resetFlagM Facts.dirtyFlag)
                pure () : EM Unit)
          else engReset fuel) e' := by
        intro e'
        split
        · apply EKeepsAt.get_bind P
          split
          · apply EKeepsAt.bind P (EKeepsAt.modify _ _ (fun hi => hi)); intro _ e2 _
            exact resetTail_keeps c e2
          · exact resetTail_keeps c e'
        · exact ih e'
      split
      · apply EKeepsAt.bind P
        · exact EKeepsAt.modify _ _ (fun hi => pop_ok' c e.vm.ca hi.1 hi.2)
        · intro _ e' _; exact hjp e'
      · apply EKeepsAt.bind P (EKeepsAt.fail P _ _ _); intro _ e' _; exact hjp e'

theorem flush_keeps (c : Nat) (env : Env) (hb : EnvBounded env c) (cfg : Cfg) :
    EKeeps (ECacheR c) (flush env cfg) := by
  have P := eCacheR_pre c
  unfold flush
  apply EKeeps.bind P (EKeeps.get P); intro e0
  apply EKeeps.ite
  · exact EKeeps.fail P _ _
  dsimp only
  apply EKeeps.bind P (EKeeps.attempt (EKeeps.vm (vmRender_keeps c env hb _ _))); intro r
  apply EKeeps.bind P (EKeeps.get P); intro e1
  have tail : ∀ out : Bytes, EKeeps (ECacheR c) (if e1.exiting = true then (do
        let _ ← (engReset (e1.vm.st.execPath.length + 2)).attempt
        EM.modify fun e => { e with exiting := false }
        pure (out ++ e1.exit) : EM Bytes)
      else pure (out ++ e1.exit)) := by
    intro out
    apply EKeeps.ite
    · apply EKeeps.bind P (EKeeps.attempt (engReset_keeps c _)); intro _
      ekeeps_modify_same P
      intro _
      exact EKeeps.pure P _
    · exact EKeeps.pure P _
  split
  · exact EKeeps.bind P (EKeeps.pure P _) (fun out => tail out)
  · exact EKeeps.bind P (EKeeps.raw P _) (fun out => tail out)
  · apply EKeeps.ite
    · exact EKeeps.bind P (EKeeps.fail P _ _) (fun out => tail out)
    · exact EKeeps.bind P (EKeeps.pure P _) (fun out => tail out)

theorem engResetForce_keeps (c : Nat) (cfg : Cfg) : EKeeps (ECacheR c) (engResetForce cfg) := by
  have P := eCacheR_pre c
  unfold engResetForce
  apply EKeeps.bind P (EKeeps.get P); intro e0
  apply EKeeps.ite
  · exact EKeeps.pure P _
  apply EKeeps.ite
  · exact EKeeps.fail P _ _
  ekeeps_modify_same P
  intro _
  apply EKeeps.bind P (EKeeps.get P); intro e1
  exact engReset_keeps c _

theorem runLoop_pair (c : Nat) (env : Env) (hb : EnvBounded env c) (fuel : Nat) (lang : Option Bytes) (b : Bytes)
    (s : VmSt) (r : VRes Bytes) (s' : VmSt) (h : runLoop env fuel lang b s = (r, s'))
    (hi : Cache.Inv s.ca ∧ s.ca.cacheSize = c) : Cache.Inv s'.ca ∧ s'.ca.cacheSize = c := by
  have := runLoop_keeps c env hb fuel lang b s hi
  rw [h] at this; exact this

/-- the deferred calls of `runFirst`: reset DIRTY and TERMINATE, `Up`, `Pop`, the page index put back -/
theorem firstFinish_keeps (c : Nat) (idx0 : Nat) : EKeeps (ECacheR c) (firstFinish idx0) := by
  have P := eCacheR_pre c
  unfold firstFinish
  apply EKeeps.bind P (EKeeps.vm (Keeps.of_sameCache (flagOps_sameCache _).2.1)); intro _
  apply EKeeps.bind P (EKeeps.vm (Keeps.of_sameCache (flagOps_sameCache _).2.1)); intro _
  apply EKeeps.bind P (EKeeps.get P); intro e
  dsimp only
  have last : EKeeps (ECacheR c) (do
      EM.modify fun e => { e with vm := { e.vm with ca := e.vm.ca.pop.1 } }
      EM.modify fun e => { e with vm := { e.vm with st := { e.vm.st with sizeIdx := idx0 } } } : EM Unit) :=
    EKeeps.bind P (EKeeps.modify _ (fun e hi => pop_ok' c e.vm.ca hi.1 hi.2)) (fun _ => EKeeps.modify_same _ (fun _ => rfl))
  split
  · exact EKeeps.bind P (EKeeps.modify_same _ (fun _ => rfl)) (fun _ => last)
  · exact last

/-- the results of the engine's `first` function are bounded like every other external result -/
def FirstBounded (env : Env) (c : Nat) : Prop :=
  ∀ fn, env.first = some fn → ∀ n input lang, (fn n input lang).content.length + c < U32

theorem runFirstBody_keeps (c : Nat) (env : Env) (hf : FirstBounded env c) (cfg : Cfg)
    (fn : Nat → Option Bytes → Option Bytes → ExtResult) (hfn : env.first = some fn) :
    EKeeps (ECacheR c) (runFirstBody env cfg fn) := by
  have P := eCacheR_pre c
  apply EKeeps.of_at; intro e
  unfold runFirstBody
  · apply EKeepsAt.get_bind P
    dsimp only
    split
    · exact EKeepsAt.raw P _ _
    · exact EKeepsAt.fail P _ _ _
    · next st' _ =>
      apply EKeepsAt.bind P
      · exact EKeepsAt.modify _ _ (fun hi => push_ok c e.vm.ca hi.1 hi.2)
      · intro _ e1 _
        apply EKeepsAt.get_bind P
        generalize hrl : runLoop _ _ _ _ _ = rl
        obtain ⟨r, pvm'⟩ := rl
        dsimp only
        have hk := runLoop_pair c _ ?hb _ _ _ _ r pvm' hrl
        case hb =>
          intro n sym input lang r' h
          by_cases hs : sym = [95, 102, 105, 114, 115, 116]
          · simp only [hs, if_true, Option.some.injEq] at h
            subst h; exact hf fn hfn n input lang
          · simp [hs] at h
        apply EKeepsAt.bind P
        · exact EKeepsAt.modify _ _ (fun hi => hk hi)
        · intro _ e2 _
          have fin := firstFinish_keeps c e.vm.st.sizeIdx
          split
          · exact EKeepsAt.raw P _ _
          · exact EKeepsAt.bind P (fin e2) (fun _ e3 _ => EKeepsAt.fail P _ _ _)
          · split
            · apply EKeepsAt.bind P (EKeepsAt.modify _ _ (fun hi => hi)); intro _ e3 _
              exact EKeepsAt.bind P (fin e3) (fun _ e4 _ => EKeepsAt.fail P _ _ _)
            · apply EKeepsAt.bind P (EKeepsAt.of_keeps (EKeeps.vm (Keeps.of_sameCache ((flagOps_sameCache _).2.2.2 _))) _)
              intro t e3 _
              split
              · apply EKeepsAt.bind P
                · exact EKeepsAt.modify _ _ (fun hi => ⟨Cache.inv_last e3.vm.ca hi.1, hi.2⟩)
                · intro _ e4 _
                  exact EKeepsAt.bind P (fin e4) (fun _ e5 _ => EKeepsAt.pure P _ _)
              · exact EKeepsAt.bind P (fin e3) (fun _ e4 _ => EKeepsAt.pure P _ _)

theorem runFirst_keeps (c : Nat) (env : Env) (hf : FirstBounded env c) (cfg : Cfg) :
    EKeeps (ECacheR c) (runFirst env cfg) := by
  have P := eCacheR_pre c
  unfold runFirst
  split
  · exact EKeeps.pure P _
  · next fn hfn =>
    apply EKeeps.bind P (EKeeps.vm (Keeps.of_sameCache ((flagOps_sameCache _).2.2.2 _))); intro t
    apply EKeeps.ite
    · exact EKeeps.bind P (EKeeps.modify_same _ (fun _ => rfl)) (fun _ => EKeeps.pure P _)
    · exact runFirstBody_keeps c env hf cfg fn hfn

/-- structural automation for the big engine functions: binds, conditionals, matches, and the leaves proved above -/
macro "ekeeps_auto" : tactic => `(tactic| repeat' (first
  | exact EKeeps.pure (eCacheR_pre _) _
  | exact EKeeps.fail (eCacheR_pre _) _ _
  | exact EKeeps.raw (eCacheR_pre _) _
  | exact EKeeps.get (eCacheR_pre _)
  | exact EKeeps.modify_same _ (fun _ => rfl)
  | exact flush_keeps _ _ (by assumption) _
  | exact runFirst_keeps _ _ (by assumption) _
  | exact setCode_keeps _ _
  | exact engResetForce_keeps _ _
  | exact EKeeps.vm (runLoop_keeps _ _ (by assumption) _ _ _)
  | exact EKeeps.vm (Keeps.of_sameCache ((flagOps_sameCache _).2.2.2 _))
  | apply EKeeps.ite
  | refine EKeeps.bind (eCacheR_pre _) ?_ (fun _ => ?_)
  | split))

set_option maxHeartbeats 4000000 in
theorem engInit_keeps (c : Nat) (env : Env) (hb : EnvBounded env c) (hf : FirstBounded env c) (cfg : Cfg)
    (input : Bytes) : EKeeps (ECacheR c) (engInit env cfg input) := by
  unfold engInit
  ekeeps_auto

set_option maxHeartbeats 4000000 in
theorem exec_keeps (c : Nat) (env : Env) (hb : EnvBounded env c) (hf : FirstBounded env c) (cfg : Cfg)
    (input : Bytes) : EKeeps (ECacheR c) (exec env cfg input) := by
  have hinit := engInit_keeps c env hb hf cfg input
  unfold exec
  repeat' (first
    | exact hinit
    | exact EKeeps.pure (eCacheR_pre _) _
    | exact EKeeps.fail (eCacheR_pre _) _ _
    | exact EKeeps.raw (eCacheR_pre _) _
    | exact EKeeps.get (eCacheR_pre _)
    | exact EKeeps.modify_same _ (fun _ => rfl)
    | exact setCode_keeps _ _
    | exact engResetForce_keeps _ _
    | exact EKeeps.vm (runLoop_keeps _ _ hb _ _ _)
    | exact EKeeps.vm (Keeps.of_sameCache ((flagOps_sameCache _).2.2.2 _))
    | apply EKeeps.ite
    | refine EKeeps.bind (eCacheR_pre _) ?_ (fun _ => ?_)
    | split)

/-- **One request keeps the cache a valid cache**: Exec followed by Flush, on any engine state. -/
theorem request_keeps (c : Nat) (env : Env) (hb : EnvBounded env c) (hf : FirstBounded env c) (cfg : Cfg)
    (e : Eng) (input : Bytes) (hi : Cache.Inv e.vm.ca ∧ e.vm.ca.cacheSize = c) :
    Cache.Inv (request env cfg e input).2.vm.ca ∧ (request env cfg e input).2.vm.ca.cacheSize = c := by
  unfold request
  have h1 := exec_keeps c env hb hf cfg input e hi
  rcases hx : exec env cfg input e with ⟨r, e1⟩
  rw [hx] at h1
  have h2 := flush_keeps c env hb cfg e1 h1
  rcases hfl : flush env cfg e1 with ⟨r2, e2⟩
  rw [hfl] at h2
  cases r with
  | ok cont =>
    simp only [hfl]
    cases r2 <;> exact h2
  | panic p => exact h1
  | err k m =>
    split
    · next heq => cases heq
    · next heq => simp at heq; obtain ⟨_, rfl⟩ := heq; exact h1
    · next heq => simp at heq; obtain ⟨_, rfl⟩ := heq; exact h1

/-- **A long-lived engine keeps its cache a valid cache through every history** — every input sequence, every
application (also malformed bytecode), with or without an entry function, reset-on-empty-input or not. -/
theorem longRun_keeps (c : Nat) (env : Env) (hb : EnvBounded env c) (hf : FirstBounded env c) (cfg : Cfg)
    (inputs : List Bytes) : ∀ (e : Eng), (Cache.Inv e.vm.ca ∧ e.vm.ca.cacheSize = c) →
      Cache.Inv (longRun env cfg e inputs).2.vm.ca ∧ (longRun env cfg e inputs).2.vm.ca.cacheSize = c := by
  induction inputs with
  | nil => intro e hi; simpa [longRun] using hi
  | cons i is ih =>
    intro e hi
    have h1 := request_keeps c env hb hf cfg e i hi
    simp only [longRun]
    exact ih _ h1

end Vise
