/-
  Frame lemmas for flag operations on a VM state whose flag field is well-formed
  (`FlagsOk`: at least the 8 built-in flags, and the bit list covers `bitSize`).
-/
import Vise.Lemmas.VmMonad

namespace Vise
open VM

def FlagsOk (st : St) : Prop := 8 ≤ st.bitSize ∧ st.bitSize ≤ st.flags.length

theorem flagsOk_new (n : Nat) (h : n + 8 < 2040) : FlagsOk (St.new n) := by
  unfold FlagsOk St.new St.toByteSize
  have h1 : (n + 8) % 4294967296 = n + 8 := by omega
  simp only [h1]
  have h2 : ¬ (n + 8 = 0) := by omega
  simp only [h2, if_false, List.length_replicate]
  refine ⟨by omega, ?_⟩
  split <;> omega

theorem getFlag_of_ok (st : St) (h : FlagsOk st) (i : Nat) (hi : i < st.bitSize) :
    ∃ b, st.getFlag i = .ok b ∧ st.flags[i]? = some b := by
  have hl : i < st.flags.length := by unfold FlagsOk at h; omega
  have hg : st.flags[i]? = some st.flags[i] := List.getElem?_eq_getElem hl
  refine ⟨st.flags[i], ?_, hg⟩
  unfold St.getFlag
  have : ¬ i + 1 > st.bitSize := by omega
  simp [this, hg]

theorem set_self_of_getElem? {α} (l : List α) (i : Nat) (a : α) (h : l[i]? = some a) : l.set i a = l := by
  induction l generalizing i with
  | nil => simp
  | cons x xs ih =>
    cases i with
    | zero => simp at h; subst h; simp
    | succ i => simp at h; simp [ih i h]

/-- setting an in-range flag: succeeds, and the state is the old one with that bit set -/
theorem setFlagM_frame (s : VmSt) (h : FlagsOk s.st) (i : Nat) (hi : i < s.st.bitSize) :
    ∃ c, setFlagM i s = (.ok c, { s with st := { s.st with flags := s.st.flags.set i true } }) := by
  obtain ⟨b, hb, hg⟩ := getFlag_of_ok s.st h i hi
  unfold setFlagM
  simp only [VM.bind_apply, VM.get_apply, St.setFlag, hb, Res.bind_ok]
  cases b with
  | true =>
    refine ⟨false, ?_⟩
    simp [set_self_of_getElem? _ _ _ hg]
  | false => exact ⟨true, by simp⟩

theorem resetFlagM_frame (s : VmSt) (h : FlagsOk s.st) (i : Nat) (hi : i < s.st.bitSize) :
    ∃ c, resetFlagM i s = (.ok c, { s with st := { s.st with flags := s.st.flags.set i false } }) ∧
      s.st.flags[i]? = some c := by
  obtain ⟨b, hb, hg⟩ := getFlag_of_ok s.st h i hi
  unfold resetFlagM
  simp only [VM.bind_apply, VM.get_apply, St.resetFlag, hb, Res.bind_ok]
  cases b with
  | false =>
    refine ⟨false, ?_, hg⟩
    simp [set_self_of_getElem? _ _ _ hg]
  | true => exact ⟨true, by simp, hg⟩

theorem flagsOk_set (st : St) (h : FlagsOk st) (i : Nat) (v : Bool) :
    FlagsOk { st with flags := st.flags.set i v } := by
  unfold FlagsOk at *; simpa using h

theorem getFlag_set_self (st : St) (h : FlagsOk st) (i : Nat) (hi : i < st.bitSize) (v : Bool) :
    ({ st with flags := st.flags.set i v } : St).getFlag i = .ok v := by
  have hl : i < st.flags.length := by unfold FlagsOk at h; omega
  unfold St.getFlag
  have : ¬ i + 1 > st.bitSize := by omega
  simp [this, hl]

theorem getFlag_set_other (st : St) (i j : Nat) (hij : j ≠ i) (v : Bool) :
    ({ st with flags := st.flags.set i v } : St).getFlag j = st.getFlag j := by
  unfold St.getFlag
  simp [List.getElem?_set_ne (Ne.symm hij)]

theorem getFlagM_eq (s : VmSt) (i : Nat) (b : Bool) (h : s.st.getFlag i = .ok b) :
    getFlagM i s = (.ok b, s) := by
  unfold getFlagM; simp [h]

theorem matchFlagM_eq (s : VmSt) (i : Nat) (b mode : Bool) (h : s.st.getFlag i = .ok b) :
    matchFlagM i mode s = (.ok (mode == b), s) := by
  unfold matchFlagM; simp [getFlagM_eq s i b h]

/-- equational form: the returned "changed" bit is determined by the old value -/
theorem setFlagM_eq (s : VmSt) (h : FlagsOk s.st) (i : Nat) (hi : i < s.st.bitSize) :
    setFlagM i s = (.ok (!(s.st.flags[i]?.getD false)),
      { s with st := { s.st with flags := s.st.flags.set i true } }) := by
  obtain ⟨b, hb, hg⟩ := getFlag_of_ok s.st h i hi
  unfold setFlagM
  simp only [VM.bind_apply, VM.get_apply, St.setFlag, hb, Res.bind_ok, hg]
  cases b <;> simp [set_self_of_getElem? _ _ _ hg]

theorem resetFlagM_eq (s : VmSt) (h : FlagsOk s.st) (i : Nat) (hi : i < s.st.bitSize) :
    resetFlagM i s = (.ok (s.st.flags[i]?.getD false),
      { s with st := { s.st with flags := s.st.flags.set i false } }) := by
  obtain ⟨b, hb, hg⟩ := getFlag_of_ok s.st h i hi
  unfold resetFlagM
  simp only [VM.bind_apply, VM.get_apply, St.resetFlag, hb, Res.bind_ok, hg]
  cases b <;> simp [set_self_of_getElem? _ _ _ hg]

end Vise
