/-
  The shape of the flag array (bit size, length) is never changed by a VM computation: `Vm.Run` keeps it for
  every program, so `FlagsOk` - the precondition of the flag theorems - holds in every reachable state.
  (Third walk over every instruction handler, after Lemmas/CacheKeeps and Lemmas/SizeKeeps.)
-/
import Vise.Lemmas.Keeps
import Vise.Lemmas.Flags
import Vise.Vm

namespace Vise
open VM

def SameShape (s s' : VmSt) : Prop :=
  s'.st.bitSize = s.st.bitSize ∧ s'.st.flags.length = s.st.flags.length

theorem sameShape_preord : PreOrd SameShape :=
  ⟨fun _ => ⟨rfl, rfl⟩, fun _ _ _ h1 h2 => ⟨h2.1.trans h1.1, h2.2.trans h1.2⟩⟩

theorem flagsOk_of_shape {s s' : VmSt} (h : SameShape s s') (hf : FlagsOk s.st) : FlagsOk s'.st := by
  unfold FlagsOk at *; rw [h.1, h.2]; exact hf

/-- `modify g >>= f` where `g` visibly leaves the state's flags alone -/
macro "keeps_modify_shape " P:term : tactic =>
  `(tactic| (refine Keeps.bind_modify $P ?_ ?_; · exact fun _ => ⟨rfl, rfl⟩))

theorem up_shape (st st' : St) (sym : Bytes) (h : st.up = .ok (sym, st')) :
    st'.bitSize = st.bitSize ∧ st'.flags.length = st.flags.length := by
  unfold St.up at h; split at h
  · cases h
  · cases h; exact ⟨rfl, rfl⟩

theorem down_shape (st st' : St) (sym : Bytes) (h : st.down sym = .ok st') :
    st'.bitSize = st.bitSize ∧ st'.flags.length = st.flags.length := by
  unfold St.down at h; split at h
  · cases h
  · split at h
    · cases h
    · cases h; exact ⟨rfl, rfl⟩

theorem next_shape (st st' : St) (i : Nat) (h : st.next = .ok (i, st')) :
    st'.bitSize = st.bitSize ∧ st'.flags.length = st.flags.length := by
  unfold St.next at h; split at h
  · cases h
  · cases h; exact ⟨rfl, rfl⟩

theorem previous_shape (st st' : St) (i : Nat) (h : st.previous = .ok (i, st')) :
    st'.bitSize = st.bitSize ∧ st'.flags.length = st.flags.length := by
  unfold St.previous at h; split at h
  · cases h
  · split at h
    · cases h
    · cases h; exact ⟨rfl, rfl⟩

theorem setLanguageSt_shape (f : Bytes → Option Bytes) (st : St) (code : Bytes) :
    (st.setLanguageSt f code).bitSize = st.bitSize ∧ (st.setLanguageSt f code).flags.length = st.flags.length := by
  unfold St.setLanguageSt
  split <;> split <;> exact ⟨rfl, rfl⟩

theorem setFlagM_shape (f : Nat) : Keeps SameShape (setFlagM f) := by
  intro s
  unfold setFlagM SameShape
  simp only [VM.bind_apply, VM.get_apply, St.setFlag]
  cases hg : s.st.getFlag f with
  | ok b => cases b <;> simp
  | err k => simp
  | panic p => simp

theorem resetFlagM_shape (f : Nat) : Keeps SameShape (resetFlagM f) := by
  intro s
  unfold resetFlagM SameShape
  simp only [VM.bind_apply, VM.get_apply, St.resetFlag]
  cases hg : s.st.getFlag f with
  | ok b => cases b <;> simp
  | err k => simp
  | panic p => simp

theorem getFlagM_shape (f : Nat) : Keeps SameShape (getFlagM f) := by
  unfold getFlagM
  exact Keeps.bind sameShape_preord (Keeps.get sameShape_preord) (fun _ => Keeps.lift sameShape_preord _ _)

theorem matchFlagM_shape (f : Nat) (m : Bool) : Keeps SameShape (matchFlagM f m) := by
  unfold matchFlagM
  exact Keeps.bind sameShape_preord (getFlagM_shape f) (fun _ => Keeps.pure sameShape_preord _)

theorem flagOps_shape (f : Nat) : Keeps SameShape (setFlagM f) ∧ Keeps SameShape (resetFlagM f) ∧
    Keeps SameShape (getFlagM f) ∧ (∀ m, Keeps SameShape (matchFlagM f m)) :=
  ⟨setFlagM_shape f, resetFlagM_shape f, getFlagM_shape f, fun m => matchFlagM_shape f m⟩

theorem applyFlagList_shape (setTo : Bool) (l : List Nat) : Keeps SameShape (applyFlagList setTo l) := by
  induction l with
  | nil => exact Keeps.pure sameShape_preord _
  | cons f fs ih =>
    unfold applyFlagList
    apply Keeps.bind sameShape_preord
    · apply Keeps.ite
      · cases setTo
        · exact resetFlagM_shape f
        · exact setFlagM_shape f
      · exact Keeps.pure sameShape_preord _
    · intro _; exact ih

theorem logLookup_shape (k : String) (sym : Bytes) (l : Option Bytes) : Keeps SameShape (logLookup k sym l) :=
  Keeps.modify _ (fun _ => ⟨rfl, rfl⟩)

theorem refresh_shape (env : Env) (lang : Option Bytes) (key : Bytes) : Keeps SameShape (refresh env lang key) := by
  have P := sameShape_preord
  unfold refresh
  apply Keeps.bind P (Keeps.get P); intro s
  apply Keeps.bind P (logLookup_shape _ _ _); intro _
  dsimp only
  split
  · exact Keeps.fail P _ _
  · next r _ =>
    apply Keeps.bind P
    · exact Keeps.modify _ (fun _ => ⟨rfl, rfl⟩)
    intro _
    unfold refreshTail
    apply Keeps.ite
    · apply Keeps.bind P (setFlagM_shape _); intro _
      exact Keeps.fail P _ _
    · apply Keeps.bind P (applyFlagList_shape _ _); intro _
      apply Keeps.bind P (applyFlagList_shape _ _); intro _
      apply Keeps.bind P (matchFlagM_shape _ _); intro hl
      apply Keeps.bind P
      · exact Keeps.modify _ (fun s => by
          split
          · exact setLanguageSt_shape _ _ _
          · exact ⟨rfl, rfl⟩)
      · intro _; exact Keeps.pure P _

theorem rewind_shape (fuel : Nat) (sym : Bytes) : Keeps SameShape (rewind fuel sym) := by
  have P := sameShape_preord
  induction fuel generalizing sym with
  | zero => exact Keeps.pure P _
  | succ fuel ih =>
    apply Keeps.of_at; intro s
    unfold rewind
    apply KeepsAt.get_bind P
    split
    · exact KeepsAt.pure P _ _
    · split
      · next sym' st' heq =>
        apply KeepsAt.bind P
        · exact KeepsAt.modify _ _ (up_shape _ _ _ heq)
        · intro _ s' _
          split
          · exact ih _ s'
          · exact KeepsAt.pure P _ _
      · exact KeepsAt.pure P _ _

theorem vmReset_shape : Keeps SameShape vmReset := fun s => by
  simp [vmReset, SameShape]

theorem logMove_shape (k : String) (t : Bytes) : Keeps SameShape (logMove k t) := fun s => by
  simp [logMove, SameShape]

theorem getCodeM_shape (env : Env) (lang : Option Bytes) (sym : Bytes) :
    Keeps SameShape (getCodeM env lang sym) := by
  have P := sameShape_preord
  unfold getCodeM
  apply Keeps.bind P (logLookup_shape _ _ _); intro _
  split
  · exact Keeps.pure P _
  · exact Keeps.fail P _ _

theorem pageMapM_shape (sym : Bytes) : Keeps SameShape (pageMapM sym) := by
  intro s
  unfold pageMapM SameShape
  simp only [VM.bind_apply, VM.get_apply]
  cases h : s.pg.map s.ca sym <;> simp [VM.fail, VM.vpanic]

theorem decodeErr_shape {α} (r : Res α) : Keeps SameShape (decodeErr r) := Keeps.lift sameShape_preord _ _

theorem runMenuOps_shape (b : Bytes) : Keeps SameShape (runMSink b) ∧ Keeps SameShape (runMOut b) ∧
    Keeps SameShape (runMNext b) ∧ Keeps SameShape (runMPrev b) ∧ Keeps SameShape (runHalt b) := by
  have P := sameShape_preord
  refine ⟨?_, ?_, ?_, ?_, ?_⟩
  · unfold runMSink
    keeps_modify_shape P
    exact Keeps.pure P _
  · unfold runMOut
    apply Keeps.bind P (decodeErr_shape _); intro _
    keeps_modify_shape P
    exact Keeps.pure P _
  · unfold runMNext
    apply Keeps.bind P (decodeErr_shape _); intro _
    keeps_modify_shape P
    exact Keeps.pure P _
  · unfold runMPrev
    apply Keeps.bind P (decodeErr_shape _); intro _
    keeps_modify_shape P
    exact Keeps.pure P _
  · unfold runHalt
    exact Keeps.bind P (flagOps_shape _).1 (fun _ => Keeps.pure P _)

theorem runMap_shape (b : Bytes) : Keeps SameShape (runMap b) := by
  have P := sameShape_preord
  unfold runMap
  dsimp only
  exact Keeps.bind P (pageMapM_shape _) (fun _ => Keeps.pure P _)

theorem runErrCheck_shape (k : String) (m : Bytes) (o : Bool) : Keeps SameShape (runErrCheck k m o) := by
  have P := sameShape_preord
  unfold runErrCheck
  keeps_modify_shape P
  apply Keeps.bind P ((flagOps_shape _).2.2.2 _); intro _
  apply Keeps.ite
  · exact Keeps.fail P _ _
  · exact Keeps.pure P _

theorem runDeadCheck_shape : Keeps SameShape runDeadCheck := by
  have P := sameShape_preord
  unfold runDeadCheck
  apply Keeps.bind P ((flagOps_shape _).2.2.2 _); intro _
  apply Keeps.ite
  · exact Keeps.bind P (flagOps_shape _).1 (fun _ => Keeps.pure P _)
  · apply Keeps.bind P ((flagOps_shape _).2.2.2 _); intro _
    apply Keeps.ite
    · exact Keeps.pure P _
    · apply Keeps.bind P (Keeps.get P); intro _
      dsimp only
      apply Keeps.ite
      · exact Keeps.fail P _ _
      · apply Keeps.ite
        · exact Keeps.fail P _ _
        · keeps_modify_shape P
          exact Keeps.pure P _

theorem lift_ok {α} (r : Res α) (msg : String → Bytes) (s s1 : VmSt) (a : α)
    (h : VM.lift r msg s = (.ok a, s1)) : r = .ok a ∧ s1 = s := by
  unfold VM.lift at h
  cases r with
  | ok x => simp at h; exact ⟨by rw [h.1], h.2.symm⟩
  | err k => simp at h
  | panic p => simp at h

theorem applyTarget_shape (t : Bytes) : Keeps SameShape (applyTarget t) := by
  have P := sameShape_preord
  apply Keeps.of_at; intro s
  unfold applyTarget
  apply KeepsAt.get_bind P
  dsimp only
  split
  · exact KeepsAt.fail P _ _ _
  split
  · apply KeepsAt.bind P (KeepsAt.of_keeps (Keeps.lift P _ _) _); intro a s1 h1
    obtain ⟨hr, hs⟩ := lift_ok _ _ _ _ _ h1
    subst hs
    apply KeepsAt.bind P (KeepsAt.modify _ _ (up_shape _ _ _ hr)); intro _ s2 h2
    apply KeepsAt.get_bind P
    apply KeepsAt.bind P (KeepsAt.modify _ _ ⟨rfl, rfl⟩); intro _ s3 _
    apply KeepsAt.bind P (KeepsAt.of_keeps (Keeps.lift P _ _) _); intro _ _ _
    exact KeepsAt.pure P _ _
  split
  · apply KeepsAt.bind P (KeepsAt.of_keeps (Keeps.lift P _ _) _); intro a s1 h1
    obtain ⟨hr, hs⟩ := lift_ok _ _ _ _ _ h1
    subst hs
    apply KeepsAt.bind P (KeepsAt.modify _ _ (next_shape _ _ _ hr)); intro _ _ _
    exact KeepsAt.pure P _ _
  split
  · apply KeepsAt.bind P (KeepsAt.of_keeps (Keeps.lift P _ _) _); intro a s1 h1
    obtain ⟨hr, hs⟩ := lift_ok _ _ _ _ _ h1
    subst hs
    apply KeepsAt.bind P (KeepsAt.modify _ _ (previous_shape _ _ _ hr)); intro _ _ _
    exact KeepsAt.pure P _ _
  split
  · apply KeepsAt.bind P (KeepsAt.of_keeps (rewind_shape _ _) _); intro _ _ _
    exact KeepsAt.pure P _ _
  split
  · apply KeepsAt.bind P (KeepsAt.modify _ _ ⟨rfl, rfl⟩); intro _ s1 _
    apply KeepsAt.get_bind P
    exact KeepsAt.pure P _ _
  · apply KeepsAt.bind P (KeepsAt.of_keeps (Keeps.lift P _ _) _); intro a s1 h1
    obtain ⟨hr, hs⟩ := lift_ok _ _ _ _ _ h1
    subst hs
    apply KeepsAt.bind P (KeepsAt.modify _ _ (down_shape _ _ _ hr)); intro _ _ _
    exact KeepsAt.pure P _ _

theorem runCatch_shape (env : Env) (lang : Option Bytes) (b : Bytes) :
    Keeps SameShape (runCatch env lang b) := by
  have P := sameShape_preord
  unfold runCatch
  apply Keeps.bind P (decodeErr_shape _); intro _
  apply Keeps.bind P ((flagOps_shape _).2.2.2 _); intro _
  apply Keeps.ite
  · apply Keeps.bind P (logMove_shape _ _); intro _
    apply Keeps.bind P (applyTarget_shape _); intro _
    apply Keeps.bind P vmReset_shape; intro _
    exact getCodeM_shape _ _ _
  · exact Keeps.pure P _

theorem runCroak_shape (b : Bytes) : Keeps SameShape (runCroak b) := by
  have P := sameShape_preord
  unfold runCroak
  apply Keeps.bind P (decodeErr_shape _); intro _
  apply Keeps.bind P ((flagOps_shape _).2.2.2 _); intro _
  apply Keeps.ite
  · apply Keeps.bind P vmReset_shape; intro _
    apply Keeps.bind P
    · exact Keeps.modify _ (fun _ => ⟨rfl, rfl⟩)
    · intro _; exact Keeps.pure P _
  · exact Keeps.pure P _

theorem runLoad_shape (env : Env) (lang : Option Bytes) (b : Bytes) :
    Keeps SameShape (runLoad env lang b) := by
  have P := sameShape_preord
  apply Keeps.of_at; intro s
  unfold runLoad
  apply KeepsAt.bind P (KeepsAt.of_keeps (decodeErr_shape _) _); intro a s1 _
  apply KeepsAt.get_bind P
  split
  · exact KeepsAt.pure P _ _
  · apply KeepsAt.bind P (KeepsAt.of_keeps (refresh_shape _ _ _) _); intro content s2 hr
    apply KeepsAt.get_bind P
    dsimp only
    apply KeepsAt.bind P
    · exact KeepsAt.modify _ _ ⟨rfl, rfl⟩
    · intro _ s3 _
      split <;> first | exact KeepsAt.pure P _ _ | exact KeepsAt.fail P _ _ _ | exact KeepsAt.vpanic P _ _

theorem runReload_shape (env : Env) (lang : Option Bytes) (b : Bytes) :
    Keeps SameShape (runReload env lang b) := by
  have P := sameShape_preord
  apply Keeps.of_at; intro s
  unfold runReload
  apply KeepsAt.bind P (KeepsAt.of_keeps (decodeErr_shape _) _); intro a s1 _
  apply KeepsAt.bind P (KeepsAt.of_keeps (refresh_shape _ _ _) _); intro content s2 hr
  apply KeepsAt.bind P
  · exact KeepsAt.modify _ _ ⟨rfl, rfl⟩
  · intro _ s3 _
    apply KeepsAt.bind P (KeepsAt.of_keeps (pageMapM_shape _) _); intro _ _ _
    exact KeepsAt.pure P _ _

theorem runMove_shape (env : Env) (lang : Option Bytes) (b : Bytes) :
    Keeps SameShape (runMove env lang b) := by
  have P := sameShape_preord
  unfold runMove
  apply Keeps.bind P (decodeErr_shape _); intro _
  apply Keeps.bind P (logMove_shape _ _); intro _
  apply Keeps.bind P (applyTarget_shape _); intro _
  apply Keeps.bind P (getCodeM_shape _ _ _); intro _
  apply Keeps.bind P vmReset_shape; intro _
  exact Keeps.pure P _

theorem incmpMove_shape (env : Env) (lang : Option Bytes) (sym rest : Bytes) :
    Keeps SameShape (incmpMove env lang sym rest) := by
  have P := sameShape_preord
  unfold incmpMove
  apply Keeps.bind P (flagOps_shape _).1; intro _
  apply Keeps.bind P (flagOps_shape _).2.1; intro _
  apply Keeps.bind P (logMove_shape _ _); intro _
  apply Keeps.bind P (Keeps.attempt (applyTarget_shape _)); intro r
  split
  · exact Keeps.bind P (flagOps_shape _).1 (fun _ => Keeps.pure P _)
  · exact Keeps.fail P _ _
  · exact Keeps.vpanic P _
  · apply Keeps.bind P vmReset_shape; intro _
    apply Keeps.bind P (getCodeM_shape _ _ _); intro _
    exact Keeps.pure P _

theorem runInCmp_shape (env : Env) (lang : Option Bytes) (b : Bytes) :
    Keeps SameShape (runInCmp env lang b) := by
  have P := sameShape_preord
  unfold runInCmp
  apply Keeps.bind P (decodeErr_shape _); intro _
  apply Keeps.bind P (flagOps_shape _).2.2.1; intro _
  apply Keeps.bind P (flagOps_shape _).2.2.1; intro _
  apply Keeps.ite
  · exact Keeps.pure P _
  · apply Keeps.bind P
    · apply Keeps.ite
      · exact (flagOps_shape _).1
      · exact Keeps.pure P _
    · intro _
      apply Keeps.bind P (Keeps.get P); intro _
      split
      · exact Keeps.fail P _ _
      · dsimp only
        apply Keeps.ite
        · exact Keeps.pure P _
        · exact incmpMove_shape _ _ _ _

/-- **`Vm.Run` never changes the shape of the flag array** — for every program (also malformed bytecode), fuel,
language and environment; so `FlagsOk` holds in every state the VM reaches from a new state. -/
theorem runLoop_shape (env : Env) (fuel : Nat) (lang : Option Bytes) (b : Bytes) :
    Keeps SameShape (runLoop env fuel lang b) := by
  have P := sameShape_preord
  induction fuel generalizing lang b with
  | zero => unfold runLoop; exact Keeps.fail P _ _
  | succ fuel ih =>
    unfold runLoop
    apply Keeps.bind P ((flagOps_shape _).2.2.2 _); intro _
    apply Keeps.ite
    · exact Keeps.pure P _
    apply Keeps.bind P (flagOps_shape _).2.1; intro _
    apply Keeps.bind P (Keeps.get P); intro _
    dsimp only
    apply Keeps.bind P (flagOps_shape _).2.1; intro _
    apply Keeps.bind P
    · apply Keeps.ite
      · exact (flagOps_shape _).2.1
      · exact Keeps.pure P _
    intro _
    apply Keeps.bind P
    · refine Keeps.modify _ (fun s => ?_)
      split <;> exact ⟨rfl, rfl⟩
    intro _
    apply Keeps.bind P (flagOps_shape _).1; intro _
    split
    · exact Keeps.fail P _ _
    · exact Keeps.vpanic P _
    · apply Keeps.ite
      · exact (runMenuOps_shape _).2.2.2.2
      apply Keeps.bind P
      · apply Keeps.attempt
        repeat' apply Keeps.ite
        · exact runCatch_shape _ _ _
        · exact runCroak_shape _
        · exact runLoad_shape env _ _
        · exact runReload_shape env _ _
        · exact runMap_shape _
        · exact runMove_shape _ _ _
        · exact runInCmp_shape _ _ _
        · exact (runMenuOps_shape _).1
        · exact (runMenuOps_shape _).2.1
        · exact (runMenuOps_shape _).2.2.1
        · exact (runMenuOps_shape _).2.2.2.1
        · exact Keeps.fail P _ _
      intro r
      apply Keeps.bind P
      · unfold settle
        apply Keeps.bind P
        · split
          · exact Keeps.pure P _
          · exact Keeps.vpanic P _
          · exact runErrCheck_shape _ _ _
        intro _
        apply Keeps.ite
        · exact runDeadCheck_shape
        · exact Keeps.pure P _
      intro _
      apply Keeps.ite
      · exact Keeps.pure P _
      · exact ih _ _

end Vise
