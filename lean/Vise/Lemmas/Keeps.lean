/-
  A small relational Hoare logic for `VM`: `Keeps R x` says that running `x` from any state `s`
  ends (whatever the outcome — value, error or panic) in a state related to `s` by `R`.
  For a reflexive, transitive `R` it is closed under the monad operations, so frame properties of
  whole instruction handlers follow compositionally.
-/
import Vise.Lemmas.Flags

namespace Vise
open VM

structure PreOrd (R : VmSt → VmSt → Prop) : Prop where
  refl : ∀ s, R s s
  trans : ∀ a b c, R a b → R b c → R a c

def Keeps {α : Type} (R : VmSt → VmSt → Prop) (x : VM α) : Prop := ∀ s, R s (x s).2

namespace Keeps
variable {α β : Type} {R : VmSt → VmSt → Prop}

theorem pure (hR : PreOrd R) (a : α) : Keeps R (Pure.pure a : VM α) := fun s => hR.refl s
theorem fail (hR : PreOrd R) (k : String) (m : Bytes) : Keeps R (VM.fail k m : VM α) := fun s => hR.refl s
theorem vpanic (hR : PreOrd R) (p : String) : Keeps R (VM.vpanic p : VM α) := fun s => hR.refl s
theorem get (hR : PreOrd R) : Keeps R VM.get := fun s => hR.refl s
theorem lift (hR : PreOrd R) (r : Res α) (msg : String → Bytes) : Keeps R (VM.lift r msg) := by
  intro s; cases r <;> exact hR.refl s
theorem modify (f : VmSt → VmSt) (h : ∀ s, R s (f s)) : Keeps R (VM.modify f) := fun s => h s

theorem bind (hR : PreOrd R) {x : VM α} {f : α → VM β} (hx : Keeps R x) (hf : ∀ a, Keeps R (f a)) :
    Keeps R (x >>= f) := by
  intro s
  simp only [VM.bind_apply]
  have h1 := hx s
  rcases hr : x s with ⟨r, s'⟩
  rw [hr] at h1
  cases r with
  | ok a => exact hR.trans _ _ _ h1 (hf a s')
  | err k m => exact h1
  | panic p => exact h1

theorem bind_modify (hR : PreOrd R) {g : VmSt → VmSt} {f : Unit → VM β} (hg : ∀ s, R s (g s))
    (hf : Keeps R (f ())) : Keeps R (VM.modify g >>= f) :=
  bind hR (modify g hg) (fun _ => hf)

theorem attempt {x : VM α} (hx : Keeps R x) : Keeps R (VM.attempt x) := fun s => hx s

theorem ite {c : Prop} [Decidable c] {x y : VM α} (hx : Keeps R x) (hy : Keeps R y) :
    Keeps R (if c then x else y) := by split <;> assumption

end Keeps

/-- `modify g >>= f` where `g` visibly leaves the related part alone -/
macro "keeps_modify_rfl " P:term : tactic =>
  `(tactic| (refine Keeps.bind_modify $P ?_ ?_; · exact fun _ => rfl))

/-- pointwise version: running `x` from this particular state `s` ends in a state related to `s`.
Needed where a handler reads the state (`get`) and later writes something computed from it. -/
def KeepsAt {α : Type} (R : VmSt → VmSt → Prop) (x : VM α) (s : VmSt) : Prop := R s (x s).2

namespace KeepsAt
variable {α β : Type} {R : VmSt → VmSt → Prop}

theorem of_keeps {x : VM α} (h : Keeps R x) (s : VmSt) : KeepsAt R x s := h s

theorem bind (hR : PreOrd R) {x : VM α} {f : α → VM β} {s : VmSt} (hx : KeepsAt R x s)
    (hf : ∀ a s', x s = (.ok a, s') → KeepsAt R (f a) s') : KeepsAt R (x >>= f) s := by
  unfold KeepsAt at *
  simp only [VM.bind_apply]
  rcases hr : x s with ⟨r, s'⟩
  rw [hr] at hx
  cases r with
  | ok a => exact hR.trans _ _ _ hx (hf a s' hr)
  | err k m => exact hx
  | panic p => exact hx

/-- `get` hands the continuation the very state it runs in -/
theorem get_bind (hR : PreOrd R) {f : VmSt → VM β} {s : VmSt} (hf : KeepsAt R (f s) s) :
    KeepsAt R (VM.get >>= f) s :=
  bind hR (hR.refl s) (fun a s' h => by simp at h; obtain ⟨h1, h2⟩ := h; subst h1; subst h2; exact hf)

theorem pure (hR : PreOrd R) (a : α) (s : VmSt) : KeepsAt R (Pure.pure a : VM α) s := hR.refl s
theorem fail (hR : PreOrd R) (k : String) (m : Bytes) (s : VmSt) : KeepsAt R (VM.fail k m : VM α) s := hR.refl s
theorem vpanic (hR : PreOrd R) (p : String) (s : VmSt) : KeepsAt R (VM.vpanic p : VM α) s := hR.refl s
theorem modify (f : VmSt → VmSt) (s : VmSt) (h : R s (f s)) : KeepsAt R (VM.modify f) s := h

end KeepsAt

theorem Keeps.of_at {α} {R : VmSt → VmSt → Prop} {x : VM α} (h : ∀ s, KeepsAt R x s) : Keeps R x := h

/-- the cache, the page and the position are untouched (flags, language, ghost logs may change) -/
def SameCachePagePos (s s' : VmSt) : Prop :=
  s'.ca = s.ca ∧ s'.pg = s.pg ∧ s'.st.execPath = s.st.execPath ∧ s'.st.sizeIdx = s.st.sizeIdx ∧
  s'.st.code = s.st.code ∧ s'.st.input = s.st.input ∧ s'.sep = s.sep

theorem sameCachePagePos_preord : PreOrd SameCachePagePos :=
  ⟨fun s => ⟨rfl, rfl, rfl, rfl, rfl, rfl, rfl⟩,
   fun a b c h1 h2 => ⟨h2.1.trans h1.1, h2.2.1.trans h1.2.1, h2.2.2.1.trans h1.2.2.1,
     h2.2.2.2.1.trans h1.2.2.2.1, h2.2.2.2.2.1.trans h1.2.2.2.2.1, h2.2.2.2.2.2.1.trans h1.2.2.2.2.2.1,
     h2.2.2.2.2.2.2.trans h1.2.2.2.2.2.2⟩⟩

theorem setFlagM_keeps (f : Nat) : Keeps SameCachePagePos (setFlagM f) := by
  intro s
  unfold setFlagM SameCachePagePos
  simp only [VM.bind_apply, VM.get_apply, St.setFlag]
  cases hg : s.st.getFlag f with
  | ok b => cases b <;> simp
  | err k => simp
  | panic p => simp

theorem resetFlagM_keeps (f : Nat) : Keeps SameCachePagePos (resetFlagM f) := by
  intro s
  unfold resetFlagM SameCachePagePos
  simp only [VM.bind_apply, VM.get_apply, St.resetFlag]
  cases hg : s.st.getFlag f with
  | ok b => cases b <;> simp
  | err k => simp
  | panic p => simp

theorem getFlagM_keeps (f : Nat) : Keeps SameCachePagePos (getFlagM f) := by
  unfold getFlagM
  exact Keeps.bind sameCachePagePos_preord (Keeps.get sameCachePagePos_preord)
    (fun _ => Keeps.lift sameCachePagePos_preord _ _)

theorem matchFlagM_keeps (f : Nat) (m : Bool) : Keeps SameCachePagePos (matchFlagM f m) := by
  unfold matchFlagM
  exact Keeps.bind sameCachePagePos_preord (getFlagM_keeps f) (fun _ => Keeps.pure sameCachePagePos_preord _)

theorem applyFlagList_keeps (setTo : Bool) (l : List Nat) : Keeps SameCachePagePos (applyFlagList setTo l) := by
  induction l with
  | nil => exact Keeps.pure sameCachePagePos_preord _
  | cons f fs ih =>
    unfold applyFlagList
    apply Keeps.bind sameCachePagePos_preord
    · apply Keeps.ite
      · cases setTo
        · exact resetFlagM_keeps f
        · exact setFlagM_keeps f
      · exact Keeps.pure sameCachePagePos_preord _
    · intro _; exact ih

theorem logLookup_keeps (k : String) (sym : Bytes) (l : Option Bytes) :
    Keeps SameCachePagePos (logLookup k sym l) :=
  Keeps.modify _ (fun _ => ⟨rfl, rfl, rfl, rfl, rfl, rfl, rfl⟩)

/-- **An external call never touches the cache, the page, the position, the pending code or the
recorded input** — whatever the handler returns. -/
theorem refresh_keeps (env : Env) (lang : Option Bytes) (key : Bytes) :
    Keeps SameCachePagePos (refresh env lang key) := by
  have P := sameCachePagePos_preord
  unfold refresh
  apply Keeps.bind P (Keeps.get P); intro s
  apply Keeps.bind P (logLookup_keeps _ _ _); intro _
  dsimp only
  split
  · exact Keeps.fail P _ _
  · next r _ =>
    apply Keeps.bind P
    · exact Keeps.modify _ (fun _ => ⟨rfl, rfl, rfl, rfl, rfl, rfl, rfl⟩)
    intro _
    apply Keeps.ite
    · apply Keeps.bind P (setFlagM_keeps _); intro _
      exact Keeps.fail P _ _
    · apply Keeps.bind P (applyFlagList_keeps _ _); intro _
      apply Keeps.bind P (applyFlagList_keeps _ _); intro _
      apply Keeps.bind P (matchFlagM_keeps _ _); intro hl
      apply Keeps.bind P
      · exact Keeps.modify _ (fun s => by
          unfold SameCachePagePos St.setLanguageSt
          split
          · simp only []
            split <;> split <;> simp
          · exact ⟨rfl, rfl, rfl, rfl, rfl, rfl, rfl⟩)
      · intro _; exact Keeps.pure P _

end Vise
