/-
  The configured output size of the renderer is never changed by a VM computation: `Vm.Run` keeps
  `pg.sizer`'s `outputSize` for every program, fuel, language and environment. (Same walk over every
  instruction handler as Lemmas/CacheKeeps, for a different relation.)
-/
import Vise.Lemmas.Keeps
import Vise.Vm

namespace Vise
open VM

/-- the output size the page is rendered against (none: unlimited) -/
def outSz (s : VmSt) : Option Nat := s.pg.sizer.map (·.outputSize)

def SameOut (s s' : VmSt) : Prop := outSz s' = outSz s

theorem sameOut_preord : PreOrd SameOut := ⟨fun _ => rfl, fun _ _ _ h1 h2 => h2.trans h1⟩

theorem Keeps.out_of_same {α} {x : VM α} (h : Keeps SameCachePagePos x) : Keeps SameOut x := by
  intro s; unfold SameOut outSz; rw [(h s).2.1]

theorem sizer_reset_out (sz : Sizer) : sz.reset.outputSize = sz.outputSize := rfl
theorem sizer_set_out (sz : Sizer) (k : Bytes) (l : Nat) : (sz.set k l).outputSize = sz.outputSize := by
  unfold Sizer.set; split <;> rfl

theorem page_reset_out (pg : Page) : pg.reset.sizer.map (·.outputSize) = pg.sizer.map (·.outputSize) := by
  unfold Page.reset; cases pg.sizer <;> simp [sizer_reset_out]

theorem page_map_out (pg pg' : Page) (ca : Cache Bytes) (k : Bytes) (h : pg.map ca k = .ok pg') :
    pg'.sizer.map (·.outputSize) = pg.sizer.map (·.outputSize) := by
  unfold Page.map at h
  split at h
  · split at h
    · split at h
      · cases h
      · cases h; cases pg.sizer <;> simp [sizer_set_out]
    · cases h
  · cases h

theorem rewind_out (fuel : Nat) (sym : Bytes) : Keeps SameOut (rewind fuel sym) := by
  have P := sameOut_preord
  induction fuel generalizing sym with
  | zero => exact Keeps.pure P _
  | succ fuel ih =>
    apply Keeps.of_at; intro s
    unfold rewind
    apply KeepsAt.get_bind P
    split
    · exact KeepsAt.pure P _ _
    · split
      · next sym' st' _ =>
        apply KeepsAt.bind P
        · exact KeepsAt.modify _ _ (by exact rfl)
        · intro _ s' _
          split
          · exact ih _ s'
          · exact KeepsAt.pure P _ _
      · exact KeepsAt.pure P _ _

theorem vmReset_out : Keeps SameOut vmReset := fun s => by
  simp only [vmReset, VM.modify_apply, SameOut, outSz]
  exact page_reset_out s.pg

theorem logMove_out (k : String) (t : Bytes) : Keeps SameOut (logMove k t) := fun s => by
  simp [logMove, SameOut, outSz]

theorem getCodeM_out (env : Env) (lang : Option Bytes) (sym : Bytes) :
    Keeps SameOut (getCodeM env lang sym) := by
  have P := sameOut_preord
  unfold getCodeM
  apply Keeps.bind P (Keeps.out_of_same (logLookup_keeps _ _ _)); intro _
  split
  · exact Keeps.pure P _
  · exact Keeps.fail P _ _

theorem pageMapM_out (sym : Bytes) : Keeps SameOut (pageMapM sym) := by
  intro s
  unfold pageMapM SameOut outSz
  simp only [VM.bind_apply, VM.get_apply]
  cases h : s.pg.map s.ca sym with
  | ok pg' => simpa using page_map_out s.pg pg' s.ca sym h
  | err k => simp
  | panic p => simp

theorem flagOps_out (f : Nat) : Keeps SameOut (setFlagM f) ∧ Keeps SameOut (resetFlagM f) ∧
    Keeps SameOut (getFlagM f) ∧ (∀ m, Keeps SameOut (matchFlagM f m)) :=
  ⟨Keeps.out_of_same (setFlagM_keeps f), Keeps.out_of_same (resetFlagM_keeps f),
   Keeps.out_of_same (getFlagM_keeps f), fun m => Keeps.out_of_same (matchFlagM_keeps f m)⟩

theorem decodeErr_out {α} (r : Res α) : Keeps SameOut (decodeErr r) := Keeps.lift sameOut_preord _ _

theorem runMenuOps_out (b : Bytes) : Keeps SameOut (runMSink b) ∧ Keeps SameOut (runMOut b) ∧
    Keeps SameOut (runMNext b) ∧ Keeps SameOut (runMPrev b) ∧ Keeps SameOut (runHalt b) := by
  have P := sameOut_preord
  refine ⟨?_, ?_, ?_, ?_, ?_⟩
  · unfold runMSink
    keeps_modify_rfl P
    exact Keeps.pure P _
  · unfold runMOut
    apply Keeps.bind P (decodeErr_out _); intro _
    keeps_modify_rfl P
    exact Keeps.pure P _
  · unfold runMNext
    apply Keeps.bind P (decodeErr_out _); intro _
    keeps_modify_rfl P
    exact Keeps.pure P _
  · unfold runMPrev
    apply Keeps.bind P (decodeErr_out _); intro _
    keeps_modify_rfl P
    exact Keeps.pure P _
  · unfold runHalt
    exact Keeps.bind P (flagOps_out _).1 (fun _ => Keeps.pure P _)

theorem runMap_out (b : Bytes) : Keeps SameOut (runMap b) := by
  have P := sameOut_preord
  unfold runMap
  dsimp only
  exact Keeps.bind P (pageMapM_out _) (fun _ => Keeps.pure P _)

theorem runErrCheck_out (k : String) (m : Bytes) (o : Bool) : Keeps SameOut (runErrCheck k m o) := by
  have P := sameOut_preord
  unfold runErrCheck
  keeps_modify_rfl P
  apply Keeps.bind P ((flagOps_out _).2.2.2 _); intro _
  apply Keeps.ite
  · exact Keeps.fail P _ _
  · exact Keeps.pure P _

theorem runDeadCheck_out : Keeps SameOut runDeadCheck := by
  have P := sameOut_preord
  unfold runDeadCheck
  apply Keeps.bind P ((flagOps_out _).2.2.2 _); intro _
  apply Keeps.ite
  · exact Keeps.bind P (flagOps_out _).1 (fun _ => Keeps.pure P _)
  · apply Keeps.bind P ((flagOps_out _).2.2.2 _); intro _
    apply Keeps.ite
    · exact Keeps.pure P _
    · apply Keeps.bind P (Keeps.get P); intro _
      dsimp only
      apply Keeps.ite
      · exact Keeps.fail P _ _
      · apply Keeps.ite
        · exact Keeps.fail P _ _
        · keeps_modify_rfl P
          exact Keeps.pure P _

theorem applyTarget_out (t : Bytes) : Keeps SameOut (applyTarget t) := by
  have P := sameOut_preord
  apply Keeps.of_at; intro s
  unfold applyTarget
  apply KeepsAt.get_bind P
  dsimp only
  split
  · exact KeepsAt.fail P _ _ _
  split
  · apply KeepsAt.bind P (KeepsAt.of_keeps (Keeps.lift P _ _) _); intro a s1 h1
    apply KeepsAt.bind P (KeepsAt.modify _ _ (by exact rfl)); intro _ s2 h2
    apply KeepsAt.get_bind P
    apply KeepsAt.bind P (KeepsAt.modify _ _ (by exact rfl)); intro _ s3 _
    apply KeepsAt.bind P (KeepsAt.of_keeps (Keeps.lift P _ _) _); intro _ _ _
    exact KeepsAt.pure P _ _
  split
  · apply KeepsAt.bind P (KeepsAt.of_keeps (Keeps.lift P _ _) _); intro a s1 _
    apply KeepsAt.bind P (KeepsAt.modify _ _ (by exact rfl)); intro _ _ _
    exact KeepsAt.pure P _ _
  split
  · apply KeepsAt.bind P (KeepsAt.of_keeps (Keeps.lift P _ _) _); intro a s1 _
    apply KeepsAt.bind P (KeepsAt.modify _ _ (by exact rfl)); intro _ _ _
    exact KeepsAt.pure P _ _
  split
  · apply KeepsAt.bind P (KeepsAt.of_keeps (rewind_out _ _) _); intro _ _ _
    exact KeepsAt.pure P _ _
  split
  · apply KeepsAt.bind P (KeepsAt.modify _ _ (by exact rfl)); intro _ s1 _
    apply KeepsAt.get_bind P
    exact KeepsAt.pure P _ _
  · apply KeepsAt.bind P (KeepsAt.of_keeps (Keeps.lift P _ _) _); intro a s1 _
    apply KeepsAt.bind P (KeepsAt.modify _ _ (by exact rfl)); intro _ _ _
    exact KeepsAt.pure P _ _

theorem runCatch_out (env : Env) (lang : Option Bytes) (b : Bytes) :
    Keeps SameOut (runCatch env lang b) := by
  have P := sameOut_preord
  unfold runCatch
  apply Keeps.bind P (decodeErr_out _); intro _
  apply Keeps.bind P ((flagOps_out _).2.2.2 _); intro _
  apply Keeps.ite
  · apply Keeps.bind P (logMove_out _ _); intro _
    apply Keeps.bind P (applyTarget_out _); intro _
    apply Keeps.bind P vmReset_out; intro _
    exact getCodeM_out _ _ _
  · exact Keeps.pure P _

theorem runCroak_out (b : Bytes) : Keeps SameOut (runCroak b) := by
  have P := sameOut_preord
  unfold runCroak
  apply Keeps.bind P (decodeErr_out _); intro _
  apply Keeps.bind P ((flagOps_out _).2.2.2 _); intro _
  apply Keeps.ite
  · apply Keeps.bind P vmReset_out; intro _
    apply Keeps.bind P
    · exact Keeps.modify _ (fun _ => rfl)
    · intro _; exact Keeps.pure P _
  · exact Keeps.pure P _

theorem runLoad_out (env : Env) (lang : Option Bytes) (b : Bytes) :
    Keeps SameOut (runLoad env lang b) := by
  have P := sameOut_preord
  apply Keeps.of_at; intro s
  unfold runLoad
  apply KeepsAt.bind P (KeepsAt.of_keeps (decodeErr_out _) _); intro a s1 _
  apply KeepsAt.get_bind P
  split
  · exact KeepsAt.pure P _ _
  · apply KeepsAt.bind P (KeepsAt.of_keeps (Keeps.out_of_same (refresh_keeps _ _ _)) _); intro content s2 hr
    apply KeepsAt.get_bind P
    dsimp only
    apply KeepsAt.bind P
    · exact KeepsAt.modify _ _ (by exact rfl)
    · intro _ s3 _
      split <;> first | exact KeepsAt.pure P _ _ | exact KeepsAt.fail P _ _ _ | exact KeepsAt.vpanic P _ _

theorem runReload_out (env : Env) (lang : Option Bytes) (b : Bytes) :
    Keeps SameOut (runReload env lang b) := by
  have P := sameOut_preord
  apply Keeps.of_at; intro s
  unfold runReload
  apply KeepsAt.bind P (KeepsAt.of_keeps (decodeErr_out _) _); intro a s1 _
  apply KeepsAt.bind P (KeepsAt.of_keeps (Keeps.out_of_same (refresh_keeps _ _ _)) _); intro content s2 hr
  apply KeepsAt.bind P
  · exact KeepsAt.modify _ _ (by exact rfl)
  · intro _ s3 _
    apply KeepsAt.bind P (KeepsAt.of_keeps (pageMapM_out _) _); intro _ _ _
    exact KeepsAt.pure P _ _

theorem runMove_out (env : Env) (lang : Option Bytes) (b : Bytes) :
    Keeps SameOut (runMove env lang b) := by
  have P := sameOut_preord
  unfold runMove
  apply Keeps.bind P (decodeErr_out _); intro _
  apply Keeps.bind P (logMove_out _ _); intro _
  apply Keeps.bind P (applyTarget_out _); intro _
  apply Keeps.bind P (getCodeM_out _ _ _); intro _
  apply Keeps.bind P vmReset_out; intro _
  exact Keeps.pure P _

theorem incmpMove_out (env : Env) (lang : Option Bytes) (sym rest : Bytes) :
    Keeps SameOut (incmpMove env lang sym rest) := by
  have P := sameOut_preord
  unfold incmpMove
  apply Keeps.bind P (flagOps_out _).1; intro _
  apply Keeps.bind P (flagOps_out _).2.1; intro _
  apply Keeps.bind P (logMove_out _ _); intro _
  apply Keeps.bind P (Keeps.attempt (applyTarget_out _)); intro r
  split
  · exact Keeps.bind P (flagOps_out _).1 (fun _ => Keeps.pure P _)
  · exact Keeps.fail P _ _
  · exact Keeps.vpanic P _
  · apply Keeps.bind P vmReset_out; intro _
    apply Keeps.bind P (getCodeM_out _ _ _); intro _
    exact Keeps.pure P _

theorem runInCmp_out (env : Env) (lang : Option Bytes) (b : Bytes) :
    Keeps SameOut (runInCmp env lang b) := by
  have P := sameOut_preord
  unfold runInCmp
  apply Keeps.bind P (decodeErr_out _); intro _
  apply Keeps.bind P (flagOps_out _).2.2.1; intro _
  apply Keeps.bind P (flagOps_out _).2.2.1; intro _
  apply Keeps.ite
  · exact Keeps.pure P _
  · apply Keeps.bind P
    · apply Keeps.ite
      · exact (flagOps_out _).1
      · exact Keeps.pure P _
    · intro _
      apply Keeps.bind P (Keeps.get P); intro _
      split
      · exact Keeps.fail P _ _
      · dsimp only
        apply Keeps.ite
        · exact Keeps.pure P _
        · exact incmpMove_out _ _ _ _

/-- **`Vm.Run` never changes the output size the renderer works against** — for every program (also
malformed bytecode), fuel, language and environment. -/
theorem runLoop_out (env : Env) (fuel : Nat) (lang : Option Bytes) (b : Bytes) :
    Keeps SameOut (runLoop env fuel lang b) := by
  have P := sameOut_preord
  induction fuel generalizing lang b with
  | zero => unfold runLoop; exact Keeps.fail P _ _
  | succ fuel ih =>
    unfold runLoop
    apply Keeps.bind P ((flagOps_out _).2.2.2 _); intro _
    apply Keeps.ite
    · exact Keeps.pure P _
    apply Keeps.bind P (flagOps_out _).2.1; intro _
    apply Keeps.bind P (Keeps.get P); intro _
    dsimp only
    apply Keeps.bind P (flagOps_out _).2.1; intro _
    apply Keeps.bind P
    · apply Keeps.ite
      · exact (flagOps_out _).2.1
      · exact Keeps.pure P _
    intro _
    apply Keeps.bind P
    · refine Keeps.modify _ (fun s => ?_)
      split
      · simp only [SameOut, outSz]; exact page_reset_out s.pg
      · rfl
    intro _
    apply Keeps.bind P (flagOps_out _).1; intro _
    split
    · exact Keeps.fail P _ _
    · exact Keeps.vpanic P _
    · apply Keeps.ite
      · exact (runMenuOps_out _).2.2.2.2
      apply Keeps.bind P
      · apply Keeps.attempt
        repeat' apply Keeps.ite
        · exact runCatch_out _ _ _
        · exact runCroak_out _
        · exact runLoad_out env _ _
        · exact runReload_out env _ _
        · exact runMap_out _
        · exact runMove_out _ _ _
        · exact runInCmp_out _ _ _
        · exact (runMenuOps_out _).1
        · exact (runMenuOps_out _).2.1
        · exact (runMenuOps_out _).2.2.1
        · exact (runMenuOps_out _).2.2.2.1
        · exact Keeps.fail P _ _
      intro r
      apply Keeps.bind P
      · unfold settle
        apply Keeps.bind P
        · split
          · exact Keeps.pure P _
          · exact Keeps.vpanic P _
          · exact runErrCheck_out _ _ _
        intro _
        apply Keeps.ite
        · exact runDeadCheck_out
        · exact Keeps.pure P _
      intro _
      apply Keeps.ite
      · exact Keeps.pure P _
      · exact ih _ _

end Vise
