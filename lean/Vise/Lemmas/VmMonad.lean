/-
  Simp lemmas for the `VM` / `EM` state-and-error computations: how each primitive acts on a state.
-/
import Vise.Engine

namespace Vise
open VM

namespace VM
variable {α β : Type}

@[simp] theorem pure_apply (a : α) (s : VmSt) : (pure a : VM α) s = (.ok a, s) := rfl

@[simp] theorem bind_apply (x : VM α) (f : α → VM β) (s : VmSt) :
    (x >>= f) s = match x s with
      | (.ok a, s') => f a s'
      | (.err k m, s') => (.err k m, s')
      | (.panic p, s') => (.panic p, s') := rfl

@[simp] theorem get_apply (s : VmSt) : VM.get s = (.ok s, s) := rfl
@[simp] theorem modify_apply (f : VmSt → VmSt) (s : VmSt) : VM.modify f s = (.ok (), f s) := rfl
@[simp] theorem fail_apply (k : String) (m : Bytes) (s : VmSt) : (VM.fail k m : VM α) s = (.err k m, s) := rfl
@[simp] theorem vpanic_apply (p : String) (s : VmSt) : (VM.vpanic p : VM α) s = (.panic p, s) := rfl
@[simp] theorem lift_ok (a : α) (msg : String → Bytes) (s : VmSt) : VM.lift (.ok a) msg s = (.ok a, s) := rfl
@[simp] theorem lift_err (k : String) (msg : String → Bytes) (s : VmSt) :
    (VM.lift (.err k : Res α) msg) s = (.err k (msg k), s) := rfl
@[simp] theorem lift_panic (p : String) (msg : String → Bytes) (s : VmSt) :
    (VM.lift (.panic p : Res α) msg) s = (.panic p, s) := rfl
@[simp] theorem attempt_apply (x : VM α) (s : VmSt) : VM.attempt x s = (.ok (x s).1, (x s).2) := rfl

end VM

namespace EM
variable {α β : Type}

@[simp] theorem pure_apply (a : α) (e : Eng) : (pure a : EM α) e = (.ok a, e) := rfl

@[simp] theorem bind_apply (x : EM α) (f : α → EM β) (e : Eng) :
    (x >>= f) e = match x e with
      | (.ok a, e') => f a e'
      | (.err k m, e') => (.err k m, e')
      | (.panic p, e') => (.panic p, e') := rfl

@[simp] theorem get_apply (e : Eng) : EM.get e = (.ok e, e) := rfl
@[simp] theorem modify_apply (f : Eng → Eng) (e : Eng) : EM.modify f e = (.ok (), f e) := rfl
@[simp] theorem fail_apply (k : String) (m : Bytes) (e : Eng) : (EM.fail k m : EM α) e = (.err k m, e) := rfl
@[simp] theorem vm_apply (x : VM α) (e : Eng) : EM.vm x e = ((x e.vm).1, { e with vm := (x e.vm).2 }) := rfl
@[simp] theorem attempt_apply (x : EM α) (e : Eng) : EM.attempt x e = (.ok (x e).1, (x e).2) := rfl

end EM
end Vise
