/-
  Vise.PgTx — model of db/postgres/pg.go (start, Start, stopSingle, Stop/stop, Abort, Put, Get, Close,
  with the two `fix:` commits: Abort without a transaction is a no-op, Put aborts when its statement
  fails) over an abstract transactional driver with fault injection.

  The driver (`Drv`) is the specification of harness/internal/pgfake: one committed table; the open
  transaction buffers its writes and sees them; a failing statement or row fetch poisons it (later
  statements fail, Commit rolls back and errors); Rollback always ends it; primitive calls
  (begin, exec, query, scan, commit) are numbered and the ones listed in `faults` fail.
  Keys here are storage keys (C10/C11 derive them).
-/
import Vise.Db

namespace Vise

structure PgTxn where
  id : Nat
  pending : Store := []
  poisoned : Bool := false
deriving Repr, DecidableEq

structure Drv where
  committed : Store := []
  /-- the open transaction (the wrapper never holds more than one) -/
  cur : Option PgTxn := none
  /-- begin:<id>, commit:<id>, rollback:<id>, commitfail:<id> as (kind, id) -/
  log : List (String × Nat) := []
  nextTx : Nat := 0
  calls : Nat := 0
  faults : List Nat := []
deriving Repr, DecidableEq

structure Pg where
  drv : Drv := {}
  multi : Bool := false
deriving Repr, DecidableEq

inductive PgRes where
  | ok
  | val (v : Bytes)
  | err (k : String)
  | panic (site : String)
deriving Repr, DecidableEq

namespace Drv

/-- one numbered primitive call: does it fail? -/
def prim (d : Drv) : Bool × Drv := (d.faults.contains d.calls, { d with calls := d.calls + 1 })

/-- `BeginTx` -/
def begin (d : Drv) : Bool × Drv :=
  let (f, d) := d.prim
  if f then (false, d)
  else (true, { d with cur := some { id := d.nextTx }, nextTx := d.nextTx + 1, log := d.log ++ [("begin", d.nextTx)] })

/-- a statement round trip on the open transaction: (succeeded, driver) -/
def stmt (d : Drv) : Bool × Drv :=
  match d.cur with
  | none => (false, d)
  | some t =>
    if t.poisoned then (false, d)
    else
      let (f, d) := d.prim
      if f then (false, { d with cur := some { t with poisoned := true } }) else (true, d)

/-- advancing to a row that exists (`Rows.Next`): a failure here is reported through `Rows.Err`, `Next` itself just
returns false -/
def next (d : Drv) : Bool × Drv :=
  let (f, d) := d.prim
  if f then (false, { d with cur := d.cur.map fun t => { t with poisoned := true } }) else (true, d)

/-- row fetch (`Scan`) -/
def scan (d : Drv) : Bool × Drv :=
  let (f, d) := d.prim
  if f then (false, { d with cur := d.cur.map fun t => { t with poisoned := true } }) else (true, d)

/-- `Commit`: (succeeded, driver); the transaction is over in every case -/
def commit (d : Drv) : Bool × Drv :=
  match d.cur with
  | none => (false, d)
  | some t =>
    let (f, d) := d.prim
    if f then (false, { d with cur := none, log := d.log ++ [("commitfail", t.id)] })
    else if t.poisoned then (false, { d with cur := none, log := d.log ++ [("rollback", t.id)] })
    else (true, { d with cur := none, log := d.log ++ [("commit", t.id)],
                          committed := t.pending.foldl (fun c kv => AList.set kv.1 kv.2 c) d.committed })

/-- `Rollback`: one primitive call when a transaction is open; whether or not the call fails, the transaction is over
(the handle is closed either way) -/
def rollback (d : Drv) : Drv :=
  match d.cur with
  | none => d
  | some t =>
    let (_, d) := d.prim
    { d with cur := none, log := d.log ++ [("rollback", t.id)] }

/-- what a query sees: pending writes over the committed table -/
def view (d : Drv) (k : Bytes) : Option Bytes :=
  match d.cur with
  | some t => match AList.lookup k t.pending with
    | some v => some v
    | none => AList.lookup k d.committed
  | none => AList.lookup k d.committed

end Drv

namespace Pg

/-- `start`: begin a transaction unless one is open. -/
def start (p : Pg) : Bool × Pg :=
  if p.drv.cur.isSome then (true, p)
  else
    let (ok, d) := p.drv.begin
    (ok, { p with drv := d })

/-- `stopSingle`: commit unless in an explicit multi-operation transaction -/
def stopSingle (p : Pg) : PgRes × Pg :=
  if p.multi then (.ok, p)
  else match p.drv.cur with
    | none => (.panic "stopSingle:tx.Commit on nil", p)
    | some _ =>
      let (ok, d) := p.drv.commit
      (if ok then .ok else .err "commit", { p with drv := d })

/-- `Abort` (no-op without a transaction, since the fix) -/
def abort (p : Pg) : Pg := { p with drv := p.drv.rollback }

/-- `Start` -/
def startMulti (p : Pg) : PgRes × Pg :=
  if p.drv.cur.isSome then (.err "tx-exists", p)
  else
    let (ok, p') := p.start
    if ok then (.ok, { p' with multi := true }) else (.err "begin", p')

/-- `Stop` -/
def stop (p : Pg) : PgRes × Pg :=
  if !p.multi then (.err "single-tx", p)
  else match p.drv.cur with
    | none => (.err "no-tx", p)
    | some _ =>
      let (ok, d) := p.drv.commit
      (if ok then .ok else .err "commit", { p with drv := d })

/-- `Put(key, val)` on a storage key (lock check and key derivation are C10's) -/
def put (p : Pg) (k v : Bytes) : PgRes × Pg :=
  let (ok, p) := p.start
  if !ok then (.err "begin", p)
  else
    let (ok, d) := p.drv.stmt
    if !ok then (.err "exec", ({ p with drv := d }).abort)
    else
      let d := { d with cur := d.cur.map fun t => { t with pending := AList.set k v t.pending } }
      ({ p with drv := d }).stopSingle

/-- one `SELECT value WHERE key = k` with row fetch: `none` = statement or fetch failed (the
caller aborts), `some none` = no row, `some (some v)` = value. A row that cannot be advanced to (`Rows.Next` returns
false because of an error) is what the wrapper takes for "no row"; the transaction is then in the failed state. -/
def query (p : Pg) (k : Bytes) : Option (Option Bytes) × Pg :=
  let (ok, d) := p.drv.stmt
  if !ok then (none, { p with drv := d })
  else match d.view k with
    | none => (some none, { p with drv := d })
    | some v =>
      let (ok, d) := d.next
      if !ok then (some none, { p with drv := d })
      else
        let (ok, d) := d.scan
        if ok then (some (some v), { p with drv := d }) else (none, { p with drv := d })

/-- `Get` with the translation key (if any) tried first, then the default key. Go returns the value
together with the commit error when the single-operation commit fails; the error wins here. -/
def get (p : Pg) (tr : Option Bytes) (dk : Bytes) : PgRes × Pg :=
  let (ok, p) := p.start
  if !ok then (.err "begin", p)
  else
    let viaDefault (p : Pg) : PgRes × Pg :=
      match p.query dk with
      | (none, p) => (.err "query", p.abort)
      | (some none, p) => (.err "notfound", p.abort)
      | (some (some v), p) =>
        match p.stopSingle with
        | (.ok, p) => (.val v, p)
        | (r, p) => (r, p)
    match tr with
    | none => viaDefault p
    | some t =>
      match p.query t with
      | (none, p) => (.err "query", p.abort)
      | (some (some v), p) =>
        (match p.stopSingle with
        | (.ok, p) => (.val v, p)
        | (r, p) => (r, p))
      | (some none, p) => viaDefault p

/-- `Close`: Stop, where "no transaction" is not an error -/
def close (p : Pg) : PgRes × Pg :=
  match p.stop with
  | (.err "no-tx", p) => (.ok, p)
  | r => r

end Pg

inductive PgOp where
  | put (k v : Bytes)
  | get (tr : Option Bytes) (dk : Bytes)
  | start | stop | abort | close
deriving Repr, DecidableEq

def Pg.step (p : Pg) : PgOp → PgRes × Pg
  | .put k v => p.put k v
  | .get tr dk => p.get tr dk
  | .start => p.startMulti
  | .stop => p.stop
  | .abort => (.ok, p.abort)
  | .close => p.close

end Vise
