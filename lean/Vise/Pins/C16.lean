/-
  Pins of the assembler model to the facts regenerated from asm/asm.go, asm/menu.go, vm/opcodes.go.
  Imported by the C16 proofs only.
-/
import Vise.Asm

namespace Vise.Asm

/-! ### pins to the regenerated facts -/

#guard Facts.lexerRules = [("Comment", "(?:#)[^\\n]*"), ("Ident", "^[A-Z]+"), ("Size", "[0-9]+"),
  ("Sym", "[a-zA-Z_\\*\\.\\^\\<\\>][a-zA-Z0-9_]*"), ("Whitespace", "[ \\t]+"), ("EOL", "[\\n\\r]+"), ("Quote", "[\"']")]
#guard Facts.asmGrammar = [("Asm", "Instructions", "[]*Instruction", "@@*"),
  ("Arg", "Sym", "*string", "(@Sym Whitespace?)?"), ("Arg", "Size", "*uint32", "(@Size Whitespace?)?"),
  ("Arg", "Flag", "*uint8", "(@Size Whitespace?)?"), ("Arg", "Selector", "*string", "(@Sym Whitespace?)?"),
  ("Arg", "Desc", "*string", "(@Sym Whitespace?)?"), ("Instruction", "OpCode", "string", "@Ident"),
  ("Instruction", "OpArg", "Arg", "(Whitespace @@)?"), ("Instruction", "Comment", "string", "Comment? EOL")]
#guard Facts.asmElided = ["Comment", "Whitespace"]
#guard batchTable = Facts.batchCodes.map fun p => (ascii p.1, p.2)
#guard opTable = Facts.opcodeIndex.map fun p => (ascii p.1, p.2)
#guard (menuDown, menuUp, menuNext, menuPrevious) = (256, 257, 258, 259)


end Vise.Asm
