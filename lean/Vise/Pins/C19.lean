/-
  Pins of the concurrency model's assumptions to the facts regenerated from the source. Imported by the C19
  proofs only.
-/
import Vise.Conc

namespace Vise.Conc

/-! ### the library's process-wide state, pinned to the regenerated inventory

Reviewed classification: compiled regular expressions, opcode tables, error values, the lexer/parser, the
logger handles and `lang.Default` are initialised once and only read; the only assignment outside `init`
is in the set-up call `vm.RegisterInputValidator`; the only non-logger method calls are reads
(`Match`, `AsString`, `Parse`). `state.FlagDebugger` and `logging.LogWriter` are written by the
client only. -/

#guard Facts.packageVars = ["vm.inputRegexStr", "vm.inputRegex", "vm.ctrlRegexStr", "vm.ctrlRegex", "vm.symRegexStr",
  "vm.symRegex", "vm.preInputRegexStr", "vm.logg", "vm.OpcodeString", "vm.OpcodeIndex", "state.FlagDebugger", "state.logg",
  "state.IndexError", "state.MaxLevel", "cache.ErrDup", "cache.logg", "render.logg", "engine.ErrFlushNoExec",
  "engine.ErrCodeRemaining", "engine.logg", "persist.logg", "resource.logg", "resource.noBinFunc", "resource.noStrFunc",
  "db.ErrTxExist", "db.ErrNoTx", "db.ErrSingleTx", "db.logg", "db/mem.logg", "db/fs.logg", "db/postgres.logg",
  "db/postgres.defaultTxOptions", "asm.asmLexer", "asm.asmParser", "asm.logg", "asm.batchCode", "lang.Default",
  "logging.LogLevel", "logging.levelStr", "logging.LogWriter"]
#guard Facts.packageVarWrites = ["vm.preInputRegexStr@RegisterInputValidator"]
#guard Facts.packageVarCalls = ["vm.inputRegex.Match@ValidInput", "vm.ctrlRegex.Match@validControl",
  "vm.symRegex.Match@ValidSym", "state.FlagDebugger.AsString@String", "asm.asmParser.Parse@Parse"]
-- every append in vm/runner.go extends a slice clipped to its length
#guard Facts.runnerAppends.all (· = "b[:len(b):len(b)]") && Facts.runnerAppends.length = 2


end Vise.Conc
