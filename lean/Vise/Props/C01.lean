/-
  C01 — Every rendered page fits the configured output size.

  Model: Vise/Render.lean (render/page.go, size.go, menu.go), `vmRender` (vm/runner.go:Render),
  `flush` (engine/db.go:Flush).
-/
import Vise.Lemmas.VmMonad

namespace Vise.C01
open Vise Res

/-- the final audit: `Sizer.Check` accepts exactly the strings that fit (for a page shorter than
4 GiB; `uint32(len(s))` would wrap beyond that). -/
theorem check_ok_iff (sz : Sizer) (r : Bytes) (hpos : sz.outputSize > 0) (hlen : r.length < U32) :
    (sz.check r).2 = true ↔ r.length ≤ sz.outputSize := by
  unfold Sizer.check
  have : r.length % U32 = r.length := Nat.mod_eq_of_lt hlen
  simp only [this, hpos, if_true]
  split <;> simp <;> omega

/-- **`Page.render` never returns an oversized page**: whatever the template, values, menu, error
prefix and page index, a page that is returned fits the output size — anything larger is an
error, and nothing is cut to make it fit (`render_is_full_instance`). -/
theorem render_fits (env : RenderEnv) (pg pg' : Page) (sym : Bytes) (values : List (Bytes × Bytes))
    (idx : Nat) (r : Bytes) (sz : Sizer) (hs : pg.sizer = some sz) (hpos : sz.outputSize > 0)
    (hlen : r.length < U32) (h : pg.render env sym values idx = .ok (r, pg')) :
    r.length ≤ sz.outputSize ∧ pg'.sizer = some sz := by
  unfold Page.render at h
  obtain ⟨s, _, h⟩ := bind_eq_ok.mp h
  obtain ⟨⟨ms, menu⟩, _, h⟩ := bind_eq_ok.mp h
  simp only [hs] at h
  generalize (if ms.length > 0 then s ++ [0x0a] ++ ms else s) = R at h
  by_cases hc : (sz.check R).2 = true
  · rw [if_pos hc] at h
    simp at h
    obtain ⟨h1, h2⟩ := h
    subst h1
    exact ⟨(check_ok_iff sz _ hpos hlen).mp hc, by rw [← h2]⟩
  · rw [if_neg hc] at h; cases h

/-- the returned page is the whole template instance followed by the whole menu: no truncation -/
theorem render_is_full_instance (env : RenderEnv) (pg pg' : Page) (sym : Bytes)
    (values : List (Bytes × Bytes)) (idx : Nat) (r : Bytes)
    (h : pg.render env sym values idx = .ok (r, pg')) :
    ∃ s ms menu, pg.renderTemplate env sym values idx = .ok s ∧ pg.menu.render env idx = .ok (ms, menu) ∧
      r = (if ms.length > 0 then s ++ [0x0a] ++ ms else s) := by
  unfold Page.render at h
  obtain ⟨s, hs, h⟩ := bind_eq_ok.mp h
  obtain ⟨⟨ms, menu⟩, hm, h⟩ := bind_eq_ok.mp h
  refine ⟨s, ms, menu, hs, hm, ?_⟩
  simp only [] at h
  generalize (if ms.length > 0 then s ++ [0x0a] ++ ms else s) = R at h ⊢
  cases hsz : pg.sizer with
  | none => simp [hsz] at h; exact h.1.symm
  | some sz =>
    simp only [hsz] at h
    by_cases hc : (sz.check R).2 = true
    · rw [if_pos hc] at h; simp at h; exact h.1.symm
    · rw [if_neg hc] at h; cases h

theorem prepareSink_keeps_size (env : RenderEnv) (pg : Page) (ca : Cache Bytes) (sz : Sizer)
    (t : List (Bytes × Bytes) × Bytes × List Bytes × Page × Sizer × Bool)
    (h : pg.prepareSink env ca sz = .ok t) : t.2.2.2.2.1.outputSize = sz.outputSize := by
  unfold Page.prepareSink at h
  obtain ⟨⟨noSink, sink, rows⟩, _, h⟩ := bind_eq_ok.mp h
  simp only [] at h
  by_cases hm : pg.menu.sink = true
  · rw [if_pos hm] at h
    by_cases hk : (!sink.isEmpty) = true
    · rw [if_pos hk] at h; cases h
    · rw [if_neg hk] at h
      split at h
      · simp at h; rw [← h]
      · cases h
      · cases h
  · rw [if_neg hm] at h
    simp at h; rw [← h]

theorem prepareRest_keeps_size (env : RenderEnv) (sym : Bytes)
    (t : List (Bytes × Bytes) × Bytes × List Bytes × Page × Sizer × Bool)
    (values : List (Bytes × Bytes)) (pg1 : Page)
    (h : Page.prepareRest env sym t = .ok (values, pg1)) :
    ∃ sz1, pg1.sizer = some sz1 ∧ sz1.outputSize = t.2.2.2.2.1.outputSize := by
  obtain ⟨noSink, sink, rows, pg, sz, aliased⟩ := t
  unfold Page.prepareRest at h
  simp only [] at h
  obtain ⟨⟨s, pg3⟩, h3, h⟩ := bind_eq_ok.mp h
  -- the pre-render keeps the sizer it was given
  have hpg3 : pg3.sizer = some (sz.addCursor 0) := by
    unfold Page.render at h3
    obtain ⟨s', _, h3⟩ := bind_eq_ok.mp h3
    obtain ⟨⟨ms', menu⟩, _, h3⟩ := bind_eq_ok.mp h3
    simp only [] at h3
    generalize (if ms'.length > 0 then s' ++ [0x0a] ++ ms' else s') = R at h3
    by_cases hcc : ((sz.addCursor 0).check R).2 = true
    · rw [if_pos hcc] at h3; simp at h3; rw [← h3.2]
    · rw [if_neg hcc] at h3; cases h3
  simp only [hpg3] at h
  by_cases hc : (!((sz.addCursor 0).check s).2) = true
  · rw [if_pos hc] at h; cases h
  · rw [if_neg hc] at h
    obtain ⟨ms, _, h⟩ := bind_eq_ok.mp h
    obtain ⟨⟨sinkString, count, crsrs⟩, _, h⟩ := bind_eq_ok.mp h
    simp at h
    obtain ⟨_, h⟩ := h
    rw [← h]
    exact ⟨_, rfl, by simp [Sizer.addCursor]⟩

/-- `prepare` keeps the output size it was configured with -/
theorem prepare_keeps_size (env : RenderEnv) (pg pg1 : Page) (ca : Cache Bytes) (sym : Bytes)
    (values : List (Bytes × Bytes)) (sz : Sizer) (hs : pg.sizer = some sz)
    (h : pg.prepare env ca sym = .ok (values, pg1)) :
    ∃ sz1, pg1.sizer = some sz1 ∧ sz1.outputSize = sz.outputSize := by
  unfold Page.prepare at h
  simp only [hs] at h
  obtain ⟨t, h1, h2⟩ := bind_eq_ok.mp h
  obtain ⟨sz1, hs1, ho⟩ := prepareRest_keeps_size env sym t values pg1 h2
  exact ⟨sz1, hs1, by rw [ho, prepareSink_keeps_size env pg ca sz t h1]⟩

/-- **`Page.Render(sym, idx)` — pre-render, row grouping, final render — never returns an oversized
page**, for every mapping, sink, menu, browse configuration, error prefix and page index. -/
theorem renderPage_fits (env : RenderEnv) (pg pg' : Page) (ca : Cache Bytes) (sym : Bytes) (idx : Nat)
    (r : Bytes) (sz : Sizer) (hs : pg.sizer = some sz) (hpos : sz.outputSize > 0) (hlen : r.length < U32)
    (h : pg.renderPage env ca sym idx = .ok (r, pg')) : r.length ≤ sz.outputSize := by
  unfold Page.renderPage at h
  obtain ⟨⟨values, pg1⟩, h1, h⟩ := bind_eq_ok.mp h
  obtain ⟨sz1, hs1, ho⟩ := prepare_keeps_size env pg pg1 ca sym values sz hs h1
  have := (render_fits env pg1 pg' sym values idx r sz1 hs1 (by omega) hlen h).1
  omega

/-- non-vacuity: a page that fits is returned, a page one byte too long is an error -/
example : (({ sizer := some { outputSize := 5 }, menu := {} } : Page).render
    { tpl := fun _ => some [104, 101, 108, 108, 111], label := fun _ => none } [120] [] 0).isOk = true := by
  decide
example : (({ sizer := some { outputSize := 4 }, menu := {} } : Page).render
    { tpl := fun _ => some [104, 101, 108, 108, 111], label := fun _ => none } [120] [] 0) = .err "limit-exceeded" := by
  decide

/-! ### the engine's Flush

`Flush` writes the rendered page and then `en.exit` — at a graceful end the last value loaded
into the cache — without looking at the output size. That is the known finding of this property
(DESIGN.md section 9, known_findings.json C01-exit-suffix): the page fits, the delivery need not. -/

/-- a state right after a graceful end: executed, nothing dirty left to render, exit value "AAA" -/
def exitWitness : Eng :=
  { vm := { st := St.new 0, ca := Cache.new 0, pg := { sizer := some { outputSize := 2 } } },
    initd := true, execd := true, exit := [65, 65, 65] }

def nullEnv : Env :=
  { code := fun _ _ => none, tpl := fun _ _ => none, label := fun _ _ => none,
    ext := fun _ _ _ _ => none, langOf := fun _ => none }

/-- **negation witness**: with an output size of 2 configured, `Flush` delivers 3 bytes. -/
theorem flush_exit_overflow_counterexample :
    (flush nullEnv { outputSize := 2 } exitWitness).1 = .ok [65, 65, 65] ∧
      [65, 65, 65].length > ({ outputSize := 2 } : Cfg).outputSize := by
  refine ⟨?_, by decide⟩
  unfold flush
  simp [exitWitness, vmRender, resetFlagM, St.resetFlag, St.getFlag, St.new, St.toByteSize,
    Facts.dirtyFlag, langOfEng]

end Vise.C01
