/-
  C01 at the level of the VM and the engine: every page `Vm.Render` returns fits the configured output size,
  for every program the VM has run before, every state, language and environment; what `Flush` delivers is
  such a page followed by the exit value (the part that is NOT bounded: finding C01-exit-suffix).
-/
import Vise.Props.C01
import Vise.Lemmas.SizeKeeps
import Vise.Lemmas.VmMonad
import Vise.Engine

namespace Vise.C01
open Vise VM

theorem renderM_fits (env : Env) (lang : Option Bytes) (sym : Bytes) (idx : Nat) (s s' : VmSt) (out : Bytes)
    (n : Nat) (hn : n > 0) (ho : outSz s = some n) (hlen : out.length < U32)
    (h : renderM env lang sym idx s = (.ok out, s')) : out.length ≤ n := by
  unfold renderM at h
  simp only [VM.bind_apply, VM.get_apply, logLookup, VM.modify_apply] at h
  cases hsz : s.pg.sizer with
  | none => simp [outSz, hsz] at ho
  | some sz =>
    have hso : sz.outputSize = n := by simpa [outSz, hsz] using ho
    cases hr : s.pg.renderPage (renderEnv env lang) s.ca sym idx with
    | ok rp =>
      obtain ⟨r, pg'⟩ := rp
      simp only [hr, VM.bind_apply, VM.modify_apply, VM.pure_apply] at h
      obtain ⟨h1, h2⟩ := Prod.mk.inj h
      have hro : r = out := by simpa using h1
      subst hro
      have hfit := renderPage_fits (renderEnv env lang) s.pg pg' s.ca sym idx r sz hsz (by omega) hlen hr
      omega
    | err k => simp [hr] at h
    | panic p => simp [hr] at h

theorem renderM_err_state (env : Env) (lang : Option Bytes) (sym : Bytes) (idx : Nat) (s s' : VmSt) (k : String)
    (m : Bytes) (h : renderM env lang sym idx s = (.err k m, s')) : outSz s' = outSz s := by
  unfold renderM at h
  simp only [VM.bind_apply, VM.get_apply, logLookup, VM.modify_apply] at h
  cases hr : s.pg.renderPage (renderEnv env lang) s.ca sym idx with
  | ok rp => simp [hr] at h
  | err k' =>
    simp only [hr, VM.fail] at h
    have := (Prod.mk.inj h).2
    subst this; rfl
  | panic p => simp [hr, VM.vpanic] at h

/-- **Every page `Vm.Render` returns fits the output size** — whatever the VM state (reached by any program),
including the fallback to the catch node when the page index is out of range. -/
theorem vmRender_fits (env : Env) (fuel : Nat) (lang : Option Bytes) (s s' : VmSt) (out : Bytes)
    (n : Nat) (hn : n > 0) (ho : outSz s = some n) (hlen : out.length < U32)
    (h : vmRender env fuel lang s = (.ok out, s')) : out.length ≤ n := by
  unfold vmRender at h
  simp only [VM.bind_apply] at h
  have h1 := (flagOps_out Facts.dirtyFlag).2.1 s
  rcases hr1 : resetFlagM Facts.dirtyFlag s with ⟨r1, s1⟩
  rw [hr1] at h h1
  have ho1 : outSz s1 = some n := by rw [← ho]; exact h1
  cases r1 with
  | err k m => simp at h
  | panic p => simp at h
  | ok changed =>
    simp only [] at h
    by_cases hc : changed = true
    · simp only [hc, Bool.not_true, Bool.false_eq_true, if_false, VM.bind_apply, VM.get_apply] at h
      by_cases hsym : (s1.st.where).1.isEmpty = true
      · simp only [hsym, if_true, VM.pure_apply] at h
        have : out = [] := by have := (Prod.mk.inj h).1; simpa using this.symm
        subst this; simp
      · simp only [hsym, Bool.false_eq_true, if_false, VM.bind_apply, VM.attempt_apply] at h
        rcases hr2 : renderM env lang (s1.st.where).1 (s1.st.where).2 s1 with ⟨r2, s2⟩
        rw [hr2] at h
        simp only [] at h
        cases r2 with
        | ok x =>
          simp only [VM.pure_apply] at h
          have : x = out := by have := (Prod.mk.inj h).1; simpa using this
          subst this
          exact renderM_fits env lang _ _ s1 s2 x n hn ho1 hlen hr2
        | panic p => simp [VM.vpanic] at h
        | err k m =>
          have hk2 : outSz s2 = some n := by rw [← ho1]; exact renderM_err_state env lang _ _ s1 s2 k m hr2
          by_cases hb : k = "browse"
          · -- the page index is past the end: vmReset, MOVE _catch, render where that leaves the session
            subst hb
            simp only [VM.bind_apply, VM.attempt_apply, VM.get_apply] at h
            have h3 := vmReset_out s2
            rcases hr3 : vmReset s2 with ⟨r3, s3⟩
            rw [hr3] at h h3
            have ho3 : outSz s3 = some n := by rw [← hk2]; exact h3
            cases r3 with
            | err k m => simp at h
            | panic p => simp at h
            | ok _ =>
              simp only [] at h
              have h4 := runLoop_out env fuel lang moveCatchCode s3
              rcases hr4 : runLoop env fuel lang moveCatchCode s3 with ⟨r4, s4⟩
              rw [hr4] at h h4
              have ho4 : outSz s4 = some n := by rw [← ho3]; exact h4
              simp only [] at h
              exact renderM_fits env lang _ _ s4 s' out n hn ho4 hlen h
          · simp [hb, VM.fail] at h
    · have : changed = false := by cases changed <;> simp_all
      subst this
      simp only [Bool.not_false, if_true, VM.pure_apply] at h
      have : out = [] := by have := (Prod.mk.inj h).1; simpa using this.symm
      subst this; simp

/-- **What `Flush` delivers is a page that fits, followed by the exit value.** The page part obeys the output
size for every engine state; the exit value (the last loaded content, appended when the session is over) is
the only part that is not checked - the open finding C01-exit-suffix, `flush_exit_overflow_counterexample`. -/
theorem flush_page_fits (env : Env) (cfg : Cfg) (e e' : Eng) (out : Bytes) (n : Nat) (hn : n > 0)
    (ho : outSz e.vm = some n) (hlen : out.length < U32) (h : flush env cfg e = (.ok out, e')) :
    ∃ page, out = page ++ e.exit ∧ page.length ≤ n := by
  unfold flush at h
  simp only [EM.bind_apply, EM.get_apply] at h
  by_cases hx : e.execd = true
  · simp only [hx, Bool.not_true, Bool.false_eq_true, if_false, EM.bind_apply, EM.attempt_apply, EM.vm_apply,
      EM.get_apply] at h
    rcases hr : vmRender env cfg.fuel (langOfEng e) e.vm with ⟨r, s1⟩
    rw [hr] at h
    simp only [] at h
    cases r with
    | ok page =>
      simp only [EM.pure_apply, EM.bind_apply] at h
      -- whatever the unwinding does afterwards, the value returned is page ++ exit
      have hout : out = page ++ e.exit := by
        by_cases hex : e.exiting = true
        · simp only [hex, if_true, EM.bind_apply, EM.attempt_apply, EM.modify_apply, EM.pure_apply] at h
          exact ((Prod.mk.inj h).1 |> fun t => by simpa using t.symm)
        · simp only [hex, Bool.false_eq_true, if_false, EM.pure_apply] at h
          exact ((Prod.mk.inj h).1 |> fun t => by simpa using t.symm)
      refine ⟨page, hout, ?_⟩
      have hpl : page.length < U32 := by rw [hout] at hlen; simp at hlen; omega
      exact vmRender_fits env cfg.fuel (langOfEng e) e.vm s1 page n hn ho hpl hr
    | panic p => simp at h
    | err k m =>
      by_cases hz : e.exit.length = 0
      · simp [hz, EM.fail] at h
      · simp only [hz, if_false, EM.pure_apply, EM.bind_apply] at h
        have hout : out = [] ++ e.exit := by
          by_cases hex : e.exiting = true
          · simp only [hex, if_true, EM.bind_apply, EM.attempt_apply, EM.modify_apply, EM.pure_apply] at h
            exact ((Prod.mk.inj h).1 |> fun t => by simpa using t.symm)
          · simp only [hex, Bool.false_eq_true, if_false, EM.pure_apply] at h
            exact ((Prod.mk.inj h).1 |> fun t => by simpa using t.symm)
        exact ⟨[], hout, by simp⟩
  · have : e.execd = false := by cases h' : e.execd <;> simp_all
    simp [this, EM.fail] at h

/-- non-vacuity: an engine configured with an output size of 20 has it in its renderer -/
example : outSz (newVmSt { outputSize := 20 } (St.new 0) (Cache.new 0) {}) = some 20 := by decide

end Vise.C01
