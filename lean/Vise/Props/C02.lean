/-
  C02 — Paginated sink content is complete, ordered and navigable.

  Model: `Page.joinSink`, `Sizer.getAt`, `Menu.applyPage` (render/page.go, size.go, menu.go),
  `St.next` / `St.previous` and the `>` / `<` targets (C04).

  Status on the current tree: the browse-entry rule, the past-the-end error and the absence of a
  crash are proved for all inputs. Completeness of the row grouping is NOT: three defects of
  `joinSink` are recorded as known findings with negation witnesses below
  (an empty row at the start of a page is dropped; a row placed first on a page after a break is
  not checked against the reduced capacity, so an offered page fails to render; a cursor is
  recorded for a trailing page that is then trimmed away).
-/
import Vise.Render

namespace Vise.C02
open Vise Res

/-- **Asking for a page never crashes**: `Sizer.GetAt` returns values or an error for every cursor
list, every value map and every index (the cursor bound check is the `fix:` commit e0a64b0). -/
theorem getAt_no_panic (sz : Sizer) (values : List (Bytes × Bytes)) (idx : Nat) :
    NoPanic (sz.getAt values idx) := by
  unfold Sizer.getAt
  split
  · exact noPanic_ok _
  · -- the fold keeps "not a panic"
    suffices H : ∀ (l : List (Bytes × Bytes)) (acc : List (Bytes × Bytes)),
        NoPanic (l.foldlM (fun acc (kv : Bytes × Bytes) =>
          if sz.sink = kv.1 then
            if idx ≥ sz.crsrs.length % 65536 then Res.err "no-more-values"
            else match sz.crsrs[idx]? with
              | none => .panic "GetAt:crsrs[idx]"
              | some c =>
                if c > kv.2.length then .err "no-more-values"
                else
                  let v := kv.2.drop c
                  let v := match indexOf 0x0a v with
                    | some nl => if nl > 0 then v.take nl else v
                    | none => v
                  .ok (acc ++ [(kv.1, replaceByte 0x00 0x0a v)])
          else .ok (acc ++ [kv])) acc) from H values []
    intro l
    induction l with
    | nil => intro acc; exact noPanic_ok _
    | cons kv rest ih =>
      intro acc
      simp only [List.foldlM_cons]
      apply NoPanic.bind
      · split
        · split
          · exact noPanic_err _
          · next hlt =>
            have hi : idx < sz.crsrs.length := by
              have := Nat.mod_le sz.crsrs.length 65536
              omega
            rw [List.getElem?_eq_getElem hi]
            simp only []
            split
            · exact noPanic_err _
            · exact noPanic_ok _
        · exact noPanic_ok _
      · intro a _; exact ih a

/-- **Past the last cursor is an error**: with a sink symbol present in the values, an index at or
beyond the number of cursors yields the out-of-range error — never content. -/
theorem past_end_is_error (sz : Sizer) (k v : Bytes) (idx : Nat) (hs : sz.sink = k) (hk : k ≠ [])
    (hi : idx ≥ sz.crsrs.length % 65536) :
    sz.getAt [(k, v)] idx = .err "no-more-values" := by
  unfold Sizer.getAt
  have : sz.sink.isEmpty = false := by rw [hs]; simpa using hk
  simp [hs, hi, hk]

/-- **The browse entries per page**: on page `idx` of `n` the menu gets the `next` entry exactly
when lateral navigation forward is configured and this is not the last page, and the `previous`
entry exactly when backward navigation is configured and this is not the first page — appended
after the ordinary items, in that order. -/
theorem next_prev_offered (m : Menu) (idx : Nat) (hn : m.pageCount > 0) (hi : idx < m.pageCount) :
    ∃ m', m.applyPage idx = .ok m' ∧
      m'.items = m.items
        ++ (if (m.browse.nextAvailable || m.canNext) && idx ≠ m.pageCount - 1
            then [(m.browse.nextSelector, m.browse.nextTitle)] else [])
        ++ (if (m.browse.prevAvailable || m.canPrev) && idx ≠ 0
            then [(m.browse.prevSelector, m.browse.prevTitle)] else []) := by
  obtain ⟨items, ⟨na, ns, nt, pa, ps, pt⟩, pc, cn, cp, sink, keep, sep, rs⟩ := m
  simp only at hn hi
  unfold Menu.applyPage
  have h0 : ¬ pc = 0 := by omega
  have h1 : ¬ idx ≥ pc := by omega
  simp only [h0, if_false, h1]
  refine ⟨_, rfl, ?_⟩
  simp only [Menu.rearm, Menu.put]
  by_cases hc : idx = pc - 1 <;> by_cases hf : idx = 0 <;>
    (try have hx : pc - 1 = 0 := by omega) <;> (try have hy : ¬ pc - 1 = 0 := by omega) <;>
    cases na <;> cases cn <;> cases pa <;> cases cp <;> simp_all

/-- for a menu as the VM builds it (availability flags start clear) the rule reads as in the
property: next on every page but the last, previous on every page but the first -/
theorem next_prev_offered_fresh (m : Menu) (idx : Nat) (hn : m.pageCount > 0) (hi : idx < m.pageCount)
    (hc : m.canNext = false ∧ m.canPrev = false) :
    ∃ m', m.applyPage idx = .ok m' ∧
      m'.items = m.items
        ++ (if m.browse.nextAvailable && idx + 1 < m.pageCount
            then [(m.browse.nextSelector, m.browse.nextTitle)] else [])
        ++ (if m.browse.prevAvailable && 0 < idx
            then [(m.browse.prevSelector, m.browse.prevTitle)] else []) := by
  obtain ⟨m', h1, h2⟩ := next_prev_offered m idx hn hi
  refine ⟨m', h1, ?_⟩
  rw [h2, hc.1, hc.2]
  have e1 : (decide (idx ≠ m.pageCount - 1)) = decide (idx + 1 < m.pageCount) := by
    apply decide_eq_decide.mpr; omega
  have e2 : (decide (idx ≠ 0)) = decide (0 < idx) := by
    apply decide_eq_decide.mpr; omega
  simp [e1, e2]

/-- **A page index past the page count is reported as the browse error** (which the VM turns
into the catch node), never rendered. -/
theorem applyPage_past_end (m : Menu) (idx : Nat) (hn : m.pageCount > 0) (hi : idx ≥ m.pageCount) :
    m.applyPage idx = .err "browse" := by
  unfold Menu.applyPage
  have h0 : ¬ m.pageCount = 0 := by omega
  simp [h0, hi]

/-! ### negation witnesses for completeness (known findings) -/

/-- rows `["", "ab", "cd"]`, plenty of room: the leading empty row is lost (the page shows two
rows, the content has three) -/
theorem leading_empty_row_dropped_counterexample :
    Page.joinSink [[], [97, 98], [99, 100]] 100 (0, 0, 0, 0) [0] =
      .ok ([97, 98, 0, 99, 100], 1, [0]) := by decide

/-- rows `["abcd", "bcdefghi", "cde"]`, 12 bytes left, `previous` entry of 4 bytes: after the
first break only 4 bytes are available, yet the 8-byte row is accepted as page 1 — that page then
fails the final size check while page 2 renders. -/
theorem first_row_of_page_unchecked_counterexample :
    Page.joinSink [[97, 98, 99, 100], [98, 99, 100, 101, 102, 103, 104, 105], [99, 100, 101]] 12
      (0, 0, 4, 4) [0] =
      .ok ([97, 98, 99, 100, 10, 98, 99, 100, 101, 102, 103, 104, 105, 10, 99, 100, 101], 3, [0, 5, 14]) := by
  decide

/-- rows `["aaaa", "bbbb", ""]` with room for two rows: a cursor (10) is recorded for a third page
that the final trim removes — three cursors, two pages. -/
theorem trailing_empty_row_extra_cursor_counterexample :
    Page.joinSink [[97, 97, 97, 97], [98, 98, 98, 98], []] 11 (0, 0, 0, 0) [0] =
      .ok ([97, 97, 97, 97, 0, 98, 98, 98, 98], 1, [0, 10]) := by decide

end Vise.C02
