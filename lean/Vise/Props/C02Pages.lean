/-
  C02 (second part) — completeness of the row grouping, by theorem, for rows that are not empty:
  reading the flattened pages back gives exactly the rows, once each, in order.
-/
import Vise.Render

namespace Vise.C02
open Vise Vise.Page

/-- the body of the `joinSink` loop -/
def joinStep (ms : Nat × Nat × Nat × Nat) (st : JoinSt) (v : Bytes) : Res JoinSt := do
  let st := { st with l := st.l + v.length }
  let st ←
    if st.l % U32 > u32sub st.net 1 then
      if st.tb.length = 0 then Res.err "sink-capacity"
      else
        let rb := st.rb ++ st.tb ++ [0x0a]
        let net := if st.count = 0 then u32sub st.net (u32add ms.2.2.1 1) else st.net
        Res.ok { st with rb := rb, crsrs := st.crsrs ++ [rb.length % U32], tb := [], l := v.length,
                         net := net, count := (st.count + 1) % 65536 }
    else Res.ok st
  let st := if st.tb.length > 0 then { st with tb := st.tb ++ [0x00], l := st.l + 1 } else st
  pure { st with tb := st.tb ++ v }

theorem joinSink_eq (rows : List Bytes) (remaining : Nat) (ms : Nat × Nat × Nat × Nat) (crsrs : List Nat) :
    joinSink rows remaining ms crsrs = (do
      let net := u32sub remaining 1
      let net := if rows.length > 1 then u32sub net (u32add ms.2.1 1) else net
      let st ← rows.foldlM (init := ({ net := net, crsrs := crsrs } : JoinSt)) (joinStep ms)
      let st := if st.tb.length > 0 then { st with rb := st.rb ++ st.tb, count := (st.count + 1) % 65536 } else st
      pure (trimRight 0x0a st.rb, st.count, st.crsrs)) := rfl

/-! ### splitting and joining -/

def Free (sep : UInt8) (r : Bytes) : Prop := sep ∉ r

theorem splitOn_free (sep : UInt8) (r : Bytes) (h : Free sep r) : splitOn sep r = [r] := by
  induction r with
  | nil => rfl
  | cons c cs ih =>
    have hc : c ≠ sep := fun e => h (by simp [e])
    have hcs : Free sep cs := fun e => h (by simp [e])
    simp [splitOn, hc, ih hcs]

theorem splitOn_append_sep (sep : UInt8) (a b : Bytes) (h : Free sep a) :
    splitOn sep (a ++ sep :: b) = a :: splitOn sep b := by
  induction a with
  | nil => simp [splitOn]
  | cons c cs ih =>
    have hc : c ≠ sep := fun e => h (by simp [e])
    have hcs : Free sep cs := fun e => h (by simp [e])
    simp [splitOn, hc, ih hcs]

theorem splitOn_joinWith (sep : UInt8) (p : List Bytes) (hne : p ≠ []) (h : ∀ r ∈ p, Free sep r) :
    splitOn sep (joinWith sep p) = p := by
  induction p with
  | nil => exact absurd rfl hne
  | cons f fs ih =>
    cases fs with
    | nil => simpa [joinWith] using splitOn_free sep f (h f (by simp))
    | cons g gs =>
      have : joinWith sep (f :: g :: gs) = f ++ sep :: joinWith sep (g :: gs) := rfl
      rw [this, splitOn_append_sep sep f _ (h f (by simp)), ih (by simp) (fun r hr => h r (by simp [hr]))]

theorem free_joinWith (sep x : UInt8) (hx : x ≠ sep) (p : List Bytes) (h : ∀ r ∈ p, Free x r) :
    Free x (joinWith sep p) := by
  induction p with
  | nil => simp [joinWith, Free]
  | cons f fs ih =>
    cases fs with
    | nil => simpa [joinWith] using h f (by simp)
    | cons g gs =>
      have : joinWith sep (f :: g :: gs) = f ++ sep :: joinWith sep (g :: gs) := rfl
      rw [this]
      intro hm
      rcases List.mem_append.mp hm with hm | hm
      · exact h f (by simp) hm
      · rcases List.mem_cons.mp hm with hm | hm
        · exact hx hm
        · exact ih (fun r hr => h r (by simp [hr])) hm

theorem joinWith_snoc (sep : UInt8) (p : List Bytes) (v : Bytes) (hne : p ≠ []) :
    joinWith sep (p ++ [v]) = joinWith sep p ++ sep :: v := by
  induction p with
  | nil => exact absurd rfl hne
  | cons f fs ih =>
    cases fs with
    | nil => simp [joinWith]
    | cons g gs =>
      have e1 : joinWith sep (f :: g :: gs) = f ++ sep :: joinWith sep (g :: gs) := rfl
      have e2 : joinWith sep ((f :: g :: gs) ++ [v]) = f ++ sep :: joinWith sep ((g :: gs) ++ [v]) := rfl
      rw [e2, ih (by simp), e1]; simp

/-- the text of completed pages: every page's rows joined by NUL and closed by a line feed -/
def pagesText (pages : List (List Bytes)) : Bytes := pages.flatMap fun p => joinWith 0x00 p ++ [0x0a]

/-- reading a flattened sink back: pages are separated by line feeds, rows within a page by NUL -/
def readBack (rb : Bytes) : List Bytes := (splitOn 0x0a rb).flatMap (splitOn 0x00)

theorem readBack_pages (pages : List (List Bytes)) (cur : List Bytes) (hcur : cur ≠ [])
    (hp : ∀ p ∈ pages, p ≠ [] ∧ ∀ r ∈ p, Free 0x0a r ∧ Free 0x00 r) (hc : ∀ r ∈ cur, Free 0x0a r ∧ Free 0x00 r) :
    readBack (pagesText pages ++ joinWith 0x00 cur) = pages.flatten ++ cur := by
  induction pages with
  | nil =>
    have hf : Free 0x0a (joinWith 0x00 cur) := free_joinWith 0x00 0x0a (by decide) cur (fun r hr => (hc r hr).1)
    simp [pagesText, readBack, splitOn_free _ _ hf, splitOn_joinWith 0x00 cur hcur (fun r hr => (hc r hr).2)]
  | cons p ps ih =>
    obtain ⟨hpne, hpr⟩ := hp p (by simp)
    have hf : Free 0x0a (joinWith 0x00 p) := free_joinWith 0x00 0x0a (by decide) p (fun r hr => (hpr r hr).1)
    have e : pagesText (p :: ps) ++ joinWith 0x00 cur
        = joinWith 0x00 p ++ 0x0a :: (pagesText ps ++ joinWith 0x00 cur) := by
      simp [pagesText, List.append_assoc]
    rw [e]
    unfold readBack
    rw [splitOn_append_sep 0x0a _ _ hf]
    have := ih (fun q hq => hp q (by simp [hq]))
    unfold readBack at this
    simp [this, splitOn_joinWith 0x00 p hpne (fun r hr => (hpr r hr).2)]

/-! ### the loop invariant -/

def RowOk (r : Bytes) : Prop := r ≠ [] ∧ Free 0x0a r ∧ Free 0x00 r

/-- after the rows `done`: completed pages in `rb`, the rows of the page being filled in `tb` -/
def JInv (done : List Bytes) (st : JoinSt) : Prop :=
  ∃ (pages : List (List Bytes)) (cur : List Bytes),
    st.rb = pagesText pages ∧ st.tb = joinWith 0x00 cur ∧ pages.flatten ++ cur = done ∧
    (done ≠ [] → cur ≠ []) ∧ (∀ p ∈ pages, p ≠ [])

theorem joinWith_ne_nil (sep : UInt8) (p : List Bytes) (hne : p ≠ []) (h : ∀ r ∈ p, r ≠ []) :
    joinWith sep p ≠ [] := by
  cases p with
  | nil => exact absurd rfl hne
  | cons f fs =>
    cases fs with
    | nil => simpa [joinWith] using h f (by simp)
    | cons g gs =>
      have : joinWith sep (f :: g :: gs) = f ++ sep :: joinWith sep (g :: gs) := rfl
      rw [this]; simp

theorem pagesText_snoc (pages : List (List Bytes)) (cur : List Bytes) :
    pagesText (pages ++ [cur]) = pagesText pages ++ joinWith 0x00 cur ++ [0x0a] := by
  simp [pagesText, List.append_assoc]

theorem joinStep_inv (ms : Nat × Nat × Nat × Nat) (done : List Bytes) (st st' : JoinSt) (v : Bytes)
    (hd : ∀ r ∈ done, r ≠ []) (_hv : v ≠ []) (hi : JInv done st) (hs : joinStep ms st v = .ok st') :
    JInv (done ++ [v]) st' := by
  obtain ⟨pages, cur, hrb, htb, hfl, hcur, hpg⟩ := hi
  have hcurrows : ∀ r ∈ cur, r ≠ [] := fun r hr => hd r (by rw [← hfl]; simp [hr])
  have htbcur : st.tb = [] → cur = [] := by
    intro h
    apply Classical.byContradiction
    intro hc
    exact joinWith_ne_nil 0x00 cur hc hcurrows (by rw [← htb]; exact h)
  unfold joinStep at hs
  simp only [Res.pure_eq, Res.bind_ok] at hs
  by_cases hov : (st.l + v.length) % U32 > u32sub st.net 1
  · simp only [hov, if_true] at hs
    by_cases hte : st.tb.length = 0
    · simp [hte] at hs
    · simp only [hte, if_false, Res.bind_ok, List.length_nil, Nat.lt_irrefl, if_false, List.nil_append] at hs
      have := Res.ok.inj hs
      subst this
      have hcne : cur ≠ [] := by
        intro hc; apply hte; rw [htb, hc]; rfl
      refine ⟨pages ++ [cur], [v], ?_, rfl, ?_, fun _ => by simp, ?_⟩
      · simp [pagesText_snoc, hrb, htb]
      · simp [hfl]
      · intro p hp
        rcases List.mem_append.mp hp with hp | hp
        · exact hpg p hp
        · simp at hp; subst hp; exact hcne
  · simp only [hov, if_false, Res.bind_ok] at hs
    by_cases htl : st.tb.length > 0
    · simp only [htl, if_true] at hs
      have := Res.ok.inj hs
      subst this
      have hcne : cur ≠ [] := by
        intro hc; rw [htb, hc] at htl; simp [joinWith] at htl
      refine ⟨pages, cur ++ [v], hrb, ?_, ?_, fun _ => by simp, hpg⟩
      · simp [htb, joinWith_snoc 0x00 cur v hcne]
      · rw [← hfl]; simp
    · simp only [htl, if_false] at hs
      have := Res.ok.inj hs
      subst this
      have hte : st.tb = [] := by
        cases h : st.tb with
        | nil => rfl
        | cons a b => simp [h] at htl
      have hc := htbcur hte
      subst hc
      refine ⟨pages, [v], hrb, by simp [hte, joinWith], ?_, fun _ => by simp, hpg⟩
      rw [← hfl]; simp

theorem foldlM_inv (ms : Nat × Nat × Nat × Nat) (rows : List Bytes) :
    ∀ (done : List Bytes) (st st' : JoinSt), (∀ r ∈ done ++ rows, r ≠ []) → JInv done st →
      rows.foldlM (joinStep ms) st = .ok st' → JInv (done ++ rows) st' := by
  induction rows with
  | nil => intro done st st' _ hi h; simp [List.foldlM] at h; cases h; simpa using hi
  | cons v vs ih =>
    intro done st st' hr hi h
    simp only [List.foldlM_cons] at h
    obtain ⟨st1, h1, h2⟩ := Res.bind_eq_ok.mp h
    have hv : v ≠ [] := hr v (by simp)
    have hd : ∀ r ∈ done, r ≠ [] := fun r hr' => hr r (by simp [hr'])
    have := ih (done ++ [v]) st1 st' (by intro r hr'; apply hr; simp at hr' ⊢; exact hr')
      (joinStep_inv ms done st st1 v hd hv hi h1) h2
    simpa using this

theorem trimRight_of_last_ne (c : UInt8) (init : Bytes) (x : UInt8) (hx : x ≠ c) :
    trimRight c (init ++ [x]) = init ++ [x] := by
  simp [trimRight, List.reverse_append, List.dropWhile, hx]

theorem joinWith_last (sep : UInt8) (cs : List Bytes) (w : Bytes) (x : UInt8) :
    ∃ init, joinWith sep (cs ++ [w ++ [x]]) = init ++ [x] := by
  by_cases hc : cs = []
  · subst hc; exact ⟨w, by simp [joinWith]⟩
  · exact ⟨joinWith sep cs ++ sep :: w, by rw [joinWith_snoc sep cs _ hc]; simp⟩

/-- **Completeness of the row grouping (partial: rows that are not empty).** Whenever `joinSink` succeeds on
rows none of which is empty (or contains the two separator bytes), reading the flattened pages back - pages
separated by line feeds, rows within a page by NUL - gives exactly the rows, each once, in order: nothing is
dropped, duplicated or reordered, however the size arithmetic placed the page breaks. (With an empty row the
statement is false on the tree: the three counterexamples in C02.lean, known findings.) -/
theorem joinSink_complete_partial (rows : List Bytes) (remaining : Nat) (ms : Nat × Nat × Nat × Nat)
    (crsrs : List Nat) (rb : Bytes) (count : Nat) (cs : List Nat)
    (hne : rows ≠ []) (hrows : ∀ r ∈ rows, RowOk r)
    (h : joinSink rows remaining ms crsrs = .ok (rb, count, cs)) :
    readBack rb = rows := by
  rw [joinSink_eq] at h
  simp only [Res.pure_eq] at h
  obtain ⟨st, hfold, hfin⟩ := Res.bind_eq_ok.mp h
  have hinit : ∀ st0 : JoinSt, st0.rb = [] → st0.tb = [] → JInv [] st0 := fun st0 h1 h2 =>
    ⟨[], [], by simp [h1, pagesText], by simp [h2, joinWith], rfl, fun h => absurd rfl h, by simp⟩
  have hinv := foldlM_inv ms rows [] _ st (by intro r hr; simp at hr; exact (hrows r hr).1) (hinit _ rfl rfl) hfold
  simp only [List.nil_append] at hinv
  obtain ⟨pages, cur, hrb, htb, hfl, hcur, hpg⟩ := hinv
  have hcne := hcur hne
  have hcurrows : ∀ r ∈ cur, RowOk r := fun r hr => hrows r (by rw [← hfl]; simp [hr])
  have hpagerows : ∀ p ∈ pages, p ≠ [] ∧ ∀ r ∈ p, Free 0x0a r ∧ Free 0x00 r := by
    intro p hp
    refine ⟨hpg p hp, fun r hr => ?_⟩
    have : r ∈ rows := by rw [← hfl]; simp; left; exact ⟨p, hp, hr⟩
    exact (hrows r this).2
  have htbne : st.tb.length > 0 := by
    have := joinWith_ne_nil 0x00 cur hcne (fun r hr => (hcurrows r hr).1)
    rw [← htb] at this
    cases hh : st.tb with
    | nil => exact absurd hh this
    | cons a b => simp
  simp only [htbne, if_true] at hfin
  have hrbeq : rb = trimRight 0x0a (st.rb ++ st.tb) := by
    have := Res.ok.inj hfin
    exact (Prod.mk.inj this).1.symm
  -- the text ends with the last byte of the last row, which is not a line feed
  obtain ⟨cs', w, hcw⟩ : ∃ cs' w, cur = cs' ++ [w] := ⟨cur.dropLast, cur.getLast hcne, (List.dropLast_concat_getLast hcne).symm⟩
  have hw : RowOk w := hcurrows w (by rw [hcw]; simp)
  obtain ⟨w', x, hwx⟩ : ∃ w' x, w = w' ++ [x] := ⟨w.dropLast, w.getLast hw.1, (List.dropLast_concat_getLast hw.1).symm⟩
  have hx : x ≠ 0x0a := by
    intro e; apply hw.2.1; rw [hwx, e]; simp
  obtain ⟨init, hinit'⟩ := joinWith_last 0x00 cs' w' x
  have htrim : trimRight 0x0a (st.rb ++ st.tb) = st.rb ++ st.tb := by
    rw [htb, hcw, hwx, hinit', ← List.append_assoc]
    exact trimRight_of_last_ne _ _ _ hx
  rw [hrbeq, htrim, hrb, htb, readBack_pages pages cur hcne hpagerows (fun r hr => (hcurrows r hr).2), hfl]

/-- non-vacuity: three rows over two pages -/
example :
    joinSink [[0x61, 0x62], [0x63], [0x64, 0x65]] 6 (0, 0, 0, 0) [] = .ok ([0x61, 0x62, 0x00, 0x63, 0x0a, 0x64, 0x65], 2, [5])
    ∧ readBack [0x61, 0x62, 0x00, 0x63, 0x0a, 0x64, 0x65] = [[0x61, 0x62], [0x63], [0x64, 0x65]] := by decide

end Vise.C02
