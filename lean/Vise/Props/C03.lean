/-
  C03 — Client input is routed by the first matching INCMP, once.

  Model: `runInCmp`, `incmpMove`, `runDeadCheck`, the resume branch of `runLoop` (vm/runner.go).
  The unchanged code violates the "once" clause (known finding C03-duplicate-selector; it cannot
  be repaired without editing vm.TestRunReturn): `incmp_after_match_still_moves` is the negation
  witness; the other theorems are the strongest true statements, for all programs and inputs.
-/
import Vise.Lemmas.Flags

namespace Vise.C03
open Vise VM

/-- the state with flag `i` forced to `v` -/
def withFlag (s : VmSt) (i : Nat) (v : Bool) : VmSt :=
  { s with st := { s.st with flags := s.st.flags.set i v } }

theorem readin_lt (s : VmSt) (h : FlagsOk s.st) : Facts.readinFlag < s.st.bitSize ∧
    Facts.inmatchFlag < s.st.bitSize := by
  unfold FlagsOk at h
  have : Facts.readinFlag = 0 := rfl
  have : Facts.inmatchFlag = 1 := rfl
  omega

/-- **An INCMP that does not match does not move.** Its selector is neither the input nor an
applicable wildcard (`*` applies only while nothing has matched yet): the rest of the code is
returned and the state is untouched except that READIN is now set. -/
theorem incmp_no_match_skips (env : Env) (lang : Option Bytes) (b rest sym sel input : Bytes)
    (s : VmSt) (hok : FlagsOk s.st) (reading : Bool)
    (hr : s.st.getFlag Facts.readinFlag = .ok reading) (hh : s.st.getFlag Facts.inmatchFlag = .ok false)
    (hp : parseTwoSym b = .ok (sym, sel, rest)) (hin : s.st.input = some input)
    (hne : sel ≠ input) (hw : sel ≠ [0x2a]) :
    runInCmp env lang b s = (.ok rest, withFlag s Facts.readinFlag true) := by
  obtain ⟨c, hc⟩ := setFlagM_frame s hok Facts.readinFlag (readin_lt s hok).1
  unfold runInCmp
  simp [decodeErr, hp, getFlagM_eq s _ _ hr, getFlagM_eq s _ _ hh, hc, hin, hne, hw, withFlag]

/-- **The first INCMP that matches decides the move**: nothing has matched yet since the resume
(INMATCH clear) and the selector equals the input or is the wildcard — then the instruction is
exactly the move to its target (`incmpMove`), with READIN set. -/
theorem incmp_first_match_moves (env : Env) (lang : Option Bytes) (b rest sym sel input : Bytes)
    (s : VmSt) (hok : FlagsOk s.st) (reading : Bool)
    (hr : s.st.getFlag Facts.readinFlag = .ok reading) (hh : s.st.getFlag Facts.inmatchFlag = .ok false)
    (hp : parseTwoSym b = .ok (sym, sel, rest)) (hin : s.st.input = some input)
    (hm : sel = input ∨ sel = [0x2a]) :
    runInCmp env lang b s = incmpMove env lang sym rest (withFlag s Facts.readinFlag true) := by
  obtain ⟨c, hc⟩ := setFlagM_frame s hok Facts.readinFlag (readin_lt s hok).1
  unfold runInCmp
  rcases hm with hm | hm <;>
    simp [decodeErr, hp, getFlagM_eq s _ _ hr, getFlagM_eq s _ _ hh, hc, hin, hm, withFlag]

/-- the wildcard is honoured only by the first match: once something has matched, `*` no longer
matches anything but the literal input `*`. -/
theorem wildcard_only_first (env : Env) (lang : Option Bytes) (b rest sym input : Bytes)
    (s : VmSt) (hh : s.st.getFlag Facts.inmatchFlag = .ok true)
    (hr : s.st.getFlag Facts.readinFlag = .ok false)
    (hp : parseTwoSym b = .ok (sym, [0x2a], rest)) (hin : s.st.input = some input)
    (hne : input ≠ [0x2a]) :
    runInCmp env lang b s = (.ok rest, s) := by
  unfold runInCmp
  have : ([0x2a] : Bytes) ≠ input := fun h => hne h.symm
  simp [decodeErr, hp, getFlagM_eq s _ _ hr, getFlagM_eq s _ _ hh, hin, this]

/-- while a match stands and input is still being read (the state after a `<` on the first
page), every further INCMP is ignored. -/
theorem incmp_ignored_after_index_error (env : Env) (lang : Option Bytes) (b rest sym sel : Bytes)
    (s : VmSt) (hh : s.st.getFlag Facts.inmatchFlag = .ok true)
    (hr : s.st.getFlag Facts.readinFlag = .ok true)
    (hp : parseTwoSym b = .ok (sym, sel, rest)) :
    runInCmp env lang b s = (.ok rest, s) := by
  unfold runInCmp
  simp [decodeErr, hp, getFlagM_eq s _ _ hr, getFlagM_eq s _ _ hh]

/-- **negation witness for "no other INCMP causes a second move"** (known finding): after a
match (INMATCH set, READIN cleared by the match) a later INCMP with the same selector is compared
again and performs its move too. -/
theorem incmp_after_match_still_moves (env : Env) (lang : Option Bytes) (b rest sym input : Bytes)
    (s : VmSt) (hh : s.st.getFlag Facts.inmatchFlag = .ok true)
    (hr : s.st.getFlag Facts.readinFlag = .ok false)
    (hp : parseTwoSym b = .ok (sym, input, rest)) (hin : s.st.input = some input) :
    runInCmp env lang b s = incmpMove env lang sym rest s := by
  unfold runInCmp
  simp [decodeErr, hp, getFlagM_eq s _ _ hr, getFlagM_eq s _ _ hh, hin]

/-- the strongest true "at most one" statement: a later INCMP moves only if its selector equals
the input again; with pairwise distinct selectors after the first match nothing else moves. -/
theorem incmp_after_match_distinct_selector_skips (env : Env) (lang : Option Bytes)
    (b rest sym sel input : Bytes) (s : VmSt) (hh : s.st.getFlag Facts.inmatchFlag = .ok true)
    (hr : s.st.getFlag Facts.readinFlag = .ok false)
    (hp : parseTwoSym b = .ok (sym, sel, rest)) (hin : s.st.input = some input) (hne : sel ≠ input) :
    runInCmp env lang b s = (.ok rest, s) := by
  unfold runInCmp
  simp [decodeErr, hp, getFlagM_eq s _ _ hr, getFlagM_eq s _ _ hh, hin, hne]

/-- **If none matches, the session goes to the catch node with the invalid-input message showing
that input**: code exhausted while input is being handled. -/
theorem no_match_goes_to_catch (s : VmSt) (input : Bytes)
    (hr : s.st.getFlag Facts.readinFlag = .ok true) (ht : s.st.getFlag Facts.terminateFlag = .ok false)
    (hloc : s.st.where.1 ≠ [] ∧ s.st.where.1 ≠ catchSym) (hin : s.st.input = some input) :
    (runDeadCheck s).1 = .ok moveCatchCode ∧
    (runDeadCheck s).2.pg.err = some (ascii "invalid input: '" ++ input ++ ascii "'") := by
  unfold runDeadCheck
  simp [matchFlagM, getFlagM, hr, ht, hloc.1, hloc.2, hin]

/-- the catch code is `MOVE _catch` -/
theorem moveCatchCode_decodes : decodeOne moveCatchCode = .ok (.move catchSym, []) := by decide

/-- **A 'previous' request on the first page counts as no match**: the move fails with the
index error, READIN is set again (so every later INCMP of this request is ignored, see
`incmp_ignored_after_index_error`) and the position is unchanged. -/
theorem prev_on_first_page_is_no_match (env : Env) (lang : Option Bytes) (rest : Bytes) (s : VmSt)
    (hok : FlagsOk s.st) (hp : s.st.execPath ≠ []) (hi : s.st.sizeIdx = 0) :
    (incmpMove env lang [0x3c] rest s).1 = .ok rest ∧
    (incmpMove env lang [0x3c] rest s).2.st.execPath = s.st.execPath ∧
    (incmpMove env lang [0x3c] rest s).2.st.sizeIdx = 0 ∧
    (incmpMove env lang [0x3c] rest s).2.st.getFlag Facts.readinFlag = .ok true ∧
    (incmpMove env lang [0x3c] rest s).2.st.getFlag Facts.inmatchFlag = .ok true := by
  have hlt := readin_lt s hok
  have hv : validTarget [0x3c] = true := by
    simp [validTarget, matchesCtrl, matchesSym, catchSym, isAlnum]
  -- the move itself: `<` at index 0 fails with the index error and changes nothing
  have hat : ∀ (t : VmSt), t.st.execPath ≠ [] → t.st.sizeIdx = 0 →
      applyTarget [0x3c] t = (.err "index" (ascii "already at first index"), t) := by
    intro t htp hti
    unfold applyTarget
    simp [hv, St.previous, hti, htp]
  have hok1 : FlagsOk ({ s.st with flags := s.st.flags.set Facts.inmatchFlag true } : St) :=
    flagsOk_set s.st hok _ _
  have hok2 : FlagsOk ({ s.st with flags := (s.st.flags.set Facts.inmatchFlag true).set Facts.readinFlag false } : St) :=
    flagsOk_set _ hok1 _ _
  unfold incmpMove
  simp only [VM.bind_apply, setFlagM_eq s hok _ hlt.2]
  rw [resetFlagM_eq _ hok1 _ (by simpa using hlt.1)]
  simp only [logMove, VM.modify_apply, VM.attempt_apply]
  rw [hat _ (by simpa using hp) (by simpa using hi)]
  simp only [VM.bind_apply]
  rw [setFlagM_eq _ hok2 _ (by simpa using hlt.1)]
  refine ⟨rfl, rfl, by simpa using hi, ?_, ?_⟩
  · exact getFlag_set_self _ hok2 _ (by simpa using hlt.1) _
  · simp only [VM.pure_apply]
    have hb : ¬ Facts.inmatchFlag + 1 > s.st.bitSize := by omega
    have hl : Facts.inmatchFlag < s.st.flags.length := by unfold FlagsOk at hok; omega
    unfold St.getFlag
    simp only [hb, if_false]
    rw [List.getElem?_set_ne (by decide), List.getElem?_set_ne (by decide)]
    simp [hl]

/-- **The invalid-input message shows the input, whatever bytes it contains** (since the fix that prepends the error
text to the rendered OUTPUT; before it the text was prepended to the template SOURCE and parsed with it, so an accepted
input containing `{{` made the page fail or was executed as a template action): a page that renders to `r` without an
error text renders to `e ++ "\n" ++ r` with the error text `e`, for every `e`. -/
theorem error_prefix_is_literal (env : RenderEnv) (pg : Page) (sym : Bytes) (values : List (Bytes × Bytes)) (idx : Nat)
    (e r t : Bytes) (ht : env.tpl sym = some t) (hne : (t ++ pg.extra).length ≠ 0)
    (h : ({ pg with err := none }).renderTemplate env sym values idx = .ok r) :
    ({ pg with err := some e }).renderTemplate env sym values idx = .ok (e ++ [0x0a] ++ r) := by
  unfold Page.renderTemplate at h ⊢
  simp only [ht, Res.bind_ok] at h ⊢
  cases hs : pg.sizer with
  | none =>
    simp only [hs] at h ⊢
    by_cases hi : idx > 0
    · simp [hi] at h
    · simp only [hi, if_false, Res.bind_ok] at h ⊢
      cases hx : execTpl (t ++ pg.extra) values with
      | ok r' =>
        simp only [hx, Res.bind_ok, pure, Res.ok.injEq] at h ⊢
        subst h
        have hne' : ¬ (t = [] ∧ pg.extra = []) := by
          intro hh; apply hne; simp [hh.1, hh.2]
        simp
        intro h1 h2; exact hne' ⟨h1, h2⟩
      | err k => simp [hx] at h
      | panic k => simp [hx] at h
  | some sz =>
    simp only [hs] at h ⊢
    cases hg : sz.getAt values idx with
    | ok vs =>
      simp only [hg, Res.bind_ok] at h ⊢
      cases hx : execTpl (t ++ pg.extra) vs with
      | ok r' =>
        simp only [hx, Res.bind_ok, pure, Res.ok.injEq] at h ⊢
        subst h
        have hne' : ¬ (t = [] ∧ pg.extra = []) := by
          intro hh; apply hne; simp [hh.1, hh.2]
        simp
        intro h1 h2; exact hne' ⟨h1, h2⟩
      | err k => simp [hx] at h
      | panic k => simp [hx] at h
    | err k => simp [hg] at h
    | panic k => simp [hg] at h

end Vise.C03
