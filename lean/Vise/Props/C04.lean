/-
  C04 — Navigation stack and page index follow the documented move table.

  Model: `applyTarget` / `rewind` (vm/input.go, vm/runner.go) over `St` (state/state.go).
  Spec: `specMove`, transcribed from doc/texinfo/navigation.texi (the table in "Navigation stack").
-/
import Vise.Lemmas.VmMonad

namespace Vise.C04
open Vise VM

/-- a session's position: navigation stack and page index -/
abbrev Pos := List Bytes × Nat

def pos (s : VmSt) : Pos := (s.st.execPath, s.st.sizeIdx)

def isCtrl (t : Bytes) : Bool := t = [0x5f] || t = [0x3e] || t = [0x3c] || t = [0x5e] || t = [0x2e]

/-- The documented move table. `none` = the move fails.
`_` pops one level; `^` returns to the entry node; `.` stays; `>` / `<` change only the page
index and `<` fails at index 0; a named node is pushed with index 0. (That `_` at the entry node
makes the *request* fail is `move_up_at_entry_fails` below: the pop itself succeeds and it is the
code lookup for the now empty position that fails.) -/
def specMove (p : Pos) (t : Bytes) : Option Pos :=
  if t = [0x5f] then (if p.1 = [] then none else some (p.1.dropLast, 0))
  else if t = [0x3e] then (if p.1 = [] then none else some (p.1, (p.2 + 1) % 65536))
  else if t = [0x3c] then (if p.1 = [] ∨ p.2 = 0 then none else some (p.1, p.2 - 1))
  else if t = [0x5e] then some (p.1.take 1, if p.1.length > 1 then 0 else p.2)
  else if t = [0x2e] then some p
  else some (p.1 ++ [t], 0)

theorem pop_ok (ca : Cache Bytes) (h : ca.frames ≠ []) : ca.pop.2 = .ok () ∧ ca.pop.1.frames ≠ [] := by
  cases hf : ca.frames with
  | nil => exact absurd hf h
  | cons f fr =>
    refine ⟨by simp [Cache.pop, hf], ?_⟩
    simp only [Cache.pop, hf]
    split <;> simp_all

theorem rewind_spec (fuel : Nat) (sym : Bytes) (s : VmSt) (hf : s.st.execPath.length ≤ fuel)
    (hca : s.ca.frames ≠ []) :
    (∃ r, (rewind fuel sym s).1 = .ok r) ∧
      (rewind fuel sym s).2.st.execPath = s.st.execPath.take 1 ∧
      (rewind fuel sym s).2.st.sizeIdx = (if s.st.execPath.length > 1 then 0 else s.st.sizeIdx) := by
  induction fuel generalizing sym s with
  | zero =>
    have : s.st.execPath = [] := List.eq_nil_of_length_eq_zero (by omega)
    simp [rewind, this]
  | succ fuel ih =>
    unfold rewind
    match hp : s.st.execPath with
    | [] => simp [St.top, St.up, hp]
    | [x] => simp [St.top, hp]
    | x :: y :: rest =>
      obtain ⟨hpop, hpopne⟩ := pop_ok s.ca hca
      have hlen : ((x :: y :: rest).dropLast).length ≤ fuel := by
        rw [hp] at hf; simp at hf ⊢; omega
      have := ih (((x :: y :: rest).dropLast.getLast?).getD [])
        { s with st := { s.st with execPath := (x :: y :: rest).dropLast, sizeIdx := 0, moves := (s.st.moves + 1) % 4294967296, lastMove := 1 }, ca := s.ca.pop.1 }
        hlen hpopne
      simp [St.top, St.up, hp, hpop]
      simp at this
      refine ⟨this.1, ?_, ?_⟩
      · rw [this.2.1]
      · rw [this.2.2]

/-- **Every successful move lands where the table says; every failing move leaves the position
unchanged.** For all states, all targets. The hypotheses exclude only the two explicit panics of
`State.Down` (more than 128 levels; descending into the node one is on — both outside a
well-formed application, see C08) and an impossible empty cache. -/
theorem applyTarget_refines (s : VmSt) (t : Bytes) (hv : validTarget t = true)
    (hca : s.ca.frames ≠ [])
    (hdown : isCtrl t = false → s.st.execPath.length ≤ Facts.maxLevel ∧ s.st.execPath.getLast? ≠ some t) :
    match specMove (pos s) t with
    | some p' => (∃ r, (applyTarget t s).1 = .ok r) ∧ pos (applyTarget t s).2 = p'
    | none => (∃ k m, (applyTarget t s).1 = .err k m) ∧ pos (applyTarget t s).2 = pos s := by
  obtain ⟨hpop, _⟩ := pop_ok s.ca hca
  unfold applyTarget specMove pos
  by_cases h1 : t = [0x5f]
  · subst h1
    by_cases hp : s.st.execPath = []
    · simp [hv, hp, St.up, St.where]
    · have hpe : s.st.execPath.isEmpty = false := by simpa using hp
      simp [hv, hp, hpe, St.up, hpop]
  by_cases h2 : t = [0x3e]
  · subst h2
    by_cases hp : s.st.execPath = []
    · simp [hv, hp, St.next, St.where]
    · have hpe : s.st.execPath.isEmpty = false := by simpa using hp
      simp [hv, hp, hpe, St.next]
  by_cases h3 : t = [0x3c]
  · subst h3
    by_cases hp : s.st.execPath = []
    · simp [hv, hp, St.previous, St.where]
    · have hpe : s.st.execPath.isEmpty = false := by simpa using hp
      by_cases hi : s.st.sizeIdx = 0
      · simp [hv, hp, hi, hpe, St.previous]
      · simp [hv, hp, hi, hpe, St.previous]
  by_cases h4 : t = [0x5e]
  · subst h4
    obtain ⟨⟨r, hr1⟩, hr2, hr3⟩ := rewind_spec (s.st.execPath.length + 1) s.st.where.1 s (by omega) hca
    rcases hrw : rewind (s.st.execPath.length + 1) s.st.where.1 s with ⟨res, s'⟩
    rw [hrw] at hr1 hr2 hr3
    simp at hr1 hr2 hr3
    subst hr1
    simp [hv, hrw, hr2, hr3]
  by_cases h5 : t = [0x2e]
  · subst h5
    simp [hv, St.same]
  have hc : isCtrl t = false := by simp [isCtrl, h1, h2, h3, h4, h5]
  obtain ⟨hl, hlast⟩ := hdown hc
  have hd : s.st.down t = .ok { s.st with execPath := s.st.execPath ++ [t], sizeIdx := 0, moves := (s.st.moves + 1) % 4294967296, lastMove := 0 } := by
    unfold St.down
    have : ¬ s.st.execPath.length > Facts.maxLevel := by omega
    simp [this, hlast]
  simp [hv, h1, h2, h3, h4, h5, hd]

/-- descending and ascending always reset the page index; lateral moves never touch the stack. -/
theorem idx_reset_on_down_up (s : VmSt) (t : Bytes) (p' : Pos)
    (h : specMove (pos s) t = some p') (ht : t ≠ [0x3e] ∧ t ≠ [0x3c] ∧ t ≠ [0x2e] ∧ t ≠ [0x5e]) :
    p'.2 = 0 := by
  unfold specMove at h
  obtain ⟨h2, h3, h4, h5⟩ := ht
  by_cases h1 : t = [0x5f]
  · simp [h1] at h; rw [← h.2]
  · simp [h1, h2, h3, h4, h5] at h; rw [← h]

theorem lateral_keeps_stack (p p' : Pos) (t : Bytes) (ht : t = [0x3e] ∨ t = [0x3c])
    (h : specMove p t = some p') : p'.1 = p.1 := by
  unfold specMove at h
  rcases ht with ht | ht <;> subst ht <;> simp at h <;> rw [← h.2]

/-- `<` on the first page fails with the distinguished index error and changes nothing (INCMP
then treats the input as unmatched, see C03). -/
theorem previous_at_zero_fails (s : VmSt) (hp : s.st.execPath ≠ []) (hi : s.st.sizeIdx = 0) :
    (applyTarget [0x3c] s).1 = .err "index" (ascii "already at first index") ∧
    (applyTarget [0x3c] s).2 = s := by
  have hpe : s.st.execPath.isEmpty = false := by simpa using hp
  have hv : validTarget [0x3c] = true := by
    simp [validTarget, matchesCtrl, matchesSym, catchSym, isAlnum, ascii]
  unfold applyTarget
  simp [hv, St.previous, hi, hp]

/-- the table from the documentation, replayed on the spec (bytes: foo, bar, baz) -/
example :
    let foo : Bytes := [102, 111, 111]
    let bar : Bytes := [98, 97, 114]
    let baz : Bytes := [98, 97, 122]
    let step := fun (p : Pos) (t : Bytes) => (specMove p t).getD p
    [foo, bar, baz, [0x3e], [0x3e], [0x3c], [0x2e], [0x5f], baz, [0x5e]].foldl step ([], 0)
      = ([foo], 0) := by
  decide

end Vise.C04
