/-
  C04 (engine part) — reset-on-empty-input: `Engine.Reset` unwinds from ANY depth, the entry node included, and leaves
  the entry move pending, so that the request continues at the entry node with page index 0.
  (A second-wave seeded change made `Reset` a no-op at the entry node; the move table then gave `root/_catch`.)
-/
import Vise.Props.C20Unwind

namespace Vise.C04
open Vise EM Vise.C20

/-- the pending bytecode is not changed -/
def ECode (e e' : Eng) : Prop := e'.vm.st.code = e.vm.st.code

theorem eCode_pre : EPre ECode := ⟨fun _ => rfl, fun _ _ _ h1 h2 => h2.trans h1⟩

theorem EKeeps.vm_code {α} {x : VM α} (h : Keeps SameCachePagePos x) : EKeeps ECode (EM.vm x) := by
  intro e
  simp only [EM.vm_apply, ECode]
  exact (h e.vm).2.2.2.2.1

theorem resetTail_code : EKeeps ECode (do
    let _ ← vm (resetFlagM Facts.terminateFlag)
    let _ ← vm (resetFlagM Facts.dirtyFlag)
    pure () : EM Unit) := by
  have P := eCode_pre
  apply EKeeps.bind P (EKeeps.vm_code (resetFlagM_keeps _)); intro _
  apply EKeeps.bind P (EKeeps.vm_code (resetFlagM_keeps _)); intro _
  exact EKeeps.pure P _

theorem up_code (st : St) (x : Bytes) (st' : St) (h : st.up = .ok (x, st')) : st'.code = st.code := by
  unfold St.up at h
  split at h
  · cases h
  · simp only [Res.ok.injEq, Prod.mk.injEq] at h
    rw [← h.2]

theorem restart_code (st st' : St) (h : st.restart = .ok st') : st'.code = st.code := by
  unfold St.restart at h
  split at h
  · cases h
  · split at h
    · cases h
    · simp only [Res.ok.injEq] at h
      rw [← h]

/-- unwinding (Up and Pop per level, Restart, flag resets) never touches the pending bytecode -/
theorem engReset_code (fuel : Nat) : EKeeps ECode (engReset fuel) := by
  have P := eCode_pre
  induction fuel with
  | zero => unfold engReset; exact EKeeps.pure P _
  | succ fuel ih =>
    apply EKeeps.of_at; intro e
    unfold engReset
    apply EKeepsAt.get_bind P
    split
    · exact EKeepsAt.fail P _ _ _
    · exact EKeepsAt.raw P _ _
    · next isTop _ =>
      dsimp only
      have hjp : ∀ e', EKeepsAt ECode (if isTop = true then (do
            let e ← EM.get
            match e.vm.st.restart with
              | .ok st' => do
                EM.modify fun e => { e with vm := { e.vm with st := st' } }
                let _ ← vm (resetFlagM Facts.terminateFlag)
                let _ ← vm (resetFlagM Facts.dirtyFlag)
                pure ()
              | _ => do
                let _ ← vm (resetFlagM Facts.terminateFlag)
                let _ ← vm (resetFlagM Facts.dirtyFlag)
                pure () : EM Unit)
          else engReset fuel) e' := by
        intro e'
        split
        · apply EKeepsAt.get_bind P
          split
          · next st' hr =>
            apply EKeepsAt.bind P (EKeepsAt.modify _ _ (by simp only [ECode]; exact restart_code _ _ hr)); intro _ e2 _
            exact resetTail_code e2
          · exact resetTail_code e'
        · exact ih e'
      split
      · next x st' hu =>
        apply EKeepsAt.bind P
        · exact EKeepsAt.modify _ _ (by simp only [ECode]; exact up_code _ _ _ hu)
        · intro _ e' _; exact hjp e'
      · apply EKeepsAt.bind P (EKeepsAt.fail P _ _ _); intro _ e' _; exact hjp e'

/-- **Reset-on-empty-input restarts from any depth, the entry node included**: when the session is somewhere (path not
empty) and an entry node is configured, `Reset` succeeds, leaves the empty path, exactly the base cache scope, and the
entry move `MOVE <root>` as the pending bytecode - which the same request then executes (C04's move table: a named
move pushes the node with page index 0). Under one cache scope per navigation level. -/
theorem reset_on_empty_input_restarts (cfg : Cfg) (e : Eng) (hp : e.vm.st.execPath ≠ []) (hroot : cfg.root ≠ [])
    (hfl : FlagsOk e.vm.st) (hl : e.vm.ca.frames.length = e.vm.st.execPath.length + 1) :
    (engResetForce cfg e).1 = .ok () ∧
    (engResetForce cfg e).2.vm.st.execPath = [] ∧
    (engResetForce cfg e).2.vm.ca.frames = e.vm.ca.frames.drop e.vm.st.execPath.length ∧
    (engResetForce cfg e).2.vm.st.code = newLine Facts.opMOVE [cfg.root] none none := by
  have hpe : e.vm.st.execPath.isEmpty = false := by cases h : e.vm.st.execPath <;> simp_all
  have hre : cfg.root.isEmpty = false := by cases h : cfg.root <;> simp_all
  let e1 : Eng := { e with vm := { e.vm with st := e.vm.st.setCode (newLine Facts.opMOVE [cfg.root] none none) } }
  have hrun : engResetForce cfg e = engReset (e.vm.st.execPath.length + 2) e1 := by
    unfold engResetForce
    simp [EM.bind_apply, EM.get_apply, hre, hp, e1, St.setCode]
  rw [hrun]
  have hp1 : e1.vm.st.execPath ≠ [] := hp
  obtain ⟨r1, r2, r3, _, _⟩ := engReset_unwinds (e.vm.st.execPath.length + 2) e1 hp1 (by simp [e1, St.setCode])
    (by simpa [e1, St.setCode, FlagsOk] using hfl) (by simpa [e1, St.setCode] using hl)
  refine ⟨r1, r2, by simpa [e1, St.setCode] using r3, ?_⟩
  have := engReset_code (e.vm.st.execPath.length + 2) e1
  simp only [ECode] at this
  rw [this]
  simp [e1, St.setCode]

end Vise.C04
