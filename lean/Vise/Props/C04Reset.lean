/-
  C04 (engine part) — reset-on-empty-input: `Engine.Reset` unwinds from ANY depth, the entry node included, and leaves
  the entry move pending, so that the request continues at the entry node with page index 0.
  (A second-wave seeded change made `Reset` a no-op at the entry node; the move table then gave `root/_catch`.)
-/
import Vise.Props.C20Unwind

namespace Vise.C04
open Vise EM Vise.C20

/-- the pending bytecode is not changed -/
def ECode (e e' : Eng) : Prop := e'.vm.st.code = e.vm.st.code

theorem eCode_pre : EPre ECode := ⟨fun _ => rfl, fun _ _ _ h1 h2 => h2.trans h1⟩

theorem EKeeps.vm_code {α} {x : VM α} (h : Keeps SameCachePagePos x) : EKeeps ECode (EM.vm x) := by
  intro e
  simp only [EM.vm_apply, ECode]
  exact (h e.vm).2.2.2.2.1

theorem resetTail_code : EKeeps ECode (do
    let _ ← vm (resetFlagM Facts.terminateFlag)
    let _ ← vm (resetFlagM Facts.dirtyFlag)
    pure () : EM Unit) := by
  have P := eCode_pre
  apply EKeeps.bind P (EKeeps.vm_code (resetFlagM_keeps _)); intro _
  apply EKeeps.bind P (EKeeps.vm_code (resetFlagM_keeps _)); intro _
  exact EKeeps.pure P _

theorem up_code (st : St) (x : Bytes) (st' : St) (h : st.up = .ok (x, st')) : st'.code = st.code := by
  unfold St.up at h
  split at h
  · cases h
  · simp only [Res.ok.injEq, Prod.mk.injEq] at h
    rw [← h.2]

theorem restart_code (st st' : St) (h : st.restart = .ok st') : st'.code = st.code := by
  unfold St.restart at h
  split at h
  · cases h
  · split at h
    · cases h
    · simp only [Res.ok.injEq] at h
      rw [← h]

/-- unwinding (Up and Pop per level, Restart, flag resets) never touches the pending bytecode -/
theorem engReset_code (fuel : Nat) : EKeeps ECode (engReset fuel) := by
  have P := eCode_pre
  induction fuel with
  | zero => unfold engReset; exact EKeeps.pure P _
  | succ fuel ih =>
    apply EKeeps.of_at; intro e
    unfold engReset
    apply EKeepsAt.get_bind P
    split
    · exact EKeepsAt.fail P _ _ _
    · exact EKeepsAt.raw P _ _
    · next isTop _ =>
      dsimp only
      have hjp : ∀ e', EKeepsAt ECode (if isTop = true then (do
            let e ← EM.get
            match e.vm.st.restart with
              | .ok st' => do
                EM.modify fun e => { e with vm := { e.vm with st := st' } }
                let _ ← vm (resetFlagM Facts.terminateFlag)
                let _ ← vm (resetFlagM Facts.dirtyFlag)
                pure ()
              | _ => do
                let _ ← vm (resetFlagM Facts.terminateFlag)
                let _ ← vm (resetFlagM Facts.dirtyFlag)
                pure () : EM Unit)
          else engReset fuel) e' := by
        intro e'
        split
        · apply EKeepsAt.get_bind P
          split
          · next st' hr =>
            apply EKeepsAt.bind P (EKeepsAt.modify _ _ (by simp only [ECode]; exact restart_code _ _ hr)); intro _ e2 _
            exact resetTail_code e2
          · exact resetTail_code e'
        · exact ih e'
      split
      · next x st' hu =>
        apply EKeepsAt.bind P
        · exact EKeepsAt.modify _ _ (by simp only [ECode]; exact up_code _ _ _ hu)
        · intro _ e' _; exact hjp e'
      · apply EKeepsAt.bind P (EKeepsAt.fail P _ _ _); intro _ e' _; exact hjp e'

/-- **Reset-on-empty-input restarts from any depth, the entry node included**: when the session is somewhere (path not
empty) and an entry node is configured, `Reset` succeeds, leaves the empty path, exactly the base cache scope, and the
entry move `MOVE <root>` as the pending bytecode - which the same request then executes (C04's move table: a named
move pushes the node with page index 0). Under one cache scope per navigation level. -/
theorem reset_on_empty_input_restarts (cfg : Cfg) (e : Eng) (hp : e.vm.st.execPath ≠ []) (hroot : cfg.root ≠ [])
    (hfl : FlagsOk e.vm.st) (hl : e.vm.ca.frames.length = e.vm.st.execPath.length + 1) :
    (engResetForce cfg e).1 = .ok () ∧
    (engResetForce cfg e).2.vm.st.execPath = [] ∧
    (engResetForce cfg e).2.vm.ca.frames = e.vm.ca.frames.drop e.vm.st.execPath.length ∧
    (engResetForce cfg e).2.vm.st.code = newLine Facts.opMOVE [cfg.root] none none := by
  have hpe : e.vm.st.execPath.isEmpty = false := by cases h : e.vm.st.execPath <;> simp_all
  have hre : cfg.root.isEmpty = false := by cases h : cfg.root <;> simp_all
  let e1 : Eng := { e with vm := { e.vm with st := e.vm.st.setCode (newLine Facts.opMOVE [cfg.root] none none) } }
  have hrun : engResetForce cfg e = engReset (e.vm.st.execPath.length + 2) e1 := by
    unfold engResetForce
    simp [EM.bind_apply, EM.get_apply, hre, hp, e1, St.setCode]
  rw [hrun]
  have hp1 : e1.vm.st.execPath ≠ [] := hp
  obtain ⟨r1, r2, r3, _, _⟩ := engReset_unwinds (e.vm.st.execPath.length + 2) e1 hp1 (by simp [e1, St.setCode])
    (by simpa [e1, St.setCode, FlagsOk] using hfl) (by simpa [e1, St.setCode] using hl)
  refine ⟨r1, r2, by simpa [e1, St.setCode] using r3, ?_⟩
  have := engReset_code (e.vm.st.execPath.length + 2) e1
  simp only [ECode] at this
  rw [this]
  simp [e1, St.setCode]

/-! ### the pre-VM detour of an engine with a first function -/

/-- the deferred calls of `runFirst` end by putting the page index back: whenever they succeed, it is `idx0` -/
theorem firstFinish_idx (idx0 : Nat) (e e' : Eng) (h : firstFinish idx0 e = (.ok (), e')) :
    e'.vm.st.sizeIdx = idx0 := by
  unfold firstFinish at h
  simp only [EM.bind_apply, EM.vm_apply] at h
  rcases h1 : resetFlagM Facts.dirtyFlag e.vm with ⟨r1, s1⟩
  rw [h1] at h
  cases r1 with
  | err k m => simp at h
  | panic p => simp at h
  | ok u1 =>
    simp only at h
    rcases h2 : resetFlagM Facts.terminateFlag s1 with ⟨r2, s2⟩
    rw [h2] at h
    cases r2 with
    | err k m => simp at h
    | panic p => simp at h
    | ok u2 =>
      simp only [EM.get_apply] at h
      cases hu : s2.st.up with
      | ok p =>
        simp only [hu, EM.bind_apply, EM.modify_apply, EM.pure_apply, Prod.mk.injEq] at h
        rw [← h.2]
      | err k =>
        simp only [hu, EM.bind_apply, EM.modify_apply, EM.pure_apply, Prod.mk.injEq] at h
        rw [← h.2]
      | panic k =>
        simp only [hu, EM.bind_apply, EM.modify_apply, EM.pure_apply, Prod.mk.injEq] at h
        rw [← h.2]

/-- **The pre-VM detour keeps the page index** (fix 80b4540): whenever the first function's run comes back without an
error, the session is on the page it was on - whatever the first function returned, for every state. Before the fix the
Down/Up around the first function left the index at 0 on every request of a per-request engine. -/
theorem bind_ok_inv {α β} (x : EM α) (f : α → EM β) (e e' : Eng) (b : β) (h : (x >>= f) e = (.ok b, e')) :
    ∃ a e1, x e = (.ok a, e1) ∧ f a e1 = (.ok b, e') := by
  simp only [EM.bind_apply] at h
  rcases hx : x e with ⟨r, e1⟩
  rw [hx] at h
  cases r with
  | ok a => exact ⟨a, e1, rfl, h⟩
  | err k m => simp at h
  | panic p => simp at h

theorem first_function_keeps_page_index (env : Env) (cfg : Cfg)
    (fn : Nat → Option Bytes → Option Bytes → ExtResult) (e e' : Eng) (b : Bool)
    (h : runFirstBody env cfg fn e = (.ok b, e')) : e'.vm.st.sizeIdx = e.vm.st.sizeIdx := by
  unfold runFirstBody at h
  obtain ⟨e0, e1, h0, h⟩ := bind_ok_inv _ _ _ _ _ h
  simp only [EM.get_apply, Prod.mk.injEq, VRes.ok.injEq] at h0
  obtain ⟨rfl, rfl⟩ := h0
  dsimp only at h
  cases hd : e.vm.st.down [95, 102, 105, 114, 115, 116] with
  | panic p => simp [hd] at h
  | err k => simp [hd, EM.fail_apply] at h
  | ok st' =>
    simp only [hd] at h
    obtain ⟨_, e2, _, h⟩ := bind_ok_inv _ _ _ _ _ h
    obtain ⟨e3, e4, h3, h⟩ := bind_ok_inv _ _ _ _ _ h
    generalize hrl : runLoop _ _ _ _ _ = rl at h
    obtain ⟨r, pvm'⟩ := rl
    simp only at h
    obtain ⟨_, e5, _, h⟩ := bind_ok_inv _ _ _ _ _ h
    cases r with
    | panic p => simp at h
    | err k m =>
      simp only at h
      obtain ⟨_, e6, _, h⟩ := bind_ok_inv _ _ _ _ _ h
      simp [EM.fail_apply] at h
    | ok code =>
      simp only at h
      by_cases hl : code.length > 0
      · simp only [hl, if_true] at h
        obtain ⟨_, e6, _, h⟩ := bind_ok_inv _ _ _ _ _ h
        obtain ⟨_, e7, _, h⟩ := bind_ok_inv _ _ _ _ _ h
        simp [EM.fail_apply] at h
      · simp only [hl, if_false] at h
        obtain ⟨t, e6, _, h⟩ := bind_ok_inv _ _ _ _ _ h
        by_cases ht : t = true
        · simp only [ht, if_true] at h
          obtain ⟨_, e7, _, h⟩ := bind_ok_inv _ _ _ _ _ h
          obtain ⟨u, e8, hf, h⟩ := bind_ok_inv _ _ _ _ _ h
          simp only [EM.pure_apply, Prod.mk.injEq] at h
          rw [← h.2]
          cases u
          exact firstFinish_idx _ _ _ hf
        · simp only [ht, if_false] at h
          obtain ⟨u, e8, hf, h⟩ := bind_ok_inv _ _ _ _ _ h
          simp only [EM.pure_apply, Prod.mk.injEq] at h
          rw [← h.2]
          cases u
          exact firstFinish_idx _ _ _ hf

end Vise.C04
