/-
  C05 — Loaded symbols live exactly as long as their stack level.

  Model: `runLoad`, `runReload`, `runMap`, `refresh`, `vmReset` (vm/runner.go), `Cache`
  (cache/cache.go, with the two `fix:` commits), `Page.map` / `Page.reset` (render/page.go).
  Scope lifetime itself (visible from the level of the load and every deeper one, gone after the
  ascent) is `C09.get_after_add` and `C09.pop_releases_frame_bytes`; lockstep of scopes and
  navigation levels is C08.
-/
import Vise.Lemmas.Keeps
import Vise.Props.C09

namespace Vise.C05
open Vise VM

/-- **A LOAD runs the external function at most once while its symbol is visible**: when the
symbol can be read from the current scope or any enclosing one, LOAD does nothing at all — no
call, no lookup, no flag change. -/
theorem load_once_while_visible (env : Env) (lang : Option Bytes) (b rest sym v : Bytes) (sz : Nat)
    (s : VmSt) (hp : parseSymLen b = .ok (sym, sz, rest)) (hv : s.ca.get sym = .ok v) :
    runLoad env lang b s = (.ok rest, s) := by
  unfold runLoad
  simp [decodeErr, hp, hv]

/-- **Otherwise the result is stored at the current stack level under the declared limit**: the
cache after the LOAD is the cache before it with `Add(sym, result, uint16(size))` applied, and
nothing else of cache, page or position is touched by the call itself. -/
theorem load_stores_result (env : Env) (lang : Option Bytes) (b rest sym content : Bytes) (sz : Nat)
    (s s1 : VmSt) (k : String) (hp : parseSymLen b = .ok (sym, sz, rest)) (hv : s.ca.get sym = .err k)
    (hr : refresh env lang sym s = (.ok content, s1))
    (hadd : (s.ca.add sym content (sz % 65536)).2 = .ok ()) :
    runLoad env lang b s = (.ok rest, { s1 with ca := (s.ca.add sym content (sz % 65536)).1 }) := by
  have hca : s1.ca = s.ca := by
    have := (refresh_keeps env lang sym s).1; rw [hr] at this; exact this
  unfold runLoad
  simp only [decodeErr, hp, VM.bind_apply, VM.lift_ok, VM.get_apply, hv, hr, hca]
  rcases hx : s.ca.add sym content (sz % 65536) with ⟨ca', res⟩
  rw [hx] at hadd
  simp at hadd
  subst hadd
  simp

/-- ... and from then on it is readable (from this level and, by `C09.get_after_add`, from every
deeper one). -/
theorem loaded_value_readable (ca : Cache Bytes) (hi : Cache.Inv ca) (sym content : Bytes) (limit : Nat)
    (hfit : content.length + ca.cacheSize < U32)
    (hok : (ca.add sym content limit).2 = .ok ()) (n : Nat) :
    Cache.get (Nat.repeat Cache.push n (ca.add sym content limit).1) sym = .ok content :=
  C09.get_after_add ca hi sym content limit hfit hok n

/-- **A result larger than its limit is never stored**: LOAD fails and the cache is exactly what
it was — so the value can never be mapped or shown. -/
theorem oversize_never_stored (env : Env) (lang : Option Bytes) (b rest sym content : Bytes) (sz : Nat)
    (s s1 : VmSt) (k : String) (hp : parseSymLen b = .ok (sym, sz, rest)) (hv : s.ca.get sym = .err k)
    (hr : refresh env lang sym s = (.ok content, s1))
    (hl : sz % 65536 > 0) (hbig : content.length > sz % 65536) :
    (∃ kk m, (runLoad env lang b s).1 = .err kk m) ∧ (runLoad env lang b s).2.ca = s.ca := by
  have hca : s1.ca = s.ca := by
    have := (refresh_keeps env lang sym s).1; rw [hr] at this; exact this
  have hadd := C09.limit_enforced_add s.ca sym content (sz % 65536) hl hbig
  unfold runLoad
  simp only [decodeErr, hp, VM.bind_apply, VM.lift_ok, VM.get_apply, hv, hr, hca, hadd]
  simp [hca]

theorem pageMapM_ca (sym : Bytes) (s : VmSt) : (pageMapM sym s).2.ca = s.ca := by
  unfold pageMapM
  simp only [VM.bind_apply, VM.get_apply]
  cases s.pg.map s.ca sym <;> simp

/-- **RELOAD re-runs the function and replaces the value under the same limit** — the cache after
it is the cache with `Update(sym, result)` applied (whose rejection, e.g. over the limit, leaves
the old value: `C09.rejected_unchanged_update`) — and maps the symbol. -/
theorem reload_updates (env : Env) (lang : Option Bytes) (b rest sym content : Bytes)
    (s s1 : VmSt) (hp : parseSym b = .ok (sym, rest))
    (hr : refresh env lang sym s = (.ok content, s1)) :
    (runReload env lang b s).2.ca = (s.ca.update sym content).1 := by
  have hca : s1.ca = s.ca := by
    have := (refresh_keeps env lang sym s).1; rw [hr] at this; exact this
  unfold runReload
  simp only [decodeErr, hp, VM.bind_apply, VM.lift_ok, hr, VM.modify_apply]
  have := pageMapM_ca sym { s1 with ca := (s1.ca.update sym content).1 }
  rcases hx : pageMapM sym { s1 with ca := (s1.ca.update sym content).1 } with ⟨r, s'⟩
  rw [hx] at this
  cases r <;> simp_all

/-- an accepted replacement — also the empty string — is what is read afterwards -/
theorem updated_value_readable (ca : Cache Bytes) (hi : Cache.Inv ca) (sym content : Bytes)
    (hok : (ca.update sym content).2 = .ok ()) :
    Cache.get (ca.update sym content).1 sym = .ok content := by
  rcases Cache.update_cases ca sym content with ⟨e, he⟩ | ⟨i, f, r, hfo, hf, hk, _, (⟨_, hu⟩ | ⟨_, hu⟩)⟩
  · rw [he] at hok; simp at hok
  · rw [hu] at hok; simp at hok
  rw [hu]
  have hfr : (Cache.updPut (Cache.updBlank ca i sym r) i sym content).frames
      = ca.frames.modify i (AList.set sym content) := by
    rw [Cache.updPut_frames]
    simp only [Cache.modifyFrame]
    rw [List.modify_modify_eq]
    congr 1; funext m; simp [AList.set_set]
  have hkS : (AList.lookup sym f).isSome := by simp [hk]
  have hidx : (ca.frames.modify i (AList.set sym content))[i]? = some (AList.set sym content f) := by
    rw [List.getElem?_modify_eq, hf]; rfl
  have hnod : (Cache.allKeys (ca.frames.modify i (AList.set sym content))).Nodup := by
    rw [Cache.allKeys_modify_set ca.frames i f sym content hf hkS]; exact hi.nodup
  have hfo' := Cache.frameOf_of_lookup sym _ i _ hnod hidx (by simp [AList.lookup_set_self])
  unfold Cache.get
  rw [hfr]
  simp [hfo', hidx, AList.lookup_set_self]

/-- the empty result is accepted by `Update` whatever the capacity (the defect repaired by the
`fix:` commit dbb693c) -/
theorem reload_to_empty_accepted (ca : Cache Bytes) (sym : Bytes) (i : Nat)
    (h : Cache.frameOf sym ca.frames = some i) : (ca.update sym []).2 = .ok () := by
  unfold Cache.update
  simp [h, Sized.size]

/-- **MAP exposes a value only until the next move**: every move (`vmReset` in MOVE and INCMP)
and every resume after HALT (`Page.reset`) drops all mappings and the sink. -/
theorem map_cleared_on_move (s : VmSt) :
    (vmReset s).2.pg.cacheMap = [] ∧ (vmReset s).2.pg.sink = none := by
  simp [vmReset, Page.reset]

theorem map_cleared_on_resume (pg : Page) : pg.reset.cacheMap = [] ∧ pg.reset.sink = none := by
  simp [Page.reset]

/-- MAP shows exactly what the cache holds for the symbol at that moment -/
theorem map_exposes_cached (pg pg' : Page) (ca : Cache Bytes) (sym : Bytes)
    (h : pg.map ca sym = .ok pg') : ∃ v, ca.get sym = .ok v ∧ AList.lookup sym pg'.cacheMap = some v := by
  unfold Page.map at h
  cases hg : ca.get sym with
  | ok v =>
    refine ⟨v, rfl, ?_⟩
    simp only [hg] at h
    cases hs : ca.reservedSize sym with
    | ok l =>
      simp only [hs] at h
      by_cases hc : Page.sinkConflict pg sym l = true
      · rw [if_pos hc] at h; cases h
      · rw [if_neg hc] at h; simp at h; rw [← h]; simp [AList.lookup_set_self]
    | err k => simp [hs] at h
    | panic p => simp [hs] at h
  | err k => simp [hg] at h
  | panic p => simp [hg] at h

end Vise.C05
