/-
  C05 — "MAP exposes a value to the template only until the next move": the CATCH move (fix 8eb052a).
-/
import Vise.Props.C05
import Vise.Props.C06
namespace Vise.C05
open Vise

/-- **A CATCH move drops the mappings like every other move** (fix 8eb052a): when the flag test holds and the move
succeeds, the page the target node renders on has no mapped symbols and no menu entries from the node that was left. -/
theorem catch_drops_mappings (env : Env) (lang : Option Bytes) (b rest sym : Bytes) (sig : Nat) (mode : Bool)
    (s s' : VmSt) (r : Bytes) (hp : parseSymSig b = .ok (sym, sig, mode, rest)) (hf : s.st.getFlag sig = .ok mode)
    (h : runCatch env lang b s = (.ok r, s')) :
    s'.pg.cacheMap = [] ∧ s'.pg.menu.items = [] := by
  rw [C06.catch_match env lang b rest sym sig mode s hp hf] at h
  simp only [VM.bind_apply, logMove, VM.modify_apply] at h
  generalize hs1 : ({ s with ghost := { s.ghost with moves := s.ghost.moves ++ [("CATCH", sym)] } } : VmSt) = s1 at h
  rcases ha : applyTarget sym s1 with ⟨ra, s2⟩
  rw [ha] at h
  cases ra with
  | ok p =>
    obtain ⟨actual, x⟩ := p
    simp only [vmReset, VM.modify_apply, getCodeM, VM.bind_apply, logLookup] at h
    cases hc : env.code lang actual with
    | some c =>
      simp only [hc, VM.pure_apply, Prod.mk.injEq] at h
      obtain ⟨_, h2⟩ := h
      subst h2
      simp [Page.reset, Menu.new]
    | none => simp [hc, VM.fail_apply] at h
  | err k m => simp at h
  | panic k => simp at h
end Vise.C05
