/-
  C06 — Signal flags steer control flow and the reserved ones are tamper-proof.

  Model: `refresh` / `applyFlagList` / `isWriteableFlag` (vm/runner.go:refresh, state/flag.go, with
  the threshold and comparison regenerated from the source), `runCatch`, `runCroak`, `runLoop`'s
  TERMINATE gate, `exec` (engine/db.go).
-/
import Vise.Lemmas.VmMonad

namespace Vise.C06
open Vise VM EM

/-- Built-in flags 0..5 (READIN, INMATCH, WAIT, LOADFAIL, DIRTY, RESERVED) are not writeable by
external code; TERMINATE (6), LANG (7) and every client flag (8 and up) are. Decided by the kernel
on the constants regenerated from state/flag.go: a changed threshold or comparison breaks this. -/
theorem writeable_iff (i : Nat) : isWriteableFlag i = true ↔ i ≥ 6 := by
  unfold isWriteableFlag
  have h1 : Facts.writeableCmp = ">" := rfl
  have h2 : Facts.nonwriteableThreshold = 5 := rfl
  simp [h1, h2]; omega

theorem flag_numbers :
    Facts.readinFlag = 0 ∧ Facts.inmatchFlag = 1 ∧ Facts.waitFlag = 2 ∧ Facts.loadfailFlag = 3 ∧
    Facts.dirtyFlag = 4 ∧ Facts.reservedFlag = 5 ∧ Facts.terminateFlag = 6 ∧ Facts.langFlag = 7 ∧
    Facts.userstartFlag = 8 := by decide

/-- setting or resetting flag `f` leaves every other flag as it was, whatever the outcome -/
theorem setFlagM_other (f i : Nat) (s : VmSt) (h : i ≠ f) :
    (setFlagM f s).2.st.flags[i]? = s.st.flags[i]? ∧ (setFlagM f s).2.st.bitSize = s.st.bitSize := by
  unfold setFlagM
  simp only [VM.bind_apply, VM.get_apply, St.setFlag]
  cases hg : s.st.getFlag f with
  | ok b => cases b <;> simp [Bind.bind, Res.bind, List.getElem?_set_ne (Ne.symm h)]
  | err k => simp [Bind.bind, Res.bind]
  | panic p => simp [Bind.bind, Res.bind]

theorem resetFlagM_other (f i : Nat) (s : VmSt) (h : i ≠ f) :
    (resetFlagM f s).2.st.flags[i]? = s.st.flags[i]? ∧ (resetFlagM f s).2.st.bitSize = s.st.bitSize := by
  unfold resetFlagM
  simp only [VM.bind_apply, VM.get_apply, St.resetFlag]
  cases hg : s.st.getFlag f with
  | ok b => cases b <;> simp [Bind.bind, Res.bind, List.getElem?_set_ne (Ne.symm h)]
  | err k => simp [Bind.bind, Res.bind]
  | panic p => simp [Bind.bind, Res.bind]

/-- **External flag requests cannot touch the reserved flags**: whatever lists of flag numbers a
handler returns in `FlagSet` / `FlagReset` — including 0..5 — every flag below 6 is exactly as it
was after the lists have been applied (also when a request is out of range and panics). -/
theorem applyFlagList_preserves_reserved (setTo : Bool) (l : List Nat) (s : VmSt) (i : Nat) (hi : i ≤ 5) :
    (applyFlagList setTo l s).2.st.flags[i]? = s.st.flags[i]? := by
  induction l generalizing s with
  | nil => simp [applyFlagList]
  | cons f fs ih =>
    unfold applyFlagList
    by_cases hw : isWriteableFlag f = true
    · have hf : i ≠ f := by have := (writeable_iff f).mp hw; omega
      simp only [hw, if_true, VM.bind_apply]
      cases setTo with
      | true =>
        simp only [if_true]
        have h1 := (setFlagM_other f i s hf).1
        rcases hr : setFlagM f s with ⟨r, s'⟩
        rw [hr] at h1
        cases r with
        | ok b => simp only []; rw [ih s']; exact h1
        | err k m => exact h1
        | panic p => exact h1
      | false =>
        simp only [Bool.false_eq_true, if_false]
        have h1 := (resetFlagM_other f i s hf).1
        rcases hr : resetFlagM f s with ⟨r, s'⟩
        rw [hr] at h1
        cases r with
        | ok b => simp only []; rw [ih s']; exact h1
        | err k m => exact h1
        | panic p => exact h1
    · simp only [hw, Bool.false_eq_true, if_false, VM.bind_apply, VM.pure_apply]
      exact ih s

/-- setting an in-range flag always succeeds and leaves it set -/
theorem setFlagM_in_range (f : Nat) (s : VmSt) (hr : f + 1 ≤ s.st.bitSize) (hl : f < s.st.flags.length) :
    (∃ c, (setFlagM f s).1 = .ok c) ∧ (setFlagM f s).2.st.flags[f]? = some true ∧
    (setFlagM f s).2.ghost = s.ghost ∧ (setFlagM f s).2.ca = s.ca ∧ (setFlagM f s).2.pg = s.pg ∧
    (setFlagM f s).2.st.execPath = s.st.execPath := by
  have hnr : ¬ f + 1 > s.st.bitSize := by omega
  have hg : s.st.flags[f]? = some s.st.flags[f] := List.getElem?_eq_getElem hl
  unfold setFlagM
  simp only [VM.bind_apply, VM.get_apply, St.setFlag, St.getFlag, hnr, if_false, hg]
  cases hb : s.st.flags[f] <;> simp [hg, hb, hl]

/-- writeable requests do take effect (in range): a requested client flag, TERMINATE or LANG ends
up set after `FlagSet` has been applied. -/
theorem applyFlagList_sets (f : Nat) (s : VmSt) (hw : f ≥ 6) (hr : f + 1 ≤ s.st.bitSize)
    (hl : f < s.st.flags.length) :
    (applyFlagList true [f] s).2.st.flags[f]? = some true := by
  have hwf := (writeable_iff f).mpr hw
  unfold applyFlagList
  simp only [hwf, if_true, VM.bind_apply]
  unfold setFlagM
  have hnr : ¬ f + 1 > s.st.bitSize := by omega
  simp only [VM.bind_apply, VM.get_apply, St.setFlag, St.getFlag, hnr, if_false]
  have : s.st.flags[f]? = some s.st.flags[f] := List.getElem?_eq_getElem hl
  rw [this]
  cases hb : s.st.flags[f] <;> simp [Bind.bind, Res.bind, applyFlagList, this, hb, hl]

/-- **While TERMINATE is set no instruction runs**: `Vm.Run` returns at once, with no remaining
code and the VM state — position, flags, cache, page, call log, lookup log — untouched. For every
program, every fuel, every language. -/
theorem terminate_blocks (env : Env) (fuel : Nat) (lang : Option Bytes) (b : Bytes) (s : VmSt)
    (ht : s.st.getFlag Facts.terminateFlag = .ok true) :
    runLoop env (fuel + 1) lang b s = (.ok [], s) := by
  unfold runLoop
  simp [matchFlagM, getFlagM, ht]

theorem terminate_blocks_pos (env : Env) (fuel : Nat) (hf : fuel > 0) (lang : Option Bytes) (b : Bytes)
    (s : VmSt) (ht : s.st.getFlag Facts.terminateFlag = .ok true) :
    runLoop env fuel lang b s = (.ok [], s) := by
  match fuel, hf with
  | f + 1, _ => exact terminate_blocks env f lang b s ht

/-- ... and therefore the engine reports stop, calls no external function, makes no lookup and
changes neither position, flags nor cache: only the pending code is consumed and the input is
recorded. (Engine already initialised, nothing undelivered, acceptable input.) -/
theorem terminate_blocks_exec (env : Env) (cfg : Cfg) (e : Eng) (input : Bytes)
    (ht : e.vm.st.getFlag Facts.terminateFlag = .ok true)
    (hi : e.initd = true) (hx : e.execd = false) (hroe : cfg.resetOnEmpty = false)
    (hin : input = [] ∨ matchesInput input = true) (hlen : input.length ≤ Facts.inputLimit)
    (hcode : e.vm.st.code ≠ []) (hfuel : cfg.fuel > 0) :
    (exec env cfg input e).1 = .ok false ∧
    (exec env cfg input e).2.vm.ghost = e.vm.ghost ∧
    (exec env cfg input e).2.vm.st.execPath = e.vm.st.execPath ∧
    (exec env cfg input e).2.vm.st.sizeIdx = e.vm.st.sizeIdx ∧
    (exec env cfg input e).2.vm.st.flags = e.vm.st.flags ∧
    (exec env cfg input e).2.vm.ca = e.vm.ca := by
  have hfmt : (decide (input.length > 0) && !matchesInput input) = false := by
    rcases hin with h | h
    · subst h; simp
    · simp [h]
  have hnl : ¬ input.length > Facts.inputLimit := by omega
  have hcl : ¬ e.vm.st.code.length = 0 := by
    intro h0; exact hcode (List.eq_nil_of_length_eq_zero h0)
  unfold exec engInit
  simp only [hfmt, Bool.false_eq_true, if_false, EM.bind_apply, EM.get_apply, hx, EM.modify_apply, hi,
    if_true, EM.pure_apply, Bool.not_true, hroe, Bool.false_and, St.setInput, hnl, St.getCode, hcl,
    EM.vm_apply]
  rw [terminate_blocks_pos env cfg.fuel hfuel _ _ _ (by simpa [St.getFlag] using ht)]
  simp [matchFlagM, getFlagM, St.getFlag]
  have := ht
  simp [St.getFlag] at this
  simp [this]

/-! ### CATCH and CROAK -/

/-- CATCH does nothing when the flag's state differs from the mode: the rest of the code is
returned and the VM state is untouched. -/
theorem catch_no_match (env : Env) (lang : Option Bytes) (b rest sym : Bytes) (sig : Nat) (mode fl : Bool)
    (s : VmSt) (hp : parseSymSig b = .ok (sym, sig, mode, rest)) (hf : s.st.getFlag sig = .ok fl)
    (hne : (mode == fl) = false) : runCatch env lang b s = (.ok rest, s) := by
  unfold runCatch
  simp [decodeErr, hp, matchFlagM, getFlagM, hf, hne]

/-- CATCH moves to its target exactly when the flag's state equals the mode: it then is the move
to `sym` followed by fetching that node's code (the pending code is replaced). -/
theorem catch_match (env : Env) (lang : Option Bytes) (b rest sym : Bytes) (sig : Nat) (mode : Bool)
    (s : VmSt) (hp : parseSymSig b = .ok (sym, sig, mode, rest)) (hf : s.st.getFlag sig = .ok mode) :
    runCatch env lang b s =
      (do logMove "CATCH" sym
          let (actual, _) ← applyTarget sym
          vmReset
          getCodeM env lang actual : VM Bytes) s := by
  unfold runCatch
  simp [decodeErr, hp, matchFlagM, getFlagM, hf]

/-- CROAK, under the same test, abandons the pending bytecode (and resets renderer and cache);
otherwise it does nothing. With no code left, `runDeadCheck` then terminates the session when no
input is being handled, or goes to the catch node while input is being handled. -/
theorem croak_match (b rest : Bytes) (sig : Nat) (mode : Bool) (s : VmSt)
    (hp : parseSig b = .ok (sig, mode, rest)) (hf : s.st.getFlag sig = .ok mode) :
    (runCroak b s).1 = .ok [] ∧ (runCroak b s).2.st = s.st ∧ (runCroak b s).2.ca = s.ca.reset := by
  unfold runCroak
  simp [decodeErr, hp, matchFlagM, getFlagM, hf, vmReset]

theorem croak_no_match (b rest : Bytes) (sig : Nat) (mode fl : Bool) (s : VmSt)
    (hp : parseSig b = .ok (sig, mode, rest)) (hf : s.st.getFlag sig = .ok fl)
    (hne : (mode == fl) = false) : runCroak b s = (.ok rest, s) := by
  unfold runCroak
  simp [decodeErr, hp, matchFlagM, getFlagM, hf, hne]

/-- abandoned code while no input is being handled sets TERMINATE ... -/
theorem dead_not_reading_terminates (s : VmSt) (hr : s.st.getFlag Facts.readinFlag = .ok false)
    (hb : Facts.terminateFlag + 1 ≤ s.st.bitSize) (hl : Facts.terminateFlag < s.st.flags.length) :
    (runDeadCheck s).1 = .ok [] ∧ (runDeadCheck s).2.st.flags[Facts.terminateFlag]? = some true := by
  obtain ⟨⟨c, hc⟩, hset, _⟩ := setFlagM_in_range Facts.terminateFlag s hb hl
  unfold runDeadCheck
  simp only [VM.bind_apply, matchFlagM, getFlagM, VM.get_apply, hr, VM.lift_ok, VM.pure_apply]
  rcases hsf : setFlagM Facts.terminateFlag s with ⟨r, s'⟩
  rw [hsf] at hc hset
  simp at hc hset
  subst hc
  simp [hsf, hset]

/-- ... and while input is being handled (and TERMINATE is clear) it goes to the catch node with
the invalid-input message showing that input. -/
theorem dead_reading_goes_to_catch (s : VmSt) (input : Bytes)
    (hr : s.st.getFlag Facts.readinFlag = .ok true) (ht : s.st.getFlag Facts.terminateFlag = .ok false)
    (hloc : s.st.where.1 ≠ [] ∧ s.st.where.1 ≠ catchSym) (hin : s.st.input = some input) :
    (runDeadCheck s).1 = .ok moveCatchCode ∧
    (runDeadCheck s).2.pg.err = some (ascii "invalid input: '" ++ input ++ ascii "'") := by
  unfold runDeadCheck
  simp [matchFlagM, getFlagM, hr, ht, hloc.1, hloc.2, hin]

end Vise.C06
