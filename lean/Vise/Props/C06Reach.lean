/-
  C06 (reachability of the precondition): the flag theorems of C06 are stated for states with a well-shaped
  flag array (`FlagsOk`: at least the 8 built-in flags, and the byte array covers the configured bit size).
  That is not an assumption about the input: a new state has it and `Vm.Run` keeps it, for every program.
-/
import Vise.Lemmas.FlagsKeeps

namespace Vise.C06
open Vise

/-- `Vm.Run` keeps the flag array well shaped, for every program, fuel, language and environment -/
theorem run_keeps_flagsOk (env : Env) (fuel : Nat) (lang : Option Bytes) (b : Bytes) (s : VmSt)
    (h : FlagsOk s.st) : FlagsOk (runLoop env fuel lang b s).2.st :=
  flagsOk_of_shape (runLoop_shape env fuel lang b s) h

/-- every state the VM reaches from a new state, through any sequence of runs of any programs, is well shaped -/
theorem reachable_flagsOk (env : Env) (n : Nat) (hn : n + 8 < 2040) (s0 : VmSt) (hs : s0.st = St.new n)
    (runs : List (Nat × Option Bytes × Bytes)) :
    FlagsOk (runs.foldl (fun s r => (runLoop env r.1 r.2.1 r.2.2 s).2) s0).st := by
  have h0 : FlagsOk s0.st := by rw [hs]; exact flagsOk_new n hn
  exact ih' env runs s0 h0
where
  ih' (env : Env) : ∀ (runs : List (Nat × Option Bytes × Bytes)) (s : VmSt), FlagsOk s.st →
      FlagsOk (runs.foldl (fun s r => (runLoop env r.1 r.2.1 r.2.2 s).2) s).st
    | [], _, h => h
    | r :: rs, s, h => by
      simp only [List.foldl_cons]
      exact ih' env rs _ (run_keeps_flagsOk env r.1 r.2.1 r.2.2 s h)

end Vise.C06
