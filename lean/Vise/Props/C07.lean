/-
  C07 — A persisted session resumes exactly where an uninterrupted one would be.

  Model: `snapshot` / `restore` (persist/persist.go on the exported fields), `newVmSt` (engine
  setupVm), the resume branch of `runLoop`, `Page.reset`, `Sizer.reset`, `vmReset`.
  A fresh engine differs from a long-lived one only in the VM's transient state. The theorems
  below show that this transient state is re-established at every resume and every move — after
  the three `fix:` commits (stale error prefix, sink symbol kept by `Sizer.Reset`, menu separator).
  The full simulation `persist_equiv` is NOT claimed: it is false after a failed request (known
  finding C07-after-failed-request; witnesses below) and the browse configuration of a menu
  survives a resume that is not followed by a move (`menu_reset_keeps_browse`).
-/
import Vise.Lemmas.VmMonad

namespace Vise.C07
open Vise VM EM

/-- **Saving and loading changes nothing a later request can observe**: what `restore` puts into
a fresh engine is the saved state (minus the unexported last input and last move direction) and
the saved cache, exactly. -/
theorem snapshot_restore (env : Env) (cfg : Cfg) (e : Eng) :
    (restore env cfg (some (snapshot e))).vm.st = { e.vm.st with input := none, lastMove := 0 } ∧
    (restore env cfg (some (snapshot e))).vm.ca = e.vm.ca := by
  simp [restore, snapshot, newVmSt]

/-- the transient renderer state of a fresh engine -/
def freshPage (cfg : Cfg) : Page :=
  { menu := { (Menu.new (if cfg.menuSep.isEmpty then [0x3a] else cfg.menuSep)) with hasRs := true },
    sizer := if cfg.outputSize > 0 then some { outputSize := cfg.outputSize } else none }

theorem restore_page_fresh (env : Env) (cfg : Cfg) (snap : Option Snap) :
    (restore env cfg snap).vm.pg = freshPage cfg := by
  cases snap <;> simp [restore, newEngine, newVmSt, freshPage]

/-- `Sizer.Reset` gives back a sizer indistinguishable from a new one -/
theorem sizer_reset_fresh (sz : Sizer) : sz.reset = { outputSize := sz.outputSize } := by
  simp [Sizer.reset]

/-- **Every move re-creates the renderer**: after `Vm.Reset` (MOVE, INCMP, CROAK) mappings, sink,
extra template text, cursors, sink symbol and the whole menu — items, browse configuration, page
count — are those of a new engine; only a pending error prefix is kept (it is to be shown on the
page the move leads to). -/
theorem vmReset_page_fresh (s : VmSt) (cfg : Cfg)
    (hsep : s.sep = (if cfg.menuSep.isEmpty then [0x3a] else cfg.menuSep))
    (hsz : s.pg.sizer.map (·.outputSize) = (freshPage cfg).sizer.map (·.outputSize)) :
    (vmReset s).2.pg = { freshPage cfg with err := s.pg.err } := by
  simp only [vmReset, VM.modify_apply, Page.reset, freshPage, hsep]
  cases hs : s.pg.sizer with
  | none =>
    rw [hs] at hsz
    by_cases hc : cfg.outputSize > 0
    · simp [freshPage, hc] at hsz
    · simp [hc]
  | some sz =>
    rw [hs] at hsz
    by_cases hc : cfg.outputSize > 0
    · simp [freshPage, hc] at hsz
      simp [hc, Sizer.reset, hsz]
    · simp [freshPage, hc] at hsz

/-- **Every resume after HALT re-creates the renderer** (`fix:` commits 0861976 and 946bec9): mappings, sink,
extra template text, cursors, sink symbol, the error prefix and the whole menu - items, sink flag, browse
configuration, page count - are those of an engine created for the request. Before 946bec9 the menu object
survived with its browse configuration and page count, and code that rendered again after a HALT without a
move in between paginated differently in a long-lived engine. -/
theorem resume_page_fresh (s : VmSt) (cfg : Cfg)
    (hsep : s.sep = (if cfg.menuSep.isEmpty then [0x3a] else cfg.menuSep))
    (hsz : s.pg.sizer.map (·.outputSize) = (freshPage cfg).sizer.map (·.outputSize)) :
    (resumeReset s).pg = freshPage cfg := by
  simp only [resumeReset, Page.reset, freshPage, hsep]
  cases hs : s.pg.sizer with
  | none =>
    rw [hs] at hsz
    by_cases hc : cfg.outputSize > 0
    · simp [freshPage, hc] at hsz
    · simp [hc]
  | some sz =>
    rw [hs] at hsz
    by_cases hc : cfg.outputSize > 0
    · simp [freshPage, hc] at hsz
      simp [hc, Sizer.reset, hsz]
    · simp [freshPage, hc] at hsz

/-- the resume touches nothing but the renderer -/
theorem resume_keeps_state (s : VmSt) :
    (resumeReset s).st = s.st ∧ (resumeReset s).ca = s.ca ∧ (resumeReset s).sep = s.sep := by
  simp [resumeReset]

/-- non-vacuity: a renderer with two pages on offer, cursors and a sink symbol meets the hypotheses -/
def usedPage : Page :=
  { menu := { (Menu.new [0x3a]) with pageCount := 2, canNext := true },
    sizer := some { outputSize := 40, crsrs := [3, 9], sink := [0x62] } }

example (st : St) (ca : Cache Bytes) :
    (resumeReset { st := st, ca := ca, pg := usedPage }).pg = freshPage { outputSize := 40 } :=
  resume_page_fresh _ { outputSize := 40 } (by simp) (by simp [usedPage, freshPage])

/-! ### negation witnesses for the simulation (known finding C07-after-failed-request) -/

/-- a long-lived engine whose pending code was lost answers "no code to execute" ... -/
theorem long_lived_without_code_errors (env : Env) (cfg : Cfg) (e : Eng) (input : Bytes)
    (hi : e.initd = true) (hx : e.execd = false) (hroe : cfg.resetOnEmpty = false)
    (hin : input = [] ∨ matchesInput input = true) (hlen : input.length ≤ Facts.inputLimit)
    (hcode : e.vm.st.code = []) :
    (exec env cfg input e).1 = .err "no-code" [] := by
  have hfmt : (decide (input.length > 0) && !matchesInput input) = false := by
    rcases hin with h | h
    · subst h; simp
    · simp [h]
  have hnl : ¬ input.length > Facts.inputLimit := by omega
  unfold exec engInit
  simp [hfmt, hx, hi, hroe, St.setInput, hnl, St.getCode, hcode]

/-- ... while a fresh engine on the same stored session injects the start node: its pending code
is `MOVE <root>` before the VM runs. -/
theorem fresh_engine_injects_start_node (cfg : Cfg) (e : Eng) :
    (setCode (newLine Facts.opMOVE [cfg.root] none none) e).2.vm.st.code =
      newLine Facts.opMOVE [cfg.root] none none ∧
    (setCode (newLine Facts.opMOVE [cfg.root] none none) e).1 = .ok true := by
  unfold setCode
  have : ¬ (newLine Facts.opMOVE [cfg.root] none none).length = 0 := by
    simp [newLine, u16be]
  simp [St.setCode, this]

end Vise.C07
