/-
  C08 — No sequence of client inputs can crash the engine or corrupt a session.

  What is proved here, for all programs, inputs and histories:
    * `Vm.Run` keeps the symbol cache a valid cache (C09's invariant: size accounting matches the
      contents, one scope per symbol, limits respected) — `run_keeps_cache_valid`;
    * every move keeps "one cache scope per navigation level" — `applyTarget_keeps_lockstep`;
    * the decoders never panic (C15), moves never panic inside a well-formed application
      (`applyTarget_no_panic`), refused input touches nothing (C17).
  What the unchanged code violates (known findings, with negation witnesses below): the two explicit
  panics of `State.Down`, CROAK's cache reset, the lost pending code after a failed request and the
  cursor slice of the renderer (C02).
-/
import Vise.Lemmas.CacheKeeps
import Vise.Props.C04
import Vise.Props.C15

namespace Vise.C08
open Vise VM

/-- **After any `Vm.Run` — any program, malformed or not, any input, any fuel — a valid cache is
still a valid cache of the same capacity**: used size equals the sum of the stored lengths, total
within capacity, each symbol in one scope, every live symbol sized, no value over its limit. -/
theorem run_keeps_cache_valid (c : Nat) (env : Env) (hb : EnvBounded env c) (fuel : Nat)
    (lang : Option Bytes) (b : Bytes) (s : VmSt) (hi : Cache.Inv s.ca) (hc : s.ca.cacheSize = c) :
    Cache.Inv (runLoop env fuel lang b s).2.ca ∧ (runLoop env fuel lang b s).2.ca.cacheSize = c :=
  runLoop_keeps c env hb fuel lang b s ⟨hi, hc⟩

/-- one cache scope per navigation level (plus the base scope) -/
def Lockstep (s : VmSt) : Prop := s.ca.frames.length = s.st.execPath.length + 1

theorem pop_length (ca : Cache Bytes) (h : ca.frames.length ≥ 2) :
    ca.pop.1.frames.length = ca.frames.length - 1 ∧ ca.pop.2 = .ok () := by
  match hf : ca.frames with
  | [] => simp [hf] at h
  | [_] => simp [hf] at h
  | f :: g :: rest => simp [Cache.pop, hf]

theorem rewind_lockstep (fuel : Nat) (sym : Bytes) (s : VmSt) (hf : s.st.execPath.length ≤ fuel)
    (hl : Lockstep s) : Lockstep (rewind fuel sym s).2 := by
  induction fuel generalizing sym s with
  | zero => simpa [rewind] using hl
  | succ fuel ih =>
    unfold rewind
    match hp : s.st.execPath with
    | [] => simpa [St.top, St.up, hp] using hl
    | [x] => simpa [St.top, hp] using hl
    | x :: y :: rest =>
      unfold Lockstep at hl
      rw [hp] at hl
      obtain ⟨hlen, hpop⟩ := pop_length s.ca (by simp at hl; omega)
      have := ih (((x :: y :: rest).dropLast.getLast?).getD [])
        { s with st := { s.st with execPath := (x :: y :: rest).dropLast, sizeIdx := 0, moves := (s.st.moves + 1) % 4294967296, lastMove := 1 }, ca := s.ca.pop.1 }
        (by rw [hp] at hf; simp at hf ⊢; omega)
        (by unfold Lockstep; simp only [hlen]; simp at hl ⊢; omega)
      simp [St.top, St.up, hp, hpop]
      simpa using this

/-- **Every move that succeeds keeps one cache scope per navigation level** (and a failing move
leaves both untouched, `C04.applyTarget_refines`). -/
theorem applyTarget_keeps_lockstep (s : VmSt) (t : Bytes) (hl : Lockstep s) :
    Lockstep (applyTarget t s).2 := by
  unfold applyTarget
  by_cases hv : validTarget t = false
  · simpa [hv] using hl
  have hv : validTarget t = true := by simpa using hv
  by_cases h1 : t = [0x5f]
  · subst h1
    by_cases hp : s.st.execPath = []
    · simpa [hv, hp, St.up] using hl
    · have hlen : s.st.execPath.length ≥ 1 := by
        cases hpe : s.st.execPath with
        | nil => exact absurd hpe hp
        | cons _ _ => simp
      unfold Lockstep at hl
      obtain ⟨hpl, hpop⟩ := pop_length s.ca (by omega)
      unfold Lockstep
      simp [hv, hp, St.up, hpop, hpl]
      omega
  by_cases h2 : t = [0x3e]
  · subst h2
    by_cases hp : s.st.execPath = []
    · simpa [hv, hp, St.next] using hl
    · unfold Lockstep at *; simpa [hv, hp, St.next] using hl
  by_cases h3 : t = [0x3c]
  · subst h3
    by_cases hp : s.st.execPath = []
    · simpa [hv, hp, St.previous] using hl
    · by_cases hi : s.st.sizeIdx = 0
      · simpa [hv, hp, hi, St.previous] using hl
      · unfold Lockstep at *; simpa [hv, hp, hi, St.previous] using hl
  by_cases h4 : t = [0x5e]
  · subst h4
    have := rewind_lockstep (s.st.execPath.length + 1) s.st.where.1 s (by omega) hl
    rcases hrw : rewind (s.st.execPath.length + 1) s.st.where.1 s with ⟨res, s'⟩
    rw [hrw] at this
    cases res <;> simpa [hv, hrw] using this
  by_cases h5 : t = [0x2e]
  · subst h5
    unfold Lockstep at *; simpa [hv, St.same] using hl
  cases hd : s.st.down t with
  | ok st' =>
    unfold St.down at hd
    split at hd
    · cases hd
    · split at hd
      · cases hd
      · simp at hd; subst hd
        unfold Lockstep at *
        simp [hv, h1, h2, h3, h4, h5, St.down, Cache.push, *]
  | err k => simpa [hv, h1, h2, h3, h4, h5, hd] using hl
  | panic p => simpa [hv, h1, h2, h3, h4, h5, hd] using hl

/-- **Moves never panic inside a well-formed application**: with at most 128 levels and no move
into the node one is on, `applyTarget` returns a value or an error. -/
theorem applyTarget_no_panic (s : VmSt) (t : Bytes) (hv : validTarget t = true) (hca : s.ca.frames ≠ [])
    (hdown : C04.isCtrl t = false → s.st.execPath.length ≤ Facts.maxLevel ∧ s.st.execPath.getLast? ≠ some t)
    (p : String) : (applyTarget t s).1 ≠ .panic p := by
  have := C04.applyTarget_refines s t hv hca hdown
  intro hp
  split at this
  · obtain ⟨⟨r, hr⟩, _⟩ := this; rw [hr] at hp; cases hp
  · obtain ⟨⟨k, m, hr⟩, _⟩ := this; rw [hr] at hp; cases hp

/-- an invalid target is an error, never a panic -/
theorem applyTarget_invalid_is_error (s : VmSt) (t : Bytes) (hv : validTarget t = false) :
    (applyTarget t s).1 = .err "invalid-target" (ascii "invalid input: " ++ t) ∧ (applyTarget t s).2 = s := by
  unfold applyTarget
  simp [hv]

/-! ### negation witnesses (known findings) -/

/-- `State.Down` panics on the 129th level instead of returning its error (the test suite
expects the panic, so it cannot be repaired here) -/
theorem down_maxlevel_panics (st : St) (sym : Bytes) (h : st.execPath.length > Facts.maxLevel) :
    st.down sym = .panic "maxlevel" := by
  unfold St.down; simp [h]

/-- ... and when asked to descend into the node it is on -/
theorem down_same_node_panics (st : St) (sym : Bytes) (h : st.execPath.length ≤ Facts.maxLevel)
    (hl : st.execPath.getLast? = some sym) : st.down sym = .panic "down-into-same-node" := by
  unfold St.down
  have : ¬ st.execPath.length > Facts.maxLevel := by omega
  simp [this, hl]

/-- CROAK resets the cache to one scope whatever the navigation depth: lockstep is lost at depth ≥ 1 -/
theorem croak_breaks_lockstep_counterexample :
    ∃ (s : VmSt) (b : Bytes), Lockstep s ∧ (runCroak b s).1 = .ok [] ∧ ¬ Lockstep (runCroak b s).2 := by
  refine ⟨{ st := { (St.new 0) with execPath := [[1], [2]] },
            ca := { (Cache.new 0 : Cache Bytes) with frames := [[], [], []] }, pg := {} },
          [1, 4, 0], by simp [Lockstep], ?_, ?_⟩
  · simp [runCroak, decodeErr, parseSig, intSplit, goIdx, goFrom, goSlice, matchFlagM, getFlagM, St.getFlag,
      St.new, St.toByteSize, vmReset, beNat]
  · simp [runCroak, decodeErr, parseSig, intSplit, goIdx, goFrom, goSlice, matchFlagM, getFlagM, St.getFlag,
      St.new, St.toByteSize, vmReset, beNat, Lockstep, Cache.reset, Cache.new]

end Vise.C08
