/-
  C08 at the level of the ENGINE: the cache stays a valid cache (accounting = contents, one scope per symbol,
  limits, capacity - the invariant of C09) through Exec and Flush, for every request history, in both ways of
  serving a session: one long-lived engine, and a fresh engine per request over the stored snapshot.
  (Lemmas/EngKeeps walks init, the entry function, reset-on-empty-input, the VM run, end-of-code handling,
  render and unwinding; Lemmas/CacheKeeps the VM.)
-/
import Vise.Lemmas.EngKeeps

namespace Vise.C08
open Vise

/-- long-lived engine: after every history the cache is valid -/
theorem long_lived_engine_keeps_cache_valid (c : Nat) (env : Env) (hb : EnvBounded env c) (hf : FirstBounded env c)
    (cfg : Cfg) (inputs : List Bytes) (e : Eng) (hi : Cache.Inv e.vm.ca) (hc : e.vm.ca.cacheSize = c) :
    Cache.Inv (longRun env cfg e inputs).2.vm.ca ∧ (longRun env cfg e inputs).2.vm.ca.cacheSize = c :=
  longRun_keeps c env hb hf cfg inputs e ⟨hi, hc⟩

/-- what is stored for a session is a valid cache of the configured capacity -/
def SnapOk (c : Nat) (snap : Option Snap) : Prop := ∀ s, snap = some s → Cache.Inv s.ca ∧ s.ca.cacheSize = c

theorem fresh_ok (env : Env) (cfg : Cfg) (g : Ghost) (hc : cfg.cacheSize < U32) :
    Cache.Inv (newEngine env cfg g).vm.ca ∧ (newEngine env cfg g).vm.ca.cacheSize = cfg.cacheSize := by
  unfold newEngine newVmSt freshCache
  exact ⟨Cache.inv_new _ hc, rfl⟩

/-- one request served by a fresh engine over the stored snapshot stores a valid cache again -/
theorem persStep_keeps (env : Env) (cfg : Cfg) (hcs : cfg.cacheSize < U32) (hb : EnvBounded env cfg.cacheSize)
    (hf : FirstBounded env cfg.cacheSize) (snap : Option Snap) (input : Bytes) (g : Ghost)
    (hs : SnapOk cfg.cacheSize snap) : SnapOk cfg.cacheSize (persStep env cfg snap input g).2.1 := by
  unfold persStep
  have he : Cache.Inv (restore env cfg snap g).vm.ca ∧ (restore env cfg snap g).vm.ca.cacheSize = cfg.cacheSize := by
    unfold restore
    cases snap with
    | none => exact fresh_ok env cfg g hcs
    | some s => exact hs s rfl
  have hr := request_keeps cfg.cacheSize env hb hf cfg _ input he
  rcases hq : request env cfg (restore env cfg snap g) input with ⟨o, e'⟩
  rw [hq] at hr
  simp only [hq]
  clear hq he
  unfold finish
  split
  · next s hfin =>
    intro s' hs'
    simp only [Option.some.injEq] at hs'
    subst hs'
    split at hfin
    · cases hfin
    · split at hfin
      · cases hfin
      · simp at hfin; subst hfin; exact hr
  · intro s hss
    cases snap with
    | some s0 => simp at hss; subst hss; exact hs s0 rfl
    | none =>
      simp only [] at hss
      split at hss
      · cases hss
      · simp at hss; subst hss; exact fresh_ok env cfg {} hcs

/-- **persisted operation: every snapshot ever stored for the session holds a valid cache** -/
theorem persisted_engine_keeps_cache_valid (env : Env) (cfg : Cfg) (hcs : cfg.cacheSize < U32)
    (hb : EnvBounded env cfg.cacheSize) (hf : FirstBounded env cfg.cacheSize) (inputs : List Bytes) :
    ∀ snap, SnapOk cfg.cacheSize snap → SnapOk cfg.cacheSize (persRun env cfg snap inputs).2 := by
  induction inputs with
  | nil => intro snap hs; simpa [persRun] using hs
  | cons i is ih =>
    intro snap hs
    simp only [persRun]
    exact ih _ (persStep_keeps env cfg hcs hb hf snap i {} hs)

/-- non-vacuity: an environment whose handler returns a short value satisfies the bounds, and a fresh engine
with a capacity of 100 bytes satisfies the invariant -/
def demoEnv : Env :=
  { code := fun _ _ => some [], tpl := fun _ _ => some [], label := fun _ _ => none,
    ext := fun _ _ _ _ => some { content := [0x6f, 0x6b] }, langOf := fun _ => none, first := none }

example : EnvBounded demoEnv 100 ∧ FirstBounded demoEnv 100 := by
  refine ⟨?_, ?_⟩
  · intro n sym input lang r h
    simp only [demoEnv, Option.some.injEq] at h
    subst h; decide
  · intro fn h; simp [demoEnv] at h

example : Cache.Inv (newEngine demoEnv { cacheSize := 100 }).vm.ca :=
  (fresh_ok demoEnv { cacheSize := 100 } {} (by decide)).1

end Vise.C08
