/-
  C09 — The symbol cache enforces its limits and accounts for every byte.

  Model: Vise/Cache.lean (cache/cache.go, generic in the value type; `uint32` arithmetic explicit).
  Invariant `Cache.Inv` and its preservation: Vise/Lemmas/CacheInv.lean.
  All statements are for every sequence of operations, every key, every value and every limit.
  The only hypothesis is `size v + capacity < 2^32` per stored value (a `uint32` sum can only wrap
  with 4 GiB of values; stated, not replayable).
-/
import Vise.Lemmas.CacheInv

set_option linter.unusedSectionVars false

namespace Vise.C09
open Vise Res Cache

variable {V : Type} [Sized V]

/-- the state-changing operations of the `cache.Memory` interface -/
inductive Op (V : Type) where
  | add (k : Bytes) (v : V) (limit : Nat)
  | update (k : Bytes) (v : V)
  | push | pop | reset | last

def step (ca : Cache V) : Op V → Cache V
  | .add k v l => (ca.add k v l).1
  | .update k v => (ca.update k v).1
  | .push => ca.push
  | .pop => ca.pop.1
  | .reset => ca.reset
  | .last => ca.last.2

def run (ca : Cache V) (ops : List (Op V)) : Cache V := ops.foldl step ca

/-- the value an operation stores, if any, fits a `uint32` sum together with the capacity. -/
def Op.fits (c : Nat) : Op V → Prop
  | .add _ v _ => Sized.size v + c < U32
  | .update _ v => Sized.size v + c < U32
  | _ => True

theorem step_cacheSize (ca : Cache V) (op : Op V) : (step ca op).cacheSize = ca.cacheSize := by
  cases op with
  | add k v l =>
    rcases add_cases ca k v l with ⟨e, he⟩ | ⟨s, hs, _⟩ | ⟨f, rest, _, _, _, _, hok⟩ <;>
      simp only [step, *]
  | update k v =>
    rcases update_cases ca k v with ⟨e, he⟩ | ⟨i, f, r, _, _, _, _, (⟨_, hu⟩ | ⟨_, hu⟩)⟩
    · simp only [step, he]
    · simp only [step, hu, updPut_cacheSize]
    · simp only [step, hu, updPut_cacheSize]
  | push => rfl
  | pop => simp only [step, pop]; split <;> rfl
  | reset => simp only [step, reset]; split <;> rfl
  | last => rfl

/-- one step preserves the invariant -/
theorem inv_step (ca : Cache V) (op : Op V) (h : Inv ca) (hf : op.fits ca.cacheSize) :
    Inv (step ca op) := by
  cases op with
  | add k v l => exact inv_add ca k v l h hf
  | update k v => exact inv_update ca k v h hf
  | push => exact inv_push ca h
  | pop => exact inv_pop ca h
  | reset => exact inv_reset ca h
  | last => exact inv_last ca h

/-- **Every reachable cache satisfies the invariant**: for any capacity and any operation
sequence from `NewCache().WithCacheSize(c)`. -/
theorem reachable_inv (c : Nat) (hc : c < U32) (ops : List (Op V)) (hf : ∀ op ∈ ops, op.fits c) :
    Inv (run (new c : Cache V) ops) ∧ (run (new c : Cache V) ops).cacheSize = c := by
  suffices H : ∀ (ca : Cache V), Inv ca → ca.cacheSize = c → Inv (run ca ops) ∧ (run ca ops).cacheSize = c from
    H _ (inv_new c hc) rfl
  induction ops with
  | nil => intro ca h hcs; exact ⟨h, hcs⟩
  | cons op ops ih =>
    intro ca h hcs
    simp only [run, List.foldl_cons]
    have hop : op.fits ca.cacheSize := by rw [hcs]; exact hf op (by simp)
    exact ih (fun o ho => hf o (by simp [ho])) (step ca op) (inv_step ca op h hop)
      (by rw [step_cacheSize, hcs])

/-- the reported used size always equals the sum of the stored values' lengths -/
theorem use_eq_sum (c : Nat) (hc : c < U32) (ops : List (Op V)) (hf : ∀ op ∈ ops, op.fits c) :
    (run (new c : Cache V) ops).useSize = (run (new c : Cache V) ops).totalBytes % U32 :=
  (reachable_inv c hc ops hf).1.use

/-- with a capacity configured, the total size of all cached values never exceeds it — and then
the used size is the exact sum, no modulus involved. -/
theorem use_le_capacity (c : Nat) (hc : c < U32) (hpos : c > 0) (ops : List (Op V))
    (hf : ∀ op ∈ ops, op.fits c) :
    (run (new c : Cache V) ops).totalBytes ≤ c ∧
    (run (new c : Cache V) ops).useSize = (run (new c : Cache V) ops).totalBytes := by
  obtain ⟨hi, hcs⟩ := reachable_inv c hc ops hf
  have h1 := hi.cap (by rw [hcs]; exact hpos)
  rw [hcs] at h1
  refine ⟨h1, ?_⟩
  rw [hi.use]
  exact Nat.mod_eq_of_lt (by omega)

/-- a symbol is defined in at most one scope at a time -/
theorem key_in_one_frame (c : Nat) (hc : c < U32) (ops : List (Op V)) (hf : ∀ op ∈ ops, op.fits c) :
    (allKeys (run (new c : Cache V) ops).frames).Nodup :=
  (reachable_inv c hc ops hf).1.nodup

/-- no stored value is longer than the limit declared for its symbol -/
theorem stored_within_limit (c : Nat) (hc : c < U32) (ops : List (Op V)) (hf : ∀ op ∈ ops, op.fits c)
    (i : Nat) (f : Frame V) (k : Bytes) (v : V) (lim : Nat)
    (h1 : (run (new c : Cache V) ops).frames[i]? = some f) (h2 : AList.lookup k f = some v)
    (h3 : AList.lookup k (run (new c : Cache V) ops).sizes = some lim) (h4 : lim > 0) :
    Sized.size v ≤ lim :=
  (reachable_inv c hc ops hf).1.limited i f k v lim h1 h2 h3 h4

/-- a value longer than the declared limit is rejected by `Add` (for every cache state) ... -/
theorem limit_enforced_add (ca : Cache V) (k : Bytes) (v : V) (limit : Nat)
    (hl : limit > 0) (hv : Sized.size v > limit) : ca.add k v limit = (ca, .err "limit") := by
  unfold add; simp [hl, hv]

/-- ... and by `Update`, under the limit declared when the symbol was added. -/
theorem limit_enforced_update (ca : Cache V) (k : Bytes) (v : V) (limit : Nat)
    (hs : AList.lookup k ca.sizes = some limit) (hl : limit > 0) (hv : Sized.size v > limit) :
    ca.update k v = (ca, .err "limit") := by
  unfold update; simp [hs, hl, hv]

/-- a rejected operation leaves the cache unchanged -/
theorem rejected_unchanged_add (ca : Cache V) (k : Bytes) (v : V) (limit : Nat)
    (h : (ca.add k v limit).2 ≠ .ok ()) : (ca.add k v limit).1 = ca :=
  add_rejected_unchanged ca k v limit h

theorem rejected_unchanged_update (ca : Cache V) (k : Bytes) (v : V) (hi : Inv ca)
    (h : (ca.update k v).2 ≠ .ok ()) : (ca.update k v).1 = ca :=
  update_rejected_unchanged ca k v hi h

theorem rejected_unchanged_pop (ca : Cache V) (h : ca.pop.2 ≠ .ok ()) : ca.pop.1 = ca := by
  unfold pop at *
  split
  · rfl
  · next hx => simp [hx] at h

/-- leaving a scope releases exactly the bytes of the symbols it held, and those symbols are
gone: no longer readable and no longer sized. -/
theorem pop_releases_frame_bytes (ca : Cache V) (hi : Inv ca) (f : Frame V) (rest : List (Frame V))
    (hf : ca.frames = f :: rest) :
    ca.pop.1.totalBytes + frameBytes f = ca.totalBytes ∧
    ca.pop.1.useSize = (ca.totalBytes - frameBytes f) % U32 ∧
    (∀ k ∈ AList.keys f, ∃ e, Cache.get ca.pop.1 k = .err e) := by
  have hinv := inv_pop ca hi
  have hn : (AList.keys f ++ allKeys rest).Nodup := by simpa [hf] using hi.nodup
  have hn' := List.nodup_append.mp hn
  have hfr : ca.pop.1.frames = if rest.isEmpty then [[]] else rest := by
    unfold pop; simp [hf]
  have htot : ca.pop.1.totalBytes = sumFrames rest := by
    simp only [totalBytes, hfr]
    split
    · next hr => have : rest = [] := by simpa using hr
                 subst this; simp [frameBytes]
    · rfl
  have hT : ca.totalBytes = frameBytes f + sumFrames rest := by simp [totalBytes, hf]
  refine ⟨by omega, ?_, ?_⟩
  · rw [hinv.use, htot]; congr 1; omega
  · intro k hk
    have hnot : k ∉ allKeys ca.pop.1.frames := by
      rw [hfr]
      split
      · simp [AList.keys]
      · exact fun hm => hn'.2.2 k hk k hm rfl
    have := (frameOf_none_iff k ca.pop.1.frames).mpr hnot
    exact ⟨"notfound", by unfold Cache.get; simp [this]⟩

/-- a value that was accepted is the value read back, from the scope it was stored in and from
every deeper scope (any number of `Push`es later). -/
theorem get_after_add (ca : Cache V) (hi : Inv ca) (k : Bytes) (v : V) (limit : Nat)
    (hfit : Sized.size v + ca.cacheSize < U32)
    (hok : (ca.add k v limit).2 = .ok ()) (n : Nat) :
    Cache.get (Nat.repeat push n (ca.add k v limit).1) k = .ok v := by
  rcases add_cases ca k v limit with ⟨e, he⟩ | ⟨s, hs, _⟩ | ⟨f, rest, _, _, _, hf, hadd⟩
  · rw [he] at hok; simp at hok
  · rw [hs] at hok; simp at hok
  have hinv := inv_add ca k v limit hi hfit
  have hfr : (ca.add k v limit).1.frames = AList.set k v f :: rest := by rw [hadd]
  generalize (ca.add k v limit).1 = ca2 at *
  -- after n pushes the frames are n empty frames on top of ca2.frames
  have hpush : ∀ n, (Nat.repeat push n ca2).frames = List.replicate n [] ++ ca2.frames ∧
      Inv (Nat.repeat push n ca2) := by
    intro n
    induction n with
    | zero => exact ⟨by simp [Nat.repeat], hinv⟩
    | succ n ih =>
      refine ⟨?_, inv_push _ ih.2⟩
      simp only [Nat.repeat, push, ih.1, List.replicate_succ, List.cons_append]
  obtain ⟨hfrn, hinvn⟩ := hpush n
  have hidx : (Nat.repeat push n ca2).frames[n]? = some (AList.set k v f) := by
    rw [hfrn, hfr]
    rw [List.getElem?_append_right (by simp)]
    simp
  have hlk : AList.lookup k (AList.set k v f) = some v := AList.lookup_set_self k v f
  have hfo := frameOf_of_lookup k _ n _ hinvn.nodup hidx (by simp [hlk])
  unfold Cache.get
  simp [hfo, hidx, hlk]

/-! ### non-vacuity: a concrete non-trivial reachable cache -/

example : (run (new 10 : Cache Bytes)
    [.add [1] [7, 7, 7] 5, .push, .add [2] [8, 8] 0, .update [1] [9], .pop]).useSize = 1 := by
  decide

/-- the defect repaired by the `fix:` commits, as regression facts about the model:
a 65539-byte value does not pass a limit of 5, and an empty replacement value is accepted. -/
example : ((new 0 : Cache (Nat × Nat)).add [1] (0, 65539) 5).2 = .err "limit" := by decide
example : (((new 0 : Cache (Nat × Nat)).add [1] (0, 3) 5).1.update [1] (0, 0)).2 = .ok () := by decide

end Vise.C09
