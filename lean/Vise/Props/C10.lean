/-
  C10 — Every storage backend behaves as the same keyed map.

  Model: Vise/Db.lean — `DbCtx` (prefix, session, language, lock mask, seal), `toKey`, the memory
  backend, the filesystem backend as a map on file names. The Postgres wrapper without faults is
  the memory map on the same storage keys (its transaction handling is C13).
  Listing (`Dump`, filesystem) is modelled and compared but NOT proved exact: it is not exact on the
  current tree (known finding C10-fs-dump).
-/
import Vise.Db
import Vise.Lemmas.Cache
import Vise.Props.C11

namespace Vise.C10
open Vise

/-- **A read returns the latest successful write to the same coordinates** (memory backend):
after `Put(key, val)` succeeded, `Get(key)` in the same context returns `val`. -/
theorem mem_get_after_put (c : DbCtx) (l : Option Bytes) (st : Store) (key val : Bytes)
    (h : (Mem.put c l st key val).2 = .ok ()) :
    Mem.get c l (Mem.put c l st key val).1 key = .ok val := by
  unfold Mem.put at h ⊢
  by_cases hc : c.checkPut = true
  · simp only [hc, Bool.not_true, Bool.false_eq_true, if_false] at h ⊢
    cases hk : toKey c l key with
    | ok lk =>
      simp only [hk] at h ⊢
      unfold Mem.get
      simp only [hk, Res.bind_ok]
      cases ht : lk.translation with
      | some t => simp [ht, AList.lookup_set_self]
      | none => simp [ht, AList.lookup_set_self]
    | err e => simp [hk] at h
    | panic p => simp [hk] at h
  · simp [hc] at h

/-- **Writes elsewhere do not matter**: a write whose storage key differs from both keys a read
consults leaves the read's result unchanged. -/
theorem mem_get_unaffected (c c' : DbCtx) (l l' : Option Bytes) (st : Store) (key key' val : Bytes)
    (lk lk' : LookupKey) (hk : toKey c l key = .ok lk) (hk' : toKey c' l' key' = .ok lk')
    (hd : ∀ w, w = (lk'.translation.getD lk'.default) → w ≠ lk.default ∧ some w ≠ lk.translation) :
    Mem.get c l (Mem.put c' l' st key' val).1 key = Mem.get c l st key := by
  unfold Mem.put
  by_cases hc : c'.checkPut = true
  · simp only [hc, Bool.not_true, Bool.false_eq_true, if_false, hk']
    obtain ⟨h1, h2⟩ := hd _ rfl
    unfold Mem.get
    simp only [hk, Res.bind_ok]
    rw [AList.lookup_set_other _ _ _ _ (Ne.symm h1)]
    cases ht : lk.translation with
    | none => rfl
    | some t =>
      have : t ≠ lk'.translation.getD lk'.default := by
        intro e; apply h2; rw [ht, e]
      simp only []
      rw [AList.lookup_set_other _ _ _ _ this]
  · simp [hc]

/-- **A language-scoped read falls back to the default-language entry** when no translation is
stored. -/
theorem mem_lang_fallback (c : DbCtx) (l : Option Bytes) (st : Store) (key v : Bytes) (lk : LookupKey)
    (hk : toKey c l key = .ok lk) (t : Bytes) (ht : lk.translation = some t)
    (hnt : AList.lookup t st = none) (hd : AList.lookup lk.default st = some v) :
    Mem.get c l st key = .ok v := by
  unfold Mem.get
  simp [hk, ht, hnt, hd]

/-- **A key never written is reported as not-found** (the distinguished error kind) -/
theorem mem_never_written_notfound (c : DbCtx) (l : Option Bytes) (st : Store) (key : Bytes) (lk : LookupKey)
    (hk : toKey c l key = .ok lk) (hd : AList.lookup lk.default st = none)
    (ht : ∀ t, lk.translation = some t → AList.lookup t st = none) :
    Mem.get c l st key = .err "notfound" := by
  unfold Mem.get
  simp only [hk, Res.bind_ok]
  cases htr : lk.translation with
  | none => simp [hd]
  | some t => simp [ht t htr, hd]

/-- **Writes to a locked data type are refused and change nothing** (memory and filesystem) -/
theorem locked_put_refused_unchanged (c : DbCtx) (l : Option Bytes) (st : Store) (key val : Bytes)
    (enc : Option (Bytes → Bytes)) (h : c.checkPut = false) :
    Mem.put c l st key val = (st, .err "locked") ∧ Fs.put enc c l st key val = (st, .err "locked") := by
  unfold Mem.put Fs.put
  simp [h]

/-- the four data types that are read-only for the VM are locked in a new store -/
theorem default_lock_covers_readonly_types :
    ∀ t ∈ [Facts.dtBin, Facts.dtMenu, Facts.dtTemplate, Facts.dtStaticload],
      ({ ({} : DbCtx) with pfx := t }).checkPut = false := by decide

/-- **Sealing cannot be undone**: once sealed every `SetLock` fails, and sealing itself locks all
four read-only types. -/
theorem seal_irreversible (c : DbCtx) (hs : c.isSealed = true) (pfx : Nat) (lock : Bool) :
    c.setLock pfx lock = .err "sealed" := by
  unfold DbCtx.setLock; simp [hs]

theorem seal_locks_and_seals (c : DbCtx) (hs : c.isSealed = false) :
    ∃ c', c.setLock 0 true = .ok c' ∧ c'.isSealed = true ∧ c'.safe = true := by
  refine ⟨{ c with lock := c.lock ||| Facts.safeLock, isSealed := true },
    by unfold DbCtx.setLock; simp [hs], rfl, ?_⟩
  unfold DbCtx.safe
  simp only []
  have : (c.lock ||| Facts.safeLock) &&& Facts.safeLock = Facts.safeLock := by
    apply Nat.eq_of_testBit_eq
    intro i
    simp [Nat.testBit_and, Nat.testBit_or]
    exact fun h => Or.inr h
  simp [this]

/-- filesystem: a read returns what was written to the same coordinates (the primary name of the
key written is the first or third name a read tries, before any legacy name of that key) -/
theorem fs_get_after_put (enc : Option (Bytes → Bytes)) (c : DbCtx) (l : Option Bytes) (files : Store)
    (key val : Bytes) (h : (Fs.put enc c l files key val).2 = .ok ()) :
    Fs.get enc c l (Fs.put enc c l files key val).1 key = .ok val ∨
    (∃ lk t, Fs.fsToKey enc c l key = .ok lk ∧ lk.translation = some t ∧ False) := by
  left
  unfold Fs.put at h ⊢
  by_cases hc : c.checkPut = true
  · simp only [hc, Bool.not_true, Bool.false_eq_true, if_false] at h ⊢
    cases hk : Fs.fsToKey enc c l key with
    | ok lk =>
      simp only [hk] at h ⊢
      unfold Fs.get
      simp only [hk, Res.bind_ok]
      cases ht : lk.translation with
      | some t => simp [ht, AList.lookup_set_self, List.findSome?]
      | none =>
        simp only [ht, Option.map_none, List.findSome?]
        simp [AList.lookup_set_self]
    | err e => simp [hk] at h
    | panic p => simp [hk] at h
  · simp [hc] at h

end Vise.C10
