/-
  C11 — Sessions and data types never see each other's stored data.

  Model: key derivation of db/db.go (`toSessionKey`, `toDbKey`, `toKey`, constants regenerated),
  the memory backend (db/mem) and the filesystem name mapping (db/fs pathFor / altPathFor).
  Proved: the storage key is injective on session ids that are dot-free (both empty or both
  non-empty); hence isolation on the memory backend (and the Postgres wrapper, which is the same map
  on the same keys when no fault occurs, C13). Outside that domain the property is FALSE on the tree:
  negation witnesses below, known findings C11-dot-collision and C11-fs-legacy-name.
-/
import Vise.Db
import Vise.Lemmas.Cache

namespace Vise.C11
open Vise

def sep : UInt8 := UInt8.ofNat Facts.sessionSep

/-- session prefix as `SetSession` stores it -/
def sidBytes (sid : Bytes) : Bytes := if sid.isEmpty then [] else sid ++ [sep]

/-- the storage key of (type, session, key) in the default language -/
def storageKey (typ : Nat) (sid key : Bytes) : Bytes :=
  toDbKey typ (toSessionKey (sidBytes sid) typ key) none

theorem append_sep_inj (a b x y : Bytes) (c : UInt8) (ha : c ∉ a) (hb : c ∉ b)
    (h : a ++ c :: x = b ++ c :: y) : a = b ∧ x = y := by
  induction a generalizing b with
  | nil =>
    cases b with
    | nil => simp at h; exact ⟨rfl, h⟩
    | cons b0 bs =>
      simp at h
      obtain ⟨h1, _⟩ := h
      subst h1
      simp at hb
  | cons a0 as ih =>
    cases b with
    | nil =>
      simp at h
      obtain ⟨h1, _⟩ := h
      subst h1
      simp at ha
    | cons b0 bs =>
      simp at h ha hb
      obtain ⟨h1, h2⟩ := h
      subst h1
      obtain ⟨e1, e2⟩ := ih bs ha.2 hb.2 h2
      exact ⟨by rw [e1], e2⟩

/-- the type byte alone separates data types -/
theorem storageKey_type (t1 t2 : Nat) (s1 s2 k1 k2 : Bytes) (h1 : t1 < 256) (h2 : t2 < 256)
    (h : storageKey t1 s1 k1 = storageKey t2 s2 k2) : t1 = t2 := by
  unfold storageKey toDbKey at h
  simp at h
  have := congrArg UInt8.toNat h.1
  simp at this
  omega

/-- **The storage key is injective** on (type, session, key) for dot-free session ids that are both
empty or both non-empty: equal keys mean equal type, equal key and — for the sessioned types —
equal session. -/
theorem storageKey_injective_on (t1 t2 : Nat) (s1 s2 k1 k2 : Bytes) (h1 : t1 < 256) (h2 : t2 < 256)
    (hd1 : sep ∉ s1) (hd2 : sep ∉ s2) (he : s1 = [] ↔ s2 = [])
    (h : storageKey t1 s1 k1 = storageKey t2 s2 k2) :
    t1 = t2 ∧ k1 = k2 ∧ (t1 > Facts.sessionedThreshold → s1 = s2) := by
  have ht := storageKey_type t1 t2 s1 s2 k1 k2 h1 h2 h
  subst ht
  refine ⟨rfl, ?_⟩
  unfold storageKey toDbKey toSessionKey at h
  simp only [List.cons.injEq, true_and] at h
  by_cases hs : t1 > Facts.sessionedThreshold
  · simp only [hs, if_true] at h
    unfold sidBytes at h
    by_cases e1 : s1 = []
    · have e2 := he.mp e1
      subst e1; subst e2
      simp at h
      exact ⟨h, fun _ => rfl⟩
    · have e2 : s2 ≠ [] := fun e => e1 (he.mpr e)
      have i1 : s1.isEmpty = false := by simpa using e1
      have i2 : s2.isEmpty = false := by simpa using e2
      simp only [i1, i2, Bool.false_eq_true, if_false, List.append_assoc, List.singleton_append] at h
      obtain ⟨a, b⟩ := append_sep_inj s1 s2 k1 k2 sep hd1 hd2 h
      exact ⟨b, fun _ => a⟩
  · simp only [hs, if_false] at h
    exact ⟨h, fun hh => absurd hh hs⟩

/-- **Isolation on the memory backend**: a write under one (type, session, key) does not change
what is read under another, for coordinates in the domain above (default language). -/
theorem mem_isolation (st : Store) (t1 t2 : Nat) (s1 s2 k1 k2 v : Bytes) (h1 : t1 < 256) (h2 : t2 < 256)
    (hd1 : sep ∉ s1) (hd2 : sep ∉ s2) (he : s1 = [] ↔ s2 = [])
    (hne : ¬ (t1 = t2 ∧ k1 = k2 ∧ (t1 > Facts.sessionedThreshold → s1 = s2))) :
    AList.lookup (storageKey t2 s2 k2) (AList.set (storageKey t1 s1 k1) v st) =
      AList.lookup (storageKey t2 s2 k2) st := by
  apply AList.lookup_set_other
  intro h
  exact hne (storageKey_injective_on t1 t2 s1 s2 k1 k2 h1 h2 hd1 hd2 he h.symm)

/-- the file name mapping keeps storage keys apart (type bytes below 208 do not wrap) -/
theorem fs_names_injective (a b : Bytes) (ha : ∀ t ∈ a.head?, t.toNat < 208) (hb : ∀ t ∈ b.head?, t.toNat < 208)
    (h : Fs.nameFor a = Fs.nameFor b) : a = b := by
  cases a with
  | nil => cases b with
    | nil => rfl
    | cons _ _ => simp [Fs.nameFor] at h
  | cons x xs => cases b with
    | nil => simp [Fs.nameFor] at h
    | cons y ys =>
      simp [Fs.nameFor] at h
      have hx := ha x (by simp)
      have hy := hb y (by simp)
      have ho : Facts.fsTypeOffset = 48 := rfl
      obtain ⟨h1, h2⟩ := h
      have := congrArg UInt8.toNat h1
      simp [ho] at this
      have e : x.toNat = y.toNat := by omega
      have : x = y := UInt8.toNat_inj.mp e
      rw [this, h2]

/-! ### negation witnesses (known findings) -/

/-- session `a`, key `b.c` and session `a.b`, key `c` share one user-data record (all backends) -/
theorem dot_collision_counterexample :
    storageKey 32 [97] [98, 46, 99] = storageKey 32 [97, 46, 98] [99] := by decide

/-- ... and so does the empty session with key `a.b.c` -/
theorem empty_session_collision_counterexample :
    storageKey 32 [] [97, 46, 98, 46, 99] = storageKey 32 [97] [98, 46, 99] := by decide

/-- filesystem only: the legacy name drops the type byte, so a STATE read in the empty session
with key `Pa.b` opens the file of session `a`'s USERDATA record `b` (`P` = 32 + 0x30). -/
theorem fs_legacy_name_counterexample :
    Fs.altNameFor 16 (toDbKey 16 (toSessionKey [] 16 [80, 97, 46, 98]) none) =
      Fs.nameFor (toDbKey 32 (toSessionKey (sidBytes [97]) 32 [98]) none) := by decide

/-! ### Postgres listing: nothing outside the (type, session, prefix) it was opened with is listed -/

theorem pg_dumpRest_confined (c : DbCtx) (base : Bytes) (rows : List (Bytes × Bytes)) :
    ∀ p ∈ Pg.dumpRest c base rows, ∃ kk, (kk, p.2) ∈ rows ∧ base.isPrefixOf kk = true ∧
      Fs.decodeKey none c kk = .ok p.1 := by
  induction rows with
  | nil => intro p hp; simp [Pg.dumpRest] at hp
  | cons r rest ih =>
    obtain ⟨kk, vv⟩ := r
    intro p hp
    unfold Pg.dumpRest at hp
    by_cases hb : base.isPrefixOf kk = true
    · rw [if_pos hb] at hp
      cases hd : Fs.decodeKey none c kk with
      | ok k =>
        rw [hd] at hp
        simp only [List.mem_cons] at hp
        rcases hp with rfl | hp
        · exact ⟨kk, by simp, hb, hd⟩
        · obtain ⟨kk', h1, h2, h3⟩ := ih p hp
          exact ⟨kk', by simp [h1], h2, h3⟩
      | err e => rw [hd] at hp; simp at hp
      | panic e => rw [hd] at hp; simp at hp
    · rw [if_neg hb] at hp; simp at hp

/-- every row the Postgres listing hands out is a row of the table whose storage key starts with the storage key
of (current type, current session, requested prefix), and the key shown is that row's key decoded in the current session -/
theorem pg_dump_confined (c : DbCtx) (st : Store) (key : Bytes) (l : List (Bytes × Bytes))
    (h : Pg.dump c st key = .ok l) :
    ∀ p ∈ l, ∃ kk, (kk, p.2) ∈ Pg.rowsFrom st (toDbKey c.pfx (toSessionKey c.sid c.pfx key) none) ∧
      (toDbKey c.pfx (toSessionKey c.sid c.pfx key) none).isPrefixOf kk = true ∧
      Fs.decodeKey none c kk = .ok p.1 := by
  unfold Pg.dump toKey at h
  by_cases hu : c.pfx = Facts.dtUnknown
  · simp [hu] at h
  · simp only [hu, if_false] at h
    generalize hrows : Pg.rowsFrom st (toDbKey c.pfx (toSessionKey c.sid c.pfx key) none) = rows at h ⊢
    cases rows with
    | nil => simp at h
    | cons r rest =>
      obtain ⟨kk, vv⟩ := r
      simp only at h
      by_cases hb : (toDbKey c.pfx (toSessionKey c.sid c.pfx key) none).isPrefixOf kk = true
      · rw [if_pos hb] at h
        cases hd : Fs.decodeKey none c kk with
        | ok k =>
          rw [hd] at h
          simp only [Res.ok.injEq] at h
          subst h
          intro p hp
          simp only [List.mem_cons] at hp
          rcases hp with rfl | hp
          · exact ⟨kk, by simp, hb, hd⟩
          · obtain ⟨kk', h1, h2, h3⟩ := pg_dumpRest_confined c _ rest p hp
            exact ⟨kk', by simp [h1], h2, h3⟩
        | err e => rw [hd] at h; simp at h
        | panic e => rw [hd] at h; simp at h
      · rw [if_neg hb] at h; simp at h

/-- a row with that prefix carries the type byte of the listing: records of other data types are never listed -/
theorem pg_dump_same_type (typ : Nat) (b kk : Bytes) (h : (toDbKey typ b none).isPrefixOf kk = true) :
    kk.head? = some (UInt8.ofNat typ) := by
  cases kk with
  | nil => simp [toDbKey] at h
  | cons x xs =>
    simp [toDbKey] at h
    simp [h.1]

/-! ### filesystem listing: only entries under the requested prefix and type, with the value a Get returns -/

/-- the rows the filesystem listing continues with all match the requested prefix under their own type byte -/
theorem fs_dumpRest_confined (enc : Option (Bytes → Bytes)) (dec : Option (Bytes → Option Bytes)) (c : DbCtx)
    (ctxLang : Option Bytes) (files : Store) (mp : Bytes) (names : List Bytes) :
    ∀ p ∈ Fs.dumpRest enc dec c ctxLang files mp names, ∃ name ∈ names,
      Fs.decodeKey dec c (Fs.elementKey name) = .ok p.1 ∧
      mp.isPrefixOf (((Fs.elementKey name).headD 0) :: p.1) = true ∧
      Fs.get enc c ctxLang files p.1 = .ok p.2 := by
  induction names with
  | nil => intro p hp; simp [Fs.dumpRest] at hp
  | cons name rest ih =>
    intro p hp
    unfold Fs.dumpRest at hp
    simp only at hp
    cases hd : Fs.decodeKey dec c (Fs.elementKey name) with
    | ok kk =>
      rw [hd] at hp
      simp only at hp
      by_cases hb : mp.isPrefixOf (((Fs.elementKey name).headD 0) :: kk) = true
      · rw [if_pos hb] at hp
        cases hg : Fs.get enc c ctxLang files kk with
        | ok vv =>
          rw [hg] at hp
          simp only [List.mem_cons] at hp
          rcases hp with rfl | hp
          · exact ⟨name, by simp, hd, hb, hg⟩
          · obtain ⟨n', h1, h2⟩ := ih p hp
            exact ⟨n', by simp [h1], h2⟩
        | err e => rw [hg] at hp; simp at hp
        | panic e => rw [hg] at hp; simp at hp
      · rw [if_neg hb] at hp; simp at hp
    | err e => rw [hd] at hp; simp at hp
    | panic e => rw [hd] at hp; simp at hp
theorem fs_dump_first_confined (enc : Option (Bytes → Bytes)) (dec : Option (Bytes → Option Bytes)) (c : DbCtx)
    (ctxLang : Option Bytes) (files : Store) (mp : Bytes) (names : List Bytes) (l : List (Bytes × Bytes))
    (h : Fs.dump.first enc dec c ctxLang files mp names = .ok l) :
    ∀ p ∈ l, ∃ name ∈ names,
      Fs.decodeKey dec c (Fs.elementKey name) = .ok p.1 ∧
      mp.isPrefixOf (((Fs.elementKey name).headD 0) :: p.1) = true ∧
      Fs.get enc c ctxLang files p.1 = .ok p.2 := by
  induction names with
  | nil => simp [Fs.dump.first] at h
  | cons name rest ih =>
    unfold Fs.dump.first at h
    simp only at h
    by_cases hlen : mp.length > (Fs.elementKey name).length
    · rw [if_pos hlen] at h
      intro p hp
      obtain ⟨n', h1, h2⟩ := ih h p hp
      exact ⟨n', by simp [h1], h2⟩
    · rw [if_neg hlen] at h
      cases hd : Fs.decodeKey dec c (Fs.elementKey name) with
      | ok kk =>
        rw [hd] at h
        simp only at h
        by_cases hb : mp.isPrefixOf (((Fs.elementKey name).headD 0) :: kk) = true
        · rw [if_pos hb] at h
          cases hg : Fs.get enc c ctxLang files kk with
          | ok vv =>
            rw [hg] at h
            simp only [Res.ok.injEq] at h
            subst h
            intro p hp
            simp only [List.mem_cons] at hp
            rcases hp with rfl | hp
            · exact ⟨name, by simp, hd, hb, hg⟩
            · obtain ⟨n', h1, h2⟩ := fs_dumpRest_confined enc dec c ctxLang files mp rest p hp
              exact ⟨n', by simp [h1], h2⟩
          | err e => rw [hg] at h; simp at h
          | panic e => rw [hg] at h; simp at h
        · rw [if_neg hb] at h
          intro p hp
          obtain ⟨n', h1, h2⟩ := ih h p hp
          exact ⟨n', by simp [h1], h2⟩
      | err e =>
        rw [hd] at h
        intro p hp
        obtain ⟨n', h1, h2⟩ := ih h p hp
        exact ⟨n', by simp [h1], h2⟩
      | panic e =>
        rw [hd] at h
        intro p hp
        obtain ⟨n', h1, h2⟩ := ih h p hp
        exact ⟨n', by simp [h1], h2⟩

/-- **filesystem listing**: every entry listed is a file of the directory whose name decodes, in the current session,
to the key shown, matches the requested prefix under the type byte of the listing, and the value shown is what a Get of
that key returns now -/
theorem fs_dump_confined (enc : Option (Bytes → Bytes)) (dec : Option (Bytes → Option Bytes)) (c : DbCtx)
    (ctxLang : Option Bytes) (files : Store) (key : Bytes) (l : List (Bytes × Bytes))
    (h : Fs.dump enc dec c ctxLang files key = .ok l) :
    ∀ p ∈ l, ∃ name ∈ (Fs.sortedFiles files).map (·.1),
      Fs.decodeKey dec c (Fs.elementKey name) = .ok p.1 ∧
      (UInt8.ofNat c.pfx :: key).isPrefixOf (((Fs.elementKey name).headD 0) :: p.1) = true ∧
      Fs.get enc c ctxLang files p.1 = .ok p.2 := by
  unfold Fs.dump at h
  exact fs_dump_first_confined enc dec c ctxLang files _ _ l h

/-- before the fix the listing ran on into the rows of higher data types: the USERDATA-less type 1 listing with the empty
session over a table that holds session `a`'s STATE record (type 16) now lists nothing -/
example : Pg.dump { pfx := 1 } [([16, 97, 46, 99], [115])] [102] = .err "notfound" := by decide

end Vise.C11
