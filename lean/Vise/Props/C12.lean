/-
  C12 — saving session state to the filesystem store is crash-atomic.

  `crashAt ops k fs` is the store directory when the process dies after exactly `k` of the save's
  file operations. The harness abstracts the system calls the real `fsDb.Put` makes into letters; the
  theorems are about EVERY letter string in the safe pattern language (`safeLetters`, re-evaluated on every
  traced save), every crash point, every directory content and every pair of old/new records.
-/
import Vise.FsCrash
import Vise.Lemmas.Cache

namespace Vise.C12
open Vise Vise.FsCrash AList

theorem crashAt_nil (k : Nat) (fs : Store) : crashAt [] k fs = fs := by simp [crashAt]
theorem crashAt_zero (ops : List FsOp) (fs : Store) : crashAt ops 0 fs = fs := by simp [crashAt]
theorem crashAt_cons (op : FsOp) (ops : List FsOp) (k : Nat) (fs : Store) :
    crashAt (op :: ops) (k + 1) fs = crashAt ops k (applyOp fs op) := by simp [crashAt]

/-- after the rename nothing else may touch the store: the directory stays as it is -/
theorem done_phase (r t : Bytes) (s : List L) (i k : Nat) (fs : Store) (h : safeFrom .done s = true) :
    crashAt (opsOfLetters r t i s) k fs = fs ∧ valueOfLetters i s = [] := by
  induction s generalizing k fs with
  | nil => simp [opsOfLetters, crashAt_nil, valueOfLetters]
  | cons c rest ih =>
    cases c <;> simp [safeFrom] at h
    cases k with
    | zero => exact ⟨crashAt_zero _ _, by simpa [valueOfLetters] using (ih 0 fs h).2⟩
    | succ k =>
      simp only [opsOfLetters, crashAt_cons, applyOp, valueOfLetters]
      exact ih k fs h

/-- while the temporary file is being written the record and every other file are untouched; the rename
installs exactly the bytes written so far plus the rest of the chunks -/
theorem writing_phase (r t : Bytes) (hrt : t ≠ r) (s : List L) (i k : Nat) (fs : Store) (v : Bytes)
    (h : safeFrom .writing s = true) (hv : lookup t fs = some v) :
    (lookup r (crashAt (opsOfLetters r t i s) k fs) = lookup r fs ∨
      lookup r (crashAt (opsOfLetters r t i s) k fs) = some (v ++ valueOfLetters i s)) ∧
    ∀ p, p ≠ t → p ≠ r → lookup p (crashAt (opsOfLetters r t i s) k fs) = lookup p fs := by
  induction s generalizing i k fs v with
  | nil => simp [opsOfLetters, crashAt_nil]
  | cons c rest ih =>
    cases k with
    | zero => simp [crashAt_zero]
    | succ k =>
      cases c <;> simp [safeFrom] at h
      · -- w
        simp only [opsOfLetters, crashAt_cons, applyOp, hv, valueOfLetters]
        have hv' : lookup t (AList.set t (v ++ [UInt8.ofNat i]) fs) = some (v ++ [UInt8.ofNat i]) :=
          lookup_set_self _ _ _
        obtain ⟨h1, h2⟩ := ih (i + 1) k _ _ h hv'
        have hr : lookup r (AList.set t (v ++ [UInt8.ofNat i]) fs) = lookup r fs :=
          lookup_set_other _ _ _ _ (fun e => hrt e.symm)
        refine ⟨?_, fun p hp1 hp2 => by rw [h2 p hp1 hp2]; exact lookup_set_other _ _ _ _ hp1⟩
        rcases h1 with h1 | h1
        · left; rw [h1, hr]
        · right; rw [h1]; simp [List.append_assoc]
      · -- N
        simp only [opsOfLetters, crashAt_cons, applyOp, hv, valueOfLetters]
        obtain ⟨hd, hval⟩ := done_phase r t rest i k (AList.set r v (AList.erase t fs)) h
        rw [hd, hval]
        refine ⟨Or.inr (by simp [lookup_set_self]), fun p hp1 hp2 => ?_⟩
        rw [lookup_set_other _ _ _ _ hp2, lookup_erase_other _ _ _ hp1]
      · -- other
        simp only [opsOfLetters, crashAt_cons, applyOp, valueOfLetters]
        exact ih i k fs v h hv

theorem before_phase (r t : Bytes) (hrt : t ≠ r) (s : List L) (i k : Nat) (fs : Store)
    (h : safeFrom .before s = true) (ht : lookup t fs = none) :
    (lookup r (crashAt (opsOfLetters r t i s) k fs) = lookup r fs ∨
      lookup r (crashAt (opsOfLetters r t i s) k fs) = some (valueOfLetters i s)) ∧
    ∀ p, p ≠ t → p ≠ r → lookup p (crashAt (opsOfLetters r t i s) k fs) = lookup p fs := by
  induction s generalizing k with
  | nil => simp [opsOfLetters, crashAt_nil]
  | cons c rest ih =>
    cases k with
    | zero => simp [crashAt_zero]
    | succ k =>
      cases c <;> simp [safeFrom] at h
      · -- T
        simp only [opsOfLetters, crashAt_cons, applyOp, ht, valueOfLetters]
        have hv : lookup t (AList.set t [] fs) = some [] := lookup_set_self _ _ _
        obtain ⟨h1, h2⟩ := writing_phase r t hrt rest i k _ [] h hv
        have hr : lookup r (AList.set t ([] : Bytes) fs) = lookup r fs :=
          lookup_set_other _ _ _ _ (fun e => hrt e.symm)
        refine ⟨?_, fun p hp1 hp2 => by rw [h2 p hp1 hp2]; exact lookup_set_other _ _ _ _ hp1⟩
        rcases h1 with h1 | h1
        · left; rw [h1, hr]
        · right; simpa using h1
      · -- other
        simp only [opsOfLetters, crashAt_cons, applyOp, valueOfLetters]
        exact ih k h

/-- **Crash atomicity of every safe save pattern.** Whatever the directory held, whatever is written, and
wherever the process dies — before, between or after any of the save's file operations — the session record
reads as the complete previous content or the complete new one, and every other record (other than the
temporary file) is untouched. -/
theorem safe_save_is_crash_atomic (r t : Bytes) (hrt : t ≠ r) (s : List L) (hs : safeLetters s = true)
    (fs : Store) (ht : lookup t fs = none) (k : Nat) :
    (lookup r (crashAt (opsOfLetters r t 0 s) k fs) = lookup r fs ∨
      lookup r (crashAt (opsOfLetters r t 0 s) k fs) = some (valueOfLetters 0 s)) ∧
    ∀ p, p ≠ t → p ≠ r → lookup p (crashAt (opsOfLetters r t 0 s) k fs) = lookup p fs :=
  before_phase r t hrt s 0 k fs hs ht

/-- the traced pattern of the repaired `fsDb.Put` (read of the old record, temp file, one write, fsync, close,
rename, re-read) is in the safe language -/
example : safeLetters ("R.TwscNR..".toList.map L.ofChar) = true := by decide

/-- **... and the engine continues the session from it.** If the previous and the new record decode, a fresh
process after a crash at any point continues from one of the two states: it never finds a record it cannot
load (which `ensurePersist` would silently replace by a new session). -/
theorem safe_save_session_continues {σ} (dec : Bytes → Option σ) (r t : Bytes) (hrt : t ≠ r) (s : List L)
    (hs : safeLetters s = true) (fs : Store) (ht : lookup t fs = none)
    (old : Bytes) (sOld sNew : σ) (hold : lookup r fs = some old) (hdo : dec old = some sOld)
    (hdn : dec (valueOfLetters 0 s) = some sNew) (k : Nat) :
    startSession dec r (crashAt (opsOfLetters r t 0 s) k fs) = .continues sOld ∨
    startSession dec r (crashAt (opsOfLetters r t 0 s) k fs) = .continues sNew := by
  rcases (safe_save_is_crash_atomic r t hrt s hs fs ht k).1 with h | h
  · left; simp [startSession, h, hold, hdo]
  · right; simp [startSession, h, hdn]

/-- the canonical sequence of the repaired Put: exclusive temporary file, any chunking of the value (a short
write is one more chunk), sync, close, rename -/
theorem atomicPut_pattern (n : Nat) :
    safeLetters ([L.T] ++ List.replicate n L.w ++ [L.other, L.other, L.N]) = true := by
  unfold safeLetters
  simp only [List.cons_append, List.nil_append, safeFrom]
  induction n with
  | zero => simp [safeFrom]
  | succ n ih => simpa [List.replicate_succ, safeFrom] using ih

/-! ### the previous procedure (truncate in place) is not crash-atomic — the defect the `fix:` commit repairs -/

/-- a crash right after the truncating open leaves an empty record, whatever was there -/
theorem trunc_save_tears_record (r t : Bytes) (s : List L) (fs : Store) :
    lookup r (crashAt (opsOfLetters r t 0 (L.O :: s)) 1 fs) = some [] := by
  simp [opsOfLetters, crashAt_cons, crashAt_zero, applyOp, lookup_set_self]

/-- ... and a fresh process then silently starts a new session over it (an empty record does not decode) -/
theorem trunc_save_silent_restart {σ} (dec : Bytes → Option σ) (hdec : dec [] = none) (r t : Bytes) (s : List L)
    (fs : Store) :
    startSession dec r (crashAt (opsOfLetters r t 0 (L.O :: s)) 1 fs) = .silentRestart := by
  simp [startSession, trunc_save_tears_record, hdec]

/-- the traced pattern of the previous Put is rejected by the pattern check -/
example : safeLetters ("R.OWcR..".toList.map L.ofChar) = false := by decide

/-- non-vacuity: a concrete directory, crash before the rename and after it -/
example :
    let fs : Store := [([0x72], [9, 9]), ([0x6f], [1])]
    let ops := opsOfLetters [0x72] [0x74] 0 ("TwwscN".toList.map L.ofChar)
    lookup [0x72] (crashAt ops 5 fs) = some [9, 9] ∧ lookup [0x72] (crashAt ops 6 fs) = some [0, 1] ∧
      lookup [0x6f] (crashAt ops 6 fs) = some [1] := by decide

/-- removing the record before renaming the temporary file over it (a seeded change of the second wave) is not
crash-atomic: after a crash between the two calls the record is gone, and a fresh process takes that for a session
that never existed (kernel-evaluated on a concrete directory: record `[1]` holding `[7]`, temporary file `[2]` holding
the new content `[8]`) -/
theorem remove_before_rename_loses_record :
    lookup [1] (crashAt [.unlink [1], .rename [2] [1]] 1 [([1], [7]), ([2], [8])]) = none ∧
    startSession (σ := Bytes) some [1] (crashAt [.unlink [1], .rename [2] [1]] 1 [([1], [7]), ([2], [8])]) = .fresh ∧
    lookup [1] (crashAt [.unlink [1], .rename [2] [1]] 2 [([1], [7]), ([2], [8])]) = some [8] := by decide

end Vise.C12
