/-
  C13 — A storage error on Postgres never wedges the store or loses acknowledged writes.

  Model: Vise/PgTx.lean — the wrapper of db/postgres/pg.go (with the two `fix:` commits) over the
  abstract transactional driver `Drv` with numbered primitive calls and a fault set.
  All statements are for every driver state, every fault set and every operation.
-/
import Vise.PgTx
import Vise.Lemmas.Cache

namespace Vise.C13
open Vise

/-- the wrapper's own invariant: outside an explicit multi-operation transaction no transaction is
left open between operations -/
def Idle (p : Pg) : Prop := p.multi = false → p.drv.cur = none

/-! ### driver primitives -/

theorem begin_ok_cur (d : Drv) (h : d.begin.1 = true) : d.begin.2.cur.isSome = true := by
  unfold Drv.begin Drv.prim at *
  simp only [] at h ⊢
  split at h <;> simp_all

theorem begin_fail_cur (d : Drv) (h : d.begin.1 = false) : d.begin.2.cur = d.cur ∧ d.begin.2.committed = d.committed := by
  unfold Drv.begin Drv.prim at *
  simp only [] at h ⊢
  split at h <;> simp_all

theorem stmt_cur (d : Drv) (h : d.cur.isSome = true) :
    d.stmt.2.cur.isSome = true ∧ d.stmt.2.committed = d.committed := by
  unfold Drv.stmt Drv.prim
  cases hc : d.cur with
  | none => simp [hc] at h
  | some t =>
    simp only []
    split
    · simp [hc]
    · split <;> simp

theorem next_cur (d : Drv) (h : d.cur.isSome = true) :
    d.next.2.cur.isSome = true ∧ d.next.2.committed = d.committed := by
  unfold Drv.next Drv.prim
  simp only []
  split
  · cases hc : d.cur <;> simp_all
  · exact ⟨h, rfl⟩

theorem scan_cur (d : Drv) (h : d.cur.isSome = true) :
    d.scan.2.cur.isSome = true ∧ d.scan.2.committed = d.committed := by
  unfold Drv.scan Drv.prim
  simp only []
  split
  · cases hc : d.cur <;> simp_all
  · simp [h]

theorem commit_cur (d : Drv) : d.commit.2.cur = none ∨ d.cur = none := by
  unfold Drv.commit Drv.prim
  cases hc : d.cur with
  | none => right; rfl
  | some t =>
    left
    simp only []
    split
    · rfl
    · split <;> rfl

theorem rollback_cur (d : Drv) : d.rollback.cur = none ∧ d.rollback.committed = d.committed := by
  unfold Drv.rollback
  cases hc : d.cur <;> simp [hc, Drv.prim]

/-! ### the wrapper -/

theorem start_spec (p : Pg) :
    (p.start.1 = true → p.start.2.drv.cur.isSome = true) ∧ p.start.2.multi = p.multi ∧
    (p.start.1 = false → p.start.2.drv.cur = none) := by
  unfold Pg.start
  by_cases hc : p.drv.cur.isSome = true
  · simp [hc]
  · simp only [hc, Bool.false_eq_true, if_false]
    refine ⟨fun h => begin_ok_cur p.drv h, trivial, fun h => ?_⟩
    have := (begin_fail_cur p.drv h).1
    rw [this]
    simpa using hc

theorem stopSingle_no_panic (p : Pg) (h : p.drv.cur.isSome = true) (s : String) :
    p.stopSingle.1 ≠ .panic s := by
  unfold Pg.stopSingle
  split
  · simp
  · cases hc : p.drv.cur with
    | none => simp [hc] at h
    | some t => simp only []; split <;> simp

theorem stopSingle_idle (p : Pg) : Idle p.stopSingle.2 ∨ p.drv.cur = none := by
  unfold Pg.stopSingle Idle
  by_cases hm : p.multi = true
  · left; simp [hm]
  · simp only [hm, Bool.false_eq_true, if_false]
    cases hc : p.drv.cur with
    | none => right; rfl
    | some t =>
      left
      intro _
      have := commit_cur p.drv
      simp only []
      rcases this with h | h
      · exact h
      · rw [hc] at h; cases h

theorem stop_no_panic (p : Pg) (s : String) : (p.step .stop).1 ≠ .panic s := by
  simp only [Pg.step, Pg.stop]
  split
  · simp
  · split
    · simp
    · simp only []; split <;> simp

/-- **No operation ever panics** — in particular `Abort` without a transaction (the repaired nil
dereference) and the commit in `stopSingle` (always preceded by a successful `start`). -/
theorem never_panics (p : Pg) (op : PgOp) (s : String) : (p.step op).1 ≠ .panic s := by
  cases op with
  | put k v =>
    simp only [Pg.step, Pg.put]
    have hs := start_spec p
    rcases hst : p.start with ⟨ok, p1⟩
    rw [hst] at hs
    cases ok with
    | false => simp
    | true =>
      simp only [Bool.not_true, Bool.false_eq_true, if_false]
      have h1 := stmt_cur p1.drv (hs.1 rfl)
      rcases hsm : p1.drv.stmt with ⟨ok2, d2⟩
      rw [hsm] at h1
      cases ok2 with
      | false => simp
      | true =>
        simp only [Bool.not_true, Bool.false_eq_true, if_false]
        apply stopSingle_no_panic
        simp only []
        cases hc : d2.cur with
        | none => simp [hc] at h1
        | some t => simp
  | get tr dk =>
    simp only [Pg.step, Pg.get]
    have hs := start_spec p
    rcases hst : p.start with ⟨ok, p1⟩
    rw [hst] at hs
    cases ok with
    | false => simp
    | true =>
      simp only [Bool.not_true, Bool.false_eq_true, if_false]
      have hcur := hs.1 rfl
      -- a query keeps the transaction open
      have hq : ∀ (q : Pg) (k : Bytes), q.drv.cur.isSome = true → (q.query k).2.drv.cur.isSome = true := by
        intro q k hq
        unfold Pg.query
        have h1 := stmt_cur q.drv hq
        rcases hsm : q.drv.stmt with ⟨ok2, d2⟩
        rw [hsm] at h1
        cases ok2 with
        | false => simpa using h1.1
        | true =>
          simp only [Bool.not_true, Bool.false_eq_true, if_false]
          cases d2.view k with
          | none => simpa using h1.1
          | some v =>
            have hn := next_cur d2 h1.1
            rcases hnx : d2.next with ⟨okn, dn⟩
            rw [hnx] at hn
            cases okn with
            | false => simpa using hn.1
            | true =>
              simp only [Bool.not_true, Bool.false_eq_true, if_false]
              have h2 := scan_cur dn hn.1
              rcases hsc : dn.scan with ⟨ok3, d3⟩
              rw [hsc] at h2
              cases ok3 <;> simpa using h2.1
      have hvd : ∀ (q : Pg), q.drv.cur.isSome = true →
          (match q.query dk with
            | (none, q) => (PgRes.err "query", q.abort)
            | (some none, q) => (PgRes.err "notfound", q.abort)
            | (some (some v), q) =>
              match q.stopSingle with
              | (.ok, q) => (PgRes.val v, q)
              | (r, q) => (r, q)).1 ≠ .panic s := by
        intro q hqc
        have h1 := hq q dk hqc
        rcases hqq : q.query dk with ⟨r, q1⟩
        rw [hqq] at h1
        match r with
        | none => simp
        | some none => simp
        | some (some v) =>
          simp only []
          have := stopSingle_no_panic q1 h1 s
          rcases hss : q1.stopSingle with ⟨r2, q2⟩
          rw [hss] at this
          cases r2 <;> simp_all
      cases tr with
      | none => exact hvd p1 hcur
      | some t =>
        simp only []
        have h1 := hq p1 t hcur
        rcases hqq : p1.query t with ⟨r, q1⟩
        rw [hqq] at h1
        match r with
        | none => simp
        | some none => exact hvd q1 h1
        | some (some v) =>
          simp only []
          have := stopSingle_no_panic q1 h1 s
          rcases hss : q1.stopSingle with ⟨r2, q2⟩
          rw [hss] at this
          cases r2 <;> simp_all
  | start =>
    simp only [Pg.step, Pg.startMulti]
    split
    · simp
    · rcases p.start with ⟨ok, p1⟩
      cases ok <;> simp
  | stop => exact stop_no_panic p s
  | abort => simp [Pg.step]
  | close =>
    simp only [Pg.step, Pg.close]
    have := stop_no_panic p s
    simp only [Pg.step] at this
    rcases hst : p.stop with ⟨r, q⟩
    rw [hst] at this
    cases r with
    | ok => simp
    | val v => simp
    | panic x => simp at this ⊢; exact this
    | err k =>
      split <;> simp

/-! ### single-operation mode -/

/-- the complete behaviour of a single-operation `Put` from an idle wrapper, by which primitive
call (begin, statement, commit) fails -/
theorem put_single (p : Pg) (k v : Bytes) (hm : p.multi = false) (hc : p.drv.cur = none) :
    ((p.put k v).1 = .ok ↔ (p.drv.calls ∉ p.drv.faults ∧ p.drv.calls + 1 ∉ p.drv.faults ∧
      p.drv.calls + 2 ∉ p.drv.faults)) ∧
    (p.put k v).2.drv.cur = none ∧ (p.put k v).2.multi = false ∧
    ((p.put k v).1 = .ok → (p.put k v).2.drv.committed = AList.set k v p.drv.committed) ∧
    ((p.put k v).1 ≠ .ok → (p.put k v).2.drv.committed = p.drv.committed) ∧
    (p.put k v).2.drv.faults = p.drv.faults ∧
    (p.put k v).2.drv.calls ≤ p.drv.calls + 3 ∧ p.drv.calls < (p.put k v).2.drv.calls := by
  unfold Pg.put Pg.start Drv.begin Drv.prim
  simp only [hc, Option.isSome_none, Bool.false_eq_true, if_false]
  by_cases h0 : p.drv.calls ∈ p.drv.faults
  · simp [h0, hc, hm]
  · unfold Drv.stmt Drv.prim
    by_cases h1 : p.drv.calls + 1 ∈ p.drv.faults
    · simp [h0, h1, hm, Pg.abort, Drv.rollback, Drv.prim]; omega
    · unfold Pg.stopSingle Drv.commit Drv.prim
      by_cases h2 : p.drv.calls + 2 ∈ p.drv.faults
      · simp [h0, h1, h2, hm]; omega
      · simp [h0, h1, h2, hm, AList.set]; omega

/-- **In single-operation mode nothing is left open** and the mode does not change (Put) -/
theorem put_leaves_no_tx (p : Pg) (k v : Bytes) (hm : p.multi = false) (hc : p.drv.cur = none) :
    (p.put k v).2.drv.cur = none ∧ (p.put k v).2.multi = false :=
  ⟨(put_single p k v hm hc).2.1, (put_single p k v hm hc).2.2.1⟩

/-- **An acknowledged write is committed**: when `Put` returns no error the value is in the
committed table; when it returns an error the committed table is untouched. -/
theorem put_ack_committed (p : Pg) (k v : Bytes) (hm : p.multi = false) (hc : p.drv.cur = none)
    (hok : (p.put k v).1 = .ok) : AList.lookup k (p.put k v).2.drv.committed = some v := by
  rw [(put_single p k v hm hc).2.2.2.1 hok]
  exact AList.lookup_set_self k v _

theorem put_error_changes_nothing (p : Pg) (k v : Bytes) (hm : p.multi = false) (hc : p.drv.cur = none)
    (herr : (p.put k v).1 ≠ .ok) : (p.put k v).2.drv.committed = p.drv.committed :=
  (put_single p k v hm hc).2.2.2.2.1 herr

/-- **A failing primitive call makes `Put` report an error** (equivalently: success means none of
the calls it made was in the fault set) -/
theorem put_fault_reports_error (p : Pg) (k v : Bytes) (hm : p.multi = false) (hc : p.drv.cur = none)
    (i : Nat) (hi : i ∈ p.drv.faults) (h1 : p.drv.calls ≤ i) (h2 : i < (p.put k v).2.drv.calls) :
    (p.put k v).1 ≠ .ok := by
  intro hok
  obtain ⟨hiff, _, _, _, _, _, hle, _⟩ := put_single p k v hm hc
  obtain ⟨a, b, c⟩ := hiff.mp hok
  have : i = p.drv.calls ∨ i = p.drv.calls + 1 ∨ i = p.drv.calls + 2 := by omega
  rcases this with e | e | e <;> subst e <;> simp_all

/-- **No wedge**: once the faults are used up (every fault index lies below the call counter) a
`Put` from an idle wrapper succeeds — whatever failed before. -/
theorem put_succeeds_without_faults (p : Pg) (k v : Bytes) (hm : p.multi = false) (hc : p.drv.cur = none)
    (hnf : ∀ i ∈ p.drv.faults, i < p.drv.calls) : (p.put k v).1 = .ok := by
  apply (put_single p k v hm hc).1.mpr
  have h : ∀ j, p.drv.calls ≤ j → j ∉ p.drv.faults := by
    intro j hj hm
    have := hnf j hm
    omega
  exact ⟨h _ (by omega), h _ (by omega), h _ (by omega)⟩

/-- `Abort`, `Stop` and `Close` from an idle single-mode wrapper leave it idle -/
theorem others_leave_no_tx (p : Pg) (hm : p.multi = false) (hc : p.drv.cur = none) :
    (p.abort).drv.cur = none ∧ (p.abort).multi = false ∧
    (p.stop).2 = p ∧ (p.close).2 = p := by
  refine ⟨(rollback_cur p.drv).1, hm, ?_, ?_⟩
  · unfold Pg.stop; simp [hm]
  · unfold Pg.close Pg.stop; simp [hm]

/-! ### explicit multi-operation transactions -/

def NoFaults (d : Drv) : Prop := ∀ i ∈ d.faults, i < d.calls

def setAll (ws : List (Bytes × Bytes)) (c : Store) : Store := ws.foldl (fun c kv => AList.set kv.1 kv.2 c) c

theorem lookup_setAll (ws : List (Bytes × Bytes)) (c : Store) (k : Bytes) :
    AList.lookup k (setAll ws c) = (AList.lookup k (setAll ws [])).orElse (fun _ => AList.lookup k c) := by
  induction ws generalizing c with
  | nil => simp [setAll, AList.lookup]
  | cons w rest ih =>
    have e1 : setAll (w :: rest) c = setAll rest (AList.set w.1 w.2 c) := rfl
    have e2 : setAll (w :: rest) [] = setAll rest (AList.set w.1 w.2 []) := rfl
    rw [e1, e2, ih (AList.set w.1 w.2 c), ih (AList.set w.1 w.2 [])]
    cases hr : AList.lookup k (setAll rest []) with
    | some v => simp
    | none =>
      simp only [Option.orElse_none]
      by_cases hk : k = w.1
      · subst hk; simp [AList.lookup_set_self]
      · rw [AList.lookup_set_other _ _ _ _ hk, AList.lookup_set_other _ _ _ _ hk]
        simp [AList.lookup]

theorem keys_set_nodup (k v : Bytes) (m : Store) (h : (AList.keys m).Nodup) :
    (AList.keys (AList.set k v m)).Nodup := by
  cases hl : AList.lookup k m with
  | some x => rw [AList.keys_set_of_mem k v m (by simp [hl])]; exact h
  | none =>
    rw [AList.keys_set_of_not_mem k v m hl]
    have hk := (AList.lookup_none_iff_not_mem k m).mp hl
    apply List.nodup_append.mpr
    exact ⟨h, by simp, fun a ha b hb => by simp at hb; subst hb; exact fun e => hk (e ▸ ha)⟩

theorem keys_setAll_nodup (ws : List (Bytes × Bytes)) (m : Store) (h : (AList.keys m).Nodup) :
    (AList.keys (setAll ws m)).Nodup := by
  induction ws generalizing m with
  | nil => exact h
  | cons w rest ih => exact ih _ (keys_set_nodup w.1 w.2 m h)

theorem lookup_setAll_self (m : Store) (k : Bytes) (h : (AList.keys m).Nodup) :
    AList.lookup k (setAll m []) = AList.lookup k m := by
  induction m with
  | nil => rfl
  | cons x rest ih =>
    have hn : x.1 ∉ AList.keys rest ∧ (AList.keys rest).Nodup := by
      simpa [AList.keys] using h
    have e : setAll (x :: rest) [] = setAll rest (AList.set x.1 x.2 []) := rfl
    rw [e, lookup_setAll rest _ k, ih hn.2]
    by_cases hk : x.1 = k
    · subst hk
      have : AList.lookup x.1 rest = none := (AList.lookup_none_iff_not_mem _ _).mpr hn.1
      simp [this, AList.lookup, AList.set]
    · cases hr : AList.lookup k rest <;> simp [AList.lookup, AList.set, hk, hr]

/-- writes inside an open, healthy explicit transaction with no fault pending: each `Put`
succeeds, stays in the transaction and only extends its pending table -/
theorem puts_in_multi (q : Pg) (id : Nat) (pend : Store) (hm : q.multi = true)
    (hcur : q.drv.cur = some { id := id, pending := pend, poisoned := false }) (hnf : NoFaults q.drv)
    (ws : List (Bytes × Bytes)) :
    let q2 := ws.foldl (fun q kv => (q.put kv.1 kv.2).2) q
    q2.multi = true ∧ q2.drv.committed = q.drv.committed ∧ NoFaults q2.drv ∧
    q2.drv.cur = some { id := id, pending := setAll ws pend, poisoned := false } := by
  induction ws generalizing q pend with
  | nil => exact ⟨hm, rfl, hnf, hcur⟩
  | cons w rest ih =>
    simp only [List.foldl_cons]
    have hq : q.drv.calls ∉ q.drv.faults := fun h => by have := hnf _ h; omega
    let q1 : Pg := { q with drv := { q.drv with calls := q.drv.calls + 1, cur := some { id := id, pending := AList.set w.1 w.2 pend, poisoned := false } } }
    have hput : (q.put w.1 w.2).2 = q1 := by
      unfold Pg.put Pg.start Drv.stmt Drv.prim Pg.stopSingle
      simp [hcur, hq, hm, q1]
    rw [hput]
    have := ih q1 (AList.set w.1 w.2 pend) hm rfl (by intro i hi; have := hnf i hi; simp [q1] at hi ⊢; omega)
    simpa [setAll, q1] using this

theorem startMulti_idle (p : Pg) (hc : p.drv.cur = none) (hnf : NoFaults p.drv) :
    (p.startMulti).1 = .ok ∧ (p.startMulti).2.multi = true ∧
    (p.startMulti).2.drv.committed = p.drv.committed ∧ NoFaults (p.startMulti).2.drv ∧
    (p.startMulti).2.drv.cur = some { id := p.drv.nextTx, pending := [], poisoned := false } := by
  have hnc : p.drv.calls ∉ p.drv.faults := fun h => by have := hnf _ h; omega
  unfold Pg.startMulti Pg.start Drv.begin Drv.prim
  simp [hc, hnc]
  intro i hi; have := hnf i hi; simp at hi ⊢; omega

/-- **All of its writes become visible at Stop**: with every operation succeeding, after `Stop`
each key reads as the last value written to it in the transaction, every other key as before. -/
theorem multi_stop_commits_all (p : Pg) (hc : p.drv.cur = none) (hnf : NoFaults p.drv)
    (ws : List (Bytes × Bytes)) (k : Bytes) :
    let p2 := ws.foldl (fun q kv => (q.put kv.1 kv.2).2) (p.startMulti).2
    (p2.stop).1 = .ok ∧
    AList.lookup k (p2.stop).2.drv.committed = AList.lookup k (setAll ws p.drv.committed) ∧
    (p2.stop).2.drv.cur = none := by
  simp only []
  obtain ⟨_, s1, s2, s3, s4⟩ := startMulti_idle p hc hnf
  obtain ⟨h1, h2, h3, h4⟩ := puts_in_multi (p.startMulti).2 _ [] s1 s4 s3 ws
  generalize List.foldl (fun (q : Pg) (kv : Bytes × Bytes) => (q.put kv.1 kv.2).2) (p.startMulti).2 ws = q at *
  have hq : q.drv.calls ∉ q.drv.faults := fun h => by have := h3 _ h; omega
  unfold Pg.stop Drv.commit Drv.prim
  have hq' : q.drv.faults.contains q.drv.calls = false := by simpa using hq
  simp only [h1, Bool.not_true, Bool.false_eq_true, if_false, h4, hq']
  refine ⟨by trivial, ?_, by trivial⟩
  show AList.lookup k (setAll (setAll ws []) q.drv.committed) = _
  rw [lookup_setAll (setAll ws []) q.drv.committed k,
    lookup_setAll_self (setAll ws []) k (keys_setAll_nodup ws [] (by simp [AList.keys])), h2, s2]
  exact (lookup_setAll ws p.drv.committed k).symm

/-- **... and none after Abort**: the committed table is exactly what it was before `Start`. -/
theorem multi_abort_commits_none (p : Pg) (hc : p.drv.cur = none) (hnf : NoFaults p.drv)
    (ws : List (Bytes × Bytes)) :
    let p2 := ws.foldl (fun q kv => (q.put kv.1 kv.2).2) (p.startMulti).2
    (p2.abort).drv.committed = p.drv.committed ∧ (p2.abort).drv.cur = none := by
  simp only []
  obtain ⟨_, s1, s2, s3, s4⟩ := startMulti_idle p hc hnf
  obtain ⟨_, h2, _, _⟩ := puts_in_multi (p.startMulti).2 _ [] s1 s4 s3 ws
  refine ⟨?_, (rollback_cur _).1⟩
  unfold Pg.abort
  rw [(rollback_cur _).2, h2, s2]

/-! ### reads inside an explicit transaction -/

theorem query_in_multi (q : Pg) (id : Nat) (pend : Store)
    (hcur : q.drv.cur = some { id := id, pending := pend, poisoned := false }) (hnf : NoFaults q.drv) (k : Bytes) :
    (q.query k).1 = some (q.drv.view k) ∧ (q.query k).2.multi = q.multi ∧
    (q.query k).2.drv.committed = q.drv.committed ∧ NoFaults (q.query k).2.drv ∧
    (q.query k).2.drv.cur = some { id := id, pending := pend, poisoned := false } := by
  have hqm : q.drv.calls ∉ q.drv.faults := fun h => by have := hnf _ h; omega
  have hqm1 : q.drv.calls + 1 ∉ q.drv.faults := fun h => by have := hnf _ h; omega
  have nf1 : ∀ i ∈ q.drv.faults, i < q.drv.calls + 1 := fun i hi => by have := hnf i hi; omega
  have hqm2 : q.drv.calls + 1 + 1 ∉ q.drv.faults := fun h => by have := hnf _ h; omega
  have nf2 : ∀ i ∈ q.drv.faults, i < q.drv.calls + 1 + 1 + 1 := fun i hi => by have := hnf i hi; omega
  cases hv : q.drv.view k with
  | none =>
    have hv' := hv
    simp only [Drv.view, hcur] at hv'
    simp [Pg.query, Drv.stmt, Drv.prim, Drv.view, hcur, hqm, hv', NoFaults]
    exact nf1
  | some v =>
    have hv' := hv
    simp only [Drv.view, hcur] at hv'
    simp [Pg.query, Drv.stmt, Drv.prim, Drv.next, Drv.scan, Drv.view, hcur, hqm, hqm1, hqm2, hv', NoFaults]
    exact nf2

/-- **A read inside an explicit transaction does not end it** (the clause a second-wave seeded change broke: a translated
read committed the enclosing transaction): in an open, healthy explicit transaction with no fault pending, a `Get` that
finds its value - through the translation key or the default key - returns what the transaction sees, leaves the
transaction open with the same pending writes, and the committed table untouched. -/
theorem get_found_in_multi (q : Pg) (id : Nat) (pend : Store) (hm : q.multi = true)
    (hcur : q.drv.cur = some { id := id, pending := pend, poisoned := false }) (hnf : NoFaults q.drv)
    (tr : Option Bytes) (dk v : Bytes) (hres : (q.get tr dk).1 = .val v) :
    (q.get tr dk).2.multi = true ∧ (q.get tr dk).2.drv.committed = q.drv.committed ∧ NoFaults (q.get tr dk).2.drv ∧
    (q.get tr dk).2.drv.cur = some { id := id, pending := pend, poisoned := false } := by
  have hstart : q.start = (true, q) := by simp [Pg.start, hcur]
  -- the default-key part, from any state with the same shape
  have viaDefault : ∀ (p : Pg), p.multi = true → p.drv.cur = some { id := id, pending := pend, poisoned := false } →
      NoFaults p.drv → p.drv.committed = q.drv.committed →
      ∀ r p', (match p.query dk with
        | (none, p) => (PgRes.err "query", p.abort)
        | (some none, p) => (.err "notfound", p.abort)
        | (some (some v), p) =>
          match p.stopSingle with
          | (.ok, p) => (.val v, p)
          | (r, p) => (r, p)) = (r, p') → r = .val v →
      p'.multi = true ∧ p'.drv.committed = q.drv.committed ∧ NoFaults p'.drv ∧
      p'.drv.cur = some { id := id, pending := pend, poisoned := false } := by
    intro p pm pc pn pcm r p' h hr
    obtain ⟨q1, q2, q3, q4, q5⟩ := query_in_multi p id pend pc pn dk
    rcases hq : p.query dk with ⟨res, p1⟩
    rw [hq] at h q1 q2 q3 q4 q5
    simp only at q1 q2 q3 q4 q5
    subst q1
    cases hv : p.drv.view dk with
    | none => simp [hv] at h; obtain ⟨h1, _⟩ := h; rw [← h1] at hr; cases hr
    | some w =>
      have hss : p1.stopSingle = (.ok, p1) := by simp [Pg.stopSingle, q2, pm]
      simp [hv, hss] at h
      obtain ⟨_, h2⟩ := h
      subst h2
      exact ⟨by rw [q2, pm], by rw [q3, pcm], q4, q5⟩
  unfold Pg.get at hres ⊢
  simp only [hstart, Bool.not_true, Bool.false_eq_true, if_false] at hres ⊢
  cases tr with
  | none =>
    simp only at hres ⊢
    exact viaDefault q hm hcur hnf rfl _ _ rfl hres
  | some t =>
    simp only at hres ⊢
    obtain ⟨q1, q2, q3, q4, q5⟩ := query_in_multi q id pend hcur hnf t
    rcases hq : q.query t with ⟨res, p1⟩
    rw [hq] at hres q1 q2 q3 q4 q5
    simp only at q1 q2 q3 q4 q5
    subst q1
    cases hv : q.drv.view t with
    | none =>
      simp only [hv] at hres ⊢
      exact viaDefault p1 (by rw [q2, hm]) q5 q4 q3 _ _ rfl hres
    | some w =>
      have hss : p1.stopSingle = (.ok, p1) := by simp [Pg.stopSingle, q2, hm]
      simp only [hv, hss] at hres ⊢
      exact ⟨by rw [q2, hm], q3, q4, q5⟩

end Vise.C13
