/-
  C13 (transaction hygiene) — every transaction the wrapper begins is ended exactly once, and never two
  are open: for EVERY operation sequence, fault set and driver state reachable from a fresh handle, the
  driver's begin/commit/rollback log is a sequence of `begin i, end i` pairs with ids 0, 1, 2, ... in order,
  followed by one unmatched `begin` exactly when a transaction is open.
-/
import Vise.PgTx

namespace Vise.C13
open Vise

/-- scan a log: `n` is the id the next begin must carry, `o` the transaction currently open -/
def scanLog : List (String × Nat) → Nat → Option Nat → Option (Nat × Option Nat)
  | [], n, o => some (n, o)
  | (k, i) :: rest, n, o =>
    if k = "begin" then (if o = none ∧ i = n then scanLog rest (n + 1) (some i) else none)
    else (if o = some i then scanLog rest n none else none)

/-- the log is well bracketed and agrees with the driver's bookkeeping -/
def LogInv (d : Drv) : Prop := scanLog d.log 0 none = some (d.nextTx, d.cur.map (·.id))

def scan1 (e : String × Nat) (r : Nat × Option Nat) : Option (Nat × Option Nat) := scanLog [e] r.1 r.2

theorem scanLog_append_aux (l : List (String × Nat)) (e : String × Nat) (n : Nat) (o : Option Nat) :
    scanLog (l ++ [e]) n o = (scanLog l n o).bind (scan1 e) := by
  induction l generalizing n o with
  | nil => simp [scanLog, scan1]
  | cons x xs ih =>
    obtain ⟨k, i⟩ := x
    simp only [List.cons_append, scanLog]
    by_cases hk : k = "begin"
    · by_cases hc : o = none ∧ i = n
      · simp only [hk, hc, and_self, if_true, ih]
      · simp [hk, hc]
    · by_cases hc : o = some i
      · simp only [hk, hc, if_true, if_false, ih]
      · simp [hk, hc]

theorem scanLog_append (l : List (String × Nat)) (e : String × Nat) (n : Nat) (o : Option Nat) :
    scanLog (l ++ [e]) n o = (scanLog l n o).bind fun r => scanLog [e] r.1 r.2 :=
  scanLog_append_aux l e n o

theorem logInv_init : LogInv {} := by simp [LogInv, scanLog]

/-! ### primitives -/

theorem begin_inv (d : Drv) (h : LogInv d) (hc : d.cur = none) : LogInv d.begin.2 := by
  unfold Drv.begin Drv.prim
  simp only []
  split
  · simpa [LogInv] using h
  · unfold LogInv at *
    simp only [scanLog_append, h, hc, Option.map_none, Option.bind_some, scanLog, and_self, if_true, Option.map_some]

theorem stmt_inv (d : Drv) (h : LogInv d) : LogInv d.stmt.2 := by
  unfold Drv.stmt Drv.prim
  cases hc : d.cur with
  | none => simpa [hc] using h
  | some t =>
    simp only []
    split
    · simpa using h
    · split
      · unfold LogInv at *; simpa [hc] using h
      · unfold LogInv at *; simpa [hc] using h

theorem next_inv (d : Drv) (h : LogInv d) : LogInv d.next.2 := by
  unfold Drv.next Drv.prim
  simp only []
  split
  · cases hc : d.cur <;> simp_all [LogInv]
  · exact h

theorem scan_inv (d : Drv) (h : LogInv d) : LogInv d.scan.2 := by
  unfold Drv.scan Drv.prim
  simp only []
  split
  · unfold LogInv at *
    cases hc : d.cur <;> simpa [hc] using h
  · unfold LogInv at *; simpa using h

theorem commit_inv (d : Drv) (h : LogInv d) : LogInv d.commit.2 := by
  unfold Drv.commit Drv.prim
  cases hc : d.cur with
  | none => simpa [hc] using h
  | some t =>
    unfold LogInv at *
    simp only []
    split
    · simp [scanLog_append, h, hc, scanLog]
    · split
      · simp [scanLog_append, h, hc, scanLog]
      · simp [scanLog_append, h, hc, scanLog]

theorem rollback_inv (d : Drv) (h : LogInv d) : LogInv d.rollback := by
  unfold Drv.rollback
  cases hc : d.cur with
  | none => simpa [hc] using h
  | some t =>
    unfold LogInv at *
    simp [scanLog_append, h, hc, scanLog, Drv.prim]

theorem pending_inv (d : Drv) (f : PgTxn → PgTxn) (hf : ∀ t, (f t).id = t.id) (h : LogInv d) :
    LogInv { d with cur := d.cur.map f } := by
  unfold LogInv at *
  cases hc : d.cur with
  | none => simpa [hc] using h
  | some t => simpa [hc, hf t] using h

/-! ### the wrapper's operations -/

theorem start_inv (p : Pg) (h : LogInv p.drv) : LogInv p.start.2.drv := by
  unfold Pg.start
  by_cases hc : p.drv.cur.isSome = true
  · simpa [hc] using h
  · simp only [hc, Bool.false_eq_true, if_false]
    exact begin_inv p.drv h (by cases hcur : p.drv.cur <;> simp_all)

theorem stopSingle_inv (p : Pg) (h : LogInv p.drv) : LogInv p.stopSingle.2.drv := by
  unfold Pg.stopSingle
  split
  · exact h
  · split
    · exact h
    · exact commit_inv p.drv h

theorem abort_inv (p : Pg) (h : LogInv p.drv) : LogInv p.abort.drv := rollback_inv p.drv h

theorem startMulti_inv (p : Pg) (h : LogInv p.drv) : LogInv p.startMulti.2.drv := by
  unfold Pg.startMulti
  split
  · exact h
  · have := start_inv p h
    rcases hs : p.start with ⟨ok, p'⟩
    rw [hs] at this
    simp only []
    split <;> exact this

theorem stop_inv (p : Pg) (h : LogInv p.drv) : LogInv p.stop.2.drv := by
  unfold Pg.stop
  split
  · exact h
  · split
    · exact h
    · exact commit_inv p.drv h

theorem close_inv (p : Pg) (h : LogInv p.drv) : LogInv p.close.2.drv := by
  unfold Pg.close
  have := stop_inv p h
  rcases hs : p.stop with ⟨r, p'⟩
  rw [hs] at this
  split
  · next heq => simp at heq; obtain ⟨_, rfl⟩ := heq; exact this
  · exact this

theorem query_inv (p : Pg) (k : Bytes) (h : LogInv p.drv) : LogInv (p.query k).2.drv := by
  unfold Pg.query
  have h1 := stmt_inv p.drv h
  simp only []
  split
  · exact h1
  · split
    · exact h1
    · have hn := next_inv _ h1
      split
      · exact hn
      · have h2 := scan_inv _ hn
        split <;> exact h2

theorem put_inv (p : Pg) (k v : Bytes) (h : LogInv p.drv) : LogInv (p.put k v).2.drv := by
  unfold Pg.put
  have h1 := start_inv p h
  simp only []
  split
  · exact h1
  · have h2 := stmt_inv _ h1
    split
    · exact rollback_inv _ h2
    · exact stopSingle_inv _ (pending_inv _ _ (fun t => rfl) h2)

theorem viaDefault_inv (p : Pg) (dk : Bytes) (h : LogInv p.drv) :
    LogInv (match p.query dk with
      | (none, p) => (PgRes.err "query", p.abort)
      | (some none, p) => (PgRes.err "notfound", p.abort)
      | (some (some v), p) =>
        match p.stopSingle with
        | (.ok, p) => (PgRes.val v, p)
        | (r, p) => (r, p)).2.drv := by
  have hq := query_inv p dk h
  rcases hqq : p.query dk with ⟨r, p'⟩
  rw [hqq] at hq
  rcases r with _ | _ | v
  · exact abort_inv p' hq
  · exact abort_inv p' hq
  · have hs := stopSingle_inv p' hq
    simp only []
    rcases hss : p'.stopSingle with ⟨r2, p2⟩
    rw [hss] at hs
    cases r2 <;> exact hs

theorem get_inv (p : Pg) (tr : Option Bytes) (dk : Bytes) (h : LogInv p.drv) : LogInv (p.get tr dk).2.drv := by
  unfold Pg.get
  have h1 := start_inv p h
  simp only []
  split
  · exact h1
  · cases tr with
    | none => exact viaDefault_inv _ dk h1
    | some t =>
      simp only []
      have hq := query_inv p.start.2 t h1
      rcases hqq : p.start.2.query t with ⟨r, p'⟩
      rw [hqq] at hq
      rcases r with _ | _ | v
      · exact abort_inv p' hq
      · exact viaDefault_inv p' dk hq
      · have hs := stopSingle_inv p' hq
        simp only []
        rcases hss : p'.stopSingle with ⟨r2, p2⟩
        rw [hss] at hs
        cases r2 <;> exact hs

theorem step_inv (p : Pg) (op : PgOp) (h : LogInv p.drv) : LogInv (p.step op).2.drv := by
  cases op with
  | put k v => exact put_inv p k v h
  | get tr dk => exact get_inv p tr dk h
  | start => exact startMulti_inv p h
  | stop => exact stop_inv p h
  | abort => exact abort_inv p h
  | close => exact close_inv p h

/-- **Every transaction begun is ended exactly once, never two open** — for every operation sequence and
every fault set, from a fresh handle. -/
theorem log_well_bracketed (faults : List Nat) (ops : List PgOp) :
    LogInv (ops.foldl (fun p op => (p.step op).2) ({ drv := { faults := faults } } : Pg)).drv := by
  have : ∀ (p : Pg), LogInv p.drv → LogInv (ops.foldl (fun p op => (p.step op).2) p).drv := by
    induction ops with
    | nil => intro p h; exact h
    | cons op rest ih => intro p h; exact ih _ (step_inv p op h)
  exact this _ (by simp [LogInv, scanLog])

/-- how often transaction `i` is begun / ended in a log -/
def cntBegin (i : Nat) : List (String × Nat) → Nat
  | [] => 0
  | (k, j) :: r => (if k = "begin" ∧ j = i then 1 else 0) + cntBegin i r

def cntEnd (i : Nat) : List (String × Nat) → Nat
  | [] => 0
  | (k, j) :: r => (if k ≠ "begin" ∧ j = i then 1 else 0) + cntEnd i r

def isOpen (o : Option Nat) (i : Nat) : Nat := if o = some i then 1 else 0

/-- what the invariant says in the property's words: for every transaction id, (times ended) + (1 if it is the
one still open) = (times begun) + (1 if it was open at the start); so an id is ended at most once, only after
its begin, and every begun transaction other than the open one is ended exactly once -/
theorem scanLog_counts : ∀ (l : List (String × Nat)) (n : Nat) (o : Option Nat) (n' : Nat) (o' : Option Nat),
    scanLog l n o = some (n', o') → ∀ i, cntEnd i l + isOpen o' i = cntBegin i l + isOpen o i := by
  intro l
  induction l with
  | nil => intro n o n' o' h i; simp [scanLog] at h; obtain ⟨_, rfl⟩ := h; simp [cntEnd, cntBegin]
  | cons x xs ih =>
    intro n o n' o' h i
    obtain ⟨k, j⟩ := x
    simp only [scanLog] at h
    by_cases hk : k = "begin"
    · simp only [hk, if_true] at h
      by_cases hc : o = none ∧ j = n
      · obtain ⟨ho, hj⟩ := hc
        subst ho
        subst hj
        simp only [and_self, if_true] at h
        have ih' := ih _ _ _ _ h i
        by_cases hij : j = i
        · subst hij
          have e1 : isOpen (some j) j = 1 := by simp [isOpen]
          have e2 : isOpen none j = 0 := by simp [isOpen]
          simp only [cntEnd, cntBegin, hk, ne_eq, not_true_eq_false, false_and, if_false, true_and, if_true] at *
          omega
        · have e1 : isOpen (some j) i = 0 := by simp [isOpen, hij]
          have e2 : isOpen none i = 0 := by simp [isOpen]
          simp only [cntEnd, cntBegin, hk, hij, ne_eq, not_true_eq_false, false_and, and_false, if_false] at *
          omega
      · simp [hc] at h
    · simp only [hk, if_false] at h
      by_cases hc : o = some j
      · simp only [hc, if_true] at h
        have ih' := ih _ _ _ _ h i
        subst hc
        by_cases hij : j = i
        · subst hij
          have e1 : isOpen (some j) j = 1 := by simp [isOpen]
          have e2 : isOpen none j = 0 := by simp [isOpen]
          simp only [cntEnd, cntBegin, hk, ne_eq, not_false_eq_true, true_and, if_true, false_and, if_false] at *
          omega
        · have e1 : isOpen (some j) i = 0 := by simp [isOpen, hij]
          have e2 : isOpen none i = 0 := by simp [isOpen]
          simp only [cntEnd, cntBegin, hk, hij, ne_eq, and_false, if_false] at *
          omega
      · simp [hc] at h

/-- on every reachable handle: each transaction is ended as often as it was begun, minus the open one -/
theorem ended_exactly_once (faults : List Nat) (ops : List PgOp) (i : Nat) :
    let d := (ops.foldl (fun p op => (p.step op).2) ({ drv := { faults := faults } } : Pg)).drv
    cntEnd i d.log + isOpen (d.cur.map (·.id)) i = cntBegin i d.log := by
  have h := log_well_bracketed faults ops
  have := scanLog_counts _ _ _ _ _ h i
  simpa [isOpen] using this

/-- non-vacuity: a Put whose statement fails, then a successful Put -/
example :
    (([PgOp.put [1] [2], PgOp.put [1] [3]].foldl (fun p op => (p.step op).2)
      ({ drv := { faults := [1] } } : Pg)).drv.log)
      = [("begin", 0), ("rollback", 0), ("begin", 1), ("commit", 1)] := by decide

end Vise.C13
