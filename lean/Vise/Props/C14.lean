/-
  C14 — Bytecode encoding and decoding are exact inverses.

  Property theorems only; helper lemmas are in Vise/Lemmas/Codec.lean.
  Model: Vise/Codec.lean (vm/vm.go decoders, vm/debug.go ParseAll/ToString, vm.NewLine,
  asm writeSym/writeSize with numSize specified as `byteWidth`).
-/
import Vise.Lemmas.CodecSpec

namespace Vise.C14
open Vise Res

/-- Integers: every value of the 32-bit range written by the assembler decodes to itself and
consumes exactly its own bytes. -/
theorem intSplit_writeSize (n : Nat) (t : Bytes) (h : n < 4294967296) :
    intSplit (writeSize n ++ t) = .ok (n, t) := Vise.intSplit_writeSize n t h

/-- Integers written by `vm.NewLine` in any width `w ≤ 4` that holds the value (leading zero
bytes allowed) decode to the same value. -/
theorem intSplit_newLine_width (w n : Nat) (t : Bytes) (hw : w ≤ 4) (h : n < 256 ^ w) :
    intSplit (lenByte (toBE w n) :: toBE w n ++ t) = .ok (n, t) := Vise.intSplit_toBE w n t hw h

/-- Symbols and selectors of 1..255 bytes decode to themselves. -/
theorem instructionSplit_writeSym (s t : Bytes) (h : symOk s) :
    instructionSplit (writeSym s ++ t) = .ok (s, t) := Vise.instructionSplit_writeSym s t h

/-- Every encodable instruction decodes to the same opcode and arguments and consumes exactly
its own bytes (`t` is whatever follows). All twelve instructions plus NOOP, both match modes. -/
theorem decodeOne_encode (i : Instr) (t : Bytes) (h : i.WF) :
    decodeOne (encode i ++ t) = .ok (i, t) := by
  cases i with
  | «catch» s f m =>
    obtain ⟨hs, hf⟩ := h
    simp only [encode, List.append_assoc, decodeOne]
    rw [opSplit_u16be _ _ (by decide)]
    simp [Facts.opCATCH, parseSymSig, parseSig, Vise.instructionSplit_writeSym _ _ hs,
      Vise.intSplit_writeSize _ _ hf, goFrom]
    cases m <;> simp [modeByte, goIdx]
  | croak f m =>
    simp only [encode, List.append_assoc, decodeOne]
    rw [opSplit_u16be _ _ (by decide)]
    simp [Facts.opCATCH, Facts.opCROAK, parseSig, Vise.intSplit_writeSize _ _ h, goFrom]
    cases m <;> simp [modeByte, goIdx]
  | load s n =>
    obtain ⟨hs, hn⟩ := h
    simp only [encode, List.append_assoc, decodeOne]
    rw [opSplit_u16be _ _ (by decide)]
    simp [Facts.opCATCH, Facts.opCROAK, Facts.opLOAD, parseSymLen,
      Vise.instructionSplit_writeSym _ _ hs, Vise.intSplit_writeSize _ _ hn]
  | reload s =>
    simp only [encode, List.append_assoc, decodeOne]
    rw [opSplit_u16be _ _ (by decide)]
    simp [Facts.opCATCH, Facts.opCROAK, Facts.opLOAD, Facts.opRELOAD, parseSym,
      Vise.instructionSplit_writeSym _ _ h]
  | map s =>
    simp only [encode, List.append_assoc, decodeOne]
    rw [opSplit_u16be _ _ (by decide)]
    simp [Facts.opCATCH, Facts.opCROAK, Facts.opLOAD, Facts.opRELOAD, Facts.opMAP, parseSym,
      Vise.instructionSplit_writeSym _ _ h]
  | move s =>
    simp only [encode, List.append_assoc, decodeOne]
    rw [opSplit_u16be _ _ (by decide)]
    simp [Facts.opCATCH, Facts.opCROAK, Facts.opLOAD, Facts.opRELOAD, Facts.opMAP, Facts.opMOVE,
      parseSym, Vise.instructionSplit_writeSym _ _ h]
  | halt =>
    simp only [encode, decodeOne]
    rw [opSplit_u16be _ _ (by decide)]
    simp [Facts.opCATCH, Facts.opCROAK, Facts.opLOAD, Facts.opRELOAD, Facts.opMAP, Facts.opMOVE,
      Facts.opINCMP, Facts.opHALT]
  | incmp s v =>
    obtain ⟨hs, hv⟩ := h
    simp only [encode, List.append_assoc, decodeOne]
    rw [opSplit_u16be _ _ (by decide)]
    simp [Facts.opCATCH, Facts.opCROAK, Facts.opLOAD, Facts.opRELOAD, Facts.opMAP, Facts.opMOVE,
      Facts.opINCMP, parseTwoSym, Vise.instructionSplit_writeSym _ _ hs,
      Vise.instructionSplit_writeSym _ _ hv]
  | msink =>
    simp only [encode, decodeOne]
    rw [opSplit_u16be _ _ (by decide)]
    simp [Facts.opCATCH, Facts.opCROAK, Facts.opLOAD, Facts.opRELOAD, Facts.opMAP, Facts.opMOVE,
      Facts.opINCMP, Facts.opHALT, Facts.opMSINK]
  | mout s v =>
    obtain ⟨hs, hv⟩ := h
    simp only [encode, List.append_assoc, decodeOne]
    rw [opSplit_u16be _ _ (by decide)]
    simp [Facts.opCATCH, Facts.opCROAK, Facts.opLOAD, Facts.opRELOAD, Facts.opMAP, Facts.opMOVE,
      Facts.opINCMP, Facts.opHALT, Facts.opMSINK, Facts.opMOUT, parseTwoSym,
      Vise.instructionSplit_writeSym _ _ hs, Vise.instructionSplit_writeSym _ _ hv]
  | mnext s v =>
    obtain ⟨hs, hv⟩ := h
    simp only [encode, List.append_assoc, decodeOne]
    rw [opSplit_u16be _ _ (by decide)]
    simp [Facts.opCATCH, Facts.opCROAK, Facts.opLOAD, Facts.opRELOAD, Facts.opMAP, Facts.opMOVE,
      Facts.opINCMP, Facts.opHALT, Facts.opMSINK, Facts.opMOUT, Facts.opMNEXT, parseTwoSym,
      Vise.instructionSplit_writeSym _ _ hs, Vise.instructionSplit_writeSym _ _ hv]
  | mprev s v =>
    obtain ⟨hs, hv⟩ := h
    simp only [encode, List.append_assoc, decodeOne]
    rw [opSplit_u16be _ _ (by decide)]
    simp [Facts.opCATCH, Facts.opCROAK, Facts.opLOAD, Facts.opRELOAD, Facts.opMAP, Facts.opMOVE,
      Facts.opINCMP, Facts.opHALT, Facts.opMSINK, Facts.opMOUT, Facts.opMNEXT, Facts.opMPREV,
      parseTwoSym, Vise.instructionSplit_writeSym _ _ hs, Vise.instructionSplit_writeSym _ _ hv]
  | noop =>
    simp only [encode, decodeOne]
    rw [opSplit_u16be _ _ (by decide)]
    simp [Facts.opCATCH, Facts.opCROAK, Facts.opLOAD, Facts.opRELOAD, Facts.opMAP, Facts.opMOVE,
      Facts.opINCMP, Facts.opHALT, Facts.opMSINK, Facts.opMOUT, Facts.opMNEXT, Facts.opMPREV,
      Facts.opNOOP]


theorem encode_length (i : Instr) : 2 ≤ (encode i).length := by
  cases i <;> simp [encode, u16be] <;> omega

/-- the encoding of a well-formed instruction is a valid instruction in the format spec. -/
theorem encode_valid (i : Instr) (h : i.WF) : ValidInstr (encode i) i := by
  have hint : ∀ n, n < 4294967296 → IntEnc (writeSize n) n := by
    intro n hn
    rw [writeSize_eq]
    split
    · next h0 => subst h0; exact ⟨[0], by simp, by simp [encodeIntW, toBE], by simp [beNat]⟩
    · exact ⟨toBE (byteWidth n) n, by simp [(byteWidth_le n).2], by simp [encodeIntW],
        (beNat_toBE _ _ (lt_pow_byteWidth n hn)).symm⟩
  have hmode : ∀ m, ModeEnc [modeByte m] m := by
    intro m; cases m <;> exact ⟨_, rfl, by simp [modeByte]⟩
  cases i with
  | «catch» s f m =>
    have := ValidInstr.catch (e1 := writeSym s) (e2 := writeSize f) ⟨h.1, rfl⟩ (hint f h.2) (hmode m)
    simpa [encode] using this
  | croak f m =>
    have := ValidInstr.croak (e2 := writeSize f) (hint f h) (hmode m)
    simpa [encode] using this
  | load s n =>
    have := ValidInstr.load (e1 := writeSym s) (e2 := writeSize n) ⟨h.1, rfl⟩ (hint n h.2)
    simpa [encode] using this
  | reload s => exact .reload ⟨h, rfl⟩
  | map s => exact .map ⟨h, rfl⟩
  | move s => exact .move ⟨h, rfl⟩
  | halt => exact .halt
  | incmp s v =>
    have := ValidInstr.incmp (e1 := writeSym s) (e2 := writeSym v) ⟨h.1, rfl⟩ ⟨h.2, rfl⟩
    simpa [encode] using this
  | msink => exact .msink
  | mout s v =>
    have := ValidInstr.mout (e1 := writeSym s) (e2 := writeSym v) ⟨h.1, rfl⟩ ⟨h.2, rfl⟩
    simpa [encode] using this
  | mnext s v =>
    have := ValidInstr.mnext (e1 := writeSym s) (e2 := writeSym v) ⟨h.1, rfl⟩ ⟨h.2, rfl⟩
    simpa [encode] using this
  | mprev s v =>
    have := ValidInstr.mprev (e1 := writeSym s) (e2 := writeSym v) ⟨h.1, rfl⟩ ⟨h.2, rfl⟩
    simpa [encode] using this
  | noop => exact .noop

theorem encodeAll_valid (is : List Instr) (hne : is ≠ []) (h : ∀ i ∈ is, i.WF) :
    ValidSeq (is.flatMap encode) is := by
  induction is with
  | nil => exact absurd rfl hne
  | cons i is ih =>
    by_cases hn : is = []
    · subst hn
      simp
      exact .single (encode_valid i (h i (by simp)))
    · simp only [List.flatMap_cons]
      exact .cons (encode_valid i (h i (by simp))) (ih hn (fun j hj => h j (by simp [hj])))

/-- Whole programs: every non-empty sequence of encodable instructions is decoded by the
disassembler (`ParseAll`) to exactly the same instruction list — nothing lost, nothing added,
all bytes consumed. -/
theorem parseAll_encodeAll (is : List Instr) (hne : is ≠ []) (h : ∀ i ∈ is, i.WF) :
    parseAll (is.flatMap encode) = .ok is := by
  have hv := encodeAll_valid is hne h
  have hl := validSeq_length hv
  exact parseAllF_complete hv _ (by omega)

/-- ... and is listed by the disassembler as the same instructions, line by line. -/
theorem toString_encodeAll (is : List Instr) (hne : is ≠ []) (h : ∀ i ∈ is, i.WF) :
    toStringAll (is.flatMap encode) = .ok (is.flatMap pretty) := by
  simp [toStringAll, parseAll_encodeAll is hne h]

/-- `vm.NewLine` and the assembler's writers agree on the format: with the integer passed to
`NewLine` in the minimal width (one zero byte for 0) both produce the same bytes. -/
theorem asm_vm_encoders_agree (i : Instr) (h : i.WF) :
    encodeNewLine (match i with
      | .catch _ f _ => byteWidth f | .croak f _ => byteWidth f | .load _ n => byteWidth n
      | _ => 0) i = encode i := by
  have hlen : ∀ s, symOk s → lenByte s :: s = writeSym s := fun _ _ => rfl
  have hint : ∀ n, lenByte (toBE (byteWidth n) n) :: toBE (byteWidth n) n = writeSize n := by
    intro n
    unfold writeSize
    split
    · next h0 => subst h0; simp [byteWidth, toBE, lenByte]
    · have := (byteWidth_le n).2
      simp [lenByte]; congr 1; omega
  cases i <;> simp [encodeNewLine, encode, newLine, writeSym, hint]

/-- ... and whatever width (≤ 4, wide enough) `NewLine`'s caller picks, the decoder returns the
same instruction. -/
theorem decodeOne_encodeNewLine (w : Nat) (i : Instr) (t : Bytes) (h : i.WF) (hw : w ≤ 4)
    (hfit : match i with
      | .catch _ f _ => f < 256 ^ w | .croak f _ => f < 256 ^ w | .load _ n => n < 256 ^ w
      | _ => True) :
    decodeOne (encodeNewLine w i ++ t) = .ok (i, t) := by
  have hI : ∀ n, n < 256 ^ w → IntEnc (lenByte (toBE w n) :: toBE w n) n := by
    intro n hn
    refine ⟨toBE w n, by simpa using hw, ?_, (beNat_toBE w n hn).symm⟩
    simp [lenByte]; congr 1; omega
  have hmode : ∀ m, ModeEnc [modeByte m] m := by
    intro m; cases m <;> exact ⟨_, rfl, by simp [modeByte]⟩
  have hS : ∀ s, symOk s → SymEnc (lenByte s :: s) s := fun s hs => ⟨hs, rfl⟩
  cases i with
  | «catch» s f m =>
    have := decodeOne_complete (ValidInstr.catch (hS s h.1) (hI f hfit) (hmode m)) t
    simpa [encodeNewLine, newLine] using this
  | croak f m =>
    have := decodeOne_complete (ValidInstr.croak (hI f hfit) (hmode m)) t
    simpa [encodeNewLine, newLine] using this
  | load s n =>
    have := decodeOne_complete (ValidInstr.load (hS s h.1) (hI n hfit)) t
    simpa [encodeNewLine, newLine] using this
  | reload s =>
    have := decodeOne_complete (ValidInstr.reload (hS s h)) t
    simpa [encodeNewLine, newLine] using this
  | map s =>
    have := decodeOne_complete (ValidInstr.map (hS s h)) t
    simpa [encodeNewLine, newLine] using this
  | move s =>
    have := decodeOne_complete (ValidInstr.move (hS s h)) t
    simpa [encodeNewLine, newLine] using this
  | halt => simpa [encodeNewLine, newLine] using decodeOne_complete ValidInstr.halt t
  | incmp s v =>
    have := decodeOne_complete (ValidInstr.incmp (hS s h.1) (hS v h.2)) t
    simpa [encodeNewLine, newLine] using this
  | msink => simpa [encodeNewLine, newLine] using decodeOne_complete ValidInstr.msink t
  | mout s v =>
    have := decodeOne_complete (ValidInstr.mout (hS s h.1) (hS v h.2)) t
    simpa [encodeNewLine, newLine] using this
  | mnext s v =>
    have := decodeOne_complete (ValidInstr.mnext (hS s h.1) (hS v h.2)) t
    simpa [encodeNewLine, newLine] using this
  | mprev s v =>
    have := decodeOne_complete (ValidInstr.mprev (hS s h.1) (hS v h.2)) t
    simpa [encodeNewLine, newLine] using this
  | noop => simpa [encodeNewLine, newLine] using decodeOne_complete ValidInstr.noop t

/-! ### opcode table facts (regenerated table, decided by the kernel) -/

/-- opcode numbers are pairwise distinct and none exceeds `_MAX`. -/
theorem opcodes_nodup_bounded :
    (Facts.opcodes.map (·.2)).Nodup ∧ ∀ p ∈ Facts.opcodes, p.2 ≤ Facts.opMax := by decide

/-- the name→opcode and opcode→name tables are the same bijection as the constants. -/
theorem opcode_tables_agree :
    Facts.opcodeString = Facts.opcodes ∧ Facts.opcodeIndex = Facts.opcodes ∧
    (Facts.opcodes.map (·.1)).Nodup := by decide

/-- the model's opcode constants are the ones in the table. -/
theorem opcode_constants_in_table :
    [("CATCH", Facts.opCATCH), ("CROAK", Facts.opCROAK), ("LOAD", Facts.opLOAD),
     ("RELOAD", Facts.opRELOAD), ("MAP", Facts.opMAP), ("MOVE", Facts.opMOVE),
     ("HALT", Facts.opHALT), ("INCMP", Facts.opINCMP), ("MSINK", Facts.opMSINK),
     ("MOUT", Facts.opMOUT), ("MNEXT", Facts.opMNEXT), ("MPREV", Facts.opMPREV),
     ("NOOP", Facts.opNOOP)].all (fun p => Facts.opcodes.contains p) = true := by decide

/-! ### non-vacuity -/

example : (Instr.catch [102, 111, 111] 300 true).WF ∧ (Instr.load [120] 4294967295).WF := by
  simp [Instr.WF, symOk]

example : decodeOne (encode (.load [102, 111, 111] 65536) ++ [7, 7]) =
    .ok (.load [102, 111, 111] 65536, [7, 7]) :=
  decodeOne_encode _ _ (by simp [Instr.WF, symOk])

end Vise.C14
