/-
  C15 — Malformed bytecode is rejected with an error, never a crash or a silent accept.

  Model: Vise/Codec.lean, where every Go index and slice expression of the decoders is a guarded
  primitive that panics when out of range. Specification of the format: `ValidInstr` / `ValidSeq`
  in Vise/Lemmas/CodecSpec.lean (defined opcode, every argument complete, integer width ≤ 4).
-/
import Vise.Lemmas.CodecSpec

namespace Vise.C15
open Vise Res

/-- The disassembler never panics (and so never reads past the end), for every byte string. -/
theorem parseAll_no_panic (b : Bytes) : NoPanic (parseAll b) := parseAllF_noPanic _ b

theorem toString_no_panic (b : Bytes) : NoPanic (toStringAll b) := by
  unfold toStringAll
  exact NoPanic.bind (parseAll_no_panic b) (fun _ _ => noPanic_ok _)

/-- A single decode step (what `Vm.Run` performs per instruction: `opSplit` followed by the
opcode's `Parse*`) never panics either. -/
theorem decodeOne_no_panic (b : Bytes) : NoPanic (decodeOne b) := decodeOne_noPanic b

/-- No silent accept: success means the input is exactly a sequence of complete, valid
instructions (so input ending inside an instruction, an undefined opcode or an integer wider
than four bytes can only produce an error). -/
theorem parseAll_sound (b : Bytes) (is : List Instr) (h : parseAll b = .ok is) : ValidSeq b is :=
  parseAllF_sound _ h

/-- No spurious reject: every sequence of complete valid instructions is accepted, with exactly
those instructions. -/
theorem parseAll_complete (b : Bytes) (is : List Instr) (h : ValidSeq b is) :
    parseAll b = .ok is := by
  have hl := validSeq_length h
  exact parseAllF_complete h _ (by omega)

/-- Hence `ParseAll` decides the format: it returns an error exactly on byte strings that are not
a sequence of complete valid instructions. -/
theorem parseAll_error_iff_invalid (b : Bytes) :
    (∃ k, parseAll b = .err k) ↔ ¬ ∃ is, ValidSeq b is := by
  constructor
  · rintro ⟨k, hk⟩ ⟨is, his⟩
    rw [parseAll_complete b is his] at hk; cases hk
  · intro h
    cases hp : parseAll b with
    | ok is => exact absurd ⟨is, parseAll_sound b is hp⟩ h
    | err k => exact ⟨k, rfl⟩
    | panic s => exact absurd hp (parseAll_no_panic b s)

/-- One decode step consumes exactly one valid instruction or fails. -/
theorem decodeOne_sound (b r : Bytes) (i : Instr) (h : decodeOne b = .ok (i, r)) :
    ∃ p, ValidInstr p i ∧ b = p ++ r := Vise.decodeOne_sound h

/-- the amount of fuel passed to the structural recursion is irrelevant once it covers the input:
fuel never hides non-termination or turns a valid program into an error. -/
theorem parseAll_fuel_irrelevant (b : Bytes) (n : Nat) (hn : b.length < n) :
    parseAllF n b = parseAll b := parseAllF_fuel n _ b hn (by omega)

/-! ### concrete malformed inputs (the defects repaired by the `fix:` commits; kept as regression
witnesses — each is also replayed against the Go code by the C15 check) -/

/-- `LOAD foo` with the size field missing -/
example : parseAll [0, 3, 3, 102, 111, 111] = .err "int-empty" := by decide
/-- `MOVE` announcing 3 symbol bytes but carrying 2 -/
example : parseAll [0, 6, 3, 102, 111] = .err "arg-short" := by decide
/-- integer announcing width 5 -/
example : parseAll [0, 2, 5, 0, 0, 0, 0, 1, 0] = .err "int-width" := by decide
/-- `MOVE foo` followed by a bare `MOVE` opcode -/
example : parseAll [0, 6, 3, 102, 111, 111, 0, 6] = .err "arg-empty" := by decide
/-- undefined opcode 13 -/
example : parseAll [0, 13] = .err "invalid-opcode" := by decide
/-- the empty string is not a program -/
example : parseAll [] = .err "short-opcode" := by decide
/-- non-vacuity of `ValidSeq`: `HALT` -/
example : ValidSeq [0, 7] [.halt] := .single .halt

end Vise.C15
