/-
  C16 — the assembler emits exactly the instructions that were written.

  `Prog` (Vise/AsmSpec.lean) is the independent reading: documented line forms with their arguments, an
  arbitrary layout per line (blank runs between tokens, trailing blanks and comment, CR/LF line ends incl.
  blank lines), batch menu lines at the end. `Prog.source` is the text, `Prog.expected` the instructions it
  stands for (batch lines expanded to the documented MOUT/MNEXT/MPREV … HALT … INCMP pattern).
  `assemble` is the model of asm.Parse (participle lexer + grammar + conversions + emitters).

  Full-strength statement (every documented-valid source) is FALSE on the tree; it is proved on the domain
  `SafeProg` (names starting with a lower-case letter or a special character, selectors that are the wildcard,
  such a name, or a canonical decimal below 2^32; numbers below 2^32) and refuted outside it by the
  kernel-evaluated witnesses at the end (known findings).
-/
import Vise.Pins.C16
import Vise.Lemmas.AsmOut
import Vise.Lemmas.CodecSpec
import Vise.Props.C14

namespace Vise.C16
open Vise Vise.Asm Vise.AsmSpec

def rows (p : Prog) : List Row :=
  (p.lines.map fun x => x.1.row x.2) ++ (p.batch.map fun x => x.1.row x.2)

theorem toks_rows (p : Prog) : p.toks = (rows p).flatMap Row.toks := by
  simp [Prog.toks, rows, List.flatMap_append, List.flatMap_map, Row.toks, SLine.row, BLine.row]

theorem rows_good (p : Prog) (h : SafeProg p) : ∀ r ∈ rows p, GoodRow r := by
  intro r hr
  simp only [rows, List.mem_append, List.mem_map] at hr
  rcases hr with ⟨x, hx, rfl⟩ | ⟨x, hx, rfl⟩
  · exact sline_good x.1 x.2 (h.1 x hx).1 (h.1 x hx).2
  · exact bline_good x.1 x.2 (h.2 x hx).1 (h.2 x hx).2

/-- lexer + grammar + conversions read a safe program as its lines, in order, with the arguments as written -/
theorem parse_reads_lines (p : Prog) (h : SafeProg p) :
    parseSrc p.source = some ((p.lines.map fun x => (x.1.words.1, x.1.ast)) ++
      (p.batch.map fun x => (x.1.words.1, x.1.ast))) := by
  have := parseSrc_rows (rows p) (rows_good p h)
  rw [← toks_rows] at this
  simpa [Prog.source, rows, SLine.row, BLine.row, Function.comp_def] using this

theorem emit_regular (xs : List (SLine × Layout)) (h : ∀ x ∈ xs, SafeLine x.1) (tail : List (Bytes × Arg))
    (r : Bytes) (ht : emitLines {} tail = .ok r) :
    emitLines {} ((xs.map fun x => (x.1.words.1, x.1.ast)) ++ tail)
      = .ok ((xs.map (·.1.instr)).flatMap encode ++ r) := by
  induction xs with
  | nil => simpa using ht
  | cons x xs ih =>
    simp only [List.map_cons, List.cons_append, emitLines, sline_opcode x.1, menuExit]
    simp only [Bool.not_false, if_true, sline_emit x.1 (h x (by simp)), Res.bind_ok,
      ih (fun y hy => h y (by simp [hy]))]
    simp

theorem emit_batch_all (xs : List (BLine × Layout)) (h : ∀ x ∈ xs, SafeBLine x.1) :
    emitLines {} (xs.map fun x => (x.1.words.1, x.1.ast))
      = .ok (if xs.isEmpty then [] else
          (xs.map (·.1.pre)).flatMap encode ++ encode .halt ++ (xs.map (·.1.post)).flatMap encode) := by
  cases xs with
  | nil => simp [emitLines, menuExit]
  | cons x xs =>
    simp only [List.map_cons, emitLines, bline_opcode x.1, bline_add x.1 (h x (by simp)), Res.bind_ok]
    have := emit_batch (xs.map (·.1)) (by intro y hy; simp at hy; obtain ⟨l, hl⟩ := hy; exact h (y, l) (by simp [hl]))
      { items := ([] : List MenuItem) ++ [x.1.item], inMenu := true } rfl
    simp only [List.map_map] at this
    have e : (fun x : BLine × Layout => (x.1.words.1, x.1.ast)) = ((fun x : BLine => (x.words.1, x.ast)) ∘ (·.1)) := rfl
    rw [e, this]
    have t := toLines_items (x.1 :: xs.map (·.1))
    simp only [List.map_cons, List.map_map] at t
    simp only [List.nil_append, List.singleton_append]
    rw [t]
    simp [Function.comp_def]

/-- **C16, on the safe domain.** For every program written in the documented forms with safe arguments and
any layout, `asm.Parse` succeeds and writes exactly the encodings of the instructions written, one per line
in order, and the batch menu lines expand to the documented pattern. -/
theorem assemble_faithful (p : Prog) (h : SafeProg p) :
    assemble p.source = .ok (p.expected.flatMap encode) := by
  unfold assemble
  rw [parse_reads_lines p h]
  simp only
  rw [emit_regular p.lines (fun x hx => (h.1 x hx).1) _ _ (emit_batch_all p.batch (fun x hx => (h.2 x hx).1))]
  simp only [Prog.expected, List.flatMap_append]
  cases hb : p.batch.isEmpty <;> simp [hb, List.flatMap_append]

/-- the batch lines alone: the documented MOUT/MNEXT/MPREV … HALT … INCMP expansion -/
theorem batch_expansion (batch : List (BLine × Layout)) (hne : batch ≠ [])
    (h : ∀ x ∈ batch, SafeBLine x.1 ∧ SafeLayout x.2) :
    assemble (Prog.source ⟨[], batch⟩)
      = .ok ((batch.map (·.1.pre) ++ [Instr.halt] ++ batch.map (·.1.post)).flatMap encode) := by
  have := assemble_faithful ⟨[], batch⟩ ⟨by simp, h⟩
  have hb : batch.isEmpty = false := by cases batch <;> simp_all
  simpa [Prog.expected, hb] using this

theorem safeName_symOk {s : Bytes} (h : SafeName s) : symOk s := safeName_len h
theorem sel_symOk {sel : Sel} (h : SafeSel sel) : symOk sel.bytes := sel_len h

theorem instr_wf (x : SLine) (h : SafeLine x) : x.instr.WF := by
  cases x <;> simp only [SLine.instr, Instr.WF] <;> simp only [SafeLine] at h
  all_goals first
    | trivial
    | exact ⟨safeName_symOk h.1, h.2⟩
    | exact h
    | exact safeName_symOk h
    | exact ⟨safeName_symOk h.1, sel_symOk h.2.2⟩
    | exact ⟨safeName_symOk h.1, sel_symOk h.2⟩

theorem symOk_special (c : UInt8) : symOk [c] := by simp [symOk]

theorem pre_wf (x : BLine) (h : SafeBLine x) : x.pre.WF := by
  cases x <;> simp only [BLine.pre, Instr.WF] <;> simp only [SafeBLine] at h
  · exact ⟨safeName_symOk h.2.2, sel_symOk h.2.1⟩
  · exact ⟨safeName_symOk h.2, sel_symOk h.1⟩
  · exact ⟨safeName_symOk h.2, sel_symOk h.1⟩
  · exact ⟨safeName_symOk h.2, sel_symOk h.1⟩

theorem post_wf (x : BLine) (h : SafeBLine x) : x.post.WF := by
  cases x <;> simp only [BLine.post, Instr.WF] <;> simp only [SafeBLine] at h
  · exact ⟨safeName_symOk h.1, sel_symOk h.2.1⟩
  · exact ⟨symOk_special _, sel_symOk h.1⟩
  · exact ⟨symOk_special _, sel_symOk h.1⟩
  · exact ⟨symOk_special _, sel_symOk h.1⟩

theorem expected_wf (p : Prog) (h : SafeProg p) : ∀ i ∈ p.expected, i.WF := by
  intro i hi
  simp only [Prog.expected, List.mem_append, List.mem_map] at hi
  rcases hi with ⟨x, hx, rfl⟩ | hi
  · exact instr_wf x.1 (h.1 x hx).1
  · cases hb : p.batch.isEmpty
    · simp only [hb, Bool.false_eq_true, if_false, List.mem_append, List.mem_map, List.mem_singleton] at hi
      rcases hi with (⟨x, hx, rfl⟩ | rfl) | ⟨x, hx, rfl⟩
      · exact pre_wf x.1 (h.2 x hx).1
      · trivial
      · exact post_wf x.1 (h.2 x hx).1
    · simp [hb] at hi

/-- **... observed through the independent decoder** (C14): decoding the assembler's output gives back
exactly the instructions that were written — same opcode, symbol, size, signal, selector and label. -/
theorem assemble_decodes (p : Prog) (h : SafeProg p) (hne : p.expected ≠ []) :
    ∃ b, assemble p.source = .ok b ∧ parseAll b = .ok p.expected ∧
      toStringAll b = .ok (p.expected.flatMap pretty) :=
  ⟨_, assemble_faithful p h, C14.parseAll_encodeAll _ hne (expected_wf p h),
    C14.toString_encodeAll _ hne (expected_wf p h)⟩

/-! ### non-vacuity: a program with comments, tabs, CRLF, a blank line, special nodes and a batch menu -/

def w00 : Bytes := [0x49, 0x4e, 0x43, 0x4d, 0x50, 0x20, 0x66, 0x6f, 0x6f, 0x20, 0x30, 0x30, 0x0a]
#guard w00 = ascii "INCMP foo 00\n"
def w011 : Bytes := [0x49, 0x4e, 0x43, 0x4d, 0x50, 0x20, 0x66, 0x6f, 0x6f, 0x20, 0x30, 0x31, 0x31, 0x0a]
#guard w011 = ascii "INCMP foo 011\n"
def w08 : Bytes := [0x49, 0x4e, 0x43, 0x4d, 0x50, 0x20, 0x66, 0x6f, 0x6f, 0x20, 0x30, 0x38, 0x0a]
#guard w08 = ascii "INCMP foo 08\n"
def w1a : Bytes := [0x49, 0x4e, 0x43, 0x4d, 0x50, 0x20, 0x66, 0x6f, 0x6f, 0x20, 0x31, 0x61, 0x0a]
#guard w1a = ascii "INCMP foo 1a\n"
def wm1a : Bytes := [0x4d, 0x4f, 0x55, 0x54, 0x20, 0x66, 0x6f, 0x6f, 0x20, 0x31, 0x61, 0x0a]
#guard wm1a = ascii "MOUT foo 1a\n"
def wup : Bytes := [0x55, 0x50, 0x20, 0x34, 0x34, 0x6d, 0x20, 0x67, 0x0a]
#guard wup = ascii "UP 44m g\n"
def wFoo : Bytes := [0x4d, 0x4f, 0x56, 0x45, 0x20, 0x46, 0x6f, 0x6f, 0x0a]
#guard wFoo = ascii "MOVE Foo\n"
def w010 : Bytes := [0x4c, 0x4f, 0x41, 0x44, 0x20, 0x66, 0x6f, 0x6f, 0x20, 0x30, 0x31, 0x30, 0x0a]
#guard w010 = ascii "LOAD foo 010\n"
def wbig : Bytes := [0x49, 0x4e, 0x43, 0x4d, 0x50, 0x20, 0x66, 0x6f, 0x6f, 0x20, 0x34, 0x32, 0x39, 0x34, 0x39, 0x36, 0x37, 0x32, 0x39, 0x36, 0x0a]
#guard wbig = ascii "INCMP foo 4294967296\n"
def demoSrc : Bytes := [0x4c, 0x4f, 0x41, 0x44, 0x20, 0x66, 0x6f, 0x6f, 0x20, 0x32, 0x30, 0x20, 0x20, 0x23, 0x20, 0x66, 0x65, 0x74, 0x63, 0x68, 0x0a, 0x4d, 0x41, 0x50, 0x20, 0x66, 0x6f, 0x6f, 0x0d, 0x0a, 0x0a, 0x43, 0x41, 0x54, 0x43, 0x48, 0x20, 0x5f, 0x63, 0x61, 0x74, 0x63, 0x68, 0x20, 0x38, 0x20, 0x31, 0x0a, 0x4d, 0x4f, 0x55, 0x54, 0x20, 0x69, 0x74, 0x65, 0x6d, 0x20, 0x31, 0x0a, 0x44, 0x4f, 0x57, 0x4e, 0x20, 0x62, 0x61, 0x72, 0x20, 0x30, 0x20, 0x74, 0x6f, 0x5f, 0x62, 0x61, 0x72, 0x0a, 0x55, 0x50, 0x09, 0x2a, 0x09, 0x62, 0x61, 0x63, 0x6b, 0x0a, 0x4e, 0x45, 0x58, 0x54, 0x20, 0x6e, 0x20, 0x66, 0x77, 0x64, 0x0a]
#guard demoSrc = ascii "LOAD foo 20  # fetch\nMAP foo\r\n\nCATCH _catch 8 1\nMOUT item 1\nDOWN bar 0 to_bar\nUP\t*\tback\nNEXT n fwd\n"

def nm (s : String) : Bytes := ascii s

def demo : Prog :=
  { lines := [(.load [0x66, 0x6f, 0x6f] 20, { sep := [0x20], trail := .wsComment [0x20, 0x20] [0x23, 0x20, 0x66, 0x65, 0x74, 0x63, 0x68] }),
              (.map [0x66, 0x6f, 0x6f], { eol := [0x0d, 0x0a, 0x0a] }),
              (.catch [0x5f, 0x63, 0x61, 0x74, 0x63, 0x68] 8 true, {}),
              (.mout [0x69, 0x74, 0x65, 0x6d] (.num 1), {})],
    batch := [(.down [0x62, 0x61, 0x72] (.num 0) [0x74, 0x6f, 0x5f, 0x62, 0x61, 0x72], {}),
              (.up .star [0x62, 0x61, 0x63, 0x6b], { sep := [0x09] }),
              (.next (.word [0x6e]) [0x66, 0x77, 0x64], {})] }

#guard demo.source = demoSrc

theorem safeName_dec (s : Bytes)
    (h : (match s with
      | [] => false
      | c :: r => isSymFirst c && !isUpper c && r.all isSymRest && decide ((c :: r).length ≤ 255)) = true) :
    SafeName s := by
  cases s with
  | nil => simp at h
  | cons c r =>
    simp only [Bool.and_eq_true, Bool.not_eq_true', List.all_eq_true, decide_eq_true_eq] at h
    exact ⟨c, r, rfl, h.1.1.1, h.1.1.2, h.1.2, h.2⟩

example : SafeProg demo := by
  refine ⟨?_, ?_⟩
  · intro x hx
    simp only [demo, List.mem_cons, List.not_mem_nil, or_false] at hx
    rcases hx with rfl | rfl | rfl | rfl
    · refine ⟨⟨safeName_dec _ (by decide), by decide⟩, ⟨by decide, by decide⟩, ⟨⟨by decide, by decide⟩, ⟨_, rfl, by decide⟩⟩, ⟨by decide, by decide⟩, ?_⟩
      intro _; exact ⟨_, rfl⟩
    · exact ⟨safeName_dec _ (by decide), ⟨by decide, by decide⟩, trivial, ⟨by decide, by decide⟩, by intro h; cases h⟩
    · exact ⟨⟨safeName_dec _ (by decide), by decide⟩, ⟨by decide, by decide⟩, trivial, ⟨by decide, by decide⟩, by intro h; cases h⟩
    · exact ⟨⟨safeName_dec _ (by decide), by simp [SafeSel]⟩, ⟨by decide, by decide⟩, trivial, ⟨by decide, by decide⟩, by intro h; cases h⟩
  · intro x hx
    simp only [demo, List.mem_cons, List.not_mem_nil, or_false] at hx
    rcases hx with rfl | rfl | rfl
    · exact ⟨⟨safeName_dec _ (by decide), by simp [SafeSel], safeName_dec _ (by decide)⟩, ⟨by decide, by decide⟩, trivial, ⟨by decide, by decide⟩, by intro h; cases h⟩
    · exact ⟨⟨trivial, safeName_dec _ (by decide)⟩, ⟨by decide, by decide⟩, trivial, ⟨by decide, by decide⟩, by intro h; cases h⟩
    · exact ⟨⟨safeName_dec _ (by decide), safeName_dec _ (by decide)⟩, ⟨by decide, by decide⟩, trivial, ⟨by decide, by decide⟩, by intro h; cases h⟩

/-! ### outside the safe domain the property is false (known findings), kernel-evaluated -/

/-- `INCMP foo 00` emits selector `0`: the leading zero is dropped -/
theorem leading_zero_dropped : assemble w00 = .ok (encode (.incmp [0x66, 0x6f, 0x6f] [0x30])) := by decide
/-- `INCMP foo 011` emits selector `9`: read as octal -/
theorem leading_zero_octal : assemble w011 = .ok (encode (.incmp [0x66, 0x6f, 0x6f] [0x39])) := by decide
/-- `INCMP foo 08` is refused -/
theorem leading_zero_refused : assemble w08 = .err "parse" := by decide
/-- `INCMP foo 1a` emits selector `1`: the letters are dropped -/
theorem mixed_selector_letters_dropped : assemble w1a = .ok (encode (.incmp [0x66, 0x6f, 0x6f] [0x31])) := by decide
/-- `MOUT foo 1a` emits selector `a`: the digits are dropped -/
theorem mixed_selector_digits_dropped : assemble wm1a = .ok (encode (.mout [0x66, 0x6f, 0x6f] [0x61])) := by decide
/-- `UP 44m g` dereferences the absent symbol -/
theorem mixed_selector_panics : assemble wup = .panic "MenuAdd:*arg.Sym" := by decide
/-- `MOVE Foo` is refused: an upper-case first letter is lexed as a keyword -/
theorem upper_case_refused : assemble wFoo = .err "parse" := by decide
/-- `LOAD foo 010` emits size 8 -/
theorem size_octal : assemble w010 = .ok (encode (.load [0x66, 0x6f, 0x6f] 8)) := by decide
/-- `INCMP foo 4294967296` is refused: numeric selectors go through a 32-bit capture -/
theorem big_numeric_selector_refused : assemble wbig = .err "parse" := by decide

end Vise.C16
