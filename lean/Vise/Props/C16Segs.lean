/-
  C16, general form — batches of menu lines anywhere in the program.

  `ProgN` (Vise/AsmSpec.lean): any number of stretches "batch of menu lines (possibly empty), a regular line,
  more regular lines", then a final (possibly empty) batch. `ProgN.expected` expands every batch where it
  stands, with its own lines only. Proved: on the safe domain `asm.Parse` writes exactly that.
  (Before the fix the batcher kept the items of earlier batches: a second batch emitted the first one's
  entries again, see `second_batch_is_its_own` for the shape that failed.)
-/
import Vise.Props.C16

namespace Vise.C16
open Vise Vise.Asm Vise.AsmSpec

def brows (b : List (BLine × Layout)) : List Row := b.map fun x => x.1.row x.2
def lrows (l : List (SLine × Layout)) : List Row := l.map fun x => x.1.row x.2
def segRows (s : Seg) : List Row := brows s.batch ++ lrows (s.first :: s.rest)
def rowsN (p : ProgN) : List Row := p.segs.flatMap segRows ++ brows p.last

theorem brows_toks (b : List (BLine × Layout)) : (brows b).flatMap Row.toks = batchToks b := by
  simp [brows, batchToks, List.flatMap_map, Row.toks, BLine.row]

theorem lrows_toks (l : List (SLine × Layout)) : (lrows l).flatMap Row.toks = linesToks l := by
  simp [lrows, linesToks, List.flatMap_map, Row.toks, SLine.row]

theorem toks_rowsN (p : ProgN) : p.toks = (rowsN p).flatMap Row.toks := by
  simp only [ProgN.toks, rowsN, List.flatMap_append, brows_toks]
  congr 1
  induction p.segs with
  | nil => rfl
  | cons s ss ih =>
    simp only [List.flatMap_cons, List.flatMap_append, ih, segRows, brows_toks, lrows_toks, Seg.toks]

theorem brows_good (b : List (BLine × Layout)) (h : SafeBatch b) : ∀ r ∈ brows b, GoodRow r := by
  intro r hr
  simp only [brows, List.mem_map] at hr
  obtain ⟨x, hx, rfl⟩ := hr
  exact bline_good x.1 x.2 (h x hx).1 (h x hx).2

theorem lrows_good (l : List (SLine × Layout)) (h : SafeLines l) : ∀ r ∈ lrows l, GoodRow r := by
  intro r hr
  simp only [lrows, List.mem_map] at hr
  obtain ⟨x, hx, rfl⟩ := hr
  exact sline_good x.1 x.2 (h x hx).1 (h x hx).2

theorem rowsN_good (p : ProgN) (h : SafeProgN p) : ∀ r ∈ rowsN p, GoodRow r := by
  intro r hr
  simp only [rowsN, List.mem_append, List.mem_flatMap, segRows] at hr
  rcases hr with ⟨s, hs, hr | hr⟩ | hr
  · exact brows_good _ (h.1 s hs).1 r hr
  · exact lrows_good _ (h.1 s hs).2 r hr
  · exact brows_good _ h.2 r hr

/-- what the emitter is given for a batch / for regular lines -/
def bast (b : List (BLine × Layout)) : List (Bytes × Arg) := b.map fun x => (x.1.words.1, x.1.ast)
def last' (l : List (SLine × Layout)) : List (Bytes × Arg) := l.map fun x => (x.1.words.1, x.1.ast)
def segAst (s : Seg) : List (Bytes × Arg) := bast s.batch ++ last' (s.first :: s.rest)

theorem parse_reads_linesN (p : ProgN) (h : SafeProgN p) :
    parseSrc p.source = some (p.segs.flatMap segAst ++ bast p.last) := by
  have := parseSrc_rows (rowsN p) (rowsN_good p h)
  rw [← toks_rowsN] at this
  rw [ProgN.source, this]
  congr 1
  simp only [rowsN, List.map_append, List.map_flatMap, bast, brows, List.map_map]
  congr 1
  induction p.segs with
  | nil => rfl
  | cons s ss ih =>
    simp only [List.flatMap_cons, ih]
    congr 1
    simp [segRows, segAst, bast, last', brows, lrows, SLine.row, BLine.row, Function.comp_def]

/-- menu lines only add to the pending batch, whatever follows -/
theorem emit_adds (xs : List (BLine × Layout)) (h : ∀ x ∈ xs, SafeBLine x.1) (bt : Batcher) (hne : xs ≠ [])
    (T : List (Bytes × Arg)) :
    emitLines bt (bast xs ++ T) = emitLines { items := bt.items ++ xs.map (·.1.item), inMenu := true } T := by
  induction xs generalizing bt with
  | nil => exact absurd rfl hne
  | cons x xs ih =>
    simp only [bast, List.map_cons, List.cons_append, emitLines, bline_opcode x.1,
      bline_add x.1 (h x (by simp)) bt, Res.bind_ok]
    by_cases hx : xs = []
    · subst hx; simp
    · have := ih (fun y hy => h y (by simp [hy])) { items := bt.items ++ [x.1.item], inMenu := true } hx
      simp only [bast] at this
      rw [this]
      simp [List.append_assoc]

/-- the expansion of a batch, as bytes -/
theorem batchExpected_bytes (b : List (BLine × Layout)) (hne : b ≠ []) :
    toLines (b.map (·.1.item)) = (batchExpected b).flatMap encode := by
  have t := toLines_items (b.map (·.1))
  simp only [List.map_map] at t
  have hb : b.isEmpty = false := by cases b <;> simp_all
  have e : (BLine.item ∘ fun x : BLine × Layout => x.1) = fun x : BLine × Layout => x.1.item := rfl
  rw [e] at t
  rw [t]
  simp [batchExpected, hb, List.flatMap_append, Function.comp_def]

/-- one stretch, started with nothing pending: its batch is written where it stands, then its lines; the batcher
is empty again afterwards -/
theorem emit_seg (s : Seg) (h : SafeSeg s) (T : List (Bytes × Arg)) (r : Bytes)
    (ht : emitLines {} T = .ok r) :
    emitLines {} (segAst s ++ T) = .ok (s.expected.flatMap encode ++ r) := by
  have hl : ∀ x ∈ s.first :: s.rest, SafeLine x.1 := fun x hx => (h.2 x hx).1
  have reg := emit_regular (s.first :: s.rest) hl T r ht
  by_cases hb : s.batch = []
  · simp only [segAst, hb, bast, List.map_nil, List.nil_append, Seg.expected, batchExpected, List.isEmpty_nil,
      if_true, last']
    exact reg
  · simp only [segAst, List.append_assoc]
    rw [emit_adds s.batch (fun x hx => (h.1 x hx).1) {} hb]
    simp only [last', List.map_cons, List.cons_append, emitLines, sline_opcode s.first.1, menuExit]
    simp only [Bool.not_true, Bool.false_eq_true, if_false, sline_emit s.first.1 (hl s.first (by simp)), Res.bind_ok]
    have reg' := emit_regular s.rest (fun x hx => hl x (by simp [hx])) T r ht
    rw [reg']
    simp only [Res.bind_ok, Seg.expected, List.flatMap_append, List.map_cons, List.flatMap_cons, List.nil_append]
    rw [batchExpected_bytes s.batch hb]
    simp [List.append_assoc]

theorem emit_segs (segs : List Seg) (h : ∀ s ∈ segs, SafeSeg s) (T : List (Bytes × Arg)) (r : Bytes)
    (ht : emitLines {} T = .ok r) :
    emitLines {} (segs.flatMap segAst ++ T) = .ok ((segs.flatMap Seg.expected).flatMap encode ++ r) := by
  induction segs with
  | nil => simpa using ht
  | cons s ss ih =>
    simp only [List.flatMap_cons, List.append_assoc]
    rw [emit_seg s (h s (by simp)) _ _ (ih (fun x hx => h x (by simp [hx])))]
    simp [List.flatMap_append, List.append_assoc]

theorem emit_last (b : List (BLine × Layout)) (h : SafeBatch b) :
    emitLines {} (bast b) = .ok ((batchExpected b).flatMap encode) := by
  have := emit_batch_all b (fun x hx => (h x hx).1)
  simp only [bast]
  rw [this]
  cases hb : b.isEmpty <;> simp [batchExpected, hb, List.flatMap_append]

/-- **C16, general form, on the safe domain.** Menu batches anywhere between the regular lines: `asm.Parse`
succeeds and writes one instruction per regular line, as written and in order, and every batch expands where it
stands to the documented pattern of its own lines. -/
theorem assemble_faithful_general (p : ProgN) (h : SafeProgN p) :
    assemble p.source = .ok (p.expected.flatMap encode) := by
  unfold assemble
  rw [parse_reads_linesN p h]
  simp only
  rw [emit_segs p.segs h.1 _ _ (emit_last p.last h.2)]
  simp [ProgN.expected, List.flatMap_append]

/-- the shape that failed before the fix: a batch, a regular line, a second batch -/
def twoBatchesSrc : Bytes := [0x44, 0x4f, 0x57, 0x4e, 0x20, 0x66, 0x6f, 0x6f, 0x20, 0x31, 0x20, 0x74, 0x6f, 0x5f, 0x66, 0x6f, 0x6f, 0x0a, 0x4d, 0x41, 0x50, 0x20, 0x78, 0x0a, 0x55, 0x50, 0x20, 0x30, 0x20, 0x62, 0x61, 0x63, 0x6b, 0x0a]
#guard twoBatchesSrc = ascii "DOWN foo 1 to_foo\nMAP x\nUP 0 back\n"

def twoBatches : ProgN :=
  { segs := [{ batch := [(.down [0x66, 0x6f, 0x6f] (.num 1) [0x74, 0x6f, 0x5f, 0x66, 0x6f, 0x6f], {})],
               first := (.map [0x78], {}), rest := [] }],
    last := [(.up (.num 0) [0x62, 0x61, 0x63, 0x6b], {})] }

#guard twoBatches.source = twoBatchesSrc

example : SafeProgN twoBatches := by
  refine ⟨?_, ?_⟩
  · intro s hs
    simp only [twoBatches, List.mem_cons, List.not_mem_nil, or_false] at hs
    subst hs
    refine ⟨?_, ?_⟩
    · intro x hx
      simp only [List.mem_cons, List.not_mem_nil, or_false] at hx
      subst hx
      exact ⟨⟨safeName_dec _ (by decide), by simp [SafeSel], safeName_dec _ (by decide)⟩, ⟨by decide, by decide⟩, trivial, ⟨by decide, by decide⟩, by intro h; cases h⟩
    · intro x hx
      simp only [List.mem_cons, List.not_mem_nil, or_false] at hx
      subst hx
      exact ⟨safeName_dec _ (by decide), ⟨by decide, by decide⟩, trivial, ⟨by decide, by decide⟩, by intro h; cases h⟩
  · intro x hx
    simp only [twoBatches, List.mem_cons, List.not_mem_nil, or_false] at hx
    subst hx
    exact ⟨⟨by simp [SafeSel], safeName_dec _ (by decide)⟩, ⟨by decide, by decide⟩, trivial, ⟨by decide, by decide⟩, by intro h; cases h⟩

/-- the second batch is made of its own line only -/
theorem second_batch_is_its_own :
    assemble twoBatchesSrc = .ok ([Instr.mout [0x74, 0x6f, 0x5f, 0x66, 0x6f, 0x6f] [0x31], .halt, .incmp [0x66, 0x6f, 0x6f] [0x31],
      .map [0x78], .mout [0x62, 0x61, 0x63, 0x6b] [0x30], .halt, .incmp [0x5f] [0x30]].flatMap encode) := by decide

end Vise.C16
