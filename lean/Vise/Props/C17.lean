/-
  C17 — Rejected input has no effect on the session.

  Model: `exec`, `flush`, `request`, `longRun`, `persStep` (engine/db.go), `matchesInput`
  (vm/input.go, the default input pattern; custom validators registered with AddValidInput are
  not modelled), `St.setInput` (state/state.go, INPUT_LIMIT regenerated from the source).
-/
import Vise.Lemmas.VmMonad

namespace Vise.C17
open Vise VM EM

/-- input the engine refuses because it matches no accepted format -/
def formatRefused (input : Bytes) : Prop := input ≠ [] ∧ matchesInput input = false

/-- input the engine refuses because it is longer than the input limit -/
def tooLong (input : Bytes) : Prop := input.length > Facts.inputLimit

/-- **Format-refused input touches nothing**: `Exec` returns its error with the engine — state,
flags, cache, pending code, page, ghost call and lookup logs, engine bookkeeping — exactly as it
was. For every engine state, initialised or not, with or without a `first` function. -/
theorem exec_format_refused_no_effect (env : Env) (cfg : Cfg) (e : Eng) (input : Bytes)
    (h : formatRefused input) : exec env cfg input e = (.err "invalid-input" [], e) := by
  obtain ⟨h1, h2⟩ := h
  have hl : input.length > 0 := List.length_pos_iff.mpr h1
  unfold exec
  simp [hl, h2]

/-- the client sees an error for that request only, `cont = true`, no output -/
theorem request_format_refused (env : Env) (cfg : Cfg) (e : Eng) (input : Bytes)
    (h : formatRefused input) :
    request env cfg e input = ({ x := "err", cont := true, f := "-", out := [] }, e) := by
  unfold request
  rw [exec_format_refused_no_effect env cfg e input h]
  rfl

/-- no application code runs: the call log and lookup log are unchanged (special case of the
above, stated for the record) -/
theorem format_refused_runs_nothing (env : Env) (cfg : Cfg) (e : Eng) (input : Bytes)
    (h : formatRefused input) :
    (request env cfg e input).2.vm.ghost = e.vm.ghost := by
  rw [request_format_refused env cfg e input h]

/-- **Erasure, long-lived engine**: a history with a refused input inserted anywhere produces
exactly the observations of the history without it, plus the one error. -/
theorem longRun_erase_refused (env : Env) (cfg : Cfg) (e : Eng) (h1 h2 : List Bytes) (bad : Bytes)
    (h : formatRefused bad) :
    (longRun env cfg e (h1 ++ bad :: h2)).2 = (longRun env cfg e (h1 ++ h2)).2 ∧
    (longRun env cfg e (h1 ++ bad :: h2)).1 =
      (longRun env cfg e h1).1 ++ { x := "err", cont := true, f := "-", out := [] } ::
        (longRun env cfg (longRun env cfg e h1).2 h2).1 ∧
    (longRun env cfg e (h1 ++ h2)).1 =
      (longRun env cfg e h1).1 ++ (longRun env cfg (longRun env cfg e h1).2 h2).1 := by
  induction h1 generalizing e with
  | nil =>
    simp only [List.nil_append, longRun]
    rw [request_format_refused env cfg e bad h]
    simp
  | cons i is ih =>
    simp only [List.cons_append, longRun]
    obtain ⟨a, b, c⟩ := ih (request env cfg e i).2
    refine ⟨a, ?_, ?_⟩
    · simp only [b]
    · simp only [c]

/-- **Persisted operation**: a fresh engine on a stored session refuses the input and the store
keeps exactly what it held (nothing is created for a session that did not exist). -/
theorem persStep_format_refused (env : Env) (cfg : Cfg) (snap : Option Snap) (input : Bytes)
    (h : formatRefused input) :
    (persStep env cfg snap input).1 = { x := "err", cont := true, f := "-", out := [] } ∧
    (persStep env cfg snap input).2.1 = snap := by
  unfold persStep
  simp only [request_format_refused env cfg _ input h]
  have hfin : finish (restore env cfg snap) = .ok none := by
    unfold finish restore
    cases snap <;> simp [newEngine]
  rw [hfin]
  cases snap <;> simp

/-- Asking for output before anything was executed is refused without side effects. -/
theorem flush_before_exec_refused (env : Env) (cfg : Cfg) (e : Eng) (h : e.execd = false) :
    flush env cfg e = (.err "flush-no-exec" [], e) := by
  unfold flush
  simp [h]

/-- **Over-long input** (format-valid, longer than the limit) on an initialised engine with no
undelivered output: the request fails and the session — position, flags, cache, pending code,
page, logs — is untouched; only the engine's per-request bookkeeping (`exit`, `exiting`) is
cleared, as at the start of any request. (An over-long input that is also format-invalid is
covered by `exec_format_refused_no_effect`.) -/
theorem exec_too_long_no_session_effect (env : Env) (cfg : Cfg) (e : Eng) (input : Bytes)
    (h : tooLong input) (hm : matchesInput input = true) (hi : e.initd = true) (hx : e.execd = false) :
    (exec env cfg input e).1 = .err "input-too-long" [] ∧
    (exec env cfg input e).2 = { e with exit := [], exiting := false } := by
  have hne : input ≠ [] := by
    intro h0; subst h0; simp [tooLong, Facts.inputLimit] at h
  have hl : input.length > 0 := List.length_pos_iff.mpr hne
  have hroe : (cfg.resetOnEmpty && input.isEmpty) = false := by
    simp [hne]
  unfold exec engInit
  simp [hl, hm, hx, hi, hroe, St.setInput, show input.length > Facts.inputLimit from h]

/-! ### non-vacuity -/
example : formatRefused [0x21, 0x62] := by simp [formatRefused, matchesInput, isAlnum]
example : ¬ formatRefused [0x31] := by simp [formatRefused, matchesInput, isAlnum]

end Vise.C17
