/-
  C18 — The selected language reaches every lookup and survives the session.

  Model: `St.setLanguageSt` (state/state.go:SetLanguage with the ISO-639 table as the parameter
  `langOf`), the LANG branch of `refresh` and of `runLoop` (vm/runner.go), `exec` / `flush`
  passing `State.Language` as the context language (engine/db.go), `snapshot` / `restore`.
  Every resource lookup and external call of the model is logged with the language it was made
  in; the same log is recorded on the Go side by the harness resource and compared.
  Translation-then-default key lookup is C10 (`db.ToKey`).
-/
import Vise.Lemmas.Keeps

namespace Vise.C18
open Vise VM EM

/-- **An unknown code leaves the language unchanged** (a non-empty string the ISO table does not
know). -/
theorem unknown_code_unchanged (langOf : Bytes → Option Bytes) (st : St) (code : Bytes)
    (hne : code ≠ []) (hu : langOf code = none) : (st.setLanguageSt langOf code) = st := by
  unfold St.setLanguageSt
  have : code.isEmpty = false := by simpa using hne
  simp [this, hu]

/-- a valid code selects that language (normalised to its ISO-639-3 form by the table) -/
theorem valid_code_selects (langOf : Bytes → Option Bytes) (st : St) (code l : Bytes)
    (hv : langOf code = some l) : (st.setLanguageSt langOf code).language = some l := by
  unfold St.setLanguageSt
  simp [hv]

/-- the empty result is the explicit request for the default language (Go: `if code == ""`) -/
theorem empty_code_resets (langOf : Bytes → Option Bytes) (st : St) (hu : langOf [] = none) :
    (st.setLanguageSt langOf []).language = none := by
  unfold St.setLanguageSt
  simp [hu]

/-- changing the language touches nothing else of the state -/
theorem setLanguage_only_language (langOf : Bytes → Option Bytes) (st : St) (code : Bytes) :
    st.setLanguageSt langOf code = { st with language := (st.setLanguageSt langOf code).language } := by
  unfold St.setLanguageSt
  split <;> split <;> rfl

/-- **The selection survives save and resume**: the language is part of what is stored, and a
fresh engine on the stored session starts with it. -/
theorem language_survives_persist (env : Env) (cfg : Cfg) (e : Eng) :
    (restore env cfg (some (snapshot e))).vm.st.language = e.vm.st.language := by
  simp [restore, snapshot, newVmSt]

/-- **Every lookup is made in the language it is handed**: the code lookup logs and uses exactly
the context language ... -/
theorem getCode_uses_lang (env : Env) (lang : Option Bytes) (sym : Bytes) (s : VmSt) :
    (getCodeM env lang sym s).2.ghost.lookups = s.ghost.lookups ++ [("code", sym, lang)] ∧
    ((getCodeM env lang sym s).1 = match env.code lang sym with
      | some c => .ok c
      | none => .err "code-lookup" (ascii "nocode " ++ sym)) := by
  unfold getCodeM
  simp only [VM.bind_apply, logLookup, VM.modify_apply]
  cases env.code lang sym <;> simp

/-- nothing but flags and language changes -/
def OnlyFlagsLang (s s' : VmSt) : Prop :=
  s' = { s with st := { s.st with flags := s'.st.flags, language := s'.st.language } }

theorem onlyFlagsLang_preord : PreOrd OnlyFlagsLang :=
  ⟨fun _ => rfl, fun a b c h1 h2 => by unfold OnlyFlagsLang at *; rw [h2, h1]⟩

theorem setFlagM_ofl (f : Nat) : Keeps OnlyFlagsLang (setFlagM f) := by
  intro s
  unfold setFlagM OnlyFlagsLang
  simp only [VM.bind_apply, VM.get_apply, St.setFlag]
  cases hg : s.st.getFlag f with
  | ok b => cases b <;> simp
  | err k => simp
  | panic p => simp

theorem resetFlagM_ofl (f : Nat) : Keeps OnlyFlagsLang (resetFlagM f) := by
  intro s
  unfold resetFlagM OnlyFlagsLang
  simp only [VM.bind_apply, VM.get_apply, St.resetFlag]
  cases hg : s.st.getFlag f with
  | ok b => cases b <;> simp
  | err k => simp
  | panic p => simp

theorem matchFlagM_ofl (f : Nat) (m : Bool) : Keeps OnlyFlagsLang (matchFlagM f m) := by
  have P := onlyFlagsLang_preord
  unfold matchFlagM getFlagM
  exact Keeps.bind P (Keeps.bind P (Keeps.get P) (fun _ => Keeps.lift P _ _)) (fun _ => Keeps.pure P _)

theorem applyFlagList_ofl (setTo : Bool) (l : List Nat) : Keeps OnlyFlagsLang (applyFlagList setTo l) := by
  have P := onlyFlagsLang_preord
  induction l with
  | nil => exact Keeps.pure P _
  | cons f fs ih =>
    unfold applyFlagList
    apply Keeps.bind P
    · apply Keeps.ite
      · cases setTo
        · exact resetFlagM_ofl f
        · exact setFlagM_ofl f
      · exact Keeps.pure P _
    · intro _; exact ih

/-- handling a handler's result changes flags and language only -/
theorem refreshTail_ofl (env : Env) (key : Bytes) (r : ExtResult) :
    Keeps OnlyFlagsLang (refreshTail env key r) := by
  have P := onlyFlagsLang_preord
  unfold refreshTail
  apply Keeps.ite
  · apply Keeps.bind P (setFlagM_ofl _); intro _
    exact Keeps.fail P _ _
  · apply Keeps.bind P (applyFlagList_ofl _ _); intro _
    apply Keeps.bind P (applyFlagList_ofl _ _); intro _
    apply Keeps.bind P (matchFlagM_ofl _ _); intro hl
    apply Keeps.bind P
    · exact Keeps.modify _ (fun s => by
        unfold OnlyFlagsLang
        split
        · rw [setLanguage_only_language]
        · rfl)
    · intro _; exact Keeps.pure P _

/-- ... the external function is looked up and called in it: exactly one lookup and one call are
logged, both with the context language, and nothing else is added to the logs ... -/
theorem refresh_uses_lang (env : Env) (lang : Option Bytes) (key : Bytes) (s : VmSt) (r : ExtResult)
    (he : env.ext s.ghost.ncalls key s.st.input lang = some r) :
    (refresh env lang key s).2.ghost.lookups = s.ghost.lookups ++ [("func", key, lang)] ∧
    (refresh env lang key s).2.ghost.calls = s.ghost.calls ++ [(key, s.st.input, lang)] := by
  unfold refresh
  simp only [VM.bind_apply, VM.get_apply, logLookup, VM.modify_apply, he]
  have h := refreshTail_ofl env key r
    { s with ghost := { calls := s.ghost.calls ++ [(key, s.st.input, lang)],
                        lookups := s.ghost.lookups ++ [("func", key, lang)],
                        moves := s.ghost.moves, ncalls := s.ghost.ncalls + 1 } }
  unfold OnlyFlagsLang at h
  rw [h]
  exact ⟨rfl, rfl⟩

/-- ... and the language a handler selects (LANG flag set, valid code) is in the state when
`refresh` returns, so it is what the next instruction's context carries (`runLoop` reads it when it
consumes the LANG flag) and what is persisted. -/
theorem refresh_selects_language (env : Env) (key : Bytes) (r : ExtResult) (s : VmSt) (l : Bytes)
    (hnf : r.fail = false) (hset : r.flagSet = [Facts.langFlag]) (hres : r.flagReset = [])
    (hok : FlagsOk s.st) (hv : env.langOf r.content = some l) :
    (refreshTail env key r s).2.st.language = some l := by
  have hlt : Facts.langFlag < s.st.bitSize := by
    unfold FlagsOk at hok; have : Facts.langFlag = 7 := rfl; omega
  have hw : isWriteableFlag Facts.langFlag = true := by decide
  unfold refreshTail
  simp only [hnf, Bool.false_eq_true, if_false, hset, hres, applyFlagList, VM.bind_apply, VM.pure_apply, hw,
    if_true, setFlagM_eq s hok _ hlt]
  have hok1 : FlagsOk ({ s.st with flags := s.st.flags.set Facts.langFlag true } : St) := flagsOk_set s.st hok _ _
  rw [matchFlagM_eq _ Facts.langFlag true true (getFlag_set_self s.st hok _ hlt true)]
  simp [valid_code_selects env.langOf _ r.content l hv]

/-- the page render is made in the language it is handed (template and every menu label) -/
theorem render_uses_lang (env : Env) (lang : Option Bytes) :
    (renderEnv env lang).tpl = env.tpl lang ∧ (renderEnv env lang).label = env.label lang := ⟨rfl, rfl⟩

/-- the language handed to the VM by `Exec` and to the renderer by `Flush` is the session's -/
theorem engine_passes_session_language (e : Eng) : langOfEng e = e.vm.st.language := rfl

end Vise.C18
