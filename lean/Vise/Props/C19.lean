/-
  C19 — independent sessions can be served concurrently without interference (the part that is logic).

  * `sessions_non_interference`: in a system whose step function reads shared immutable data and one
    session's private state, every interleaving of the sessions' requests gives each session exactly the
    transcript and final state it gets when served alone. Instantiated with the engine model.
  * the one place where the real VM shares memory between sessions is the pending code buffer, a Go slice
    that may alias a slice handed out by the resource. With the clipped append (`fix:` commit) an append
    never changes what any existing slice reads (`clippedAppend_frame`), so every session's buffer
    is what its own appends made it, for every interleaving (`buffers_non_interference`); with the plain
    append two sessions overwrite each other's code (`plain_append_interferes`).

  PARTIAL: goroutine interleavings at the memory-model level and the race detector's verdict cannot be
  expressed in this model; they are exercised on the real code by the `conc` suite (`-race`).
-/
import Vise.Pins.C19
import Vise.Conc
import Vise.Engine

namespace Vise.C19
open Vise Vise.Conc

/-! ### sessions over shared immutable data -/

def mine {α} (i : Nat) (l : List (Nat × α)) : List α := l.filterMap fun p => if p.1 = i then some p.2 else none

theorem serve_other {ε σ ι ω} (step : ε → σ → ι → σ × ω) (env : ε) (sys : Sys σ) (i j : Nat) (inp : ι)
    (h : j ≠ i) : (sys.serve step env j inp).1.sessions[i]? = sys.sessions[i]? := by
  unfold Sys.serve
  cases hj : sys.sessions[j]? with
  | none => simp
  | some st => simp [List.getElem?_set_ne h]

/-- **Non-interference.** For every schedule, session `i`'s outputs (in order) and final state are exactly
those of serving its own inputs alone. -/
theorem sessions_non_interference {ε σ ι ω} (step : ε → σ → ι → σ × ω) (env : ε) (sched : List (Nat × ι)) :
    ∀ (sys : Sys σ) (i : Nat) (st : σ), sys.sessions[i]? = some st →
      mine i (Sys.run step env sys sched).2 = (alone step env st (mine i sched)).2 ∧
      (Sys.run step env sys sched).1.sessions[i]? = some (alone step env st (mine i sched)).1 := by
  induction sched with
  | nil => intro sys i st h; simp [Sys.run, mine, alone, h]
  | cons p rest ih =>
    intro sys i st h
    obtain ⟨j, inp⟩ := p
    by_cases hj : j = i
    · subst hj
      have hs : sys.serve step env j inp = ({ sessions := sys.sessions.set j (step env st inp).1 }, some (step env st inp).2) := by
        simp [Sys.serve, h]
      have hlt : j < sys.sessions.length := by
        rcases Nat.lt_or_ge j sys.sessions.length with hl | hl
        · exact hl
        · simp [List.getElem?_eq_none hl] at h
      have h' : ({ sessions := sys.sessions.set j (step env st inp).1 } : Sys σ).sessions[j]? = some (step env st inp).1 := by
        simp [List.getElem?_set_self hlt]
      obtain ⟨ih1, ih2⟩ := ih _ j _ h'
      simp only [Sys.run, hs]
      constructor
      · simp only [mine, List.filterMap_cons, if_true] at ih1 ⊢
        simp [alone, ih1]
      · simp only [mine, List.filterMap_cons, if_true] at ih2 ⊢
        simp [alone, ih2]
    · have h' := serve_other step env sys i j inp hj
      rw [h] at h'
      obtain ⟨ih1, ih2⟩ := ih (sys.serve step env j inp).1 i st h'
      have hm : mine i ((j, inp) :: rest) = mine i rest := by simp [mine, hj]
      simp only [Sys.run, hm]
      constructor
      · cases ho : (sys.serve step env j inp).2 with
        | none => simpa using ih1
        | some o => simpa [mine, hj] using ih1
      · exact ih2

/-- the engine model as a step function: shared application (resource tables, handlers) and configuration,
private engine value per session -/
def engStep (ec : Env × Cfg) (e : Eng) (input : Bytes) : Eng × Obs :=
  let r := request ec.1 ec.2 e input
  (r.2, r.1)

/-- every interleaving of requests to engines that share only the application gives each session the
transcript it gets alone -/
theorem engine_sessions_independent (env : Env) (cfg : Cfg) (sched : List (Nat × Bytes)) (sys : Sys Eng)
    (i : Nat) (e : Eng) (h : sys.sessions[i]? = some e) :
    mine i (Sys.run engStep (env, cfg) sys sched).2 = (alone engStep (env, cfg) e (mine i sched)).2 :=
  (sessions_non_interference engStep (env, cfg) sched sys i e h).1

/-! ### the pending code buffer -/

def Valid (h : Heap) (s : Slice) : Prop := s.arr < h.length ∧ s.off + s.len ≤ (h.getD s.arr []).length

theorem writeAt_nil (a : Bytes) (i : Nat) : writeAt a i [] = a := by simp [writeAt]

theorem modify_self {α} (l : List α) (n : Nat) (f : α → α) (hf : ∀ x, l[n]? = some x → f x = x) : l.modify n f = l := by
  induction l generalizing n with
  | nil => simp
  | cons a l ih =>
    cases n with
    | zero => simp [List.modify_zero_cons, hf a (by simp)]
    | succ n => simp [List.modify_succ_cons, ih n (fun x hx => hf x (by simpa using hx))]

/-- the clipped append never changes an existing array: the heap is extended, or (empty argument) left as is -/
theorem clippedAppend_heap (h : Heap) (s : Slice) (xs : Bytes) :
    ∃ l, (clippedAppend h s xs).1 = h ++ l := by
  unfold clippedAppend goAppend Slice.clip
  by_cases hx : xs = []
  · subst hx
    refine ⟨[], ?_⟩
    simp only [List.length_nil, Nat.add_zero, Nat.le_refl, if_true, List.append_nil]
    exact modify_self _ _ _ (fun x _ => writeAt_nil x _)
  · have : ¬ (s.len + xs.length ≤ s.len) := by
      have : 0 < xs.length := List.length_pos_iff.mpr hx
      omega
    simp only [this, if_false]
    exact ⟨_, rfl⟩

theorem read_append_heap (h l : Heap) (t : Slice) (ht : t.arr < h.length) : t.read (h ++ l) = t.read h := by
  unfold Slice.read
  simp [List.getD_eq_getElem?_getD, List.getElem?_append_left ht]

/-- **Frame property of the clipped append**: whatever any existing slice reads — another session's pending
buffer, the shared bytecode — is unchanged by an append to `s`. -/
theorem clippedAppend_frame (h : Heap) (s : Slice) (xs : Bytes) (t : Slice) (ht : t.arr < h.length) :
    t.read (clippedAppend h s xs).1 = t.read h := by
  obtain ⟨l, hl⟩ := clippedAppend_heap h s xs
  rw [hl]; exact read_append_heap h l t ht

/-- the appended slice reads as the old contents followed by the appended bytes, and is valid -/
theorem clippedAppend_read (h : Heap) (s : Slice) (xs : Bytes) (hs : Valid h s) :
    (clippedAppend h s xs).2.read (clippedAppend h s xs).1 = s.read h ++ xs ∧
      Valid (clippedAppend h s xs).1 (clippedAppend h s xs).2 := by
  unfold clippedAppend goAppend Slice.clip
  by_cases hx : xs = []
  · subst hx
    simp only [List.length_nil, Nat.add_zero, Nat.le_refl, if_true, List.append_nil]
    rw [modify_self _ _ _ (fun x _ => writeAt_nil x _)]
    exact ⟨rfl, hs⟩
  · have : ¬ (s.len + xs.length ≤ s.len) := by
      have : 0 < xs.length := List.length_pos_iff.mpr hx
      omega
    simp only [this, if_false]
    have hread : (Slice.read h { arr := s.arr, off := s.off, len := s.len, cap := s.len }) = s.read h := rfl
    constructor
    · simp only [Slice.read, List.getD_eq_getElem?_getD, List.length_append, List.getElem?_concat_length,
        Option.getD_some, List.drop_zero]
      rw [List.take_append_of_le_length (by simp)]
      exact List.take_of_length_le (by simp)
    · simp [Valid, List.getD_eq_getElem?_getD]

/-- sessions' buffers in one heap; a step is session `j` appending fetched code to its buffer -/
def bufRun : Heap → List Slice → List (Nat × Bytes) → Heap × List Slice
  | h, bufs, [] => (h, bufs)
  | h, bufs, (j, code) :: rest =>
    match bufs[j]? with
    | none => bufRun h bufs rest
    | some s =>
      let (h', s') := clippedAppend h s code
      bufRun h' (bufs.set j s') rest

/-- **Every interleaving of appends leaves each session's buffer exactly what its own appends made it.** -/
theorem buffers_non_interference (sched : List (Nat × Bytes)) :
    ∀ (h : Heap) (bufs : List Slice), (∀ s ∈ bufs, Valid h s) → ∀ (i : Nat) (s : Slice), bufs[i]? = some s →
      ∃ s', (bufRun h bufs sched).2[i]? = some s' ∧
        s'.read (bufRun h bufs sched).1 = s.read h ++ (mine i sched).flatten := by
  induction sched with
  | nil => intro h bufs _ i s hs; exact ⟨s, by simp [bufRun, hs], by simp [bufRun, mine]⟩
  | cons p rest ih =>
    intro h bufs hv i s hs
    obtain ⟨j, code⟩ := p
    simp only [bufRun]
    cases hj : bufs[j]? with
    | none =>
      have hne : j ≠ i := by intro e; subst e; simp [hs] at hj
      obtain ⟨s', h1, h2⟩ := ih h bufs hv i s hs
      exact ⟨s', by simpa using h1, by simpa [mine, hne] using h2⟩
    | some sj =>
      have hvj : Valid h sj := hv sj (List.mem_of_getElem? hj)
      obtain ⟨hr, hvalid⟩ := clippedAppend_read h sj code hvj
      obtain ⟨l, hl⟩ := clippedAppend_heap h sj code
      -- all buffers stay valid in the extended heap
      have hv' : ∀ t ∈ bufs.set j (clippedAppend h sj code).2, Valid (clippedAppend h sj code).1 t := by
        intro t ht
        rcases List.mem_or_eq_of_mem_set ht with ht | ht
        · have := hv t ht
          rw [hl]
          exact ⟨by have := this.1; simp; omega, by
            simp only [List.getD_eq_getElem?_getD, List.getElem?_append_left this.1]
            simpa [List.getD_eq_getElem?_getD] using this.2⟩
        · subst ht; exact hvalid
      by_cases hji : j = i
      · subst hji
        have hlt : j < bufs.length := by
          rcases Nat.lt_or_ge j bufs.length with hl' | hl'
          · exact hl'
          · simp [List.getElem?_eq_none hl'] at hj
        have hs' : (bufs.set j (clippedAppend h sj code).2)[j]? = some (clippedAppend h sj code).2 := by
          simp [List.getElem?_set_self hlt]
        obtain ⟨s', h1, h2⟩ := ih _ _ hv' j _ hs'
        have : sj = s := by rw [hj] at hs; exact Option.some.inj hs
        subst this
        refine ⟨s', h1, ?_⟩
        rw [h2, hr]
        simp [mine, List.append_assoc]
      · have hs' : (bufs.set j (clippedAppend h sj code).2)[i]? = some s := by
          rw [List.getElem?_set_ne hji]; exact hs
        obtain ⟨s', h1, h2⟩ := ih _ _ hv' i s hs'
        refine ⟨s', h1, ?_⟩
        rw [h2, clippedAppend_frame h sj code s (hv s (List.mem_of_getElem? hs)).1]
        simp [mine, hji]

/-! ### with the plain append the property is false — the defect the `fix:` commit repairs -/

/-- two sessions whose buffers are tails of one shared bytecode slice with spare capacity: after both have
appended, the first session's buffer holds the second session's code -/
theorem plain_append_interferes :
    let h : Heap := [[1, 2, 3, 0, 0, 0]]
    let shared : Slice := { arr := 0, off := 0, len := 3, cap := 6 }
    let a := shared.from 1
    let b := shared.from 2
    let (h1, a') := goAppend h a [0xaa, 0xaa]
    let (h2, _) := goAppend h1 b [0xbb, 0xbb]
    a'.read h1 = [2, 3, 0xaa, 0xaa] ∧ a'.read h2 = [2, 3, 0xbb, 0xbb] := by decide

/-- the same schedule with the clipped append: nothing changes under the first session -/
example :
    let h : Heap := [[1, 2, 3, 0, 0, 0]]
    let shared : Slice := { arr := 0, off := 0, len := 3, cap := 6 }
    let a := shared.from 1
    let b := shared.from 2
    let (h1, a') := clippedAppend h a [0xaa, 0xaa]
    let (h2, _) := clippedAppend h1 b [0xbb, 0xbb]
    a'.read h1 = [2, 3, 0xaa, 0xaa] ∧ a'.read h2 = [2, 3, 0xaa, 0xaa] ∧ shared.read h2 = [1, 2, 3] := by decide

end Vise.C19
