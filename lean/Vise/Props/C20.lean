/-
  C20 — Session end restarts cleanly; termination stays blocked.

  Model: `setCode` (empty code + DIRTY → exiting), `flush` + `engReset` (engine/db.go), `runDeadCheck`
  (TERMINATE when code ends outside input handling), `engInit`'s start-node injection, `persStep`.
-/
import Vise.Props.C06
import Vise.Props.C08

namespace Vise.C20
open Vise VM EM

/-- **Graceful end detected**: when the VM returns no code and something is left to show, the
request reports stop, the engine is marked exiting and the exit value is the last loaded content. -/
theorem graceful_end_detected (e : Eng) (hd : e.vm.st.getFlag Facts.dirtyFlag = .ok true) :
    (setCode [] e).1 = .ok false ∧ (setCode [] e).2.exiting = true ∧
    (setCode [] e).2.exit = e.vm.ca.lastValue ∧ (setCode [] e).2.vm.st.code = [] := by
  unfold setCode
  simp [St.setCode, matchFlagM, getFlagM, St.getFlag, Cache.last] at *
  simp [hd]

/-- **Abnormal end sets TERMINATE** (code exhausted while no input is being handled). -/
theorem abnormal_end_sets_terminate (s : VmSt) (hr : s.st.getFlag Facts.readinFlag = .ok false)
    (hb : Facts.terminateFlag + 1 ≤ s.st.bitSize) (hl : Facts.terminateFlag < s.st.flags.length) :
    (runDeadCheck s).1 = .ok [] ∧ (runDeadCheck s).2.st.flags[Facts.terminateFlag]? = some true :=
  C06.dead_not_reading_terminates s hr hb hl

/-- **The start node is injected when no code is pending**: a fresh engine on a stored session
whose code ran out begins with `MOVE <root>` (no `first` function configured). -/
theorem restart_injects_entry (env : Env) (cfg : Cfg) (e : Eng) (input : Bytes)
    (hne : env.first = none) (hi : e.initd = false) (hx : e.execd = false) (hp : e.prepared = false)
    (hes : e.explicitState = false) (hroot : cfg.root ≠ [])
    (hlen : input.length ≤ Facts.inputLimit) (hcode : e.vm.st.code = []) (hin : e.vm.st.input = none) :
    (engInit env cfg input e).1 = .ok true ∧
    (engInit env cfg input e).2.vm.st.code = newLine Facts.opMOVE [cfg.root] none none ∧
    (engInit env cfg input e).2.initd = true := by
  have hnl : ¬ input.length > Facts.inputLimit := by omega
  have hr : cfg.root.isEmpty = false := by simpa using hroot
  have hcl : ¬ (newLine Facts.opMOVE [cfg.root] none none).length = 0 := by simp [newLine, u16be]
  unfold engInit
  simp [hx, hi, hp, hes, hr, St.setInput, hnl, runFirst, hne, hcode, setCode, St.setCode, hcl, hin]

/-- **While TERMINATE is set every request stays blocked** — no instruction runs, nothing is
called, position, flags and cache stay as they are, the request reports stop — see
`C06.terminate_blocks` (VM) and `C06.terminate_blocks_exec` (engine), which hold for every program
and every input; by induction over the history they hold for every later request until client
code clears the flag. -/
theorem terminated_stays_blocked (env : Env) (fuel : Nat) (lang : Option Bytes) (s : VmSt)
    (ht : s.st.getFlag Facts.terminateFlag = .ok true) (codes : List Bytes) :
    ∀ b ∈ codes, runLoop env (fuel + 1) lang b s = (.ok [], s) :=
  fun b _ => C06.terminate_blocks env fuel lang b s ht

/-- **A session that is already blocked stays silent also when the engine has a `first` function** (fix 5c54718):
the pre-VM check does not run, nothing is called, state and cache are untouched, and no exit value is taken from the
cache - the request only marks the engine as executed. Before the fix the stale `cache.Last()` value of the dead
session became the output of every blocked request. -/
theorem blocked_session_first_is_silent (env : Env) (cfg : Cfg) (e : Eng)
    (fn : Nat → Option Bytes → Option Bytes → ExtResult) (hf : env.first = some fn)
    (ht : e.vm.st.getFlag Facts.terminateFlag = .ok true) :
    runFirst env cfg e = (.ok false, { e with execd := true }) := by
  unfold runFirst
  simp only [hf, EM.bind_apply, EM.vm_apply]
  have hm : matchFlagM Facts.terminateFlag true e.vm = (.ok true, e.vm) := by
    simp [matchFlagM, getFlagM, VM.bind', VM.get, VM.lift, VM.pure', ht, bind, pure]
  rw [hm]
  simp [EM.modify_apply, EM.pure_apply, EM.bind_apply]

end Vise.C20
