/-
  C20 (second part) — unwinding at a graceful end, by theorem: `reset` (called by Flush when the session has
  ended) pops one navigation level and one cache scope at a time until it has left the top node.
-/
import Vise.Lemmas.VmMonad
import Vise.Lemmas.Flags
import Vise.Engine
import Vise.Lemmas.EngKeeps

namespace Vise.C20
open Vise EM

/-- `Up` on the state and `Pop` on the cache -/
def upPop (e : Eng) : Eng :=
  match e.vm.st.up with
  | .ok (_, st') => { e with vm := { e.vm with st := st', ca := e.vm.ca.pop.1 } }
  | _ => e

/-- what `reset` does once it has left the top node -/
def tailReset : EM Unit := do
  let e ← get
  match e.vm.st.restart with
  | .ok st' => modify fun e => { e with vm := { e.vm with st := st' } }
  | _ => pure ()
  let _ ← vm (resetFlagM Facts.terminateFlag)
  let _ ← vm (resetFlagM Facts.dirtyFlag)
  pure ()

theorem engReset_succ (fuel : Nat) (e : Eng) (hp : e.vm.st.execPath ≠ []) :
    engReset (fuel + 1) e =
      if e.vm.st.execPath.length = 1 then tailReset (upPop e) else engReset fuel (upPop e) := by
  obtain ⟨x, rest, hpath⟩ := List.exists_cons_of_ne_nil hp
  conv => lhs; unfold engReset
  by_cases hlen : e.vm.st.execPath.length = 1
  · simp only [EM.bind_apply, EM.get_apply, St.top, hpath, List.isEmpty_cons, Bool.false_eq_true, if_false,
      St.up, EM.modify_apply, tailReset, upPop]
    rw [hpath] at hlen
    simp only [hlen, decide_true, if_true]
    rfl
  · simp only [EM.bind_apply, EM.get_apply, St.top, hpath, List.isEmpty_cons, Bool.false_eq_true, if_false,
      St.up, EM.modify_apply, upPop]
    rw [hpath] at hlen
    simp only [hlen, decide_false, Bool.false_eq_true, if_false]

theorem upPop_facts (e : Eng) (x : Bytes) (rest : List Bytes) (hpath : e.vm.st.execPath = x :: rest)
    (f : Frame Bytes) (fr : List (Frame Bytes)) (hfr : e.vm.ca.frames = f :: fr) (hne : fr ≠ []) :
    (upPop e).vm.st.execPath = (x :: rest).dropLast ∧ (upPop e).vm.st.flags = e.vm.st.flags ∧
      (upPop e).vm.st.bitSize = e.vm.st.bitSize ∧ (upPop e).vm.ca.frames = fr := by
  have hfe : fr.isEmpty = false := by cases fr <;> simp_all
  simp [upPop, St.up, hpath, Cache.pop, hfr, hfe]

theorem tailReset_spec (e : Eng) (hp : e.vm.st.execPath = []) (hfl : FlagsOk e.vm.st) :
    (tailReset e).1 = .ok () ∧ (tailReset e).2.vm.st.execPath = [] ∧ (tailReset e).2.vm.ca = e.vm.ca ∧
    (∀ j, j ≠ Facts.terminateFlag → j ≠ Facts.dirtyFlag → (tailReset e).2.vm.st.getFlag j = e.vm.st.getFlag j) ∧
    (tailReset e).2.vm.st.getFlag Facts.terminateFlag = .ok false := by
  have hb : 8 ≤ e.vm.st.bitSize := hfl.1
  have h1 := resetFlagM_eq e.vm hfl Facts.terminateFlag (by simp [Facts.terminateFlag]; omega)
  have hfl2 : FlagsOk ({ e.vm with st := { e.vm.st with flags := e.vm.st.flags.set Facts.terminateFlag false } } : VmSt).st := by
    unfold FlagsOk at *; simpa using hfl
  have h2 := resetFlagM_eq _ hfl2 Facts.dirtyFlag (by simp [Facts.dirtyFlag]; omega)
  have hr : e.vm.st.restart = .err "no-root" := by simp [St.restart, hp]
  unfold tailReset
  simp only [EM.bind_apply, EM.get_apply, hr, EM.pure_apply, EM.vm_apply, h1, h2]
  refine ⟨trivial, by simp [hp], trivial, ?_, ?_⟩
  · intro j hj1 hj2
    unfold St.getFlag
    simp [List.getElem?_set_ne (Ne.symm hj1), List.getElem?_set_ne (Ne.symm hj2)]
  · have hl : Facts.terminateFlag < e.vm.st.flags.length := by
      have := hfl.2; simp [Facts.terminateFlag]; omega
    unfold St.getFlag
    have hne : Facts.dirtyFlag ≠ Facts.terminateFlag := by decide
    have hnb : ¬ (Facts.terminateFlag + 1 > e.vm.st.bitSize) := by simp [Facts.terminateFlag]; omega
    simp [hl, hnb]
    rw [List.getElem_set_ne hne]
    simp

/-- **Unwinding at a graceful end.** From any depth, with one cache scope per navigation level, `reset`
succeeds and leaves the empty path (the next request re-enters at the entry node), exactly the base scope
of the cache, TERMINATE cleared, and every flag other than TERMINATE and DIRTY - in particular all
client-defined flags - as it was. -/
theorem engReset_unwinds (fuel : Nat) : ∀ (e : Eng),
    e.vm.st.execPath ≠ [] → e.vm.st.execPath.length ≤ fuel → FlagsOk e.vm.st →
    e.vm.ca.frames.length = e.vm.st.execPath.length + 1 →
    (engReset fuel e).1 = .ok () ∧
    (engReset fuel e).2.vm.st.execPath = [] ∧
    (engReset fuel e).2.vm.ca.frames = e.vm.ca.frames.drop e.vm.st.execPath.length ∧
    (∀ j, j ≠ Facts.terminateFlag → j ≠ Facts.dirtyFlag →
      (engReset fuel e).2.vm.st.getFlag j = e.vm.st.getFlag j) ∧
    (engReset fuel e).2.vm.st.getFlag Facts.terminateFlag = .ok false := by
  induction fuel with
  | zero =>
    intro e hp hf
    have : e.vm.st.execPath = [] := List.eq_nil_of_length_eq_zero (by omega)
    exact absurd this hp
  | succ fuel ih =>
    intro e hp hf hfl hl
    obtain ⟨x, rest, hpath⟩ := List.exists_cons_of_ne_nil hp
    obtain ⟨f, fr, hfr⟩ : ∃ f fr, e.vm.ca.frames = f :: fr := by
      cases h : e.vm.ca.frames with
      | nil => simp [h] at hl
      | cons f fr => exact ⟨f, fr, rfl⟩
    have hfrlen : fr.length = rest.length + 1 := by simp [hfr, hpath] at hl; omega
    have hfrne : fr ≠ [] := by intro h; simp [h] at hfrlen
    obtain ⟨u1, u2, u3, u4⟩ := upPop_facts e x rest hpath f fr hfr hfrne
    have hfl' : FlagsOk (upPop e).vm.st := by unfold FlagsOk at *; rw [u2, u3]; exact hfl
    have hgf : ∀ j, (upPop e).vm.st.getFlag j = e.vm.st.getFlag j := by
      intro j; unfold St.getFlag; rw [u2, u3]
    rw [engReset_succ fuel e hp]
    by_cases hlen : e.vm.st.execPath.length = 1
    · have hrest : rest = [] := by rw [hpath] at hlen; simpa using hlen
      subst hrest
      simp only [hlen, if_true]
      obtain ⟨t1, t2, t3, t4, t5⟩ := tailReset_spec (upPop e) (by rw [u1]; rfl) hfl'
      refine ⟨t1, t2, ?_, ?_, t5⟩
      · rw [t3, u4, hfr]; simp
      · intro j h1 h2; rw [t4 j h1 h2, hgf]
    · simp only [hlen, if_false]
      have hrne : rest ≠ [] := by intro h; subst h; simp [hpath] at hlen
      have hp' : (upPop e).vm.st.execPath ≠ [] := by
        rw [u1]; intro h
        have := congrArg List.length h
        simp at this
        exact hrne this
      have hlen' : (upPop e).vm.st.execPath.length = rest.length := by rw [u1]; simp
      obtain ⟨i1, i2, i3, i4, i5⟩ := ih (upPop e) hp' (by rw [hlen']; rw [hpath] at hf; simp at hf; omega) hfl'
        (by rw [u4, hlen', hfrlen])
      refine ⟨i1, i2, ?_, ?_, i5⟩
      · rw [i3, u4, hlen', hfr, hpath]; simp
      · intro j h1 h2; rw [i4 j h1 h2, hgf]

/-- the engine after the render step of `Flush` -/
def afterRender (env : Env) (cfg : Cfg) (e : Eng) : Eng :=
  { e with vm := (vmRender env cfg.fuel (langOfEng e) e.vm).2 }

/-- when the session has ended, a successful Flush leaves what `reset` makes of the engine after the render -/
theorem flush_state (env : Env) (cfg : Cfg) (e : Eng) (hx : e.execd = true) (hex : e.exiting = true)
    (out : Bytes) (hok : (flush env cfg e).1 = .ok out) :
    (flush env cfg e).2 =
      { (engReset ((afterRender env cfg e).vm.st.execPath.length + 2) (afterRender env cfg e)).2 with
        exiting := false } := by
  unfold flush afterRender at *
  simp only [EM.bind_apply, EM.get_apply, hx, Bool.not_true, Bool.false_eq_true, if_false, EM.attempt_apply,
    EM.vm_apply] at hok ⊢
  rcases hr : vmRender env cfg.fuel (langOfEng e) e.vm with ⟨r, s1⟩
  simp only [hr] at hok ⊢
  cases r with
  | ok page =>
    simp [EM.bind_apply, hex]
  | panic p => simp at hok
  | err k m =>
    by_cases hz : e.exit.length = 0
    · simp [hz, EM.fail] at hok
    · simp [EM.bind_apply, hex, hz]

/-- **Flush unwinds at a graceful end.** When the session has ended (`exiting`), a successful Flush - whatever
it rendered - leaves the empty path (the next request re-enters at the entry node), exactly the base cache scope,
`exiting` cleared, and every flag other than TERMINATE and DIRTY (all client-defined flags) as it was after the
render; provided the render left one cache scope per navigation level. -/
theorem flush_unwinds (env : Env) (cfg : Cfg) (e : Eng) (hx : e.execd = true) (hex : e.exiting = true)
    (hp : (afterRender env cfg e).vm.st.execPath ≠ []) (hfl : FlagsOk (afterRender env cfg e).vm.st)
    (hl : (afterRender env cfg e).vm.ca.frames.length = (afterRender env cfg e).vm.st.execPath.length + 1)
    (out : Bytes) (hok : (flush env cfg e).1 = .ok out) :
    (flush env cfg e).2.vm.st.execPath = [] ∧
    (flush env cfg e).2.vm.ca.frames
      = (afterRender env cfg e).vm.ca.frames.drop (afterRender env cfg e).vm.st.execPath.length ∧
    (flush env cfg e).2.exiting = false ∧
    (∀ j, j ≠ Facts.terminateFlag → j ≠ Facts.dirtyFlag →
      (flush env cfg e).2.vm.st.getFlag j = (afterRender env cfg e).vm.st.getFlag j) ∧
    (flush env cfg e).2.vm.st.getFlag Facts.terminateFlag = .ok false := by
  obtain ⟨_, r2, r3, r4, r5⟩ := engReset_unwinds ((afterRender env cfg e).vm.st.execPath.length + 2)
    (afterRender env cfg e) hp (by omega) hfl hl
  rw [flush_state env cfg e hx hex out hok]
  exact ⟨r2, r3, rfl, r4, r5⟩

/-- non-vacuity: a session two levels deep with three cache scopes and a client flag set -/
example :
    let st : St := { (St.new 2) with execPath := [[0x72], [0x61]], flags := (St.new 2).flags.set 8 true }
    FlagsOk st ∧ st.execPath ≠ [] ∧ st.getFlag 8 = .ok true := by
  refine ⟨by unfold FlagsOk; decide, by decide, by decide⟩

/-! ### the remembered last value (the exit value) is delivered once -/

/-- **The exit value is taken, not copied**: at a graceful end the cache's remembered last value is cleared when it
becomes the exit value (`cache.Last()`), so it cannot be delivered again by a later end under the same session id. -/
theorem graceful_end_takes_last (e : Eng) (hd : e.vm.st.getFlag Facts.dirtyFlag = .ok true) :
    (setCode [] e).2.vm.ca.lastValue = [] ∧ (setCode [] e).2.vm.ca.frames = e.vm.ca.frames := by
  unfold setCode
  simp [St.setCode, matchFlagM, getFlagM, St.getFlag, Cache.last] at *
  simp [hd, Sized.empty]

/-- the cache's remembered last value is not changed -/
def ELast (e e' : Eng) : Prop := e'.vm.ca.lastValue = e.vm.ca.lastValue

theorem eLast_pre : EPre ELast := ⟨fun _ => rfl, fun _ _ _ h1 h2 => h2.trans h1⟩

theorem EKeeps.vm_last {α} {x : VM α} (h : Keeps SameCache x) : EKeeps ELast (EM.vm x) := by
  intro e
  simp only [EM.vm_apply, ELast]
  rw [h e.vm]

theorem pop_last (ca : Cache Bytes) : ca.pop.1.lastValue = ca.lastValue := by
  unfold Cache.pop
  split <;> rfl

theorem resetTail_last : EKeeps ELast (do
    let _ ← vm (resetFlagM Facts.terminateFlag)
    let _ ← vm (resetFlagM Facts.dirtyFlag)
    pure () : EM Unit) := by
  have P := eLast_pre
  apply EKeeps.bind P (EKeeps.vm_last (flagOps_sameCache _).2.1); intro _
  apply EKeeps.bind P (EKeeps.vm_last (flagOps_sameCache _).2.1); intro _
  exact EKeeps.pure P _

/-- unwinding (Up and Pop per level, Restart, flag resets) never touches the remembered last value -/
theorem engReset_last (fuel : Nat) : EKeeps ELast (engReset fuel) := by
  have P := eLast_pre
  induction fuel with
  | zero => unfold engReset; exact EKeeps.pure P _
  | succ fuel ih =>
    apply EKeeps.of_at; intro e
    unfold engReset
    apply EKeepsAt.get_bind P
    split
    · exact EKeepsAt.fail P _ _ _
    · exact EKeepsAt.raw P _ _
    · next isTop _ =>
      dsimp only
      have hjp : ∀ e', EKeepsAt ELast (if isTop = true then (do
            let e ← EM.get
            match e.vm.st.restart with
              | .ok st' => do
                EM.modify fun e => { e with vm := { e.vm with st := st' } }
                let _ ← vm (resetFlagM Facts.terminateFlag)
                let _ ← vm (resetFlagM Facts.dirtyFlag)
                pure ()
              | _ => do
                let _ ← vm (resetFlagM Facts.terminateFlag)
                let _ ← vm (resetFlagM Facts.dirtyFlag)
                pure () : EM Unit)
          else engReset fuel) e' := by
        intro e'
        split
        · apply EKeepsAt.get_bind P
          split
          · apply EKeepsAt.bind P (EKeepsAt.modify _ _ (by exact rfl)); intro _ e2 _
            exact resetTail_last e2
          · exact resetTail_last e'
        · exact ih e'
      split
      · apply EKeepsAt.bind P
        · exact EKeepsAt.modify _ _ (by simp only [ELast]; exact pop_last e.vm.ca)
        · intro _ e' _; exact hjp e'
      · apply EKeepsAt.bind P (EKeepsAt.fail P _ _ _); intro _ e' _; exact hjp e'

/-- the Flush that ends the session stores the cache with whatever last value the render left: the unwinding adds none -/
theorem flush_end_last (env : Env) (cfg : Cfg) (e : Eng) (hx : e.execd = true) (hex : e.exiting = true)
    (out : Bytes) (hok : (flush env cfg e).1 = .ok out) :
    (flush env cfg e).2.vm.ca.lastValue = (afterRender env cfg e).vm.ca.lastValue := by
  rw [flush_state env cfg e hx hex out hok]
  exact engReset_last _ (afterRender env cfg e)

end Vise.C20
